import DnsVerif.Spec.NameAt
import DnsVerif.Lemmas.DecPrim

/-! # Soundness of name decoding (C03: accepted ⇒ RFC grammar)

Whatever `D.name` (`Decoder::domain_name`) accepts is a name of the grammar `NameAt` (RFC 1035
§4.1.4) stored at the cursor, with at most 17 compression hops, below the size limit, with UTF-8
labels of 1..63 octets; the cursor ends right after the part stored in place and inside the window;
the cost (octets handed out by `Decoder::read`) is exactly `1 + sz n + 2·hops`.

No hypothesis on the decoder is needed: a success of the model excludes every out-of-bounds
situation by itself. -/

/-! ## `nameLabel` (`domain_name_label`) -/

/-- A successful `domain_name_label`: the `len` octets at the cursor are a label `lab` (1..63 octets,
UTF-8) which fits below the name size limit; the octet after it exists in the window and is returned;
the cursor and the cost advance by `len + 1`. No hypothesis on `d`. -/
theorem nameLabel_ok {d d' : D} {name name' : Name} {len nb : UInt8}
    (h : d.nameLabel name len = .ok (nb, name', d')) :
    ∃ lab : Label, lab.length = len.toNat ∧ 1 ≤ lab.length ∧ lab.length ≤ 63 ∧ validUtf8 lab = true ∧
      (∀ i, i < lab.length → d.buf[d.off + i]? = lab[i]?) ∧
      name' = name ++ [lab] ∧ Name.sz name + lab.length + 1 < 255 ∧
      d.buf[d.off + len.toNat]? = some nb ∧ d.off + len.toNat + 1 ≤ d.lim ∧
      d' = { d with off := d.off + len.toNat + 1, cost := d.cost + len.toNat + 1 } := by
  unfold D.nameLabel at h
  cases hr : d.read len.toNat with
  | error e => simp [hr] at h
  | ok p =>
    obtain ⟨lab, d1⟩ := p
    simp only [hr] at h
    obtain ⟨_, _, r3, r4⟩ := read_ok hr
    by_cases hu : validUtf8 lab = true
    · simp only [hu, Bool.not_true, Bool.false_eq_true, if_false] at h
      cases hc : checkLabel lab with
      | error e => simp [hc] at h
      | ok u =>
        simp only [hc] at h
        obtain ⟨c1, c2⟩ := checkLabel_ok hc
        cases ha : appendLabel name lab with
        | error e => simp [ha] at h
        | ok nm =>
          simp only [ha] at h
          obtain ⟨a1, a2⟩ := appendLabel_ok ha
          cases hu8 : d1.u8 with
          | error e => simp [hu8] at h
          | ok q =>
            obtain ⟨l2, d2⟩ := q
            simp only [hu8] at h
            injection h with h; injection h with h1 h; injection h with h2 h3
            subst h1; subst h2; subst h3
            obtain ⟨u1, u2, u3⟩ := u8_ok hu8
            subst r4
            simp only at u1 u2 u3
            have hin := getElem?_some_lt u1
            have hlen : lab.length = len.toNat := by
              rw [r3]; exact take_drop_length (by omega)
            refine ⟨lab, hlen, c1, c2, hu, ?_, a1, a2, u1, u2, u3⟩
            intro i hi
            rw [r3, take_drop_getElem? (by omega)]
    · have : validUtf8 lab = false := by simpa using hu
      simp [this] at h

/-- the errors of `domain_name_label` -/
theorem nameLabel_err {d : D} {name : Name} {len : UInt8} {e : DErr}
    (h : d.nameLabel name len = .error e) :
    e = .notEnoughBytes ∨ e = .utf8 ∨ e = .labelEmpty ∨ e = .labelLength ∨ e = .nameLength ∨
      ∃ s, e = .panic s := by
  unfold D.nameLabel at h
  cases hr : d.read len.toNat with
  | error e' =>
    simp only [hr] at h
    injection h with h; subst h
    rcases read_err hr with ⟨h1, _⟩ | ⟨h1, _⟩
    · exact .inl h1
    · exact .inr (.inr (.inr (.inr (.inr ⟨_, h1⟩))))
  | ok p =>
    obtain ⟨lab, d1⟩ := p
    simp only [hr] at h
    by_cases hu : validUtf8 lab = true
    · simp only [hu, Bool.not_true, Bool.false_eq_true, if_false] at h
      cases hc : checkLabel lab with
      | error e' =>
        simp only [hc] at h
        injection h with h; subst h
        rcases checkLabel_err hc with ⟨h1, _⟩ | ⟨h1, _⟩
        · exact .inr (.inr (.inl h1))
        · exact .inr (.inr (.inr (.inl h1)))
      | ok u =>
        simp only [hc] at h
        cases ha : appendLabel name lab with
        | error e' =>
          simp only [ha] at h
          injection h with h; subst h
          exact .inr (.inr (.inr (.inr (.inl (appendLabel_err ha).1))))
        | ok nm =>
          simp only [ha] at h
          cases hu8 : d1.u8 with
          | error e' =>
            simp only [hu8] at h
            injection h with h; subst h
            rcases u8_err hu8 with ⟨h1, _⟩ | ⟨h1, _⟩ | ⟨h1, _⟩
            · exact .inl h1
            · exact .inr (.inr (.inr (.inr (.inr ⟨_, h1⟩))))
            · exact .inr (.inr (.inr (.inr (.inr ⟨_, h1⟩))))
          | ok q => simp [hu8] at h
    · have : validUtf8 lab = false := by simpa using hu
      simp only [this, Bool.not_false, if_true] at h
      injection h with h
      exact .inr (.inl h.symm)

theorem UInt8.one_le_toNat_of_ne_zero {b : UInt8} (h : b ≠ 0) : 1 ≤ b.toNat := by
  rcases Nat.eq_zero_or_pos b.toNat with hz | hz
  · exfalso; apply h; exact UInt8.toNat_inj.mp (by simpa using hz)
  · exact hz

/-- Under the bounds `D.Ok` a label step (length octet `len ≠ 0`) cannot panic, and cannot report
`labelEmpty` either. -/
theorem nameLabel_err_ok {d : D} {name : Name} {len : UInt8} {e : DErr} (hd : D.Ok d) (hne : len ≠ 0)
    (h : d.nameLabel name len = .error e) :
    e = .notEnoughBytes ∨ e = .utf8 ∨ e = .labelLength ∨ e = .nameLength := by
  unfold D.nameLabel at h
  cases hr : d.read len.toNat with
  | error e' =>
    simp only [hr] at h
    injection h with h; subst h
    exact .inl (read_err_ok hd (by have := len.toNat_lt; omega) hr).1
  | ok p =>
    obtain ⟨lab, d1⟩ := p
    simp only [hr] at h
    obtain ⟨hadv, hlen⟩ := read_adv hd hr
    have hd1 := hadv.ok
    by_cases hu : validUtf8 lab = true
    · simp only [hu, Bool.not_true, Bool.false_eq_true, if_false] at h
      cases hc : checkLabel lab with
      | error e' =>
        simp only [hc] at h
        injection h with h; subst h
        rcases checkLabel_err hc with ⟨_, h2⟩ | ⟨h1, _⟩
        · have := UInt8.one_le_toNat_of_ne_zero hne; omega
        · exact .inr (.inr (.inl h1))
      | ok u =>
        simp only [hc] at h
        cases ha : appendLabel name lab with
        | error e' =>
          simp only [ha] at h
          injection h with h; subst h
          exact .inr (.inr (.inr (appendLabel_err ha).1))
        | ok nm =>
          simp only [ha] at h
          cases hu8 : d1.u8 with
          | error e' =>
            simp only [hu8] at h
            injection h with h; subst h
            exact .inl (u8_err_ok hd1 hu8).1
          | ok q => simp [hu8] at h
    · have : validUtf8 lab = false := by simpa using hu
      simp only [this, Bool.not_false, if_true] at h
      injection h with h
      exact .inr (.inl h.symm)

/-- a successful label step preserves the invariant -/
theorem nameLabel_Ok {d d' : D} {name name' : Name} {len nb : UInt8} (hd : D.Ok d)
    (h : d.nameLabel name len = .ok (nb, name', d')) : D.Ok d' := by
  obtain ⟨_, _, _, _, _, _, _, _, _, l8, l9⟩ := nameLabel_ok h
  subst l9
  exact ⟨l8, hd.lim_le, hd.len_lt⟩

/-! ## Second phase: `domain_name_recursion` on the outermost buffer -/

/-- Soundness of the second phase with exact cost accounting, the hop bound, and the fuel used.
`off` is the offset of the length octet `len` that has just been read (`d.off = off + 1`). -/
theorem nameRec_sound : ∀ (fuel : Nat) (d : D) (name : Name) (seen : List Nat) (len : UInt8)
    (off : Nat) (r : Name) (c' : Nat),
    d.off = off + 1 → d.buf[off]? = some len → seen.length ≤ 16 →
    nameRec fuel d name seen len = .ok (r, c') →
    ∃ n h e, r = name ++ n ∧ NameAt d.buf false off n h e ∧ (∀ l ∈ n, validUtf8 l = true) ∧
      (n ≠ [] → Name.sz r < 255) ∧ seen.length + h ≤ 16 ∧ n.length + h < fuel ∧
      c' = d.cost + Name.sz n + 2 * h := by
  intro fuel
  induction fuel with
  | zero => intro d name seen len off r c' _ _ _ h; simp [nameRec] at h
  | succ fuel ih =>
    intro d name seen len off r c' hoff hb hseen h
    unfold nameRec at h
    by_cases hz : len = 0
    · rw [if_pos hz] at h
      injection h with h; injection h with h1 h2
      subst h1; subst h2
      exact ⟨[], 0, off + 1, by simp, .root (by rw [hb, hz]), by simp, by simp, by omega,
        by simp, by simp⟩
    · rw [if_neg hz] at h
      by_cases hp : isPtr len = true
      · rw [if_pos hp] at h
        cases hu8 : d.u8 with
        | error e => simp [hu8] at h
        | ok p =>
          obtain ⟨b, d1⟩ := p
          simp only [hu8] at h
          obtain ⟨u1, _, u3⟩ := u8_ok hu8
          by_cases hns : seen.contains (ptrOff len b) = true
          · rw [if_pos hns] at h; cases h
          · rw [if_neg hns] at h
            by_cases hlen16 : seen.length + 1 > 16
            · rw [if_pos hlen16] at h; cases h
            · rw [if_neg hlen16] at h
              cases hu8' : ({ d1 with off := ptrOff len b } : D).u8 with
              | error e => simp [hu8'] at h
              | ok q =>
                obtain ⟨l2, d2⟩ := q
                simp only [hu8'] at h
                obtain ⟨v1, _, v3⟩ := u8_ok hu8'
                simp only at v1 v3
                have hbuf1 : d1.buf = d.buf := by rw [u3]
                have hd2 : d2.buf = d.buf := by rw [v3]; exact hbuf1
                obtain ⟨n, hh, e, hr, hn, hutf, hsz, hs, hfu, hc⟩ :=
                  ih d2 name (ptrOff len b :: seen) l2 (ptrOff len b) r c'
                    (by rw [v3]) (by rw [hd2, ← hbuf1]; exact v1) (by simp; omega) h
                rw [hd2] at hn
                refine ⟨n, hh + 1, off + 2, hr, ?_, hutf, hsz, by simp at hs; omega, by omega, ?_⟩
                · refine .ptr hb (by simpa [isPtr] using hp) ?_ (by simp) hn
                  rw [hoff] at u1; exact u1
                · rw [hc, v3, u3]; simp only; omega
      · rw [if_neg hp] at h
        cases hl : d.nameLabel name len with
        | error e => simp [hl] at h
        | ok p =>
          obtain ⟨nb, name', d1⟩ := p
          simp only [hl] at h
          obtain ⟨lab, l1, l1', l2, l3, l4, l5, l6, l7, _, l9⟩ := nameLabel_ok hl
          have hd1 : d1.buf = d.buf := by rw [l9]
          obtain ⟨n, hh, e, hr, hn, hutf, hsz, hs, hfu, hc⟩ :=
            ih d1 name' seen nb (off + 1 + len.toNat) r c'
              (by rw [l9]; simp only; omega) (by rw [hd1, ← hoff]; exact l7) hseen h
          rw [hd1] at hn
          refine ⟨lab :: n, hh, e, by rw [hr, l5]; simp, ?_, ?_, ?_, hs, by simp; omega, ?_⟩
          · refine .label hb (by omega) (by omega) l1 ?_ hn
            intro i hi
            have := l4 i hi
            rw [hoff] at this; exact this
          · intro l hl
            rcases List.mem_cons.mp hl with rfl | hl
            · exact l3
            · exact hutf l hl
          · intro _
            by_cases hn0 : n = []
            · subst hn0; rw [hr, l5]; simp [Name.sz_append, Name.sz_cons]; omega
            · exact hsz hn0
          · rw [hc, l9, Name.sz_cons]; simp only; omega

/-! ## First phase: `domain_name` inside the current window -/

/-- Soundness of `Decoder::domain_name` inside a window: the result is a name of the grammar, the
cursor ends right after the part stored in place and never leaves the window; at most 17 hops; every
label is UTF-8; the size stays below the limit; exact cost. -/
theorem nameWin_sound : ∀ (fuel : Nat) (d d' : D) (name r : Name) (len : UInt8) (off : Nat),
    d.off = off + 1 → d.off ≤ d.lim → d.buf[off]? = some len →
    nameWin fuel d name len = .ok (r, d') →
    ∃ n h e, r = name ++ n ∧ NameAt d.buf false off n h e ∧ (∀ l ∈ n, validUtf8 l = true) ∧
      (n ≠ [] → Name.sz r < 255) ∧ h ≤ 17 ∧
      d'.buf = d.buf ∧ d'.lim = d.lim ∧ d'.off = e ∧ e ≤ d.lim ∧
      d'.cost = d.cost + Name.sz n + 2 * h := by
  intro fuel
  induction fuel with
  | zero => intro d d' name r len off _ _ _ h; simp [nameWin] at h
  | succ fuel ih =>
    intro d d' name r len off hoff hol hb h
    unfold nameWin at h
    by_cases hz : len = 0
    · rw [if_pos hz] at h
      injection h with h; injection h with h1 h2
      subst h1; subst h2
      exact ⟨[], 0, off + 1, by simp, .root (by rw [hb, hz]), by simp, by simp, by omega,
        rfl, rfl, hoff, by omega, by simp⟩
    · rw [if_neg hz] at h
      by_cases hp : isPtr len = true
      · rw [if_pos hp] at h
        cases hu8 : d.u8 with
        | error e => simp [hu8] at h
        | ok p =>
          obtain ⟨b, d1⟩ := p
          simp only [hu8] at h
          obtain ⟨u1, u2, u3⟩ := u8_ok hu8
          cases hu8' : (D.mk d1.buf (ptrOff len b) d1.buf.length d1.cost).u8 with
          | error e => simp [hu8'] at h
          | ok q =>
            obtain ⟨l2, dm⟩ := q
            simp only [hu8'] at h
            obtain ⟨v1, _, v3⟩ := u8_ok hu8'
            simp only at v1 v3
            cases hrec : nameRec 200 dm name [] l2 with
            | error e => simp [hrec] at h
            | ok w =>
              obtain ⟨nm, c⟩ := w
              simp only [hrec] at h
              injection h with h; injection h with h1 h2
              subst h1; subst h2
              have hbuf1 : d1.buf = d.buf := by rw [u3]
              have hdm : dm.buf = d.buf := by rw [v3]; exact hbuf1
              obtain ⟨n, hh, e, hr, hn, hutf, hsz, hs, _, hc⟩ :=
                nameRec_sound 200 dm name [] l2 (ptrOff len b) nm c
                  (by rw [v3]) (by rw [hdm, ← hbuf1]; exact v1) (by simp) hrec
              rw [hdm] at hn
              refine ⟨n, hh + 1, off + 2, hr, ?_, hutf, hsz, by simp at hs; omega, ?_, ?_, ?_, ?_, ?_⟩
              · refine .ptr hb (by simpa [isPtr] using hp) ?_ (by simp) hn
                rw [hoff] at u1; exact u1
              · simp only [hbuf1]
              · simp only [u3]
              · simp only [u3]; omega
              · rw [hoff] at u2; omega
              · simp only [hc, v3, u3]; omega
      · rw [if_neg hp] at h
        cases hl : d.nameLabel name len with
        | error e => simp [hl] at h
        | ok p =>
          obtain ⟨nb, name', d1⟩ := p
          simp only [hl] at h
          obtain ⟨lab, l1, l1', l2, l3, l4, l5, l6, l7, l8, l9⟩ := nameLabel_ok hl
          have hd1 : d1.buf = d.buf := by rw [l9]
          obtain ⟨n, hh, e, hr, hn, hutf, hsz, h17, hb', hl', ho', he', hc'⟩ :=
            ih d1 d' name' r nb (off + 1 + len.toNat)
              (by rw [l9]; simp only; omega) (by rw [l9]; exact l8)
              (by rw [hd1, ← hoff]; exact l7) h
          rw [hd1] at hn hb'
          refine ⟨lab :: n, hh, e, by rw [hr, l5]; simp, ?_, ?_, ?_, h17, hb', by rw [hl', l9], ho',
            by rw [l9] at he'; exact he', ?_⟩
          · refine .label hb (by omega) (by omega) l1 ?_ hn
            intro i hi
            have := l4 i hi
            rw [hoff] at this; exact this
          · intro l hl
            rcases List.mem_cons.mp hl with rfl | hl
            · exact l3
            · exact hutf l hl
          · intro _
            by_cases hn0 : n = []
            · subst hn0; rw [hr, l5]; simp [Name.sz_append, Name.sz_cons]; omega
            · exact hsz hn0
          · rw [hc', l9, Name.sz_cons]; simp only; omega

/-! ## The entry point `D.name` -/

/-- **C03 for names (accepted ⇒ RFC grammar), with the C07 work bound.** Whatever `D.name` accepts —
for ANY decoder state, no bounds assumed — is a name of the grammar stored at the cursor. -/
theorem name_sound {d d' : D} {n : Name} (h : d.name = .ok (n, d')) :
    ∃ hops, hops ≤ 17 ∧ NameAt d.buf false d.off n hops d'.off ∧
      d'.buf = d.buf ∧ d'.lim = d.lim ∧ d.off < d'.off ∧ d'.off ≤ d.lim ∧
      Name.sz n < 255 ∧ wfName n ∧ (∀ l ∈ n, validUtf8 l = true) ∧
      d'.cost = d.cost + 1 + Name.sz n + 2 * hops := by
  unfold D.name at h
  cases hu8 : d.u8 with
  | error e => simp [hu8] at h
  | ok p =>
    obtain ⟨l, d1⟩ := p
    simp only [hu8] at h
    obtain ⟨u1, u2, u3⟩ := u8_ok hu8
    obtain ⟨m, hh, e, hr, hn, hutf, hsz, h17, hb', hl', ho', he', hc'⟩ :=
      nameWin_sound 200 d1 d' [] n l d.off (by rw [u3]) (by rw [u3]; exact u2)
        (by rw [u3]; exact u1) h
    simp only [List.nil_append] at hr
    subst hr
    have hbuf1 : d1.buf = d.buf := by rw [u3]
    rw [hbuf1] at hn hb'
    refine ⟨hh, h17, by rw [ho']; exact hn, hb', by rw [hl', u3], ?_, ?_, ?_, hn.wf, hutf, ?_⟩
    · rw [ho']; exact hn.end_gt
    · rw [ho']; rw [u3] at he'; exact he'
    · by_cases hn0 : n = []
      · subst hn0; simp
      · exact hsz hn0
    · rw [hc', u3]

/-- **C07 for names (bounded work):** a successful name costs at most 289 octets of `read`. -/
theorem name_cost_le {d d' : D} {n : Name} (h : d.name = .ok (n, d')) : d'.cost ≤ d.cost + 289 := by
  obtain ⟨hops, h17, _, _, _, _, _, hsz, _, _, hc⟩ := name_sound h
  omega

/-- the invariant is preserved -/
theorem name_Ok {d d' : D} {n : Name} (hd : D.Ok d) (h : d.name = .ok (n, d')) : D.Ok d' := by
  obtain ⟨_, _, _, hb, hl, hlt, hle, _⟩ := name_sound h
  exact ⟨by rw [hl]; exact hle, by rw [hl, hb]; exact hd.lim_le, by rw [hb]; exact hd.len_lt⟩

/-! ## Non-vacuity: `3www0` at 0, `1a` + pointer to 0 at 5, decoded from offset 5 -/

private def exBuf : Bytes := [3, 119, 119, 119, 0, 1, 97, 192, 0]

example : D.name { buf := exBuf, off := 5, lim := 9, cost := 0 } =
    .ok ([[97], [119, 119, 119]], { buf := exBuf, off := 9, lim := 9, cost := 1 + 6 + 2 * 1 }) := rfl

example : nameRec 200 { buf := exBuf, off := 1, lim := 9, cost := 0 } [] [] 3 =
    .ok ([[119, 119, 119]], 4) := rfl
