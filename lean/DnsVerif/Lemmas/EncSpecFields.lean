import DnsVerif.Lemmas.EncSpecAlg
import DnsVerif.Lemmas.Utf8
import DnsVerif.Spec.WF

/-! # Encoder ⇒ wire grammar: names, character-strings and the fields of the regular record types

`cstr_spec`, `encCstrs_spec`, `encField_spec` (every `(Fld, FVal)` pair), `encFields_spec`, and the
literal variant `encFieldsU_spec` for field lists without compressible names (C18). -/

namespace EncSpec

/-! ## Names -/

/-- … and are UTF-8-valid together -/
theorem lower_utf8 : ∀ {a b : Name}, a.lower = b.lower → (∀ l ∈ b, validUtf8 l = true) →
    ∀ l ∈ a, validUtf8 l = true := by
  intro a
  induction a with
  | nil => intro b _ _ l hl; simp at hl
  | cons x r ih =>
    intro b h hb l hl
    cases b with
    | nil => simp [Name.lower] at h
    | cons x' r' =>
      simp only [Name.lower, List.map_cons, List.cons.injEq] at h
      rcases List.mem_cons.mp hl with rfl | hl
      · exact validUtf8_ci x' l h.1 (hb x' (by simp))
      · exact ih (b := r') h.2 (fun y hy => hb y (by simp [hy])) l hl

theorem lower_eq_nil {a : Name} (h : a.lower = Name.lower []) : a = [] := by
  cases a with
  | nil => rfl
  | cons _ _ => simp [Name.lower] at h

/-- **`Encoder::domain_name`**: a legal name reference (backward pointers, ≤ 16 hops) to a name that
is ASCII-case-equal to `n` -/
theorem spec_name {n : Name} (hwf : WfName n) :
    WSpec (fun e => encName e n)
      (fun buf s t => ∃ n', n'.lower = n.lower ∧ NameRefAt buf true s n' t) := by
  intro S e e' hinv h
  obtain ⟨x, hx, _, hinv', n', hh, hci, h16, hname⟩ := encName_spec n S e e' hwf.1 hinv h
  exact ⟨x, hx, hinv', fun buf' ha => ⟨n', hci, hh, hname buf' ha, h16, lower_utf8 hci hwf.2.2,
    by rw [lower_sz hci]; exact hwf.2.1⟩⟩

/-- **`Encoder::domain_name_uncompressed`** (C18): exactly `Name.wire n` is appended and it reads as
the name `n` ITSELF (same case) with ZERO pointer hops -/
theorem spec_nameU {n : Name} (hwf : WfName n) :
    WSpec (fun e => encNameU e n)
      (fun buf s t => t = s + (Name.wire n).length ∧ BytesAt buf s (Name.wire n) ∧
        NameAt buf true s n 0 t) := by
  intro S e e' hinv h
  obtain ⟨hx, _, hinv', hname⟩ := encNameU_spec n S e e' hwf.1 hinv h
  have hL : e'.out.length = e.out.length + (Name.wire n).length := by rw [hx]; simp
  refine ⟨Name.wire n, hx, hinv', fun buf' ha => ⟨hL, ?_, hname buf' ha⟩⟩
  have ha2 : Agree (ext S e.out.length (e.out.length + (Name.wire n).length))
      (e.out ++ Name.wire n) buf' := by rw [← hx, ← hL]; exact ha
  exact bytesAt_put ha2

theorem nameRef_of_literal {buf : Bytes} {s t : Nat} {n : Name} (hwf : WfName n)
    (h : NameAt buf true s n 0 t) : NameRefAt buf true s n t :=
  ⟨0, h, by simp [maxHops], hwf.2.2, hwf.2.1⟩

/-! ## `<character-string>`s -/

/-- `Encoder::string`: succeeds iff the string fits one length octet, and writes it -/
theorem cstr_spec (s : Bytes) : WSpec (fun e => e.cstr s) (fun buf off t => CStrAt buf off s t) := by
  by_cases hs : s.length > 255
  · intro S e e' _ h; simp [Enc.cstr, hs] at h
  · refine ((spec_put (UInt8.ofNat s.length :: s)).of_eq
      (fun e => by simp [Enc.cstr, hs, wPut])).conseq ?_
    rintro buf off t _ _ ⟨rfl, hb⟩
    refine ⟨by omega, bytesAt_head hb, ?_, by simp; omega⟩
    exact bytesAt_right (x := [UInt8.ofNat s.length]) hb

theorem cstr_error (e : Enc) (s : Bytes) (err : EErr) :
    e.cstr s = .error err ↔ (255 < s.length ∧ err = .string) := by
  unfold Enc.cstr
  by_cases hs : s.length > 255
  · rw [if_pos hs]
    constructor
    · intro h; injection h with h; exact ⟨hs, h.symm⟩
    · rintro ⟨_, rfl⟩; rfl
  · rw [if_neg hs]
    constructor
    · intro h; cases h
    · rintro ⟨h, _⟩; exact absurd h hs

theorem chain_cstrs {buf : Bytes} {lim : Nat} : ∀ {off : Nat} {l : List Bytes},
    ChainAt (fun s buf off t => CStrAt buf off s t ∧ validUtf8 s = true) buf lim off l →
    CStrsAt buf lim off l := by
  intro off l h
  induction h with
  | nil => exact .nil
  | cons _ h2 hΦ _ ih =>
    obtain ⟨hc, hu⟩ := hΦ
    exact .cons (by have := hc.2.2.2; omega) hc h2 hu ih

/-- a run of character-strings (TXT, ALPN) fills its window exactly -/
theorem encCstrs_spec {l : List Bytes} (hl : ∀ s ∈ l, validUtf8 s = true) :
    WSpec (fun e => encCstrs e l) (fun buf off t => CStrsAt buf t off l) := by
  refine (spec_list encCstrs Enc.cstr (fun _ => rfl) (fun _ _ _ => rfl)
    (Φ := fun s buf off t => CStrAt buf off s t ∧ validUtf8 s = true)
    (P := fun s => validUtf8 s = true)
    (fun s hs => (cstr_spec s).conseq (fun _ _ _ _ _ h => ⟨h, hs⟩)) l hl).conseq ?_
  intro buf s t _ _ h
  exact chain_cstrs h

/-! ## One field -/

/-- fields that extend to the end of the RDATA window (they can only be the last field) -/
def toEnd : Fld → Bool
  | .strs => true
  | .rest _ => true
  | .ocstr _ => true
  | _ => false

/-- the field/value pairs whose rendering must end exactly at the window end (`FieldAt.strs`,
`.rest`, `.ocstrNone` fix `end = lim`) -/
def needsEnd : Fld → FVal → Bool
  | .strs, _ => true
  | .rest _, _ => true
  | .ocstr _, .obytes none => true
  | _, _ => false

theorem needsEnd_toEnd {f : Fld} {v : FVal} (h : needsEnd f v = true) : toEnd f = true := by
  cases f <;> cases v <;> simp_all [needsEnd, toEnd]

/-- what one field writer guarantees: a rendering of a value `v'` that equals `v` up to ASCII case
of names, inside any window `[.., lim)` that contains it (and ends with it for `needsEnd` pairs) -/
def FieldSpec (f : Fld) (v : FVal) (buf : Bytes) (s t : Nat) : Prop :=
  ∃ v', v'.lower = v.lower ∧
    ∀ lim, t ≤ lim → (needsEnd f v = true → lim = t) → FieldAt buf true lim s f v' t

/-- the literal variant: the value itself (same case), and a name is stored with zero pointer hops
as its uncompressed wire form -/
def FieldSpecU (f : Fld) (v : FVal) (buf : Bytes) (s t : Nat) : Prop :=
  (∀ lim, t ≤ lim → (needsEnd f v = true → lim = t) → FieldAt buf true lim s f v t) ∧
  ∀ n, v = .name n → NameAt buf true s n 0 t ∧ BytesAt buf s (Name.wire n)

/-- **Every field writer emits a rendering of its value.** -/
theorem encField_spec {f : Fld} {v : FVal} (hwf : WfVal f v) :
    WSpec (fun e => encField e f v) (FieldSpec f v) := by
  cases f with
  | num w =>
    cases v with
    | num n =>
      refine ((spec_put (beBytes w n)).of_eq (fun e => rfl)).conseq ?_
      rintro buf s t _ _ ⟨rfl, hb⟩
      refine ⟨.num n, rfl, fun lim hle _ => ?_⟩
      rw [beBytes_length] at hle ⊢
      exact .num hwf hb hle
    | _ => exact hwf.elim
  | «enum» w id =>
    cases v with
    | num n =>
      refine ((spec_put (beBytes w n)).of_eq (fun e => rfl)).conseq ?_
      rintro buf s t _ _ ⟨rfl, hb⟩
      refine ⟨.num n, rfl, fun lim hle _ => ?_⟩
      rw [beBytes_length] at hle ⊢
      exact .enum hwf.1 hwf.2 hb hle
    | _ => exact hwf.elim
  | name c =>
    cases v with
    | name n =>
      cases c with
      | true =>
        refine ((spec_name (n := n) hwf).of_eq (fun e => rfl)).conseq ?_
        rintro buf s t _ _ ⟨n', hci, hr⟩
        exact ⟨.name n', by simp [FVal.lower, hci], fun lim hle _ => .name hr hle⟩
      | false =>
        refine ((spec_nameU (n := n) hwf).of_eq (fun e => rfl)).conseq ?_
        rintro buf s t _ _ ⟨_, _, hn⟩
        exact ⟨.name n, rfl, fun lim hle _ => .name (nameRef_of_literal hwf hn) hle⟩
    | _ => exact hwf.elim
  | cstr c =>
    cases v with
    | bytes s =>
      refine ((cstr_spec s).of_eq (fun e => rfl)).conseq ?_
      intro buf off t _ _ hc
      exact ⟨.bytes s, rfl, fun lim hle _ => .cstr hc hle hwf.2.1 hwf.2.2⟩
    | _ => exact hwf.elim
  | ocstr c =>
    cases v with
    | obytes o =>
      cases o with
      | none =>
        refine (spec_skip.of_eq (fun e => rfl)).conseq ?_
        rintro buf s t _ _ rfl
        refine ⟨.obytes none, rfl, fun lim _ hlim => ?_⟩
        rw [hlim rfl]
        exact .ocstrNone
      | some s =>
        refine ((cstr_spec s).of_eq (fun e => rfl)).conseq ?_
        intro buf off t _ _ hc
        refine ⟨.obytes (some s), rfl, fun lim hle _ => ?_⟩
        exact .ocstrSome (by have := hc.2.2.2; omega) hc hle hwf.2.1 hwf.2.2
    | _ => exact hwf.elim
  | strs =>
    cases v with
    | strs l =>
      refine ((encCstrs_spec (l := l) (fun s hs => (hwf.2 s hs).2)).of_eq (fun e => rfl)).conseq ?_
      intro buf off t _ _ hc
      refine ⟨.strs l, rfl, fun lim _ hlim => ?_⟩
      rw [hlim rfl]
      exact .strs hwf.1 hc
    | _ => exact hwf.elim
  | rest u =>
    cases v with
    | bytes b =>
      refine ((spec_put b).of_eq (fun e => rfl)).conseq ?_
      rintro buf s t _ _ ⟨rfl, hb⟩
      refine ⟨.bytes b, rfl, fun lim _ hlim => ?_⟩
      rw [hlim rfl]
      exact .rest hb rfl hwf
    | _ => exact hwf.elim
  | oct k c =>
    cases v with
    | bytes b =>
      refine ((spec_put b).of_eq (fun e => rfl)).conseq ?_
      rintro buf s t _ _ ⟨rfl, hb⟩
      refine ⟨.bytes b, rfl, fun lim hle _ => ?_⟩
      have hbl : b.length = k * c := hwf
      rw [hbl] at hle ⊢
      exact .oct hwf hb hle
    | _ => exact hwf.elim

/-- a value that is not a name is determined by its `lower` -/
theorem FVal.eq_of_lower {v v' : FVal} (h : v'.lower = v.lower) (hv : ∀ n, v ≠ .name n) : v' = v := by
  cases v with
  | name n => exact absurd rfl (hv n)
  | _ => cases v' <;> simp_all [FVal.lower]

/-- **Fields other than compressible names are written literally** (C18, `uncompressed_literal`):
the rendering is of the value itself, and a name is read back with zero pointer hops from exactly
its uncompressed wire octets. -/
theorem encFieldU_spec {f : Fld} {v : FVal} (hwf : WfVal f v) (hf : f ≠ .name true) :
    WSpec (fun e => encField e f v) (FieldSpecU f v) := by
  by_cases hn : ∃ n, v = .name n
  · obtain ⟨n, rfl⟩ := hn
    cases f with
    | name c =>
      cases c with
      | true => exact absurd rfl hf
      | false =>
        refine ((spec_nameU (n := n) hwf).of_eq (fun e => rfl)).conseq ?_
        rintro buf s t _ _ ⟨_, hb, hna⟩
        refine ⟨fun lim hle _ => .name (nameRef_of_literal hwf hna) hle, ?_⟩
        intro n' hn'
        cases hn'
        exact ⟨hna, hb⟩
    | _ => exact hwf.elim
  · refine (encField_spec hwf).conseq ?_
    rintro buf s t _ _ ⟨v', hv', hF⟩
    have : v' = v := FVal.eq_of_lower hv' (fun n h => hn ⟨n, h⟩)
    subst this
    exact ⟨hF, fun n h => absurd ⟨n, h⟩ hn⟩

/-- **C18, `uncompressed_literal`**: a field written by `Encoder::domain_name_uncompressed` holds
exactly the octets `Name.wire n`; they read as the name `n` itself with zero pointer hops, in every
buffer that keeps the frozen octets. -/
theorem uncompressed_literal {S : Nat → Prop} {e e' : Enc} {n : Name} (hinv : EInv S e) (hwf : WfName n)
    (h : encField e (.name false) (.name n) = .ok e') :
    e'.out = e.out ++ Name.wire n ∧ e'.idx = e.idx ∧ EInv (ext S e.out.length e'.out.length) e' ∧
    ∀ buf', Agree (ext S e.out.length e'.out.length) e'.out buf' →
      NameAt buf' true e.out.length n 0 e'.out.length ∧ BytesAt buf' e.out.length (Name.wire n) := by
  have h' : encNameU e n = .ok e' := h
  obtain ⟨hx, hidx, hinv', _⟩ := encNameU_spec n S e e' hwf.1 hinv h'
  refine ⟨hx, hidx, hinv', fun buf' ha => ?_⟩
  obtain ⟨_, _, hf⟩ := (spec_nameU hwf).run hinv h'
  exact ⟨(hf buf' ha).2.2, (hf buf' ha).2.1⟩

/-! ## Field lists -/

/-- the chain of per-field facts along the field list, filling `[s, lim)` exactly -/
inductive FChain (Ψ : Fld → FVal → Bytes → Nat → Nat → Prop) (buf : Bytes) (lim : Nat) :
    Nat → List Fld → List FVal → Prop
  | nil : FChain Ψ buf lim lim [] []
  | cons {s m f v fs vs} : s ≤ m → m ≤ lim → Ψ f v buf s m → FChain Ψ buf lim m fs vs →
      FChain Ψ buf lim s (f :: fs) (v :: vs)

theorem encFields_chain {Ψ : Fld → FVal → Bytes → Nat → Nat → Prop} {P : Fld → Prop}
    (hitem : ∀ f v, WfVal f v → P f → WSpec (fun e => encField e f v) (Ψ f v)) :
    ∀ (fs : List Fld) (vs : List FVal), WfVals fs vs → (∀ f ∈ fs, P f) →
      WSpec (fun e => encFields e fs vs) (fun buf s t => FChain Ψ buf t s fs vs) := by
  intro fs
  induction fs with
  | nil =>
    intro vs hwf _
    cases vs with
    | nil =>
      refine (spec_skip.of_eq (fun e => rfl)).conseq ?_
      rintro buf s t _ _ rfl
      exact .nil
    | cons _ _ => exact hwf.elim
  | cons f fs ih =>
    intro vs hwf hP
    cases vs with
    | nil => exact hwf.elim
    | cons v vs =>
      refine ((spec_seq (hitem f v hwf.1 (hP f (by simp)))
        (ih vs hwf.2 (fun g hg => hP g (by simp [hg])))).of_eq (fun e => rfl)).conseq ?_
      rintro buf s t _ _ ⟨m, h1, h2, hΨ, hc⟩
      exact .cons h1 h2 hΨ hc

/-- window-filling fields occur only in the last position -/
def lastOnly : List Fld → Bool
  | [] => true
  | [_] => true
  | f :: g :: fs => !toEnd f && lastOnly (g :: fs)

theorem FChain.end_eq {Ψ : Fld → FVal → Bytes → Nat → Nat → Prop} {buf : Bytes} {lim s : Nat}
    {vs : List FVal} (h : FChain Ψ buf lim s [] vs) : s = lim := by
  cases h; rfl

theorem chain_fields {buf : Bytes} {lim : Nat} : ∀ {s : Nat} {fs : List Fld} {vs : List FVal},
    FChain FieldSpec buf lim s fs vs → lastOnly fs = true →
    ∃ vs', vs'.map FVal.lower = vs.map FVal.lower ∧ FieldsAt buf true lim s fs vs' := by
  intro s fs vs h
  induction h with
  | nil => exact fun _ => ⟨[], rfl, .nil⟩
  | @cons s m f v fs vs _ h2 hΨ hc ih =>
    intro hlast
    have hlast' : lastOnly fs = true := by
      cases fs with
      | nil => rfl
      | cons g gs => simp [lastOnly] at hlast; exact hlast.2
    obtain ⟨vs', hvs', hfs⟩ := ih hlast'
    obtain ⟨v', hv', hF⟩ := hΨ
    refine ⟨v' :: vs', by simp [hv', hvs'], .cons (hF lim h2 ?_) hfs⟩
    intro hte
    cases fs with
    | nil => exact hc.end_eq.symm
    | cons g gs => simp [lastOnly, needsEnd_toEnd hte] at hlast

/-- `FieldsAt` for the value list itself, and every name in it is stored literally -/
inductive LitFieldsAt (buf : Bytes) (lim : Nat) : Nat → List Fld → List FVal → Prop
  | nil : LitFieldsAt buf lim lim [] []
  | cons {off off' f v fs vs} : FieldAt buf true lim off f v off' →
      (∀ n, v = .name n → NameAt buf true off n 0 off' ∧ BytesAt buf off (Name.wire n)) →
      LitFieldsAt buf lim off' fs vs → LitFieldsAt buf lim off (f :: fs) (v :: vs)

theorem LitFieldsAt.fieldsAt {buf : Bytes} {lim s : Nat} {fs : List Fld} {vs : List FVal}
    (h : LitFieldsAt buf lim s fs vs) : FieldsAt buf true lim s fs vs := by
  induction h with
  | nil => exact .nil
  | cons hF _ _ ih => exact .cons hF ih

theorem chain_fieldsU {buf : Bytes} {lim : Nat} : ∀ {s : Nat} {fs : List Fld} {vs : List FVal},
    FChain FieldSpecU buf lim s fs vs → lastOnly fs = true → LitFieldsAt buf lim s fs vs := by
  intro s fs vs h
  induction h with
  | nil => exact fun _ => .nil
  | @cons s m f v fs vs _ h2 hΨ hc ih =>
    intro hlast
    have hlast' : lastOnly fs = true := by
      cases fs with
      | nil => rfl
      | cons g gs => simp [lastOnly] at hlast; exact hlast.2
    refine .cons (hΨ.1 lim h2 ?_) hΨ.2 (ih hlast')
    intro hte
    cases fs with
    | nil => exact hc.end_eq.symm
    | cons g gs => simp [lastOnly, needsEnd_toEnd hte] at hlast

/-- **The fields of a record fill the written region exactly** and render values that equal the
given ones up to ASCII case of (compressible) names. -/
theorem encFields_spec {fs : List Fld} {vs : List FVal} (hwf : WfVals fs vs) (hlast : lastOnly fs = true) :
    WSpec (fun e => encFields e fs vs)
      (fun buf s t => ∃ vs', vs'.map FVal.lower = vs.map FVal.lower ∧ FieldsAt buf true t s fs vs') := by
  refine (encFields_chain (P := fun _ => True) (fun f v h _ => encField_spec h) fs vs hwf
    (fun _ _ => trivial)).conseq ?_
  intro buf s t _ _ h
  exact chain_fields h hlast

/-- **Without compressible name fields everything is literal** (C18). -/
theorem encFieldsU_spec {fs : List Fld} {vs : List FVal} (hwf : WfVals fs vs) (hlast : lastOnly fs = true)
    (hnc : ∀ f ∈ fs, f ≠ .name true) :
    WSpec (fun e => encFields e fs vs) (fun buf s t => LitFieldsAt buf t s fs vs) := by
  refine (encFields_chain (P := fun f => f ≠ .name true) (fun f v h hf => encFieldU_spec h hf) fs vs hwf
    hnc).conseq ?_
  intro buf s t _ _ h
  exact chain_fieldsU h hlast

/-! ## Facts about the record table (by evaluating `rrKind`) -/

/-- `rrKind` is defined exactly on `implementedTypes` -/
theorem rrKind_some_mem {ty : Nat} {k : RRKind} (h : rrKind ty = some k) : ty ∈ implementedTypes := by
  unfold rrKind at h
  split at h <;> first | (simp [implementedTypes]; done) | (cases h)

/-- window-filling fields (`strs`, `rest`, optional string) are last in every row -/
theorem rrKind_lastOnly {ty : Nat} {info : RRInfo} (h : rrKind ty = some (.regular info)) :
    lastOnly (info.flds.map (·.2)) = true := by
  have hm := rrKind_some_mem h
  simp only [implementedTypes, List.mem_cons, List.not_mem_nil, or_false] at hm
  rcases hm with rfl | rfl | rfl | rfl | rfl | rfl | rfl | rfl | rfl | rfl | rfl | rfl | rfl | rfl | rfl | rfl |
    rfl | rfl | rfl | rfl | rfl | rfl | rfl | rfl | rfl | rfl | rfl | rfl | rfl | rfl | rfl | rfl | rfl | rfl |
    rfl | rfl | rfl | rfl | rfl | rfl | rfl | rfl | rfl | rfl | rfl | rfl <;>
  first | (cases h; decide) | (cases h)

theorem rrKind_ty_lt {ty : Nat} {k : RRKind} (h : rrKind ty = some k) : ty < 258 := by
  have hm := rrKind_some_mem h
  simp only [implementedTypes, List.mem_cons, List.not_mem_nil, or_false] at hm
  omega

theorem rrKind_opt {ty : Nat} (h : rrKind ty = some .opt) : ty = 41 := by
  have hm := rrKind_some_mem h
  simp only [implementedTypes, List.mem_cons, List.not_mem_nil, or_false] at hm
  rcases hm with rfl | rfl | rfl | rfl | rfl | rfl | rfl | rfl | rfl | rfl | rfl | rfl | rfl | rfl | rfl | rfl |
    rfl | rfl | rfl | rfl | rfl | rfl | rfl | rfl | rfl | rfl | rfl | rfl | rfl | rfl | rfl | rfl | rfl | rfl |
    rfl | rfl | rfl | rfl | rfl | rfl | rfl | rfl | rfl | rfl | rfl | rfl <;>
  first | rfl | (cases h)

/-! ## Non-vacuity -/

example : WfVal (.cstr .tag) (.bytes [0x69, 0x73, 0x73, 0x75, 0x65]) :=
  ⟨by decide, by decide, rfl⟩

example : ∃ e', encField {} (.cstr .tag) (.bytes [0x69, 0x73]) = .ok e' ∧ e'.out = [2, 0x69, 0x73] :=
  ⟨_, rfl, rfl⟩

/-- MX: a number and a compressible name -/
example : WfVals [.num 2, .name true] [.num 10, .name [[97]]] ∧ lastOnly [.num 2, .name true] = true ∧
    ∃ e', encFields {} [.num 2, .name true] [.num 10, .name [[97]]] = .ok e' ∧ e'.out = [0, 10, 1, 97, 0] := by
  refine ⟨⟨(by decide : 10 < 256 ^ 2), ⟨?_, by decide, ?_⟩, trivial⟩, by decide, _, rfl, rfl⟩
  · intro l hl; simp at hl; subst hl; simp [wfLabel]
  · intro l hl; simp at hl; subst hl; decide

end EncSpec
