import DnsVerif.Lemmas.SafeMsg

/-! # Per-function cost lemmas (C07) and window-locality lemmas (locality half of C09)

## Cost
`f_cost : D.Ok d → f d = .ok (v, d') → d'.cost - d.cost ≤ K_f * (d'.off - d.off)`: the octets handed out
by `Decoder::read` / `Decoder::bytes` during `f` are at most `K_f` per octet of the window consumed
(so a function that succeeds without consuming — `.ocstr` at the window end, an empty list, `.rest` on
an empty remainder — costs nothing). The constants: `1` for everything made of plain reads, `2` for
options / items / parameters (a `withSub` window around plain reads), `289` for names and everything
containing a name (fields, RDATA bodies, questions), `290` for records and messages (the RDATA window
around a body of constant 289).

## Locality
`p_within`: a primitive started in the window `[d.off, d.lim)` returns exactly the octets
`(d.buf.drop d.off).take k` with `d.off + k ≤ d.lim` — never an octet at or beyond `d.lim`;
`f_within`: the compound decoders leave the cursor inside the window (`d.off ≤ d'.off ≤ d.lim`, same
buffer, same limit). A name is the exception allowed by the property: its in-place part ends inside the
window (`name_within`), the rest is reached through compression pointers.
The stronger statement — the decoded value does not depend on any octet after the window — is
`decRData_local` / `decRR_local` / `decFields_local` in `SafeLocalBodies.lean`. -/

namespace Safe

/-! ## Cost per function -/

theorem read_cost {d d' : D} {n : Nat} {bs : Bytes} (hd : D.Ok d) (hn : n < 2 ^ 63)
    (h : d.read n = .ok (bs, d')) : d'.cost - d.cost ≤ 1 * (d'.off - d.off) :=
  ((read_post hd hn).step h).cost
theorem num_cost {d d' : D} {w v : Nat} (hd : D.Ok d) (hw : w < 2 ^ 63)
    (h : d.num w = .ok (v, d')) : d'.cost - d.cost ≤ 1 * (d'.off - d.off) :=
  ((num_post hd hw).step h).cost
theorem rest_cost {d d' : D} {bs : Bytes} (hd : D.Ok d) (h : d.rest = .ok (bs, d')) :
    d'.cost - d.cost ≤ 1 * (d'.off - d.off) := ((rest_post hd).step h).cost
theorem cstr_cost {d d' : D} {s : Bytes} (hd : D.Ok d) (h : d.cstr = .ok (s, d')) :
    d'.cost - d.cost ≤ 1 * (d'.off - d.off) := ((cstr_post hd).step h).cost
theorem name_cost {d d' : D} {n : Name} (hd : D.Ok d) (h : d.name = .ok (n, d')) :
    d'.cost - d.cost ≤ 289 * (d'.off - d.off) := ((name_post hd).step h).cost
/-- a window costs its body plus one more charge per octet (the `read` that makes the slice) -/
theorem withSub_cost {α : Type} {K : Nat} {d d' : D} {len : Nat} {f : D → Except DErr (α × D)} {a : α}
    (hd : D.Ok d) (hlen : len < 2 ^ 63)
    (hf : ∀ c : D, D.Ok c → c.buf = d.buf → c.off = d.off → c.lim = d.off + len → Post K 0 c (f c))
    (h : d.withSub len f = .ok (a, d')) : d'.cost - d.cost ≤ (K + 1) * (d'.off - d.off) :=
  ((withSub_post hd hlen hf).step h).cost
theorem octs_cost {k c : Nat} {d d' : D} {b : Bytes} (hd : D.Ok d) (hc : c < 2 ^ 63)
    (h : D.octs k c d = .ok (b, d')) : d'.cost - d.cost ≤ 1 * (d'.off - d.off) :=
  ((octs_post k c d hd hc).step h).cost
theorem cstrs_cost {fuel : Nat} {d d' : D} {l : List Bytes} (hd : D.Ok d) (hf : d.lim - d.off < fuel)
    (h : D.cstrs fuel d = .ok (l, d')) : d'.cost - d.cost ≤ 1 * (d'.off - d.off) :=
  ((cstrs_post fuel d hd hf).step h).cost
theorem decField_cost {d d' : D} {f : Fld} {v : FVal} (hd : D.Ok d) (hs : f.small = true)
    (h : decField d f = .ok (v, d')) : d'.cost - d.cost ≤ 289 * (d'.off - d.off) :=
  ((decField_post hd f hs).step h).cost
theorem decFields_cost {d d' : D} {fs : List Fld} {vs : List FVal} (hd : D.Ok d)
    (hs : fs.all Fld.small = true) (h : decFields d fs = .ok (vs, d')) :
    d'.cost - d.cost ≤ 289 * (d'.off - d.off) := ((decFields_post fs d hd hs).step h).cost
theorem family_cost {d d' : D} {n : Nat} (hd : D.Ok d) (h : d.family = .ok (n, d')) :
    d'.cost - d.cost ≤ 1 * (d'.off - d.off) := ((family_post hd).step h).cost
theorem address_cost {d d' : D} {fam : Nat} {b : Bytes} (hd : D.Ok d) (h : d.address fam = .ok (b, d')) :
    d'.cost - d.cost ≤ 1 * (d'.off - d.off) := ((address_post hd fam).step h).cost
theorem decEcs_cost {d d' : D} {o : EdnsOpt} (hd : D.Ok d) (h : decEcs d = .ok (o, d')) :
    d'.cost - d.cost ≤ 1 * (d'.off - d.off) := ((decEcs_post hd).step h).cost
theorem decCookie_cost {d d' : D} {o : EdnsOpt} (hd : D.Ok d) (h : decCookie d = .ok (o, d')) :
    d'.cost - d.cost ≤ 1 * (d'.off - d.off) := ((decCookie_post hd).step h).cost
theorem decPadding_cost {d d' : D} {o : EdnsOpt} (hd : D.Ok d) (h : decPadding d = .ok (o, d')) :
    d'.cost - d.cost ≤ 1 * (d'.off - d.off) := ((decPadding_post hd).step h).cost
theorem decOption_cost {d d' : D} {o : EdnsOpt} (hd : D.Ok d) (h : decOption d = .ok (o, d')) :
    d'.cost - d.cost ≤ 2 * (d'.off - d.off) := ((decOption_post hd).step h).cost
theorem decOptions_cost {fuel : Nat} {d d' : D} {l : List EdnsOpt} (hd : D.Ok d)
    (hf : d.lim - d.off < fuel) (h : decOptions fuel d = .ok (l, d')) :
    d'.cost - d.cost ≤ 2 * (d'.off - d.off) := ((decOptions_post fuel d hd hf).step h).cost
theorem decApItem_cost {d d' : D} {o : APItem} (hd : D.Ok d) (h : decApItem d = .ok (o, d')) :
    d'.cost - d.cost ≤ 2 * (d'.off - d.off) := ((decApItem_post hd).step h).cost
theorem decApItems_cost {fuel : Nat} {d d' : D} {l : List APItem} (hd : D.Ok d)
    (hf : d.lim - d.off < fuel) (h : decApItems fuel d = .ok (l, d')) :
    d'.cost - d.cost ≤ 2 * (d'.off - d.off) := ((decApItems_post fuel d hd hf).step h).cost
theorem nums16_cost {fuel : Nat} {d d' : D} {l : List Nat} (hd : D.Ok d) (hf : d.lim - d.off < fuel)
    (h : D.nums16 fuel d = .ok (l, d')) : d'.cost - d.cost ≤ 1 * (d'.off - d.off) :=
  ((nums16_post fuel d hd hf).step h).cost
theorem hints_cost {fuel k c : Nat} {d d' : D} {l : List Bytes} (hd : D.Ok d) (hkc : 0 < k * c)
    (hc : c < 2 ^ 63) (hf : d.lim - d.off < fuel) (h : D.hints fuel k c d = .ok (l, d')) :
    d'.cost - d.cost ≤ 1 * (d'.off - d.off) := ((hints_post fuel k c d hd hkc hc hf).step h).cost
theorem decSvcParam_cost {key : Nat} {d d' : D} {p : SvcParam} (hd : D.Ok d)
    (h : decSvcParam key d = .ok (p, d')) : d'.cost - d.cost ≤ 1 * (d'.off - d.off) :=
  ((decSvcParam_post key hd).step h).cost
theorem decSvcParams_cost {fuel : Nat} {d d' : D} {acc l : List SvcParam} (hd : D.Ok d)
    (hf : d.lim - d.off < fuel) (h : decSvcParams fuel d acc = .ok (l, d')) :
    d'.cost - d.cost ≤ 2 * (d'.off - d.off) := ((decSvcParams_post fuel d acc hd hf).step h).cost
theorem decRData_cost {name : Name} {ty cls ttl : Nat} {c c' : D} {r : RR} (hc : D.Ok c)
    (h : decRData name ty cls ttl c = .ok (r, c')) : c'.cost - c.cost ≤ 289 * (c'.off - c.off) :=
  ((decRData_post name ty cls ttl hc).step h).cost
theorem decRR_cost {d d' : D} {r : RR} (hd : D.Ok d) (h : decRR d = .ok (r, d')) :
    d'.cost - d.cost ≤ 290 * (d'.off - d.off) := ((decRR_post hd).step h).cost
theorem decQuestion_cost {d d' : D} {q : Question} (hd : D.Ok d) (h : decQuestion d = .ok (q, d')) :
    d'.cost - d.cost ≤ 289 * (d'.off - d.off) := ((decQuestion_post hd).step h).cost
theorem decFlags_cost {d d' : D} {f : Flags} (hd : D.Ok d) (h : decFlags d = .ok (f, d')) :
    d'.cost - d.cost ≤ 1 * (d'.off - d.off) := ((decFlags_post hd).step h).cost
theorem decQuestions_cost {k : Nat} {d d' : D} {l : List Question} (hd : D.Ok d)
    (h : decQuestions k d = .ok (l, d')) : d'.cost - d.cost ≤ 289 * (d'.off - d.off) :=
  ((decQuestions_post k d hd).step h).cost
theorem decRRs_cost {k : Nat} {d d' : D} {l : List RR} (hd : D.Ok d) (h : decRRs k d = .ok (l, d')) :
    d'.cost - d.cost ≤ 290 * (d'.off - d.off) := ((decRRs_post k d hd).step h).cost
theorem decMsg_cost {d d' : D} {m : Msg} (hd : D.Ok d) (h0 : d.off = 0) (h : decMsg d = .ok (m, d')) :
    d'.cost - d.cost ≤ 290 * (d'.off - d.off) := ((decMsg_post hd h0).step h).cost

/-! ## Locality: primitives return only octets of their window -/

theorem read_within {d d' : D} {n : Nat} {bs : Bytes} (h : d.read n = .ok (bs, d')) :
    bs = (d.buf.drop d.off).take n ∧ d.off + n ≤ d.lim := by
  obtain ⟨r1, _, r3, _⟩ := read_ok h; exact ⟨r3, r1⟩

theorem u8_within {d d' : D} {b : UInt8} (h : d.u8 = .ok (b, d')) :
    d.buf[d.off]? = some b ∧ d.off + 1 ≤ d.lim := by
  obtain ⟨u1, u2, _⟩ := u8_ok h; exact ⟨u1, u2⟩

theorem num_within {d d' : D} {w v : Nat} (h : d.num w = .ok (v, d')) :
    v = beVal ((d.buf.drop d.off).take w) ∧ d.off + w ≤ d.lim := by
  obtain ⟨n1, n2, _⟩ := num_ok h; exact ⟨n2, n1⟩

theorem rest_within {d d' : D} {bs : Bytes} (h : d.rest = .ok (bs, d')) :
    bs = (d.buf.drop d.off).take (d.lim - d.off) ∧ d.off + (d.lim - d.off) ≤ d.lim := by
  obtain ⟨r1, r2, _⟩ := rest_ok h; exact ⟨r2, by omega⟩

/-- a `<character-string>`: the length octet and the `k` octets after it lie inside the window -/
theorem cstr_within {d d' : D} {s : Bytes} (h : d.cstr = .ok (s, d')) :
    ∃ k, s = (d.buf.drop (d.off + 1)).take k ∧ d.off + 1 + k ≤ d.lim ∧ d'.off = d.off + 1 + k := by
  obtain ⟨len, _, c2, c3, _, c5⟩ := cstr_ok h
  exact ⟨len.toNat, c3, c2, by rw [c5]⟩

theorem octs_within : ∀ (k c : Nat) (d d' : D) (bs : Bytes), d.off ≤ d.lim → D.octs k c d = .ok (bs, d') →
    bs = (d.buf.drop d.off).take (k * c) ∧ d.off + k * c ≤ d.lim ∧
      d'.off = d.off + k * c ∧ d'.buf = d.buf ∧ d'.lim = d.lim := by
  intro k
  induction k with
  | zero =>
    intro c d d' bs hol h
    unfold D.octs at h
    injection h with h; injection h with h1 h2
    subst h1; subst h2
    simpa using hol
  | succ k ih =>
    intro c d d' bs _ h
    unfold D.octs at h
    cases hr : d.read c with
    | error e => simp [hr] at h
    | ok p =>
      obtain ⟨b, d1⟩ := p
      simp only [hr] at h
      obtain ⟨r1, _, r3, r4⟩ := read_ok hr
      cases ho : D.octs k c d1 with
      | error e => simp [ho] at h
      | ok q =>
        obtain ⟨r, d2⟩ := q
        simp only [ho] at h
        injection h with h; injection h with h1 h2
        subst h1; subst h2
        subst r4
        obtain ⟨i1, i2, i3, i4, i5⟩ := ih c _ d2 r r1 ho
        simp only at i1 i2 i3 i4 i5
        refine ⟨?_, by rw [Nat.succ_mul]; omega, by rw [i3, Nat.succ_mul]; omega, i4, i5⟩
        rw [r3, i1, Nat.succ_mul, Nat.add_comm (k * c) c, List.take_add, List.drop_drop]

/-- a name: its in-place part (labels up to the root octet or the first pointer) ends inside the window;
only compression pointers lead outside -/
theorem name_within {d d' : D} {n : Name} (h : d.name = .ok (n, d')) :
    ∃ hops, NameAt d.buf false d.off n hops d'.off ∧ d.off < d'.off ∧ d'.off ≤ d.lim := by
  obtain ⟨hops, _, hn, _, _, h1, h2, _⟩ := name_sound h
  exact ⟨hops, hn, h1, h2⟩

/-! ## Locality: compound decoders never move the cursor beyond the window limit -/

theorem Step.within {K m : Nat} {d d' : D} (s : Step K m d d') :
    d'.buf = d.buf ∧ d'.lim = d.lim ∧ d.off ≤ d'.off ∧ d'.off ≤ d.lim :=
  ⟨s.buf, s.lim, Nat.le_trans (Nat.le_add_right _ _) s.off, s.le_lim⟩

theorem decFields_within {d d' : D} {fs : List Fld} {vs : List FVal} (hd : D.Ok d)
    (hs : fs.all Fld.small = true) (h : decFields d fs = .ok (vs, d')) :
    d'.buf = d.buf ∧ d'.lim = d.lim ∧ d.off ≤ d'.off ∧ d'.off ≤ d.lim :=
  ((decFields_post fs d hd hs).step h).within
theorem decOptions_within {fuel : Nat} {d d' : D} {l : List EdnsOpt} (hd : D.Ok d)
    (hf : d.lim - d.off < fuel) (h : decOptions fuel d = .ok (l, d')) :
    d'.buf = d.buf ∧ d'.lim = d.lim ∧ d.off ≤ d'.off ∧ d'.off ≤ d.lim :=
  ((decOptions_post fuel d hd hf).step h).within
theorem decApItems_within {fuel : Nat} {d d' : D} {l : List APItem} (hd : D.Ok d)
    (hf : d.lim - d.off < fuel) (h : decApItems fuel d = .ok (l, d')) :
    d'.buf = d.buf ∧ d'.lim = d.lim ∧ d.off ≤ d'.off ∧ d'.off ≤ d.lim :=
  ((decApItems_post fuel d hd hf).step h).within
theorem decSvcParams_within {fuel : Nat} {d d' : D} {acc l : List SvcParam} (hd : D.Ok d)
    (hf : d.lim - d.off < fuel) (h : decSvcParams fuel d acc = .ok (l, d')) :
    d'.buf = d.buf ∧ d'.lim = d.lim ∧ d.off ≤ d'.off ∧ d'.off ≤ d.lim :=
  ((decSvcParams_post fuel d acc hd hf).step h).within
theorem decRData_within {name : Name} {ty cls ttl : Nat} {c c' : D} {r : RR} (hc : D.Ok c)
    (h : decRData name ty cls ttl c = .ok (r, c')) :
    c'.buf = c.buf ∧ c'.lim = c.lim ∧ c.off ≤ c'.off ∧ c'.off ≤ c.lim :=
  ((decRData_post name ty cls ttl hc).step h).within

/-- framing of a record (C09): the RDATA body is decoded in the window `[off, off + rdlen)` that the
header announces, ends exactly at its limit, and the record ends exactly there too -/
theorem decRR_framing {d d' : D} {r : RR} (hd : D.Ok d) (h : decRR d = .ok (r, d')) :
    ∃ (name : Name) (ty cls ttl rdlen : Nat) (d5 c : D), D.Ok d5 ∧ d5.buf = d.buf ∧ d5.lim = d.lim ∧
      d.off + 11 ≤ d5.off ∧ d5.off + rdlen ≤ d.lim ∧
      decRData name ty cls ttl { buf := d.buf, off := d5.off, lim := d5.off + rdlen, cost := d5.cost + rdlen }
        = .ok (r, c) ∧ c.off = d5.off + rdlen ∧ c.lim = d5.off + rdlen ∧ d'.off = d5.off + rdlen := by
  unfold decRR at h
  cases h1 : d.name with
  | error e => simp [h1] at h
  | ok p1 =>
    obtain ⟨name, d1⟩ := p1
    simp only [h1] at h
    have s1 := (name_post hd).step h1
    cases h2 : d1.num 2 with
    | error e => simp [h2] at h
    | ok p2 =>
      obtain ⟨ty, d2⟩ := p2
      simp only [h2] at h
      have s2 := (num_post s1.ok (w := 2) (by omega)).step h2
      split at h
      · cases h
      cases h3 : d2.num 2 with
      | error e => simp [h3] at h
      | ok p3 =>
        obtain ⟨cls, d3⟩ := p3
        simp only [h3] at h
        have s3 := (num_post s2.ok (w := 2) (by omega)).step h3
        cases h4 : d3.num 4 with
        | error e => simp [h4] at h
        | ok p4 =>
          obtain ⟨ttl, d4⟩ := p4
          simp only [h4] at h
          have s4 := (num_post s3.ok (w := 4) (by omega)).step h4
          cases h5 : d4.num 2 with
          | error e => simp [h5] at h
          | ok p5 =>
            obtain ⟨rdlen, d5⟩ := p5
            simp only [h5] at h
            have s5 := (num_post s4.ok (w := 2) (by omega)).step h5
            obtain ⟨w1, c, w2, w3, w4⟩ := withSub_ok h
            have hb : d5.buf = d.buf := by rw [s5.buf, s4.buf, s3.buf, s2.buf, s1.buf]
            have hl : d5.lim = d.lim := by rw [s5.lim, s4.lim, s3.lim, s2.lim, s1.lim]
            have hclim : c.lim = d5.off + rdlen := by
              have hcc := withSub_child_Ok (c0 := d5.cost + rdlen) s5.ok w1
              exact ((decRData_post name ty cls ttl hcc).step w2).lim
            refine ⟨name, ty, cls, ttl, rdlen, d5, c, s5.ok, hb, hl, ?_, by omega, ?_, by omega, hclim,
              by rw [w4]⟩
            · have := s1.off; have := s2.off; have := s3.off; have := s4.off; have := s5.off; omega
            · rw [← hb]; exact w2

/-! ## Non-vacuity -/

private def exD : D := { buf := [9, 8, 7, 6, 5, 4], off := 1, lim := 5, cost := 0 }

example : D.octs 2 2 exD = .ok ([8, 7, 6, 5], { exD with off := 5, cost := 4 }) := rfl
example : (exD.buf.drop exD.off).take (2 * 2) = [8, 7, 6, 5] := rfl
/-- the octet at `lim` is never handed out -/
example : D.octs 1 5 exD = .error .notEnoughBytes := rfl

end Safe
