import DnsVerif.Model.Dec

/-! # Inversion and forward lemmas for the decoder primitives of `Model/Dec.lean`

For every primitive `p` (`read`, `u8`, `num`, `rest`, `isFinished`, `finished`, `cstr`, `withSub`):
* `p_ok`   : what a success of `p` says (no hypothesis on the decoder);
* `p_err`  : which errors are possible at all;
* `p_at`   : a forward (rewriting) lemma: when the window has room, `p` succeeds with this value;
* under the bounds `D.Ok d` (cursor inside the window, window inside the buffer, buffer shorter than
  `2^63` = Rust's allocation limit `isize::MAX`): `p_err_ok` (the only possible errors; never a panic),
  `p_noPanic`, and `p_adv` (the resulting decoder is `d` advanced by exactly the octets consumed, in the
  same window, again `D.Ok`). -/

/-- The decoder state invariant: cursor inside the window, window inside the (outermost) buffer,
buffer below Rust's allocation limit. -/
structure D.Ok (d : D) : Prop where
  off_le : d.off ≤ d.lim
  lim_le : d.lim ≤ d.buf.length
  len_lt : d.buf.length < 2 ^ 63

theorem D.Ok_iff (d : D) : D.Ok d ↔ d.off ≤ d.lim ∧ d.lim ≤ d.buf.length ∧ d.buf.length < 2 ^ 63 :=
  ⟨fun ⟨a, b, c⟩ => ⟨a, b, c⟩, fun ⟨a, b, c⟩ => ⟨a, b, c⟩⟩

theorem D.Ok.off_lt {d : D} (h : D.Ok d) : d.off < 2 ^ 63 := by
  have := h.off_le; have := h.lim_le; have := h.len_lt; omega

theorem D.main_Ok (b : Bytes) (h : b.length < 2 ^ 63) : D.Ok (D.main b) :=
  ⟨Nat.zero_le _, Nat.le_refl _, h⟩

/-- `d'` is `d` moved forward by `k` octets inside the same window, every octet counted exactly once
in `cost`, and the invariant still holds. -/
structure D.Adv (d d' : D) (k : Nat) : Prop where
  buf : d'.buf = d.buf
  lim : d'.lim = d.lim
  off : d'.off = d.off + k
  cost : d'.cost = d.cost + k
  ok : D.Ok d'

theorem D.Adv.refl {d : D} (h : D.Ok d) : D.Adv d d 0 := ⟨rfl, rfl, rfl, rfl, h⟩

theorem D.Adv.trans {d d' d'' : D} {j k : Nat} (h1 : D.Adv d d' j) (h2 : D.Adv d' d'' k) :
    D.Adv d d'' (j + k) :=
  ⟨h2.buf.trans h1.buf, h2.lim.trans h1.lim, by rw [h2.off, h1.off]; omega,
   by rw [h2.cost, h1.cost]; omega, h2.ok⟩

theorem D.Adv.off_le {d d' : D} {k : Nat} (h : D.Adv d d' k) : d.off + k ≤ d.lim := by
  have := h.ok.off_le; rw [h.off, h.lim] at this; exact this

/-! ## List facts -/

theorem getElem?_some_lt {buf : Bytes} {i : Nat} {b : UInt8} (h : buf[i]? = some b) :
    i < buf.length := by
  rcases Nat.lt_or_ge i buf.length with hc | hc
  · exact hc
  · rw [List.getElem?_eq_none hc] at h; cases h

theorem take_drop_length {buf : Bytes} {off n : Nat} (h : off + n ≤ buf.length) :
    ((buf.drop off).take n).length = n := by
  rw [List.length_take, List.length_drop]; omega

theorem take_drop_getElem? {buf : Bytes} {off n i : Nat} (hi : i < n) :
    ((buf.drop off).take n)[i]? = buf[off + i]? := by
  rw [List.getElem?_take_of_lt hi, List.getElem?_drop]

/-- a slice of the buffer is characterised by its octets -/
theorem take_drop_eq {buf : Bytes} {off : Nat} {x : Bytes} (hlen : off + x.length ≤ buf.length)
    (hx : ∀ i, i < x.length → buf[off + i]? = x[i]?) : (buf.drop off).take x.length = x := by
  apply List.ext_getElem?
  intro i
  by_cases hi : i < x.length
  · rw [take_drop_getElem? hi, hx i hi]
  · have := take_drop_length (buf := buf) (off := off) (n := x.length) hlen
    rw [List.getElem?_eq_none (by omega), List.getElem?_eq_none (by omega)]

/-! ## `read` -/

theorem read_ok {d d' : D} {n : Nat} {bs : Bytes} (h : d.read n = .ok (bs, d')) :
    d.off + n ≤ d.lim ∧ d.off + n < 2 ^ 64 ∧ bs = (d.buf.drop d.off).take n ∧
      d' = { d with off := d.off + n, cost := d.cost + n } := by
  unfold D.read at h
  by_cases h1 : 2 ^ 64 ≤ d.off + n
  · simp [h1] at h
  · by_cases h2 : d.off + n ≤ d.lim
    · simp only [h1, h2, if_true, if_false] at h
      injection h with h; injection h with ha hb
      exact ⟨h2, by omega, ha.symm, hb.symm⟩
    · simp [h1, h2] at h

/-- the only errors of `read`: out of the window, or the (unreachable) `usize` overflow -/
theorem read_err {d : D} {n : Nat} {e : DErr} (h : d.read n = .error e) :
    (e = .notEnoughBytes ∧ d.lim < d.off + n ∧ d.off + n < 2 ^ 64) ∨
    (e = .panic "read: offset += length" ∧ 2 ^ 64 ≤ d.off + n) := by
  unfold D.read at h
  by_cases h1 : 2 ^ 64 ≤ d.off + n
  · simp only [h1, if_true] at h
    injection h with h
    exact .inr ⟨h.symm, h1⟩
  · by_cases h2 : d.off + n ≤ d.lim
    · simp [h1, h2] at h
    · simp only [h1, h2, if_false] at h
      injection h with h
      exact .inl ⟨h.symm, by omega, by omega⟩

/-- forward lemma -/
theorem read_at {d : D} {n : Nat} (hl : d.off + n ≤ d.lim) (h64 : d.off + n < 2 ^ 64) :
    d.read n = .ok ((d.buf.drop d.off).take n, { d with off := d.off + n, cost := d.cost + n }) := by
  unfold D.read
  have h1 : ¬ (2 ^ 64 ≤ d.off + n) := by omega
  simp only [h1, hl, if_true, if_false]

/-- forward lemma for a slice known octet by octet -/
theorem read_at_eq {buf : Bytes} {off lim c : Nat} {x : Bytes}
    (hl : off + x.length ≤ lim) (hlb : lim ≤ buf.length) (hB : buf.length < 2 ^ 63)
    (hx : ∀ i, i < x.length → buf[off + i]? = x[i]?) :
    D.read { buf := buf, off := off, lim := lim, cost := c } x.length =
      .ok (x, { buf := buf, off := off + x.length, lim := lim, cost := c + x.length }) := by
  rw [read_at (by simpa using hl) (by simp only; omega)]
  simp only
  rw [take_drop_eq (by omega) hx]

theorem read_length {d d' : D} {n : Nat} {bs : Bytes} (hlim : d.lim ≤ d.buf.length)
    (h : d.read n = .ok (bs, d')) : bs.length = n := by
  obtain ⟨r1, _, r3, _⟩ := read_ok h
  rw [r3]; exact take_drop_length (by omega)

theorem read_getElem? {d d' : D} {n : Nat} {bs : Bytes} (h : d.read n = .ok (bs, d')) :
    ∀ i, i < n → bs[i]? = d.buf[d.off + i]? := by
  obtain ⟨_, _, r3, _⟩ := read_ok h
  intro i hi; rw [r3]; exact take_drop_getElem? hi

theorem read_err_ok {d : D} {n : Nat} {e : DErr} (hd : D.Ok d) (hn : n < 2 ^ 63)
    (h : d.read n = .error e) : e = .notEnoughBytes ∧ d.lim < d.off + n := by
  rcases read_err h with ⟨h1, h2, _⟩ | ⟨_, h2⟩
  · exact ⟨h1, h2⟩
  · have := hd.off_lt; omega

theorem read_noPanic {d : D} {n : Nat} (hd : D.Ok d) (hn : n < 2 ^ 63) (s : String) :
    d.read n ≠ .error (.panic s) := by
  intro h; have := (read_err_ok hd hn h).1; cases this

theorem read_adv {d d' : D} {n : Nat} {bs : Bytes} (hd : D.Ok d) (h : d.read n = .ok (bs, d')) :
    D.Adv d d' n ∧ bs.length = n := by
  obtain ⟨r1, _, _, r4⟩ := read_ok h
  refine ⟨?_, read_length hd.lim_le h⟩
  subst r4
  exact ⟨rfl, rfl, rfl, rfl, ⟨r1, hd.lim_le, hd.len_lt⟩⟩

/-! ## `u8` -/

theorem u8_ok {d d' : D} {b : UInt8} (h : d.u8 = .ok (b, d')) :
    d.buf[d.off]? = some b ∧ d.off + 1 ≤ d.lim ∧
      d' = { d with off := d.off + 1, cost := d.cost + 1 } := by
  unfold D.u8 at h
  cases hr : d.read 1 with
  | error e => simp [hr] at h
  | ok p =>
    obtain ⟨bs, d1⟩ := p
    simp only [hr] at h
    obtain ⟨r1, _, r3, r4⟩ := read_ok hr
    cases bs with
    | nil => simp at h
    | cons x t =>
      simp only at h
      injection h with h; injection h with ha hb
      subst ha; subst hb
      refine ⟨?_, r1, r4⟩
      have := congrArg (fun l => l[0]?) r3
      simp only [List.getElem?_cons_zero] at this
      rw [this, take_drop_getElem? (by omega)]; simp

/-- the only errors of `u8` -/
theorem u8_err {d : D} {e : DErr} (h : d.u8 = .error e) :
    (e = .notEnoughBytes ∧ d.lim < d.off + 1) ∨
    (e = .panic "read: offset += length" ∧ 2 ^ 64 ≤ d.off + 1) ∨
    (e = .panic "u8: buffer[0]" ∧ d.off + 1 ≤ d.lim ∧ d.buf.length ≤ d.off) := by
  unfold D.u8 at h
  cases hr : d.read 1 with
  | error e' =>
    simp only [hr] at h
    injection h with h; subst h
    rcases read_err hr with ⟨h1, h2, _⟩ | ⟨h1, h2⟩
    · exact .inl ⟨h1, h2⟩
    · exact .inr (.inl ⟨h1, h2⟩)
  | ok p =>
    obtain ⟨bs, d1⟩ := p
    simp only [hr] at h
    obtain ⟨r1, _, r3, _⟩ := read_ok hr
    cases bs with
    | cons x t => simp at h
    | nil =>
      simp only at h
      injection h with h
      refine .inr (.inr ⟨h.symm, r1, ?_⟩)
      rcases Nat.lt_or_ge d.off d.buf.length with hc | hc
      · have := congrArg List.length r3
        rw [take_drop_length (by omega)] at this; simp at this
      · exact hc

/-- forward lemma -/
theorem u8_at {buf : Bytes} {off lim c : Nat} {b : UInt8} (hb : buf[off]? = some b)
    (hl : off + 1 ≤ lim) (h64 : off + 1 < 2 ^ 64) :
    D.u8 { buf := buf, off := off, lim := lim, cost := c } =
      .ok (b, { buf := buf, off := off + 1, lim := lim, cost := c + 1 }) := by
  unfold D.u8
  rw [read_at (by simpa using hl) (by simpa using h64)]
  have hlt := getElem?_some_lt hb
  have : (List.drop off buf).take 1 = [b] := by
    apply List.ext_getElem?
    intro i
    by_cases hi : i < 1
    · have : i = 0 := by omega
      subst this
      rw [take_drop_getElem? (by omega)]; simpa using hb
    · have := take_drop_length (buf := buf) (off := off) (n := 1) (by omega)
      rw [List.getElem?_eq_none (by omega), List.getElem?_eq_none (by simp; omega)]
  simp only [this]

/-- forward lemma, bounds from the buffer length -/
theorem u8_at' {buf : Bytes} {off lim c : Nat} {b : UInt8} (hb : buf[off]? = some b)
    (hl : off + 1 ≤ lim) (hB : buf.length < 2 ^ 63) :
    D.u8 { buf := buf, off := off, lim := lim, cost := c } =
      .ok (b, { buf := buf, off := off + 1, lim := lim, cost := c + 1 }) :=
  u8_at hb hl (by have := getElem?_some_lt hb; omega)

theorem u8_err_ok {d : D} {e : DErr} (hd : D.Ok d) (h : d.u8 = .error e) :
    e = .notEnoughBytes ∧ d.off = d.lim := by
  have := hd.off_lt; have := hd.off_le; have := hd.lim_le
  rcases u8_err h with ⟨h1, h2⟩ | ⟨_, h2⟩ | ⟨_, h2⟩
  · exact ⟨h1, by omega⟩
  · omega
  · omega

/-- the same from weaker bounds (the cursor may be outside the window, e.g. after a pointer jump) -/
theorem u8_err_of_bounds {d : D} {e : DErr} (hoff : d.off + 1 < 2 ^ 64) (hlim : d.lim ≤ d.buf.length)
    (h : d.u8 = .error e) : e = .notEnoughBytes ∧ d.lim < d.off + 1 := by
  rcases u8_err h with ⟨h1, h2⟩ | ⟨_, h2⟩ | ⟨_, h2, h3⟩
  · exact ⟨h1, h2⟩
  · omega
  · omega

/-- a successful `u8` re-establishes the invariant even if the cursor was outside the window -/
theorem u8_Ok_of_bounds {d d' : D} {b : UInt8} (hlim : d.lim ≤ d.buf.length)
    (hB : d.buf.length < 2 ^ 63) (h : d.u8 = .ok (b, d')) : D.Ok d' := by
  obtain ⟨_, u2, u3⟩ := u8_ok h
  subst u3
  exact ⟨u2, hlim, hB⟩

theorem u8_noPanic {d : D} (hd : D.Ok d) (s : String) : d.u8 ≠ .error (.panic s) := by
  intro h; have := (u8_err_ok hd h).1; cases this

theorem u8_adv {d d' : D} {b : UInt8} (hd : D.Ok d) (h : d.u8 = .ok (b, d')) : D.Adv d d' 1 := by
  obtain ⟨_, u2, u3⟩ := u8_ok h
  subst u3
  exact ⟨rfl, rfl, rfl, rfl, ⟨u2, hd.lim_le, hd.len_lt⟩⟩

/-! ## `num` (`u16` / `u32` / `u64`, and `u8` read as a number) -/

theorem num_ok {d d' : D} {w v : Nat} (h : d.num w = .ok (v, d')) :
    d.off + w ≤ d.lim ∧ v = beVal ((d.buf.drop d.off).take w) ∧
      d' = { d with off := d.off + w, cost := d.cost + w } := by
  unfold D.num at h
  cases hr : d.read w with
  | error e => simp [hr] at h
  | ok p =>
    obtain ⟨bs, d1⟩ := p
    simp only [hr] at h
    injection h with h; injection h with ha hb
    obtain ⟨r1, _, r3, r4⟩ := read_ok hr
    exact ⟨r1, by rw [← ha, r3], by rw [← hb, r4]⟩

theorem num_err {d : D} {w : Nat} {e : DErr} (h : d.num w = .error e) :
    (e = .notEnoughBytes ∧ d.lim < d.off + w ∧ d.off + w < 2 ^ 64) ∨
    (e = .panic "read: offset += length" ∧ 2 ^ 64 ≤ d.off + w) := by
  unfold D.num at h
  cases hr : d.read w with
  | error e' =>
    simp only [hr] at h
    injection h with h; subst h
    exact read_err hr
  | ok p => simp [hr] at h

theorem num_at {d : D} {w : Nat} (hl : d.off + w ≤ d.lim) (h64 : d.off + w < 2 ^ 64) :
    d.num w = .ok (beVal ((d.buf.drop d.off).take w),
      { d with off := d.off + w, cost := d.cost + w }) := by
  unfold D.num
  rw [read_at hl h64]

theorem num_err_ok {d : D} {w : Nat} {e : DErr} (hd : D.Ok d) (hw : w < 2 ^ 63)
    (h : d.num w = .error e) : e = .notEnoughBytes ∧ d.lim < d.off + w := by
  rcases num_err h with ⟨h1, h2, _⟩ | ⟨_, h2⟩
  · exact ⟨h1, h2⟩
  · have := hd.off_lt; omega

theorem num_noPanic {d : D} {w : Nat} (hd : D.Ok d) (hw : w < 2 ^ 63) (s : String) :
    d.num w ≠ .error (.panic s) := by
  intro h; have := (num_err_ok hd hw h).1; cases this

theorem num_adv {d d' : D} {w v : Nat} (hd : D.Ok d) (h : d.num w = .ok (v, d')) : D.Adv d d' w := by
  obtain ⟨n1, _, n3⟩ := num_ok h
  subst n3
  exact ⟨rfl, rfl, rfl, rfl, ⟨n1, hd.lim_le, hd.len_lt⟩⟩

theorem beVal_lt (b : Bytes) : beVal b < 256 ^ b.length := by
  unfold beVal
  suffices h : ∀ (l : Bytes) (acc k : Nat), acc < 256 ^ k →
      l.foldl (fun acc x => acc * 256 + x.toNat) acc < 256 ^ (k + l.length) from by
    simpa using h b 0 0 (by simp)
  intro l
  induction l with
  | nil => intro acc k h; simpa using h
  | cons x t ih =>
    intro acc k h
    simp only [List.foldl_cons, List.length_cons]
    have := ih (acc * 256 + x.toNat) (k + 1) (by
      have := x.toNat_lt
      rw [Nat.pow_succ]; omega)
    rw [show k + (t.length + 1) = k + 1 + t.length by omega]
    exact this

/-- the value of a `w`-octet number fits `w` octets -/
theorem num_lt {d d' : D} {w v : Nat} (hlim : d.lim ≤ d.buf.length) (h : d.num w = .ok (v, d')) :
    v < 256 ^ w := by
  obtain ⟨n1, n2, _⟩ := num_ok h
  have := beVal_lt ((d.buf.drop d.off).take w)
  rw [take_drop_length (by omega)] at this
  rw [n2]; exact this

/-! ## `rest` (`bytes` / `vec`) -/

theorem rest_ok {d d' : D} {bs : Bytes} (h : d.rest = .ok (bs, d')) :
    d.off ≤ d.lim ∧ bs = (d.buf.drop d.off).take (d.lim - d.off) ∧
      d' = { d with off := d.lim, cost := d.cost + (d.lim - d.off) } := by
  unfold D.rest at h
  by_cases h1 : d.off ≤ d.lim
  · simp only [h1, if_true] at h
    injection h with h; injection h with ha hb
    exact ⟨h1, ha.symm, hb.symm⟩
  · simp [h1] at h

theorem rest_err {d : D} {e : DErr} (h : d.rest = .error e) : e = .notEnoughBytes ∧ d.lim < d.off := by
  unfold D.rest at h
  by_cases h1 : d.off ≤ d.lim
  · simp [h1] at h
  · simp only [h1, if_false] at h
    injection h with h
    exact ⟨h.symm, by omega⟩

theorem rest_at {d : D} (hl : d.off ≤ d.lim) :
    d.rest = .ok ((d.buf.drop d.off).take (d.lim - d.off),
      { d with off := d.lim, cost := d.cost + (d.lim - d.off) }) := by
  unfold D.rest; simp only [hl, if_true]

/-- inside its window `rest` cannot fail at all -/
theorem rest_noErr {d : D} (hd : D.Ok d) (e : DErr) : d.rest ≠ .error e := by
  intro h; have := (rest_err h).2; have := hd.off_le; omega

theorem rest_noPanic {d : D} (s : String) : d.rest ≠ .error (.panic s) := by
  intro h; have := (rest_err h).1; cases this

theorem rest_adv {d d' : D} {bs : Bytes} (hd : D.Ok d) (h : d.rest = .ok (bs, d')) :
    D.Adv d d' (d.lim - d.off) ∧ bs.length = d.lim - d.off ∧ d'.off = d'.lim := by
  obtain ⟨r1, r2, r3⟩ := rest_ok h
  have := hd.lim_le
  subst r3
  refine ⟨⟨rfl, rfl, by simp only; omega, rfl, ⟨Nat.le_refl _, hd.lim_le, hd.len_lt⟩⟩, ?_, rfl⟩
  rw [r2]; exact take_drop_length (by omega)

/-! ## `isFinished`, `finished` -/

theorem isFinished_ok {d : D} {b : Bool} (h : d.isFinished = .ok b) :
    d.off ≤ d.lim ∧ (b = true ↔ d.off = d.lim) := by
  unfold D.isFinished at h
  by_cases h1 : d.off < d.lim
  · simp only [h1, if_true] at h
    injection h with h; subst h
    exact ⟨by omega, by simp; omega⟩
  · by_cases h2 : d.off = d.lim
    · rw [if_neg h1, if_pos h2] at h
      injection h with h; subst h
      exact ⟨by omega, by simp [h2]⟩
    · simp [h1, h2] at h

theorem isFinished_err {d : D} {e : DErr} (h : d.isFinished = .error e) :
    e = .notEnoughBytes ∧ d.lim < d.off := by
  unfold D.isFinished at h
  by_cases h1 : d.off < d.lim
  · simp [h1] at h
  · by_cases h2 : d.off = d.lim
    · rw [if_neg h1, if_pos h2] at h; cases h
    · rw [if_neg h1, if_neg h2] at h
      injection h with h
      exact ⟨h.symm, by omega⟩

theorem isFinished_at {d : D} (hl : d.off ≤ d.lim) : d.isFinished = .ok (decide (d.off = d.lim)) := by
  unfold D.isFinished
  by_cases h1 : d.off < d.lim
  · have : d.off ≠ d.lim := by omega
    simp [h1, this]
  · have : d.off = d.lim := by omega
    simp [this]

theorem isFinished_noErr {d : D} (hd : D.Ok d) (e : DErr) : d.isFinished ≠ .error e := by
  intro h; have := (isFinished_err h).2; have := hd.off_le; omega

theorem isFinished_noPanic {d : D} (s : String) : d.isFinished ≠ .error (.panic s) := by
  intro h; have := (isFinished_err h).1; cases this

theorem finished_ok {d : D} (h : d.finished = .ok ()) : d.off = d.lim := by
  unfold D.finished at h
  cases hf : d.isFinished with
  | error e => simp [hf] at h
  | ok b =>
    cases b with
    | true => exact (isFinished_ok hf).2.mp rfl
    | false => simp [hf] at h

theorem finished_err {d : D} {e : DErr} (h : d.finished = .error e) :
    (e = .notEnoughBytes ∧ d.lim < d.off) ∨ (e = .tooManyBytes ∧ d.off < d.lim) := by
  unfold D.finished at h
  cases hf : d.isFinished with
  | error e' =>
    simp only [hf] at h
    injection h with h; subst h
    exact .inl (isFinished_err hf)
  | ok b =>
    cases b with
    | true => simp [hf] at h
    | false =>
      simp only [hf] at h
      injection h with h
      have := isFinished_ok hf
      refine .inr ⟨h.symm, ?_⟩
      have h1 := this.1
      have h2 : d.off ≠ d.lim := fun hc => by have := this.2.mpr hc; cases this
      omega

theorem finished_at {d : D} (h : d.off = d.lim) : d.finished = .ok () := by
  unfold D.finished
  rw [isFinished_at (by omega)]
  simp [h]

theorem finished_noPanic {d : D} (s : String) : d.finished ≠ .error (.panic s) := by
  intro h
  rcases finished_err h with ⟨h1, _⟩ | ⟨h1, _⟩ <;> cases h1

/-! ## `cstr` (`<character-string>`) -/

theorem cstr_ok {d d' : D} {s : Bytes} (h : d.cstr = .ok (s, d')) :
    ∃ len : UInt8, d.buf[d.off]? = some len ∧ d.off + 1 + len.toNat ≤ d.lim ∧
      s = (d.buf.drop (d.off + 1)).take len.toNat ∧ validUtf8 s = true ∧
      d' = { d with off := d.off + 1 + len.toNat, cost := d.cost + 1 + len.toNat } := by
  unfold D.cstr at h
  cases hu : d.u8 with
  | error e => simp [hu] at h
  | ok p =>
    obtain ⟨len, d1⟩ := p
    simp only [hu] at h
    obtain ⟨u1, _, u3⟩ := u8_ok hu
    cases hr : d1.read len.toNat with
    | error e => simp [hr] at h
    | ok q =>
      obtain ⟨bs, d2⟩ := q
      simp only [hr] at h
      obtain ⟨r1, _, r3, r4⟩ := read_ok hr
      by_cases hv : validUtf8 bs = true
      · simp only [hv, if_true] at h
        injection h with h; injection h with ha hb
        subst ha; subst hb; subst u3
        exact ⟨len, u1, r1, r3, hv, r4⟩
      · simp [hv] at h

theorem cstr_err {d : D} {e : DErr} (h : d.cstr = .error e) :
    e = .notEnoughBytes ∨ e = .utf8 ∨ ∃ s, e = .panic s := by
  unfold D.cstr at h
  cases hu : d.u8 with
  | error e' =>
    simp only [hu] at h
    injection h with h; subst h
    rcases u8_err hu with ⟨h1, _⟩ | ⟨h1, _⟩ | ⟨h1, _⟩
    · exact .inl h1
    · exact .inr (.inr ⟨_, h1⟩)
    · exact .inr (.inr ⟨_, h1⟩)
  | ok p =>
    obtain ⟨len, d1⟩ := p
    simp only [hu] at h
    cases hr : d1.read len.toNat with
    | error e' =>
      simp only [hr] at h
      injection h with h; subst h
      rcases read_err hr with ⟨h1, _⟩ | ⟨h1, _⟩
      · exact .inl h1
      · exact .inr (.inr ⟨_, h1⟩)
    | ok q =>
      obtain ⟨bs, d2⟩ := q
      simp only [hr] at h
      by_cases hv : validUtf8 bs = true
      · simp [hv] at h
      · simp only [hv] at h
        injection h with h
        exact .inr (.inl h.symm)

theorem cstr_err_ok {d : D} {e : DErr} (hd : D.Ok d) (h : d.cstr = .error e) :
    e = .notEnoughBytes ∨ e = .utf8 := by
  unfold D.cstr at h
  cases hu : d.u8 with
  | error e' =>
    simp only [hu] at h
    injection h with h; subst h
    exact .inl (u8_err_ok hd hu).1
  | ok p =>
    obtain ⟨len, d1⟩ := p
    simp only [hu] at h
    have hd1 := (u8_adv hd hu).ok
    cases hr : d1.read len.toNat with
    | error e' =>
      simp only [hr] at h
      injection h with h; subst h
      exact .inl (read_err_ok hd1 (by have := len.toNat_lt; omega) hr).1
    | ok q =>
      obtain ⟨bs, d2⟩ := q
      simp only [hr] at h
      by_cases hv : validUtf8 bs = true
      · simp [hv] at h
      · simp only [hv] at h
        injection h with h
        exact .inr h.symm

theorem cstr_noPanic {d : D} (hd : D.Ok d) (s : String) : d.cstr ≠ .error (.panic s) := by
  intro h
  rcases cstr_err_ok hd h with h1 | h1 <;> cases h1

theorem cstr_adv {d d' : D} {s : Bytes} (hd : D.Ok d) (h : d.cstr = .ok (s, d')) :
    D.Adv d d' (1 + s.length) ∧ s.length < 256 ∧ validUtf8 s = true := by
  obtain ⟨len, _, c2, c3, c4, c5⟩ := cstr_ok h
  have := hd.lim_le
  have hl : s.length = len.toNat := by rw [c3]; exact take_drop_length (by omega)
  subst c5
  refine ⟨⟨rfl, rfl, by simp only; omega, by simp only; omega, ⟨c2, hd.lim_le, hd.len_lt⟩⟩, ?_, c4⟩
  have := len.toNat_lt; omega

/-- forward lemma -/
theorem cstr_at {buf : Bytes} {off lim c : Nat} {s : Bytes}
    (hlen : s.length < 256) (hb : buf[off]? = some (UInt8.ofNat s.length))
    (hs : ∀ i, i < s.length → buf[off + 1 + i]? = s[i]?) (hu : validUtf8 s = true)
    (hl : off + 1 + s.length ≤ lim) (hlb : lim ≤ buf.length) (hB : buf.length < 2 ^ 63) :
    D.cstr { buf := buf, off := off, lim := lim, cost := c } =
      .ok (s, { buf := buf, off := off + 1 + s.length, lim := lim, cost := c + 1 + s.length }) := by
  unfold D.cstr
  rw [u8_at' hb (by omega) hB]
  simp only [UInt8.ofNat_toNat_lt hlen]
  rw [read_at_eq hl hlb hB hs]
  simp [hu]

/-! ## `withSub` (child window, `finished()?` at the end) -/

/-- A successful `withSub`: the window has `len` more octets; `f` ran on the child window
`[off, off+len)` (whose `cost` already includes the `len` octets of the `read` that made the slice),
succeeded with some `c` that stands exactly at its limit; the parent continues at `off+len` with the
child's cost. Nothing is assumed about `f`. -/
theorem withSub_ok {α : Type} {d d' : D} {len : Nat} {f : D → Except DErr (α × D)} {a : α}
    (h : d.withSub len f = .ok (a, d')) :
    d.off + len ≤ d.lim ∧
    ∃ c, f { buf := d.buf, off := d.off, lim := d.off + len, cost := d.cost + len } = .ok (a, c) ∧
      c.off = c.lim ∧ d' = { d with off := d.off + len, cost := c.cost } := by
  unfold D.withSub at h
  cases hr : d.read len with
  | error e => simp [hr] at h
  | ok p =>
    obtain ⟨bs, d1⟩ := p
    simp only [hr] at h
    obtain ⟨r1, _, _, r4⟩ := read_ok hr
    subst r4
    simp only at h
    cases hf : f { buf := d.buf, off := d.off, lim := d.off + len, cost := d.cost + len } with
    | error e => simp [hf] at h
    | ok q =>
      obtain ⟨a', c⟩ := q
      simp only [hf] at h
      cases hfin : c.finished with
      | error e => simp [hfin] at h
      | ok u =>
        simp only [hfin] at h
        injection h with h; injection h with ha hb
        subst ha
        exact ⟨r1, c, rfl, finished_ok hfin, hb.symm⟩

/-- the errors of `withSub`: of the `read`, of `f` on the child window, or of `finished` -/
theorem withSub_err {α : Type} {d : D} {len : Nat} {f : D → Except DErr (α × D)} {e : DErr}
    (h : d.withSub len f = .error e) :
    d.read len = .error e ∨
    (d.off + len ≤ d.lim ∧
      (f { buf := d.buf, off := d.off, lim := d.off + len, cost := d.cost + len } = .error e ∨
       ∃ a c, f { buf := d.buf, off := d.off, lim := d.off + len, cost := d.cost + len } = .ok (a, c) ∧
         c.finished = .error e)) := by
  unfold D.withSub at h
  cases hr : d.read len with
  | error e' =>
    simp only [hr] at h
    injection h with h; subst h
    exact .inl rfl
  | ok p =>
    obtain ⟨bs, d1⟩ := p
    simp only [hr] at h
    obtain ⟨r1, _, _, r4⟩ := read_ok hr
    subst r4
    simp only at h
    refine .inr ⟨r1, ?_⟩
    cases hf : f { buf := d.buf, off := d.off, lim := d.off + len, cost := d.cost + len } with
    | error e' =>
      simp only [hf] at h
      injection h with h; subst h
      exact .inl rfl
    | ok q =>
      obtain ⟨a', c⟩ := q
      simp only [hf] at h
      cases hfin : c.finished with
      | error e' =>
        simp only [hfin] at h
        injection h with h; subst h
        exact .inr ⟨a', c, rfl, hfin⟩
      | ok u => simp [hfin] at h

/-- forward lemma -/
theorem withSub_at {α : Type} {d : D} {len : Nat} {f : D → Except DErr (α × D)} {a : α} {c : D}
    (hl : d.off + len ≤ d.lim) (h64 : d.off + len < 2 ^ 64)
    (hf : f { buf := d.buf, off := d.off, lim := d.off + len, cost := d.cost + len } = .ok (a, c))
    (hc : c.off = c.lim) :
    d.withSub len f = .ok (a, { d with off := d.off + len, cost := c.cost }) := by
  unfold D.withSub
  rw [read_at hl h64]
  simp only [hf, finished_at hc]

/-- the child window of a good decoder is good, and so is the continuation of the parent -/
theorem withSub_child_Ok {d : D} {len c0 : Nat} (hd : D.Ok d) (hl : d.off + len ≤ d.lim) :
    D.Ok { buf := d.buf, off := d.off, lim := d.off + len, cost := c0 } :=
  ⟨by simp only; omega, by have := hd.lim_le; simp only; omega, hd.len_lt⟩

theorem withSub_Ok {α : Type} {d d' : D} {len : Nat} {f : D → Except DErr (α × D)} {a : α}
    (hd : D.Ok d) (h : d.withSub len f = .ok (a, d')) :
    D.Ok d' ∧ d'.buf = d.buf ∧ d'.lim = d.lim ∧ d'.off = d.off + len := by
  obtain ⟨w1, c, _, _, w4⟩ := withSub_ok h
  subst w4
  exact ⟨⟨w1, hd.lim_le, hd.len_lt⟩, rfl, rfl, rfl⟩

/-- `withSub` panics only if `f` panics on the child window -/
theorem withSub_noPanic {α : Type} {d : D} {len : Nat} {f : D → Except DErr (α × D)}
    (hd : D.Ok d) (hlen : len < 2 ^ 63) (s : String)
    (hf : ∀ c0, d.off + len ≤ d.lim →
      f { buf := d.buf, off := d.off, lim := d.off + len, cost := c0 } ≠ .error (.panic s)) :
    d.withSub len f ≠ .error (.panic s) := by
  intro h
  rcases withSub_err h with h1 | ⟨hl, h1 | ⟨a, c, _, h2⟩⟩
  · exact read_noPanic hd hlen s h1
  · exact hf _ hl h1
  · exact finished_noPanic s h2

/-! ## `checkLabel`, `appendLabel` -/

theorem checkLabel_ok {l : Bytes} (h : checkLabel l = .ok ()) : 1 ≤ l.length ∧ l.length ≤ 63 := by
  unfold checkLabel at h
  by_cases h0 : l.length = 0
  · rw [if_pos h0] at h; cases h
  · rw [if_neg h0] at h
    by_cases h1 : l.length < 64
    · exact ⟨by omega, by omega⟩
    · rw [if_neg h1] at h; cases h

theorem checkLabel_err {l : Bytes} {e : DErr} (h : checkLabel l = .error e) :
    (e = .labelEmpty ∧ l.length = 0) ∨ (e = .labelLength ∧ 64 ≤ l.length) := by
  unfold checkLabel at h
  by_cases h0 : l.length = 0
  · rw [if_pos h0] at h; injection h with h; exact .inl ⟨h.symm, h0⟩
  · rw [if_neg h0] at h
    by_cases h1 : l.length < 64
    · rw [if_pos h1] at h; cases h
    · rw [if_neg h1] at h; injection h with h; exact .inr ⟨h.symm, by omega⟩

theorem checkLabel_at {l : Bytes} (h1 : 1 ≤ l.length) (h63 : l.length ≤ 63) : checkLabel l = .ok () := by
  unfold checkLabel
  rw [if_neg (by omega), if_pos (by omega)]

theorem appendLabel_ok {n : Name} {l : Label} {n' : Name} (h : appendLabel n l = .ok n') :
    n' = n ++ [l] ∧ Name.sz n + l.length + 1 < 255 := by
  unfold appendLabel at h
  by_cases h1 : 255 ≤ Name.sz n + l.length + 1
  · rw [if_pos h1] at h; cases h
  · rw [if_neg h1] at h; injection h with h; exact ⟨h.symm, by omega⟩

theorem appendLabel_err {n : Name} {l : Label} {e : DErr} (h : appendLabel n l = .error e) :
    e = .nameLength ∧ 255 ≤ Name.sz n + l.length + 1 := by
  unfold appendLabel at h
  by_cases h1 : 255 ≤ Name.sz n + l.length + 1
  · rw [if_pos h1] at h; injection h with h; exact ⟨h.symm, h1⟩
  · rw [if_neg h1] at h; cases h

theorem appendLabel_at {n : Name} {l : Label} (h : Name.sz n + l.length + 1 < 255) :
    appendLabel n l = .ok (n ++ [l]) := by
  unfold appendLabel
  rw [if_neg (by omega)]

/-! ## Non-vacuity -/

private def exD : D := { buf := [1, 2, 3, 97, 0, 7], off := 0, lim := 6, cost := 10 }

example : D.Ok exD := ⟨by decide, by decide, by simp [exD]⟩
example : exD.read 2 = .ok ([1, 2], { exD with off := 2, cost := 12 }) := rfl
example : exD.u8 = .ok (1, { exD with off := 1, cost := 11 }) := rfl
example : exD.num 2 = .ok (258, { exD with off := 2, cost := 12 }) := rfl
example : ({ exD with off := 2 } : D).cstr = .ok ([97, 0, 7], { exD with off := 6, cost := 14 }) :=
  rfl
example : exD.withSub 3 (fun c => c.rest) = .ok ([1, 2, 3], { exD with off := 3, cost := 16 }) :=
  rfl
