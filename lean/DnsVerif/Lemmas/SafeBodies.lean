import DnsVerif.Lemmas.SafeFields
import DnsVerif.Lemmas.Prefix

/-! # Safety / cost of the irregular bodies: address prefixes, EDNS options, APL items, SvcParams, and
the RDATA dispatcher `decRData` -/

namespace Safe

/-! ## Address prefixes -/

theorem checkPrefix_post (o : Bytes) (p : Nat) : PostU (checkPrefix o p) := by
  cases h : checkPrefix o p with
  | ok u => trivial
  | error e =>
    show e.bad = false
    rcases (checkPrefix_err_iff o p e).mp h with ⟨_, h1⟩ | ⟨_, _, h1⟩ <;> (rw [h1]; split <;> rfl)

theorem family_post {d : D} (hd : D.Ok d) : Post 1 2 d d.family := by
  unfold D.family
  pbind num_post hd (by omega) with n d1 s1
  split
  · exact Post.done s1.ok
  · rfl

/-- the branch `octects[0..len].copy_from_slice` is guarded by the size check -/
theorem address_post {d : D} (hd : D.Ok d) (fam : Nat) : Post 1 0 d (d.address fam) := by
  unfold D.address
  pbind rest_post hd with b d1 s1
  split
  · split <;> rfl
  · split
    · exact Post.done s1.ok
    · omega

/-! ## EDNS options -/

theorem cookieNew_post (c : Bytes) (s : Option Bytes) : PostU (cookieNew c s) := by
  cases s with
  | none => trivial
  | some s => simp only [cookieNew]; split <;> first | trivial | rfl

theorem ecsNew_post (fam src scope : Nat) (addr : Bytes) : PostU (ecsNew fam src scope addr) := by
  unfold ecsNew
  refine PostU.elim (checkPrefix_post addr (max src scope)) (fun _ he => he) (fun u => ?_)
  trivial

theorem apItemNew_post (fam pfx : Nat) (neg : Bool) (addr : Bytes) : PostU (apItemNew fam pfx neg addr) := by
  unfold apItemNew
  refine PostU.elim (checkPrefix_post addr pfx) (fun _ he => he) (fun u => ?_)
  trivial

theorem decEcs_post {d : D} (hd : D.Ok d) : Post 1 4 d (decEcs d) := by
  unfold decEcs
  pbind family_post hd with fam d1 s1
  pbind num_post s1.ok (by omega) with src d2 s2
  pbind num_post s2.ok (by omega) with scope d3 s3
  pbind address_post s3.ok fam with addr d4 s4
  ubind ecsNew_post fam src scope addr with o
  exact Post.done s4.ok

/-- the slices `vec[0..8]` / `vec[8..]` are guarded by the length classification -/
theorem decCookie_post {d : D} (hd : D.Ok d) : Post 1 0 d (decCookie d) := by
  unfold decCookie
  pbind rest_post hd with v d1 s1
  split
  · split
    · omega
    · ubind cookieNew_post (v.take 8) none with o
      exact Post.done s1.ok
  · split
    · split
      · omega
      · ubind cookieNew_post (v.take 8) (some (v.drop 8)) with o
        exact Post.done s1.ok
    · rfl

theorem decPadding_post {d : D} (hd : D.Ok d) : Post 1 0 d (decPadding d) := by
  unfold decPadding
  pbind rest_post hd with v d1 s1
  split
  · rfl
  · split
    · exact Post.done s1.ok
    · rfl

/-- one option: code, length, and a window of exactly that length: at least 4 octets, constant 2 -/
theorem decOption_post {d : D} (hd : D.Ok d) : Post 2 4 d (decOption d) := by
  unfold decOption
  pbind num_post hd (by omega) with code d1 s1
  split
  · rfl
  · pbindh num_post s1.ok (by omega) with len d2 s2 h2
    refine (withSub_post (K := 1) s2.ok (num2_lt s1.ok h2) (fun c hc _ _ _ => ?_)).weaken
      (Nat.le_refl _) (by omega)
    split
    · exact (decEcs_post hc).weaken (Nat.le_refl _) (by omega)
    · split
      · exact decCookie_post hc
      · exact decPadding_post hc

theorem decOptions_post : ∀ (fuel : Nat) (d : D), D.Ok d → d.lim - d.off < fuel →
    Post 2 0 d (decOptions fuel d) := by
  intro fuel
  induction fuel with
  | zero => intro d _ h; omega
  | succ fuel ih =>
    intro d hd hf
    unfold decOptions
    rw [isFinished_eq hd]
    by_cases hfin : d.off = d.lim
    · simp only [hfin, decide_true]; exact Post.done hd
    · simp only [hfin, decide_false]
      pbind decOption_post hd with o d1 s1
      pbind ih d1 s1.ok (s1.fuel (by omega) hf) with r d2 s2
      exact Post.done s2.ok

theorem optTtl_post (ttl : Nat) : PostU (optTtl ttl) := by
  unfold optTtl
  dsimp only
  split
  · rfl
  · split
    · rfl
    · trivial

/-! ## APL -/

theorem decApItem_post {d : D} (hd : D.Ok d) : Post 2 4 d (decApItem d) := by
  unfold decApItem
  pbind family_post hd with fam d1 s1
  pbind num_post s1.ok (by omega) with pfx d2 s2
  pbind num_post s2.ok (by omega) with b d3 s3
  have hlen : b &&& 127 < 2 ^ 63 := by
    have : b &&& 127 ≤ 127 := Nat.and_le_right
    omega
  pbind (withSub_post (K := 1) (f := fun c => c.address fam) s3.ok hlen
    (fun c hc _ _ _ => address_post hc fam)) with addr d4 s4
  ubind apItemNew_post fam pfx ((b &&& 128) == 128) addr with it
  exact Post.done s4.ok

theorem decApItems_post : ∀ (fuel : Nat) (d : D), D.Ok d → d.lim - d.off < fuel →
    Post 2 0 d (decApItems fuel d) := by
  intro fuel
  induction fuel with
  | zero => intro d _ h; omega
  | succ fuel ih =>
    intro d hd hf
    unfold decApItems
    rw [isFinished_eq hd]
    by_cases hfin : d.off = d.lim
    · simp only [hfin, decide_true]; exact Post.done hd
    · simp only [hfin, decide_false]
      pbind decApItem_post hd with o d1 s1
      pbind ih d1 s1.ok (s1.fuel (by omega) hf) with r d2 s2
      exact Post.done s2.ok

/-! ## SVCB / HTTPS -/

theorem nums16_post : ∀ (fuel : Nat) (d : D), D.Ok d → d.lim - d.off < fuel →
    Post 1 0 d (D.nums16 fuel d) := by
  intro fuel
  induction fuel with
  | zero => intro d _ h; omega
  | succ fuel ih =>
    intro d hd hf
    unfold D.nums16
    rw [isFinished_eq hd]
    by_cases hfin : d.off = d.lim
    · simp only [hfin, decide_true]; exact Post.done hd
    · simp only [hfin, decide_false]
      pbind num_post hd (w := 2) (by omega) with n d1 s1
      pbind ih d1 s1.ok (s1.fuel (by omega) hf) with r d2 s2
      exact Post.done s2.ok

/-- the hint loop terminates because one hint has `k * c > 0` octets -/
theorem hints_post : ∀ (fuel k c : Nat) (d : D), D.Ok d → 0 < k * c → c < 2 ^ 63 →
    d.lim - d.off < fuel → Post 1 0 d (D.hints fuel k c d) := by
  intro fuel
  induction fuel with
  | zero => intro k c d _ _ _ h; omega
  | succ fuel ih =>
    intro k c d hd hkc hc hf
    unfold D.hints
    rw [isFinished_eq hd]
    by_cases hfin : d.off = d.lim
    · simp only [hfin, decide_true]; exact Post.done hd
    · simp only [hfin, decide_false]
      pbind octs_post k c d hd hc with h d1 s1
      pbind ih k c d1 s1.ok hkc hc (s1.fuel hkc hf) with r d2 s2
      exact Post.done s2.ok

theorem decSvcParam_post (key : Nat) {d : D} (hd : D.Ok d) : Post 1 0 d (decSvcParam key d) := by
  unfold decSvcParam
  dsimp only
  split
  · pbind nums16_post _ d hd (by omega) with ks d1 s1
    exact Post.done s1.ok
  split
  · pbind cstrs_post _ d hd (by omega) with ids d1 s1
    exact Post.done s1.ok
  split
  · exact Post.done hd
  split
  · pbind num_post hd (w := 2) (by omega) with p d1 s1
    exact Post.done s1.ok
  split
  · pbind hints_post _ 1 4 d hd (by omega) (by omega) (by omega) with hs d1 s1
    exact Post.done s1.ok
  split
  · pbind num_post hd (w := 2) (by omega) with len d1 s1
    pbind rest_post s1.ok with b d2 s2
    split
    · rfl
    · exact Post.done s2.ok
  split
  · pbind hints_post _ 8 2 d hd (by omega) (by omega) (by omega) with hs d1 s1
    exact Post.done s1.ok
  split
  · exact Post.done hd
  · pbind rest_post hd with b d1 s1
    exact Post.done s1.ok

theorem decSvcParams_post : ∀ (fuel : Nat) (d : D) (acc : List SvcParam), D.Ok d → d.lim - d.off < fuel →
    Post 2 0 d (decSvcParams fuel d acc) := by
  intro fuel
  induction fuel with
  | zero => intro d _ _ h; omega
  | succ fuel ih =>
    intro d acc hd hf
    unfold decSvcParams
    rw [isFinished_eq hd]
    by_cases hfin : d.off = d.lim
    · simp only [hfin, decide_true]; exact Post.done hd
    · simp only [hfin, decide_false]
      pbind num_post hd (w := 2) (by omega) with key d1 s1
      pbindh num_post s1.ok (w := 2) (by omega) with len d2 s2 h2
      pbind (withSub_post (K := 1) (f := decSvcParam key) s2.ok (num2_lt s1.ok h2)
        (fun c hc _ _ _ => decSvcParam_post key hc)) with p d3 s3
      split
      · rfl
      · rename_i acc' _
        have hf3 : d3.lim - d3.off < fuel := by
          have := s1.off; have := s2.off; have := s3.off
          have := s1.lim; have := s2.lim; have := s3.lim; have := s3.ok.off_le
          omega
        exact (ih d3 acc' s3.ok hf3).weaken (Nat.le_refl _) (by omega)

/-! ## Records -/

theorem checkClass_post (cls : Nat) (inOnly : Option (Nat → DErr))
    (h : ∀ e n, inOnly = some e → (e n).bad = false) : PostU (checkClass cls inOnly) := by
  unfold checkClass
  split
  · rfl
  · cases inOnly with
    | none => trivial
    | some e =>
      dsimp only
      split
      · trivial
      · exact h e cls rfl

/-- the body of a record inside its RDATA window: constant 289 -/
theorem decRData_post (name : Name) (ty cls ttl : Nat) {c : D} (hc : D.Ok c) :
    Post 289 0 c (decRData name ty cls ttl c) := by
  unfold decRData
  cases hk : rrKind ty with
  | none => rfl
  | some k =>
    cases k with
    | regular info =>
      dsimp only
      ubind checkClass_post cls info.inOnly (rrKind_inOnly hk) with u
      pbind decFields_post _ c hc (rrKind_small hk) with vs c1 s1
      exact Post.done s1.ok
    | opt =>
      dsimp only
      split
      · rfl
      · ubind optTtl_post ttl with t
        pbind (decOptions_post (c.lim - c.off + 1) c hc (by omega)).weaken (K' := 289) (by omega)
          (Nat.le_refl _) with opts c1 s1
        exact Post.done s1.ok
    | apl =>
      dsimp only
      ubind checkClass_post cls (some .aplClass) (fun e n he => by cases he; rfl) with u
      pbind (decApItems_post (c.lim - c.off + 1) c hc (by omega)).weaken (K' := 289) (by omega)
        (Nat.le_refl _) with items c1 s1
      exact Post.done s1.ok
    | svcb https =>
      dsimp only
      ubind checkClass_post cls (some .svcbClass) (fun e n he => by cases he; rfl) with u
      pbind num_post hc (w := 2) (by omega) with prio c1 s1
      pbind name_post s1.ok with target c2 s2
      split
      · exact Post.done s2.ok
      · pbind (decSvcParams_post (c2.lim - c2.off + 1) c2 [] s2.ok (by omega)).weaken (K' := 289)
          (by omega) (Nat.le_refl _) with ps c3 s3
        exact Post.done s3.ok

/-! ## The lemmas in the requested shape -/

theorem checkPrefix_safe (o : Bytes) (p : Nat) : PostU (checkPrefix o p) := checkPrefix_post o p
theorem family_safe {d : D} (hd : D.Ok d) : Spec d d.family := (family_post hd).spec
theorem address_safe {d : D} (hd : D.Ok d) (fam : Nat) : Spec d (d.address fam) :=
  (address_post hd fam).spec
theorem decEcs_safe {d : D} (hd : D.Ok d) : Spec d (decEcs d) := (decEcs_post hd).spec
theorem decCookie_safe {d : D} (hd : D.Ok d) : Spec d (decCookie d) := (decCookie_post hd).spec
theorem decPadding_safe {d : D} (hd : D.Ok d) : Spec d (decPadding d) := (decPadding_post hd).spec
theorem decOption_safe {d : D} (hd : D.Ok d) : Spec d (decOption d) := (decOption_post hd).spec
theorem decOptions_safe {fuel : Nat} {d : D} (hd : D.Ok d) (hf : d.lim - d.off < fuel) :
    Spec d (decOptions fuel d) := (decOptions_post fuel d hd hf).spec
theorem decApItem_safe {d : D} (hd : D.Ok d) : Spec d (decApItem d) := (decApItem_post hd).spec
theorem decApItems_safe {fuel : Nat} {d : D} (hd : D.Ok d) (hf : d.lim - d.off < fuel) :
    Spec d (decApItems fuel d) := (decApItems_post fuel d hd hf).spec
theorem nums16_safe {fuel : Nat} {d : D} (hd : D.Ok d) (hf : d.lim - d.off < fuel) :
    Spec d (D.nums16 fuel d) := (nums16_post fuel d hd hf).spec
theorem hints_safe {fuel k c : Nat} {d : D} (hd : D.Ok d) (hkc : 0 < k * c) (hc : c < 2 ^ 63)
    (hf : d.lim - d.off < fuel) : Spec d (D.hints fuel k c d) := (hints_post fuel k c d hd hkc hc hf).spec
theorem decSvcParam_safe (key : Nat) {d : D} (hd : D.Ok d) : Spec d (decSvcParam key d) :=
  (decSvcParam_post key hd).spec
theorem decSvcParams_safe {fuel : Nat} {d : D} {acc : List SvcParam} (hd : D.Ok d)
    (hf : d.lim - d.off < fuel) : Spec d (decSvcParams fuel d acc) :=
  (decSvcParams_post fuel d acc hd hf).spec
theorem decRData_safe (name : Name) (ty cls ttl : Nat) {c : D} (hc : D.Ok c) :
    Spec c (decRData name ty cls ttl c) := (decRData_post name ty cls ttl hc).spec

/-- every iteration of the option / item / parameter loops consumes at least four octets -/
theorem decOption_advances {d d' : D} {o : EdnsOpt} (hd : D.Ok d) (h : decOption d = .ok (o, d')) :
    d.off + 4 ≤ d'.off := ((decOption_post hd).step h).off
theorem decApItem_advances {d d' : D} {o : APItem} (hd : D.Ok d) (h : decApItem d = .ok (o, d')) :
    d.off + 4 ≤ d'.off := ((decApItem_post hd).step h).off
theorem svcParam_step_advances {d d1 d2 d3 : D} {key len : Nat} {p : SvcParam} (hd : D.Ok d)
    (h1 : d.num 2 = .ok (key, d1)) (h2 : d1.num 2 = .ok (len, d2))
    (h3 : d2.withSub len (decSvcParam key) = .ok (p, d3)) : d.off + 4 ≤ d3.off := by
  have a1 := num_adv hd h1
  have a2 := num_adv a1.ok h2
  have a3 := (withSub_Ok a2.ok h3).2.2.2
  rw [a3, a2.off, a1.off]; omega

/-! ## Non-vacuity: an OPT body with one padding option, inside a larger buffer -/

private def exD : D := { buf := [0, 12, 0, 2, 0, 0, 255, 255], off := 0, lim := 6, cost := 0 }

example : D.Ok exD := ⟨by decide, by decide, by simp [exD]⟩
example : decOptions 7 exD = .ok ([.padding 2], { exD with off := 6, cost := 8 }) := rfl

/-- the hypothesis `0 < k * c` of `hints_post` is necessary: a hint of zero octets makes no progress and
the loop is stopped by the fuel (the model only calls `D.hints _ 1 4` and `D.hints _ 8 2`) -/
example : D.hints 3 0 4 { buf := [0], off := 0, lim := 1 } = .error .fuel := rfl

end Safe
