import DnsVerif.Prim

/-! # Big-endian numbers: `beBytes` and `beVal` are inverse to each other

`beVal (beBytes w n) = n % 256 ^ w` and `beBytes b.length (beVal b) = b`. Imports only `Prim`. -/

namespace Be

theorem pow_pos (w : Nat) : 0 < 256 ^ w := Nat.pow_pos (by omega)

private theorem foldl_acc (b : Bytes) (acc : Nat) :
    b.foldl (fun acc x => acc * 256 + x.toNat) acc =
      acc * 256 ^ b.length + b.foldl (fun acc x => acc * 256 + x.toNat) 0 := by
  induction b generalizing acc with
  | nil => simp
  | cons x t ih =>
    simp only [List.foldl_cons, List.length_cons]
    rw [ih (acc * 256 + x.toNat), ih (0 * 256 + x.toNat), Nat.pow_succ, Nat.add_mul, Nat.add_mul]
    simp only [Nat.zero_mul, Nat.zero_add, Nat.mul_assoc, Nat.mul_comm (256 ^ t.length) 256, Nat.add_assoc]

@[simp] theorem beVal_nil : beVal [] = 0 := rfl

theorem beVal_cons (x : UInt8) (b : Bytes) : beVal (x :: b) = x.toNat * 256 ^ b.length + beVal b := by
  unfold beVal
  rw [List.foldl_cons, foldl_acc]
  simp

theorem beVal_append_singleton (b : Bytes) (x : UInt8) : beVal (b ++ [x]) = beVal b * 256 + x.toNat := by
  simp [beVal, List.foldl_append]

theorem beVal_singleton (x : UInt8) : beVal [x] = x.toNat := by simp [beVal]

theorem beVal_lt (b : Bytes) : beVal b < 256 ^ b.length := by
  induction b with
  | nil => simp
  | cons x t ih =>
    rw [beVal_cons, List.length_cons, Nat.pow_succ]
    have := x.toNat_lt
    have h1 : x.toNat * 256 ^ t.length ≤ 255 * 256 ^ t.length := Nat.mul_le_mul_right _ (by omega)
    omega

/-- only the low `w` octets of `n` matter -/
theorem beBytes_add_mul (w v a : Nat) : beBytes w (v + a * 256 ^ w) = beBytes w v := by
  induction w generalizing a with
  | zero => rfl
  | succ w ih =>
    simp only [beBytes]
    have e : a * 256 ^ (w + 1) = (a * 256) * 256 ^ w := by rw [Nat.pow_succ, Nat.mul_assoc, Nat.mul_comm 256]
    rw [e, ih (a * 256), Nat.add_mul_div_right _ _ (pow_pos w), Nat.add_mul_mod_self_right]

theorem beBytes_mod (w n : Nat) : beBytes w (n % 256 ^ w) = beBytes w n := by
  have := beBytes_add_mul w (n % 256 ^ w) (n / 256 ^ w)
  rw [Nat.mul_comm, Nat.mod_add_div] at this
  exact this.symm

/-- writing the value of `b` with `b.length` octets gives `b` back -/
theorem beBytes_beVal {w : Nat} {b : Bytes} (h : b.length = w) : beBytes w (beVal b) = b := by
  subst h
  induction b with
  | nil => rfl
  | cons x t ih =>
    simp only [List.length_cons, beBytes]
    rw [beVal_cons, Nat.add_comm, beBytes_add_mul, ih, Nat.add_mul_div_right _ _ (pow_pos _),
      Nat.div_eq_of_lt (beVal_lt t), Nat.zero_add, Nat.mod_eq_of_lt x.toNat_lt]
    simp

theorem beVal_beBytes_mod (w n : Nat) : beVal (beBytes w n) = n % 256 ^ w := by
  induction w with
  | zero => simp [beBytes, Nat.mod_one]
  | succ w ih =>
    simp only [beBytes]
    rw [beVal_cons, ih, beBytes_length, UInt8.ofNat_toNat_lt (Nat.mod_lt _ (by omega)),
      Nat.mod_pow_succ, Nat.mul_comm, Nat.add_comm]

/-- reading back a number that fits `w` octets gives the number -/
theorem beVal_beBytes {w n : Nat} (h : n < 256 ^ w) : beVal (beBytes w n) = n := by
  rw [beVal_beBytes_mod, Nat.mod_eq_of_lt h]

/-- `beBytes` is injective below `256 ^ w` -/
theorem beBytes_inj {w m n : Nat} (hm : m < 256 ^ w) (hn : n < 256 ^ w) (h : beBytes w m = beBytes w n) :
    m = n := by
  rw [← beVal_beBytes hm, ← beVal_beBytes hn, h]

theorem beBytes_one {n : Nat} : beBytes 1 n = [UInt8.ofNat (n % 256)] := by
  simp [beBytes]

theorem beBytes_two {n : Nat} : beBytes 2 n = [UInt8.ofNat (n / 256 % 256), UInt8.ofNat (n % 256)] := by
  simp [beBytes]

example : beBytes 2 258 = [1, 2] ∧ beVal [1, 2] = 258 := by decide
example : beBytes 4 (beVal [1, 2, 3, 4]) = [1, 2, 3, 4] := beBytes_beVal rfl
example : beVal (beBytes 2 65535) = 65535 := beVal_beBytes (by decide)

end Be
