import DnsVerif.Lemmas.EncSpecRR

/-! # Encoder ⇒ wire grammar: questions, header, whole messages (C05, capstone)

`encodeDns_spec : WfMsg m → encodeDns m = .ok b → ∃ m', m'.norm = m.norm ∧ MsgAt b true m'`:
the octets produced for a well-formed message ARE a DNS message in the sense of `Spec/Wire.lean`
(counts = section sizes, every RDLENGTH / option length / AFDLENGTH / SvcParam length = the octets it
covers, every compression pointer points backwards to an earlier name and chains have at most 16
hops, at most 65535 octets) carrying the same value up to ASCII case of names and the order of
`mandatory` keys. Element versions: `encodeRR_spec`, `encodeQuestion_spec`, `encodeName_spec`. -/

namespace EncSpec

/-! ## The two flag octets -/

def hiOf (qr aa tc rd : Bool) (op : Nat) : Nat := bitOf qr 7 + op * 8 + bitOf aa 2 + bitOf tc 1 + bitOf rd 0
def loOf (ra ad cd : Bool) (rc : Nat) : Nat := bitOf ra 7 + bitOf ad 5 + bitOf cd 4 + rc

theorem hi_all : ∀ qr aa tc rd : Bool, ∀ op < 16,
    (b2n qr 128 ||| (op <<< 3) % 256 ||| b2n aa 4 ||| b2n tc 2 ||| b2n rd 1) = hiOf qr aa tc rd op := by
  decide +kernel

theorem lo_all : ∀ ra ad cd : Bool, ∀ rc < 16,
    (b2n ra 128 ||| b2n ad 32 ||| b2n cd 16 ||| rc % 256) = loOf ra ad cd rc := by
  decide +kernel

theorem flagsWord_split (f : Flags) :
    flagsWord f = hiOf f.qr f.aa f.tc f.rd f.opcode * 256 + loOf f.ra f.ad f.cd f.rcode := by
  unfold flagsWord hiOf loOf bitOf
  cases f.qr <;> cases f.aa <;> cases f.tc <;> cases f.rd <;> simp <;> omega

theorem hiOf_lt (qr aa tc rd : Bool) {op : Nat} (h : op < 16) : hiOf qr aa tc rd op < 256 := by
  unfold hiOf bitOf
  cases qr <;> cases aa <;> cases tc <;> cases rd <;> simp <;> omega

theorem loOf_lt (ra ad cd : Bool) {rc : Nat} (h : rc < 16) : loOf ra ad cd rc < 256 := by
  unfold loOf bitOf
  cases ra <;> cases ad <;> cases cd <;> simp <;> omega

theorem opcodeKnown_lt {n : Nat} (h : opcodeKnown n = true) : n < 16 := by
  simp [opcodeKnown, inTable, Gen.enumOpcode] at h
  omega

/-- **`Encoder::flags`** writes the 16-bit word of RFC 1035 §4.1.1 (for every opcode and rcode below
16; for `rcode ≥ 16` it does not: known finding K3) -/
theorem flagsBytes_eq {f : Flags} (hop : f.opcode < 16) (hrc : f.rcode < 16) :
    flagsBytes f = beBytes 2 (flagsWord f) := by
  have hhi := hiOf_lt f.qr f.aa f.tc f.rd hop
  have hlo := loOf_lt f.ra f.ad f.cd hrc
  rw [flagsWord_split]
  simp only [flagsBytes, beBytes]
  rw [hi_all f.qr f.aa f.tc f.rd f.opcode hop, lo_all f.ra f.ad f.cd f.rcode hrc]
  congr 2
  · congr 1; omega
  · congr 1; omega

theorem flagsBytes_spec {f : Flags} (h : FlagsOk f) : flagsBytes f = beBytes 2 (flagsWord f) :=
  flagsBytes_eq (opcodeKnown_lt h.1) h.2.2

/-- K3 witness: with `rcode = 16` (BADVERS, a supported code point) the CD bit is written as set -/
example : flagsBytes ⟨false, 0, false, false, false, false, false, false, 16⟩ = [0, 16] ∧
    beBytes 2 (flagsWord ⟨false, 0, false, false, false, false, false, true, 0⟩) = [0, 16] := by decide

/-! ## Questions -/

def QSpec (q : Question) (buf : Bytes) (s t : Nat) : Prop :=
  ∃ q', q'.lower = q.lower ∧ QuestionAt buf true s q' t

/-- **`Encoder::question`** -/
theorem encQuestion_wspec {q : Question} (hwf : WfQuestion q) :
    WSpec (fun e => encQuestion e q) (QSpec q) := by
  obtain ⟨hn, hqt, hqc⟩ := hwf
  refine ((spec_seq (spec_name hn) (spec_put (beBytes 2 q.qtype ++ beBytes 2 q.qclass))).of_eq
    (fun e => rfl)).conseq ?_
  rintro buf s t _ hle ⟨m, _, _, ⟨n', hci, hr⟩, rfl, hb⟩
  refine ⟨⟨n', q.qtype, q.qclass⟩, by simp [Question.lower, hci], m, hr, hqt, hqc, hb, by simp, hle⟩

theorem encQuestion_spec {S : Nat → Prop} {e e' : Enc} {q : Question}
    (hinv : EInv S e) (hwf : WfQuestion q) (h : encQuestion e q = .ok e') :
    e.out <+: e'.out ∧ EInv (ext S e.out.length e'.out.length) e' ∧
    ∀ buf', Agree (ext S e.out.length e'.out.length) e'.out buf' →
      ∃ q', q'.lower = q.lower ∧ QuestionAt buf' true e.out.length q' e'.out.length :=
  (encQuestion_wspec hwf).run hinv h

/-! ## Sections -/

theorem chain_questions {buf : Bytes} {lim : Nat} : ∀ {off : Nat} {l : List Question},
    ChainAt QSpec buf lim off l →
    ∃ l', l'.map Question.lower = l.map Question.lower ∧ QuestionsAt buf true off l' lim := by
  intro off l h
  induction h with
  | nil => exact ⟨[], rfl, .nil⟩
  | cons _ _ hΦ _ ih =>
    obtain ⟨l', hl', hq⟩ := ih
    obtain ⟨q', hq', hqa⟩ := hΦ
    exact ⟨q' :: l', by simp [hq', hl'], .cons hqa hq⟩

theorem encQuestions_spec {l : List Question} (hl : ∀ q ∈ l, WfQuestion q) :
    WSpec (fun e => encQuestions e l) (fun buf s t =>
      ∃ l', l'.map Question.lower = l.map Question.lower ∧ QuestionsAt buf true s l' t) := by
  refine (spec_list encQuestions encQuestion (fun _ => rfl) (fun _ _ _ => rfl)
    (Φ := QSpec) (P := WfQuestion) (fun q hq => encQuestion_wspec hq) l hl).conseq ?_
  intro buf s t _ _ h
  exact chain_questions h

theorem chain_rrs {buf : Bytes} {lim : Nat} : ∀ {off : Nat} {l : List RR},
    ChainAt RRSpec buf lim off l →
    ∃ l', l'.map RR.norm = l.map RR.norm ∧ RRsAt buf true off l' lim := by
  intro off l h
  induction h with
  | nil => exact ⟨[], rfl, .nil⟩
  | cons _ _ hΦ _ ih =>
    obtain ⟨l', hl', hq⟩ := ih
    obtain ⟨r', hr', hra⟩ := hΦ
    exact ⟨r' :: l', by simp [hr', hl'], .cons hra hq⟩

theorem encRRs_spec {l : List RR} (hl : ∀ r ∈ l, WfRR r) :
    WSpec (fun e => encRRs e l) (fun buf s t =>
      ∃ l', l'.map RR.norm = l.map RR.norm ∧ RRsAt buf true s l' t) := by
  refine (spec_list encRRs encRR (fun _ => rfl) (fun _ _ _ => rfl)
    (Φ := RRSpec) (P := WfRR) (fun r hr => encRR_wspec hr) l hl).conseq ?_
  intro buf s t _ _ h
  exact chain_rrs h

/-! ## The message writer -/

theorem encCount_spec (n : Nat) :
    WSpec (fun e => encCount e n) (fun buf s t => n < 65536 ∧ t = s + 2 ∧ BytesAt buf s (beBytes 2 n)) := by
  by_cases hn : n > 65535
  · intro S e e' _ h; simp [encCount, hn] at h
  · refine ((spec_put (beBytes 2 n)).of_eq (fun e => by simp [encCount, hn, wPut])).conseq ?_
    rintro buf s t _ _ ⟨rfl, hb⟩
    exact ⟨by omega, by simp, hb⟩

/-- the final size check of `Encoder::dns` -/
def wLimit : Writer := fun e => if e.out.length > 65535 then .error .length else .ok e

theorem wLimit_spec : WSpec wLimit (fun _ s t => t = s ∧ t ≤ 65535) := by
  intro S e e' hinv h
  unfold wLimit at h
  split at h
  · cases h
  · rename_i hle
    cases h
    exact ⟨[], by simp, by rw [ext_self]; exact hinv, fun _ _ => ⟨rfl, by omega⟩⟩

theorem encMsg_eq (m : Msg) (e : Enc) :
    encMsg e m = wSeq (wPut (beBytes 2 m.id ++ flagsBytes m.flags)) (wSeq (fun e => encCount e m.qs.length)
      (wSeq (fun e => encCount e m.an.length) (wSeq (fun e => encCount e m.ns.length)
      (wSeq (fun e => encCount e m.ar.length) (wSeq (fun e => encQuestions e m.qs)
      (wSeq (fun e => encRRs e m.an) (wSeq (fun e => encRRs e m.ns) (wSeq (fun e => encRRs e m.ar)
      wLimit)))))))) e := rfl

/-- a message rendered at offset `s` (the header at `s`, the sections from `s + 12` to `t`) -/
def MsgRegion (m : Msg) (buf : Bytes) (s t : Nat) : Prop :=
  ∃ m' : Msg, m'.norm = m.norm ∧ t ≤ 65535 ∧ m'.id < 65536 ∧ FlagsOk m'.flags ∧
    m'.qs.length < 65536 ∧ m'.an.length < 65536 ∧ m'.ns.length < 65536 ∧ m'.ar.length < 65536 ∧
    BytesAt buf s (beBytes 2 m'.id ++ beBytes 2 (flagsWord m'.flags) ++ beBytes 2 m'.qs.length ++
      beBytes 2 m'.an.length ++ beBytes 2 m'.ns.length ++ beBytes 2 m'.ar.length) ∧
    ∃ e1 e2 e3, QuestionsAt buf true (s + 12) m'.qs e1 ∧ RRsAt buf true e1 m'.an e2 ∧
      RRsAt buf true e2 m'.ns e3 ∧ RRsAt buf true e3 m'.ar t

theorem map_length_eq {α β : Type} {f : α → β} {l l' : List α} (h : l'.map f = l.map f) :
    l'.length = l.length := by
  simpa using congrArg List.length h

/-- **`Encoder::dns` from any state satisfying the invariant.** -/
theorem encMsg_spec {m : Msg} (hwf : WfMsg m) : WSpec (fun e => encMsg e m) (MsgRegion m) := by
  obtain ⟨hid, hfl, _, _, _, _, hqs, han, hns, har⟩ := hwf
  refine ((spec_seq (spec_put (beBytes 2 m.id ++ flagsBytes m.flags)) (spec_seq (encCount_spec m.qs.length)
    (spec_seq (encCount_spec m.an.length) (spec_seq (encCount_spec m.ns.length)
    (spec_seq (encCount_spec m.ar.length) (spec_seq (encQuestions_spec hqs)
    (spec_seq (encRRs_spec han) (spec_seq (encRRs_spec hns) (spec_seq (encRRs_spec har)
    wLimit_spec))))))))).of_eq (encMsg_eq m)).conseq ?_
  rintro buf s t _ _ ⟨m1, _, _, ⟨rfl, hH⟩, m2, _, _, ⟨hq16, rfl, hQ⟩, m3, _, _, ⟨ha16, rfl, hA⟩,
    m4, _, _, ⟨hn16, rfl, hN⟩, m5, _, _, ⟨hr16, rfl, hR⟩, e1, _, _, ⟨qs', hqs', hqsAt⟩,
    e2, _, _, ⟨an', han', hanAt⟩, e3, _, _, ⟨ns', hns', hnsAt⟩, e4, _, _, ⟨ar', har', harAt⟩, rfl, hlim⟩
  have hfb : (flagsBytes m.flags).length = 2 := rfl
  rw [flagsBytes_spec hfl] at hH
  simp only [List.length_append, beBytes_length, hfb] at hQ hA hN hR hqsAt
  have lq := map_length_eq hqs'
  have la := map_length_eq han'
  have ln := map_length_eq hns'
  have lr := map_length_eq har'
  refine ⟨⟨m.id, m.flags, qs', an', ns', ar'⟩, by simp [Msg.norm, hqs', han', hns', har'], hlim, hid, hfl,
    by simp only; omega, by simp only; omega, by simp only; omega, by simp only; omega, ?_,
    e1, e2, e3, ?_, hanAt, hnsAt, harAt⟩
  · simp only [lq, la, ln, lr]
    refine bytesAt_append (bytesAt_append (bytesAt_append (bytesAt_append hH ?_) ?_) ?_) ?_
    · simpa using hQ
    · simpa using hA
    · simpa using hN
    · simpa using hR
  · exact (show s + (2 + 2) + 2 + 2 + 2 + 2 = s + 12 by omega) ▸ hqsAt

/-! ## The public entry points (a fresh encoder) -/

theorem outOf_ok {r : Except EErr Enc} {b : Bytes} (h : outOf r = .ok b) : ∃ e', r = .ok e' ∧ e'.out = b := by
  cases r with
  | error err => cases h
  | ok e' => cases h; exact ⟨e', rfl, rfl⟩

/-- run a specified writer on the fresh encoder and look at the produced octets themselves -/
theorem WSpec.fresh {w : Writer} {Φ : Bytes → Nat → Nat → Prop} (hs : WSpec w Φ) {b : Bytes}
    (h : outOf (w {}) = .ok b) : Φ b 0 b.length := by
  obtain ⟨e', he', rfl⟩ := outOf_ok h
  obtain ⟨_, _, _, hf⟩ := hs _ {} e' EInv.empty he'
  exact hf e'.out (Agree.refl _ _)

/-- **C05 (capstone): the encoded output of a well-formed message is a well-formed DNS message
carrying the same value** (up to ASCII case of names and the order of `mandatory` keys). -/
theorem encodeDns_spec {m : Msg} {b : Bytes} (hwf : WfMsg m) (h : encodeDns m = .ok b) :
    ∃ m', m'.norm = m.norm ∧ MsgAt b true m' := by
  obtain ⟨m', hnorm, hlim, hid, hfl, h1, h2, h3, h4, hH, e1, e2, e3, hq, ha, hn, hr⟩ :=
    (encMsg_spec hwf).fresh h
  refine ⟨m', hnorm, ?_, by omega, hid, hfl, h1, h2, h3, h4, hH, e1, e2, e3, by simpa using hq, ha, hn, hr⟩
  -- the header alone has 12 octets
  have := hH 11 (by simp)
  rcases Nat.lt_or_ge 11 b.length with hlt | hge
  · omega
  · rw [List.getElem?_eq_none (by omega)] at this
    simp [beBytes] at this

/-- **one record** encoded on its own -/
theorem encodeRR_spec {rr : RR} {b : Bytes} (hwf : WfRR rr) (h : encodeRR rr = .ok b) :
    ∃ rr', rr'.norm = rr.norm ∧ RRAt b true 0 rr' b.length :=
  (encRR_wspec hwf).fresh h

/-- **one question** encoded on its own -/
theorem encodeQuestion_spec {q : Question} {b : Bytes} (hwf : WfQuestion q) (h : encodeQuestion q = .ok b) :
    ∃ q', q'.lower = q.lower ∧ QuestionAt b true 0 q' b.length :=
  (encQuestion_wspec hwf).fresh h

/-- with an empty compression table nothing is compressed -/
theorem encNameGo_empty : ∀ (n : Name) (e e' : Enc) (loc : List (Name × Nat)), e.idx = [] →
    encNameGo e n loc = .ok e' → e'.out = e.out ++ Name.wire n := by
  intro n
  induction n with
  | nil =>
    intro e e' loc _ h
    simp [encNameGo, Enc.merge] at h
    subst h
    rfl
  | cons l rest ih =>
    intro e e' loc hidx h
    unfold encNameGo at h
    have hlk : e.lookup (l :: rest) = none := by simp [Enc.lookup, hidx]
    simp only [hlk] at h
    split at h; · cases h
    split at h; · cases h
    have := ih { e with out := e.out ++ (UInt8.ofNat l.length :: l) } e' _ hidx h
    rw [this]
    simp [Name.wire]

/-- **one name** encoded on its own: its uncompressed wire form, which reads as the name itself
(same case, zero hops) -/
theorem encodeName_spec {n : Name} {b : Bytes} (hwf : WfName n) (h : encodeName n = .ok b) :
    b = Name.wire n ∧ NameAt b true 0 n 0 b.length ∧ NameRefAt b true 0 n b.length := by
  obtain ⟨e', he', rfl⟩ := outOf_ok h
  have hb : e'.out = Name.wire n := by
    have := encNameGo_empty n {} e' [] rfl he'
    simpa using this
  have hn : NameAt e'.out true 0 n 0 e'.out.length := by
    have := nameAt_wire n (Name.wire n) 0 hwf.1 (fun i _ => by simp)
    rw [hb]; simpa using this
  exact ⟨hb, hn, nameRef_of_literal hwf hn⟩

/-! ## Non-vacuity: a response with a question, a compressed answer and an OPT record -/

def exMsg : Msg :=
  { id := 0x1234
    flags := ⟨true, 0, false, false, true, true, false, false, 0⟩
    qs := [⟨[[97], [98]], 1, 1⟩]
    an := [⟨[[65], [98]], 15, 1, 60, .fields [.num 10, .name [[109], [97], [98]]]⟩]
    ns := []
    ar := [⟨[], 41, 0, 0, .opt 1232 0 0 false [.padding 2]⟩] }

theorem exMsg_encoded : encodeDns exMsg = .ok
    [0x12, 0x34, 0x81, 0x80, 0, 1, 0, 1, 0, 0, 0, 1,
     1, 97, 1, 98, 0, 0, 1, 0, 1,
     0xC0, 12, 0, 15, 0, 1, 0, 0, 0, 60, 0, 6, 0, 10, 1, 109, 0xC0, 12,
     0, 0, 41, 4, 208, 0, 0, 0, 0, 0, 6, 0, 12, 0, 2, 0, 0] := rfl

theorem wfName_of_ascii {n : Name} (h1 : ∀ l ∈ n, 1 ≤ l.length ∧ l.length ≤ 63) (h2 : Name.sz n < 255)
    (h3 : ∀ l ∈ n, validUtf8 l = true) : WfName n := ⟨h1, h2, h3⟩

theorem exMsg_wf : WfMsg exMsg := by
  have hab : WfName [[97], [98]] := by
    refine ⟨?_, by decide, ?_⟩ <;> intro l hl <;> simp at hl <;> rcases hl with rfl | rfl <;>
      first | decide | simp [wfLabel]
  have hAb : WfName [[65], [98]] := by
    refine ⟨?_, by decide, ?_⟩ <;> intro l hl <;> simp at hl <;> rcases hl with rfl | rfl <;>
      first | decide | simp [wfLabel]
  have hmab : WfName [[109], [97], [98]] := by
    refine ⟨?_, by decide, ?_⟩ <;> intro l hl <;> simp at hl <;> rcases hl with rfl | rfl | rfl <;>
      first | decide | simp [wfLabel]
  refine ⟨by decide, ⟨by decide, by decide, by decide⟩, by decide, by decide, by decide, by decide, ?_, ?_, ?_, ?_⟩
  · intro q hq
    simp [exMsg] at hq; subst hq
    exact ⟨hab, by decide, by decide⟩
  · intro r hr
    simp [exMsg] at hr; subst hr
    exact ⟨⟨_, rfl, (by decide : 10 < 256 ^ 2), hmab, trivial⟩, hAb, ⟨by decide, fun h => by simp at h⟩, by decide⟩
  · intro r hr; simp [exMsg] at hr
  · intro r hr
    simp [exMsg] at hr; subst hr
    refine ⟨⟨rfl, ?_⟩, rfl, rfl, rfl, by decide, by decide, by decide⟩
    intro o ho; simp at ho; subst ho; exact (by decide : 2 < 65536)

/-- the capstone applies to a concrete, non-trivial message -/
example : ∃ m', m'.norm = exMsg.norm ∧ MsgAt
    [0x12, 0x34, 0x81, 0x80, 0, 1, 0, 1, 0, 0, 0, 1,
     1, 97, 1, 98, 0, 0, 1, 0, 1,
     0xC0, 12, 0, 15, 0, 1, 0, 0, 0, 60, 0, 6, 0, 10, 1, 109, 0xC0, 12,
     0, 0, 41, 4, 208, 0, 0, 0, 0, 0, 6, 0, 12, 0, 2, 0, 0] true m' :=
  encodeDns_spec exMsg_wf exMsg_encoded

end EncSpec
