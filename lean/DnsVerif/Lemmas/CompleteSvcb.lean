import DnsVerif.Lemmas.CompleteBodies

/-! # Decoder completeness, part 3: SvcParams (SVCB / HTTPS, RFC 9460) (C04)

`decSvcParam_complete` for each of the nine value kinds, and `decSvcParams_complete`: from the
parameters as they appear on the wire (any order, pairwise distinct keys) the decoder returns the
list sorted by key, which is the abstract value (`perm_sorted_unique`: a strictly sorted list is
determined by its elements). -/

namespace Complete

/-! ## Value loops -/

theorem nums16_of {buf : Bytes} {lim : Nat} (hlb : lim ≤ buf.length) (hB : buf.length < 2 ^ 63) :
    ∀ (ks : List Nat) (off fuel c : Nat), (∀ k ∈ ks, k < 65536) → BytesAt buf off (ks.flatMap (beBytes 2)) →
      off + 2 * ks.length = lim → lim - off < fuel →
      ∃ c', D.nums16 fuel { buf := buf, off := off, lim := lim, cost := c } =
        .ok (ks, { buf := buf, off := lim, lim := lim, cost := c' }) := by
  intro ks
  induction ks with
  | nil =>
    intro off fuel c _ _ hl hf
    cases fuel with
    | zero => omega
    | succ fuel =>
      have : off = lim := by simpa using hl
      subst this
      refine ⟨c, ?_⟩
      unfold D.nums16
      rw [isFinished_at (Nat.le_refl _)]
      simp
  | cons k r ih =>
    intro off fuel c hk hb hl hf
    cases fuel with
    | zero => omega
    | succ fuel =>
      simp only [List.flatMap_cons] at hb
      rw [bytesAt_append] at hb
      obtain ⟨b1, b2⟩ := hb
      simp only [List.length_cons] at hl
      have n1 := num_of_bytesAt (c := c) (lim := lim) b1 (by have := hk k (by simp); simpa using this)
        (by omega) hlb hB
      obtain ⟨c', hc'⟩ := ih (off + 2) fuel (c + 2) (fun x hx => hk x (by simp [hx]))
        (bcast b2 (by simp)) (by omega) (by omega)
      refine ⟨c', ?_⟩
      unfold D.nums16
      rw [isFinished_at (by simp only; omega)]
      have hne : ¬ (off = lim) := by omega
      simp only [hne, decide_false, n1, hc']

/-- `while !is_finished { ipv4_addr / ipv6_addr }`: addresses of `w = k * ch` octets -/
theorem hints_of {buf : Bytes} {lim : Nat} (hlb : lim ≤ buf.length) (hB : buf.length < 2 ^ 63)
    (k ch w : Nat) (hw : k * ch = w) (hpos : 0 < w) :
    ∀ (hs : List Bytes) (off fuel c : Nat), (∀ h ∈ hs, h.length = w) → BytesAt buf off hs.flatten →
      off + w * hs.length = lim → lim - off < fuel →
      ∃ c', D.hints fuel k ch { buf := buf, off := off, lim := lim, cost := c } =
        .ok (hs, { buf := buf, off := lim, lim := lim, cost := c' }) := by
  intro hs
  induction hs with
  | nil =>
    intro off fuel c _ _ hl hf
    cases fuel with
    | zero => omega
    | succ fuel =>
      have : off = lim := by simpa using hl
      subst this
      refine ⟨c, ?_⟩
      unfold D.hints
      rw [isFinished_at (Nat.le_refl _)]
      simp
  | cons h r ih =>
    intro off fuel c hk hb hl hf
    cases fuel with
    | zero => omega
    | succ fuel =>
      simp only [List.flatten_cons] at hb
      rw [bytesAt_append] at hb
      obtain ⟨b1, b2⟩ := hb
      simp only [List.length_cons, Nat.mul_succ] at hl
      have hlen : h.length = w := hk h (by simp)
      have n1 := octs_of hlb hB k ch off c h (by rw [hw]; exact hlen) b1 (by rw [hw]; omega)
      obtain ⟨c', hc'⟩ := ih (off + k * ch) fuel (c + k * ch) (fun x hx => hk x (by simp [hx]))
        (bcast b2 (by rw [hlen, hw])) (by rw [hw]; omega) (by rw [hw]; omega)
      refine ⟨c', ?_⟩
      unfold D.hints
      rw [isFinished_at (by simp only; omega)]
      have hne : ¬ (off = lim) := by omega
      simp only [hne, decide_false, n1, hc']

/-! ## One SvcParam value -/

theorem SvcValueAt.key_lt {buf : Bytes} {lim off : Nat} {p : SvcParam} (h : SvcValueAt buf lim off p) :
    p.key < 65536 := by
  cases h <;> simp only [SvcParam.key] <;> omega

theorem SvcValueAt.le {buf : Bytes} {lim off : Nat} {p : SvcParam} (h : SvcValueAt buf lim off p) :
    off ≤ lim := by
  cases h with
  | alpn hs => exact CStrsAt.le hs
  | _ => omega

/-- **each of the nine SvcParam kinds** is decoded exactly, filling its own window -/
theorem decSvcParam_complete {buf : Bytes} {lim off c : Nat} {p : SvcParam} (h : SvcValueAt buf lim off p)
    (hlb : lim ≤ buf.length) (hB : buf.length < 2 ^ 63) :
    ∃ c', decSvcParam p.key { buf := buf, off := off, lim := lim, cost := c } =
      .ok (p, { buf := buf, off := lim, lim := lim, cost := c' }) := by
  cases h with
  | @mandatory _ ks hks hb hl =>
    obtain ⟨c', hc'⟩ := nums16_of hlb hB ks off (lim - off + 1) c hks hb hl (by omega)
    exact ⟨c', by simp only [decSvcParam, SvcParam.key, if_true, hc']⟩
  | @alpn _ ids hs =>
    obtain ⟨c', hc'⟩ := cstrs_of hlb hB hs (lim - off + 1) c (by omega)
    exact ⟨c', by simp [decSvcParam, SvcParam.key, hc']⟩
  | noDefaultAlpn => exact ⟨c, by simp [decSvcParam, SvcParam.key]⟩
  | @port _ p hp hb hl =>
    have n1 := num_of_bytesAt (c := c) (lim := lim) hb (by simpa using hp) (by omega) hlb hB
    refine ⟨c + 2, ?_⟩
    simp [decSvcParam, SvcParam.key, n1, hl]
  | @ipv4hint _ hs hlen hb hl =>
    obtain ⟨c', hc'⟩ := hints_of hlb hB 1 4 4 rfl (by omega) hs off (lim - off + 1) c hlen hb hl (by omega)
    exact ⟨c', by simp [decSvcParam, SvcParam.key, hc']⟩
  | @ech _ b hb hlt hl =>
    rw [bytesAt_append] at hb
    obtain ⟨b1, b2⟩ := hb
    have n1 := num_of_bytesAt (c := c) (lim := lim) b1 (by simpa using hlt) (by omega) hlb hB
    have r1 := rest_of_bytesAt (c := c + 2) (lim := lim) (off := off + 2) (bcast b2 (by simp)) (by omega) hlb
    refine ⟨c + 2 + b.length, ?_⟩
    simp [decSvcParam, SvcParam.key, n1, r1]
  | @ipv6hint _ hs hlen hb hl =>
    obtain ⟨c', hc'⟩ := hints_of hlb hB 8 2 16 rfl (by omega) hs off (lim - off + 1) c hlen hb hl (by omega)
    exact ⟨c', by simp [decSvcParam, SvcParam.key, hc']⟩
  | @priv _ k b h7 hk hb hl =>
    have r1 := rest_of_bytesAt (c := c) (lim := lim) hb hl hlb
    have h0 : ¬ k = 0 := by omega
    have h1 : ¬ k = 1 := by omega
    have h2 : ¬ k = 2 := by omega
    have h3 : ¬ k = 3 := by omega
    have h4 : ¬ k = 4 := by omega
    have h5 : ¬ k = 5 := by omega
    have h6 : ¬ k = 6 := by omega
    have h9 : ¬ k = 65535 := by omega
    refine ⟨c + b.length, ?_⟩
    simp only [decSvcParam, SvcParam.key, h0, h1, h2, h3, h4, h5, h6, h9, if_false, r1]
  | key65535 => exact ⟨c, by simp [decSvcParam, SvcParam.key]⟩

/-! ## Sorted insertion -/

/-- `BTreeSet::insert` of the wire parameters one by one -/
def insertAll : List SvcParam → List SvcParam → Option (List SvcParam)
  | acc, [] => some acc
  | acc, p :: r =>
    match insertParam p acc with
    | none => none
    | some acc' => insertAll acc' r

abbrev keyLt (a b : SvcParam) : Prop := a.key < b.key

theorem keysSorted_cons_iff (a : SvcParam) (l : List SvcParam) :
    keysSorted (a :: l) ↔ (∀ x ∈ l, a.key < x.key) ∧ keysSorted l := by
  induction l generalizing a with
  | nil => simp [keysSorted]
  | cons b r ih =>
    simp only [keysSorted]
    constructor
    · rintro ⟨hab, hbr⟩
      refine ⟨?_, hbr⟩
      intro x hx
      rcases List.mem_cons.mp hx with rfl | hx
      · exact hab
      · have := ((ih b).mp hbr).1 x hx; omega
    · rintro ⟨h1, h2⟩
      exact ⟨h1 b (by simp), h2⟩

theorem keysSorted_iff_pairwise (l : List SvcParam) : keysSorted l ↔ l.Pairwise keyLt := by
  induction l with
  | nil => simp [keysSorted]
  | cons a r ih => rw [keysSorted_cons_iff, List.pairwise_cons, ih]

/-- a strictly sorted list is determined by its elements -/
theorem perm_sorted_unique : ∀ {l₁ l₂ : List SvcParam}, l₁.Perm l₂ → keysSorted l₁ → keysSorted l₂ → l₁ = l₂ := by
  intro l₁
  induction l₁ with
  | nil => intro l₂ hp _ _; exact (List.Perm.nil_eq hp)
  | cons a r ih =>
    intro l₂ hp h1 h2
    cases l₂ with
    | nil => exact absurd hp.symm (by simp)
    | cons b r2 =>
      rw [keysSorted_cons_iff] at h1 h2
      have hab : a = b := by
        have ha : a ∈ b :: r2 := (hp.mem_iff).mp (by simp)
        have hb : b ∈ a :: r := (hp.mem_iff).mpr (by simp)
        rcases List.mem_cons.mp ha with h | ha
        · exact h
        · rcases List.mem_cons.mp hb with h | hb
          · exact h.symm
          · have := h1.1 b hb; have := h2.1 a ha; omega
      subst hab
      rw [ih (List.Perm.cons_inv hp) h1.2 h2.2]

theorem insertParam_some (p : SvcParam) : ∀ (acc : List SvcParam), acc.Pairwise keyLt →
    (∀ q ∈ acc, q.key ≠ p.key) →
    ∃ acc', insertParam p acc = some acc' ∧ acc'.Pairwise keyLt ∧ acc'.Perm (p :: acc) := by
  intro acc
  induction acc with
  | nil => intro _ _; exact ⟨[p], rfl, by simp, List.Perm.refl _⟩
  | cons q r ih =>
    intro hs hd
    rw [List.pairwise_cons] at hs
    have hqp : q.key ≠ p.key := hd q (by simp)
    by_cases hlt : p.key < q.key
    · refine ⟨p :: q :: r, by simp [insertParam, hlt], ?_, List.Perm.refl _⟩
      rw [List.pairwise_cons, List.pairwise_cons]
      refine ⟨?_, hs⟩
      intro x hx
      rcases List.mem_cons.mp hx with rfl | hx
      · exact hlt
      · have : q.key < x.key := hs.1 x hx
        show p.key < x.key; omega
    · obtain ⟨acc', h1, h2, h3⟩ := ih hs.2 (fun x hx => hd x (by simp [hx]))
      have hne : ¬ p.key = q.key := fun h => hqp h.symm
      refine ⟨q :: acc', by simp [insertParam, hlt, hne, h1], ?_, ?_⟩
      · rw [List.pairwise_cons]
        refine ⟨?_, h2⟩
        intro x hx
        rcases List.mem_cons.mp ((h3.mem_iff).mp hx) with rfl | hx
        · show q.key < x.key; omega
        · exact hs.1 x hx
      · exact ((List.Perm.cons q h3).trans (List.Perm.swap p q r))

theorem insertAll_sorted : ∀ (wire acc : List SvcParam), acc.Pairwise keyLt →
    ((acc ++ wire).map SvcParam.key).Nodup →
    ∃ res, insertAll acc wire = some res ∧ res.Pairwise keyLt ∧ res.Perm (acc ++ wire) := by
  intro wire
  induction wire with
  | nil => intro acc hs _; exact ⟨acc, rfl, hs, by simp⟩
  | cons p r ih =>
    intro acc hs hnd
    have hmid : (acc ++ p :: r).Perm (p :: (acc ++ r)) := List.perm_middle
    have hnd' : ((p :: (acc ++ r)).map SvcParam.key).Nodup := ((hmid.map SvcParam.key).nodup_iff).mp hnd
    rw [List.map_cons, List.nodup_cons] at hnd'
    have hd : ∀ q ∈ acc, q.key ≠ p.key := by
      intro q hq he
      exact hnd'.1 (List.mem_map.mpr ⟨q, by simp [hq], he⟩)
    obtain ⟨acc', h1, h2, h3⟩ := insertParam_some p acc hs hd
    have hperm : (acc' ++ r).Perm (p :: (acc ++ r)) := List.Perm.append_right r h3
    obtain ⟨res, r1, r2, r3⟩ := ih acc' h2 (by
      refine ((hperm.map SvcParam.key).nodup_iff).mpr ?_
      rw [List.map_cons, List.nodup_cons]; exact hnd')
    exact ⟨res, by simp [insertAll, h1, r1], r2, (r3.trans hperm).trans hmid.symm⟩

/-- inserting the wire parameters one by one into the empty set gives the sorted abstract value -/
theorem insertAll_eq_sorted {wire sorted : List SvcParam} (hperm : sorted.Perm wire) (hs : keysSorted sorted) :
    insertAll [] wire = some sorted := by
  have hpw := (keysSorted_iff_pairwise sorted).mp hs
  have hnd : (sorted.map SvcParam.key).Nodup := by
    have : (sorted.map SvcParam.key).Pairwise (· < ·) := List.pairwise_map.mpr hpw
    exact this.imp (fun h => Nat.ne_of_lt h)
  obtain ⟨res, r1, r2, r3⟩ := insertAll_sorted wire [] (by simp)
    (by simpa using ((hperm.map SvcParam.key).nodup_iff).mp hnd)
  have : res = sorted :=
    perm_sorted_unique ((by simpa using r3 : res.Perm wire).trans hperm.symm)
      ((keysSorted_iff_pairwise res).mpr r2) hs
  rw [r1, this]

/-! ## The parameter loop -/

theorem SvcParamAt.lt {buf : Bytes} {off e : Nat} {p : SvcParam} (h : SvcParamAt buf off p e) : off + 4 ≤ e := by
  cases h; omega

theorem SvcParamsAt.le {buf : Bytes} {lim off : Nat} {l : List SvcParam} (h : SvcParamsAt buf lim off l) :
    off ≤ lim := by
  induction h with
  | nil => exact Nat.le_refl _
  | cons h1 _ _ ih => have := SvcParamAt.lt h1; omega

theorem decSvcParams_of {buf : Bytes} {lim : Nat} (hlb : lim ≤ buf.length) (hB : buf.length < 2 ^ 63)
    {off : Nat} {wire : List SvcParam} (h : SvcParamsAt buf lim off wire) :
    ∀ (fuel c : Nat) (acc res : List SvcParam), insertAll acc wire = some res → lim - off < fuel →
      ∃ c', decSvcParams fuel { buf := buf, off := off, lim := lim, cost := c } acc =
        .ok (res, { buf := buf, off := lim, lim := lim, cost := c' }) := by
  induction h with
  | nil =>
    intro fuel c acc res hi hf
    cases fuel with
    | zero => omega
    | succ fuel =>
      simp only [insertAll, Option.some.injEq] at hi
      subst hi
      refine ⟨c, ?_⟩
      unfold decSvcParams
      rw [isFinished_at (Nat.le_refl _)]
      simp
  | @cons off o e r hp hel hr ih =>
    intro fuel c acc res hi hf
    cases fuel with
    | zero => omega
    | succ fuel =>
      have hlt := SvcParamAt.lt hp
      cases hp with
      | @mk len _ hlen hb hv =>
        have hkey := SvcValueAt.key_lt hv
        rw [bytesAt_append] at hb
        obtain ⟨b1, b2⟩ := hb
        have n1 := num_of_bytesAt (c := c) (lim := lim) b1 (by simpa using hkey) (by omega) hlb hB
        have n2 := num_of_bytesAt (c := c + 2) (lim := lim) (off := off + 2) (bcast b2 (by simp))
          (by simpa using hlen) (by omega) hlb hB
        obtain ⟨c1, hc1⟩ := withSub_of (c := c + 2 + 2) (off := off + 2 + 2) (lim := lim) (len := len)
          (f := decSvcParam o.key) (a := o) (by omega) hlb hB
          (fun c0 => decSvcParam_complete (c := c0)
            (by rw [show off + 2 + 2 = off + 4 by omega]; exact hv) (by omega) hB)
        rw [show off + 2 + 2 + len = off + 4 + len by omega] at hc1
        cases hip : insertParam o acc with
        | none => simp [insertAll, hip] at hi
        | some acc' =>
          simp only [insertAll, hip] at hi
          obtain ⟨c2, hc2⟩ := ih fuel c1 acc' res hi (by omega)
          refine ⟨c2, ?_⟩
          unfold decSvcParams
          rw [isFinished_at (by simp only; omega)]
          have hne : ¬ (off = lim) := by omega
          simp only [hne, decide_false, n1, n2, hc1, hip, hc2]

/-- **SvcParams**: wire order arbitrary, keys pairwise distinct (a consequence of
`sorted.Perm wire ∧ keysSorted sorted`); the decoder returns `sorted` -/
theorem decSvcParams_complete {buf : Bytes} {lim off c : Nat} {wire sorted : List SvcParam}
    (h : SvcParamsAt buf lim off wire) (hperm : sorted.Perm wire) (hs : keysSorted sorted)
    (hlb : lim ≤ buf.length) (hB : buf.length < 2 ^ 63) :
    ∃ c', decSvcParams (lim - off + 1) { buf := buf, off := off, lim := lim, cost := c } [] =
      .ok (sorted, { buf := buf, off := lim, lim := lim, cost := c' }) :=
  decSvcParams_of hlb hB h (lim - off + 1) c [] sorted (insertAll_eq_sorted hperm hs) (by omega)

/-! ## Non-vacuity: wire order port (3), alpn (1), ipv4hint (4), unregistered key 7 with an empty value -/

section Examples

local macro "bdec" : tactic => `(tactic| (unfold BytesAt; decide +kernel))

private def exBuf : Bytes :=
  [0, 3, 0, 2, 1, 187, 0, 1, 0, 3, 2, 104, 50, 0, 4, 0, 8, 10, 0, 0, 1, 10, 0, 0, 2, 0, 7, 0, 0]

private def exWire : List SvcParam :=
  [.port 443, .alpn [[104, 50]], .ipv4hint [[10, 0, 0, 1], [10, 0, 0, 2]], .priv 7 []]
private def exSorted : List SvcParam :=
  [.alpn [[104, 50]], .port 443, .ipv4hint [[10, 0, 0, 1], [10, 0, 0, 2]], .priv 7 []]

private theorem exWireAt : SvcParamsAt exBuf 29 0 exWire :=
  .cons (.mk (len := 2) (by decide) (by bdec) (.port (by decide) (by bdec) rfl)) (by decide)
    (.cons (.mk (len := 3) (by decide) (by bdec)
        (.alpn (.cons (e := 13) (by decide) ⟨by decide, by decide, by bdec, by decide⟩ (by decide) (by decide) .nil)))
      (by decide)
      (.cons (.mk (len := 8) (by decide) (by bdec) (.ipv4hint (by decide) (by bdec) rfl)) (by decide)
        (.cons (.mk (len := 0) (by decide) (by bdec) (.priv (by decide) (by decide) (bytesAt_nil _ _) rfl))
          (by decide) .nil)))

example : ∃ c', decSvcParams (29 - 0 + 1) { buf := exBuf, off := 0, lim := 29, cost := 0 } [] =
    .ok (exSorted, { buf := exBuf, off := 29, lim := 29, cost := c' }) :=
  decSvcParams_complete exWireAt (by unfold exSorted exWire; exact List.Perm.swap _ _ _)
    (by unfold exSorted; exact ⟨by decide, by decide, by decide, trivial⟩) (by decide) (by decide +kernel)

end Examples

end Complete
