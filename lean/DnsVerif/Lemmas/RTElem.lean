import DnsVerif.Lemmas.RTMsg

/-! # Round trip, part 4: record-level corollaries (C10, C15, C16, C17)

* `rr_roundtrip_owner`: a record encoded on its own is read back with EXACTLY its owner name (a fresh
  encoder cannot compress the first name), and `rr_roundtrip_exact`: a record whose RDATA holds no
  names (`plainRData`: OPT, APL, and regular types without name fields) is read back exactly;
* C15 `option_roundtrip` (any OPT record with any well-formed options), `opt_roundtrip_total` (the same
  in closed form), `opt_fields_position` (payload = the two octets of CLASS; extended RCODE, version and
  DO = octets 0, 1 and the top bit of octet 2 of TTL; octet 3 zero);
* C16 `svcb_roundtrip`; C17 `apl_roundtrip`, `ecs_roundtrip`;
* C10 embedding of a stand-alone record into a message: `RTEmbed.lean` (`elem_embeds_partial`, the 33 types
  without compressible RDATA names) and `RTEmbedAll.lean` (`elem_embeds`, every type, pointer-free case). -/

namespace RT

open EncLim

/-! ## The owner of a stand-alone record is read back exactly -/

theorem bytesAt_prefix (x y : Bytes) : BytesAt (x ++ y) 0 x := by
  intro i hi
  rw [Nat.zero_add, List.getElem?_append_left hi]

theorem wfRR_owner_eq {rr : RR} (h : WfRR rr) : rrOwner rr = rr.name := by
  rcases wfRR_cases h with ⟨info, vs, hk, _⟩ | ⟨p, x, v, d, opts, hk, _, _, hn⟩ | ⟨items, hk, _⟩ |
    ⟨b, prio, target, params, hk, _⟩
  · simp only [rrOwner, hk]
  · simp only [rrOwner, hk, hn]
  · simp only [rrOwner, hk]
  · simp only [rrOwner, hk]

/-- the stand-alone encoding starts with the literal owner name -/
theorem encodeRR_owner_literal {rr : RR} {b : Bytes} (hs : Shaped rr) (h : encodeRR rr = .ok b) :
    ∃ rest, b = Name.wire (rrOwner rr) ++ rest := by
  obtain ⟨e', he, rfl⟩ := outOf_ok.mp h
  obtain ⟨⟨e1, nm, body, hn, hnm, _, _, ho, _⟩, _⟩ := encRR_ok hs he
  have hw := EncSpec.encNameGo_empty (rrOwner rr) {} e1 [] rfl hn
  have hnm' : nm = Name.wire (rrOwner rr) := by
    rw [hnm] at hw
    exact List.append_cancel_left hw
  exact ⟨rrFixed rr ++ beBytes 2 body.length ++ body, by rw [ho, hnm']; simp⟩

/-- whatever record the grammar sees at the start of the stand-alone encoding has exactly that owner -/
theorem rrAt_owner_of_literal {b rest : Bytes} {bk : Bool} {n : Name} {rr' : RR} {e : Nat} (hwf : wfName n)
    (hb : b = Name.wire n ++ rest) (hat : RRAt b bk 0 rr' e) : rr'.name = n := by
  have hlit : NameAt b true 0 n 0 (0 + (Name.wire n).length) :=
    nameAt_wire n b 0 hwf (hb ▸ bytesAt_prefix _ _)
  cases hat with
  | normal _ hn _ _ _ _ _ _ _ =>
    obtain ⟨_, hna, _⟩ := hn
    exact (hna.weaken'.det hlit.weaken').1
  | opt hn _ _ _ _ _ _ =>
    obtain ⟨_, hna, _⟩ := hn
    exact (hna.weaken'.det hlit.weaken').1

/-- **C10: one record, owner exact.** -/
theorem rr_roundtrip_owner {rr : RR} {b : Bytes} (hwf : WfRR rr) (h : encodeRR rr = .ok b) :
    ∃ rr' d, decodeRR b = .ok (rr', d) ∧ rr'.norm = rr.norm ∧ rr'.name = rr.name ∧ d.off = b.length := by
  obtain ⟨rr', hn, hat⟩ := EncSpec.encodeRR_spec hwf h
  have hle := rrAt_end_le hat
  obtain ⟨c, hc⟩ := Complete.decodeRR_complete hat (by omega)
  obtain ⟨rest, hb⟩ := encodeRR_owner_literal (wfRR_shaped hwf) h
  have ho := rrAt_owner_of_literal (wfRR_owner hwf).1 hb hat
  exact ⟨rr', _, hc, hn, by rw [ho, wfRR_owner_eq hwf], rfl⟩

/-! ## RDATA without names: exact round trip -/

/-- RDATA on which `norm` is injective: no name inside (and no `mandatory` list) -/
def plainRData : RData → Prop
  | .fields vs => ∀ v ∈ vs, ∀ n, v ≠ .name n
  | .opt _ _ _ _ _ => True
  | .apl _ => True
  | .svcb _ _ _ => False

theorem map_lower_eq : ∀ {vs' vs : List FVal}, vs'.map FVal.lower = vs.map FVal.lower →
    (∀ v ∈ vs, ∀ n, v ≠ .name n) → vs' = vs := by
  intro vs'
  induction vs' with
  | nil => intro vs h _; cases vs with
    | nil => rfl
    | cons v vs => simp at h
  | cons v' vs' ih =>
    intro vs h hp
    cases vs with
    | nil => simp at h
    | cons v vs =>
      simp only [List.map_cons, List.cons.injEq] at h
      rw [EncSpec.FVal.eq_of_lower h.1 (hp v (by simp)), ih h.2 (fun x hx => hp x (by simp [hx]))]

theorem rdata_eq_of_plain {rd' rd : RData} (hp : plainRData rd) (h : rd'.norm = rd.norm) : rd' = rd := by
  cases rd with
  | fields vs =>
    obtain ⟨vs', rfl, hv⟩ := rdata_norm_fields h
    rw [map_lower_eq hv hp]
  | opt p x v d o => exact rdata_norm_opt h
  | apl items => exact rdata_norm_apl h
  | svcb p t ps => exact hp.elim

/-- **a record whose RDATA holds no names is read back exactly** -/
theorem rr_roundtrip_exact {rr : RR} {b : Bytes} (hwf : WfRR rr) (hp : plainRData rr.rd)
    (h : encodeRR rr = .ok b) : ∃ d, decodeRR b = .ok (rr, d) ∧ d.off = b.length := by
  obtain ⟨rr', d, hd, hn, ho, hoff⟩ := rr_roundtrip_owner hwf h
  obtain ⟨_, h2, h3, h4, h5⟩ := rr_norm_eq_iff.mp hn
  have h6 := rdata_eq_of_plain hp h5
  have : rr' = rr := by
    cases rr'; cases rr
    simp only at ho h2 h3 h4 h6
    simp [ho, h2, h3, h4, h6]
  exact ⟨d, this ▸ hd, hoff⟩

/-! ## C15: the OPT record -/

/-- **C15 `option_roundtrip`**: a well-formed OPT record carrying ANY well-formed options, once
encoded, is decoded to the same record (payload size, extended RCODE, version, DO, every option) -/
theorem option_roundtrip {rr : RR} {b : Bytes} {p x v : Nat} {dn : Bool} {opts : List EdnsOpt} (hwf : WfRR rr)
    (hrd : rr.rd = .opt p x v dn opts) (h : encodeRR rr = .ok b) :
    ∃ d, decodeRR b = .ok (rr, d) ∧ d.off = b.length :=
  rr_roundtrip_exact hwf (by rw [hrd]; trivial) h

/-- the OPT record as a value -/
def optRR (p x v : Nat) (dn : Bool) (opts : List EdnsOpt) : RR :=
  { name := [], ty := 41, cls := 0, ttl := 0, rd := .opt p x v dn opts }

theorem optRR_wf {p x v : Nat} {dn : Bool} {opts : List EdnsOpt} (hp : p < 65536) (hx : x < 256) (hv : v < 256)
    (ho : ∀ o ∈ opts, WfOption o) : WfRR (optRR p x v dn opts) :=
  ⟨⟨rfl, ho⟩, rfl, rfl, rfl, hp, hx, hv⟩

theorem optRR_usize (p x v : Nat) (dn : Bool) (opts : List EdnsOpt) :
    (optRR p x v dn opts).usize = 11 + (opts.map optionSize).sum := by
  have hk : rrKind (optRR p x v dn opts).ty = some .opt := rfl
  simp only [RR.usize, rrSize, rrOwner, hk, rdata_usize_opt hk rfl, Name.sz_nil]

/-- closed form: in-range header fields, well-formed options, at most 65535 octets ⇒ encoded and read
back exactly -/
theorem opt_roundtrip_total {p x v : Nat} {dn : Bool} {opts : List EdnsOpt} (hp : p < 65536) (hx : x < 256)
    (hv : v < 256) (ho : ∀ o ∈ opts, WfOption o) (hsz : 11 + (opts.map optionSize).sum ≤ 65535) :
    ∃ b d, encodeRR (optRR p x v dn opts) = .ok b ∧ decodeRR b = .ok (optRR p x v dn opts, d) ∧
      d.off = b.length ∧ b.length ≤ 11 + (opts.map optionSize).sum := by
  have hwf := optRR_wf (dn := dn) hp hx hv ho
  obtain ⟨b, hb, hl⟩ := encodeRR_total hwf (by rw [optRR_usize]; exact hsz)
  obtain ⟨d, hd, hoff⟩ := option_roundtrip hwf rfl hb
  exact ⟨b, d, hb, hd, hoff, by rw [optRR_usize] at hl; exact hl⟩

/-- the TTL word of an OPT record, octet by octet -/
theorem beBytes4_optTtl {ext ver : Nat} (dn : Bool) (he : ext < 256) (hv : ver < 256) :
    beBytes 4 (optTtlOf ext ver dn) = [UInt8.ofNat ext, UInt8.ofNat ver, if dn then 128 else 0, 0] := by
  have h3 : optTtlOf ext ver dn / 256 ^ 3 % 256 = ext := by
    unfold optTtlOf; cases dn <;> simp <;> omega
  have h2 : optTtlOf ext ver dn / 256 ^ 2 % 256 = ver := by
    unfold optTtlOf; cases dn <;> simp <;> omega
  have h1 : optTtlOf ext ver dn / 256 ^ 1 % 256 = if dn then 128 else 0 := by
    unfold optTtlOf; cases dn <;> simp <;> omega
  have h0 : optTtlOf ext ver dn / 256 ^ 0 % 256 = 0 := by
    unfold optTtlOf; cases dn <;> simp <;> omega
  simp only [beBytes, h3, h2, h1, h0]
  cases dn <;> rfl

/-- **C15 `opt_fields_position`**: in a record of type OPT that the grammar (hence the decoder) accepts,
the owner is the root (ending at `e`), TYPE is at `e`, the requestor's payload size is the two octets
of CLASS (`e + 2`), and the TTL field (`e + 4 … e + 7`) holds the extended RCODE in octet 0, the version
in octet 1, the DO flag in the top bit of octet 2 (all other bits of octets 2 and 3 zero) -/
theorem opt_fields_position {buf : Bytes} {bk : Bool} {off e' : Nat} {rr : RR} (h : RRAt buf bk off rr e')
    (hty : rr.ty = 41) :
    ∃ e p x v dn opts rdlen, rr = optRR p x v dn opts ∧ NameRefAt buf bk off [] e ∧
      p < 65536 ∧ x < 256 ∧ v < 256 ∧ e' = e + 10 + rdlen ∧
      BytesAt buf e (beBytes 2 41) ∧ BytesAt buf (e + 2) (beBytes 2 p) ∧
      BytesAt buf (e + 4) [UInt8.ofNat x, UInt8.ofNat v, if dn then 128 else 0, 0] ∧
      BytesAt buf (e + 8) (beBytes 2 rdlen) ∧ OptionsAt buf (e + 10 + rdlen) (e + 10) opts := by
  cases h with
  | normal hne _ _ _ _ _ _ _ _ => exact absurd hty hne
  | @opt e rdlen p x v dn opts hn hp hx hv hr hb hrd =>
    have hb1 := EncSpec.bytesAt_left (EncSpec.bytesAt_left (EncSpec.bytesAt_left hb))
    have hb2 := EncSpec.bytesAt_right (EncSpec.bytesAt_left (EncSpec.bytesAt_left hb))
    have hb3 := EncSpec.bytesAt_right (EncSpec.bytesAt_left hb)
    have hb4 := EncSpec.bytesAt_right hb
    simp only [List.length_append, beBytes_length] at hb2 hb3 hb4
    rw [beBytes4_optTtl dn hx hv] at hb3
    refine ⟨e, p, x, v, dn, opts, rdlen, rfl, hn, hp, hx, hv, rfl, hb1, hb2, hb3, hb4, ?_⟩
    cases hrd with
    | opt _ ho => exact ho

/-- the decoder's view: an accepted stand-alone record of type 41 -/
theorem decoded_opt_fields_position {b : Bytes} {rr : RR} {d : D} (hb : b.length < 2 ^ 63)
    (h : decodeRR b = .ok (rr, d)) (hty : rr.ty = 41) :
    ∃ e p x v dn opts, rr = optRR p x v dn opts ∧ NameRefAt b false 0 [] e ∧
      BytesAt b (e + 2) (beBytes 2 p) ∧
      BytesAt b (e + 4) [UInt8.ofNat x, UInt8.ofNat v, if dn then 128 else 0, 0] := by
  obtain ⟨e, p, x, v, dn, opts, _, h1, h2, _, _, _, _, _, h3, h4, _⟩ :=
    opt_fields_position (Sound.decodeRR_sound hb h).1 hty
  exact ⟨e, p, x, v, dn, opts, h1, h2, h3, h4⟩

/-! ## C17: address-prefix items -/

/-- **C17 `apl_roundtrip`**: a well-formed APL record (any items: family, prefix, negation, address) is
read back exactly -/
theorem apl_roundtrip {rr : RR} {b : Bytes} {items : List APItem} (hwf : WfRR rr) (hrd : rr.rd = .apl items)
    (h : encodeRR rr = .ok b) : ∃ d, decodeRR b = .ok (rr, d) ∧ d.off = b.length :=
  rr_roundtrip_exact hwf (by rw [hrd]; trivial) h

theorem wfOption_ecs_size {fam src scope : Nat} {addr : Bytes} (h : WfOption (.ecs fam src scope addr)) :
    optionSize (.ecs fam src scope addr) ≤ 24 := by
  rw [option_usize_ecs, addrWithPrefix_length]
  have h2 := h.2.1
  unfold famWidth at h2
  split at h2 <;> omega

/-- **C17 `ecs_roundtrip`**: an OPT record carrying a well-formed client-subnet option is always encoded
(at most 35 octets) and read back exactly: family, both prefix lengths and all address octets -/
theorem ecs_roundtrip {p x v fam src scope : Nat} {dn : Bool} {addr : Bytes} (hp : p < 65536) (hx : x < 256)
    (hv : v < 256) (hwf : WfOption (.ecs fam src scope addr)) :
    ∃ b d, encodeRR (optRR p x v dn [.ecs fam src scope addr]) = .ok b ∧
      decodeRR b = .ok (optRR p x v dn [.ecs fam src scope addr], d) ∧ d.off = b.length ∧ b.length ≤ 35 := by
  have hs := wfOption_ecs_size hwf
  obtain ⟨b, d, h1, h2, h3, h4⟩ := opt_roundtrip_total (dn := dn) (opts := [.ecs fam src scope addr]) hp hx hv
    (fun o ho => by simp at ho; subst ho; exact hwf) (by simp; omega)
  exact ⟨b, d, h1, h2, h3, by simp at h4; omega⟩

/-! ## C16: SVCB / HTTPS -/

theorem map_key_of_norm {ps' ps : List SvcParam} (h : ps'.map SvcParam.norm = ps.map SvcParam.norm) :
    ps'.map SvcParam.key = ps.map SvcParam.key := by
  have := congrArg (List.map SvcParam.key) h
  simpa [List.map_map, Function.comp_def, EncSpec.SvcParam.norm_key] using this

/-- **C16 `svcb_roundtrip`**: a well-formed SVCB / HTTPS record is read back with the same owner, type,
class, TTL and priority, a target equal up to ASCII case (the target may have been compressed against the
owner: finding K1), and the same parameters in the same (ascending key) order, each identical except that
the key list of `mandatory` comes back sorted -/
theorem svcb_roundtrip {rr : RR} {b : Bytes} {prio : Nat} {target : Name} {params : List SvcParam}
    (hwf : WfRR rr) (hrd : rr.rd = .svcb prio target params) (h : encodeRR rr = .ok b) :
    ∃ target' params' d, decodeRR b = .ok ({ rr with rd := .svcb prio target' params' }, d) ∧ d.off = b.length ∧
      ciEq target' target = true ∧ params'.map SvcParam.norm = params.map SvcParam.norm ∧
      params'.map SvcParam.key = params.map SvcParam.key ∧ keysSorted params' := by
  obtain ⟨rr', d, hd, hn, ho, hoff⟩ := rr_roundtrip_owner hwf h
  obtain ⟨_, h2, h3, h4, h5⟩ := rr_norm_eq_iff.mp hn
  rw [hrd] at h5
  obtain ⟨t', ps', h6, h7, h8⟩ := rdata_norm_svcb h5
  have heq : rr' = { rr with rd := .svcb prio t' ps' } := by
    cases rr'; cases rr
    simp only at ho h2 h3 h4 h6
    simp [ho, h2, h3, h4, h6]
  have hwf' : WfRR rr' := decodeRR_wf (by have := rrAt_end_le (EncSpec.encodeRR_spec hwf h).choose_spec.2; omega) hd
  have hks : keysSorted ps' := by
    have := hwf'.1
    rw [h6] at this
    exact this.2.2.2.1
  exact ⟨t', ps', d, heq ▸ hd, hoff, name_lower_eq_iff.mp h7, h8, map_key_of_norm h8, hks⟩

/-! ## Non-vacuity -/

private theorem ex_noBit : NoBitBeyond [10, 1, 2, 0] 24 :=
  ((checkPrefix_ok_iff [10, 1, 2, 0] 24).mp rfl).2

private theorem ex_ecs_wf : WfOption (.ecs 1 24 0 [10, 1, 2, 0]) :=
  ⟨Or.inl rfl, rfl, by decide, by decide, by decide, ex_noBit⟩

/-- an OPT record with DO set carrying `10.1.2.0/24` as client subnet -/
example : ∃ b d, encodeRR (optRR 1232 0 0 true [.ecs 1 24 0 [10, 1, 2, 0]]) = .ok b ∧
    decodeRR b = .ok (optRR 1232 0 0 true [.ecs 1 24 0 [10, 1, 2, 0]], d) ∧ d.off = b.length ∧ b.length ≤ 35 :=
  ecs_roundtrip (by decide) (by decide) (by decide) ex_ecs_wf

/-- ... its octets (K2: four address octets for a /24), and where the header fields sit -/
example : encodeRR (optRR 1232 0 0 true [.ecs 1 24 0 [10, 1, 2, 0]]) =
    .ok [0, 0, 41, 4, 208, 0, 0, 128, 0, 0, 12, 0, 8, 0, 8, 0, 1, 24, 0, 10, 1, 2, 0] := rfl

/-- cookie and padding together -/
example : ∃ b d, encodeRR (optRR 512 1 0 false [.cookie [1, 2, 3, 4, 5, 6, 7, 8] none, .padding 3]) = .ok b ∧
    decodeRR b = .ok (optRR 512 1 0 false [.cookie [1, 2, 3, 4, 5, 6, 7, 8] none, .padding 3], d) ∧
    d.off = b.length ∧ b.length ≤ 11 + ([EdnsOpt.cookie [1, 2, 3, 4, 5, 6, 7, 8] none, .padding 3].map optionSize).sum :=
  opt_roundtrip_total (by decide) (by decide) (by decide)
    (fun o ho => by
      simp at ho
      rcases ho with rfl | rfl
      · exact ⟨rfl, fun s hs => by cases hs⟩
      · exact (by decide : 3 < 65536))
    (by decide)

private def exApl : RR := ⟨[[97]], 42, 1, 7, .apl [⟨1, 24, true, [10, 1, 2, 0]⟩]⟩

private theorem exApl_wf : WfRR exApl := by
  have hn : WfName [[97]] := by
    refine ⟨?_, by decide, ?_⟩
    · intro l hl; simp at hl; subst hl; simp [wfLabel]
    · intro l hl; simp at hl; subst hl; decide
  refine ⟨⟨rfl, fun it hit => ?_⟩, hn, ⟨by decide, rfl⟩, by decide⟩
  simp at hit; subst hit
  exact ⟨Or.inl rfl, rfl, by decide, by decide, ex_noBit⟩

/-- `a. APL !1:10.1.2.0/24`: trailing zero octet stripped, negation bit set, read back exactly -/
example : ∃ d, decodeRR [1, 97, 0, 0, 42, 0, 1, 0, 0, 0, 7, 0, 7, 0, 1, 24, 131, 10, 1, 2] = .ok (exApl, d) ∧
    d.off = 20 :=
  apl_roundtrip exApl_wf rfl (b := [1, 97, 0, 0, 42, 0, 1, 0, 0, 0, 7, 0, 7, 0, 1, 24, 131, 10, 1, 2]) rfl

/-- the K1 witness record `a. SVCB 1 a.` (target compressed against the owner) is read back -/
example : ∃ target' params' d,
    decodeRR [1, 97, 0, 0, 64, 0, 1, 0, 0, 0, 0, 0, 4, 0, 1, 0xC0, 0x00] =
      .ok ({ EncSpec.k1Record with rd := .svcb 1 target' params' }, d) ∧ d.off = 17 ∧
    ciEq target' [[97]] = true ∧ params'.map SvcParam.norm = [].map SvcParam.norm ∧
    params'.map SvcParam.key = [].map SvcParam.key ∧ keysSorted params' :=
  svcb_roundtrip EncSpec.k1Record_wf rfl EncSpec.svcb_target_compressed_witness

end RT
