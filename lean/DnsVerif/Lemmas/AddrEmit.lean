import DnsVerif.Model.Enc
import DnsVerif.Lemmas.Prefix

/-! # How many address octets the writers emit (C17)

`rr_address_ipv4/ipv6` (used for ECS) is the loop
`for b in octets { u8(b); if p < 8 { break } else { p -= 8 } }` = `addrWithPrefix`;
the APL writer emits the octets up to the last non-zero one = `stripZeros`.
Both lose nothing with respect to the decoder's zero fill (`D.address` pads with zero octets up to
the family size), provided – for ECS – that the address has no bit beyond the prefix (which the
value types guarantee, see `ApiMachines.lean`). -/

/-! ## `addrWithPrefix` -/

/-- the loop emits the first `⌊p/8⌋ + 1` octets (or all of them) -/
theorem addrWithPrefix_eq : ∀ (octets : Bytes) (p : Nat),
    addrWithPrefix octets p = octets.take (p / 8 + 1) := by
  intro octets
  induction octets with
  | nil => intro p; simp [addrWithPrefix]
  | cons b r ih =>
    intro p
    unfold addrWithPrefix
    split
    · rename_i h
      have : p / 8 = 0 := by omega
      simp [this]
    · rename_i h
      rw [ih (p - 8)]
      have : p / 8 + 1 = (p - 8) / 8 + 1 + 1 := by omega
      rw [this, List.take_succ_cons]

/-- what the code does (known finding K2): `min(size, ⌊p/8⌋ + 1)` octets -/
theorem addrWithPrefix_length (octets : Bytes) (p : Nat) :
    (addrWithPrefix octets p).length = min (p / 8 + 1) octets.length := by
  rw [addrWithPrefix_eq, List.length_take]

/-- … which is the RFC 7871 count `⌈p/8⌉` exactly when `p` is not a multiple of 8 or `p` is the
full width -/
theorem addrWithPrefix_rfc_iff (octets : Bytes) (p : Nat) (hp : p ≤ 8 * octets.length) :
    (addrWithPrefix octets p).length = (p + 7) / 8 ↔ (p % 8 ≠ 0 ∨ p = 8 * octets.length) := by
  rw [addrWithPrefix_length]
  constructor
  · intro h
    by_cases hc : p % 8 = 0
    · right; omega
    · left; exact hc
  · rintro (h | h) <;> omega

/-- in the other case (a multiple of 8 below the full width) exactly one octet too many is emitted -/
theorem addrWithPrefix_extra (octets : Bytes) (p : Nat) (hp : p < 8 * octets.length) (h8 : p % 8 = 0) :
    (addrWithPrefix octets p).length = (p + 7) / 8 + 1 := by
  rw [addrWithPrefix_length]; omega

/-- K2 witness: 10.0.0.0/24 is written with 4 octets, RFC 7871 says 3 -/
theorem addrWithPrefix_k2_witness :
    addrWithPrefix [10, 0, 0, 0] 24 = [10, 0, 0, 0] ∧ (24 + 7) / 8 = 3 := by decide

example : (addrWithPrefix [10, 0, 0, 0] 23).length = (23 + 7) / 8 := by decide
example : addrWithPrefix [10, 1, 2, 0] 32 = [10, 1, 2, 0] ∧ addrWithPrefix [10, 1, 2, 0] 40 = [10, 1, 2, 0] ∧
    addrWithPrefix [10, 1, 2, 0] 0 = [10] ∧ addrWithPrefix [10, 1, 2, 0] 9 = [10, 1] := by decide

/-- a list of zero octets is `replicate` -/
theorem eq_replicate_zero {l : Bytes} (h : ∀ x ∈ l, x = 0) : l = List.replicate l.length 0 :=
  List.eq_replicate_iff.mpr ⟨rfl, h⟩

/-- Round trip with the decoder's zero fill: cutting an address that has no bit beyond the prefix
loses nothing. -/
theorem addrWithPrefix_fill (a : Bytes) (p : Nat) (hno : NoBitBeyond a p) :
    addrWithPrefix a p ++ List.replicate (a.length - (addrWithPrefix a p).length) 0 = a := by
  have hz : ∀ x ∈ a.drop (p / 8 + 1), x = 0 := by
    intro x hx
    rw [List.mem_drop_iff_getElem] at hx
    obtain ⟨i, hi, rfl⟩ := hx
    exact hno.octet_zero (p / 8 + 1 + i) (by omega) (by omega)
  have hrep := eq_replicate_zero hz
  rw [addrWithPrefix_eq]
  have hlen : a.length - (a.take (p / 8 + 1)).length = (a.drop (p / 8 + 1)).length := by
    rw [List.length_take, List.length_drop]; omega
  rw [hlen, ← hrep, List.take_append_drop]

/-- without `NoBitBeyond` the round trip fails (so the value-type invariant is really needed) -/
example : addrWithPrefix [10, 0, 0, 1] 8 ++
    List.replicate ([10, 0, 0, 1].length - (addrWithPrefix [10, 0, 0, 1] 8).length) 0 ≠ [10, 0, 0, 1] := by
  decide

example : addrWithPrefix [10, 128, 0, 0] 9 = [10, 128] ∧
    addrWithPrefix [10, 128, 0, 0] 9 ++
      List.replicate ([10, 128, 0, 0].length - (addrWithPrefix [10, 128, 0, 0] 9).length) 0 = [10, 128, 0, 0] := by
  decide

/-! ## `stripZeros` -/

theorem stripZeros_cons (b : UInt8) (r : Bytes) :
    stripZeros (b :: r) = if stripZeros r = [] ∧ b = 0 then [] else b :: stripZeros r := by
  rw [stripZeros]
  split
  · rename_i h
    rw [h]
    by_cases hb : b = 0 <;> simp [hb]
  · rename_i h
    have : stripZeros r ≠ [] := fun h' => h h'
    simp [this]

theorem stripZeros_eq_nil_iff : ∀ (a : Bytes), stripZeros a = [] ↔ ∀ x ∈ a, x = 0 := by
  intro a
  induction a with
  | nil => simp [stripZeros]
  | cons b r ih =>
    rw [stripZeros_cons]
    constructor
    · intro h
      split at h
      · rename_i hc
        intro x hx
        simp at hx
        rcases hx with rfl | hx
        · exact hc.2
        · exact ih.mp hc.1 x hx
      · simp at h
    · intro h
      have h1 : stripZeros r = [] := ih.mpr (fun x hx => h x (by simp [hx]))
      have h2 : b = 0 := h b (by simp)
      simp [h1, h2]

/-- `stripZeros` is the prefix of length `(stripZeros a).length` -/
theorem stripZeros_eq_take : ∀ (a : Bytes), stripZeros a = a.take (stripZeros a).length := by
  intro a
  induction a with
  | nil => simp [stripZeros]
  | cons b r ih =>
    rw [stripZeros_cons]
    split
    · simp
    · simp only [List.length_cons, List.take_succ_cons]
      rw [← ih]

theorem stripZeros_length_le (a : Bytes) : (stripZeros a).length ≤ a.length := by
  have h := congrArg List.length (stripZeros_eq_take a)
  rw [List.length_take] at h
  omega

/-- the dropped octets are all zero -/
theorem stripZeros_dropped : ∀ (a : Bytes), ∀ x ∈ a.drop (stripZeros a).length, x = 0 := by
  intro a
  induction a with
  | nil => simp
  | cons b r ih =>
    rw [stripZeros_cons]
    split
    · rename_i hc
      intro x hx
      simp at hx
      rcases hx with rfl | hx
      · exact hc.2
      · exact (stripZeros_eq_nil_iff r).mp hc.1 x hx
    · simpa using ih

/-- the last kept octet is non-zero -/
theorem stripZeros_last : ∀ (a : Bytes) (h : stripZeros a ≠ []), (stripZeros a).getLast h ≠ 0 := by
  intro a
  induction a with
  | nil => intro h; exact absurd rfl h
  | cons b r ih =>
    intro h
    have hc := stripZeros_cons b r
    by_cases hcond : stripZeros r = [] ∧ b = 0
    · rw [if_pos hcond] at hc; exact absurd hc h
    · rw [if_neg hcond] at hc
      have : (stripZeros (b :: r)).getLast h = (b :: stripZeros r).getLast (by simp) := by
        congr 1
      rw [this]
      by_cases hnil : stripZeros r = []
      · have hb : b ≠ 0 := fun hb => hcond ⟨hnil, hb⟩
        simpa [hnil] using hb
      · rw [List.getLast_cons hnil]
        exact ih hnil

/-- `stripZeros` is the SHORTEST prefix whose complement is all zero -/
theorem stripZeros_shortest : ∀ (a : Bytes) (k : Nat), (∀ x ∈ a.drop k, x = 0) →
    (stripZeros a).length ≤ k := by
  intro a
  induction a with
  | nil => intro k _; simp [stripZeros]
  | cons b r ih =>
    intro k hk
    cases k with
    | zero =>
      have : stripZeros (b :: r) = [] := (stripZeros_eq_nil_iff _).mpr (by simpa using hk)
      simp [this]
    | succ k =>
      have := ih k (by simpa using hk)
      rw [stripZeros_cons]
      split
      · simp
      · simp; omega

/-- Full specification of `rr_octets_without_trailing_zeros`: a prefix of the octets; the dropped
ones are all zero; the last kept one is non-zero; and it is the shortest prefix whose complement is
all zero. -/
theorem stripZeros_spec (a : Bytes) :
    stripZeros a = a.take (stripZeros a).length ∧
    (∀ x ∈ a.drop (stripZeros a).length, x = 0) ∧
    (∀ h : stripZeros a ≠ [], (stripZeros a).getLast h ≠ 0) ∧
    (∀ k, (∀ x ∈ a.drop k, x = 0) → (stripZeros a).length ≤ k) :=
  ⟨stripZeros_eq_take a, stripZeros_dropped a, stripZeros_last a, stripZeros_shortest a⟩

/-- the specification determines the function: any prefix with all-zero complement that is empty
or ends in a non-zero octet is `stripZeros` -/
theorem stripZeros_unique (a : Bytes) (k : Nat) (hk : k ≤ a.length) (hz : ∀ x ∈ a.drop k, x = 0)
    (hl : ∀ h : a.take k ≠ [], (a.take k).getLast h ≠ 0) : stripZeros a = a.take k := by
  have h1 := stripZeros_shortest a k hz
  rcases Nat.lt_or_ge (stripZeros a).length k with hlt | hge
  · -- then the last octet of `take k` is among the dropped (zero) ones
    exfalso
    have hne : a.take k ≠ [] := by
      intro h; have := congrArg List.length h; rw [List.length_take, List.length_nil] at this; omega
    apply hl hne
    apply stripZeros_dropped a
    rw [List.mem_drop_iff_getElem]
    refine ⟨k - 1 - (stripZeros a).length, ?_, ?_⟩
    · omega
    rw [List.getLast_eq_getElem]
    simp only [List.getElem_take, List.length_take]
    congr 1
    omega
  · have : (stripZeros a).length = k := by omega
    rw [← this]; exact stripZeros_eq_take a

/-- Round trip with the decoder's zero fill: dropping trailing zero octets loses nothing. -/
theorem stripZeros_fill (a : Bytes) :
    stripZeros a ++ List.replicate (a.length - (stripZeros a).length) 0 = a := by
  have hrep := eq_replicate_zero (stripZeros_dropped a)
  have hlen : a.length - (stripZeros a).length = (a.drop (stripZeros a).length).length := by
    rw [List.length_drop]
  rw [hlen, ← hrep]
  conv => lhs; lhs; rw [stripZeros_eq_take a]
  exact List.take_append_drop _ _

/-- idempotence (a consequence worth having: re-encoding a stripped address changes nothing) -/
theorem stripZeros_idem (a : Bytes) : stripZeros (stripZeros a) = stripZeros a := by
  have h := stripZeros_unique (stripZeros a) (stripZeros a).length (Nat.le_refl _) (by simp)
    (by
      intro h
      have e : (stripZeros a).take (stripZeros a).length = stripZeros a := List.take_length
      have hne : stripZeros a ≠ [] := by rw [e] at h; exact h
      have : ((stripZeros a).take (stripZeros a).length).getLast h = (stripZeros a).getLast hne := by
        congr 1
      rw [this]; exact stripZeros_last a hne)
  rw [h, List.take_length]

example : stripZeros [10, 0, 3, 0, 0] = [10, 0, 3] ∧ stripZeros [0, 0, 0, 0] = [] ∧
    stripZeros [0, 0, 0, 1] = [0, 0, 0, 1] ∧ stripZeros [] = [] := by decide
example : stripZeros [10, 0, 3, 0] ++ List.replicate ([10, 0, 3, 0].length - (stripZeros [10, 0, 3, 0]).length) 0
    = [10, 0, 3, 0] := by decide

/-! ## The decoder side: `rr_address` re-creates what the emitters dropped -/

/-- If the window of the decoder holds `x` and zero-filling `x` to the family size gives `a`, then
`rr_address` returns `a` (and consumes the window). -/
theorem D.address_fill (d : D) (fam : Nat) (a x : Bytes) (hoff : d.off ≤ d.lim)
    (hwin : (d.buf.drop d.off).take (d.lim - d.off) = x)
    (hfill : x ++ List.replicate (a.length - x.length) 0 = a) (hlen : a.length = famSize fam) :
    d.address fam = .ok (a, { d with off := d.lim, cost := d.cost + (d.lim - d.off) }) := by
  have hxl : x.length ≤ a.length := by
    have := congrArg List.length hfill
    simp at this; omega
  unfold D.address D.rest
  simp only [hoff, if_true, hwin]
  have h1 : ¬ famSize fam < x.length := by omega
  have h2 : x.length ≤ famSize fam := by omega
  simp only [h1, h2, if_false, if_true]
  rw [← hlen, hfill]

/-- APL: the decoder reads back exactly the address whose trailing zeros the encoder dropped -/
theorem D.address_stripZeros (d : D) (fam : Nat) (a : Bytes) (hoff : d.off ≤ d.lim)
    (hwin : (d.buf.drop d.off).take (d.lim - d.off) = stripZeros a) (hlen : a.length = famSize fam) :
    d.address fam = .ok (a, { d with off := d.lim, cost := d.cost + (d.lim - d.off) }) :=
  D.address_fill d fam a _ hoff hwin (stripZeros_fill a) hlen

/-- ECS: the decoder reads back exactly the address that the encoder cut after the prefix octet,
provided the address has no bit beyond the prefix -/
theorem D.address_addrWithPrefix (d : D) (fam : Nat) (a : Bytes) (p : Nat) (hoff : d.off ≤ d.lim)
    (hwin : (d.buf.drop d.off).take (d.lim - d.off) = addrWithPrefix a p) (hno : NoBitBeyond a p)
    (hlen : a.length = famSize fam) :
    d.address fam = .ok (a, { d with off := d.lim, cost := d.cost + (d.lim - d.off) }) :=
  D.address_fill d fam a _ hoff hwin (addrWithPrefix_fill a p hno) hlen

example : (D.address { buf := [0xAA, 10, 128, 0xBB], off := 1, lim := 3 } 1).toOption.map (·.1)
    = some [10, 128, 0, 0] := by decide
