import DnsVerif.Lemmas.RTEmbed

/-! # Round trip, part 6 (C10): pointer-free embedding for EVERY record type

`elem_embeds : WfRR rr → encodeRR rr = .ok b → b.length = rr.usize → …`: if the stand-alone encoding of a
well-formed record contains no compression pointer — stated as "it is as long as the uncompressed
rendering" (every pointer emitted by `Encoder::domain_name` replaces at least three octets by two, so the
two formulations coincide: `encName_short_of_hit`) — then inside every successfully encoded message with an
empty question section and this record first, the twelve header octets are followed by exactly the octets of
the stand-alone encoding. This removes the restriction of `elem_embeds_partial` to the types without
compressible RDATA names (the hypothesis is needed there: see the MX example at the end of `RTEmbed.lean`).

Method: a lock-step simulation of two runs of the record writer, run A from the fresh encoder and run B
from the state after the header. `Sim eA eB`: B's output is at least as long as A's (B's offsets are A's
plus a constant), A's table holds only usable entries (`off ≤ 0x3FFF`, depth `< 16`: any hit in A emits a
pointer), and every name in B's table is also in A's (the insertion guard `off ≤ 0x3FFF` can only drop
entries in B). If A's step has the full uncompressed length there was no hit in A, hence none in B, and
both append the same octets. -/

namespace RT

open EncLim

/-! ## The simulation relation -/

def NoPtrIdx (e : Enc) : Prop := ∀ q ∈ e.idx, q.2.1 ≤ 0x3FFF ∧ q.2.2 < 16
def IdxSub (eB eA : Enc) : Prop := ∀ p ∈ eB.idx, ∃ q ∈ eA.idx, q.1 = p.1
def LocSub (lB lA : List (Name × Nat)) : Prop := ∀ p ∈ lB, ∃ q ∈ lA, q.1 = p.1

structure Sim (eA eB : Enc) : Prop where
  len : eA.out.length ≤ eB.out.length
  noptr : NoPtrIdx eA
  sub : IdxSub eB eA

theorem Sim.put {eA eB : Enc} (h : Sim eA eB) (x : Bytes) : Sim (eA.put x) (eB.put x) :=
  ⟨by simp only [put_out, List.length_append]; have := h.len; omega, h.noptr, h.sub⟩

theorem lookup_none_iff (e : Enc) (k : Name) : e.lookup k = none ↔ ∀ p ∈ e.idx, ciEq p.1 k = false := by
  unfold Enc.lookup
  cases h : e.idx.find? (fun p => ciEq p.1 k) with
  | none =>
    rw [List.find?_eq_none] at h
    simp only [true_iff]
    intro p hp
    simpa using h p hp
  | some p =>
    simp only [reduceCtorEq, false_iff]
    intro hall
    have h1 := List.find?_some h
    have h2 := hall p (List.mem_of_find?_eq_some h)
    simp [h2] at h1

theorem lookup_none_of_sub {eA eB : Enc} {k : Name} (hs : IdxSub eB eA) (h : eA.lookup k = none) :
    eB.lookup k = none := by
  rw [lookup_none_iff] at h ⊢
  intro p hp
  obtain ⟨q, hq, he⟩ := hs p hp
  rw [← he]; exact h q hq

theorem lookup_some_mem {e : Enc} {k : Name} {v : Nat × Nat} (h : e.lookup k = some v) :
    ∃ q ∈ e.idx, q.2 = v := by
  unfold Enc.lookup at h
  cases hf : e.idx.find? (fun p => ciEq p.1 k) with
  | none => simp [hf] at h
  | some p =>
    simp only [hf, Option.some.injEq] at h
    exact ⟨p, List.mem_of_find?_eq_some hf, h⟩

/-! ## Names -/

/-- the literal step of `Encoder::domain_name`, inverted -/
theorem encNameGo_lit {e e' : Enc} {l : Label} {rest : Name} {loc : List (Name × Nat)}
    (hlk : e.lookup (l :: rest) = none) (h : encNameGo e (l :: rest) loc = .ok e') :
    encNameGo { e with out := e.out ++ (UInt8.ofNat l.length :: l) } rest
      (if e.out.length ≤ 0x3FFF then (l :: rest, e.out.length) :: loc else loc) = .ok e' := by
  unfold encNameGo at h
  simp only [hlk] at h
  by_cases h1 : e.out.length > 65535
  · rw [if_pos h1] at h; cases h
  · rw [if_neg h1] at h
    by_cases h2 : l.length > 255
    · rw [if_pos h2] at h; cases h
    · rw [if_neg h2] at h; exact h

/-- **lock-step for `Encoder::domain_name`**: if run A appends the full uncompressed length, there was
no table hit in A, hence none in B; both append the literal name, and the relation is kept -/
theorem encNameGo_sim : ∀ (n : Name) (eA eB eA' eB' : Enc) (locA locB : List (Name × Nat)),
    wfName n → NoPtrIdx eA → IdxSub eB eA → LocSub locB locA → (∀ q ∈ locA, q.2 ≤ 0x3FFF) →
    eA.out.length ≤ eB.out.length →
    encNameGo eA n locA = .ok eA' → eA'.out.length = eA.out.length + Name.sz n + 1 →
    encNameGo eB n locB = .ok eB' →
    ∃ x, eA'.out = eA.out ++ x ∧ eB'.out = eB.out ++ x ∧ NoPtrIdx eA' ∧ IdxSub eB' eA' := by
  intro n
  induction n with
  | nil =>
    intro eA eB eA' eB' locA locB _ hnp hsub hloc hoffs _ hA _ hB
    simp [encNameGo, Enc.merge] at hA hB
    subst hA; subst hB
    refine ⟨[0], rfl, rfl, ?_, ?_⟩
    · intro q hq
      simp only [List.mem_append, List.mem_map] at hq
      rcases hq with ⟨p, hp, rfl⟩ | hq
      · exact ⟨hoffs p hp, (by show 0 < 16; omega)⟩
      · exact hnp q hq
    · intro p hp
      simp only [List.mem_append, List.mem_map] at hp
      rcases hp with ⟨p0, hp0, rfl⟩ | hp
      · obtain ⟨q0, hq0, he⟩ := hloc p0 hp0
        exact ⟨(q0.1, q0.2, 0), by simp only [List.mem_append, List.mem_map]; exact Or.inl ⟨q0, hq0, rfl⟩, he⟩
      · obtain ⟨q, hq, he⟩ := hsub p hp
        exact ⟨q, by simp only [List.mem_append]; exact Or.inr hq, he⟩
  | cons l rest ih =>
    intro eA eB eA' eB' locA locB hwf hnp hsub hloc hoffs hlen hA hfull hB
    have hl : wfLabel l := hwf l (by simp)
    have hwf' : wfName rest := fun x hx => hwf x (by simp [hx])
    cases hlkA : eA.lookup (l :: rest) with
    | some pr =>
      -- a hit in A emits a pointer: two octets, shorter than the literal name
      exfalso
      obtain ⟨off, r⟩ := pr
      obtain ⟨q, hq, hqv⟩ := lookup_some_mem hlkA
      have := hnp q hq
      rw [hqv] at this
      unfold encNameGo at hA
      simp only [hlkA] at hA
      have h1 : ¬ (0x3FFF < off) := by omega
      have h2 : ¬ (r ≥ 16) := by omega
      have h3 : ¬ (r + 1 > 16) := by omega
      simp only [h1, h2, if_false, Enc.merge, h3] at hA
      cases hA
      simp only [List.length_append, ptrBytes, List.length_cons, List.length_nil, Name.sz_cons] at hfull
      have := hl.1
      omega
    | none =>
      have hlkB := lookup_none_of_sub hsub hlkA
      have hA' := encNameGo_lit hlkA hA
      have hB' := encNameGo_lit hlkB hB
      have hfull' : eA'.out.length =
          ({ eA with out := eA.out ++ (UInt8.ofNat l.length :: l) } : Enc).out.length + Name.sz rest + 1 := by
        simp only [List.length_append, List.length_cons]
        rw [Name.sz_cons] at hfull
        omega
      have hloc' : LocSub (if eB.out.length ≤ 0x3FFF then (l :: rest, eB.out.length) :: locB else locB)
          (if eA.out.length ≤ 0x3FFF then (l :: rest, eA.out.length) :: locA else locA) := by
        intro p hp
        by_cases hb : eB.out.length ≤ 0x3FFF
        · have ha : eA.out.length ≤ 0x3FFF := by omega
          rw [if_pos hb] at hp
          rw [if_pos ha]
          rcases List.mem_cons.mp hp with rfl | hp
          · exact ⟨_, List.mem_cons_self, rfl⟩
          · obtain ⟨q, hq, he⟩ := hloc p hp
            exact ⟨q, List.mem_cons_of_mem _ hq, he⟩
        · rw [if_neg hb] at hp
          obtain ⟨q, hq, he⟩ := hloc p hp
          refine ⟨q, ?_, he⟩
          split
          · exact List.mem_cons_of_mem _ hq
          · exact hq
      have hoffs' : ∀ q ∈ (if eA.out.length ≤ 0x3FFF then (l :: rest, eA.out.length) :: locA else locA),
          q.2 ≤ 0x3FFF := by
        intro q hq
        split at hq
        · rename_i hle
          rcases List.mem_cons.mp hq with rfl | hq
          · exact hle
          · exact hoffs q hq
        · exact hoffs q hq
      have hlen' : ({ eA with out := eA.out ++ (UInt8.ofNat l.length :: l) } : Enc).out.length ≤
          ({ eB with out := eB.out ++ (UInt8.ofNat l.length :: l) } : Enc).out.length := by
        simp only [List.length_append, List.length_cons]; omega
      obtain ⟨x, hxA, hxB, hnp', hsub'⟩ := ih { eA with out := eA.out ++ (UInt8.ofNat l.length :: l) }
        { eB with out := eB.out ++ (UInt8.ofNat l.length :: l) } eA' eB' _ _
        hwf' hnp hsub hloc' hoffs' hlen' hA' hfull' hB'
      exact ⟨(UInt8.ofNat l.length :: l) ++ x, by rw [hxA]; simp, by rw [hxB]; simp, hnp', hsub'⟩

theorem encName_sim {n : Name} {eA eB eA' eB' : Enc} (hwf : wfName n) (sim : Sim eA eB)
    (hA : encName eA n = .ok eA') (hfull : eA'.out.length = eA.out.length + Name.sz n + 1)
    (hB : encName eB n = .ok eB') :
    ∃ x, eA'.out = eA.out ++ x ∧ eB'.out = eB.out ++ x ∧ Sim eA' eB' := by
  obtain ⟨x, hxA, hxB, hnp, hsub⟩ := encNameGo_sim n eA eB eA' eB' [] [] hwf sim.noptr sim.sub
    (fun p hp => by simp at hp) (fun p hp => by simp at hp) sim.len hA hfull hB
  refine ⟨x, hxA, hxB, ?_, hnp, hsub⟩
  rw [hxA, hxB]; simp only [List.length_append]; have := sim.len; omega

/-- "no pointer" = "full length": a table hit makes the name strictly shorter than its literal form
(the contrapositive is the `some` case above); stated for the record -/
theorem encName_short_of_hit {n : Name} {e e' : Enc} {v : Nat × Nat} (hwf : wfName n) (hne : n ≠ [])
    (hnp : NoPtrIdx e) (hlk : e.lookup n = some v) (h : encName e n = .ok e') :
    e'.out.length < e.out.length + Name.sz n + 1 := by
  cases n with
  | nil => exact absurd rfl hne
  | cons l rest =>
    obtain ⟨off, r⟩ := v
    obtain ⟨q, hq, hqv⟩ := lookup_some_mem hlk
    have := hnp q hq
    rw [hqv] at this
    unfold encName encNameGo at h
    simp only [hlk] at h
    have h1 : ¬ (0x3FFF < off) := by omega
    have h2 : ¬ (r ≥ 16) := by omega
    have h3 : ¬ (r + 1 > 16) := by omega
    simp only [h1, h2, if_false, Enc.merge, h3] at h
    cases h
    simp only [List.length_append, ptrBytes, List.length_cons, List.length_nil, Name.sz_cons]
    have := (hwf l (by simp)).1
    omega

/-! ## Fields -/

/-- the common shape of the lock-step lemmas -/
def SameStep (eA eB eA' eB' : Enc) : Prop :=
  ∃ x, eA'.out = eA.out ++ x ∧ eB'.out = eB.out ++ x ∧ Sim eA' eB'

theorem SameStep.trans {eA eB eA1 eB1 eA2 eB2 : Enc} (h1 : SameStep eA eB eA1 eB1)
    (h2 : SameStep eA1 eB1 eA2 eB2) : SameStep eA eB eA2 eB2 := by
  obtain ⟨x, hxA, hxB, _⟩ := h1
  obtain ⟨y, hyA, hyB, hs⟩ := h2
  exact ⟨x ++ y, by rw [hyA, hxA]; simp, by rw [hyB, hxB]; simp, hs⟩

theorem SameStep.put {eA eB : Enc} (sim : Sim eA eB) (x : Bytes) : SameStep eA eB (eA.put x) (eB.put x) :=
  ⟨x, rfl, rfl, sim.put x⟩

theorem encField_sim {f : Fld} {v : FVal} {eA eB eA' eB' : Enc} (hwf : WfVal f v) (sim : Sim eA eB)
    (hA : encField eA f v = .ok eA') (hfull : eA'.out.length = eA.out.length + fieldSize f v)
    (hB : encField eB f v = .ok eB') : SameStep eA eB eA' eB' := by
  by_cases hf : f = .name true
  · subst hf
    cases v with
    | name n =>
      have hn : WfName n := hwf
      exact encName_sim hn.1 sim hA (by simpa [fieldSize, Nat.add_assoc] using hfull) hB
    | _ => exact absurd hwf (by simp [WfVal])
  · rw [encField_put hf hA, encField_put hf hB]
    exact SameStep.put sim _

theorem encFields_sim : ∀ {fs : List Fld} {vs : List FVal} {eA eB eA' eB' : Enc}, WfVals fs vs → Sim eA eB →
    encFields eA fs vs = .ok eA' → eA'.out.length = eA.out.length + fieldsSize fs vs →
    encFields eB fs vs = .ok eB' → SameStep eA eB eA' eB' := by
  intro fs
  induction fs with
  | nil =>
    intro vs eA eB eA' eB' hwf sim hA _ hB
    cases vs with
    | nil =>
      simp [encFields] at hA hB; subst hA; subst hB
      exact ⟨[], by simp, by simp, sim⟩
    | cons v vs => exact absurd hwf (by simp [WfVals])
  | cons f fs ih =>
    intro vs eA eB eA' eB' hwf sim hA hfull hB
    cases vs with
    | nil => exact absurd hwf (by simp [WfVals])
    | cons v vs =>
      obtain ⟨hw1, hw2⟩ := hwf
      unfold encFields at hA hB
      cases hA1 : encField eA f v with
      | error err => simp [hA1] at hA
      | ok eA1 =>
        cases hB1 : encField eB f v with
        | error err => simp [hB1] at hB
        | ok eB1 =>
          simp only [hA1] at hA
          simp only [hB1] at hB
          have b1 := (encField_ok hA1).1.length_le_add
          have b2 := (encFields_ok fs vs eA1 eA' hA).1.length_le_add
          simp only [fieldsSize] at hfull
          have s1 := encField_sim hw1 sim hA1 (by omega) hB1
          have s2 := ih hw2 s1.choose_spec.2.2 hA (by omega) hB
          exact s1.trans s2

/-! ## List writers that only `put` -/

theorem foldW_put {α : Type} {w : Enc → α → Except EErr Enc} {wire : α → Bytes}
    (hw : ∀ e e' o, w e o = .ok e' → e' = e.put (wire o)) :
    ∀ (l : List α) (e e' : Enc), foldW w e l = .ok e' → e' = e.put (l.flatMap wire) := by
  intro l
  induction l with
  | nil => intro e e' h; simp [foldW] at h; subst h; simp [put_nil]
  | cons o r ih =>
    intro e e' h
    unfold foldW at h
    cases h1 : w e o with
    | error err => simp [h1] at h
    | ok e1 =>
      simp only [h1] at h
      rw [ih e1 e' h, hw e e1 o h1, put_put]
      simp

/-! ## RDATA and the record -/

theorem rrBody_sim {rr : RR} {eA eB eA' eB' : Enc} (hwf : WfRR rr) (sim : Sim eA eB)
    (hA : rrBody rr eA = .ok eA') (hfull : eA'.out.length = eA.out.length + rdataSize rr)
    (hB : rrBody rr eB = .ok eB') : SameStep eA eB eA' eB' := by
  rcases wfRR_cases hwf with ⟨info, vs, hk, hrd, hv, _⟩ | ⟨p, x, v, d, opts, hk, hrd, _⟩ | ⟨items, hk, hrd, _⟩ |
    ⟨b, prio, target, params, hk, hrd, ht, _⟩
  · simp only [rrBody, hk, hrd] at hA hB
    simp only [rdataSize, hk, hrd] at hfull
    exact encFields_sim hv sim hA hfull hB
  · simp only [rrBody, hk, hrd] at hA hB
    rw [encOptions_eq_foldW] at hA hB
    have eA2 := foldW_put (w := encOption) (wire := optionWire) (fun _ _ _ hw => (encOption_ok hw).1) _ _ _ hA
    have eB2 := foldW_put (w := encOption) (wire := optionWire) (fun _ _ _ hw => (encOption_ok hw).1) _ _ _ hB
    subst eA2; subst eB2
    exact SameStep.put sim _
  · simp only [rrBody, hk, hrd] at hA hB
    rw [encApItems_eq_foldW] at hA hB
    have eA2 := foldW_put (w := encApItem) (wire := apItemWire) (fun _ _ _ hw => (encApItem_ok hw).1) _ _ _ hA
    have eB2 := foldW_put (w := encApItem) (wire := apItemWire) (fun _ _ _ hw => (encApItem_ok hw).1) _ _ _ hB
    subst eA2; subst eB2
    exact SameStep.put sim _
  · simp only [rrBody, hk, hrd] at hA hB
    simp only [rdataSize, hk, hrd] at hfull
    cases hA1 : encName (eA.put (beBytes 2 prio)) target with
    | error err => simp [hA1] at hA
    | ok eA1 =>
      cases hB1 : encName (eB.put (beBytes 2 prio)) target with
      | error err => simp [hB1] at hB
      | ok eB1 =>
        simp only [hA1] at hA
        simp only [hB1] at hB
        have b1 := (encName_step hA1).length_le_add
        have hp0 : (eA.put (beBytes 2 prio)).out.length = eA.out.length + 2 := by simp
        by_cases hp : prio = 0
        · rw [if_pos hp] at hA hB hfull
          cases hA; cases hB
          have s1 := encName_sim ht.1 (sim.put (beBytes 2 prio)) hA1 (by omega) hB1
          exact (SameStep.put sim _).trans s1
        · rw [if_neg hp] at hA hB hfull
          rw [encSvcParams_eq_foldW] at hA hB
          have eA2 := foldW_put (w := encSvcParam) (wire := svcWire)
            (fun _ _ _ hw => (encSvcParam_ok hw).1) _ _ _ hA
          have eB2 := foldW_put (w := encSvcParam) (wire := svcWire)
            (fun _ _ _ hw => (encSvcParam_ok hw).1) _ _ _ hB
          have b2 : eA'.out.length = eA1.out.length + (params.map svcSize).sum := by
            rw [eA2]
            simp only [put_out, List.length_append, Nat.add_left_cancel_iff]
            clear eA2 hA hfull
            induction params with
            | nil => rfl
            | cons q r _ => simp [svcWire_length]
          have s1 := encName_sim ht.1 (sim.put (beBytes 2 prio)) hA1 (by omega) hB1
          rw [eA2, eB2]
          exact ((SameStep.put sim _).trans s1).trans (SameStep.put s1.choose_spec.2.2 _)

/-- **lock-step for `Encoder::rr`** -/
theorem encRR_sim {rr : RR} {eA eB eA' eB' : Enc} (hwf : WfRR rr) (sim : Sim eA eB)
    (hA : encRR eA rr = .ok eA') (hfull : eA'.out.length = eA.out.length + rrSize rr)
    (hB : encRR eB rr = .ok eB') : ∃ x, eA'.out = eA.out ++ x ∧ eB'.out = eB.out ++ x := by
  have hs := wfRR_shaped hwf
  rw [encRR_eq eA hs] at hA
  rw [encRR_eq eB hs] at hB
  cases hA1 : encName eA (rrOwner rr) with
  | error err => simp [hA1] at hA
  | ok eA1 =>
    cases hB1 : encName eB (rrOwner rr) with
    | error err => simp [hB1] at hB
    | ok eB1 =>
      simp only [hA1] at hA
      simp only [hB1] at hB
      cases hA2 : rrBody rr ((eA1.put (rrFixed rr)).put [0, 0]) with
      | error err => simp [hA2] at hA
      | ok eA2 =>
        cases hB2 : rrBody rr ((eB1.put (rrFixed rr)).put [0, 0]) with
        | error err => simp [hB2] at hB
        | ok eB2 =>
          simp only [hA2] at hA
          simp only [hB2] at hB
          obtain ⟨hstA, _⟩ := rrBody_ok hs hA2
          obtain ⟨hstB, _⟩ := rrBody_ok hs hB2
          obtain ⟨bodyA, hbA, hblA, hsetA⟩ := setLen_after hstA
          obtain ⟨bodyB, hbB, _, hsetB⟩ := setLen_after hstB
          rw [hsetA] at hA
          rw [hsetB] at hB
          split at hA; · cases hA
          split at hB; · cases hB
          cases hA; cases hB
          simp only at hfull ⊢
          -- lengths: owner ≤ sz + 1, body ≤ rdataSize, total = rrSize, hence both exact
          have n1 := (encName_step hA1).length_le_add
          have hL : (eA1.out ++ beBytes 2 bodyA.length ++ bodyA).length = eA1.out.length + 2 + bodyA.length := by
            simp only [List.length_append, beBytes_length]
          have hA2len : eA2.out.length = ((eA1.put (rrFixed rr)).put [0, 0]).out.length + bodyA.length := by
            rw [hbA]; simp only [put_out, List.length_append]
          have hfix := rrFixed_length rr
          simp only [put_out, List.length_append, hfix, List.length_cons, List.length_nil, beBytes_length,
            rrSize] at hfull hA2len
          obtain ⟨x1, hx1A, hx1B, sim1⟩ := encName_sim (wfRR_owner hwf).1 sim hA1 (by omega) hB1
          have sim2 : Sim ((eA1.put (rrFixed rr)).put [0, 0]) ((eB1.put (rrFixed rr)).put [0, 0]) :=
            (sim1.put _).put _
          obtain ⟨x2, hx2A, hx2B, _⟩ := rrBody_sim hwf sim2 hA2
            (by simp only [put_out, List.length_append, hfix, List.length_cons, List.length_nil]; omega) hB2
          have e1 : bodyA = x2 := by
            rw [hbA] at hx2A
            simp only [put_out, List.append_assoc] at hx2A
            exact List.append_cancel_left (List.append_cancel_left (List.append_cancel_left hx2A))
          have e2 : bodyB = x2 := by
            rw [hbB] at hx2B
            simp only [put_out, List.append_assoc] at hx2B
            exact List.append_cancel_left (List.append_cancel_left (List.append_cancel_left hx2B))
          refine ⟨x1 ++ rrFixed rr ++ beBytes 2 x2.length ++ x2, ?_, ?_⟩
          · simp only [put_out, hx1A, e1, List.append_assoc]
          · simp only [put_out, hx1B, e2, List.append_assoc]

/-! ## The embedding, all types -/

/-- **C10 `elem_embeds`.** For every well-formed record whose stand-alone encoding contains no
compression pointer (it has the full uncompressed length), and every message with an empty question
section and this record as first answer that is encoded successfully: the twelve header octets are followed
by exactly the octets of the stand-alone encoding. -/
theorem elem_embeds {m : Msg} {rr : RR} {rest : List RR} {b bm : Bytes} (hsm : ShapedMsg m) (hwf : WfRR rr)
    (hq : m.qs = []) (han : m.an = rr :: rest) (h : encodeRR rr = .ok b) (hfull : b.length = rr.usize)
    (hm : encodeDns m = .ok bm) :
    ∃ tail, bm = msgHeader m ++ b ++ tail := by
  refine embeds_of_same hsm hq han h hm (fun eA' eB' hA hB => ?_)
  have hb : eA'.out = b := by
    have := outOf_ok.mp h
    obtain ⟨e, he, heb⟩ := this
    rw [hA] at he; cases he; exact heb
  have sim : Sim {} (Enc.put {} (msgHeader m)) :=
    ⟨by simp, fun q hq => by simp at hq, fun p hp => by simp at hp⟩
  obtain ⟨x, hxA, hxB⟩ := encRR_sim hwf sim hA (by rw [hb, hfull]; simp) hB
  rw [hxB, hxA]; simp

/-- the decoding side: the message decoder and the stand-alone record decoder agree on the value of the
record (no hypothesis on pointers: both read back the encoded record up to `norm`) -/
theorem elem_codecs_agree {m : Msg} {rr : RR} {rest : List RR} {b bm : Bytes} (hwf : WfMsg m)
    (han : m.an = rr :: rest) (h : encodeRR rr = .ok b) (hm : encodeDns m = .ok bm) :
    ∃ m' d rr' d' r1, decodeDns bm = .ok (m', d) ∧ decodeRR b = .ok (rr', d') ∧ m'.an[0]? = some r1 ∧
      r1.norm = rr'.norm := by
  obtain ⟨m', d, hd, hn⟩ := encode_decode hwf hm
  have hwr : WfRR rr := hwf.2.2.2.2.2.2.2.1 rr (by rw [han]; simp)
  obtain ⟨rr', d', hd', hn', _⟩ := rr_roundtrip hwr h
  obtain ⟨_, _, _, h4, _, _⟩ := msg_norm_eq_iff.mp hn
  rw [han] at h4
  cases hm' : m'.an with
  | nil => rw [hm'] at h4; simp at h4
  | cons r1 rs =>
    rw [hm'] at h4
    simp only [List.map_cons, List.cons.injEq] at h4
    exact ⟨m', d, rr', d', r1, hd, hd', by simp [hm'], by rw [h4.1, hn']⟩

/-! ## Non-vacuity: an MX record whose exchange shares no suffix with the owner -/

private def exMX2 : RR := ⟨[[97]], 15, 1, 60, .fields [.num 10, .name [[98]]]⟩

private theorem exMX2_wf : WfRR exMX2 := by
  have hn : ∀ c : UInt8, c = 97 ∨ c = 98 → WfName [[c]] := by
    intro c hc
    refine ⟨?_, by simp [Name.sz], ?_⟩
    · intro l hl; simp at hl; subst hl; simp [wfLabel]
    · intro l hl; simp at hl; subst hl; rcases hc with rfl | rfl <;> decide
  exact ⟨⟨_, rfl, (by decide : 10 < 256 ^ 2), hn 98 (Or.inr rfl), trivial⟩, hn 97 (Or.inl rfl),
    ⟨by decide, fun h => by simp at h⟩, by decide⟩

example : ∃ tail,
    [0, 7, 0, 0, 0, 0, 0, 1, 0, 0, 0, 0, 1, 97, 0, 0, 15, 0, 1, 0, 0, 0, 60, 0, 5, 0, 10, 1, 98, 0] =
    msgHeader ⟨7, ⟨false, 0, false, false, false, false, false, false, 0⟩, [], [exMX2], [], []⟩ ++
      [1, 97, 0, 0, 15, 0, 1, 0, 0, 0, 60, 0, 5, 0, 10, 1, 98, 0] ++ tail :=
  elem_embeds (m := ⟨7, ⟨false, 0, false, false, false, false, false, false, 0⟩, [], [exMX2], [], []⟩)
    (by decide) exMX2_wf rfl rfl (b := [1, 97, 0, 0, 15, 0, 1, 0, 0, 0, 60, 0, 5, 0, 10, 1, 98, 0]) rfl
    (by decide) rfl

end RT
