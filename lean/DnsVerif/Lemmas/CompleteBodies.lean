import DnsVerif.Lemmas.CompleteFields
import DnsVerif.Lemmas.Prefix
import DnsVerif.Lemmas.AddrEmit
import DnsVerif.Lemmas.ApiMachines

/-! # Decoder completeness, part 2: the irregular bodies (OPT options, APL items, SvcParams) (C04)

`decOption(s)_complete`, `decApItem(s)_complete`, `decSvcParam_complete` (all nine kinds),
`decSvcParams_complete` (the decoder returns the parameters sorted by key: `perm_sorted_unique`),
`optTtl_of`. -/

namespace Complete

theorem bcast {buf : Bytes} {o o' : Nat} {x : Bytes} (h : BytesAt buf o x) (e : o = o') :
    BytesAt buf o' x := e ▸ h

/-- a child window: `f` succeeds on `[off, off+len)` and stops at its end -/
theorem withSub_of {α : Type} {buf : Bytes} {off lim c len : Nat} {f : D → Except DErr (α × D)} {a : α}
    (hl : off + len ≤ lim) (hlb : lim ≤ buf.length) (hB : buf.length < 2 ^ 63)
    (hf : ∀ c0, ∃ c', f { buf := buf, off := off, lim := off + len, cost := c0 } =
      .ok (a, { buf := buf, off := off + len, lim := off + len, cost := c' })) :
    ∃ c', D.withSub { buf := buf, off := off, lim := lim, cost := c } len f =
      .ok (a, { buf := buf, off := off + len, lim := lim, cost := c' }) := by
  obtain ⟨c', hc'⟩ := hf (c + len)
  exact ⟨c', withSub_at (d := { buf := buf, off := off, lim := lim, cost := c }) hl
    (by simp only; omega) hc' rfl⟩

/-! ## Address prefixes -/

theorem famSize_eq (fam : Nat) : famSize fam = famWidth fam := rfl

theorem family_of {buf : Bytes} {off lim c fam : Nat} (hb : BytesAt buf off (beBytes 2 fam))
    (hf : fam = 1 ∨ fam = 2) (hl : off + 2 ≤ lim) (hlb : lim ≤ buf.length) (hB : buf.length < 2 ^ 63) :
    D.family { buf := buf, off := off, lim := lim, cost := c } =
      .ok (fam, { buf := buf, off := off + 2, lim := lim, cost := c + 2 }) := by
  have hlt : fam < 256 ^ 2 := by rcases hf with rfl | rfl <;> decide
  unfold D.family
  rw [num_of_bytesAt hb hlt hl hlb hB]
  have : inTable Gen.enumAddressFamilyNumber fam = true := by rcases hf with rfl | rfl <;> decide
  simp only [this, if_true]

/-- `rr_address` on a window holding the first `k` address octets re-creates the address, and the
constructor check passes -/
theorem address_of {buf : Bytes} {a off k lim c fam pfx : Nat} {addr : Bytes}
    (h : PrefixAddrAt buf a k fam pfx addr) (ha : a = off) (hl : off + k = lim) (hlb : lim ≤ buf.length) :
    D.address { buf := buf, off := off, lim := lim, cost := c } fam =
      .ok (addr, { buf := buf, off := lim, lim := lim, cost := c + k }) ∧ checkPrefix addr pfx = .ok () := by
  subst ha
  obtain ⟨_, hlen, hk, hb, hz, hp, hno⟩ := h
  have htl : (addr.take k).length = k := by rw [List.length_take]; omega
  constructor
  · have := D.address_fill { buf := buf, off := a, lim := lim, cost := c } fam addr (addr.take k)
      (by simp only; omega) (take_drop_of_bytesAt hb (by simp only; omega) (by simp only; omega))
      (by
        rw [htl]
        have hrep := eq_replicate_zero hz
        rw [List.length_drop] at hrep
        rw [← hrep, List.take_append_drop])
      (by rw [famSize_eq]; exact hlen)
    rw [this]
    congr 3; simp only; omega
  · exact (checkPrefix_ok_iff addr pfx).mpr ⟨by omega, hno⟩

/-! ## EDNS options -/

theorem decEcs_of {buf : Bytes} {o len fam src scope : Nat} {addr : Bytes} (hlen : 4 ≤ len)
    (hb : BytesAt buf o (beBytes 2 fam ++ beBytes 1 src ++ beBytes 1 scope)) (hsrc : src < 256)
    (hscope : scope < 256) (hp : PrefixAddrAt buf (o + 4) (len - 4) fam (max src scope) addr)
    (hlb : o + len ≤ buf.length) (hB : buf.length < 2 ^ 63) (c : Nat) :
    ∃ c', decEcs { buf := buf, off := o, lim := o + len, cost := c } =
      .ok (.ecs fam src scope addr, { buf := buf, off := o + len, lim := o + len, cost := c' }) := by
  rw [bytesAt_append, bytesAt_append] at hb
  obtain ⟨⟨b1, b2⟩, b3⟩ := hb
  have f1 := family_of (c := c) (lim := o + len) b1 hp.1 (by omega) hlb hB
  have n2 := num_of_bytesAt (c := c + 2) (lim := o + len) (off := o + 2) (bcast b2 (by simp))
    (by simpa using hsrc) (by omega) hlb hB
  have n3 := num_of_bytesAt (c := c + 2 + 1) (lim := o + len) (off := o + 2 + 1) (bcast b3 (by simp))
    (by simpa using hscope) (by omega) hlb hB
  obtain ⟨ha, hck⟩ := address_of (c := c + 2 + 1 + 1) (off := o + 2 + 1 + 1) (lim := o + len) hp
    (by omega) (by omega) hlb
  have hnew : ecsNew fam src scope addr = .ok (.ecs fam src scope addr) := by
    unfold ecsNew; rw [hck]
  refine ⟨c + 2 + 1 + 1 + (len - 4), ?_⟩
  unfold decEcs
  simp only [f1, n2, n3, ha, hnew]

theorem decCookie_of {buf : Bytes} {o : Nat} {client : Bytes} {server : Option Bytes}
    (hc : client.length = 8) (hs : ∀ s, server = some s → 8 ≤ s.length ∧ s.length ≤ 32)
    (hb : BytesAt buf o (client ++ server.getD []))
    (hlb : o + (8 + (server.getD []).length) ≤ buf.length) (c : Nat) :
    ∃ c', decCookie { buf := buf, off := o, lim := o + (8 + (server.getD []).length), cost := c } =
      .ok (.cookie client server,
        { buf := buf, off := o + (8 + (server.getD []).length), lim := o + (8 + (server.getD []).length),
          cost := c' }) := by
  have hr := rest_of_bytesAt (c := c) (lim := o + (8 + (server.getD []).length)) hb
    (by simp [hc]) hlb
  refine ⟨c + (client ++ server.getD []).length, ?_⟩
  unfold decCookie
  rw [hr]
  cases server with
  | none =>
    simp [hc, cookieNew]
    rw [← hc, List.take_length]
  | some s =>
    obtain ⟨h8, h32⟩ := hs s rfl
    have hne : ¬ (8 + s.length = 8) := by omega
    have h16 : 16 ≤ 8 + s.length ∧ 8 + s.length ≤ 40 := by omega
    have ht : (client ++ s).take 8 = client := by rw [← hc, List.take_left']; rfl
    have hd : (client ++ s).drop 8 = s := by rw [← hc, List.drop_left']; rfl
    simp only [Option.getD_some, List.length_append, hc, hne, h16, and_self, if_true, if_false, ht, hd,
      cookieNew, h8, h32]
    simp

theorem decPadding_of {buf : Bytes} {o n : Nat} (hn : n < 65536) (hb : BytesAt buf o (List.replicate n 0))
    (hlb : o + n ≤ buf.length) (c : Nat) :
    ∃ c', decPadding { buf := buf, off := o, lim := o + n, cost := c } =
      .ok (.padding n, { buf := buf, off := o + n, lim := o + n, cost := c' }) := by
  have hr := rest_of_bytesAt (c := c) (lim := o + n) hb (by simp) hlb
  refine ⟨c + (List.replicate n (0 : UInt8)).length, ?_⟩
  unfold decPadding
  rw [hr]
  have h1 : ¬ (65535 < n) := by omega
  simp [h1]

theorem OptionAt.lt {buf : Bytes} {off e : Nat} {o : EdnsOpt} (h : OptionAt buf off o e) : off + 4 ≤ e := by
  cases h <;> omega

/-- one EDNS option (ECS, cookie, padding) -/
theorem decOption_complete {buf : Bytes} {off e lim c : Nat} {o : EdnsOpt} (h : OptionAt buf off o e)
    (he : e ≤ lim) (hlb : lim ≤ buf.length) (hB : buf.length < 2 ^ 63) :
    ∃ c', decOption { buf := buf, off := off, lim := lim, cost := c } =
      .ok (o, { buf := buf, off := e, lim := lim, cost := c' }) := by
  cases h with
  | @ecs len fam src scope addr hb1 h4 hlen hb2 hsrc hscope hp =>
    rw [bytesAt_append] at hb1
    obtain ⟨b1, b2⟩ := hb1
    have n1 := num_of_bytesAt (c := c) (lim := lim) b1 (by decide) (by omega) hlb hB
    have n2 := num_of_bytesAt (c := c + 2) (lim := lim) (off := off + 2) (bcast b2 (by simp))
      (by simpa using hlen) (by omega) hlb hB
    obtain ⟨c', hc'⟩ := withSub_of (c := c + 2 + 2) (off := off + 2 + 2) (lim := lim) (len := len)
      (f := decEcs) (by omega) hlb hB
      (fun c0 => decEcs_of h4 (bcast hb2 (by omega)) hsrc hscope
        (by rw [show off + 2 + 2 + 4 = off + 8 by omega]; exact hp) (by omega) hB c0)
    refine ⟨c', ?_⟩
    have hin : inTable Gen.enumEDNSOptionCode 8 = true := by decide
    unfold decOption
    simp only [n1, hin, Bool.not_true, Bool.false_eq_true, if_false, if_true, n2, hc'] <;>
      (congr 3; omega)
  | @cookie client server hcl hs hb =>
    rw [bytesAt_append, bytesAt_append, bytesAt_append] at hb
    obtain ⟨⟨⟨b1, b2⟩, b3⟩, b4⟩ := hb
    simp only [List.length_append, beBytes_length] at b3 b4
    have hbb : BytesAt buf (off + 2 + 2) (client ++ server.getD []) :=
      bytesAt_append.mpr ⟨bcast b3 (by omega), bcast b4 (by omega)⟩
    have hsl : (server.getD []).length ≤ 32 := by
      cases server with
      | none => simp
      | some s => simpa using (hs s rfl).2
    have n1 := num_of_bytesAt (c := c) (lim := lim) b1 (by decide) (by omega) hlb hB
    have n2 := num_of_bytesAt (c := c + 2) (lim := lim) (off := off + 2) (bcast b2 (by simp))
      (by simp only [Nat.reducePow]; omega) (by omega) hlb hB
    obtain ⟨c', hc'⟩ := withSub_of (c := c + 2 + 2) (off := off + 2 + 2) (lim := lim)
      (len := 8 + (server.getD []).length) (f := decCookie) (by omega) hlb hB
      (fun c0 => decCookie_of hcl hs hbb (by omega) c0)
    refine ⟨c', ?_⟩
    have hin : inTable Gen.enumEDNSOptionCode 10 = true := by decide
    unfold decOption
    simp only [n1, hin, Bool.not_true, Bool.false_eq_true, if_false, if_true, n2,
      (by decide : ¬ ((10 : Nat) = 8)), hc'] <;> (congr 3; omega)
  | @padding n hn hb =>
    rw [bytesAt_append, bytesAt_append] at hb
    obtain ⟨⟨b1, b2⟩, b3⟩ := hb
    simp only [List.length_append, beBytes_length] at b3
    have n1 := num_of_bytesAt (c := c) (lim := lim) b1 (by decide) (by omega) hlb hB
    have n2 := num_of_bytesAt (c := c + 2) (lim := lim) (off := off + 2) (bcast b2 (by simp))
      (by simpa using hn) (by omega) hlb hB
    obtain ⟨c', hc'⟩ := withSub_of (c := c + 2 + 2) (off := off + 2 + 2) (lim := lim) (len := n)
      (f := decPadding) (by omega) hlb hB
      (fun c0 => decPadding_of hn (bcast b3 (by omega)) (by omega) c0)
    refine ⟨c', ?_⟩
    have hin : inTable Gen.enumEDNSOptionCode 12 = true := by decide
    unfold decOption
    simp only [n1, hin, Bool.not_true, Bool.false_eq_true, if_false, n2,
      (by decide : ¬ ((12 : Nat) = 8)), (by decide : ¬ ((12 : Nat) = 10)), hc'] <;> (congr 3; omega)

theorem OptionsAt.le {buf : Bytes} {lim off : Nat} {l : List EdnsOpt} (h : OptionsAt buf lim off l) :
    off ≤ lim := by
  induction h with
  | nil => exact Nat.le_refl _
  | cons h1 _ _ ih => have := OptionAt.lt h1; omega

/-- the options fill the OPT RDATA window exactly -/
theorem decOptions_complete {buf : Bytes} {lim : Nat} (hlb : lim ≤ buf.length) (hB : buf.length < 2 ^ 63)
    {off : Nat} {l : List EdnsOpt} (h : OptionsAt buf lim off l) :
    ∀ (fuel c : Nat), lim - off < fuel →
      ∃ c', decOptions fuel { buf := buf, off := off, lim := lim, cost := c } =
        .ok (l, { buf := buf, off := lim, lim := lim, cost := c' }) := by
  induction h with
  | nil =>
    intro fuel c hf
    cases fuel with
    | zero => omega
    | succ fuel =>
      refine ⟨c, ?_⟩
      unfold decOptions
      rw [isFinished_at (Nat.le_refl _)]
      simp
  | @cons off o e r ho hel hr ih =>
    intro fuel c hf
    cases fuel with
    | zero => omega
    | succ fuel =>
      have hlt := OptionAt.lt ho
      obtain ⟨c1, h1⟩ := decOption_complete (c := c) ho hel hlb hB
      obtain ⟨c2, h2⟩ := ih fuel c1 (by omega)
      refine ⟨c2, ?_⟩
      unfold decOptions
      rw [isFinished_at (by simp only; omega)]
      have hne : ¬ (off = lim) := by omega
      simp only [hne, decide_false, h1, h2]

/-! ## The OPT TTL word -/

theorem and255 (x : Nat) : x &&& 255 = x % 256 := Nat.and_two_pow_sub_one_eq_mod x 8

theorem optTtl_parts (t ext ver b : Nat) (h1 : t / 16777216 % 256 = ext) (h2 : t / 65536 % 256 = ver)
    (h3 : t / 256 % 256 = b) (h4 : t % 256 = 0) (hb : b = 0 ∨ b = 128) :
    optTtl t = .ok (ext, ver, b == 128) := by
  unfold optTtl
  simp only [Nat.shiftRight_eq_div_pow, and255, Nat.reducePow, h1, h2, h3, h4]
  rcases hb with rfl | rfl <;> simp

/-- `rr_opt_ttl` reads back extended RCODE, version and the DO bit -/
theorem optTtl_of (ext ver : Nat) (dnssec : Bool) (h1 : ext < 256) (h2 : ver < 256) :
    optTtl (optTtlOf ext ver dnssec) = .ok (ext, ver, dnssec) := by
  cases dnssec
  · have := optTtl_parts (optTtlOf ext ver false) ext ver 0 (by simp [optTtlOf]; omega)
      (by simp [optTtlOf]; omega) (by simp [optTtlOf]; omega) (by simp [optTtlOf]; omega) (.inl rfl)
    simpa using this
  · have := optTtl_parts (optTtlOf ext ver true) ext ver 128 (by simp [optTtlOf]; omega)
      (by simp [optTtlOf]; omega) (by simp [optTtlOf]; omega) (by simp [optTtlOf]; omega) (.inr rfl)
    simpa using this

theorem optTtlOf_lt (ext ver : Nat) (dnssec : Bool) (h1 : ext < 256) (h2 : ver < 256) :
    optTtlOf ext ver dnssec < 256 ^ 4 := by
  unfold optTtlOf; cases dnssec <;> simp <;> omega

/-! ## APL items -/

theorem apl_bits : ∀ (k : Fin 128) (neg : Bool),
    ((k.val + if neg then 128 else 0) &&& 127 = k.val) ∧
    (((k.val + if neg then 128 else 0) &&& 128) == 128) = neg := by decide +kernel

theorem ApItemAt.lt {buf : Bytes} {off e : Nat} {o : APItem} (h : ApItemAt buf off o e) : off + 4 ≤ e := by
  cases h; omega

theorem decApItem_complete {buf : Bytes} {off e lim c : Nat} {it : APItem} (h : ApItemAt buf off it e)
    (he : e ≤ lim) (hlb : lim ≤ buf.length) (hB : buf.length < 2 ^ 63) :
    ∃ c', decApItem { buf := buf, off := off, lim := lim, cost := c } =
      .ok (it, { buf := buf, off := e, lim := lim, cost := c' }) := by
  cases h with
  | @mk k _ hpfx hk hb hp =>
    rw [bytesAt_append, bytesAt_append] at hb
    obtain ⟨⟨b1, b2⟩, b3⟩ := hb
    simp only [List.length_append, beBytes_length] at b3
    have hm : (k + if it.neg then 128 else 0) < 256 := by split <;> omega
    have f1 := family_of (c := c) (lim := lim) b1 hp.1 (by omega) hlb hB
    have n2 := num_of_bytesAt (c := c + 2) (lim := lim) (off := off + 2) (bcast b2 (by simp))
      (by simpa using hpfx) (by omega) hlb hB
    have n3 := num1_of_getElem (c := c + 2 + 1) (lim := lim) (off := off + 2 + 1)
      (bytesAt_singleton.mp (bcast b3 (by omega))) (by omega) hlb hB
    rw [UInt8.ofNat_toNat_lt hm] at n3
    obtain ⟨hb1, hb2⟩ := apl_bits ⟨k, hk⟩ it.neg
    simp only at hb1 hb2
    obtain ⟨c', hc'⟩ := withSub_of (c := c + 2 + 1 + 1) (off := off + 2 + 1 + 1) (lim := lim) (len := k)
      (f := fun c => c.address it.fam) (a := it.addr) (by omega) hlb hB
      (fun c0 => ⟨_, (address_of (c := c0) hp (by omega) rfl (by omega)).1⟩)
    have hck := (address_of (c := 0) (off := off + 4) (lim := off + 4 + k) hp rfl rfl (by omega)).2
    have hnew : apItemNew it.fam it.pfx it.neg it.addr = .ok it := by
      unfold apItemNew; rw [hck]
    refine ⟨c', ?_⟩
    unfold decApItem
    simp only [f1, n2, n3, hb1, hb2, hc', hnew] <;> (congr 3; omega)

theorem ApItemsAt.le {buf : Bytes} {lim off : Nat} {l : List APItem} (h : ApItemsAt buf lim off l) :
    off ≤ lim := by
  induction h with
  | nil => exact Nat.le_refl _
  | cons h1 _ _ ih => have := ApItemAt.lt h1; omega

theorem decApItems_complete {buf : Bytes} {lim : Nat} (hlb : lim ≤ buf.length) (hB : buf.length < 2 ^ 63)
    {off : Nat} {l : List APItem} (h : ApItemsAt buf lim off l) :
    ∀ (fuel c : Nat), lim - off < fuel →
      ∃ c', decApItems fuel { buf := buf, off := off, lim := lim, cost := c } =
        .ok (l, { buf := buf, off := lim, lim := lim, cost := c' }) := by
  induction h with
  | nil =>
    intro fuel c hf
    cases fuel with
    | zero => omega
    | succ fuel =>
      refine ⟨c, ?_⟩
      unfold decApItems
      rw [isFinished_at (Nat.le_refl _)]
      simp
  | @cons off o e r ho hel hr ih =>
    intro fuel c hf
    cases fuel with
    | zero => omega
    | succ fuel =>
      have hlt := ApItemAt.lt ho
      obtain ⟨c1, h1⟩ := decApItem_complete (c := c) ho hel hlb hB
      obtain ⟨c2, h2⟩ := ih fuel c1 (by omega)
      refine ⟨c2, ?_⟩
      unfold decApItems
      rw [isFinished_at (by simp only; omega)]
      have hne : ¬ (off = lim) := by omega
      simp only [hne, decide_false, h1, h2]

/-! ## Non-vacuity -/

section Examples

local macro "bdec" : tactic => `(tactic| (unfold BytesAt; decide +kernel))

/-- padding(2), ECS 10.1.2.0/24 written with three address octets, APL item `!1:10.0.0.0/8` -/
private def exBuf : Bytes := [0, 12, 0, 2, 0, 0, 0, 8, 0, 7, 0, 1, 24, 0, 10, 1, 2, 0, 1, 8, 0x81, 10]

private theorem exPad : OptionAt exBuf 0 (.padding 2) 6 := .padding (by decide) (by bdec)

private theorem exEcs : OptionAt exBuf 6 (.ecs 1 24 0 [10, 1, 2, 0]) 17 :=
  .ecs (len := 7) (by bdec) (by decide) (by decide) (by bdec) (by decide) (by decide)
    ⟨.inl rfl, rfl, by decide, by bdec, by decide +kernel, by decide, ((checkPrefix_ok_iff _ _).mp rfl).2⟩

example : ∃ c', decOptions 18 { buf := exBuf, off := 0, lim := 17, cost := 0 } =
    .ok ([.padding 2, .ecs 1 24 0 [10, 1, 2, 0]], { buf := exBuf, off := 17, lim := 17, cost := c' }) :=
  decOptions_complete (by decide) (by decide +kernel) (.cons exPad (by decide) (.cons exEcs (by decide) .nil)) 18 0
    (by decide)

private theorem exAp : ApItemAt exBuf 17 { fam := 1, pfx := 8, neg := true, addr := [10, 0, 0, 0] } 22 :=
  .mk (k := 1) (by decide) (by decide) (by bdec)
    ⟨.inl rfl, rfl, by decide, by bdec, by decide +kernel, by decide, ((checkPrefix_ok_iff _ _).mp rfl).2⟩

example : ∃ c', decApItems 6 { buf := exBuf, off := 17, lim := 22, cost := 0 } =
    .ok ([{ fam := 1, pfx := 8, neg := true, addr := [10, 0, 0, 0] }],
      { buf := exBuf, off := 22, lim := 22, cost := c' }) :=
  decApItems_complete (by decide) (by decide +kernel) (.cons exAp (by decide) .nil) 6 0 (by decide)

example : optTtl (optTtlOf 1 0 true) = .ok (1, 0, true) := optTtl_of 1 0 true (by decide) (by decide)

end Examples

end Complete
