import DnsVerif.Lemmas.CompleteRR

/-! # Decoder completeness, part 5: whole messages and the public entry points (C04)

**C04 "every well-formed message of the supported types is accepted, exactly".**
`decodeDns_complete : MsgAt b bk m → decodeDns b = .ok (m, d)` with `d` standing at the end of the
buffer; element versions for `decodeRR`, `decodeQuestion`, `decodeName`, `decodeFlags`;
`MsgAt.functional` (a buffer denotes at most one message) as a corollary; the weakening lemmas
`XAt buf true … → XAt buf false …`; the boundary cases the property names, on concrete buffers. -/

namespace Complete

/-! ## The message -/

/-- **C04, capstone.** A buffer that IS a message of the grammar (either mode `bk`) is decoded to
exactly that message, and the decoder stops at the end of the buffer. -/
theorem decodeDns_complete {b : Bytes} {bk : Bool} {m : Msg} (h : MsgAt b bk m) :
    ∃ c, decodeDns b = .ok (m, { buf := b, off := b.length, lim := b.length, cost := c }) := by
  obtain ⟨h12, hmax, hid, hfl, hq, han, hns, har, hb, e1, e2, e3, hqs, hans, hnss, hars⟩ := h
  have hB : b.length < 2 ^ 63 := by omega
  have hlb : b.length ≤ b.length := Nat.le_refl _
  rw [bytesAt_append, bytesAt_append, bytesAt_append, bytesAt_append, bytesAt_append] at hb
  obtain ⟨⟨⟨⟨⟨b1, b2⟩, b3⟩, b4⟩, b5⟩, b6⟩ := hb
  simp only [List.length_append, beBytes_length] at b2 b3 b4 b5 b6
  have n1 := num_of_bytesAt (c := 0) (lim := b.length) (off := 0) b1 (by simpa using hid) (by omega) hlb hB
  have f2 := decFlags_complete (c := 0 + 2) (lim := b.length) (off := 0 + 2) hfl (bcast b2 (by omega))
    (by omega) hlb hB
  have n3 := num_of_bytesAt (c := 0 + 2 + 2) (lim := b.length) (off := 0 + 2 + 2) (bcast b3 (by omega))
    (by simpa using hq) (by omega) hlb hB
  have n4 := num_of_bytesAt (c := 0 + 2 + 2 + 2) (lim := b.length) (off := 0 + 2 + 2 + 2) (bcast b4 (by omega))
    (by simpa using han) (by omega) hlb hB
  have n5 := num_of_bytesAt (c := 0 + 2 + 2 + 2 + 2) (lim := b.length) (off := 0 + 2 + 2 + 2 + 2)
    (bcast b5 (by omega)) (by simpa using hns) (by omega) hlb hB
  have n6 := num_of_bytesAt (c := 0 + 2 + 2 + 2 + 2 + 2) (lim := b.length) (off := 0 + 2 + 2 + 2 + 2 + 2)
    (bcast b6 (by omega)) (by simpa using har) (by omega) hlb hB
  have l1 := RRsAt.le hans
  have l2 := RRsAt.le hnss
  have l3 := RRsAt.le hars
  have hqs' : QuestionsAt b bk (0 + 2 + 2 + 2 + 2 + 2 + 2) m.qs e1 := hqs
  obtain ⟨c1, q1⟩ := decQuestions_complete hlb hB hqs' (0 + 2 + 2 + 2 + 2 + 2 + 2) (by omega)
  obtain ⟨c2, r1⟩ := decRRs_complete hlb hB hans c1 (by omega)
  obtain ⟨c3, r2⟩ := decRRs_complete hlb hB hnss c2 (by omega)
  obtain ⟨c4, r3⟩ := decRRs_complete hlb hB hars c3 hlb
  have k1 : ¬ (b.length < 12) := by omega
  have k2 : ¬ (65536 < b.length) := by omega
  refine ⟨c4, ?_⟩
  unfold decodeDns decMsg D.main
  simp only [ne_eq, not_true_eq_false, if_false, k1, k2, n1, f2, n3, n4, n5, n6, q1, r1, r2, r3]
  rw [isFinished_at (Nat.le_refl _)]
  simp

/-- the form asked for: some final decoder state `d` with `d.off = b.length` -/
theorem decodeDns_complete' {b : Bytes} {bk : Bool} {m : Msg} (h : MsgAt b bk m) :
    ∃ d, decodeDns b = .ok (m, d) ∧ d.off = b.length :=
  let ⟨_, hc⟩ := decodeDns_complete h
  ⟨_, hc, rfl⟩

/-- **a buffer denotes at most one message** (both are what the decoder returns) -/
theorem MsgAt.functional' {b : Bytes} {bk₁ bk₂ : Bool} {m₁ m₂ : Msg} (h1 : MsgAt b bk₁ m₁) (h2 : MsgAt b bk₂ m₂) :
    m₁ = m₂ := by
  obtain ⟨c1, e1⟩ := decodeDns_complete h1
  obtain ⟨c2, e2⟩ := decodeDns_complete h2
  rw [e1] at e2
  injection e2 with e2
  exact (Prod.mk.inj e2).1

theorem MsgAt.functional {b : Bytes} {bk : Bool} {m₁ m₂ : Msg} (h1 : MsgAt b bk m₁) (h2 : MsgAt b bk m₂) :
    m₁ = m₂ := MsgAt.functional' h1 h2

/-! ## Element entry points -/

theorem decodeRR_complete {b : Bytes} {bk : Bool} {rr : RR} {e : Nat} (h : RRAt b bk 0 rr e)
    (he : e ≤ b.length) (hB : b.length < 2 ^ 63) :
    ∃ c, decodeRR b = .ok (rr, { buf := b, off := e, lim := b.length, cost := c }) :=
  decRR_complete (c := 0) h he (Nat.le_refl _) hB

theorem decodeQuestion_complete {b : Bytes} {bk : Bool} {q : Question} {e : Nat} (h : QuestionAt b bk 0 q e)
    (hB : b.length < 2 ^ 63) :
    ∃ c, decodeQuestion b = .ok (q, { buf := b, off := e, lim := b.length, cost := c }) :=
  decQuestion_complete (c := 0) h h.choose_spec.2.2.2.2.2 (Nat.le_refl _) hB

theorem decodeName_complete {b : Bytes} {bk : Bool} {n : Name} {e : Nat} (h : NameRefAt b bk 0 n e)
    (hB : b.length < 2 ^ 63) :
    ∃ c, decodeName b = .ok (n, { buf := b, off := e, lim := b.length, cost := c }) :=
  name_of (c := 0) h (NameRefAt.le_length h) (Nat.le_refl _) hB

theorem decodeFlags_complete {b : Bytes} {f : Flags} (hf : FlagsOk f) (hb : BytesAt b 0 (beBytes 2 (flagsWord f)))
    (hB : b.length < 2 ^ 63) :
    decodeFlags b = .ok (f, { buf := b, off := 2, lim := b.length, cost := 2 }) := by
  have hl := bytesAt_le hb (by simp)
  have := decFlags_complete (c := 0) (lim := b.length) hf hb (by simpa using hl) (Nat.le_refl _) hB
  simpa [decodeFlags, D.main] using this

/-! ## Weakening: what an encoder guarantees (`bk = true`) is what a decoder accepts (`bk = false`) -/

theorem NameRefAt.weaken {buf : Bytes} {bk : Bool} {off e : Nat} {n : Name} (h : NameRefAt buf bk off n e) :
    NameRefAt buf false off n e := by
  obtain ⟨hops, hn, hh, hu, hs⟩ := h
  refine ⟨hops, hn.weaken', ?_, hu, hs⟩
  cases bk <;> simp [maxHops] at hh ⊢ <;> omega

theorem FieldAt.weaken {buf bk lim off f v e} (h : FieldAt buf bk lim off f v e) :
    FieldAt buf false lim off f v e := by
  cases h with
  | num a b c => exact .num a b c
  | enum a b c d => exact .enum a b c d
  | name hn hl => exact .name (NameRefAt.weaken hn) hl
  | cstr a b c d => exact .cstr a b c d
  | ocstrNone => exact .ocstrNone
  | ocstrSome a b c d e => exact .ocstrSome a b c d e
  | strs a b => exact .strs a b
  | rest a b c => exact .rest a b c
  | oct a b c => exact .oct a b c

theorem FieldsAt.weaken {buf bk lim off fs vs} (h : FieldsAt buf bk lim off fs vs) :
    FieldsAt buf false lim off fs vs := by
  induction h with
  | nil => exact .nil
  | cons hf _ ih => exact .cons (FieldAt.weaken hf) ih

theorem RDataAt.weaken {buf bk lim ty off rd} (h : RDataAt buf bk lim ty off rd) :
    RDataAt buf false lim ty off rd := by
  cases h with
  | regular hk hf => exact .regular hk (FieldsAt.weaken hf)
  | opt hk ho => exact .opt hk ho
  | apl hk hi => exact .apl hk hi
  | svcbAlias hk hb hn => exact .svcbAlias hk hb (NameRefAt.weaken hn)
  | svcbService hk a b c hn d e f g => exact .svcbService hk a b c (NameRefAt.weaken hn) d e f g

theorem RRAt.weaken {buf bk off rr e} (h : RRAt buf bk off rr e) : RRAt buf false off rr e := by
  cases h with
  | normal a hn b c d e f g hrd => exact .normal a (NameRefAt.weaken hn) b c d e f g (RDataAt.weaken hrd)
  | opt hn a b c d e hrd => exact .opt (NameRefAt.weaken hn) a b c d e (RDataAt.weaken hrd)

theorem RRsAt.weaken {buf bk off rs e} (h : RRsAt buf bk off rs e) : RRsAt buf false off rs e := by
  induction h with
  | nil => exact .nil
  | cons h1 _ ih => exact .cons (RRAt.weaken h1) ih

theorem QuestionAt.weaken {buf bk off q e} (h : QuestionAt buf bk off q e) : QuestionAt buf false off q e := by
  obtain ⟨e0, hn, r⟩ := h
  exact ⟨e0, NameRefAt.weaken hn, r⟩

theorem QuestionsAt.weaken {buf bk off qs e} (h : QuestionsAt buf bk off qs e) :
    QuestionsAt buf false off qs e := by
  induction h with
  | nil => exact .nil
  | cons h1 _ ih => exact .cons (QuestionAt.weaken h1) ih

theorem MsgAt.weaken {b : Bytes} {bk : Bool} {m : Msg} (h : MsgAt b bk m) : MsgAt b false m := by
  obtain ⟨h12, hmax, hid, hfl, hq, han, hns, har, hb, e1, e2, e3, hqs, hans, hnss, hars⟩ := h
  exact ⟨h12, hmax, hid, hfl, hq, han, hns, har, hb, e1, e2, e3, QuestionsAt.weaken hqs, RRsAt.weaken hans,
    RRsAt.weaken hnss, RRsAt.weaken hars⟩

end Complete
