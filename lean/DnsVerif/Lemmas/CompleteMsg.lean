import DnsVerif.Lemmas.CompleteBounds

/-! # Decoder completeness, part 5: whole messages and the public entry points (C04)

**C04 "every well-formed message of the supported types is accepted, exactly".**
`decodeDns_complete : MsgAt b bk m → decodeDns b = .ok (m, d)` with `d` standing at the end of the
buffer; element versions for `decodeRR`, `decodeQuestion`, `decodeName`, `decodeFlags`;
`MsgAt.functional` (a buffer denotes at most one message) as a corollary; the weakening lemmas
`XAt buf true … → XAt buf false …`; the boundary cases the property names, on concrete buffers. -/

namespace Complete

/-! ## The message -/

/-- **C04, capstone.** A buffer that IS a message of the grammar (either mode `bk`) is decoded to
exactly that message, and the decoder stops at the end of the buffer. -/
theorem decodeDns_complete {b : Bytes} {bk : Bool} {m : Msg} (h : MsgAt b bk m) :
    ∃ c, decodeDns b = .ok (m, { buf := b, off := b.length, lim := b.length, cost := c }) := by
  obtain ⟨h12, hmax, hid, hfl, hq, han, hns, har, hb, e1, e2, e3, hqs, hans, hnss, hars⟩ := h
  have hB : b.length < 2 ^ 63 := by omega
  have hlb : b.length ≤ b.length := Nat.le_refl _
  rw [bytesAt_append, bytesAt_append, bytesAt_append, bytesAt_append, bytesAt_append] at hb
  obtain ⟨⟨⟨⟨⟨b1, b2⟩, b3⟩, b4⟩, b5⟩, b6⟩ := hb
  simp only [List.length_append, beBytes_length] at b2 b3 b4 b5 b6
  have n1 := num_of_bytesAt (c := 0) (lim := b.length) (off := 0) b1 (by simpa using hid) (by omega) hlb hB
  have f2 := decFlags_complete (c := 0 + 2) (lim := b.length) (off := 0 + 2) hfl (bcast b2 (by omega))
    (by omega) hlb hB
  have n3 := num_of_bytesAt (c := 0 + 2 + 2) (lim := b.length) (off := 0 + 2 + 2) (bcast b3 (by omega))
    (by simpa using hq) (by omega) hlb hB
  have n4 := num_of_bytesAt (c := 0 + 2 + 2 + 2) (lim := b.length) (off := 0 + 2 + 2 + 2) (bcast b4 (by omega))
    (by simpa using han) (by omega) hlb hB
  have n5 := num_of_bytesAt (c := 0 + 2 + 2 + 2 + 2) (lim := b.length) (off := 0 + 2 + 2 + 2 + 2)
    (bcast b5 (by omega)) (by simpa using hns) (by omega) hlb hB
  have n6 := num_of_bytesAt (c := 0 + 2 + 2 + 2 + 2 + 2) (lim := b.length) (off := 0 + 2 + 2 + 2 + 2 + 2)
    (bcast b6 (by omega)) (by simpa using har) (by omega) hlb hB
  have l1 := RRsAt.le hans
  have l2 := RRsAt.le hnss
  have l3 := RRsAt.le hars
  have hqs' : QuestionsAt b bk (0 + 2 + 2 + 2 + 2 + 2 + 2) m.qs e1 := hqs
  obtain ⟨c1, q1⟩ := decQuestions_complete hlb hB hqs' (0 + 2 + 2 + 2 + 2 + 2 + 2) (by omega)
  obtain ⟨c2, r1⟩ := decRRs_complete hlb hB hans c1 (by omega)
  obtain ⟨c3, r2⟩ := decRRs_complete hlb hB hnss c2 (by omega)
  obtain ⟨c4, r3⟩ := decRRs_complete hlb hB hars c3 hlb
  have k1 : ¬ (b.length < 12) := by omega
  have k2 : ¬ (65536 < b.length) := by omega
  refine ⟨c4, ?_⟩
  unfold decodeDns decMsg D.main
  simp only [ne_eq, not_true_eq_false, if_false, k1, k2, n1, f2, n3, n4, n5, n6, q1, r1, r2, r3]
  rw [isFinished_at (Nat.le_refl _)]
  simp

/-- the form asked for: some final decoder state `d` with `d.off = b.length` -/
theorem decodeDns_complete' {b : Bytes} {bk : Bool} {m : Msg} (h : MsgAt b bk m) :
    ∃ d, decodeDns b = .ok (m, d) ∧ d.off = b.length :=
  let ⟨_, hc⟩ := decodeDns_complete h
  ⟨_, hc, rfl⟩

/-- **a buffer denotes at most one message** (both are what the decoder returns) -/
theorem MsgAt.functional' {b : Bytes} {bk₁ bk₂ : Bool} {m₁ m₂ : Msg} (h1 : MsgAt b bk₁ m₁) (h2 : MsgAt b bk₂ m₂) :
    m₁ = m₂ := by
  obtain ⟨c1, e1⟩ := decodeDns_complete h1
  obtain ⟨c2, e2⟩ := decodeDns_complete h2
  rw [e1] at e2
  injection e2 with e2
  exact (Prod.mk.inj e2).1

theorem MsgAt.functional {b : Bytes} {bk : Bool} {m₁ m₂ : Msg} (h1 : MsgAt b bk m₁) (h2 : MsgAt b bk m₂) :
    m₁ = m₂ := MsgAt.functional' h1 h2

/-! ## Element entry points -/

theorem decodeRR_complete {b : Bytes} {bk : Bool} {rr : RR} {e : Nat} (h : RRAt b bk 0 rr e)
    (hB : b.length < 2 ^ 63) :
    ∃ c, decodeRR b = .ok (rr, { buf := b, off := e, lim := b.length, cost := c }) :=
  decRR_complete (c := 0) h (RRAt.end_le h) (Nat.le_refl _) hB

theorem decodeQuestion_complete {b : Bytes} {bk : Bool} {q : Question} {e : Nat} (h : QuestionAt b bk 0 q e)
    (hB : b.length < 2 ^ 63) :
    ∃ c, decodeQuestion b = .ok (q, { buf := b, off := e, lim := b.length, cost := c }) :=
  decQuestion_complete (c := 0) h h.choose_spec.2.2.2.2.2 (Nat.le_refl _) hB

theorem decodeName_complete {b : Bytes} {bk : Bool} {n : Name} {e : Nat} (h : NameRefAt b bk 0 n e)
    (hB : b.length < 2 ^ 63) :
    ∃ c, decodeName b = .ok (n, { buf := b, off := e, lim := b.length, cost := c }) :=
  name_of (c := 0) h (NameRefAt.le_length h) (Nat.le_refl _) hB

theorem decodeFlags_complete {b : Bytes} {f : Flags} (hf : FlagsOk f) (hb : BytesAt b 0 (beBytes 2 (flagsWord f)))
    (hB : b.length < 2 ^ 63) :
    decodeFlags b = .ok (f, { buf := b, off := 2, lim := b.length, cost := 2 }) := by
  have hl := bytesAt_le hb (by simp)
  have := decFlags_complete (c := 0) (lim := b.length) hf hb (by simpa using hl) (Nat.le_refl _) hB
  simpa [decodeFlags, D.main] using this

/-! ## Weakening: what an encoder guarantees (`bk = true`) is what a decoder accepts (`bk = false`) -/

theorem NameRefAt.weaken {buf : Bytes} {bk : Bool} {off e : Nat} {n : Name} (h : NameRefAt buf bk off n e) :
    NameRefAt buf false off n e := by
  obtain ⟨hops, hn, hh, hu, hs⟩ := h
  refine ⟨hops, hn.weaken', ?_, hu, hs⟩
  cases bk <;> simp [maxHops] at hh ⊢ <;> omega

theorem FieldAt.weaken {buf bk lim off f v e} (h : FieldAt buf bk lim off f v e) :
    FieldAt buf false lim off f v e := by
  cases h with
  | num a b c => exact .num a b c
  | enum a b c d => exact .enum a b c d
  | name hn hl => exact .name (NameRefAt.weaken hn) hl
  | cstr a b c d => exact .cstr a b c d
  | ocstrNone => exact .ocstrNone
  | ocstrSome a b c d e => exact .ocstrSome a b c d e
  | strs a b => exact .strs a b
  | rest a b c => exact .rest a b c
  | oct a b c => exact .oct a b c

theorem FieldsAt.weaken {buf bk lim off fs vs} (h : FieldsAt buf bk lim off fs vs) :
    FieldsAt buf false lim off fs vs := by
  induction h with
  | nil => exact .nil
  | cons hf _ ih => exact .cons (FieldAt.weaken hf) ih

theorem RDataAt.weaken {buf bk lim ty off rd} (h : RDataAt buf bk lim ty off rd) :
    RDataAt buf false lim ty off rd := by
  cases h with
  | regular hk hf => exact .regular hk (FieldsAt.weaken hf)
  | opt hk ho => exact .opt hk ho
  | apl hk hi => exact .apl hk hi
  | svcbAlias hk hb hn => exact .svcbAlias hk hb (NameRefAt.weaken hn)
  | svcbService hk a b c hn d e f g => exact .svcbService hk a b c (NameRefAt.weaken hn) d e f g

theorem RRAt.weaken {buf bk off rr e} (h : RRAt buf bk off rr e) : RRAt buf false off rr e := by
  cases h with
  | normal a hn b c d e f g hrd => exact .normal a (NameRefAt.weaken hn) b c d e f g (RDataAt.weaken hrd)
  | opt hn a b c d e hrd => exact .opt (NameRefAt.weaken hn) a b c d e (RDataAt.weaken hrd)

theorem RRsAt.weaken {buf bk off rs e} (h : RRsAt buf bk off rs e) : RRsAt buf false off rs e := by
  induction h with
  | nil => exact .nil
  | cons h1 _ ih => exact .cons (RRAt.weaken h1) ih

theorem QuestionAt.weaken {buf bk off q e} (h : QuestionAt buf bk off q e) : QuestionAt buf false off q e := by
  obtain ⟨e0, hn, r⟩ := h
  exact ⟨e0, NameRefAt.weaken hn, r⟩

theorem QuestionsAt.weaken {buf bk off qs e} (h : QuestionsAt buf bk off qs e) :
    QuestionsAt buf false off qs e := by
  induction h with
  | nil => exact .nil
  | cons h1 _ ih => exact .cons (QuestionAt.weaken h1) ih

theorem MsgAt.weaken {b : Bytes} {bk : Bool} {m : Msg} (h : MsgAt b bk m) : MsgAt b false m := by
  obtain ⟨h12, hmax, hid, hfl, hq, han, hns, har, hb, e1, e2, e3, hqs, hans, hnss, hars⟩ := h
  exact ⟨h12, hmax, hid, hfl, hq, han, hns, har, hb, e1, e2, e3, QuestionsAt.weaken hqs, RRsAt.weaken hans,
    RRsAt.weaken hnss, RRsAt.weaken hars⟩

/-! ## Non-vacuity: the hypotheses of the main theorems hold on concrete, non-trivial buffers -/

section Examples

local macro "bdec" : tactic => `(tactic| (unfold BytesAt; decide +kernel))

/-- a response: header, question `a. A IN`, answer `<ptr to 12> A IN 60 10.0.0.1` -/
private def exMsgBuf : Bytes :=
  [0x12, 0x34, 0x81, 0x80, 0, 1, 0, 1, 0, 0, 0, 0,
   1, 97, 0, 0, 1, 0, 1,
   0xC0, 0x0C, 0, 1, 0, 1, 0, 0, 0, 60, 0, 4, 10, 0, 0, 1]

private def exMsg : Msg :=
  { id := 0x1234,
    flags := { qr := true, opcode := 0, aa := false, tc := false, rd := true, ra := true, ad := false,
               cd := false, rcode := 0 },
    qs := [{ name := [[97]], qtype := 1, qclass := 1 }],
    an := [{ name := [[97]], ty := 1, cls := 1, ttl := 60, rd := .fields [.bytes [10, 0, 0, 1]] }],
    ns := [], ar := [] }

private theorem exQName : NameRefAt exMsgBuf true 12 [[97]] 15 :=
  ⟨0, .label (len := 1) (by decide) (by decide) (by decide) (by decide) (by decide) (.root (by decide)),
    by decide, by decide, by decide⟩

private theorem exAName : NameRefAt exMsgBuf true 19 [[97]] 21 :=
  ⟨1, .ptr (a := 0xC0) (b := 0x0C) (by decide) (by decide) (by decide) (by decide)
    (.label (len := 1) (by decide) (by decide) (by decide) (by decide) (by decide) (.root (by decide))),
    by decide, by decide, by decide⟩

private theorem exA : RRAt exMsgBuf true 19
    { name := [[97]], ty := 1, cls := 1, ttl := 60, rd := .fields [.bytes [10, 0, 0, 1]] } 35 :=
  .normal (e := 21) (rdlen := 4) (by decide) exAName (by decide) (by decide) (by decide) (by decide)
    ⟨by decide, fun _ => rfl⟩ (by bdec)
    (.regular rfl (.cons (.oct (k := 1) (c := 4) rfl (by bdec) (by decide)) .nil))

private theorem exMsgAt : MsgAt exMsgBuf true exMsg :=
  ⟨by decide, by decide, by decide, ⟨by decide, by decide, by decide⟩, by decide, by decide, by decide, by decide,
    by bdec, 19, 35, 35,
    .cons ⟨15, exQName, by decide, by decide, by bdec, rfl, by decide⟩ .nil,
    .cons exA .nil, .nil, .nil⟩

example : ∃ c, decodeDns exMsgBuf = .ok (exMsg, { buf := exMsgBuf, off := 35, lim := 35, cost := c }) :=
  decodeDns_complete exMsgAt

example : MsgAt exMsgBuf false exMsg := MsgAt.weaken exMsgAt

private theorem rootAt0 (b : Bytes) (bk : Bool) (h : b[0]? = some 0) : NameRefAt b bk 0 [] 1 :=
  ⟨0, .root h, Nat.zero_le _, by simp, by simp⟩

/-- C04 boundary: an empty NULL RDATA -/
private def exNull : Bytes := [0, 0, 10, 0, 1, 0, 0, 0, 60, 0, 0]

private theorem exNullAt : RRAt exNull true 0
    { name := [], ty := 10, cls := 1, ttl := 60, rd := .fields [.bytes []] } 11 :=
  .normal (e := 1) (rdlen := 0) (by decide) (rootAt0 _ _ (by decide)) (by decide) (by decide) (by decide) (by decide)
    ⟨by decide, fun h => by simp at h⟩ (by bdec)
    (.regular rfl (.cons (.rest (b := []) (bytesAt_nil _ _) rfl (by simp)) .nil))

example : ∃ c, decodeRR exNull = .ok ({ name := [], ty := 10, cls := 1, ttl := 60, rd := .fields [.bytes []] },
    { buf := exNull, off := 11, lim := 11, cost := c }) :=
  decodeRR_complete exNullAt (by simp [exNull])

private def ck8 : Bytes := [1, 2, 3, 4, 5, 6, 7, 8]

/-- C04 boundaries: OPT (DO bit set) with a 40-octet cookie, zero-length padding, a /0 ECS with no
address octets -/
private def exOpt : Bytes :=
  [0, 0, 41, 0x10, 0, 0, 0, 0x80, 0, 0, 56] ++ ([0, 10, 0, 40] ++ ck8 ++ List.replicate 32 9) ++ [0, 12, 0, 0] ++
    [0, 8, 0, 4, 0, 1, 0, 0]

private def exOptVal : RR :=
  { name := [], ty := 41, cls := 0, ttl := 0,
    rd := .opt 4096 0 0 true [.cookie ck8 (some (List.replicate 32 9)), .padding 0, .ecs 1 0 0 [0, 0, 0, 0]] }

set_option maxRecDepth 8192 in
private theorem exOptAt : RRAt exOpt true 0 exOptVal 67 :=
  .opt (e := 1) (rdlen := 56) (rootAt0 _ _ (by decide)) (by decide) (by decide) (by decide) (by decide) (by bdec)
    (.opt rfl
      (.cons (.cookie (by decide) (by intro s hs; cases hs; simp) (by bdec)) (by decide)
        (.cons (.padding (by decide) (by bdec)) (by decide)
          (.cons (.ecs (len := 4) (by bdec) (by decide) (by decide) (by bdec) (by decide) (by decide)
              ⟨.inl rfl, rfl, by decide, by bdec, by decide, by decide,
                ((checkPrefix_ok_iff _ _).mp rfl).2⟩) (by decide) .nil))))

example : ∃ c, decodeRR exOpt = .ok (exOptVal, { buf := exOpt, off := 67, lim := 67, cost := c }) :=
  decodeRR_complete exOptAt (by decide +kernel)

/-- SVCB with the parameters in the wire order port (3), alpn (1): the value is sorted by key -/
private def exSvcb : Bytes :=
  [0, 0, 64, 0, 1, 0, 0, 0, 60, 0, 16, 0, 1, 0, 0, 3, 0, 2, 1, 187, 0, 1, 0, 3, 2, 104, 50]

private def exSvcbVal : RR :=
  { name := [], ty := 64, cls := 1, ttl := 60, rd := .svcb 1 [] [.alpn [[104, 50]], .port 443] }

private theorem exSvcbAt : RRAt exSvcb true 0 exSvcbVal 27 :=
  .normal (e := 1) (rdlen := 16) (by decide) (rootAt0 _ _ (by decide)) (by decide) (by decide) (by decide) (by decide)
    ⟨by decide, rfl⟩ (by bdec)
    (.svcbService (https := false) (e := 14) (wire := [.port 443, .alpn [[104, 50]]]) rfl (by decide) (by decide)
      (by bdec) ⟨0, .root (by decide), by decide, by simp, by simp⟩ (by decide)
      (.cons (.mk (len := 2) (by decide) (by bdec) (.port (by decide) (by bdec) rfl)) (by decide)
        (.cons (.mk (len := 3) (by decide) (by bdec)
            (.alpn (.cons (e := 27) (by decide) ⟨by decide, by decide, by bdec, by decide⟩ (by decide) (by decide)
              .nil)))
          (by decide) .nil))
      (List.Perm.swap _ _ []) ⟨by decide, trivial⟩)

example : ∃ c, decodeRR exSvcb = .ok (exSvcbVal, { buf := exSvcb, off := 27, lim := 27, cost := c }) :=
  decodeRR_complete exSvcbAt (by simp [exSvcb])

/-! ## The boundary cases named by C04, evaluated through the public entry points -/

/-- success with this value and this final cursor -/
def okWith {α : Type} [BEq α] (r : Except DErr (α × D)) (v : α) (off : Nat) : Bool :=
  match r with
  | .ok (a, d) => a == v && d.off == off
  | .error _ => false

/-- failure with this error -/
def errWith {α : Type} (r : Except DErr (α × D)) (e : DErr) : Bool :=
  match r with
  | .ok _ => false
  | .error e' => e' == e

theorem errWith_eq {α : Type} {r : Except DErr (α × D)} {e : DErr} (h : errWith r e = true) : r = .error e := by
  cases r with
  | ok _ => simp [errWith] at h
  | error e' => simp only [errWith, beq_iff_eq] at h; rw [h]

private def a61 : Bytes := List.replicate 61 97
private def a62 : Bytes := List.replicate 62 97
private def a63 : Bytes := List.replicate 63 97

-- a 63-octet label is accepted, 64 is rejected
example : okWith (decodeName (63 :: a63 ++ [0])) [a63] 65 = true := by decide +kernel
example : errWith (decodeName (64 :: List.replicate 64 97 ++ [0])) .labelLength = true := by decide +kernel

-- a 255-octet name (`Name.sz = 254`) is accepted, 256 octets are rejected
private def n255 : Bytes := 63 :: a63 ++ (63 :: a63 ++ (63 :: a63 ++ (61 :: a61 ++ [0])))
private def n256 : Bytes := 63 :: a63 ++ (63 :: a63 ++ (63 :: a63 ++ (62 :: a62 ++ [0])))
example : n255.length = 255 ∧ Name.sz [a63, a63, a63, a61] = 254 ∧ n256.length = 256 := by decide +kernel
example : okWith (decodeName n255) [a63, a63, a63, a61] 255 = true := by decide +kernel
example : errWith (decodeName n256) .nameLength = true := by decide +kernel

-- a pointer to the largest target offset 0x3FFF
private def p3fff : Bytes := [0xFF, 0xFF] ++ List.replicate 0x3FFD 7 ++ [0]
example : p3fff.length = 0x4000 ∧ ptrOff 0xFF 0xFF = 0x3FFF := by decide +kernel
example : okWith (decodeName p3fff) [] 2 = true := by decide +kernel

/-- `k` forward pointers (at 0, 2, …), each to the next one, then the root octet -/
def ptrChain (k : Nat) : Bytes := (List.range k).flatMap (fun i => [0xC0, UInt8.ofNat (2 * (i + 1))]) ++ [0]

-- 17 hops are accepted, 18 are rejected (`nameRec`'s `seen.length + 1 > 16`)
example : okWith (decodeName (ptrChain 17)) [] 2 = true := by decide +kernel
theorem ptrChain18_rejected : decodeName (ptrChain 18) = .error .maxRecursion :=
  errWith_eq (by decide +kernel)

private theorem chainStep {buf : Bytes} {off : Nat} {b : UInt8} {h e : Nat} (h1 : buf[off]? = some 0xC0)
    (h2 : buf[off + 1]? = some b) (hr : NameAt buf false b.toNat [] h e) : NameAt buf false off [] (h + 1) (off + 2) :=
  .ptr (a := 0xC0) (b := b) h1 (by decide) h2 (by simp) (by simpa [ptrOff] using hr)

/-- … and the grammar agrees: the 17-hop chain IS a name reference (17 = `maxHops false`) … -/
theorem ptrChain17_at : NameRefAt (ptrChain 17) false 0 [] 2 :=
  ⟨17,
    (chainStep (off := 0) (b := 2) (by decide) (by decide)
      (chainStep (off := 2) (b := 4) (by decide) (by decide)
      (chainStep (off := 4) (b := 6) (by decide) (by decide)
      (chainStep (off := 6) (b := 8) (by decide) (by decide)
      (chainStep (off := 8) (b := 10) (by decide) (by decide)
      (chainStep (off := 10) (b := 12) (by decide) (by decide)
      (chainStep (off := 12) (b := 14) (by decide) (by decide)
      (chainStep (off := 14) (b := 16) (by decide) (by decide)
      (chainStep (off := 16) (b := 18) (by decide) (by decide)
      (chainStep (off := 18) (b := 20) (by decide) (by decide)
      (chainStep (off := 20) (b := 22) (by decide) (by decide)
      (chainStep (off := 22) (b := 24) (by decide) (by decide)
      (chainStep (off := 24) (b := 26) (by decide) (by decide)
      (chainStep (off := 26) (b := 28) (by decide) (by decide)
      (chainStep (off := 28) (b := 30) (by decide) (by decide)
      (chainStep (off := 30) (b := 32) (by decide) (by decide)
      (chainStep (off := 32) (b := 34) (by decide) (by decide)
      (.root (by decide))))))))))))))))))),
    by decide, by simp, by simp⟩

/-- … while the 18-hop chain is not (by completeness: the decoder rejects it) -/
theorem ptrChain18_not_at : ¬ ∃ n e, NameRefAt (ptrChain 18) false 0 n e := by
  rintro ⟨n, e, h⟩
  obtain ⟨c, hc⟩ := decodeName_complete h (by decide +kernel)
  rw [ptrChain18_rejected] at hc
  cases hc

/-- an OPT record (payload 4096) around the option octets `o` -/
private def optRR (o : Bytes) : Bytes := [0, 0, 41, 0x10, 0, 0, 0, 0, 0] ++ beBytes 2 o.length ++ o
private def optVal (opts : List EdnsOpt) : RR :=
  { name := [], ty := 41, cls := 0, ttl := 0, rd := .opt 4096 0 0 false opts }

-- cookies: 8 + 32 = 40 octets accepted, 41 rejected; 8 accepted, 9 rejected
example : okWith (decodeRR (optRR ([0, 10, 0, 40] ++ ck8 ++ List.replicate 32 9)))
    (optVal [.cookie ck8 (some (List.replicate 32 9))]) 55 = true := by decide +kernel
example : errWith (decodeRR (optRR ([0, 10, 0, 41] ++ ck8 ++ List.replicate 33 9))) .cookieLength = true := by
  decide +kernel
example : okWith (decodeRR (optRR ([0, 10, 0, 8] ++ ck8))) (optVal [.cookie ck8 none]) 23 = true := by
  decide +kernel
example : errWith (decodeRR (optRR ([0, 10, 0, 9] ++ ck8 ++ [9]))) .cookieLength = true := by decide +kernel
-- zero-length padding
example : okWith (decodeRR (optRR [0, 12, 0, 0])) (optVal [.padding 0]) 15 = true := by decide +kernel
-- a /0 ECS with no address octets
example : okWith (decodeRR (optRR [0, 8, 0, 4, 0, 1, 0, 0])) (optVal [.ecs 1 0 0 [0, 0, 0, 0]]) 19 = true := by
  decide +kernel
-- an empty NULL RDATA
example : okWith (decodeRR exNull) { name := [], ty := 10, cls := 1, ttl := 60, rd := .fields [.bytes []] } 11
    = true := by decide +kernel
-- empty SvcParam values (`mandatory` with no keys, `no-default-alpn`, an unregistered key)
example : okWith (decodeRR [0, 0, 64, 0, 1, 0, 0, 0, 60, 0, 15, 0, 1, 0, 0, 7, 0, 0, 0, 2, 0, 0, 0, 0, 0, 0])
    { name := [], ty := 64, cls := 1, ttl := 60, rd := .svcb 1 [] [.mandatory [], .noDefaultAlpn, .priv 7 []] } 26
    = true := by decide +kernel
-- a duplicated SvcParam key is rejected (so `keysSorted` + `Perm` is exactly the right side condition)
example : errWith (decodeRR [0, 0, 64, 0, 1, 0, 0, 0, 60, 0, 11, 0, 1, 0, 0, 2, 0, 0, 0, 2, 0, 0])
    (.svcbDuplicateKey 2) = true := by decide +kernel

end Examples

end Complete
