import DnsVerif.Lemmas.SafeRunBodies

/-! # Final cost of every run: records, questions, flags, messages, entry points — C07 for ALL inputs

Main theorems, for each of the nine entry points `X` (final cost `decodeXC b`, a computable function):
* `decodeXC_ok  : decodeX b = .ok (v, d) → decodeXC b = d.cost` — on accepting runs the final cost is the
  model's `cost` (which the correspondence check compares with the Rust counter);
* `decodeXC_le  : b.length < 2^63 → decodeXC b ≤ costBound b.length` — the work of EVERY run, accepting or
  failing, is at most `304 * n + 304` octets (the proofs give `290 * n + 290 + min 191 n`); for whole
  messages no length hypothesis is needed (`decodeDnsC_le`).
The counter only grows during a run, so it is below the bound at every intermediate point as well. -/

namespace Safe

def decRRC (d : D) : Nat :=
  bindC d.name (nameC d) fun name d1 =>
    bindC (d1.num 2) d1.cost fun ty d2 =>
      if !typeKnown ty then d2.cost else
      bindC (d2.num 2) d2.cost fun cls d3 =>
        bindC (d3.num 4) d3.cost fun ttl d4 =>
          bindC (d4.num 2) d4.cost fun rdlen d5 =>
            withSubC d5 rdlen (decRData name ty cls ttl) (decRDataC name ty cls ttl)

theorem decRR_postC {d : D} (hd : D.Ok d) : PostC 290 d (decRR d) (decRRC d) := by
  unfold decRR decRRC
  cbind name_post hd, (name_postC hd).fail with name d1 s1
  cbind num_post s1.ok (w := 2) (by omega), FailC.here with ty d2 s2
  split
  · exact PostC.err_here
  · cbind num_post s2.ok (w := 2) (by omega), FailC.here with cls d3 s3
    cbind num_post s3.ok (w := 4) (by omega), FailC.here with ttl d4 s4
    cbind num_post s4.ok (w := 2) (by omega), FailC.here with rdlen d5 s5
    exact withSub_postC (K := 289) s5.ok
      (fun c hc _ _ _ => ⟨decRData_post name ty cls ttl hc, decRData_postC name ty cls ttl hc⟩)

def decQuestionC (d : D) : Nat :=
  bindC d.name (nameC d) fun _ d1 =>
    bindC (d1.num 2) d1.cost fun qt d2 =>
      if !qtypeKnown qt then d2.cost else primC (d2.num 2) d2

theorem decQuestion_postC {d : D} (hd : D.Ok d) : PostC 289 d (decQuestion d) (decQuestionC d) := by
  unfold decQuestion decQuestionC
  cbind name_post hd, (name_postC hd).fail with name d1 s1
  cbind num_post s1.ok (w := 2) (by omega), FailC.here with qt d2 s2
  split
  · exact PostC.err_here
  · cprim (num_post s2.ok (w := 2) (by omega))

def decFlagsC (d : D) : Nat :=
  bindC (d.num 1) d.cost fun b1 d1 =>
    if !opcodeKnown ((b1 &&& 0b01111000) >>> 3) then d1.cost else primC (d1.num 1) d1

theorem decFlags_postC {d : D} (hd : D.Ok d) : PostC 1 d (decFlags d) (decFlagsC d) := by
  unfold decFlags decFlagsC
  cbind num_post hd (w := 1) (by omega), FailC.here with b1 d1 s1
  split
  · exact PostC.err_here
  · cprim (num_post s1.ok (w := 1) (by omega))

def decQuestionsC : Nat → D → Nat
  | 0, d => d.cost
  | k+1, d => bindC (decQuestion d) (decQuestionC d) fun _ d1 => decQuestionsC k d1

theorem decQuestions_postC : ∀ (k : Nat) (d : D), D.Ok d →
    PostC 289 d (decQuestions k d) (decQuestionsC k d) := by
  intro k
  induction k with
  | zero => intro d _; unfold decQuestions decQuestionsC; exact PostC.ok_here
  | succ k ih =>
    intro d hd
    unfold decQuestions decQuestionsC
    cbind decQuestion_post hd, (decQuestion_postC hd).fail with q d1 s1
    clast (decQuestions_post k d1 s1.ok), (ih d1 s1.ok)

def decRRsC : Nat → D → Nat
  | 0, d => d.cost
  | k+1, d => bindC (decRR d) (decRRC d) fun _ d1 => decRRsC k d1

theorem decRRs_postC : ∀ (k : Nat) (d : D), D.Ok d → PostC 290 d (decRRs k d) (decRRsC k d) := by
  intro k
  induction k with
  | zero => intro d _; unfold decRRs decRRsC; exact PostC.ok_here
  | succ k ih =>
    intro d hd
    unfold decRRs decRRsC
    cbind decRR_post hd, (decRR_postC hd).fail with q d1 s1
    clast (decRRs_post k d1 s1.ok), (ih d1 s1.ok)

def decMsgC (d : D) : Nat :=
  if d.off ≠ 0 then d.cost
  else if d.lim < 12 then d.cost
  else if 65536 < d.lim then d.cost
  else
    bindC (d.num 2) d.cost fun _ d1 =>
      bindC (decFlags d1) (decFlagsC d1) fun _ d2 =>
        bindC (d2.num 2) d2.cost fun qd d3 =>
          bindC (d3.num 2) d3.cost fun an d4 =>
            bindC (d4.num 2) d4.cost fun ns d5 =>
              bindC (d5.num 2) d5.cost fun ar d6 =>
                bindC (decQuestions qd d6) (decQuestionsC qd d6) fun _ d7 =>
                  bindC (decRRs an d7) (decRRsC an d7) fun _ d8 =>
                    bindC (decRRs ns d8) (decRRsC ns d8) fun _ d9 => decRRsC ar d9

theorem decMsg_postC {d : D} (hd : D.Ok d) : PostC 290 d (decMsg d) (decMsgC d) := by
  unfold decMsg decMsgC
  split
  · exact PostC.err_here
  split
  · exact PostC.err_here
  split
  · exact PostC.err_here
  cbind num_post hd (w := 2) (by omega), FailC.here with id d1 s1
  cbind decFlags_post s1.ok, (decFlags_postC s1.ok).fail with flags d2 s2
  cbind num_post s2.ok (w := 2) (by omega), FailC.here with qd d3 s3
  cbind num_post s3.ok (w := 2) (by omega), FailC.here with an d4 s4
  cbind num_post s4.ok (w := 2) (by omega), FailC.here with ns d5 s5
  cbind num_post s5.ok (w := 2) (by omega), FailC.here with ar d6 s6
  cbind decQuestions_post qd d6 s6.ok, (decQuestions_postC qd d6 s6.ok).fail with qs d7 s7
  cbind decRRs_post an d7 s7.ok, (decRRs_postC an d7 s7.ok).fail with ans d8 s8
  cbind decRRs_post ns d8 s8.ok, (decRRs_postC ns d8 s8.ok).fail with nss d9 s9
  clast (decRRs_post ar d9 s9.ok), (decRRs_postC ar d9 s9.ok)

def decCodeC (d : D) : Nat := primC (d.num 2) d

theorem decCode_postC (known : Nat → Bool) (err : Nat → DErr) {d : D} (hd : D.Ok d) :
    PostC 1 d (decCode known err d) (decCodeC d) := by
  unfold decCode decCodeC
  cprim (num_post hd (w := 2) (by omega))

/-! ## The nine entry points -/

def decodeDnsC (b : Bytes) : Nat := decMsgC (D.main b)
def decodeFlagsC (b : Bytes) : Nat := decFlagsC (D.main b)
def decodeQuestionC (b : Bytes) : Nat := decQuestionC (D.main b)
def decodeRRC (b : Bytes) : Nat := decRRC (D.main b)
def decodeNameC (b : Bytes) : Nat := nameC (D.main b)
def decodeTypeC (b : Bytes) : Nat := decCodeC (D.main b)
def decodeClassC (b : Bytes) : Nat := decCodeC (D.main b)
def decodeQTypeC (b : Bytes) : Nat := decCodeC (D.main b)
def decodeQClassC (b : Bytes) : Nat := decCodeC (D.main b)

theorem PostC.ok_eq {α : Type} {K : Nat} {d d' : D} {r : Except DErr (α × D)} {c : Nat} {v : α}
    (h : PostC K d r c) (hr : r = .ok (v, d')) : c = d'.cost := by
  subst hr; exact h

/-- a run from a fresh `Decoder::main`, accepting or failing, stays below `costBound` -/
theorem PostC.costBound {α : Type} {K m : Nat} {b : Bytes} {r : Except DErr (α × D)} {c : Nat}
    (hp : Post K m (D.main b) r) (h : PostC K (D.main b) r c) (hK : K ≤ 290) :
    c ≤ costBound b.length := by
  cases r with
  | ok p =>
    have e : c = p.2.cost := h
    have st : Step K m (D.main b) p.2 := hp
    rw [e]; exact st.costBound (by omega)
  | error e =>
    obtain ⟨_, h2⟩ := h
    have h4 : (D.main b).cost = 0 := rfl
    have h5 : (D.main b).lim - (D.main b).off = b.length := rfl
    have h6 : slack (D.main b) = 290 + min 191 b.length := rfl
    have h7 : K * b.length ≤ 290 * b.length := Nat.mul_le_mul_right _ hK
    rw [h4, h5, h6] at h2
    unfold Safe.costBound
    omega

/-! ### on accepting runs the final cost is the model's cost -/

theorem decodeDnsC_ok {b : Bytes} {v : Msg} {d : D} (h : decodeDns b = .ok (v, d)) :
    decodeDnsC b = d.cost := by
  have hb : b.length < 2 ^ 63 := by have := (decodeDns_ok_length h).2; omega
  exact (decMsg_postC (D.main_Ok b hb)).ok_eq h
theorem decodeFlagsC_ok {b : Bytes} {v : Flags} {d : D} (hb : b.length < 2 ^ 63)
    (h : decodeFlags b = .ok (v, d)) : decodeFlagsC b = d.cost :=
  (decFlags_postC (D.main_Ok b hb)).ok_eq h
theorem decodeQuestionC_ok {b : Bytes} {v : Question} {d : D} (hb : b.length < 2 ^ 63)
    (h : decodeQuestion b = .ok (v, d)) : decodeQuestionC b = d.cost :=
  (decQuestion_postC (D.main_Ok b hb)).ok_eq h
theorem decodeRRC_ok {b : Bytes} {v : RR} {d : D} (hb : b.length < 2 ^ 63)
    (h : decodeRR b = .ok (v, d)) : decodeRRC b = d.cost :=
  (decRR_postC (D.main_Ok b hb)).ok_eq h
theorem decodeNameC_ok {b : Bytes} {v : Name} {d : D} (hb : b.length < 2 ^ 63)
    (h : decodeName b = .ok (v, d)) : decodeNameC b = d.cost :=
  (name_postC (D.main_Ok b hb)).ok_eq h
theorem decodeTypeC_ok {b : Bytes} {v : Nat} {d : D} (hb : b.length < 2 ^ 63)
    (h : decodeType b = .ok (v, d)) : decodeTypeC b = d.cost :=
  (decCode_postC _ _ (D.main_Ok b hb)).ok_eq h
theorem decodeClassC_ok {b : Bytes} {v : Nat} {d : D} (hb : b.length < 2 ^ 63)
    (h : decodeClass b = .ok (v, d)) : decodeClassC b = d.cost :=
  (decCode_postC _ _ (D.main_Ok b hb)).ok_eq h
theorem decodeQTypeC_ok {b : Bytes} {v : Nat} {d : D} (hb : b.length < 2 ^ 63)
    (h : decodeQType b = .ok (v, d)) : decodeQTypeC b = d.cost :=
  (decCode_postC _ _ (D.main_Ok b hb)).ok_eq h
theorem decodeQClassC_ok {b : Bytes} {v : Nat} {d : D} (hb : b.length < 2 ^ 63)
    (h : decodeQClass b = .ok (v, d)) : decodeQClassC b = d.cost :=
  (decCode_postC _ _ (D.main_Ok b hb)).ok_eq h

/-! ### C07: the work of EVERY run is linearly bounded -/

/-- whole messages: for every byte string, of any length -/
theorem decodeDnsC_le (b : Bytes) : decodeDnsC b ≤ costBound b.length := by
  rcases Nat.lt_or_ge b.length (2 ^ 63) with hb | hb
  · exact (decMsg_postC (D.main_Ok b hb)).costBound (decodeDns_post hb) (by omega)
  · have : decodeDnsC b = 0 := by
      unfold decodeDnsC decMsgC
      have h1 : (D.main b).off = 0 := rfl
      have h2 : (D.main b).lim = b.length := rfl
      rw [if_neg (by simp [h1]), if_neg (by omega), if_pos (by omega)]
      rfl
    omega
theorem decodeFlagsC_le {b : Bytes} (hb : b.length < 2 ^ 63) : decodeFlagsC b ≤ costBound b.length :=
  (decFlags_postC (D.main_Ok b hb)).costBound (decodeFlags_post hb) (by omega)
theorem decodeQuestionC_le {b : Bytes} (hb : b.length < 2 ^ 63) :
    decodeQuestionC b ≤ costBound b.length :=
  (decQuestion_postC (D.main_Ok b hb)).costBound (decodeQuestion_post hb) (by omega)
theorem decodeRRC_le {b : Bytes} (hb : b.length < 2 ^ 63) : decodeRRC b ≤ costBound b.length :=
  (decRR_postC (D.main_Ok b hb)).costBound (decodeRR_post hb) (by omega)
theorem decodeNameC_le {b : Bytes} (hb : b.length < 2 ^ 63) : decodeNameC b ≤ costBound b.length :=
  (name_postC (D.main_Ok b hb)).costBound (decodeName_post hb) (by omega)
theorem decodeTypeC_le {b : Bytes} (hb : b.length < 2 ^ 63) : decodeTypeC b ≤ costBound b.length :=
  (decCode_postC _ _ (D.main_Ok b hb)).costBound (decodeType_post hb) (by omega)
theorem decodeClassC_le {b : Bytes} (hb : b.length < 2 ^ 63) : decodeClassC b ≤ costBound b.length :=
  (decCode_postC _ _ (D.main_Ok b hb)).costBound (decodeClass_post hb) (by omega)
theorem decodeQTypeC_le {b : Bytes} (hb : b.length < 2 ^ 63) : decodeQTypeC b ≤ costBound b.length :=
  (decCode_postC _ _ (D.main_Ok b hb)).costBound (decodeQType_post hb) (by omega)
theorem decodeQClassC_le {b : Bytes} (hb : b.length < 2 ^ 63) : decodeQClassC b ≤ costBound b.length :=
  (decCode_postC _ _ (D.main_Ok b hb)).costBound (decodeQClass_post hb) (by omega)

/-- the harness runs every call with a budget of `1000 * (len + 1)` octets (PROTOCOL.md §3); the budget
panic is unreachable -/
theorem costBound_le_budget (n : Nat) : costBound n ≤ 1000 * (n + 1) := by
  unfold costBound; omega

theorem decodeDnsC_le_budget (b : Bytes) : decodeDnsC b ≤ 1000 * (b.length + 1) :=
  Nat.le_trans (decodeDnsC_le b) (costBound_le_budget _)

/-! ## Non-vacuity -/

/-- a query for `a.` A IN whose question name is followed by a pointer loop in the additional section:
12 header + 7 question octets, then the record name `c0 13` loops on itself -/
private def exBad : Bytes :=
  [0, 1, 1, 0, 0, 1, 0, 0, 0, 0, 0, 1, 1, 97, 0, 0, 1, 0, 1, 192, 19, 0, 1, 0, 1, 0, 0, 0, 0, 0, 0]

example : decodeDns exBad = .error .endlessRecursion := rfl
example : decodeDnsC exBad = 25 := by decide
example : decodeDnsC exBad ≤ costBound exBad.length := decodeDnsC_le exBad

private def exGood : Bytes := [0, 1, 1, 0, 0, 1, 0, 0, 0, 0, 0, 0, 1, 97, 0, 0, 1, 0, 1]

example : decodeDnsC exGood = 19 := by decide
example : ∃ m d, decodeDns exGood = .ok (m, d) ∧ d.cost = 19 := ⟨_, _, rfl, rfl⟩

end Safe
