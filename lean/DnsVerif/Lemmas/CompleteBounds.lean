import DnsVerif.Lemmas.CompleteRR

/-! # The relations of `Spec/Wire.lean` stay inside the buffer

Every octet a relation talks about exists: if a relation starts inside the buffer, it ends inside the
buffer. Consequence: `RRAt buf bk off rr e → e ≤ buf.length`, so the element entry point
`decodeRR_complete` (CompleteMsg.lean) needs no bound on `e`. -/

namespace Complete

theorem bytesAt_end_le {buf : Bytes} {o : Nat} {x : Bytes} (h : BytesAt buf o x) (ho : o ≤ buf.length) :
    o + x.length ≤ buf.length := by
  rcases Nat.eq_zero_or_pos x.length with h0 | hp
  · omega
  · exact bytesAt_le h hp

theorem CStrAt.end_le {buf : Bytes} {off e : Nat} {s : Bytes} (h : CStrAt buf off s e) : e ≤ buf.length := by
  obtain ⟨_, h2, h3, h4⟩ := h
  have := getElem?_some_lt h2
  have := bytesAt_end_le h3 (by omega)
  omega

theorem CStrsAt.end_le {buf : Bytes} {lim off : Nat} {l : List Bytes} (h : CStrsAt buf lim off l)
    (ho : off ≤ buf.length) : lim ≤ buf.length := by
  induction h with
  | nil => exact ho
  | cons _ hs _ _ _ ih => exact ih (CStrAt.end_le hs)

theorem FieldAt.end_le {buf bk lim off f v e} (h : FieldAt buf bk lim off f v e) (ho : off ≤ buf.length) :
    e ≤ buf.length := by
  cases h with
  | num _ hb _ => have := bytesAt_end_le hb ho; simpa using this
  | enum _ _ hb _ => have := bytesAt_end_le hb ho; simpa using this
  | name hn _ => exact NameRefAt.le_length hn
  | cstr hs _ _ _ => exact CStrAt.end_le hs
  | ocstrNone => exact ho
  | ocstrSome _ hs _ _ _ => exact CStrAt.end_le hs
  | strs _ hs => exact CStrsAt.end_le hs ho
  | rest hb hl _ => have := bytesAt_end_le hb ho; omega
  | oct hlen hb _ => have := bytesAt_end_le hb ho; omega

theorem FieldsAt.end_le {buf bk lim off fs vs} (h : FieldsAt buf bk lim off fs vs) (ho : off ≤ buf.length) :
    lim ≤ buf.length := by
  induction h with
  | nil => exact ho
  | cons hf _ ih => exact ih (FieldAt.end_le hf ho)

theorem PrefixAddrAt.end_le {buf : Bytes} {off k fam pfx : Nat} {addr : Bytes}
    (h : PrefixAddrAt buf off k fam pfx addr) (ho : off ≤ buf.length) : off + k ≤ buf.length := by
  obtain ⟨_, hlen, hk, hb, _⟩ := h
  have := bytesAt_end_le hb ho
  rw [List.length_take] at this
  omega

theorem OptionAt.end_le {buf : Bytes} {off e : Nat} {o : EdnsOpt} (h : OptionAt buf off o e) : e ≤ buf.length := by
  cases h with
  | ecs hb1 h4 _ hb2 _ _ hp =>
    have h1 := bytesAt_le hb1 (by simp)
    have h2 := bytesAt_le hb2 (by simp)
    simp only [List.length_append, beBytes_length] at h1 h2
    have := PrefixAddrAt.end_le hp (by omega)
    omega
  | cookie hcl _ hb =>
    have := bytesAt_le hb (by simp; omega)
    simp only [List.length_append, beBytes_length, hcl] at this
    omega
  | padding _ hb =>
    have := bytesAt_le hb (by simp; omega)
    simp only [List.length_append, beBytes_length, List.length_replicate] at this
    omega

theorem OptionsAt.end_le {buf : Bytes} {lim off : Nat} {l : List EdnsOpt} (h : OptionsAt buf lim off l)
    (ho : off ≤ buf.length) : lim ≤ buf.length := by
  induction h with
  | nil => exact ho
  | cons h1 _ _ ih => exact ih (OptionAt.end_le h1)

theorem ApItemAt.end_le {buf : Bytes} {off e : Nat} {o : APItem} (h : ApItemAt buf off o e) : e ≤ buf.length := by
  cases h with
  | mk _ _ hb hp =>
    have h1 := bytesAt_le hb (by simp)
    simp only [List.length_append, beBytes_length, List.length_cons, List.length_nil] at h1
    have := PrefixAddrAt.end_le hp (by omega)
    omega

theorem ApItemsAt.end_le {buf : Bytes} {lim off : Nat} {l : List APItem} (h : ApItemsAt buf lim off l)
    (ho : off ≤ buf.length) : lim ≤ buf.length := by
  induction h with
  | nil => exact ho
  | cons h1 _ _ ih => exact ih (ApItemAt.end_le h1)

theorem flatMap_be2_length (ks : List Nat) : (ks.flatMap (beBytes 2)).length = 2 * ks.length := by
  induction ks with
  | nil => rfl
  | cons k r ih => simp only [List.flatMap_cons, List.length_append, beBytes_length, ih, List.length_cons]; omega

theorem flatten_length_const (w : Nat) (hs : List Bytes) (h : ∀ x ∈ hs, x.length = w) :
    hs.flatten.length = w * hs.length := by
  induction hs with
  | nil => rfl
  | cons x r ih =>
    simp only [List.flatten_cons, List.length_append, List.length_cons, Nat.mul_succ]
    rw [ih (fun y hy => h y (by simp [hy])), h x (by simp)]
    omega

theorem SvcValueAt.end_le {buf : Bytes} {lim off : Nat} {p : SvcParam} (h : SvcValueAt buf lim off p)
    (ho : off ≤ buf.length) : lim ≤ buf.length := by
  cases h with
  | mandatory _ hb hl => have := bytesAt_end_le hb ho; rw [flatMap_be2_length] at this; omega
  | alpn hs => exact CStrsAt.end_le hs ho
  | noDefaultAlpn => exact ho
  | port _ hb hl => have := bytesAt_end_le hb ho; simp only [beBytes_length] at this; omega
  | ipv4hint hlen hb hl => have := bytesAt_end_le hb ho; rw [flatten_length_const 4 _ hlen] at this; omega
  | ech hb _ hl =>
    have := bytesAt_end_le hb ho
    simp only [List.length_append, beBytes_length] at this; omega
  | ipv6hint hlen hb hl => have := bytesAt_end_le hb ho; rw [flatten_length_const 16 _ hlen] at this; omega
  | priv _ _ hb hl => have := bytesAt_end_le hb ho; omega
  | key65535 => exact ho

theorem SvcParamAt.end_le {buf : Bytes} {off e : Nat} {p : SvcParam} (h : SvcParamAt buf off p e) :
    e ≤ buf.length := by
  cases h with
  | mk _ hb hv =>
    have h1 := bytesAt_le hb (by simp)
    simp only [List.length_append, beBytes_length] at h1
    exact SvcValueAt.end_le hv (by omega)

theorem SvcParamsAt.end_le {buf : Bytes} {lim off : Nat} {l : List SvcParam} (h : SvcParamsAt buf lim off l)
    (ho : off ≤ buf.length) : lim ≤ buf.length := by
  induction h with
  | nil => exact ho
  | cons h1 _ _ ih => exact ih (SvcParamAt.end_le h1)

theorem RDataAt.end_le {buf bk lim ty off rd} (h : RDataAt buf bk lim ty off rd) (ho : off ≤ buf.length) :
    lim ≤ buf.length := by
  cases h with
  | regular _ hf => exact FieldsAt.end_le hf ho
  | opt _ h1 => exact OptionsAt.end_le h1 ho
  | apl _ h1 => exact ApItemsAt.end_le h1 ho
  | svcbAlias _ _ hn => exact NameRefAt.le_length hn
  | svcbService _ _ _ _ hn _ hps _ _ => exact SvcParamsAt.end_le hps (NameRefAt.le_length hn)

/-- a record of the grammar lies inside the buffer -/
theorem RRAt.end_le {buf bk off rr e} (h : RRAt buf bk off rr e) : e ≤ buf.length := by
  cases h with
  | normal _ hn _ _ _ _ _ hb hrd =>
    have h1 := bytesAt_le hb (by simp)
    simp only [List.length_append, beBytes_length] at h1
    exact RDataAt.end_le hrd (by omega)
  | opt hn _ _ _ _ hb hrd =>
    have h1 := bytesAt_le hb (by simp)
    simp only [List.length_append, beBytes_length] at h1
    exact RDataAt.end_le hrd (by omega)

theorem RRsAt.end_le {buf bk off rs e} (h : RRsAt buf bk off rs e) (ho : off ≤ buf.length) : e ≤ buf.length := by
  induction h with
  | nil => exact ho
  | cons h1 _ ih => exact ih (RRAt.end_le h1)

end Complete
