import DnsVerif.Lemmas.ApiMachines
import DnsVerif.Lemmas.SoundMsg

/-! # Remaining validated value types of C12: `Label`, decoded names, `NonEmptyVec` (TXT), cookie bounds

Helper lemmas for `Props/C12.lean`:

* `parseLabel_spec` / `label_ok_iff` / `label_err_kinds` — `Label::try_from` accepts exactly 1..=63 octets;
* `cookie_run_server_bound` — the server cookie of every reachable `Cookie` has 8..=32 octets;
* `name_run_labels`, `name_run_wire` — labels and wire length of every name built by `append_label`;
* `name_labels_of_dec`, `decodeName_labels` — the same for every name the decoder returns;
* `txt_field_nonempty`, `decFields_strs`, `decRData_txt`, `decRR_inv`, `decodeRR_txt_nonempty` — a decoded TXT
  record carries a non-empty list (the crate's `NonEmptyVec`); proved by inversion of the model decoder, so no
  size hypothesis on the buffer is needed; `rrAt_txt_nonempty` / `msg_txt_nonempty` state the same on the
  grammar and for every record of an accepted message. -/

namespace ApiExtra

/-! ## `Label::try_from` -/

/-- closed form of `Label::try_from` -/
theorem parseLabel_spec (s : Bytes) :
    parseLabel s =
      if s.length = 0 then .error .labelEmpty
      else if 64 ≤ s.length then .error .labelLength
      else .ok s := by
  unfold parseLabel checkLabel
  by_cases h0 : s.length = 0
  · simp [h0]
  · by_cases h1 : s.length < 64
    · have h2 : ¬ 64 ≤ s.length := by omega
      simp [h0, h1, h2]
    · have h2 : 64 ≤ s.length := by omega
      simp [h0, h1, h2]

theorem label_ok_iff (s l : Bytes) : parseLabel s = .ok l ↔ l = s ∧ 1 ≤ s.length ∧ s.length ≤ 63 := by
  rw [parseLabel_spec]
  by_cases h0 : s.length = 0
  · simp only [if_pos h0]
    constructor
    · intro h; cases h
    · rintro ⟨_, h1, _⟩; omega
  · simp only [if_neg h0]
    by_cases h2 : 64 ≤ s.length
    · simp only [if_pos h2]
      constructor
      · intro h; cases h
      · rintro ⟨_, _, h3⟩; omega
    · simp only [if_neg h2]
      constructor
      · intro h
        injection h with h
        exact ⟨h.symm, by omega, by omega⟩
      · rintro ⟨rfl, _, _⟩; rfl

theorem label_err_kinds (s : Bytes) (e : DErr) (h : parseLabel s = .error e) :
    (e = .labelEmpty ∧ s.length = 0) ∨ (e = .labelLength ∧ 64 ≤ s.length) := by
  rw [parseLabel_spec] at h
  by_cases h0 : s.length = 0
  · simp only [if_pos h0] at h
    injection h with h
    exact .inl ⟨h.symm, h0⟩
  · simp only [if_neg h0] at h
    by_cases h2 : 64 ≤ s.length
    · simp only [if_pos h2] at h
      injection h with h
      exact .inr ⟨h.symm, h2⟩
    · simp only [if_neg h2] at h
      cases h

/-- `Label::try_from` is total and never panics -/
theorem label_no_panic (s : Bytes) (x : String) : parseLabel s ≠ .error (.panic x) := by
  intro h
  rcases label_err_kinds s _ h with ⟨h1, _⟩ | ⟨h1, _⟩ <;> cases h1

/-! ## Cookie -/

/-- every server cookie reachable from a successful `Cookie::new` has 8..=32 octets -/
theorem cookie_run_server_bound {client : Bytes} {server : Option Bytes} {s : Cookie}
    (h : Cookie.new client server = .ok s) (ops : List CookieOp) (v : Bytes)
    (hv : (s.run ops).server = some v) : 8 ≤ v.length ∧ v.length ≤ 32 :=
  Cookie.reachable_from_new h ops v hv

/-- the client cookie is never touched by the server-cookie setter and is replaced by `setClient` only -/
theorem cookie_step_client (s : Cookie) (op : CookieOp) :
    (s.step op).1.client = match op with
      | .setClient c => c
      | .setServer _ => s.client := by
  cases op with
  | setClient c => rfl
  | setServer v =>
    cases v with
    | none => rfl
    | some v => simp only [Cookie.step]; split <;> rfl

/-- the client cookie is `[u8; 8]` in the crate (a type-level fact; the model stores an octet list): as long as
the constructor and every `client_cookie = …` assignment are given 8 octets, the client cookie has 8 octets -/
theorem cookie_run_client_len (s : Cookie) (ops : List CookieOp) (h : s.client.length = 8)
    (hops : ∀ c, CookieOp.setClient c ∈ ops → c.length = 8) : (s.run ops).client.length = 8 := by
  unfold Cookie.run
  induction ops generalizing s with
  | nil => exact h
  | cons op ops ih =>
    refine ih _ ?_ (fun c hc => hops c (List.mem_cons_of_mem _ hc))
    rw [cookie_step_client]
    cases op with
    | setClient c => exact hops c (List.mem_cons_self ..)
    | setServer v => exact h

/-- a decoded cookie option: client cookie of exactly 8 octets, server cookie absent or 8..=32 octets -/
theorem decCookie_valid {c c' : D} {o : EdnsOpt} (hc : D.Ok c) (h : decCookie c = .ok (o, c')) :
    ∃ client server, o = .cookie client server ∧ client.length = 8 ∧
      ∀ s, server = some s → 8 ≤ s.length ∧ s.length ≤ 32 := by
  obtain ⟨client, server, h1, h2, h3, _⟩ := Sound.decCookie_sound hc h
  exact ⟨client, server, h1, h2, h3⟩

/-! ## Names built by `append_label` -/

theorem name_run_labels (ls : List Bytes) : ∀ l ∈ DomainName.run [] ls, 1 ≤ l.length ∧ l.length ≤ 63 :=
  (DomainName.reachable_from_root ls).1

theorem name_run_wire (ls : List Bytes) : (Name.wire (DomainName.run [] ls)).length ≤ 255 :=
  ((DomainName.inv_iff_wire _).mp (DomainName.reachable_from_root ls)).2

/-! ## Names returned by the decoder -/

/-- every name the name decoder returns, from any decoder state -/
theorem name_labels_of_dec {d d' : D} {n : Name} (h : d.name = .ok (n, d')) :
    (∀ l ∈ n, 1 ≤ l.length ∧ l.length ≤ 63) ∧ (Name.wire n).length ≤ 255 := by
  obtain ⟨_, _, _, _, _, _, _, hsz, hwf, _, _⟩ := _root_.name_sound h
  exact ⟨hwf, by rw [wire_len]; omega⟩

theorem decodeName_labels {b : Bytes} {n : Name} {d : D} (h : decodeName b = .ok (n, d)) :
    (∀ l ∈ n, 1 ≤ l.length ∧ l.length ≤ 63) ∧ (Name.wire n).length ≤ 255 :=
  name_labels_of_dec h

/-- a decoded name satisfies the invariant of the `append_label` state machine -/
theorem decodeName_inv {b : Bytes} {n : Name} {d : D} (h : decodeName b = .ok (n, d)) : DomainName.Inv n :=
  (DomainName.inv_iff_wire n).mpr (decodeName_labels h)

/-! ## TXT: `NonEmptyVec` -/

/-- the `.strs` field reader never returns an empty list -/
theorem txt_field_nonempty {d d' : D} {v : FVal} (h : decField d .strs = .ok (v, d')) :
    ∃ l, v = .strs l ∧ l ≠ [] := by
  simp only [decField] at h
  cases hc : D.cstrs (d.lim - d.off + 1) d with
  | error e => simp [hc] at h
  | ok p =>
    obtain ⟨l, d1⟩ := p
    simp only [hc] at h
    cases l with
    | nil => simp at h
    | cons a r =>
      simp only [List.isEmpty_cons] at h
      injection h with h
      injection h with hv _
      exact ⟨a :: r, hv.symm, by simp⟩

/-- an empty list of strings is reported as `txtEmpty` -/
theorem txt_field_empty_err {d d1 : D} (hc : D.cstrs (d.lim - d.off + 1) d = .ok ([], d1)) :
    decField d .strs = .error .txtEmpty := by
  simp [decField, hc]

theorem decFields_strs {d d' : D} {vs : List FVal} (h : decFields d [.strs] = .ok (vs, d')) :
    ∃ l, vs = [.strs l] ∧ l ≠ [] := by
  simp only [decFields] at h
  cases hf : decField d .strs with
  | error e => simp [hf] at h
  | ok p =>
    obtain ⟨v, d1⟩ := p
    simp only [hf] at h
    injection h with h
    injection h with hv _
    obtain ⟨l, rfl, hl⟩ := txt_field_nonempty hf
    exact ⟨l, hv.symm, hl⟩

theorem rrKind_16 : rrKind 16 = some (.regular ⟨"TXT", none, [("strings", .strs)]⟩) := rfl

/-- the body of a TXT record -/
theorem decRData_txt {name : Name} {cls ttl : Nat} {c c' : D} {rr : RR}
    (h : decRData name 16 cls ttl c = .ok (rr, c')) :
    ∃ l, rr.rd = .fields [.strs l] ∧ l ≠ [] := by
  unfold decRData at h
  simp only [rrKind_16] at h
  cases hk : checkClass cls none with
  | error e => simp [hk] at h
  | ok u =>
    simp only [hk] at h
    cases hf : decFields c [.strs] with
    | error e =>
      simp only [List.map] at h
      simp [hf] at h
    | ok p =>
      obtain ⟨vs, c1⟩ := p
      simp only [List.map] at h
      simp only [hf] at h
      injection h with h
      injection h with hr _
      obtain ⟨l, rfl, hl⟩ := decFields_strs hf
      exact ⟨l, by rw [← hr], hl⟩

/-- the record body decoder stores the type code it was given -/
theorem decRData_ty {name : Name} {ty cls ttl : Nat} {c c' : D} {rr : RR}
    (h : decRData name ty cls ttl c = .ok (rr, c')) : rr.ty = ty := by
  unfold decRData at h
  split at h
  · cases h
  · split at h
    · cases h
    · split at h
      · cases h
      · injection h with h; injection h with hr _; rw [← hr]
  · split at h
    · cases h
    · split at h
      · cases h
      · split at h
        · cases h
        · injection h with h; injection h with hr _; rw [← hr]
  · split at h
    · cases h
    · split at h
      · cases h
      · injection h with h; injection h with hr _; rw [← hr]
  · split at h
    · cases h
    · split at h
      · cases h
      · split at h
        · cases h
        · split at h
          · injection h with h; injection h with hr _; rw [← hr]
          · split at h
            · cases h
            · injection h with h; injection h with hr _; rw [← hr]

/-- an accepted record is the result of the body decoder on some window -/
theorem decRR_inv {d d' : D} {rr : RR} (h : decRR d = .ok (rr, d')) :
    ∃ name ty cls ttl c c', decRData name ty cls ttl c = .ok (rr, c') := by
  unfold decRR at h
  cases h1 : d.name with
  | error e => simp [h1] at h
  | ok p1 =>
    obtain ⟨name, d1⟩ := p1
    simp only [h1] at h
    cases h2 : d1.num 2 with
    | error e => simp [h2] at h
    | ok p2 =>
      obtain ⟨ty, d2⟩ := p2
      simp only [h2] at h
      split at h
      · cases h
      · cases h3 : d2.num 2 with
        | error e => simp [h3] at h
        | ok p3 =>
          obtain ⟨cls, d3⟩ := p3
          simp only [h3] at h
          cases h4 : d3.num 4 with
          | error e => simp [h4] at h
          | ok p4 =>
            obtain ⟨ttl, d4⟩ := p4
            simp only [h4] at h
            cases h5 : d4.num 2 with
            | error e => simp [h5] at h
            | ok p5 =>
              obtain ⟨rdlen, d5⟩ := p5
              simp only [h5] at h
              obtain ⟨_, c, hc, _, _⟩ := withSub_ok h
              exact ⟨name, ty, cls, ttl, _, c, hc⟩

/-- **a decoded TXT record holds a non-empty list of strings** (no hypothesis on the buffer size) -/
theorem decRR_txt_nonempty {d d' : D} {rr : RR} (h : decRR d = .ok (rr, d')) (hty : rr.ty = 16) :
    ∃ l, rr.rd = .fields [.strs l] ∧ l ≠ [] := by
  obtain ⟨name, ty, cls, ttl, c, c', hc⟩ := decRR_inv h
  have := decRData_ty hc
  rw [hty] at this
  subst this
  exact decRData_txt hc

theorem decodeRR_txt_nonempty {b : Bytes} {rr : RR} {d : D} (h : decodeRR b = .ok (rr, d)) (hty : rr.ty = 16) :
    ∃ l, rr.rd = .fields [.strs l] ∧ l ≠ [] := decRR_txt_nonempty h hty

theorem fieldsAt_strs {buf : Bytes} {bk : Bool} {lim off : Nat} {vs : List FVal}
    (h : FieldsAt buf bk lim off [.strs] vs) : ∃ l, vs = [.strs l] ∧ l ≠ [] := by
  cases h with
  | cons h1 h2 =>
    cases h1 with
    | strs hl _ =>
      cases h2
      exact ⟨_, rfl, hl⟩

theorem rdataAt_txt {buf : Bytes} {bk : Bool} {lim off : Nat} {rd : RData}
    (h : RDataAt buf bk lim 16 off rd) : ∃ l, rd = .fields [.strs l] ∧ l ≠ [] := by
  cases h with
  | regular hk hf =>
    rw [rrKind_16] at hk
    injection hk with hk
    injection hk with hk
    subst hk
    obtain ⟨l, rfl, hl⟩ := fieldsAt_strs hf
    exact ⟨l, rfl, hl⟩
  | opt hk => rw [rrKind_16] at hk; cases hk
  | apl hk => rw [rrKind_16] at hk; cases hk
  | svcbAlias hk => rw [rrKind_16] at hk; cases hk
  | svcbService hk => rw [rrKind_16] at hk; cases hk

/-- the same on the grammar: a TXT record of `RRAt` has a non-empty list -/
theorem rrAt_txt_nonempty {buf : Bytes} {bk : Bool} {off e : Nat} {rr : RR} (h : RRAt buf bk off rr e)
    (hty : rr.ty = 16) : ∃ l, rr.rd = .fields [.strs l] ∧ l ≠ [] := by
  obtain ⟨name, ty, cls, ttl, rd⟩ := rr
  simp only at hty
  subst hty
  cases h with
  | normal _ _ _ _ _ _ _ _ hrd => exact rdataAt_txt hrd

/-- every TXT record of an accepted message holds a non-empty list -/
theorem msg_txt_nonempty {b : Bytes} {m : Msg} {d : D} (h : decodeDns b = .ok (m, d)) :
    ∀ rr ∈ Sound.Msg.rrs m, rr.ty = 16 → ∃ l, rr.rd = .fields [.strs l] ∧ l ≠ [] := by
  intro rr hm hty
  obtain ⟨_, _, hr⟩ := Sound.msgAt_rr_mem (Sound.decodeDns_sound h) hm
  exact rrAt_txt_nonempty hr hty

end ApiExtra
