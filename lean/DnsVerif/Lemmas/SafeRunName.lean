import DnsVerif.Lemmas.SafeRunCore

/-! # Final cost of a name expansion, failing expansions included

Potential argument: every accepted label of `len` octets costs `len + 1` and adds `len + 1` to the name
size, which `append_label` keeps below 255; every pointer followed costs 2 and adds an entry to the
visited set, which is limited to 16 entries (17 with the first pointer, which is followed inside the
window). The step that fails has handed out at most one more label: a length octet below 192 (so not a
pointer) whose octets were inside the buffer. -/

namespace Safe

/-- final cost of `domain_name_label`: the label octets are handed out before the label is checked -/
def nameLabelC (d : D) (name : Name) (len : UInt8) : Nat :=
  match d.read len.toNat with
  | .error _ => d.cost
  | .ok (lab, d1) =>
    if !validUtf8 lab then d1.cost else
    match checkLabel lab with
    | .error _ => d1.cost
    | .ok () =>
      match appendLabel name lab with
      | .error _ => d1.cost
      | .ok _ => primC d1.u8 d1

/-- final cost of `domain_name_recursion` -/
def nameRecC : Nat → D → Name → List Nat → UInt8 → Nat
  | 0, d, _, _, _ => d.cost
  | fuel+1, d, name, seen, len =>
    if len = 0 then d.cost
    else if isPtr len then
      match d.u8 with
      | .error _ => d.cost
      | .ok (b, d1) =>
        if seen.contains (ptrOff len b) then d1.cost
        else if seen.length + 1 > 16 then d1.cost
        else
          match ({ d1 with off := ptrOff len b } : D).u8 with
          | .error _ => d1.cost
          | .ok (l, d2) => nameRecC fuel d2 name (ptrOff len b :: seen) l
    else
      match d.nameLabel name len with
      | .error _ => nameLabelC d name len
      | .ok (l, name, d1) => nameRecC fuel d1 name seen l

/-- final cost of the `domain_name` loop inside the window -/
def nameWinC : Nat → D → Name → UInt8 → Nat
  | 0, d, _, _ => d.cost
  | fuel+1, d, name, len =>
    if len = 0 then d.cost
    else if isPtr len then
      match d.u8 with
      | .error _ => d.cost
      | .ok (b, d1) =>
        match (D.mk d1.buf (ptrOff len b) d1.buf.length d1.cost).u8 with
        | .error _ => d1.cost
        | .ok (l, dm) => nameRecC 200 dm name [] l
    else
      match d.nameLabel name len with
      | .error _ => nameLabelC d name len
      | .ok (l, name, d1) => nameWinC fuel d1 name l

/-- final cost of `Decoder::domain_name` -/
def nameC (d : D) : Nat := bindC d.u8 d.cost fun l d1 => nameWinC 200 d1 [] l

/-! ## The label step -/

/-- a failing label step has handed out at most the label: `len` octets that exist in the buffer -/
theorem nameLabelC_err {d : D} {name : Name} {len : UInt8} {e : DErr} (hlim : d.lim ≤ d.buf.length)
    (h : d.nameLabel name len = .error e) :
    d.cost ≤ nameLabelC d name len ∧ nameLabelC d name len ≤ d.cost + min len.toNat d.buf.length := by
  unfold D.nameLabel at h
  unfold nameLabelC
  cases hr : d.read len.toNat with
  | error e' => dsimp only; exact ⟨Nat.le_refl _, by omega⟩
  | ok p =>
    obtain ⟨lab, d1⟩ := p
    simp only [hr] at h
    obtain ⟨r1, _, _, r4⟩ := read_ok hr
    have hc : d1.cost = d.cost + len.toNat := by rw [r4]
    dsimp only
    split
    · exact ⟨by omega, by omega⟩
    · rename_i hu
      simp only [hu] at h
      cases hcl : checkLabel lab with
      | error e' => dsimp only; exact ⟨by omega, by omega⟩
      | ok u =>
        simp only [hcl] at h
        dsimp only
        cases ha : appendLabel name lab with
        | error e' => dsimp only; exact ⟨by omega, by omega⟩
        | ok nm =>
          simp only [ha] at h
          dsimp only
          cases hu8 : d1.u8 with
          | error e' => dsimp only [primC]; exact ⟨by omega, by omega⟩
          | ok q => simp [hu8] at h

theorem nameLabelC_ok {d d' : D} {name name' : Name} {len nb : UInt8}
    (h : d.nameLabel name len = .ok (nb, name', d')) : nameLabelC d name len = d'.cost := by
  unfold D.nameLabel at h
  unfold nameLabelC
  cases hr : d.read len.toNat with
  | error e' => simp [hr] at h
  | ok p =>
    obtain ⟨lab, d1⟩ := p
    simp only [hr] at h
    dsimp only
    split
    · rename_i hu; simp [hu] at h
    · rename_i hu
      simp only [hu] at h
      cases hcl : checkLabel lab with
      | error e' => simp [hcl] at h
      | ok u =>
        simp only [hcl] at h
        dsimp only
        cases ha : appendLabel name lab with
        | error e' => simp [ha] at h
        | ok nm =>
          simp only [ha] at h
          dsimp only
          cases hu8 : d1.u8 with
          | error e' => simp [hu8] at h
          | ok q =>
            obtain ⟨l2, d2⟩ := q
            simp only [hu8] at h
            injection h with h; injection h with _ h; injection h with _ h
            subst h; rfl

theorem not_isPtr_lt {len : UInt8} (h : ¬ isPtr len = true) : len.toNat < 192 := by
  unfold isPtr at h
  simpa using h

/-! ## Second phase -/

/-- The final cost of the second phase: equal to the returned cost on success, and in every case at most
the potential `(254 - sz name) + 2 * (16 - |seen|)` plus one failing step. -/
theorem nameRecC_spec : ∀ (fuel : Nat) (d : D) (name : Name) (seen : List Nat) (len : UInt8),
    d.lim ≤ d.buf.length → Name.sz name ≤ 254 → seen.length ≤ 16 →
    (∀ r c', nameRec fuel d name seen len = .ok (r, c') → nameRecC fuel d name seen len = c') ∧
    d.cost ≤ nameRecC fuel d name seen len ∧
    nameRecC fuel d name seen len ≤
      d.cost + (254 - Name.sz name) + 2 * (16 - seen.length) + 1 + min 191 d.buf.length := by
  intro fuel
  induction fuel with
  | zero =>
    intro d name seen len _ _ _
    refine ⟨fun r c' h => (by simp [nameRec] at h), Nat.le_refl _, ?_⟩
    show d.cost ≤ _; omega
  | succ fuel ih =>
    intro d name seen len hlim hsz hseen
    unfold nameRec nameRecC
    by_cases hz : len = 0
    · simp only [if_pos hz]
      refine ⟨fun r c' h => ?_, Nat.le_refl _, by omega⟩
      injection h with h; injection h with _ h
    · simp only [if_neg hz]
      by_cases hp : isPtr len = true
      · simp only [if_pos hp]
        cases hu8 : d.u8 with
        | error e => dsimp only; exact ⟨fun r c' h => (by cases h), Nat.le_refl _, by omega⟩
        | ok p =>
          obtain ⟨b, d1⟩ := p
          dsimp only
          obtain ⟨_, _, u3⟩ := u8_ok hu8
          have hc1 : d1.cost = d.cost + 1 := by rw [u3]
          by_cases hns : seen.contains (ptrOff len b) = true
          · simp only [if_pos hns]
            exact ⟨fun r c' h => (by cases h), by omega, by omega⟩
          · simp only [if_neg hns]
            by_cases hlen16 : seen.length + 1 > 16
            · simp only [if_pos hlen16]
              exact ⟨fun r c' h => (by cases h), by omega, by omega⟩
            · simp only [if_neg hlen16]
              cases hu8' : ({ d1 with off := ptrOff len b } : D).u8 with
              | error e => dsimp only; exact ⟨fun r c' h => (by cases h), by omega, by omega⟩
              | ok q =>
                obtain ⟨l2, d2⟩ := q
                dsimp only
                obtain ⟨_, _, v3⟩ := u8_ok hu8'
                simp only at v3
                have hb2 : d2.buf = d.buf := by rw [v3, u3]
                have hl2 : d2.lim = d.lim := by rw [v3, u3]
                have hc2 : d2.cost = d.cost + 2 := by rw [v3, u3]
                obtain ⟨i1, i2, i3⟩ := ih d2 name (ptrOff len b :: seen) l2
                  (by rw [hb2, hl2]; exact hlim) hsz (by simp only [List.length_cons]; omega)
                simp only [List.length_cons] at i3
                rw [hb2] at i3
                exact ⟨i1, by omega, by omega⟩
      · simp only [if_neg hp]
        have h192 := not_isPtr_lt hp
        cases hl : d.nameLabel name len with
        | error e =>
          obtain ⟨e1, e2⟩ := nameLabelC_err hlim hl
          dsimp only
          exact ⟨fun r c' h => (by cases h), e1, by omega⟩
        | ok p =>
          obtain ⟨nb, name', d1⟩ := p
          dsimp only
          obtain ⟨lab, l1, _, _, _, _, l5, l6, _, _, l9⟩ := nameLabel_ok hl
          have hb1 : d1.buf = d.buf := by rw [l9]
          have hl1 : d1.lim = d.lim := by rw [l9]
          have hc1 : d1.cost = d.cost + len.toNat + 1 := by rw [l9]
          have hsz' : Name.sz name' = Name.sz name + len.toNat + 1 := by
            rw [l5, Name.sz_append, Name.sz_cons, l1]; simp only [Name.sz_nil]; omega
          obtain ⟨i1, i2, i3⟩ := ih d1 name' seen nb (by rw [hb1, hl1]; exact hlim) (by omega) hseen
          rw [hb1] at i3
          exact ⟨i1, by omega, by omega⟩

/-! ## First phase -/

theorem nameWinC_spec : ∀ (fuel : Nat) (d : D) (name : Name) (len : UInt8),
    d.lim ≤ d.buf.length → Name.sz name ≤ 254 →
    (∀ r d', nameWin fuel d name len = .ok (r, d') → nameWinC fuel d name len = d'.cost) ∧
    d.cost ≤ nameWinC fuel d name len ∧
    nameWinC fuel d name len ≤ d.cost + (254 - Name.sz name) + 35 + min 191 d.buf.length := by
  intro fuel
  induction fuel with
  | zero =>
    intro d name len _ _
    refine ⟨fun r c' h => (by simp [nameWin] at h), Nat.le_refl _, ?_⟩
    show d.cost ≤ _; omega
  | succ fuel ih =>
    intro d name len hlim hsz
    unfold nameWin nameWinC
    by_cases hz : len = 0
    · simp only [if_pos hz]
      refine ⟨fun r c' h => ?_, Nat.le_refl _, by omega⟩
      injection h with h; injection h with _ h; rw [h]
    · simp only [if_neg hz]
      by_cases hp : isPtr len = true
      · simp only [if_pos hp]
        cases hu8 : d.u8 with
        | error e => dsimp only; exact ⟨fun r c' h => (by cases h), Nat.le_refl _, by omega⟩
        | ok p =>
          obtain ⟨b, d1⟩ := p
          dsimp only
          obtain ⟨_, _, u3⟩ := u8_ok hu8
          have hc1 : d1.cost = d.cost + 1 := by rw [u3]
          have hb1 : d1.buf = d.buf := by rw [u3]
          cases hu8' : (D.mk d1.buf (ptrOff len b) d1.buf.length d1.cost).u8 with
          | error e => dsimp only; exact ⟨fun r c' h => (by cases h), by omega, by omega⟩
          | ok q =>
            obtain ⟨l2, dm⟩ := q
            dsimp only
            obtain ⟨_, _, v3⟩ := u8_ok hu8'
            simp only at v3
            have hbm : dm.buf = d.buf := by rw [v3, hb1]
            have hlm : dm.lim = d.buf.length := by rw [v3, hb1]
            have hcm : dm.cost = d.cost + 2 := by rw [v3, hc1]
            obtain ⟨i1, i2, i3⟩ := nameRecC_spec 200 dm name [] l2
              (by rw [hbm, hlm]; exact Nat.le_refl _) hsz (by simp)
            simp only [List.length_nil] at i3
            rw [hbm] at i3
            refine ⟨fun r d' h => ?_, by omega, by omega⟩
            cases hrec : nameRec 200 dm name [] l2 with
            | error e => simp [hrec] at h
            | ok w =>
              obtain ⟨nm, c⟩ := w
              simp only [hrec] at h
              injection h with h; injection h with _ h
              rw [i1 nm c hrec, ← h]
      · simp only [if_neg hp]
        have h192 := not_isPtr_lt hp
        cases hl : d.nameLabel name len with
        | error e =>
          obtain ⟨e1, e2⟩ := nameLabelC_err hlim hl
          dsimp only
          exact ⟨fun r c' h => (by cases h), e1, by omega⟩
        | ok p =>
          obtain ⟨nb, name', d1⟩ := p
          dsimp only
          obtain ⟨lab, l1, _, _, _, _, l5, l6, _, _, l9⟩ := nameLabel_ok hl
          have hb1 : d1.buf = d.buf := by rw [l9]
          have hl1 : d1.lim = d.lim := by rw [l9]
          have hc1 : d1.cost = d.cost + len.toNat + 1 := by rw [l9]
          have hsz' : Name.sz name' = Name.sz name + len.toNat + 1 := by
            rw [l5, Name.sz_append, Name.sz_cons, l1]; simp only [Name.sz_nil]; omega
          obtain ⟨i1, i2, i3⟩ := ih d1 name' nb (by rw [hb1, hl1]; exact hlim) (by omega)
          rw [hb1] at i3
          exact ⟨i1, by omega, by omega⟩

/-! ## `Decoder::domain_name` -/

/-- a name expansion, accepted or not, hands out at most `slack d` octets -/
theorem nameC_le {d : D} (hlim : d.lim ≤ d.buf.length) :
    d.cost ≤ nameC d ∧ nameC d ≤ d.cost + slack d := by
  unfold nameC slack
  cases hu8 : d.u8 with
  | error e => exact ⟨Nat.le_refl _, by dsimp only [bindC]; omega⟩
  | ok p =>
    obtain ⟨l, d1⟩ := p
    dsimp only [bindC]
    obtain ⟨_, _, u3⟩ := u8_ok hu8
    have hc1 : d1.cost = d.cost + 1 := by rw [u3]
    have hb1 : d1.buf = d.buf := by rw [u3]
    have hl1 : d1.lim = d.lim := by rw [u3]
    obtain ⟨_, i2, i3⟩ := nameWinC_spec 200 d1 [] l (by rw [hb1, hl1]; exact hlim) (by simp)
    simp only [Name.sz_nil] at i3
    rw [hb1] at i3
    exact ⟨by omega, by omega⟩

theorem name_postC {d : D} (hd : D.Ok d) : PostC 289 d d.name (nameC d) := by
  cases h : d.name with
  | error e =>
    obtain ⟨h1, h2⟩ := nameC_le hd.lim_le
    exact ⟨h1, by omega⟩
  | ok p =>
    obtain ⟨n, d'⟩ := p
    show nameC d = d'.cost
    unfold D.name at h
    unfold nameC
    cases hu8 : d.u8 with
    | error e => simp [hu8] at h
    | ok q =>
      obtain ⟨l, d1⟩ := q
      simp only [hu8] at h
      dsimp only [bindC]
      obtain ⟨_, _, u3⟩ := u8_ok hu8
      have hb1 : d1.buf = d.buf := by rw [u3]
      have hl1 : d1.lim = d.lim := by rw [u3]
      exact (nameWinC_spec 200 d1 [] l (by rw [hb1, hl1]; exact hd.lim_le) (by simp)).1 n d' h

/-! ## Non-vacuity: a pointer loop is stopped after 3 octets; a rejected long label was handed out -/

example : nameC { buf := [192, 0], off := 0, lim := 2, cost := 0 } = 6 := by decide
example : D.name { buf := [192, 0], off := 0, lim := 2, cost := 0 } = .error .endlessRecursion := rfl
example : nameC { buf := 64 :: List.replicate 64 97, off := 0, lim := 65, cost := 0 } = 65 := by decide
example : D.name { buf := 64 :: List.replicate 64 97, off := 0, lim := 65, cost := 0 } =
    .error .labelLength := rfl

end Safe
