import DnsVerif.Lemmas.SafeBodies
import DnsVerif.Lemmas.SafeCyclic

/-! # Safety / cost of records, questions, flags, messages and the nine entry points; main theorems

* C01 (no panic): `decodeX_noPanic`;
* C07 (termination, bounded work): `decodeX_noFuel`, `decodeX_cost` (`costBound`, accepting runs; for ALL
  runs, failing ones included, see `decodeXC_le` in `SafeRunMsg.lean`), `decodeName_terminates_cyclic`,
  `decodeName_cyclic_error`;
* locality half of C09: the `*_safe` lemmas (the cursor never leaves the window: `D.Ok d'` with
  `d'.lim = d.lim`) and the `*_within` lemmas of `SafeCost.lean`. -/

namespace Safe

/-- `Decoder::rr`: header (name, type, class, ttl, rdlength = at least 11 octets), then the RDATA
window: constant `289 + 1` -/
theorem decRR_post {d : D} (hd : D.Ok d) : Post 290 11 d (decRR d) := by
  unfold decRR
  pbind name_post hd with name d1 s1
  pbind num_post s1.ok (w := 2) (by omega) with ty d2 s2
  split
  · rfl
  · pbind num_post s2.ok (w := 2) (by omega) with cls d3 s3
    pbind num_post s3.ok (w := 4) (by omega) with ttl d4 s4
    pbindh num_post s4.ok (w := 2) (by omega) with rdlen d5 s5 h5
    exact (withSub_post (K := 289) s5.ok (num2_lt s4.ok h5)
      (fun c hc _ _ _ => decRData_post name ty cls ttl hc)).weaken (Nat.le_refl _) (by omega)

theorem decQuestion_post {d : D} (hd : D.Ok d) : Post 289 5 d (decQuestion d) := by
  unfold decQuestion
  pbind name_post hd with name d1 s1
  pbind num_post s1.ok (w := 2) (by omega) with qt d2 s2
  split
  · rfl
  · pbind num_post s2.ok (w := 2) (by omega) with qc d3 s3
    split
    · rfl
    · exact Post.done s3.ok

theorem decFlags_post {d : D} (hd : D.Ok d) : Post 1 2 d (decFlags d) := by
  unfold decFlags
  pbind num_post hd (w := 1) (by omega) with b1 d1 s1
  split
  · rfl
  · pbind num_post s1.ok (w := 1) (by omega) with b2 d2 s2
    split
    · rfl
    · split
      · rfl
      · exact Post.done s2.ok

theorem decQuestions_post : ∀ (k : Nat) (d : D), D.Ok d → Post 289 0 d (decQuestions k d) := by
  intro k
  induction k with
  | zero => intro d hd; unfold decQuestions; exact Post.done hd
  | succ k ih =>
    intro d hd
    unfold decQuestions
    pbind decQuestion_post hd with q d1 s1
    pbind ih d1 s1.ok with r d2 s2
    exact Post.done s2.ok

theorem decRRs_post : ∀ (k : Nat) (d : D), D.Ok d → Post 290 0 d (decRRs k d) := by
  intro k
  induction k with
  | zero => intro d hd; unfold decRRs; exact Post.done hd
  | succ k ih =>
    intro d hd
    unfold decRRs
    pbind decRR_post hd with q d1 s1
    pbind ih d1 s1.ok with r d2 s2
    exact Post.done s2.ok

/-- `Decoder::dns` started at offset 0 (what `Decoder::main` does): the whole message, constant 290; a
success consumed at least the 12 header octets; `Offset` is never reported -/
theorem decMsg_post {d : D} (hd : D.Ok d) (h0 : d.off = 0) : Post 290 12 d (decMsg d) := by
  unfold decMsg
  rw [if_neg (by simpa using h0)]
  split
  · rfl
  split
  · rfl
  pbind num_post hd (w := 2) (by omega) with id d1 s1
  pbind decFlags_post s1.ok with flags d2 s2
  pbind num_post s2.ok (w := 2) (by omega) with qd d3 s3
  pbind num_post s3.ok (w := 2) (by omega) with an d4 s4
  pbind num_post s4.ok (w := 2) (by omega) with ns d5 s5
  pbind num_post s5.ok (w := 2) (by omega) with ar d6 s6
  pbind decQuestions_post qd d6 s6.ok with qs d7 s7
  pbind decRRs_post an d7 s7.ok with ans d8 s8
  pbind decRRs_post ns d8 s8.ok with nss d9 s9
  pbind decRRs_post ar d9 s9.ok with ars d10 s10
  rw [isFinished_eq s10.ok]
  by_cases hfin : d10.off = d10.lim
  · simp only [hfin, decide_true]; exact Post.done s10.ok
  · simp only [hfin, decide_false]; rfl

theorem decCode_post (known : Nat → Bool) (err : Nat → DErr) (herr : ∀ n, (err n).bad = false)
    {d : D} (hd : D.Ok d) : Post 1 2 d (decCode known err d) := by
  unfold decCode
  pbind num_post hd (w := 2) (by omega) with n d1 s1
  split
  · exact Post.done s1.ok
  · exact herr n


theorem typeErr_ok (n : Nat) : (DErr.type n).bad = false := rfl
theorem classErr_ok (n : Nat) : (DErr.class_ n).bad = false := rfl
theorem qtypeErr_ok (n : Nat) : (DErr.qtype n).bad = false := rfl
theorem qclassErr_ok (n : Nat) : (DErr.qclass n).bad = false := rfl

/-! ## The nine entry points -/

theorem decodeDns_post {b : Bytes} (h : b.length < 2 ^ 63) : Post 290 12 (D.main b) (decodeDns b) :=
  decMsg_post (D.main_Ok b h) rfl
theorem decodeFlags_post {b : Bytes} (h : b.length < 2 ^ 63) : Post 1 2 (D.main b) (decodeFlags b) :=
  decFlags_post (D.main_Ok b h)
theorem decodeQuestion_post {b : Bytes} (h : b.length < 2 ^ 63) :
    Post 289 5 (D.main b) (decodeQuestion b) :=
  decQuestion_post (D.main_Ok b h)
theorem decodeRR_post {b : Bytes} (h : b.length < 2 ^ 63) : Post 290 11 (D.main b) (decodeRR b) :=
  decRR_post (D.main_Ok b h)
theorem decodeName_post {b : Bytes} (h : b.length < 2 ^ 63) : Post 289 1 (D.main b) (decodeName b) :=
  name_post (D.main_Ok b h)
theorem decodeType_post {b : Bytes} (h : b.length < 2 ^ 63) : Post 1 2 (D.main b) (decodeType b) :=
  decCode_post _ _ typeErr_ok (D.main_Ok b h)
theorem decodeClass_post {b : Bytes} (h : b.length < 2 ^ 63) : Post 1 2 (D.main b) (decodeClass b) :=
  decCode_post _ _ classErr_ok (D.main_Ok b h)
theorem decodeQType_post {b : Bytes} (h : b.length < 2 ^ 63) : Post 1 2 (D.main b) (decodeQType b) :=
  decCode_post _ _ qtypeErr_ok (D.main_Ok b h)
theorem decodeQClass_post {b : Bytes} (h : b.length < 2 ^ 63) : Post 1 2 (D.main b) (decodeQClass b) :=
  decCode_post _ _ qclassErr_ok (D.main_Ok b h)

/-! ## The lemmas in the requested shape -/

theorem decRR_safe {d : D} (hd : D.Ok d) : Spec d (decRR d) := (decRR_post hd).spec
theorem decQuestion_safe {d : D} (hd : D.Ok d) : Spec d (decQuestion d) := (decQuestion_post hd).spec
theorem decFlags_safe {d : D} (hd : D.Ok d) : Spec d (decFlags d) := (decFlags_post hd).spec
theorem decQuestions_safe {k : Nat} {d : D} (hd : D.Ok d) : Spec d (decQuestions k d) :=
  (decQuestions_post k d hd).spec
theorem decRRs_safe {k : Nat} {d : D} (hd : D.Ok d) : Spec d (decRRs k d) := (decRRs_post k d hd).spec
/-- for any good decoder state; started away from offset 0 the answer is the error `Offset` -/
theorem decMsg_safe {d : D} (hd : D.Ok d) : Spec d (decMsg d) := by
  by_cases h0 : d.off = 0
  · exact (decMsg_post hd h0).spec
  · have : decMsg d = .error .offset := by unfold decMsg; rw [if_pos h0]
    rw [this]
    exact ⟨fun s h => (by cases h), fun h => (by cases h), fun v d' h => (by cases h)⟩
theorem decCode_safe (known : Nat → Bool) (err : Nat → DErr) (herr : ∀ n, (err n).bad = false)
    {d : D} (hd : D.Ok d) : Spec d (decCode known err d) := (decCode_post known err herr hd).spec

theorem decodeDns_safe {b : Bytes} (h : b.length < 2 ^ 63) : Spec (D.main b) (decodeDns b) :=
  (decodeDns_post h).spec
theorem decodeFlags_safe {b : Bytes} (h : b.length < 2 ^ 63) : Spec (D.main b) (decodeFlags b) :=
  (decodeFlags_post h).spec
theorem decodeQuestion_safe {b : Bytes} (h : b.length < 2 ^ 63) : Spec (D.main b) (decodeQuestion b) :=
  (decodeQuestion_post h).spec
theorem decodeRR_safe {b : Bytes} (h : b.length < 2 ^ 63) : Spec (D.main b) (decodeRR b) :=
  (decodeRR_post h).spec
theorem decodeName_safe {b : Bytes} (h : b.length < 2 ^ 63) : Spec (D.main b) (decodeName b) :=
  (decodeName_post h).spec
theorem decodeType_safe {b : Bytes} (h : b.length < 2 ^ 63) : Spec (D.main b) (decodeType b) :=
  (decodeType_post h).spec
theorem decodeClass_safe {b : Bytes} (h : b.length < 2 ^ 63) : Spec (D.main b) (decodeClass b) :=
  (decodeClass_post h).spec
theorem decodeQType_safe {b : Bytes} (h : b.length < 2 ^ 63) : Spec (D.main b) (decodeQType b) :=
  (decodeQType_post h).spec
theorem decodeQClass_safe {b : Bytes} (h : b.length < 2 ^ 63) : Spec (D.main b) (decodeQClass b) :=
  (decodeQClass_post h).spec

/-! ## C01: no entry point panics (`b.length < 2^63` is Rust's allocation limit `isize::MAX`) -/

theorem decodeDns_noPanic {b : Bytes} (h : b.length < 2 ^ 63) (s : String) :
    decodeDns b ≠ .error (.panic s) := (decodeDns_post h).spec.1 s
theorem decodeFlags_noPanic {b : Bytes} (h : b.length < 2 ^ 63) (s : String) :
    decodeFlags b ≠ .error (.panic s) := (decodeFlags_post h).spec.1 s
theorem decodeQuestion_noPanic {b : Bytes} (h : b.length < 2 ^ 63) (s : String) :
    decodeQuestion b ≠ .error (.panic s) := (decodeQuestion_post h).spec.1 s
theorem decodeRR_noPanic {b : Bytes} (h : b.length < 2 ^ 63) (s : String) :
    decodeRR b ≠ .error (.panic s) := (decodeRR_post h).spec.1 s
theorem decodeName_noPanic {b : Bytes} (h : b.length < 2 ^ 63) (s : String) :
    decodeName b ≠ .error (.panic s) := (decodeName_post h).spec.1 s
theorem decodeType_noPanic {b : Bytes} (h : b.length < 2 ^ 63) (s : String) :
    decodeType b ≠ .error (.panic s) := (decodeType_post h).spec.1 s
theorem decodeClass_noPanic {b : Bytes} (h : b.length < 2 ^ 63) (s : String) :
    decodeClass b ≠ .error (.panic s) := (decodeClass_post h).spec.1 s
theorem decodeQType_noPanic {b : Bytes} (h : b.length < 2 ^ 63) (s : String) :
    decodeQType b ≠ .error (.panic s) := (decodeQType_post h).spec.1 s
theorem decodeQClass_noPanic {b : Bytes} (h : b.length < 2 ^ 63) (s : String) :
    decodeQClass b ≠ .error (.panic s) := (decodeQClass_post h).spec.1 s

/-! ## C07 (termination): the fuel of the model's loops is never what stops them -/

theorem decodeDns_noFuel {b : Bytes} (h : b.length < 2 ^ 63) : decodeDns b ≠ .error .fuel :=
  (decodeDns_post h).spec.2.1
theorem decodeFlags_noFuel {b : Bytes} (h : b.length < 2 ^ 63) : decodeFlags b ≠ .error .fuel :=
  (decodeFlags_post h).spec.2.1
theorem decodeQuestion_noFuel {b : Bytes} (h : b.length < 2 ^ 63) : decodeQuestion b ≠ .error .fuel :=
  (decodeQuestion_post h).spec.2.1
theorem decodeRR_noFuel {b : Bytes} (h : b.length < 2 ^ 63) : decodeRR b ≠ .error .fuel :=
  (decodeRR_post h).spec.2.1
theorem decodeName_noFuel {b : Bytes} (h : b.length < 2 ^ 63) : decodeName b ≠ .error .fuel :=
  (decodeName_post h).spec.2.1
theorem decodeType_noFuel {b : Bytes} (h : b.length < 2 ^ 63) : decodeType b ≠ .error .fuel :=
  (decodeType_post h).spec.2.1
theorem decodeClass_noFuel {b : Bytes} (h : b.length < 2 ^ 63) : decodeClass b ≠ .error .fuel :=
  (decodeClass_post h).spec.2.1
theorem decodeQType_noFuel {b : Bytes} (h : b.length < 2 ^ 63) : decodeQType b ≠ .error .fuel :=
  (decodeQType_post h).spec.2.1
theorem decodeQClass_noFuel {b : Bytes} (h : b.length < 2 ^ 63) : decodeQClass b ≠ .error .fuel :=
  (decodeQClass_post h).spec.2.1

/-- started at offset 0, `Decoder::dns` never reports `Offset` (no callee reports it either) -/
theorem decMsg_noOffset {d : D} (hd : D.Ok d) (h0 : d.off = 0) : decMsg d ≠ .error .offset := by
  intro he
  have hp := decMsg_post hd h0
  rw [he] at hp
  cases hp

/-- `Decoder::dns` is always started at offset 0, so `DecodeError::Offset` is unreachable -/
theorem decodeDns_noOffset {b : Bytes} (h : b.length < 2 ^ 63) : decodeDns b ≠ .error .offset := by
  intro he
  have hp := decodeDns_post h
  rw [he] at hp
  cases hp

/-- an accepted message has at most 65536 octets (the gate at the start of `Decoder::dns`) -/
theorem decodeDns_ok_length {b : Bytes} {m : Msg} {d : D} (h : decodeDns b = .ok (m, d)) :
    12 ≤ b.length ∧ b.length ≤ 65536 := by
  unfold decodeDns decMsg at h
  rw [if_neg (by simp [D.main])] at h
  split at h
  · cases h
  split at h
  · cases h
  rename_i h1 h2
  exact ⟨by simpa [D.main] using h1, by simpa [D.main] using h2⟩

/-! ## C07 (bounded work): at most `costBound b.length` octets are handed out on an accepting run
(the proofs give `290 * consumed`, and `consumed ≤ b.length`) -/

/-- no length hypothesis is needed for whole messages (`decodeDns_ok_length`) -/
theorem decodeDns_cost {b : Bytes} {m : Msg} {d : D} (h : decodeDns b = .ok (m, d)) :
    d.cost ≤ costBound b.length := by
  have hb : b.length < 2 ^ 63 := by have := (decodeDns_ok_length h).2; omega
  exact ((decodeDns_post hb).step h).costBound (by omega)
theorem decodeFlags_cost {b : Bytes} {m : Flags} {d : D} (hb : b.length < 2 ^ 63)
    (h : decodeFlags b = .ok (m, d)) : d.cost ≤ costBound b.length :=
  ((decodeFlags_post hb).step h).costBound (by omega)
theorem decodeQuestion_cost {b : Bytes} {m : Question} {d : D} (hb : b.length < 2 ^ 63)
    (h : decodeQuestion b = .ok (m, d)) : d.cost ≤ costBound b.length :=
  ((decodeQuestion_post hb).step h).costBound (by omega)
theorem decodeRR_cost {b : Bytes} {m : RR} {d : D} (hb : b.length < 2 ^ 63)
    (h : decodeRR b = .ok (m, d)) : d.cost ≤ costBound b.length :=
  ((decodeRR_post hb).step h).costBound (by omega)
theorem decodeName_cost {b : Bytes} {m : Name} {d : D} (hb : b.length < 2 ^ 63)
    (h : decodeName b = .ok (m, d)) : d.cost ≤ costBound b.length :=
  ((decodeName_post hb).step h).costBound (by omega)
theorem decodeType_cost {b : Bytes} {m : Nat} {d : D} (hb : b.length < 2 ^ 63)
    (h : decodeType b = .ok (m, d)) : d.cost ≤ costBound b.length :=
  ((decodeType_post hb).step h).costBound (by omega)
theorem decodeClass_cost {b : Bytes} {m : Nat} {d : D} (hb : b.length < 2 ^ 63)
    (h : decodeClass b = .ok (m, d)) : d.cost ≤ costBound b.length :=
  ((decodeClass_post hb).step h).costBound (by omega)
theorem decodeQType_cost {b : Bytes} {m : Nat} {d : D} (hb : b.length < 2 ^ 63)
    (h : decodeQType b = .ok (m, d)) : d.cost ≤ costBound b.length :=
  ((decodeQType_post hb).step h).costBound (by omega)
theorem decodeQClass_cost {b : Bytes} {m : Nat} {d : D} (hb : b.length < 2 ^ 63)
    (h : decodeQClass b = .ok (m, d)) : d.cost ≤ costBound b.length :=
  ((decodeQClass_post hb).step h).costBound (by omega)

/-- the sharper form the proof gives: 290 octets of `read` per octet consumed; no length hypothesis is
needed for whole messages -/
theorem decodeDns_cost_290 {b : Bytes} {m : Msg} {d : D} (h : decodeDns b = .ok (m, d)) :
    d.cost ≤ 290 * d.off ∧ d.off ≤ b.length := by
  have hb : b.length < 2 ^ 63 := by have := (decodeDns_ok_length h).2; omega
  have s := (decodeDns_post hb).step h
  have h1 := s.cost_hi; have h2 := s.le_lim
  have h4 : (D.main b).cost = 0 := rfl
  have h5 : (D.main b).off = 0 := rfl
  have h6 : (D.main b).lim = b.length := rfl
  rw [h4, h5] at h1; rw [h6] at h2
  exact ⟨by omega, h2⟩

/-! ## C07 (names): finite derivation, at most 17 hops, below 255 octets; a cyclic name is an error -/

/-- Whatever `DomainName::decode` accepts has a FINITE derivation in the RFC 1035 grammar with at most 17
compression hops, and is never expanded to 255 octets or more. (Every derivation is a finite tree, so no
cyclic structure is ever accepted: `decodeName_cyclic_error`.) No hypothesis on the input. -/
theorem decodeName_terminates_cyclic {b : Bytes} {n : Name} {d : D} (h : decodeName b = .ok (n, d)) :
    ∃ hops, hops ≤ 17 ∧ NameAt b false 0 n hops d.off ∧ Name.sz n < 255 := by
  obtain ⟨hops, h17, hn, _, _, _, _, hsz, _⟩ := name_sound h
  exact ⟨hops, h17, hn, hsz⟩

/-- If the label / pointer structure starting at offset 0 runs into a cycle (some offset `x` reachable
from 0 reaches itself again in at least one step), `DomainName::decode` returns an error. -/
theorem decodeName_cyclic_error {b : Bytes} {x j k : Nat} (h1 : NPath b 0 x j)
    (h2 : NPath b x x (k + 1)) : ∃ e, decodeName b = .error e := by
  cases h : decodeName b with
  | error e => exact ⟨e, rfl⟩
  | ok p =>
    obtain ⟨n, d'⟩ := p
    exact absurd h (name_cyclic_error (d := D.main b) h1 h2 n d')

/-- …and that error is one of the six name errors, never a panic or a timeout (`fuel`) -/
theorem decodeName_cyclic_error_kind {b : Bytes} {x j k : Nat} (hb : b.length < 2 ^ 63)
    (h1 : NPath b 0 x j) (h2 : NPath b x x (k + 1)) :
    ∃ e, decodeName b = .error e ∧ e.isNameErr = true := by
  obtain ⟨e, he⟩ := decodeName_cyclic_error h1 h2
  exact ⟨e, he, name_err_ok (D.main_Ok b hb) he⟩

/-! ## Non-vacuity -/

/-- a query for `a.` type A class IN -/
private def exMsg : Bytes := [0, 1, 1, 0, 0, 1, 0, 0, 0, 0, 0, 0, 1, 97, 0, 0, 1, 0, 1]

example : exMsg.length < 2 ^ 63 := by decide
example : ∃ m d, decodeDns exMsg = .ok (m, d) ∧ d.cost = 19 ∧ d.cost ≤ costBound exMsg.length :=
  ⟨_, _, rfl, rfl, by decide⟩
example : decodeName [192, 0] = .error .endlessRecursion := rfl
example : ∃ e, decodeName [192, 0] = .error e :=
  decodeName_cyclic_error (x := 0) (j := 0) (k := 0) .nil
    (.cons (.ptr (a := 192) (b := 0) rfl (by decide) rfl) .nil)
example : decodeName [1, 97, 0] = .ok ([[97]], { buf := [1, 97, 0], off := 3, lim := 3, cost := 3 }) := rfl

end Safe
