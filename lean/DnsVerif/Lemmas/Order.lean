import DnsVerif.Model.Enc

/-! # The iteration order of the local index is irrelevant (property C14)

In Rust the per-name local index is a `HashMap` (random seed) that is merged into the encoder's
table by iterating over it. The model uses a list (newest first). Here:
* `merge_order_irrelevant`: merging any permutation of a local index whose keys are pairwise not
  ASCII-case-equal gives a table with the same `lookup` function;
* `local_keys_distinct`: the local index built for one name has such keys (they are suffixes of one
  name, hence of pairwise different lengths), so a list without shadowing models the `HashMap`;
* `encName_order_irrelevant`: permuting the local index before the merge (by any function `σ`,
  even a different one per call) changes neither the output nor any later lookup, and hence
  nothing any later writer does (`encName_congr`, `encNameU_congr`, `LookupEq.put`, `.setOut`). -/

/-! ## `find?` under permutation -/

theorem find?_perm {α} {p : α → Bool} {l1 l2 : List α} (hp : l1.Perm l2)
    (huniq : ∀ a ∈ l1, ∀ b ∈ l1, p a = true → p b = true → a = b) : l1.find? p = l2.find? p := by
  induction hp with
  | nil => rfl
  | cons x _ ih =>
    simp only [List.find?_cons]
    split
    · rfl
    · exact ih (fun a ha b hb => huniq a (List.mem_cons_of_mem _ ha) b (List.mem_cons_of_mem _ hb))
  | swap x y l =>
    simp only [List.find?_cons]
    cases hx : p x <;> cases hy : p y <;> simp
    exact huniq y (by simp) x (by simp) hy hx
  | trans h1 _ ih1 ih2 =>
    rw [ih1 huniq]
    exact ih2 (fun a ha b hb => huniq a (h1.mem_iff.mpr ha) b (h1.mem_iff.mpr hb))

/-- the keys of a local index are pairwise not ASCII-case-equal -/
def KeysDistinct (loc : List (Name × Nat)) : Prop :=
  loc.Pairwise (fun a b => ciEq a.1 b.1 = false)

private theorem ciEq_trans_left {a b k : Name} (ha : ciEq a k = true) (hb : ciEq b k = true) :
    ciEq a b = true := by
  simp [ciEq] at ha hb ⊢; rw [ha, hb]

theorem KeysDistinct.eq_of_ciEq : ∀ {loc : List (Name × Nat)}, KeysDistinct loc →
    ∀ a ∈ loc, ∀ b ∈ loc, ciEq a.1 b.1 = true → a = b := by
  intro loc
  induction loc with
  | nil => intro _ a ha; simp at ha
  | cons x r ih =>
    intro hd a ha b hb hab
    have hd' := List.pairwise_cons.mp hd
    rcases List.mem_cons.mp ha with rfl | ha' <;> rcases List.mem_cons.mp hb with rfl | hb'
    · rfl
    · have := hd'.1 b hb'; rw [this] at hab; cases hab
    · have := hd'.1 a ha'
      have hba : ciEq b.1 a.1 = true := by simp [ciEq] at hab ⊢; exact hab.symm
      rw [this] at hba; cases hba
    · exact ih hd'.2 a ha' b hb' hab

/-! ## Lookup after a merge -/

/-- the table after a merge answers from the local entries first, then from the old table: it
depends on the old table only through its `lookup` function -/
theorem lookup_merge {e e' : Enc} {loc : List (Name × Nat)} {r : Nat} (h : e.merge loc r = .ok e')
    (k : Name) :
    e'.lookup k = match loc.find? (fun p => ciEq p.1 k) with
      | some p => some (p.2, r)
      | none => e.lookup k := by
  unfold Enc.merge at h
  split at h; · simp at h
  simp at h
  subst h
  simp only [Enc.lookup, List.find?_append, List.find?_map]
  cases hf : loc.find? ((fun p : Name × Nat × Nat => ciEq p.1 k) ∘ fun p => (p.1, p.2, r)) with
  | none =>
    have : loc.find? (fun p => ciEq p.1 k) = none := hf
    simp [this]
  | some q =>
    have : loc.find? (fun p => ciEq p.1 k) = some q := hf
    simp [this]

/-- a merge fails or succeeds independently of the local index (only the depth matters) -/
theorem merge_error_indep (e : Enc) (loc1 loc2 : List (Name × Nat)) (r : Nat) (err : EErr) :
    e.merge loc1 r = .error err ↔ e.merge loc2 r = .error err := by
  unfold Enc.merge
  by_cases hr : r > 16 <;> simp [hr]

/-- **C14, core.** Merging the same local entries in two different iteration orders gives tables
with the same `lookup` function, provided the local keys are pairwise not `ciEq`. -/
theorem merge_order_irrelevant (e : Enc) (loc1 loc2 : List (Name × Nat)) (r : Nat)
    (hp : loc1.Perm loc2) (hdist : KeysDistinct loc1) {e1 e2 : Enc}
    (h1 : e.merge loc1 r = .ok e1) (h2 : e.merge loc2 r = .ok e2) (k : Name) :
    e1.lookup k = e2.lookup k := by
  rw [lookup_merge h1, lookup_merge h2]
  have : loc1.find? (fun p => ciEq p.1 k) = loc2.find? (fun p => ciEq p.1 k) := by
    apply find?_perm hp
    intro a ha b hb pa pb
    exact hdist.eq_of_ciEq a ha b hb (ciEq_trans_left pa pb)
  rw [this]

/-- the prototype's formulation (covers the failing merge too) -/
theorem merge_order_irrelevant' (e : Enc) (loc1 loc2 : List (Name × Nat)) (r : Nat)
    (hp : loc1.Perm loc2) (hdist : KeysDistinct loc1) (k : Name) :
    (match e.merge loc1 r with | .ok e1 => e1.lookup k | .error _ => none) =
    (match e.merge loc2 r with | .ok e2 => e2.lookup k | .error _ => none) := by
  by_cases hr : r > 16
  · simp [Enc.merge, hr]
  · have h1 : e.merge loc1 r = .ok { e with idx := loc1.map (fun p => (p.1, p.2, r)) ++ e.idx } := by
      simp [Enc.merge, hr]
    have h2 : e.merge loc2 r = .ok { e with idx := loc2.map (fun p => (p.1, p.2, r)) ++ e.idx } := by
      simp [Enc.merge, hr]
    rw [h1, h2]
    exact merge_order_irrelevant e loc1 loc2 r hp hdist h1 h2 k

/-! ## The local index of one name -/

/-- `encNameGo` up to, but not including, the final merge: the encoder just before the merge, the
local index that is merged, and the pointer depth. (Ghost function, only used to talk about the
local index; `encNameGo_eq_pre` shows it is `encNameGo`.) -/
def encNamePre (e : Enc) : Name → List (Name × Nat) → Except EErr (Enc × List (Name × Nat) × Nat)
  | [], loc => .ok ({ e with out := e.out ++ [0] }, loc, 0)
  | l :: rest, loc =>
    let lit : Except EErr (Enc × List (Name × Nat) × Nat) :=
      let off := e.out.length
      if off > 65535 then .error .length
      else if l.length > 255 then .error .string
      else
        let e' : Enc := { e with out := e.out ++ (UInt8.ofNat l.length :: l) }
        let loc' := if off ≤ 0x3FFF then (l :: rest, off) :: loc else loc
        encNamePre e' rest loc'
    match e.lookup (l :: rest) with
    | some (off, r) =>
      if 0x3FFF < off then .error .compression
      else if r ≥ 16 then lit
      else .ok ({ e with out := e.out ++ ptrBytes off }, loc, r + 1)
    | none => lit

/-- finish `encNamePre` by merging `σ loc` instead of `loc` -/
def mergePre (σ : List (Name × Nat) → List (Name × Nat)) :
    Except EErr (Enc × List (Name × Nat) × Nat) → Except EErr Enc
  | .error err => .error err
  | .ok (e', loc, r) => Enc.merge e' (σ loc) r

theorem encNameGo_eq_pre : ∀ (n : Name) (e : Enc) (loc : List (Name × Nat)),
    encNameGo e n loc = mergePre id (encNamePre e n loc) := by
  intro n
  induction n with
  | nil => intro e loc; rfl
  | cons l rest ih =>
    intro e loc
    unfold encNameGo encNamePre
    have hlit : (if e.out.length > 65535 then Except.error EErr.length
        else if l.length > 255 then Except.error EErr.string
        else encNameGo { e with out := e.out ++ (UInt8.ofNat l.length :: l) } rest
              (if e.out.length ≤ 0x3FFF then (l :: rest, e.out.length) :: loc else loc)) =
        mergePre id (if e.out.length > 65535 then Except.error EErr.length
        else if l.length > 255 then Except.error EErr.string
        else encNamePre { e with out := e.out ++ (UInt8.ofNat l.length :: l) } rest
              (if e.out.length ≤ 0x3FFF then (l :: rest, e.out.length) :: loc else loc)) := by
      split
      · rfl
      split
      · rfl
      exact ih _ _
    cases hlk : e.lookup (l :: rest) with
    | none => simp only []; exact hlit
    | some pr =>
      obtain ⟨off, r⟩ := pr
      simp only []
      split
      · rfl
      split
      · exact hlit
      · rfl

/-- the name writer with the local index permuted by `σ` before the merge (`σ` models the
iteration order of the local `HashMap`) -/
def encNameWith (σ : List (Name × Nat) → List (Name × Nat)) (e : Enc) (n : Name) : Except EErr Enc :=
  mergePre σ (encNamePre e n [])

theorem encNameWith_id (e : Enc) (n : Name) : encNameWith id e n = encName e n :=
  (encNameGo_eq_pre n e []).symm

/-- suffixes of one name have pairwise different lengths, hence different keys -/
theorem suffix_keys_distinct {a b : Name} (h : a.lower = b.lower) : a.length = b.length := by
  have := congrArg List.length h
  simpa [Name.lower] using this

/-- generalised invariant of the local index: keys are strictly longer than the remaining name,
lengths strictly increase from the newest entry to the oldest, every key is a suffix of the whole
name `N`, every offset can be the target of a pointer -/
theorem encNamePre_loc : ∀ (n : Name) (N : Name) (e e' : Enc) (loc loc' : List (Name × Nat)) (r : Nat),
    encNamePre e n loc = .ok (e', loc', r) →
    (∃ w, N = w ++ n) →
    (∀ q ∈ loc, n.length < q.1.length ∧ (∃ w, N = w ++ q.1) ∧ q.2 ≤ 0x3FFF ∧ q.2 < e.out.length) →
    loc.Pairwise (fun a b => a.1.length < b.1.length) →
    (∀ q ∈ loc', (∃ w, N = w ++ q.1) ∧ q.2 ≤ 0x3FFF ∧ q.2 < e'.out.length) ∧
      loc'.Pairwise (fun a b => a.1.length < b.1.length) := by
  intro n
  induction n with
  | nil =>
    intro N e e' loc loc' r h _ hloc hpw
    simp [encNamePre] at h
    obtain ⟨rfl, rfl, rfl⟩ := h
    refine ⟨fun q hq => ⟨(hloc q hq).2.1, (hloc q hq).2.2.1, ?_⟩, hpw⟩
    have := (hloc q hq).2.2.2
    simp; omega
  | cons l rest ih =>
    intro N e e' loc loc' r h hN hloc hpw
    have hlit : ∀ (_ : (if e.out.length > 65535 then Except.error EErr.length
        else if l.length > 255 then Except.error EErr.string
        else encNamePre { e with out := e.out ++ (UInt8.ofNat l.length :: l) } rest
              (if e.out.length ≤ 0x3FFF then (l :: rest, e.out.length) :: loc else loc)) =
          .ok (e', loc', r)),
        (∀ q ∈ loc', (∃ w, N = w ++ q.1) ∧ q.2 ≤ 0x3FFF ∧ q.2 < e'.out.length) ∧
        loc'.Pairwise (fun a b => a.1.length < b.1.length) := by
      intro h
      split at h; · simp at h
      split at h; · simp at h
      obtain ⟨w, hw⟩ := hN
      refine ih N _ e' _ loc' r h ⟨w ++ [l], by rw [hw]; simp⟩ ?_ ?_
      · intro q hq
        have hold : ∀ q ∈ loc, rest.length < q.1.length ∧ (∃ w, N = w ++ q.1) ∧ q.2 ≤ 0x3FFF ∧
            q.2 < (e.out ++ (UInt8.ofNat l.length :: l)).length := by
          intro q hq
          obtain ⟨h1, h2, h3, h4⟩ := hloc q hq
          simp only [List.length_cons] at h1
          exact ⟨by omega, h2, h3, by simp; omega⟩
        split at hq
        · rename_i hle
          rcases List.mem_cons.mp hq with rfl | hq
          · exact ⟨by simp, ⟨w, hw⟩, hle, by simp⟩
          · exact hold q hq
        · exact hold q hq
      · split
        · refine List.pairwise_cons.mpr ⟨fun q hq => (hloc q hq).1, hpw⟩
        · exact hpw
    unfold encNamePre at h
    cases hlk : e.lookup (l :: rest) with
    | none => simp only [hlk] at h; exact hlit h
    | some pr =>
      obtain ⟨off, r0⟩ := pr
      simp only [hlk] at h
      split at h; · simp at h
      split at h
      · exact hlit h
      · simp at h
        obtain ⟨rfl, rfl, rfl⟩ := h
        refine ⟨fun q hq => ⟨(hloc q hq).2.1, (hloc q hq).2.2.1, ?_⟩, hpw⟩
        have := (hloc q hq).2.2.2
        simp; omega

/-- **The local index of one name has pairwise non-`ciEq` keys**, from every encoder state and for
every name; moreover every key is a suffix of the name and every offset is `≤ 0x3FFF` and inside the
output. -/
theorem local_keys_distinct {e e' : Enc} {n : Name} {loc : List (Name × Nat)} {r : Nat}
    (h : encNamePre e n [] = .ok (e', loc, r)) :
    KeysDistinct loc ∧ ∀ q ∈ loc, (∃ w, n = w ++ q.1) ∧ q.2 ≤ 0x3FFF ∧ q.2 < e'.out.length := by
  obtain ⟨h1, h2⟩ := encNamePre_loc n n e e' [] loc r h ⟨[], rfl⟩ (by simp) List.Pairwise.nil
  refine ⟨h2.imp ?_, h1⟩
  intro a b hlt
  cases hc : ciEq a.1 b.1 with
  | false => rfl
  | true =>
    have : a.1.length = b.1.length := suffix_keys_distinct (by simpa [ciEq] using hc)
    omega

/-! ## Encoder states with the same output and the same lookup function -/

/-- what every later operation can observe of an encoder state -/
def Enc.LookupEq (e1 e2 : Enc) : Prop := e1.out = e2.out ∧ ∀ k, e1.lookup k = e2.lookup k

/-- both fail with the same error, or both succeed with related states -/
def ExceptRel {α β : Type} (R : α → β → Prop) : Except EErr α → Except EErr β → Prop
  | .ok a, .ok b => R a b
  | .error x, .error y => x = y
  | _, _ => False

theorem Enc.LookupEq.refl (e : Enc) : Enc.LookupEq e e := ⟨rfl, fun _ => rfl⟩

theorem Enc.LookupEq.setOut {e1 e2 : Enc} (h : Enc.LookupEq e1 e2) (f : Bytes → Bytes) :
    Enc.LookupEq { e1 with out := f e1.out } { e2 with out := f e2.out } :=
  ⟨by simp [h.1], h.2⟩

theorem Enc.LookupEq.put {e1 e2 : Enc} (h : Enc.LookupEq e1 e2) (x : Bytes) :
    Enc.LookupEq (e1.put x) (e2.put x) := h.setOut (· ++ x)

/-- the part of the name writer before the merge sees the table only through `lookup` -/
theorem encNamePre_congr : ∀ (n : Name) (e1 e2 : Enc) (loc : List (Name × Nat)),
    Enc.LookupEq e1 e2 →
    ExceptRel (fun a b => Enc.LookupEq a.1 b.1 ∧ a.2 = b.2)
      (encNamePre e1 n loc) (encNamePre e2 n loc) := by
  intro n
  induction n with
  | nil =>
    intro e1 e2 loc h
    exact ⟨h.setOut (· ++ [0]), rfl⟩
  | cons l rest ih =>
    intro e1 e2 loc h
    have hlen : e1.out.length = e2.out.length := by rw [h.1]
    have hlit : ExceptRel (fun a b => Enc.LookupEq a.1 b.1 ∧ a.2 = b.2)
        (if e1.out.length > 65535 then Except.error EErr.length
        else if l.length > 255 then Except.error EErr.string
        else encNamePre { e1 with out := e1.out ++ (UInt8.ofNat l.length :: l) } rest
              (if e1.out.length ≤ 0x3FFF then (l :: rest, e1.out.length) :: loc else loc))
        (if e2.out.length > 65535 then Except.error EErr.length
        else if l.length > 255 then Except.error EErr.string
        else encNamePre { e2 with out := e2.out ++ (UInt8.ofNat l.length :: l) } rest
              (if e2.out.length ≤ 0x3FFF then (l :: rest, e2.out.length) :: loc else loc)) := by
      rw [hlen]
      split
      · exact rfl
      split
      · exact rfl
      exact ih _ _ _ (h.setOut (· ++ (UInt8.ofNat l.length :: l)))
    unfold encNamePre
    rw [← h.2 (l :: rest)]
    cases hlk : e1.lookup (l :: rest) with
    | none => simp only []; exact hlit
    | some pr =>
      obtain ⟨off, r⟩ := pr
      simp only []
      split
      · exact rfl
      split
      · exact hlit
      · exact ⟨h.setOut (· ++ ptrBytes off), rfl⟩

/-- **C14.** Replacing the local index by any permutation of it before the merge (`σ` is an
arbitrary function returning a permutation of its argument: the `HashMap` iteration order) gives
the same error, or the same output and the same result for every later lookup. Stated from two
states that are already only lookup-equivalent, so that it composes over whole histories in which
every call uses a different order. No invariant and no well-formedness is needed. -/
theorem encName_order_irrelevant (σ : List (Name × Nat) → List (Name × Nat))
    (hσ : ∀ l, (σ l).Perm l) {e1 e2 : Enc} (heq : Enc.LookupEq e1 e2) (n : Name) :
    ExceptRel Enc.LookupEq (encNameWith σ e1 n) (encName e2 n) := by
  rw [← encNameWith_id]
  unfold encNameWith
  have hpre := encNamePre_congr n e1 e2 [] heq
  cases h1 : encNamePre e1 n [] with
  | error x =>
    cases h2 : encNamePre e2 n [] with
    | error y => rw [h1, h2] at hpre; exact hpre
    | ok b => rw [h1, h2] at hpre; exact hpre.elim
  | ok a =>
    cases h2 : encNamePre e2 n [] with
    | error y => rw [h1, h2] at hpre; exact hpre.elim
    | ok b =>
      rw [h1, h2] at hpre
      obtain ⟨a1, la, ra⟩ := a
      obtain ⟨b1, lb, rb⟩ := b
      obtain ⟨hab, hl⟩ := hpre
      simp only [Prod.mk.injEq] at hl
      obtain ⟨rfl, rfl⟩ := hl
      have hd := (local_keys_distinct h1).1
      simp only [mergePre, id]
      cases m1 : a1.merge (σ la) ra with
      | error x =>
        have hx : b1.merge la ra = .error x := by
          unfold Enc.merge at m1 ⊢
          by_cases hr : ra > 16
          · simpa [hr] using m1
          · simp [hr] at m1
        rw [hx]; exact rfl
      | ok a' =>
        cases m2 : b1.merge la ra with
        | error y =>
          unfold Enc.merge at m1 m2
          by_cases hr : ra > 16
          · simp [hr] at m1
          · simp [hr] at m2
        | ok b' =>
          refine ⟨?_, fun k => ?_⟩
          · unfold Enc.merge at m1 m2
            by_cases hr : ra > 16
            · simp [hr] at m1
            · simp [hr] at m1 m2
              subst m1 m2
              exact hab.1
          · rw [lookup_merge m1, lookup_merge m2, hab.2 k]
            have : (σ la).find? (fun p => ciEq p.1 k) = la.find? (fun p => ciEq p.1 k) := by
              apply (find?_perm (hσ la).symm ?_).symm
              intro a ha b hb pa pb
              exact hd.eq_of_ciEq a ha b hb (ciEq_trans_left pa pb)
            rw [this]

/-- special case `σ = id`: the name writer respects lookup-equivalence -/
theorem encName_congr {e1 e2 : Enc} (heq : Enc.LookupEq e1 e2) (n : Name) :
    ExceptRel Enc.LookupEq (encName e1 n) (encName e2 n) := by
  rw [← encNameWith_id e1 n]
  exact encName_order_irrelevant id (fun _ => List.Perm.refl _) heq n

/-- special case of one state: same error, or same output and same later lookups -/
theorem encName_order_irrelevant' (σ : List (Name × Nat) → List (Name × Nat))
    (hσ : ∀ l, (σ l).Perm l) (e : Enc) (n : Name) :
    ExceptRel Enc.LookupEq (encNameWith σ e n) (encName e n) :=
  encName_order_irrelevant σ hσ (Enc.LookupEq.refl e) n

/-- the uncompressed writer does not look at the table at all -/
theorem encNameU_congr : ∀ (n : Name) {e1 e2 : Enc}, Enc.LookupEq e1 e2 →
    ExceptRel Enc.LookupEq (encNameU e1 n) (encNameU e2 n) := by
  intro n
  induction n with
  | nil => intro e1 e2 h; exact h.put [0]
  | cons l rest ih =>
    intro e1 e2 h
    unfold encNameU
    rw [h.1]
    split
    · exact rfl
    split
    · exact rfl
    exact ih (h.put _)

/-! ## Non-vacuity -/

/-- two orders of the local index of `a.b`: same lookups afterwards, different tables -/
example :
    let σ : List (Name × Nat) → List (Name × Nat) := List.reverse
    (∀ l, (σ l).Perm l) ∧
    encNamePre {} [[97], [98]] [] = .ok ({ out := [1, 97, 1, 98, 0] }, [([[98]], 2), ([[97], [98]], 0)], 0) ∧
    encNameWith σ {} [[97], [98]] =
      .ok { out := [1, 97, 1, 98, 0], idx := [([[97], [98]], 0, 0), ([[98]], 2, 0)] } ∧
    encName {} [[97], [98]] =
      .ok { out := [1, 97, 1, 98, 0], idx := [([[98]], 2, 0), ([[97], [98]], 0, 0)] } :=
  ⟨fun l => List.reverse_perm l, rfl, rfl, rfl⟩

/-- distinctness is needed: with two `ciEq` keys the merge order is visible -/
example :
    let loc1 : List (Name × Nat) := [([[97]], 0), ([[65]], 7)]
    let loc2 : List (Name × Nat) := [([[65]], 7), ([[97]], 0)]
    loc1.Perm loc2 ∧ ¬ KeysDistinct loc1 ∧
    ∃ e1 e2, ({} : Enc).merge loc1 0 = .ok e1 ∧ ({} : Enc).merge loc2 0 = .ok e2 ∧
      e1.lookup [[97]] = some (0, 0) ∧ e2.lookup [[97]] = some (7, 0) := by
  refine ⟨List.Perm.swap _ _ _, ?_, _, _, rfl, rfl, by decide, by decide⟩
  intro h
  have := (List.pairwise_cons.mp h).1 ([[65]], 7) (by simp)
  revert this; decide
