import DnsVerif.Lemmas.RTMsg
import DnsVerif.Lemmas.SafeMsg

/-! # Property-level corollaries that were missing from Props/ (C01, C03)

* C01 "every value it returns can be re-encoded without a panic": `reencode*_no_panic` — the composition
  decoder soundness (`Sound.*`) → grammar ⇒ well-formed (`RT.*_wf`) → well-formed ⇒ shaped
  (`RT.wfMsg_shaped`, `RT.wfRR_shaped`) → `EncLim.encode_no_panic`; and the sharper `reencode*_outcome`
  (`RT.encodeDns_error`, `RT.encode*_total`): the ONLY way re-encoding a decoded message can fail is `.length`
  because its uncompressed size exceeds 65535 octets; decoded questions and names always re-encode.
* C03 "each record's TTL/class/type accessors agree with its wire header": `rrAt_header` (grammar level),
  `decodeRR_header`, `decodeRR_header_values` (accessor = big-endian value of the header octets),
  `msgAt_headers`, `decodeDns_headers`, and the positional form `decodeDns_header_at` (the record that follows
  the records `pre` starts exactly where `pre` ends). -/

namespace ExtraB

/-! ## C01: decoded values re-encode without a panic -/

theorem reencode_no_panic {b : Bytes} {m : Msg} {d : D} (h : decodeDns b = .ok (m, d)) (s : String) :
    encodeDns m ≠ .error (.panic s) :=
  (EncLim.encode_no_panic s).2.2.2.2.2.2.2 m (RT.wfMsg_shaped (RT.decodeDns_wf h))

theorem reencodeRR_no_panic {b : Bytes} {rr : RR} {d : D} (hb : b.length < 2 ^ 63)
    (h : decodeRR b = .ok (rr, d)) (s : String) : encodeRR rr ≠ .error (.panic s) :=
  (EncLim.encode_no_panic s).2.2.2.2.2.2.1 rr (RT.wfRR_shaped (RT.decodeRR_wf hb h))

/-- the only failure of re-encoding a decoded message is `.length`, and only for an uncompressed size above
65535 octets (possible: the input may be compressed) -/
theorem reencode_outcome {b : Bytes} {m : Msg} {d : D} (h : decodeDns b = .ok (m, d)) :
    (∃ out, encodeDns m = .ok out) ∨ (encodeDns m = .error .length ∧ 65535 < m.usize) := by
  cases he : encodeDns m with
  | ok out => exact Or.inl ⟨out, rfl⟩
  | error err =>
    obtain ⟨h1, h2⟩ := RT.encodeDns_error (RT.decodeDns_wf h) he
    subst h1
    exact Or.inr ⟨rfl, h2⟩

/-- a decoded question is always re-encoded -/
theorem reencodeQuestion_ok {b : Bytes} {q : Question} {d : D} (hb : b.length < 2 ^ 63)
    (h : decodeQuestion b = .ok (q, d)) : ∃ out, encodeQuestion q = .ok out := by
  obtain ⟨out, ho, _⟩ := RT.encodeQuestion_total (RT.decodeQuestion_wf hb h)
  exact ⟨out, ho⟩

/-- a decoded name is always re-encoded, to its literal wire form -/
theorem reencodeName_ok {b : Bytes} {n : Name} {d : D} (h : decodeName b = .ok (n, d)) :
    encodeName n = .ok (Name.wire n) := by
  obtain ⟨out, ho, hw, _⟩ := RT.encodeName_total (RT.decodeName_wf h)
  rw [ho, hw]

/-! ## C03: the header fields of a record are its accessors -/

/-- grammar level: in a record other than OPT the owner name is at the record's start and TYPE, CLASS, TTL,
RDLENGTH follow it, holding exactly `rr.ty`, `rr.cls`, `rr.ttl` (all in range, so the octets determine the
values) -/
theorem rrAt_header {buf : Bytes} {bk : Bool} {off e' : Nat} {rr : RR} (h : RRAt buf bk off rr e')
    (hty : rr.ty ≠ 41) :
    ∃ e rdlen, NameRefAt buf bk off rr.name e ∧
      BytesAt buf e (beBytes 2 rr.ty ++ beBytes 2 rr.cls ++ beBytes 4 rr.ttl) ∧
      BytesAt buf (e + 8) (beBytes 2 rdlen) ∧ e' = e + 10 + rdlen ∧ e' ≤ buf.length ∧
      rr.ty < 65536 ∧ rr.cls < 65536 ∧ rr.ttl < 2 ^ 32 := by
  have hle := Complete.RRAt.end_le h
  cases h with
  | @normal e rdlen _ _ hn h1 h2 h3 _ _ hb _ =>
    have hb1 := (Sound.bytesAt_append.mp hb).1
    have hb2 := (Sound.bytesAt_append.mp hb).2
    simp only [List.length_append, beBytes_length] at hb2
    exact ⟨e, rdlen, hn, hb1, hb2, rfl, hle, h1, h2, h3⟩
  | opt _ _ _ _ _ _ _ => exact absurd rfl hty

/-- the accessor form: the three accessors are the big-endian values of the octets at `e`, `e + 2`, `e + 4` -/
theorem rrAt_header_values {buf : Bytes} {bk : Bool} {off e' : Nat} {rr : RR} (h : RRAt buf bk off rr e')
    (hty : rr.ty ≠ 41) :
    ∃ e, NameRefAt buf bk off rr.name e ∧ e + 10 ≤ buf.length ∧
      rr.ty = beVal ((buf.drop e).take 2) ∧ rr.cls = beVal ((buf.drop (e + 2)).take 2) ∧
      rr.ttl = beVal ((buf.drop (e + 4)).take 4) := by
  obtain ⟨e, rdlen, hn, hb, _, he, hle, h1, h2, h3⟩ := rrAt_header h hty
  have hb12 := (Sound.bytesAt_append.mp hb).1
  have hb3 := (Sound.bytesAt_append.mp hb).2
  have hb1 := (Sound.bytesAt_append.mp hb12).1
  have hb2 := (Sound.bytesAt_append.mp hb12).2
  simp only [List.length_append, beBytes_length] at hb2 hb3
  have s1 := Sound.bytesAt_eq_slice hb1 (by simp only [beBytes_length]; omega)
  have s2 := Sound.bytesAt_eq_slice hb2 (by simp only [beBytes_length]; omega)
  have s3 := Sound.bytesAt_eq_slice hb3 (by simp only [beBytes_length]; omega)
  simp only [beBytes_length] at s1 s2 s3
  refine ⟨e, hn, by omega, ?_, ?_, ?_⟩
  · rw [s1, Be.beVal_beBytes (by omega)]
  · rw [s2, Be.beVal_beBytes (by omega)]
  · rw [s3, Be.beVal_beBytes (by omega)]

theorem decodeRR_header {b : Bytes} {rr : RR} {d : D} (hb : b.length < 2 ^ 63) (h : decodeRR b = .ok (rr, d))
    (hty : rr.ty ≠ 41) :
    ∃ e, NameRefAt b false 0 rr.name e ∧
      BytesAt b e (beBytes 2 rr.ty ++ beBytes 2 rr.cls ++ beBytes 4 rr.ttl) ∧
      rr.ty < 65536 ∧ rr.cls < 65536 ∧ rr.ttl < 2 ^ 32 := by
  obtain ⟨e, _, hn, hb', _, _, _, h1, h2, h3⟩ := rrAt_header (Sound.decodeRR_sound hb h).1 hty
  exact ⟨e, hn, hb', h1, h2, h3⟩

theorem decodeRR_header_values {b : Bytes} {rr : RR} {d : D} (hb : b.length < 2 ^ 63)
    (h : decodeRR b = .ok (rr, d)) (hty : rr.ty ≠ 41) :
    ∃ e, NameRefAt b false 0 rr.name e ∧ e + 10 ≤ b.length ∧
      rr.ty = beVal ((b.drop e).take 2) ∧ rr.cls = beVal ((b.drop (e + 2)).take 2) ∧
      rr.ttl = beVal ((b.drop (e + 4)).take 4) :=
  rrAt_header_values (Sound.decodeRR_sound hb h).1 hty

/-! ### Messages: every record, with its position -/

theorem rrsAt_append {buf : Bytes} {bk : Bool} {off e e' : Nat} {l1 l2 : List RR} (h1 : RRsAt buf bk off l1 e)
    (h2 : RRsAt buf bk e l2 e') : RRsAt buf bk off (l1 ++ l2) e' := by
  induction h1 with
  | nil => exact h2
  | cons hr _ ih => exact .cons hr (ih h2)

/-- a record list of the grammar splits at every element, the parts being adjacent -/
theorem rrsAt_split {buf : Bytes} {bk : Bool} {rr : RR} {post : List RR} {e' : Nat} :
    ∀ (pre : List RR) {off : Nat}, RRsAt buf bk off (pre ++ rr :: post) e' →
      ∃ o e, RRsAt buf bk off pre o ∧ RRAt buf bk o rr e ∧ RRsAt buf bk e post e'
  | [], off, h => by
    cases h with
    | cons hr ht => exact ⟨off, _, .nil, hr, ht⟩
  | p :: pre, off, h => by
    cases h with
    | cons hr ht =>
      obtain ⟨o, e, h1, h2, h3⟩ := rrsAt_split pre ht
      exact ⟨o, e, .cons hr h1, h2, h3⟩

/-- the three record sections of a message are one adjacent run of records from the end of the question
section to the end of the buffer -/
theorem msgAt_rrs {b : Bytes} {bk : Bool} {m : Msg} (h : MsgAt b bk m) :
    ∃ e1, QuestionsAt b bk 12 m.qs e1 ∧ 12 ≤ e1 ∧ RRsAt b bk e1 (Sound.Msg.rrs m) b.length := by
  obtain ⟨_, _, _, _, _, _, _, _, _, e1, e2, e3, hq, h1, h2, h3⟩ := h
  exact ⟨e1, hq, Complete.QuestionsAt.le hq, rrsAt_append (rrsAt_append h1 h2) h3⟩

/-- positional form: the record `rr` that follows the records `pre` (answer, authority and additional
sections concatenated) starts exactly where `pre` ends, and its header is there -/
theorem msgAt_header_at {b : Bytes} {bk : Bool} {m : Msg} {pre post : List RR} {rr : RR} (h : MsgAt b bk m)
    (hs : Sound.Msg.rrs m = pre ++ rr :: post) (hty : rr.ty ≠ 41) :
    ∃ e1 off e rdlen, QuestionsAt b bk 12 m.qs e1 ∧ RRsAt b bk e1 pre off ∧ 12 ≤ off ∧
      NameRefAt b bk off rr.name e ∧
      BytesAt b e (beBytes 2 rr.ty ++ beBytes 2 rr.cls ++ beBytes 4 rr.ttl) ∧
      BytesAt b (e + 8) (beBytes 2 rdlen) ∧ RRsAt b bk (e + 10 + rdlen) post b.length ∧
      rr.ty < 65536 ∧ rr.cls < 65536 ∧ rr.ttl < 2 ^ 32 := by
  obtain ⟨e1, hq, h12, hr⟩ := msgAt_rrs h
  rw [hs] at hr
  obtain ⟨o, e', hpre, hrr, hpost⟩ := rrsAt_split pre hr
  obtain ⟨e, rdlen, hn, hb, hb2, he, _, h1, h2, h3⟩ := rrAt_header hrr hty
  subst he
  have := Complete.RRsAt.le hpre
  exact ⟨e1, o, e, rdlen, hq, hpre, by omega, hn, hb, hb2, hpost, h1, h2, h3⟩

/-- membership form: every record other than OPT of a message of the grammar -/
theorem msgAt_headers {b : Bytes} {bk : Bool} {m : Msg} (h : MsgAt b bk m) :
    ∀ rr ∈ Sound.Msg.rrs m, rr.ty ≠ 41 → ∃ off e, 12 ≤ off ∧ e + 10 ≤ b.length ∧
      NameRefAt b bk off rr.name e ∧
      BytesAt b e (beBytes 2 rr.ty ++ beBytes 2 rr.cls ++ beBytes 4 rr.ttl) ∧
      rr.ty = beVal ((b.drop e).take 2) ∧ rr.cls = beVal ((b.drop (e + 2)).take 2) ∧
      rr.ttl = beVal ((b.drop (e + 4)).take 4) := by
  intro rr hm hty
  obtain ⟨pre, post, hs⟩ := List.append_of_mem hm
  obtain ⟨e1, _, h12, hr⟩ := msgAt_rrs h
  rw [hs] at hr
  obtain ⟨o, e', hpre, hrr, _⟩ := rrsAt_split pre hr
  have := Complete.RRsAt.le hpre
  obtain ⟨e, _, hn, hb, _⟩ := rrAt_header hrr hty
  obtain ⟨e2, hn2, hle, v1, v2, v3⟩ := rrAt_header_values hrr hty
  obtain ⟨h', hn', _⟩ := hn
  obtain ⟨h2', hn2', _⟩ := hn2
  have hee : e = e2 := (hn'.det hn2').2.2
  subst hee
  exact ⟨o, e, by omega, hle, ⟨h', hn', by assumption⟩, hb, v1, v2, v3⟩

theorem decodeDns_headers {b : Bytes} {m : Msg} {d : D} (h : decodeDns b = .ok (m, d)) :
    ∀ rr ∈ Sound.Msg.rrs m, rr.ty ≠ 41 → ∃ off e, 12 ≤ off ∧ e + 10 ≤ b.length ∧
      NameRefAt b false off rr.name e ∧
      BytesAt b e (beBytes 2 rr.ty ++ beBytes 2 rr.cls ++ beBytes 4 rr.ttl) ∧
      rr.ty = beVal ((b.drop e).take 2) ∧ rr.cls = beVal ((b.drop (e + 2)).take 2) ∧
      rr.ttl = beVal ((b.drop (e + 4)).take 4) :=
  msgAt_headers (Sound.decodeDns_sound h)

theorem decodeDns_header_at {b : Bytes} {m : Msg} {d : D} {pre post : List RR} {rr : RR}
    (h : decodeDns b = .ok (m, d)) (hs : Sound.Msg.rrs m = pre ++ rr :: post) (hty : rr.ty ≠ 41) :
    ∃ e1 off e rdlen, QuestionsAt b false 12 m.qs e1 ∧ RRsAt b false e1 pre off ∧ 12 ≤ off ∧
      NameRefAt b false off rr.name e ∧
      BytesAt b e (beBytes 2 rr.ty ++ beBytes 2 rr.cls ++ beBytes 4 rr.ttl) ∧
      BytesAt b (e + 8) (beBytes 2 rdlen) ∧ RRsAt b false (e + 10 + rdlen) post b.length ∧
      rr.ty < 65536 ∧ rr.cls < 65536 ∧ rr.ttl < 2 ^ 32 :=
  msgAt_header_at (Sound.decodeDns_sound h) hs hty

end ExtraB
