import DnsVerif.Lemmas.EncLimBody

/-! # Encoder limits, part 4: one resource record (`Encoder::rr`)

For every `Shaped` record (the constructor of `rr.rd` matches the table row of `rr.ty`; the Rust
enum makes anything else unrepresentable) and EVERY encoder state:
* `encRR_eq`: `encRR` is "owner name, ten fixed octets, two placeholder octets, body writer,
  back-patch";
* `encRR_ok`: on success the old output is untouched and the appended octets are
  `name ++ fixed ++ RDLENGTH ++ body` where RDLENGTH holds the TRUE body length `≤ 65535`; every
  checked string is `≤ 255` octets, every APL address `< 128` octets;
* `encRR_cause`: on failure the error is `.string` / `.length` / `.aplAddressLength` /
  `.compression` with its cause — never a panic, `NotEnoughBytes` or `MaxRecursion`;
* `encRR_window_too_long` and friends: the converse direction (unrepresentable ⇒ error). -/

namespace EncLim

/-! ## Shape -/

def shapedRR (rr : RR) : Bool :=
  match rrKind rr.ty, rr.rd with
  | some (.regular info), .fields vs => shapedFs (info.flds.map (·.2)) vs
  | some .opt, .opt .. => true
  | some .apl, .apl _ => true
  | some (.svcb _), .svcb .. => true
  | _, _ => false

/-- the record's body has the constructor (and, for the regular types, the field list shape) that
the table prescribes for its type code -/
def Shaped (rr : RR) : Prop := shapedRR rr = true

instance (rr : RR) : Decidable (Shaped rr) := by unfold Shaped; infer_instance

/-! ## The parts of a record -/

/-- the owner name that is written (OPT: the root) -/
def rrOwner (rr : RR) : Name :=
  match rrKind rr.ty with
  | some .opt => []
  | _ => rr.name

/-- TYPE, CLASS, TTL as written (ten octets) -/
def rrFixed (rr : RR) : Bytes :=
  match rrKind rr.ty, rr.rd with
  | some (.regular info), _ =>
    beBytes 2 rr.ty ++ beBytes 2 (match info.inOnly with | none => rr.cls | some _ => 1) ++ beBytes 4 rr.ttl
  | some .opt, .opt payload ext ver dnssec _ =>
    beBytes 2 rr.ty ++ beBytes 2 payload ++ beBytes 4 (optTtlWord ext ver dnssec)
  | _, _ => beBytes 2 rr.ty ++ beBytes 2 1 ++ beBytes 4 rr.ttl

theorem rrFixed_length (rr : RR) : (rrFixed rr).length = 8 := by
  unfold rrFixed
  split <;> simp

/-- the RDATA writer of the record -/
def rrBody (rr : RR) (e : Enc) : Except EErr Enc :=
  match rrKind rr.ty, rr.rd with
  | some (.regular info), .fields vs => encFields e (info.flds.map (·.2)) vs
  | some .opt, .opt _ _ _ _ opts => encOptions e opts
  | some .apl, .apl items => encApItems e items
  | some (.svcb _), .svcb prio target params =>
    match encName (e.put (beBytes 2 prio)) target with
    | .error err => .error err
    | .ok e => if prio = 0 then .ok e else encSvcParams e params
  | _, _ => .error (.panic "field/value mismatch")

/-- **The structure of `Encoder::rr`**, the same for all 46 record types -/
theorem encRR_eq (e : Enc) {rr : RR} (hs : Shaped rr) :
    encRR e rr =
      match encName e (rrOwner rr) with
      | .error err => .error err
      | .ok e1 =>
        match rrBody rr ((e1.put (rrFixed rr)).put [0, 0]) with
        | .error err => .error err
        | .ok e2 => setLen e2 (e1.put (rrFixed rr)).out.length := by
  obtain ⟨name, ty, cls, ttl, rd⟩ := rr
  unfold Shaped shapedRR at hs
  unfold encRR rrOwner rrBody rrFixed
  simp only at hs ⊢
  cases hk : rrKind ty with
  | none => simp [hk] at hs
  | some k =>
    cases k with
    | regular info =>
      cases rd with
      | fields vs => rfl
      | opt _ _ _ _ _ => simp [hk] at hs
      | apl _ => simp [hk] at hs
      | svcb _ _ _ => simp [hk] at hs
    | opt =>
      cases rd with
      | fields vs => simp [hk] at hs
      | opt _ _ _ _ _ => rfl
      | apl _ => simp [hk] at hs
      | svcb _ _ _ => simp [hk] at hs
    | apl =>
      cases rd with
      | fields vs => simp [hk] at hs
      | opt _ _ _ _ _ => simp [hk] at hs
      | apl _ => rfl
      | svcb _ _ _ => simp [hk] at hs
    | svcb b =>
      cases rd with
      | fields vs => simp [hk] at hs
      | opt _ _ _ _ _ => simp [hk] at hs
      | apl _ => simp [hk] at hs
      | svcb prio target params =>
        simp only
        cases encName e name with
        | error err => rfl
        | ok e1 =>
          simp only
          cases encName (((e1.put (beBytes 2 ty ++ beBytes 2 1 ++ beBytes 4 ttl)).put [0, 0]).put
            (beBytes 2 prio)) target with
          | error err => rfl
          | ok e2 => rfl

/-! ## Value-level vocabulary -/

/-- labels and character-strings inside the RDATA -/
def rdataStrs (rr : RR) : List Bytes :=
  match rrKind rr.ty, rr.rd with
  | some (.regular info), .fields vs => fieldsStrs (info.flds.map (·.2)) vs
  | some (.svcb _), .svcb _ target params => target ++ params.flatMap svcStrs
  | _, _ => []

/-- all labels and character-strings of the record -/
def rrStrs (rr : RR) : List Bytes := rrOwner rr ++ rdataStrs rr

/-- the strings whose length the encoder checks unconditionally once it gets there:
character-strings, labels of uncompressed names, `alpn` ids of a ServiceMode record (the
parameters of an alias-form record, `prio = 0`, are not written at all: finding K4b) -/
def rdataChecked (rr : RR) : List Bytes :=
  match rrKind rr.ty, rr.rd with
  | some (.regular info), .fields vs => fieldsChecked (info.flds.map (·.2)) vs
  | some (.svcb _), .svcb prio _ params => if prio = 0 then [] else params.flatMap svcStrs
  | _, _ => []

def rrAplItems (rr : RR) : List APItem :=
  match rrKind rr.ty, rr.rd with
  | some .apl, .apl items => items
  | _, _ => []

/-- the SvcParams that are written -/
def rrSvcParams (rr : RR) : List SvcParam :=
  match rrKind rr.ty, rr.rd with
  | some (.svcb _), .svcb prio _ params => if prio = 0 then [] else params
  | _, _ => []

def rrOptions (rr : RR) : List EdnsOpt :=
  match rrKind rr.ty, rr.rd with
  | some .opt, .opt _ _ _ _ opts => opts
  | _, _ => []

/-- size of the uncompressed RDATA -/
def rdataSize (rr : RR) : Nat :=
  match rrKind rr.ty, rr.rd with
  | some (.regular info), .fields vs => fieldsSize (info.flds.map (·.2)) vs
  | some .opt, .opt _ _ _ _ opts => (opts.map optionSize).sum
  | some .apl, .apl items => (items.map apItemSize).sum
  | some (.svcb _), .svcb prio target params =>
    2 + (Name.sz target + 1) + (if prio = 0 then 0 else (params.map svcSize).sum)
  | _, _ => 0

/-- size of the uncompressed record -/
def rrSize (rr : RR) : Nat := Name.sz (rrOwner rr) + 1 + 10 + rdataSize rr

/-! ## The body writers -/

/-- the four ways of being `Shaped` -/
theorem Shaped.cases {rr : RR} (hs : Shaped rr) :
    (∃ info vs, rrKind rr.ty = some (.regular info) ∧ rr.rd = .fields vs ∧
      shapedFs (info.flds.map (·.2)) vs = true) ∨
    (∃ payload ext ver dnssec opts, rrKind rr.ty = some .opt ∧ rr.rd = .opt payload ext ver dnssec opts) ∨
    (∃ items, rrKind rr.ty = some .apl ∧ rr.rd = .apl items) ∨
    (∃ b prio target params, rrKind rr.ty = some (.svcb b) ∧ rr.rd = .svcb prio target params) := by
  obtain ⟨name, ty, cls, ttl, rd⟩ := rr
  unfold Shaped shapedRR at hs
  simp only at hs ⊢
  cases hk : rrKind ty with
  | none => simp [hk] at hs
  | some k =>
    cases k with
    | regular info =>
      cases rd with
      | fields vs => simp only [hk] at hs; exact Or.inl ⟨info, vs, rfl, rfl, hs⟩
      | opt _ _ _ _ _ => simp [hk] at hs
      | apl _ => simp [hk] at hs
      | svcb _ _ _ => simp [hk] at hs
    | opt =>
      cases rd with
      | fields vs => simp [hk] at hs
      | opt a b c d o => exact Or.inr (Or.inl ⟨a, b, c, d, o, rfl, rfl⟩)
      | apl _ => simp [hk] at hs
      | svcb _ _ _ => simp [hk] at hs
    | apl =>
      cases rd with
      | fields vs => simp [hk] at hs
      | opt _ _ _ _ _ => simp [hk] at hs
      | apl items => exact Or.inr (Or.inr (Or.inl ⟨items, rfl, rfl⟩))
      | svcb _ _ _ => simp [hk] at hs
    | svcb b =>
      cases rd with
      | fields vs => simp [hk] at hs
      | opt _ _ _ _ _ => simp [hk] at hs
      | apl _ => simp [hk] at hs
      | svcb prio target params => exact Or.inr (Or.inr (Or.inr ⟨b, prio, target, params, rfl, rfl⟩))

theorem rrBody_ok {e e' : Enc} {rr : RR} (hs : Shaped rr) (h : rrBody rr e = .ok e') :
    Step e e' (rdataSize rr) ∧ (∀ s ∈ rdataChecked rr, s.length ≤ 255) ∧
    (∀ it ∈ rrAplItems rr, (stripZeros it.addr).length < 128) ∧
    (∀ p ∈ rrSvcParams rr, (svcBody p).length ≤ 65535) ∧
    (∀ o ∈ rrOptions rr, e.out.length + optionSize o ≤ e'.out.length) := by
  rcases hs.cases with ⟨info, vs, hk, hrd, _⟩ | ⟨pl, ext, ver, ds, opts, hk, hrd⟩ | ⟨items, hk, hrd⟩ |
    ⟨b, prio, target, params, hk, hrd⟩
  · simp only [rrBody, hk, hrd] at h
    simp only [rdataSize, rdataChecked, rrAplItems, rrSvcParams, rrOptions, hk, hrd]
    exact ⟨(encFields_ok _ _ _ _ h).1, (encFields_ok _ _ _ _ h).2, by simp, by simp, by simp⟩
  · simp only [rrBody, hk, hrd] at h
    simp only [rdataSize, rdataChecked, rrAplItems, rrSvcParams, rrOptions, hk, hrd]
    refine ⟨encOptions_step h, by simp, by simp, by simp, fun o ho => ?_⟩
    rw [encOptions_ok h, put_out, List.length_append, ← optionWire_length]
    have := length_le_flatMap optionWire ho
    omega
  · simp only [rrBody, hk, hrd] at h
    simp only [rdataSize, rdataChecked, rrAplItems, rrSvcParams, rrOptions, hk, hrd]
    rw [encApItems_eq_foldW] at h
    obtain ⟨hst, hall⟩ := foldW_ok (w := encApItem) (size := apItemSize) (P := fun _ => True)
      (fun _ _ _ _ hw => encApItem_step hw) _ _ _ (fun _ _ => trivial) h
    refine ⟨hst, by simp, fun it hit => ?_, by simp, by simp⟩
    obtain ⟨e1, e2, _, _, _, hw, _⟩ := hall it hit
    exact (encApItem_ok hw).2
  · simp only [rrBody, hk, hrd] at h
    simp only [rdataSize, rdataChecked, rrAplItems, rrSvcParams, rrOptions, hk, hrd]
    cases h1 : encName (e.put (beBytes 2 prio)) target with
    | error err => simp [h1] at h
    | ok e1 =>
      simp only [h1] at h
      have hs1 : Step e e1 (2 + (Name.sz target + 1)) := by
        simpa using (Step.put e (beBytes 2 prio)).trans (encName_step h1)
      by_cases hp : prio = 0
      · simp only [hp, if_true] at h ⊢
        cases h
        exact ⟨by simpa using hs1, by simp, by simp, by simp, by simp⟩
      · simp only [hp, if_false] at h ⊢
        rw [encSvcParams_eq_foldW] at h
        obtain ⟨hst, hall⟩ := foldW_ok (w := encSvcParam) (size := svcSize) (P := fun _ => True)
          (fun _ _ _ _ hw => encSvcParam_step hw) _ _ _ (fun _ _ => trivial) h
        refine ⟨hs1.trans hst, fun s hs => ?_, by simp, fun p hpm => ?_, by simp⟩
        · simp only [List.mem_flatMap] at hs
          obtain ⟨p, hpm, hsp⟩ := hs
          obtain ⟨e2, e3, _, _, _, hw, _⟩ := hall p hpm
          exact (encSvcParam_ok hw).2.2 s hsp
        · obtain ⟨e2, e3, _, _, _, hw, _⟩ := hall p hpm
          exact (encSvcParam_ok hw).2.1

theorem rrBody_cause {e : Enc} {rr : RR} {err : EErr} (hs : Shaped rr)
    (h : rrBody rr e = .error err) :
    Cause e err (∃ s ∈ rdataStrs rr, 255 < s.length) (∃ it ∈ rrAplItems rr, apl128 it)
      (∃ it ∈ rrAplItems rr, apl255 it) False (rdataSize rr) := by
  rcases hs.cases with ⟨info, vs, hk, hrd, hsh⟩ | ⟨pl, ext, ver, ds, opts, hk, hrd⟩ | ⟨items, hk, hrd⟩ |
    ⟨b, prio, target, params, hk, hrd⟩
  · simp only [rrBody, hk, hrd] at h
    simp only [rdataSize, rdataStrs, rrAplItems, hk, hrd]
    exact (encFields_cause _ _ _ _ hsh h).lift id False.elim False.elim id (Nat.le_refl _) id
  · simp only [rrBody, hk, hrd] at h
    simp only [rdataSize, rdataStrs, rrAplItems, hk, hrd]
    rw [encOptions_eq_foldW] at h
    refine (foldW_cause (w := encOption) (size := optionSize) (P := fun _ => True)
      (S := fun _ => False) (A1 := fun _ => False) (A2 := fun _ => False) (C := fun _ => False)
      (fun _ _ _ _ hw => encOption_step hw)
      (fun _ _ _ _ hw => encOption_cause hw) (fun _ _ => trivial) h).lift ?_ ?_ ?_ ?_ (Nat.le_refl _) id
    all_goals (rintro ⟨_, _, hf⟩; exact hf.elim)
  · simp only [rrBody, hk, hrd] at h
    simp only [rdataSize, rdataStrs, rrAplItems, hk, hrd]
    rw [encApItems_eq_foldW] at h
    refine (foldW_cause (w := encApItem) (size := apItemSize) (P := fun _ => True)
      (S := fun _ => False) (A1 := apl128) (A2 := apl255) (C := fun _ => False)
      (fun _ _ _ _ hw => encApItem_step hw)
      (fun _ _ _ _ hw => encApItem_cause hw) (fun _ _ => trivial) h).lift ?_ id id ?_ (Nat.le_refl _) id
    all_goals (rintro ⟨_, _, hf⟩; exact hf.elim)
  · simp only [rrBody, hk, hrd] at h
    simp only [rdataSize, rdataStrs, rrAplItems, hk, hrd]
    cases h1 : encName (e.put (beBytes 2 prio)) target with
    | error err1 =>
      simp [h1] at h; subst h
      refine (encName_cause h1).lift_step (Step.put e (beBytes 2 prio)) ?_ False.elim False.elim id
        (by simp)
      rintro ⟨l, hl, hgt⟩
      exact ⟨l, by simp [hl], hgt⟩
    | ok e1 =>
      simp only [h1] at h
      have hs1 : Step e e1 (2 + (Name.sz target + 1)) := by
        simpa using (Step.put e (beBytes 2 prio)).trans (encName_step h1)
      by_cases hp : prio = 0
      · simp [hp] at h
      · simp only [hp, if_false] at h ⊢
        rw [encSvcParams_eq_foldW] at h
        refine (foldW_cause (w := encSvcParam) (size := svcSize) (P := fun _ => True)
          (S := fun p => ∃ s ∈ svcStrs p, 255 < s.length) (A1 := fun _ => False)
          (A2 := fun _ => False) (C := fun _ => False) (fun _ _ _ _ hw => encSvcParam_step hw)
          (fun _ _ _ _ hw => encSvcParam_cause hw) (fun _ _ => trivial) h).lift_step hs1 ?_ ?_ ?_ ?_
          (Nat.le_refl _)
        · rintro ⟨p, hpm, s, hsp, hgt⟩
          exact ⟨s, by simp only [List.mem_append, List.mem_flatMap]; exact Or.inr ⟨p, hpm, hsp⟩, hgt⟩
        all_goals (rintro ⟨_, _, hf⟩; exact hf.elim)

/-! ## The record -/

/-- **Success of `Encoder::rr`** (every `Shaped` record, every state): the old output is untouched;
appended are the owner name as written by `encName`, the ten fixed octets, RDLENGTH and the body,
where RDLENGTH holds the TRUE body length, which is `≤ 65535`; every string the encoder checks has
at most 255 octets, every APL address fewer than 128, every SvcParam value at most 65535 and every
EDNS option (INCLUDING padding, whose own length field the model does not check: an oversized
padding option makes the RDATA window overflow) at most 65535 with its four header octets; the weak
table invariant is kept. -/
theorem encRR_ok {e e' : Enc} {rr : RR} (hs : Shaped rr) (h : encRR e rr = .ok e') :
    (∃ e1 nm body, encName e (rrOwner rr) = .ok e1 ∧ e1.out = e.out ++ nm ∧
      1 ≤ nm.length ∧ nm.length ≤ Name.sz (rrOwner rr) + 1 ∧
      e'.out = e.out ++ nm ++ rrFixed rr ++ beBytes 2 body.length ++ body ∧
      body.length ≤ 65535 ∧ body.length ≤ rdataSize rr) ∧
    (IdxLe e → IdxLe e') ∧
    (∀ s ∈ rdataChecked rr, s.length ≤ 255) ∧
    (∀ it ∈ rrAplItems rr, (stripZeros it.addr).length < 128) ∧
    (∀ p ∈ rrSvcParams rr, (svcBody p).length ≤ 65535) ∧
    (∀ o ∈ rrOptions rr, (optionBody o).length + 4 ≤ 65535) := by
  rw [encRR_eq e hs] at h
  cases h1 : encName e (rrOwner rr) with
  | error err => simp [h1] at h
  | ok e1 =>
    simp only [h1] at h
    cases h2 : rrBody rr ((e1.put (rrFixed rr)).put [0, 0]) with
    | error err => simp [h2] at h
    | ok e2 =>
      simp only [h2] at h
      obtain ⟨hst, hchk, hapl, hsvc, hopt⟩ := rrBody_ok hs h2
      obtain ⟨body, hb, hbl, hset⟩ := setLen_after hst
      rw [hset] at h
      split at h
      · cases h
      · rename_i hle
        cases h
        obtain ⟨nm, hnm, hn1, hn2⟩ := encName_size_le h1
        refine ⟨⟨e1, nm, body, rfl, hnm, hn1, hn2, ?_, by omega, hbl⟩, ?_, hchk, hapl, hsvc, ?_⟩
        · simp only [put_out, hnm]
        · intro hi
          have h3 : IdxLe e2 := hst.idx ((encName_step h1).idx hi)
          exact h3
        · intro o ho
          have h4 := hopt o ho
          rw [hb] at h4
          simp only [put_out, List.length_append, optionSize] at h4
          omega

/-- a successful record is a `Step` of at most `rrSize rr` octets -/
theorem encRR_step {e e' : Enc} {rr : RR} (hs : Shaped rr) (h : encRR e rr = .ok e') :
    Step e e' (rrSize rr) := by
  obtain ⟨⟨e1, nm, body, _, _, _, hn2, ho, _, hbl⟩, hi, _⟩ := encRR_ok hs h
  refine ⟨⟨nm ++ rrFixed rr ++ beBytes 2 body.length ++ body, by rw [ho]; simp, ?_⟩, hi⟩
  simp only [List.length_append, rrFixed_length, beBytes_length, rrSize]
  omega

/-- complete writers leave the old output alone: the form asked for in the task -/
theorem encRR_take {e e' : Enc} {rr : RR} (hs : Shaped rr) (h : encRR e rr = .ok e') :
    e.out.length ≤ e'.out.length ∧ e'.out.take e.out.length = e.out :=
  ⟨(encRR_step hs h).length_le, (encRR_step hs h).take⟩

/-- **Failure of `Encoder::rr`** (every `Shaped` record, every state): only `.string`, `.length`,
`.aplAddressLength`, `.compression`, each with its cause. -/
theorem encRR_cause {e : Enc} {rr : RR} {err : EErr} (hs : Shaped rr) (h : encRR e rr = .error err) :
    Cause e err (∃ s ∈ rrStrs rr, 255 < s.length) (∃ it ∈ rrAplItems rr, apl128 it)
      (∃ it ∈ rrAplItems rr, apl255 it) False (rrSize rr) := by
  rw [encRR_eq e hs] at h
  cases h1 : encName e (rrOwner rr) with
  | error err1 =>
    simp [h1] at h; subst h
    refine (encName_cause h1).lift ?_ False.elim False.elim id (by unfold rrSize; omega) id
    rintro ⟨l, hl, hgt⟩
    exact ⟨l, by simp [rrStrs, hl], hgt⟩
  | ok e1 =>
    simp only [h1] at h
    have hs1 : Step e ((e1.put (rrFixed rr)).put [0, 0]) (Name.sz (rrOwner rr) + 1 + 10) := by
      have := ((encName_step h1).trans (Step.put e1 (rrFixed rr))).trans
        (Step.put (e1.put (rrFixed rr)) [0, 0])
      simpa [rrFixed_length] using this
    cases h2 : rrBody rr ((e1.put (rrFixed rr)).put [0, 0]) with
    | error err2 =>
      simp [h2] at h; subst h
      refine (rrBody_cause hs h2).lift_step hs1 ?_ id id id (by unfold rrSize; omega)
      rintro ⟨s, hm, hgt⟩
      exact ⟨s, by simp [rrStrs, hm], hgt⟩
    | ok e2 =>
      simp only [h2] at h
      obtain ⟨hst, _⟩ := rrBody_ok hs h2
      obtain ⟨body, hb, hbl, hset⟩ := setLen_after hst
      rw [hset] at h
      split at h
      · rename_i hgt
        cases h
        refine Or.inr (Or.inl ⟨rfl, Or.inr (Or.inr ?_)⟩)
        have h3 := (hs1.trans hst).length_le_add
        have h4 : body.length ≤ e2.out.length := by rw [hb]; simp; omega
        unfold rrSize; omega
      · cases h

/-! ## The converse direction: unrepresentable ⇒ error -/

/-- a checked string (character-string, uncompressed label, `alpn` id of a ServiceMode record) of
more than 255 octets makes `Encoder::rr` fail, from every state -/
theorem encRR_long_string (e : Enc) {rr : RR} (hs : Shaped rr)
    (h : ∃ s ∈ rdataChecked rr, 255 < s.length) : ∃ err, encRR e rr = .error err := by
  cases hr : encRR e rr with
  | error err => exact ⟨err, rfl⟩
  | ok e' =>
    obtain ⟨s, hm, hgt⟩ := h
    have := (encRR_ok hs hr).2.2.1 s hm
    omega

/-- an APL address of 128 or more octets (after stripping trailing zeros) makes it fail -/
theorem encRR_long_apl (e : Enc) {rr : RR} (hs : Shaped rr)
    (h : ∃ it ∈ rrAplItems rr, 128 ≤ (stripZeros it.addr).length) : ∃ err, encRR e rr = .error err := by
  cases hr : encRR e rr with
  | error err => exact ⟨err, rfl⟩
  | ok e' =>
    obtain ⟨it, hm, hgt⟩ := h
    have := (encRR_ok hs hr).2.2.2.1 it hm
    omega

/-- a SvcParam value of more than 65535 octets (e.g. an `ech` of more than 65533) makes it fail -/
theorem encRR_long_svcparam (e : Enc) {rr : RR} (hs : Shaped rr)
    (h : ∃ p ∈ rrSvcParams rr, 65535 < (svcBody p).length) : ∃ err, encRR e rr = .error err := by
  cases hr : encRR e rr with
  | error err => exact ⟨err, rfl⟩
  | ok e' =>
    obtain ⟨p, hm, hgt⟩ := h
    have := (encRR_ok hs hr).2.2.2.2.1 p hm
    omega

/-- an EDNS option (of any kind, padding included) of more than 65535 octets with its header makes
it fail -/
theorem encRR_long_option (e : Enc) {rr : RR} (hs : Shaped rr)
    (h : ∃ o ∈ rrOptions rr, 65535 < (optionBody o).length + 4) :
    ∃ err, encRR e rr = .error err := by
  cases hr : encRR e rr with
  | error err => exact ⟨err, rfl⟩
  | ok e' =>
    obtain ⟨o, hm, hgt⟩ := h
    have := (encRR_ok hs hr).2.2.2.2.2 o hm
    omega

/-- **RDATA longer than 65535 octets**: if the owner name and the body are written successfully and
the octets appended between the RDLENGTH placeholder and the back-patch exceed 65535, then
`Encoder::rr` fails with `.length` (it never emits a wrapped or truncated RDLENGTH). -/
theorem encRR_window_too_long {e e1 e2 : Enc} {rr : RR} (hs : Shaped rr)
    (h1 : encName e (rrOwner rr) = .ok e1)
    (h2 : rrBody rr ((e1.put (rrFixed rr)).put [0, 0]) = .ok e2)
    (hlen : 65535 < e2.out.length - ((e1.put (rrFixed rr)).put [0, 0]).out.length) :
    encRR e rr = .error .length := by
  rw [encRR_eq e hs]
  simp only [h1, h2]
  obtain ⟨hst, _⟩ := rrBody_ok hs h2
  obtain ⟨body, hb, _, hset⟩ := setLen_after hst
  rw [hset, if_pos]
  rw [hb] at hlen
  simp only [put_out, List.length_append] at hlen ⊢
  simp only [List.length_cons, List.length_nil] at hlen
  omega

/-- … and conversely, with the same intermediate results and a window of at most 65535 octets, it
succeeds -/
theorem encRR_window_fits {e e1 e2 : Enc} {rr : RR} (hs : Shaped rr)
    (h1 : encName e (rrOwner rr) = .ok e1)
    (h2 : rrBody rr ((e1.put (rrFixed rr)).put [0, 0]) = .ok e2)
    (hlen : e2.out.length - ((e1.put (rrFixed rr)).put [0, 0]).out.length ≤ 65535) :
    ∃ e', encRR e rr = .ok e' := by
  rw [encRR_eq e hs]
  simp only [h1, h2]
  obtain ⟨hst, _⟩ := rrBody_ok hs h2
  obtain ⟨body, hb, _, hset⟩ := setLen_after hst
  rw [hset, if_neg]
  · exact ⟨_, rfl⟩
  · rw [hb] at hlen
    simp only [put_out, List.length_append] at hlen ⊢
    simp only [List.length_cons, List.length_nil] at hlen
    omega

/-- **Where a `.length` of `Encoder::rr` comes from** (the execution-level reading of
`encRR_cause`): the owner-name writer returned it (a label was to be written at an offset above
65535: `encNameGo_error_cases`), or the body writer returned it (again a label offset; an option /
SvcParam window or an `ech` above 65535: `encOption_eq`, `encSvcParam_eq`; an APL address above
255: `encApItem_eq`), or both succeeded and the RDATA window has more than 65535 octets. -/
theorem encRR_length_cases {e : Enc} {rr : RR} (hs : Shaped rr) (h : encRR e rr = .error .length) :
    encName e (rrOwner rr) = .error .length ∨
    (∃ e1, encName e (rrOwner rr) = .ok e1 ∧
      rrBody rr ((e1.put (rrFixed rr)).put [0, 0]) = .error .length) ∨
    (∃ e1 e2, encName e (rrOwner rr) = .ok e1 ∧
      rrBody rr ((e1.put (rrFixed rr)).put [0, 0]) = .ok e2 ∧
      65535 < e2.out.length - ((e1.put (rrFixed rr)).put [0, 0]).out.length) := by
  rw [encRR_eq e hs] at h
  cases h1 : encName e (rrOwner rr) with
  | error err1 => simp only [h1] at h; exact Or.inl h
  | ok e1 =>
    simp only [h1] at h
    cases h2 : rrBody rr ((e1.put (rrFixed rr)).put [0, 0]) with
    | error err2 => simp only [h2] at h; exact Or.inr (Or.inl ⟨e1, rfl, h2.trans h⟩)
    | ok e2 =>
      refine Or.inr (Or.inr ⟨e1, e2, rfl, h2, ?_⟩)
      rcases Nat.lt_or_ge 65535 (e2.out.length - ((e1.put (rrFixed rr)).put [0, 0]).out.length)
        with hlt | hge
      · exact hlt
      · obtain ⟨e', he'⟩ := encRR_window_fits hs h1 h2 hge
        rw [encRR_eq e hs] at he'
        simp only [h1, h2] at h he'
        rw [he'] at h; cases h

/-! ## Corollaries: the unreachable errors, one by one -/

theorem encRR_ne_panic (e : Enc) {rr : RR} (hs : Shaped rr) (s : String) :
    encRR e rr ≠ .error (.panic s) := fun h => (encRR_cause hs h).ne_panic s rfl

theorem encRR_ne_notEnoughBytes (e : Enc) {rr : RR} (hs : Shaped rr) :
    encRR e rr ≠ .error .notEnoughBytes := fun h => (encRR_cause hs h).ne_notEnoughBytes rfl

theorem encRR_ne_maxRecursion (e : Enc) {rr : RR} (hs : Shaped rr) :
    encRR e rr ≠ .error .maxRecursion := fun h => (encRR_cause hs h).ne_maxRecursion rfl

theorem encRR_ne_compression {S : Nat → Prop} {e : Enc} (hinv : EInv S e) {rr : RR} (hs : Shaped rr) :
    encRR e rr ≠ .error .compression :=
  fun h => (encRR_cause hs h).ne_compression (IdxLe.of_EInv hinv) rfl

/-! ## Non-vacuity -/

/-- an MX record: shaped, encodes, and the frame of `encRR_ok` is what one expects -/
example : Shaped ⟨[[97]], 15, 1, 300, .fields [.num 10, .name [[98], [97]]]⟩ := by decide

example : encodeRR ⟨[[97]], 15, 1, 300, .fields [.num 10, .name [[98], [97]]]⟩ =
    .ok ([1, 97, 0] ++ [0, 15, 0, 1, 0, 0, 1, 44] ++ [0, 6] ++ [0, 10, 1, 98, 192, 0]) := rfl

/-- a wrongly shaped record is the (Rust-unrepresentable) panic outcome -/
example : ¬ Shaped ⟨[], 15, 1, 0, .fields [.num 10]⟩ ∧
    encodeRR ⟨[], 15, 1, 0, .fields [.num 10]⟩ = .error (.panic "field/value mismatch") :=
  ⟨by decide, rfl⟩

/-- a TXT record with a string of more than 255 octets is refused, from every state -/
example (e : Enc) (s : Bytes) (h : 255 < s.length) :
    ∃ err, encRR e ⟨[], 16, 1, 0, .fields [.strs [s]]⟩ = .error err :=
  encRR_long_string e (rr := ⟨[], 16, 1, 0, .fields [.strs [s]]⟩) rfl ⟨s, List.Mem.head _, h⟩

end EncLim
