import DnsVerif.Lemmas.ApiOk
import DnsVerif.Lemmas.ExtraA
import DnsVerif.Lemmas.ExtraC
import DnsVerif.Lemmas.RTElem
import DnsVerif.Props.C11

/-! # The converse of the classification (C08, last clause): membership in a class breaks the round trip

`ApiOk.classified` says: an API-constructible value that encodes `Ok` is well-formed or lies in one of the
classes K3, K4a, K4b, K4c. Here the converse, for EVERY value (not only the witnesses of `classes_violate`):

* Part A (`never_decoded`): a value in one of the four classes is never the result of `Dns::decode`, on
  ANY input and up to `Msg.norm` – decoded values are well-formed (`RT.decodeDns_wf`), the classes are closed
  under `norm`-equality and disjoint from `WfMsg`. Hence `roundtrip_iff`: for an API-constructible value that
  encodes `Ok`, "decodes back to the same value" holds IF AND ONLY IF the value is in none of the classes.
* Part B: what happens instead, per class. K3: the decoded flags are the original ones with `cd := true`
  and `rcode - 16`. K4b: the record decodes to the one with NO parameters (element level), and the whole
  message is encoded exactly like `Msg.dropAlias m` (message level), which is what it decodes to. K4a: the
  decoder never returns `PRIVATE { number }` for a registered number. K4c: the emitted record does not
  decode at all. -/

namespace ApiOkConv

open EncLim Finding

/-! ## Part A: the classes are closed under `norm`-equality -/

theorem bytes_of_lower {v' : FVal} {x : Bytes} (h : v'.lower = FVal.lower (.bytes x)) : v' = .bytes x := by
  cases v' <;> simp [FVal.lower] at h
  simp [h]

theorem priv_of_norm {p' : SvcParam} {k : Nat} {x : Bytes} (h : p'.norm = .priv k x) : p' = .priv k x := by
  cases p' <;> simp [SvcParam.norm] at h
  simp [h]

theorem K4aRR_of_norm {r' r : RR} (h : r'.norm = r.norm) (hk : K4aRR r) : K4aRR r' := by
  obtain ⟨prio, target, params, k, x, hrd, hmem, hbad⟩ := hk
  obtain ⟨_, _, _, _, h5⟩ := RT.rr_norm_eq_iff.mp h
  rw [hrd] at h5
  obtain ⟨t', ps', h6, _, h8⟩ := RT.rdata_norm_svcb h5
  have hm : SvcParam.norm (.priv k x) ∈ ps'.map SvcParam.norm := by
    rw [h8]; exact List.mem_map_of_mem hmem
  obtain ⟨p', hp', hpn⟩ := List.mem_map.mp hm
  have : p' = .priv k x := priv_of_norm (by simpa [SvcParam.norm] using hpn)
  exact ⟨prio, t', ps', k, x, h6, this ▸ hp', hbad⟩

theorem K4bRR_of_norm {r' r : RR} (h : r'.norm = r.norm) (hk : K4bRR r) : K4bRR r' := by
  obtain ⟨target, params, hrd, hne⟩ := hk
  obtain ⟨_, _, _, _, h5⟩ := RT.rr_norm_eq_iff.mp h
  rw [hrd] at h5
  obtain ⟨t', ps', h6, _, h8⟩ := RT.rdata_norm_svcb h5
  refine ⟨t', ps', h6, fun hnil => hne ?_⟩
  subst hnil
  cases params with
  | nil => rfl
  | cons p ps => simp at h8

theorem K4cRR_of_norm {r' r : RR} (h : r'.norm = r.norm) (hk : K4cRR r) : K4cRR r' := by
  obtain ⟨hty, lo, la, al, hrd, hemp⟩ := hk
  obtain ⟨_, h2, _, _, h5⟩ := RT.rr_norm_eq_iff.mp h
  rw [hrd] at h5
  obtain ⟨vs', h6, h7⟩ := RT.rdata_norm_fields h5
  refine ⟨h2.trans hty, lo, la, al, ?_, hemp⟩
  rw [h6]
  rcases vs' with _ | ⟨a, _ | ⟨b, _ | ⟨c, _ | ⟨d, r⟩⟩⟩⟩ <;> simp at h7
  rw [bytes_of_lower h7.1, bytes_of_lower h7.2.1, bytes_of_lower h7.2.2]

/-- a record with the same `norm` exists in the other message -/
theorem mem_of_map_norm {l' l : List RR} (h : l'.map RR.norm = l.map RR.norm) {r : RR} (hr : r ∈ l) :
    ∃ r' ∈ l', r'.norm = r.norm := by
  have : r.norm ∈ l'.map RR.norm := by rw [h]; exact List.mem_map_of_mem hr
  obtain ⟨r', h1, h2⟩ := List.mem_map.mp this
  exact ⟨r', h1, h2⟩

theorem msgRRs_of_norm {m' m : Msg} (h : m'.norm = m.norm) {r : RR} (hr : r ∈ msgRRs m) :
    ∃ r' ∈ msgRRs m', r'.norm = r.norm := by
  obtain ⟨_, _, _, h4, h5, h6⟩ := RT.msg_norm_eq_iff.mp h
  simp only [msgRRs, List.mem_append] at hr ⊢
  rcases hr with (hr | hr) | hr
  · obtain ⟨r', h1, h2⟩ := mem_of_map_norm h4 hr; exact ⟨r', Or.inl (Or.inl h1), h2⟩
  · obtain ⟨r', h1, h2⟩ := mem_of_map_norm h5 hr; exact ⟨r', Or.inl (Or.inr h1), h2⟩
  · obtain ⟨r', h1, h2⟩ := mem_of_map_norm h6 hr; exact ⟨r', Or.inr h1, h2⟩

theorem K3_of_norm {m' m : Msg} (h : m'.norm = m.norm) (hk : K3 m) : K3 m' := by
  have := (RT.msg_norm_eq_iff.mp h).2.1
  unfold K3 at hk ⊢
  rw [this]; exact hk

theorem K4a_of_norm {m' m : Msg} (h : m'.norm = m.norm) (hk : K4a m) : K4a m' := by
  obtain ⟨r, hr, hk⟩ := hk
  obtain ⟨r', hr', hn⟩ := msgRRs_of_norm h hr
  exact ⟨r', hr', K4aRR_of_norm hn hk⟩

theorem K4b_of_norm {m' m : Msg} (h : m'.norm = m.norm) (hk : K4b m) : K4b m' := by
  obtain ⟨r, hr, hk⟩ := hk
  obtain ⟨r', hr', hn⟩ := msgRRs_of_norm h hr
  exact ⟨r', hr', K4bRR_of_norm hn hk⟩

theorem K4c_of_norm {m' m : Msg} (h : m'.norm = m.norm) (hk : K4c m) : K4c m' := by
  obtain ⟨r, hr, hk⟩ := hk
  obtain ⟨r', hr', hn⟩ := msgRRs_of_norm h hr
  exact ⟨r', hr', K4cRR_of_norm hn hk⟩

/-- **a value in one of the four classes is never the result of `Dns::decode`** (of any octets, and up to
ASCII case of names and the order of `mandatory` keys) -/
theorem never_decoded {m : Msg} (hk : K3 m ∨ K4a m ∨ K4b m ∨ K4c m) {b : Bytes} {m' : Msg} {d : D}
    (hd : decodeDns b = .ok (m', d)) : m'.norm ≠ m.norm := by
  intro hn
  obtain ⟨n3, n4a, n4b, n4c⟩ := ApiOk.wf_not_finding (RT.decodeDns_wf hd)
  rcases hk with h | h | h | h
  · exact n3 (K3_of_norm hn h)
  · exact n4a (K4a_of_norm hn h)
  · exact n4b (K4b_of_norm hn h)
  · exact n4c (K4c_of_norm hn h)

/-- **the classification is exact**: for an API-constructible value that `encode` accepts, the emitted
octets decode back to the same value (up to `norm`) if and only if the value is in none of the classes -/
theorem roundtrip_iff {m : Msg} {b : Bytes} (ha : ApiOk m) (h : encodeDns m = .ok b) :
    (∃ m' d, decodeDns b = .ok (m', d) ∧ m'.norm = m.norm) ↔ ¬ (K3 m ∨ K4a m ∨ K4b m ∨ K4c m) := by
  constructor
  · rintro ⟨m', d, hd, hn⟩ hk
    exact never_decoded hk hd hn
  · intro hk
    exact ApiOk.decodes_back ha (fun x => hk (Or.inl x)) (fun x => hk (Or.inr (Or.inl x)))
      (fun x => hk (Or.inr (Or.inr (Or.inl x)))) (fun x => hk (Or.inr (Or.inr (Or.inr x)))) h

/-- a well-formed record is in none of the record-level classes -/
theorem wfRR_not_finding {rr : RR} (hwf : WfRR rr) : ¬ K4aRR rr ∧ ¬ K4bRR rr ∧ ¬ K4cRR rr := by
  refine ⟨?_, ?_, ?_⟩
  · rintro ⟨prio, target, params, k, b, hrd, hpm, hbad⟩
    have h := hwf.1
    rw [hrd] at h
    have h' : 7 ≤ k ∧ k < 65535 := h.2.2.2.2.1 _ hpm
    omega
  · rintro ⟨target, params, hrd, hne⟩
    have h := hwf.1
    rw [hrd] at h
    exact hne (h.2.2.2.2.2 rfl)
  · rintro ⟨hty, lo, la, al, hrd, hemp⟩
    have h := hwf.1
    rw [hrd, hty] at h
    obtain ⟨info, hk, hv⟩ := h
    have hi : info = ⟨"GPOS", none, [("longitude", .cstr .gpos), ("latitude", .cstr .gpos),
        ("altitude", .cstr .gpos)]⟩ := by
      have : some (RRKind.regular info) = rrKind 27 := hk.symm
      simp only [rrKind] at this
      injection this with this
      injection this
    subst hi
    obtain ⟨⟨_, _, h1⟩, ⟨_, _, h2⟩, ⟨_, _, h3⟩, _⟩ := hv
    have e1 := ((gpos_ok_iff _ _).mp h1).2.1
    have e2 := ((gpos_ok_iff _ _).mp h2).2.1
    have e3 := ((gpos_ok_iff _ _).mp h3).2.1
    rcases hemp with rfl | rfl | rfl
    · simp at e1
    · simp at e2
    · simp at e3

/-- the same at the element level: a record in K4a / K4b / K4c is never the result of `RR::decode` -/
theorem rr_never_decoded {rr : RR} (hk : K4aRR rr ∨ K4bRR rr ∨ K4cRR rr) {b : Bytes} (hb : b.length < 2 ^ 63)
    {rr' : RR} {d : D} (hd : decodeRR b = .ok (rr', d)) : rr'.norm ≠ rr.norm := by
  intro hn
  obtain ⟨n4a, n4b, n4c⟩ := wfRR_not_finding (RT.decodeRR_wf hb hd)
  rcases hk with h | h | h
  · exact n4a (K4aRR_of_norm hn h)
  · exact n4b (K4bRR_of_norm hn h)
  · exact n4c (K4cRR_of_norm hn h)

/-! ## Part B, K3: the decoded flags -/

theorem bytesAt_eq {buf : Bytes} {off : Nat} {x y : Bytes} (hx : BytesAt buf off x) (hy : BytesAt buf off y)
    (hl : x.length = y.length) : x = y := by
  apply List.ext_getElem?
  intro i
  rcases Nat.lt_or_ge i x.length with hi | hi
  · rw [← hx i hi, ← hy i (by omega)]
  · rw [List.getElem?_eq_none (by omega), List.getElem?_eq_none (by omega)]

/-- the flag octets of the emitted message are read by `Dns::decode` as the flags of the result -/
theorem decoded_flags {m m' : Msg} {b : Bytes} {d : D} (hs : ShapedMsg m) (h : encodeDns m = .ok b)
    (hd : decodeDns b = .ok (m', d)) : ∃ d', decodeFlags (encodeFlags m.flags) = .ok (m'.flags, d') := by
  obtain ⟨rest, hb⟩ := ExtraC.header_embeds hs h
  obtain ⟨_, _, _, hfl, _, _, _, _, hH, _⟩ := Sound.decodeDns_sound hd
  have h1 : BytesAt b 2 (beBytes 2 (flagsWord m'.flags)) := by
    have := EncSpec.bytesAt_right (EncSpec.bytesAt_left (EncSpec.bytesAt_left (EncSpec.bytesAt_left
      (EncSpec.bytesAt_left hH))))
    simpa using this
  have h2 : BytesAt b 2 (flagsBytes m.flags) := by
    intro i hi
    subst hb
    have hi' : i < 2 := by simpa [flagsBytes] using hi
    simp only [msgHeader, List.append_assoc]
    rw [List.getElem?_append_right (by simp), List.getElem?_append_left (by simpa [flagsBytes] using hi')]
    simp
  have heq : beBytes 2 (flagsWord m'.flags) = flagsBytes m.flags :=
    bytesAt_eq h1 h2 (by simp [flagsBytes])
  refine ⟨_, Complete.decodeFlags_complete hfl ?_ (by simp [encodeFlags, flagsBytes])⟩
  show BytesAt (flagsBytes m.flags) 0 _
  rw [← heq]
  intro i _
  simp

/-- **K3, for every value**: whatever `Dns::decode` returns for the octets emitted for a message with an
extended rcode, its flags are the original flags with `cd := true` and `rcode := rcode - 16` -/
theorem k3_decoded_flags {m m' : Msg} {b : Bytes} {d : D} (h3 : K3 m) (hf : ApiOkFlags m.flags)
    (hs : ShapedMsg m) (h : encodeDns m = .ok b) (hd : decodeDns b = .ok (m', d)) :
    m'.flags = { m.flags with cd := true, rcode := m.flags.rcode - 16 } := by
  obtain ⟨d', h1⟩ := decoded_flags hs h hd
  have h2 := C11.flags_K3_all m.flags hf.1 ⟨hf.2, h3⟩
  rw [h1] at h2
  injection h2 with h2
  exact (Prod.mk.inj h2).1

/-- **K3 never round-trips** (no premise on how the value was built beyond the `Flags` enums) -/
theorem k3_never_roundtrips {m : Msg} (h3 : K3 m) {b : Bytes} {m' : Msg} {d : D}
    (hd : decodeDns b = .ok (m', d)) : m'.flags ≠ m.flags := by
  intro hf
  have := (RT.decodeDns_wf hd).2.1.2.2
  unfold K3 at h3
  rw [hf] at this
  omega

/-! ## Part B, K4a: the decoder never returns `PRIVATE` for a registered number -/

theorem decSvcParam_not_priv {k : Nat} {d d' : D} {p : SvcParam} (h : decSvcParam k d = .ok (p, d'))
    (hk : k ≤ 6 ∨ k = 65535) : ∀ x, p ≠ .priv k x := by
  intro x hp
  subst hp
  unfold decSvcParam at h
  simp only at h
  split at h
  · split at h <;> simp at h
  split at h
  · split at h <;> simp at h
  split at h
  · simp at h
  split at h
  · split at h <;> simp at h
  split at h
  · split at h <;> simp at h
  split at h
  · split at h
    · simp at h
    · split at h
      · simp at h
      · split at h <;> simp at h
  split at h
  · split at h <;> simp at h
  split at h
  · simp at h
  omega


/-- the element-level form: whatever `RR::decode` returns, no parameter of it is `PRIVATE` with a
registered number (so a K4a record is re-read as the registered kind, or not at all) -/
theorem decoded_no_registered_priv {b : Bytes} (hb : b.length < 2 ^ 63) {rr' : RR} {d : D}
    (hd : decodeRR b = .ok (rr', d)) {prio : Nat} {target : Name} {ps : List SvcParam}
    (hrd : rr'.rd = .svcb prio target ps) {k : Nat} (hk : k ≤ 6 ∨ k = 65535) (x : Bytes) :
    SvcParam.priv k x ∉ ps :=
  fun hm => (wfRR_not_finding (RT.decodeRR_wf hb hd)).1 ⟨prio, target, ps, k, x, hrd, hm, hk⟩

/-- the same for whole messages -/
theorem decoded_msg_no_registered_priv {b : Bytes} {m' : Msg} {d : D} (hd : decodeDns b = .ok (m', d))
    {rr' : RR} (hr : rr' ∈ msgRRs m') {prio : Nat} {target : Name} {ps : List SvcParam}
    (hrd : rr'.rd = .svcb prio target ps) {k : Nat} (hk : k ≤ 6 ∨ k = 65535) (x : Bytes) :
    SvcParam.priv k x ∉ ps :=
  fun hm => (ApiOk.wf_not_finding (RT.decodeDns_wf hd)).2.1 ⟨rr', hr, prio, target, ps, k, x, hrd, hm, hk⟩

/-! ## Part B, K4b: the parameters of an alias-form record are dropped -/

/-- the well-formed twin of an API-constructible alias-form record -/
theorem alias_twin_wf {rr : RR} {target : Name} {ps : List SvcParam} (ha : ApiOkRR rr)
    (hrd : rr.rd = .svcb 0 target ps) : WfRR { rr with rd := .svcb 0 target [] } := by
  obtain ⟨name, ty, cls, ttl, rd⟩ := rr
  simp only at hrd
  subst hrd
  obtain ⟨⟨hk, hp, htg, _, _⟩, hn, hc, ht⟩ := ha
  exact ⟨⟨hk, hp, ApiOk.name_wf htg, trivial, fun p hp => (by cases hp), fun _ => rfl⟩,
    ApiOk.name_wf hn, hc, ht⟩

/-- **K4b, element level, for every value**: the octets emitted for an API-constructible alias-form record
(whatever its parameter list) decode to the record with NO parameters -/
theorem k4b_decodes_to {rr : RR} {target : Name} {ps : List SvcParam} {b : Bytes} (ha : ApiOkRR rr)
    (hrd : rr.rd = .svcb 0 target ps) (h : encodeRR rr = .ok b) :
    ∃ target' d, decodeRR b = .ok ({ rr with rd := .svcb 0 target' [] }, d) ∧ d.off = b.length ∧
      ciEq target' target = true := by
  have hwf := alias_twin_wf ha hrd
  have h' : encodeRR { rr with rd := .svcb 0 target [] } = .ok b := by
    rw [← h]
    obtain ⟨name, ty, cls, ttl, rd⟩ := rr
    simp only at hrd
    subst hrd
    exact (ExtraA.alias_no_params_encode name ty cls ttl target ps).symm
  obtain ⟨t', ps', d, hd, hoff, hci, hmap, _, _⟩ := RT.svcb_roundtrip hwf rfl h'
  have hnil : ps' = [] := by
    cases ps' with
    | nil => rfl
    | cons p r => simp at hmap
  subst hnil
  exact ⟨t', d, hd, hoff, hci⟩

/-- **K4b never round-trips** (element level): the decoded record body differs from the encoded one, also
up to `norm` -/
theorem k4b_never_roundtrips {rr : RR} {target : Name} {ps : List SvcParam} {b : Bytes} (ha : ApiOkRR rr)
    (hrd : rr.rd = .svcb 0 target ps) (hne : ps ≠ []) (h : encodeRR rr = .ok b) {rr' : RR} {d : D}
    (hd : decodeRR b = .ok (rr', d)) : rr'.rd.norm ≠ rr.rd.norm ∧ rr'.rd ≠ rr.rd := by
  obtain ⟨t', d', hd', _, _⟩ := k4b_decodes_to ha hrd h
  rw [hd] at hd'
  injection hd' with hd'
  have hr : rr' = { rr with rd := .svcb 0 t' [] } := (Prod.mk.inj hd').1
  have h1 : rr'.rd.norm ≠ rr.rd.norm := by
    rw [hr, hrd]
    intro hn
    simp only [RData.norm, List.map_nil, RData.svcb.injEq, true_and] at hn
    cases ps with
    | nil => exact hne rfl
    | cons p r => simp at hn
  exact ⟨h1, fun heq => h1 (by rw [heq])⟩

/-- what the encoder makes of a record body: parameters of the alias form dropped -/
def dropAliasRD : RData → RData
  | .svcb prio t ps => .svcb prio t (if prio = 0 then [] else ps)
  | r => r

def dropAliasRR (rr : RR) : RR := { rr with rd := dropAliasRD rr.rd }

/-- the message with the parameters of every alias-form SVCB / HTTPS record dropped -/
def dropAlias (m : Msg) : Msg :=
  { m with an := m.an.map dropAliasRR, ns := m.ns.map dropAliasRR, ar := m.ar.map dropAliasRR }

theorem encRR_dropAlias (e : Enc) (rr : RR) : encRR e (dropAliasRR rr) = encRR e rr := by
  obtain ⟨name, ty, cls, ttl, rd⟩ := rr
  cases rd with
  | svcb prio t ps =>
    by_cases hp : prio = 0
    · subst hp
      simp only [dropAliasRR, dropAliasRD, if_true]
      exact (ExtraA.alias_no_params e name ty cls ttl t ps).symm
    · simp [dropAliasRR, dropAliasRD, hp]
  | _ => rfl

theorem encRRs_dropAlias : ∀ (rs : List RR) (e : Enc), encRRs e (rs.map dropAliasRR) = encRRs e rs
  | [], _ => rfl
  | r :: rs, e => by
    simp only [List.map_cons, encRRs, encRR_dropAlias]
    cases encRR e r with
    | error err => rfl
    | ok e1 => exact encRRs_dropAlias rs e1

/-- **K4b, message level**: every message is encoded exactly like the message with the parameters of
its alias-form records dropped -/
theorem encodeDns_dropAlias (m : Msg) : encodeDns (dropAlias m) = encodeDns m := by
  unfold encodeDns encMsg
  simp only [dropAlias, List.length_map, encRRs_dropAlias]

theorem msgRRs_dropAlias (m : Msg) : msgRRs (dropAlias m) = (msgRRs m).map dropAliasRR := by
  simp [msgRRs, dropAlias]

theorem dropAliasRR_api {rr : RR} (ha : ApiOkRR rr) : ApiOkRR (dropAliasRR rr) := by
  obtain ⟨name, ty, cls, ttl, rd⟩ := rr
  cases rd with
  | svcb prio t ps =>
    by_cases hp : prio = 0
    · subst hp
      obtain ⟨⟨hk, hp, htg, _, _⟩, hrest⟩ := ha
      exact ⟨⟨hk, hp, htg, trivial, fun p hp => (by cases hp)⟩, hrest⟩
    · simpa [dropAliasRR, dropAliasRD, hp] using ha
  | _ => exact ha

theorem dropAliasRR_K4a {rr : RR} (h : K4aRR (dropAliasRR rr)) : K4aRR rr := by
  obtain ⟨name, ty, cls, ttl, rd⟩ := rr
  cases rd with
  | svcb prio t ps =>
    by_cases hp : prio = 0
    · obtain ⟨_, _, _, k, x, hrd, hm, _⟩ := h
      simp only [dropAliasRR, dropAliasRD, hp, if_true, RData.svcb.injEq] at hrd
      rw [← hrd.2.2] at hm
      cases hm
    · simpa [dropAliasRR, dropAliasRD, hp] using h
  | _ => exact h

theorem dropAliasRR_not_K4b (rr : RR) : ¬ K4bRR (dropAliasRR rr) := by
  obtain ⟨name, ty, cls, ttl, rd⟩ := rr
  rintro ⟨t', ps', hrd, hne⟩
  cases rd with
  | svcb prio t ps =>
    simp only [dropAliasRR, dropAliasRD, RData.svcb.injEq] at hrd
    obtain ⟨hp, _, hps⟩ := hrd
    rw [hp] at hps
    exact hne hps.symm
  | _ => cases hrd

theorem dropAliasRR_K4c {rr : RR} (h : K4cRR (dropAliasRR rr)) : K4cRR rr := by
  obtain ⟨name, ty, cls, ttl, rd⟩ := rr
  cases rd with
  | svcb prio t ps =>
    obtain ⟨_, _, _, _, hrd, _⟩ := h
    cases hrd
  | _ => exact h

/-- **K4b, message level, for every value**: an API-constructible message that is in none of the OTHER
classes and encodes `Ok` is decoded as `dropAlias m` – which differs from `m` exactly when `m` is in K4b -/
theorem k4b_msg_decodes_to {m : Msg} {b : Bytes} (ha : ApiOk m) (h3 : ¬ K3 m) (h4a : ¬ K4a m) (h4c : ¬ K4c m)
    (h : encodeDns m = .ok b) :
    ∃ m' d, decodeDns b = .ok (m', d) ∧ m'.norm = (dropAlias m).norm ∧ (K4b m → m'.norm ≠ m.norm) := by
  have ha' : ApiOk (dropAlias m) := by
    obtain ⟨h1, h2, h3', h4⟩ := ha
    refine ⟨h1, h2, h3', fun rr hr => ?_⟩
    rw [msgRRs_dropAlias] at hr
    obtain ⟨r, hr', rfl⟩ := List.mem_map.mp hr
    exact dropAliasRR_api (h4 r hr')
  have hx : ∀ {P : RR → Prop}, (∃ rr ∈ msgRRs (dropAlias m), P rr) → ∃ r ∈ msgRRs m, P (dropAliasRR r) := by
    rintro P ⟨rr, hr, hp⟩
    rw [msgRRs_dropAlias] at hr
    obtain ⟨r, hr', rfl⟩ := List.mem_map.mp hr
    exact ⟨r, hr', hp⟩
  obtain ⟨m', d, hd, hn⟩ := ApiOk.decodes_back ha' h3
    (fun hk => by obtain ⟨r, hr, hp⟩ := hx hk; exact h4a ⟨r, hr, dropAliasRR_K4a hp⟩)
    (fun hk => by obtain ⟨r, hr, hp⟩ := hx hk; exact dropAliasRR_not_K4b r hp)
    (fun hk => by obtain ⟨r, hr, hp⟩ := hx hk; exact h4c ⟨r, hr, dropAliasRR_K4c hp⟩)
    ((encodeDns_dropAlias m).trans h)
  exact ⟨m', d, hd, hn, fun hk => never_decoded (Or.inr (Or.inr (Or.inl hk))) hd⟩


/-! ## Part B, K4c: a GPOS record with an empty string does not decode -/

/-- the decoder's `gpos` validator rejects the empty string -/
theorem gpos_empty_rejected : StrCheck.run .gpos [] = .error .gpos := rfl

/-- a `<character-string>` of the grammar is determined by its offset -/
theorem cstrAt_det {buf : Bytes} {off e e' : Nat} {s s' : Bytes} (h : CStrAt buf off s e)
    (h' : CStrAt buf off s' e') : s = s' ∧ e = e' := by
  obtain ⟨hl, hb, hB, he⟩ := h
  obtain ⟨hl', hb', hB', he'⟩ := h'
  rw [hb] at hb'
  injection hb' with hb'
  have hlen : s.length = s'.length := by
    have := congrArg UInt8.toNat hb'
    rwa [UInt8.ofNat_toNat_lt (by omega), UInt8.ofNat_toNat_lt (by omega)] at this
  exact ⟨bytesAt_eq hB hB' hlen, by omega⟩

/-- the three `<character-string>`s of a GPOS body, as written -/
def GposAt (lo la al : Bytes) (buf : Bytes) (s t : Nat) : Prop :=
  ∃ m1, s ≤ m1 ∧ m1 ≤ t ∧ CStrAt buf s lo m1 ∧ ∃ m2, m1 ≤ m2 ∧ m2 ≤ t ∧ CStrAt buf m1 la m2 ∧ CStrAt buf m2 al t

/-- the field writer does not look at the validator of a `<character-string>`: the GPOS body is three
strings, whatever they are -/
theorem gpos_body_spec (lo la al : Bytes) :
    EncSpec.WSpec (fun e => encFields e [.cstr .gpos, .cstr .gpos, .cstr .gpos] [.bytes lo, .bytes la, .bytes al])
      (GposAt lo la al) := by
  refine (EncSpec.spec_seq (EncSpec.cstr_spec lo) (EncSpec.spec_seq (EncSpec.cstr_spec la)
    (EncSpec.cstr_spec al))).of_eq (fun e => ?_)
  simp only [encFields, encField, EncSpec.wSeq]
  cases e.cstr lo with
  | error err => rfl
  | ok e1 =>
    simp only
    cases e1.cstr la with
    | error err => rfl
    | ok e2 =>
      simp only
      cases e2.cstr al with
      | error err => rfl
      | ok e3 => rfl

/-- if the grammar reads a GPOS body where the three strings were written, none of them is empty -/
theorem gpos_fields_filled {buf : Bytes} {lim off : Nat} {vs : List FVal} {lo la al : Bytes}
    (hG : GposAt lo la al buf off lim)
    (hfs : FieldsAt buf false lim off [.cstr .gpos, .cstr .gpos, .cstr .gpos] vs) :
    lo ≠ [] ∧ la ≠ [] ∧ al ≠ [] := by
  obtain ⟨m1, _, _, hc1, m2, _, _, hc2, hc3⟩ := hG
  cases hfs with
  | cons hf1 hfs =>
    cases hf1 with
    | cstr hd1 _ _ hr1 =>
      obtain ⟨rfl, rfl⟩ := cstrAt_det hd1 hc1
      cases hfs with
      | cons hf2 hfs =>
        cases hf2 with
        | cstr hd2 _ _ hr2 =>
          obtain ⟨rfl, rfl⟩ := cstrAt_det hd2 hc2
          cases hfs with
          | cons hf3 hfs =>
            cases hf3 with
            | cstr hd3 _ _ hr3 =>
              obtain ⟨rfl, _⟩ := cstrAt_det hd3 hc3
              have e1 := ((gpos_ok_iff _ _).mp hr1).2.1
              have e2 := ((gpos_ok_iff _ _).mp hr2).2.1
              have e3 := ((gpos_ok_iff _ _).mp hr3).2.1
              refine ⟨?_, ?_, ?_⟩ <;> (rintro rfl; simp at *)

theorem rrKind_27 : rrKind 27 = some (.regular ⟨"GPOS", none, [("longitude", .cstr .gpos),
    ("latitude", .cstr .gpos), ("altitude", .cstr .gpos)]⟩) := rfl

/-- what `RR::encode` emits for an API-constructible GPOS record: owner, TYPE 27 / CLASS / TTL / RDLENGTH,
three `<character-string>`s -/
theorem gpos_emitted {name : Name} {cls ttl : Nat} {lo la al : Bytes} {b : Bytes} (hname : ApiOkName name)
    (h : encodeRR ⟨name, 27, cls, ttl, .fields [.bytes lo, .bytes la, .bytes al]⟩ = .ok b) :
    ∃ n' m len, NameRefAt b true 0 n' m ∧ len < 65536 ∧
      BytesAt b m (beBytes 2 27 ++ beBytes 2 cls ++ beBytes 4 ttl ++ beBytes 2 len) ∧ b.length = m + 10 + len ∧
      GposAt lo la al b (m + 10) (m + 10 + len) := by
  have hF := ((EncSpec.frame_spec (ApiOk.name_wf hname) _ (gpos_body_spec lo la al)).of_eq
    (EncSpec.encRR_regular_eq (rr := ⟨name, 27, cls, ttl, .fields [.bytes lo, .bytes la, .bytes al]⟩)
      rrKind_27 rfl)).fresh h
  obtain ⟨n', m, len, _, hn, hlen, hH, hbl, hG⟩ := hF.elim (by simp)
  exact ⟨n', m, len, hn, hlen, hH, hbl, hG⟩

/-- **K4c, element level, for every value**: the octets that `RR::encode` emits for an API-constructible
GPOS record with an empty longitude, latitude or altitude are REJECTED by `RR::decode` -/
theorem k4c_never_decodes {rr : RR} {b : Bytes} (ha : ApiOkRR rr) (hk : K4cRR rr) (h : encodeRR rr = .ok b)
    (rr' : RR) (d : D) : decodeRR b ≠ .ok (rr', d) := by
  obtain ⟨name, ty, cls, ttl, rd⟩ := rr
  obtain ⟨hty, lo, la, al, hrd, hemp⟩ := hk
  simp only at hty hrd
  subst hty hrd
  obtain ⟨_, hname, _, _⟩ := ha
  obtain ⟨n', m, len, hn, hlen, hH, hbl, m1, _, _, hc1, m2, _, _, hc2, hc3⟩ := gpos_emitted hname h
  intro hd
  have hm := RT.nameRefAt_end_le hn
  obtain ⟨hat, _⟩ := Sound.decodeRR_sound (by omega) hd
  obtain ⟨_, hna, _⟩ := Complete.NameRefAt.weaken hn
  -- the first two header octets and the RDATA window, in both shapes of `RRAt`
  have key : ∀ {e ty' rdlen : Nat} {n'' : Name} {tl : Bytes} {rd' : RData}, NameRefAt b false 0 n'' e →
      ty' < 65536 → rdlen < 65536 → tl.length = 6 →
      BytesAt b e (beBytes 2 ty' ++ tl ++ beBytes 2 rdlen) →
      RDataAt b false (e + 10 + rdlen) ty' (e + 10) rd' → False := by
    intro e ty' rdlen n'' tl rd' hn' hty' hrl htl hH' hrd'
    obtain ⟨_, hna', _⟩ := hn'
    obtain ⟨_, _, he⟩ := hna.det hna'
    subst he
    have heq := bytesAt_eq hH hH' (by simp [htl])
    have h2 : beBytes 2 len = beBytes 2 rdlen := List.append_inj_right' heq (by simp)
    have h1 : beBytes 2 27 = beBytes 2 ty' := by
      have := List.append_inj_left' heq (by simp)
      rw [List.append_assoc] at this
      exact List.append_inj_left this (by simp)
    have hty27 := Be.beBytes_inj (w := 2) (by omega) (by simpa using hty') h1
    have hrl' := Be.beBytes_inj (w := 2) (by simpa using hlen) (by simpa using hrl) h2
    subst hty27 hrl'
    cases hrd' with
    | regular hk' hfs =>
      rename_i info' vs'
      have hi : info' = ⟨"GPOS", none, [("longitude", .cstr .gpos), ("latitude", .cstr .gpos),
          ("altitude", .cstr .gpos)]⟩ := by
        have : some (RRKind.regular info') = rrKind 27 := hk'.symm
        simp only [rrKind] at this
        injection this with this
        injection this
      subst hi
      simp only [List.map_cons, List.map_nil] at hfs
      obtain ⟨e1, e2, e3⟩ := gpos_fields_filled ⟨m1, ‹_›, ‹_›, hc1, m2, ‹_›, ‹_›, hc2, hc3⟩ hfs
      rcases hemp with rfl | rfl | rfl
      · exact e1 rfl
      · exact e2 rfl
      · exact e3 rfl
    | opt hk' _ => cases hk'
    | apl hk' _ => cases hk'
    | svcbAlias hk' _ _ => cases hk'
    | svcbService hk' _ _ _ _ _ _ _ _ => cases hk'
  obtain ⟨name', ty', cls', ttl', rd'⟩ := rr'
  generalize d.off = eo at hat
  cases hat with
  | normal _ hn' hty' _ _ hrl _ hH' hrd' =>
    exact key hn' hty' hrl (tl := beBytes 2 cls' ++ beBytes 4 ttl') (by simp)
      (by simpa [List.append_assoc] using hH') hrd'
  | @opt e rdlen payload ext ver dnssec opts hn' _ _ _ hrl hH' hrd' =>
    exact key hn' (by omega) hrl (tl := beBytes 2 payload ++ beBytes 4 (optTtlOf ext ver dnssec)) (by simp)
      (by simpa [List.append_assoc] using hH') hrd'

end ApiOkConv
