import DnsVerif.Lemmas.CompleteSvcb

/-! # Decoder completeness, part 4: RDATA, records, questions, flags (C04)

`decRData_complete`, `decRR_complete`, `decQuestion_complete`, `decFlags_complete`,
`decQuestions_complete`, `decRRs_complete`. -/

namespace Complete

/-! ## Code tables -/

theorem rrKind_implemented {ty : Nat} (h : (rrKind ty).isSome = true) : ty ∈ implementedTypes := by
  unfold rrKind at h
  split at h <;> first | (simp at h; done) | (simp [implementedTypes])

theorem implemented_known : ∀ ty ∈ implementedTypes, typeKnown ty = true := by decide

/-- every implemented record type is in the generated `Type` table -/
theorem rrKind_typeKnown {ty : Nat} (h : (rrKind ty).isSome = true) : typeKnown ty = true :=
  implemented_known ty (rrKind_implemented h)

theorem rrKind_opt {ty : Nat} (h : rrKind ty = some .opt) : ty = 41 := by
  unfold rrKind at h
  split at h <;> first | rfl | (simp at h)

theorem rrKind_41 : rrKind 41 = some .opt := rfl

/-- a code of a table whose entries are all below `B` is below `B` -/
theorem inTable_lt {t : List (String × Nat)} {n B : Nat} (hall : t.all (fun p => decide (p.2 < B)) = true)
    (h : inTable t n = true) : n < B := by
  unfold inTable at h
  rw [List.any_eq_true] at h
  obtain ⟨p, hp, he⟩ := h
  rw [List.all_eq_true] at hall
  have := hall p hp
  simp only [beq_iff_eq] at he
  simp only [decide_eq_true_eq] at this
  omega

theorem qtypeKnown_lt {n : Nat} (h : qtypeKnown n = true) : n < 65536 :=
  inTable_lt (t := Gen.enumQType) (by decide) h
theorem qclassKnown_lt {n : Nat} (h : qclassKnown n = true) : n < 65536 :=
  inTable_lt (t := Gen.enumQClass) (by decide) h
theorem opcodeKnown_lt {n : Nat} (h : opcodeKnown n = true) : n < 16 :=
  inTable_lt (t := Gen.enumOpcode) (by decide) h

theorem checkClass_of {cls : Nat} {inOnly : Option (Nat → DErr)} (hk : classKnown cls = true)
    (h : inOnly.isSome = true → cls = 1) : checkClass cls inOnly = .ok () := by
  unfold checkClass
  cases inOnly with
  | none => simp [hk]
  | some e => have := h rfl; subst this; simp [hk]

/-! ## RDATA -/

theorem RDataAt.isSome {buf bk lim ty off rd} (h : RDataAt buf bk lim ty off rd) : (rrKind ty).isSome = true := by
  cases h <;> simp [*]

/-- the body of a record that is not OPT -/
theorem decRData_complete {buf : Bytes} {bk : Bool} {lim ty off c : Nat} {name : Name} {cls ttl : Nat} {rd : RData}
    (h : RDataAt buf bk lim ty off rd) (hne : ty ≠ 41) (hcls : classOk ty cls)
    (hlb : lim ≤ buf.length) (hB : buf.length < 2 ^ 63) :
    ∃ c', decRData name ty cls ttl { buf := buf, off := off, lim := lim, cost := c } =
      .ok ({ name := name, ty := ty, cls := cls, ttl := ttl, rd := rd },
        { buf := buf, off := lim, lim := lim, cost := c' }) := by
  obtain ⟨hck, hin⟩ := hcls
  cases h with
  | @regular info vs hk hf =>
    simp only [hk] at hin
    obtain ⟨c', hc'⟩ := decFields_complete hlb hB hf c
    refine ⟨c', ?_⟩
    unfold decRData
    simp only [hk, checkClass_of hck hin, hc']
  | opt hk _ => exact absurd (rrKind_opt hk) hne
  | @apl items hk hi =>
    simp only [hk] at hin
    obtain ⟨c', hc'⟩ := decApItems_complete hlb hB hi (lim - off + 1) c (by omega)
    refine ⟨c', ?_⟩
    unfold decRData
    simp only [hk, checkClass_of (inOnly := some .aplClass) hck (fun _ => hin), hc']
  | @svcbAlias https target hk hb hn =>
    simp only [hk] at hin
    have hlt := NameRefAt.lt hn
    have n1 := num_of_bytesAt (c := c) (lim := lim) hb (by decide) (by omega) hlb hB
    obtain ⟨c', hc'⟩ := name_of (c := c + 2) hn (Nat.le_refl _) hlb hB
    refine ⟨c', ?_⟩
    unfold decRData
    simp only [hk, checkClass_of (inOnly := some .svcbClass) hck (fun _ => hin), n1, hc', if_true]
  | @svcbService https prio target e wire sorted hk hpos hprio hb hn hel hps hperm hsorted =>
    simp only [hk] at hin
    have hlt := NameRefAt.lt hn
    have n1 := num_of_bytesAt (c := c) (lim := lim) hb (by simpa using hprio) (by omega) hlb hB
    obtain ⟨c1, hc1⟩ := name_of (c := c + 2) hn hel hlb hB
    obtain ⟨c', hc'⟩ := decSvcParams_complete (c := c1) hps hperm hsorted hlb hB
    have hp0 : ¬ prio = 0 := by omega
    refine ⟨c', ?_⟩
    unfold decRData
    simp only [hk, checkClass_of (inOnly := some .svcbClass) hck (fun _ => hin), n1, hc1, hp0, if_false, hc']

/-- the body of an OPT record: the class field is the payload size, the TTL the flags word -/
theorem decRData_opt_complete {buf : Bytes} {bk : Bool} {lim off c payload ext ver : Nat} {dnssec : Bool}
    {opts : List EdnsOpt} (h : RDataAt buf bk lim 41 off (.opt payload ext ver dnssec opts))
    (hext : ext < 256) (hver : ver < 256) (hlb : lim ≤ buf.length) (hB : buf.length < 2 ^ 63) :
    ∃ c', decRData [] 41 payload (optTtlOf ext ver dnssec) { buf := buf, off := off, lim := lim, cost := c } =
      .ok ({ name := [], ty := 41, cls := 0, ttl := 0, rd := .opt payload ext ver dnssec opts },
        { buf := buf, off := lim, lim := lim, cost := c' }) := by
  cases h with
  | opt hk ho =>
    obtain ⟨c', hc'⟩ := decOptions_complete hlb hB ho (lim - off + 1) c (by omega)
    refine ⟨c', ?_⟩
    unfold decRData
    simp only [rrKind_41, ne_eq, not_true_eq_false, if_false, optTtl_of ext ver dnssec hext hver, hc']

/-! ## Records -/

theorem RRAt.lt {buf bk off rr e} (h : RRAt buf bk off rr e) : off < e := by
  cases h with
  | normal _ hn => have := NameRefAt.lt hn; omega
  | opt hn => have := NameRefAt.lt hn; omega

/-- **`Decoder::rr`** -/
theorem decRR_complete {buf : Bytes} {bk : Bool} {off e lim c : Nat} {rr : RR} (h : RRAt buf bk off rr e)
    (he : e ≤ lim) (hlb : lim ≤ buf.length) (hB : buf.length < 2 ^ 63) :
    ∃ c', decRR { buf := buf, off := off, lim := lim, cost := c } =
      .ok (rr, { buf := buf, off := e, lim := lim, cost := c' }) := by
  cases h with
  | @normal e0 rdlen _ hne hn hty hcls httl hrdlen hco hb hrd =>
    rw [bytesAt_append, bytesAt_append, bytesAt_append] at hb
    obtain ⟨⟨⟨b1, b2⟩, b3⟩, b4⟩ := hb
    simp only [List.length_append, beBytes_length] at b2 b3 b4
    obtain ⟨c0, hc0⟩ := name_of (c := c) hn (by omega) hlb hB
    have n1 := num_of_bytesAt (c := c0) (lim := lim) b1 (by simpa using hty) (by omega) hlb hB
    have n2 := num_of_bytesAt (c := c0 + 2) (lim := lim) (off := e0 + 2) (bcast b2 (by omega))
      (by simpa using hcls) (by omega) hlb hB
    have n3 := num_of_bytesAt (c := c0 + 2 + 2) (lim := lim) (off := e0 + 2 + 2) (bcast b3 (by omega))
      (by simpa using httl) (by omega) hlb hB
    have n4 := num_of_bytesAt (c := c0 + 2 + 2 + 4) (lim := lim) (off := e0 + 2 + 2 + 4) (bcast b4 (by omega))
      (by simpa using hrdlen) (by omega) hlb hB
    obtain ⟨c', hc'⟩ := withSub_of (c := c0 + 2 + 2 + 4 + 2) (off := e0 + 2 + 2 + 4 + 2) (lim := lim) (len := rdlen)
      (f := decRData rr.name rr.ty rr.cls rr.ttl) (a := rr) (by omega) hlb hB
      (fun c0 => decRData_complete (c := c0) (name := rr.name) (ttl := rr.ttl)
        (by rw [show e0 + 2 + 2 + 4 + 2 = e0 + 10 by omega]; exact hrd) hne hco (by omega) hB)
    rw [show e0 + 2 + 2 + 4 + 2 + rdlen = e0 + 10 + rdlen by omega] at hc'
    have hknown := rrKind_typeKnown (RDataAt.isSome hrd)
    refine ⟨c', ?_⟩
    unfold decRR
    simp only [hc0, n1, hknown, Bool.not_true, Bool.false_eq_true, if_false, n2, n3, n4, hc']
  | @opt e0 rdlen payload ext ver dnssec opts hn hpay hext hver hrdlen hb hrd =>
    rw [bytesAt_append, bytesAt_append, bytesAt_append] at hb
    obtain ⟨⟨⟨b1, b2⟩, b3⟩, b4⟩ := hb
    simp only [List.length_append, beBytes_length] at b2 b3 b4
    obtain ⟨c0, hc0⟩ := name_of (c := c) hn (by omega) hlb hB
    have n1 := num_of_bytesAt (c := c0) (lim := lim) b1 (by decide) (by omega) hlb hB
    have n2 := num_of_bytesAt (c := c0 + 2) (lim := lim) (off := e0 + 2) (bcast b2 (by omega))
      (by simpa using hpay) (by omega) hlb hB
    have n3 := num_of_bytesAt (c := c0 + 2 + 2) (lim := lim) (off := e0 + 2 + 2) (bcast b3 (by omega))
      (optTtlOf_lt ext ver dnssec hext hver) (by omega) hlb hB
    have n4 := num_of_bytesAt (c := c0 + 2 + 2 + 4) (lim := lim) (off := e0 + 2 + 2 + 4) (bcast b4 (by omega))
      (by simpa using hrdlen) (by omega) hlb hB
    obtain ⟨c', hc'⟩ := withSub_of (c := c0 + 2 + 2 + 4 + 2) (off := e0 + 2 + 2 + 4 + 2) (lim := lim) (len := rdlen)
      (f := decRData [] 41 payload (optTtlOf ext ver dnssec)) (by omega) hlb hB
      (fun c0 => decRData_opt_complete (c := c0)
        (by rw [show e0 + 2 + 2 + 4 + 2 = e0 + 10 by omega]; exact hrd) hext hver (by omega) hB)
    rw [show e0 + 2 + 2 + 4 + 2 + rdlen = e0 + 10 + rdlen by omega] at hc'
    have hknown : typeKnown 41 = true := by decide
    refine ⟨c', ?_⟩
    unfold decRR
    simp only [hc0, n1, hknown, Bool.not_true, Bool.false_eq_true, if_false, n2, n3, n4, hc']

theorem RRsAt.le {buf bk off rs e} (h : RRsAt buf bk off rs e) : off ≤ e := by
  induction h with
  | nil => exact Nat.le_refl _
  | cons h1 _ ih => have := RRAt.lt h1; omega

/-- a counted section of records -/
theorem decRRs_complete {buf : Bytes} {bk : Bool} {lim : Nat} (hlb : lim ≤ buf.length) (hB : buf.length < 2 ^ 63)
    {off e : Nat} {rs : List RR} (h : RRsAt buf bk off rs e) :
    ∀ c, e ≤ lim → ∃ c', decRRs rs.length { buf := buf, off := off, lim := lim, cost := c } =
      .ok (rs, { buf := buf, off := e, lim := lim, cost := c' }) := by
  induction h with
  | nil => intro c _; exact ⟨c, rfl⟩
  | cons h1 h2 ih =>
    intro c he
    have := RRsAt.le h2
    obtain ⟨c1, hc1⟩ := decRR_complete (c := c) h1 (by omega) hlb hB
    obtain ⟨c2, hc2⟩ := ih c1 he
    exact ⟨c2, by simp only [List.length_cons, decRRs, hc1, hc2]⟩

/-! ## Questions -/

theorem QuestionAt.lt {buf bk off q e} (h : QuestionAt buf bk off q e) : off < e := by
  obtain ⟨e0, hn, _, _, _, he, _⟩ := h
  have := NameRefAt.lt hn; omega

theorem decQuestion_complete {buf : Bytes} {bk : Bool} {off e lim c : Nat} {q : Question}
    (h : QuestionAt buf bk off q e) (he : e ≤ lim) (hlb : lim ≤ buf.length) (hB : buf.length < 2 ^ 63) :
    ∃ c', decQuestion { buf := buf, off := off, lim := lim, cost := c } =
      .ok (q, { buf := buf, off := e, lim := lim, cost := c' }) := by
  obtain ⟨e0, hn, hqt, hqc, hb, hee, _⟩ := h
  subst hee
  rw [bytesAt_append] at hb
  obtain ⟨b1, b2⟩ := hb
  obtain ⟨c0, hc0⟩ := name_of (c := c) hn (by omega) hlb hB
  have n1 := num_of_bytesAt (c := c0) (lim := lim) b1 (by simpa using qtypeKnown_lt hqt) (by omega) hlb hB
  have n2 := num_of_bytesAt (c := c0 + 2) (lim := lim) (off := e0 + 2) (bcast b2 (by simp))
    (by simpa using qclassKnown_lt hqc) (by omega) hlb hB
  refine ⟨c0 + 2 + 2, ?_⟩
  unfold decQuestion
  simp only [hc0, n1, hqt, Bool.not_true, Bool.false_eq_true, if_false, n2, hqc] <;> (congr 3; omega)

theorem QuestionsAt.le {buf bk off qs e} (h : QuestionsAt buf bk off qs e) : off ≤ e := by
  induction h with
  | nil => exact Nat.le_refl _
  | cons h1 _ ih => have := QuestionAt.lt h1; omega

theorem decQuestions_complete {buf : Bytes} {bk : Bool} {lim : Nat} (hlb : lim ≤ buf.length)
    (hB : buf.length < 2 ^ 63) {off e : Nat} {qs : List Question} (h : QuestionsAt buf bk off qs e) :
    ∀ c, e ≤ lim → ∃ c', decQuestions qs.length { buf := buf, off := off, lim := lim, cost := c } =
      .ok (qs, { buf := buf, off := e, lim := lim, cost := c' }) := by
  induction h with
  | nil => intro c _; exact ⟨c, rfl⟩
  | cons h1 h2 ih =>
    intro c he
    have := QuestionsAt.le h2
    obtain ⟨c1, hc1⟩ := decQuestion_complete (c := c) h1 (by omega) hlb hB
    obtain ⟨c2, hc2⟩ := ih c1 he
    exact ⟨c2, by simp only [List.length_cons, decQuestions, hc1, hc2]⟩

/-! ## Flags: per-octet facts by enumeration, then lifted -/

theorem flags_oct1 : ∀ (qr aa tc rd : Bool) (op : Fin 16),
    ((bitOf qr 7 + op.val * 8 + bitOf aa 2 + bitOf tc 1 + bitOf rd 0) &&& 0b01111000) >>> 3 = op.val ∧
    decide ((bitOf qr 7 + op.val * 8 + bitOf aa 2 + bitOf tc 1 + bitOf rd 0) &&& 0b10000000 ≠ 0) = qr ∧
    decide ((bitOf qr 7 + op.val * 8 + bitOf aa 2 + bitOf tc 1 + bitOf rd 0) &&& 0b100 ≠ 0) = aa ∧
    decide ((bitOf qr 7 + op.val * 8 + bitOf aa 2 + bitOf tc 1 + bitOf rd 0) &&& 0b10 ≠ 0) = tc ∧
    decide ((bitOf qr 7 + op.val * 8 + bitOf aa 2 + bitOf tc 1 + bitOf rd 0) &&& 1 ≠ 0) = rd := by
  decide +kernel

theorem flags_oct2 : ∀ (ra ad cd : Bool) (rc : Fin 16),
    (bitOf ra 7 + bitOf ad 5 + bitOf cd 4 + rc.val) &&& 0b01000000 = 0 ∧
    (bitOf ra 7 + bitOf ad 5 + bitOf cd 4 + rc.val) &&& 0b00001111 = rc.val ∧
    decide ((bitOf ra 7 + bitOf ad 5 + bitOf cd 4 + rc.val) &&& 0b10000000 ≠ 0) = ra ∧
    decide ((bitOf ra 7 + bitOf ad 5 + bitOf cd 4 + rc.val) &&& 0b00100000 ≠ 0) = ad ∧
    decide ((bitOf ra 7 + bitOf ad 5 + bitOf cd 4 + rc.val) &&& 0b00010000 ≠ 0) = cd := by
  decide +kernel

theorem bitOf_le (b : Bool) (p : Nat) : bitOf b p ≤ 2 ^ p := by
  cases b <;> simp [bitOf]

theorem bitOf_add8 (b : Bool) (p : Nat) : bitOf b (p + 8) = 256 * bitOf b p := by
  cases b <;> simp [bitOf, Nat.pow_add, Nat.mul_comm]

/-- the flag word splits into its two octets -/
theorem flagsWord_split (f : Flags) (hrc : f.rcode < 16) :
    flagsWord f = 256 * (bitOf f.qr 7 + f.opcode * 8 + bitOf f.aa 2 + bitOf f.tc 1 + bitOf f.rd 0) +
      (bitOf f.ra 7 + bitOf f.ad 5 + bitOf f.cd 4 + f.rcode) ∧
    bitOf f.ra 7 + bitOf f.ad 5 + bitOf f.cd 4 + f.rcode < 256 := by
  have h15 := bitOf_add8 f.qr 7
  have h10 := bitOf_add8 f.aa 2
  have h9 := bitOf_add8 f.tc 1
  have h8 := bitOf_add8 f.rd 0
  have l7 := bitOf_le f.ra 7
  have l5 := bitOf_le f.ad 5
  have l4 := bitOf_le f.cd 4
  simp only [Nat.reduceAdd, Nat.reducePow] at h15 h10 h9 h8 l7 l5 l4
  unfold flagsWord
  simp only [Nat.reducePow]
  omega

/-- **`Decoder::flags`** on the two octets of `flagsWord f` -/
theorem decFlags_complete {buf : Bytes} {off lim c : Nat} {f : Flags} (hf : FlagsOk f)
    (hb : BytesAt buf off (beBytes 2 (flagsWord f))) (hl : off + 2 ≤ lim) (hlb : lim ≤ buf.length)
    (hB : buf.length < 2 ^ 63) :
    decFlags { buf := buf, off := off, lim := lim, cost := c } =
      .ok (f, { buf := buf, off := off + 2, lim := lim, cost := c + 2 }) := by
  obtain ⟨hop, hrc, hrc16⟩ := hf
  have hop16 := opcodeKnown_lt hop
  obtain ⟨hsplit, hlo⟩ := flagsWord_split f hrc16
  have hhi : bitOf f.qr 7 + f.opcode * 8 + bitOf f.aa 2 + bitOf f.tc 1 + bitOf f.rd 0 < 256 := by
    have l7 := bitOf_le f.qr 7
    have l2 := bitOf_le f.aa 2
    have l1 := bitOf_le f.tc 1
    have l0 := bitOf_le f.rd 0
    simp only [Nat.reducePow] at l7 l2 l1 l0
    omega
  have e1 : flagsWord f / 256 % 256 =
      bitOf f.qr 7 + f.opcode * 8 + bitOf f.aa 2 + bitOf f.tc 1 + bitOf f.rd 0 := by omega
  have e2 : flagsWord f % 256 = bitOf f.ra 7 + bitOf f.ad 5 + bitOf f.cd 4 + f.rcode := by omega
  rw [Be.beBytes_two, e1, e2] at hb
  have hb' := (bytesAt_append (x := [_]) (y := [_])).mp hb
  have g1 := bytesAt_singleton.mp hb'.1
  have g2 : buf[off + 1]? = _ := bytesAt_singleton.mp (bcast hb'.2 (by simp))
  have n1 := num1_of_getElem (c := c) (lim := lim) g1 (by omega) hlb hB
  have n2 := num1_of_getElem (c := c + 1) (lim := lim) g2 (by omega)
    hlb hB
  rw [UInt8.ofNat_toNat_lt hhi] at n1
  rw [UInt8.ofNat_toNat_lt hlo] at n2
  obtain ⟨p1, p2, p3, p4, p5⟩ := flags_oct1 f.qr f.aa f.tc f.rd ⟨f.opcode, hop16⟩
  obtain ⟨q1, q2, q3, q4, q5⟩ := flags_oct2 f.ra f.ad f.cd ⟨f.rcode, hrc16⟩
  simp only at p1 p2 p3 p4 p5 q1 q2 q3 q4 q5
  unfold decFlags
  simp only [n1, p1, hop, Bool.not_true, Bool.false_eq_true, if_false, n2, q1, ne_eq, not_true_eq_false, q2, hrc]
  simp only [← ne_eq, p2, p3, p4, p5, q3, q4, q5]

/-! ## Non-vacuity: an APL record, a question, a flag word -/

section Examples

local macro "bdec" : tactic => `(tactic| (unfold BytesAt; decide +kernel))

/-- `a. APL IN 60 !1:10.0.0.0/8`, then the question `<ptr to 0> MX IN`, then the flag word 0x8583 -/
private def exBuf : Bytes :=
  [1, 97, 0, 0, 42, 0, 1, 0, 0, 0, 60, 0, 5, 0, 1, 8, 0x81, 10, 0xC0, 0, 0, 15, 0, 1, 0x85, 0x83]

private theorem exApl : RRAt exBuf true 0
    { name := [[97]], ty := 42, cls := 1, ttl := 60,
      rd := .apl [{ fam := 1, pfx := 8, neg := true, addr := [10, 0, 0, 0] }] } 18 :=
  .normal (e := 3) (rdlen := 5) (by decide)
    ⟨0, .label (len := 1) (by decide) (by decide) (by decide) (by decide) (by decide) (.root (by decide)),
      by decide, by decide, by decide⟩
    (by decide) (by decide) (by decide) (by decide) ⟨by decide, rfl⟩ (by bdec)
    (.apl rfl (.cons (.mk (k := 1) (by decide) (by decide) (by bdec)
      ⟨.inl rfl, rfl, by decide, by bdec, by decide +kernel, by decide, ((checkPrefix_ok_iff _ _).mp rfl).2⟩) (by decide) .nil))

example : ∃ c', decRR { buf := exBuf, off := 0, lim := 26, cost := 0 } =
    .ok ({ name := [[97]], ty := 42, cls := 1, ttl := 60,
           rd := .apl [{ fam := 1, pfx := 8, neg := true, addr := [10, 0, 0, 0] }] },
      { buf := exBuf, off := 18, lim := 26, cost := c' }) :=
  decRR_complete exApl (by decide) (by decide) (by decide +kernel)

private theorem exQ : QuestionAt exBuf true 18 { name := [[97]], qtype := 15, qclass := 1 } 24 :=
  ⟨20, ⟨1, .ptr (a := 0xC0) (b := 0) (by decide) (by decide) (by decide) (by decide)
      (.label (len := 1) (by decide) (by decide) (by decide) (by decide) (by decide) (.root (by decide))),
      by decide, by decide, by decide⟩,
    by decide, by decide, by bdec, rfl, by decide⟩

example : ∃ c', decQuestion { buf := exBuf, off := 18, lim := 26, cost := 0 } =
    .ok ({ name := [[97]], qtype := 15, qclass := 1 }, { buf := exBuf, off := 24, lim := 26, cost := c' }) :=
  decQuestion_complete exQ (by decide) (by decide) (by decide +kernel)

private def exFlags : Flags :=
  { qr := true, opcode := 0, aa := true, tc := false, rd := true, ra := true, ad := false, cd := false, rcode := 3 }

example : flagsWord exFlags = 0x8583 := by decide

example : decFlags { buf := exBuf, off := 24, lim := 26, cost := 0 } =
    .ok (exFlags, { buf := exBuf, off := 24 + 2, lim := 26, cost := 0 + 2 }) :=
  decFlags_complete ⟨by decide, by decide, by decide⟩ (by bdec) (by decide) (by decide) (by decide +kernel)

end Examples

end Complete
