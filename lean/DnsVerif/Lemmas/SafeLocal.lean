import DnsVerif.Lemmas.SafeMsg
import DnsVerif.Lemmas.NameComplete

/-! # Window locality as extension invariance (locality half of C09) — framework, primitives, fields

"While a record is parsed no field can read past the end of its RDATA (other than by following a
compression pointer), so octets of a neighbouring record are never absorbed into a field."

Formal statement, for every decoding function `f` (`f_ext`): let the decoder `d` work on a buffer `d.buf`
and let `buf2` be ANY extension of that buffer (`Ext buf2 d`: `d.buf` is a prefix of `buf2`). If `f d`
succeeds with value `v` and state `d'`, then `f` on the extended buffer succeeds with the same value, the
same cursor and the same cost: `f (lift buf2 d) = .ok (v, lift buf2 d')`.

Taking `d.buf = pre` (everything up to the end of the window, or of the record) and `buf2 = pre ++ suf`
for arbitrary `suf`, this says: a record that is acceptable on the octets up to its end decodes to the
same value whatever follows it — no octet after the window is ever absorbed (`decRData_local`). The
hypothesis "succeeds on the truncated buffer" is exactly the exclusion of the property: in the truncated
buffer no compression pointer can lead to, and no expansion can run into, an octet at or after the cut. -/

namespace Safe

/-- the same decoder state on another buffer -/
def lift (buf2 : Bytes) (d : D) : D := { buf := buf2, off := d.off, lim := d.lim, cost := d.cost }

@[simp] theorem lift_buf (buf2 : Bytes) (d : D) : (lift buf2 d).buf = buf2 := rfl
@[simp] theorem lift_off (buf2 : Bytes) (d : D) : (lift buf2 d).off = d.off := rfl
@[simp] theorem lift_lim (buf2 : Bytes) (d : D) : (lift buf2 d).lim = d.lim := rfl
@[simp] theorem lift_cost (buf2 : Bytes) (d : D) : (lift buf2 d).cost = d.cost := rfl

/-- `buf2` extends the buffer of `d` (and is itself below the allocation limit) -/
structure Ext (buf2 : Bytes) (d : D) : Prop where
  pre : ∀ i, i < d.buf.length → buf2[i]? = d.buf[i]?
  len : d.buf.length ≤ buf2.length
  lt : buf2.length < 2 ^ 63

theorem Ext.step {buf2 : Bytes} {K m : Nat} {d d1 : D} (he : Ext buf2 d) (s : Step K m d d1) :
    Ext buf2 d1 := by
  have hb := s.buf
  exact ⟨by rw [hb]; exact he.pre, by rw [hb]; exact he.len, he.lt⟩

theorem Ext.ok {buf2 : Bytes} {d : D} (he : Ext buf2 d) (hd : D.Ok d) : D.Ok (lift buf2 d) :=
  ⟨hd.off_le, Nat.le_trans hd.lim_le he.len, he.lt⟩

/-- a success on the shorter buffer is the same success on the extended one -/
def ExtOk {α : Type} (buf2 : Bytes) (r r2 : Except DErr (α × D)) : Prop :=
  ∀ v d', r = .ok (v, d') → r2 = .ok (v, lift buf2 d')

theorem ExtOk.of_error {α : Type} {buf2 : Bytes} {e : DErr} {r2 : Except DErr (α × D)} :
    ExtOk buf2 (.error e) r2 := fun _ _ h => by cases h

theorem ExtOk.refl {α : Type} {buf2 : Bytes} {v : α} {d : D} :
    ExtOk buf2 (.ok (v, d)) (.ok (v, lift buf2 d)) := by
  intro v' d' h
  injection h with h; injection h with h1 h2
  subst h1; subst h2; rfl

@[elab_as_elim]
theorem ExtOk.elim {α : Type} {K m : Nat} {buf2 : Bytes} {d : D} {x y : Except DErr (α × D)}
    {motive : Except DErr (α × D) → Except DErr (α × D) → Prop}
    (hp : Post K m d x) (hx : ExtOk buf2 x y)
    (herr : ∀ e y', motive (.error e) y')
    (hok : ∀ a d1, x = .ok (a, d1) → Step K m d d1 → motive (.ok (a, d1)) (.ok (a, lift buf2 d1))) :
    motive x y := by
  cases x with
  | error e => exact herr e y
  | ok p =>
    obtain ⟨a, d1⟩ := p
    rw [hx a d1 rfl]
    exact hok a d1 rfl hp

/-- `ebind p, x with a d1 s`: the goal is `ExtOk buf2 (match g d with …) (match g (lift buf2 d) with …)`,
`p : Post K m d (g d)`, `x : ExtOk buf2 (g d) (g (lift buf2 d))` -/
macro "ebind " p:term ", " x:term " with " a:ident d1:ident s:ident : tactic =>
  `(tactic| (refine ExtOk.elim $p $x (fun _ _ => ExtOk.of_error) (fun $a $d1 _ $s => ?_)
             dsimp only))

/-- the same, keeping the equation `g d = .ok (a, d1)` as `h` -/
macro "ebindh " p:term ", " x:term " with " a:ident d1:ident s:ident h:ident : tactic =>
  `(tactic| (refine ExtOk.elim $p $x (fun _ _ => ExtOk.of_error) (fun $a $d1 $h $s => ?_)
             dsimp only))

/-- `edone`: only pure validation is left; it is the same on both sides -/
macro "edone" : tactic =>
  `(tactic| ((repeat' split) <;> first | exact ExtOk.refl | exact ExtOk.of_error))

/-! ## Primitives -/

theorem take_drop_ext {buf buf2 : Bytes} {off n : Nat} (hpre : ∀ i, i < buf.length → buf2[i]? = buf[i]?)
    (hlen : buf.length ≤ buf2.length) (h : off + n ≤ buf.length) :
    (buf2.drop off).take n = (buf.drop off).take n := by
  apply List.ext_getElem?
  intro i
  by_cases hi : i < n
  · rw [take_drop_getElem? hi, take_drop_getElem? hi, hpre _ (by omega)]
  · have h1 := take_drop_length (buf := buf) (off := off) (n := n) h
    have h2 := take_drop_length (buf := buf2) (off := off) (n := n) (by omega)
    rw [List.getElem?_eq_none (by omega), List.getElem?_eq_none (by omega)]

theorem read_ext {buf2 : Bytes} {d : D} {n : Nat} (hd : D.Ok d) (he : Ext buf2 d) :
    ExtOk buf2 (d.read n) ((lift buf2 d).read n) := by
  intro bs d' h
  obtain ⟨r1, r2, r3, r4⟩ := read_ok h
  have := hd.lim_le
  rw [read_at (d := lift buf2 d) r1 r2]
  simp only [lift_buf, lift_off, lift_cost]
  rw [take_drop_ext he.pre he.len (by omega), r3, r4]
  rfl

theorem num_ext {buf2 : Bytes} {d : D} {w : Nat} (hd : D.Ok d) (he : Ext buf2 d) :
    ExtOk buf2 (d.num w) ((lift buf2 d).num w) := by
  intro v d' h
  unfold D.num at h ⊢
  cases hr : d.read w with
  | error e => simp [hr] at h
  | ok p =>
    obtain ⟨bs, d1⟩ := p
    simp only [hr] at h
    rw [read_ext hd he bs d1 hr]
    injection h with h; injection h with h1 h2
    subst h1; subst h2; rfl

theorem u8_ext {buf2 : Bytes} {d : D} (hd : D.Ok d) (he : Ext buf2 d) :
    ExtOk buf2 d.u8 (lift buf2 d).u8 := by
  intro v d' h
  unfold D.u8 at h ⊢
  cases hr : d.read 1 with
  | error e => simp [hr] at h
  | ok p =>
    obtain ⟨bs, d1⟩ := p
    simp only [hr] at h
    rw [read_ext hd he bs d1 hr]
    cases bs with
    | nil => simp at h
    | cons x t =>
      simp only at h ⊢
      injection h with h; injection h with h1 h2
      subst h1; subst h2; rfl

theorem rest_ext {buf2 : Bytes} {d : D} (hd : D.Ok d) (he : Ext buf2 d) :
    ExtOk buf2 d.rest (lift buf2 d).rest := by
  intro bs d' h
  obtain ⟨r1, r2, r3⟩ := rest_ok h
  have := hd.lim_le
  rw [rest_at (d := lift buf2 d) r1]
  simp only [lift_buf, lift_off, lift_lim, lift_cost]
  rw [take_drop_ext he.pre he.len (by omega), r2, r3]
  rfl

theorem cstr_ext {buf2 : Bytes} {d : D} (hd : D.Ok d) (he : Ext buf2 d) :
    ExtOk buf2 d.cstr (lift buf2 d).cstr := by
  unfold D.cstr
  ebind u8_post hd, u8_ext hd he with len d1 s1
  ebind read_post s1.ok (by have := len.toNat_lt; omega), read_ext s1.ok (he.step s1) with s d2 s2
  edone

/-- the grammar of names is monotone in the buffer -/
theorem NameAt.ext {buf buf2 : Bytes} {bk : Bool} {off h e : Nat} {n : Name}
    (hn : NameAt buf bk off n h e) (hpre : ∀ i, i < buf.length → buf2[i]? = buf[i]?) :
    NameAt buf2 bk off n h e := by
  induction hn with
  | root h0 => exact .root (by rw [hpre _ (getElem?_some_lt h0)]; exact h0)
  | @label off len lab rest h e hb h1 h63 hlen hbytes _ ih =>
    refine .label (by rw [hpre _ (getElem?_some_lt hb)]; exact hb) h1 h63 hlen ?_ ih
    intro i hi
    have hb' := hbytes i hi
    have hsome : ∃ x, lab[i]? = some x := ⟨lab[i], List.getElem?_eq_getElem hi⟩
    obtain ⟨x, hx⟩ := hsome
    rw [hx] at hb'
    rw [hpre _ (getElem?_some_lt hb'), hb', hx]
  | ptr hb hp hb2 hbk _ ih =>
    exact .ptr (by rw [hpre _ (getElem?_some_lt hb)]; exact hb) hp
      (by rw [hpre _ (getElem?_some_lt hb2)]; exact hb2) hbk ih

/-- names: soundness on the shorter buffer, monotonicity of the grammar, completeness on the longer -/
theorem name_ext {buf2 : Bytes} {d : D} (hd : D.Ok d) (he : Ext buf2 d) :
    ExtOk buf2 d.name (lift buf2 d).name := by
  intro n d' h
  obtain ⟨hops, h17, hn, hb, hl, _, hle, hsz, _, hutf, hc⟩ := name_sound h
  have hn2 := NameAt.ext hn he.pre
  have := hd.lim_le
  have hcomp := name_complete (lim := d.lim) (c := d.cost) hn2 h17 hutf hsz hle
    (Nat.le_trans hd.lim_le he.len) he.lt
  show D.name { buf := buf2, off := d.off, lim := d.lim, cost := d.cost } = _
  rw [hcomp]
  unfold lift
  rw [hl, hc]

theorem withSub_ext {α : Type} {buf2 : Bytes} {d : D} {len : Nat} {f : D → Except DErr (α × D)}
    (hd : D.Ok d) (he : Ext buf2 d)
    (hf : ∀ c : D, D.Ok c → Ext buf2 c → c.off = d.off → c.lim = d.off + len →
      ExtOk buf2 (f c) (f (lift buf2 c))) :
    ExtOk buf2 (d.withSub len f) ((lift buf2 d).withSub len f) := by
  intro a d' h
  obtain ⟨w1, c, w2, w3, w4⟩ := withSub_ok h
  have hc0 := withSub_child_Ok (c0 := d.cost + len) hd w1
  have he0 : Ext buf2 { buf := d.buf, off := d.off, lim := d.off + len, cost := d.cost + len } :=
    ⟨he.pre, he.len, he.lt⟩
  have h2 := hf _ hc0 he0 rfl rfl a c w2
  have h64 : d.off + len < 2 ^ 64 := by have := hd.lim_le; have := hd.len_lt; omega
  rw [withSub_at (d := lift buf2 d) (c := lift buf2 c) w1 h64 h2 w3, w4]
  rfl

/-! ## Regular fields -/

theorem octs_ext {buf2 : Bytes} : ∀ (k c : Nat) (d : D), D.Ok d → Ext buf2 d → c < 2 ^ 63 →
    ExtOk buf2 (D.octs k c d) (D.octs k c (lift buf2 d)) := by
  intro k
  induction k with
  | zero => intro c d _ _ _; unfold D.octs; exact ExtOk.refl
  | succ k ih =>
    intro c d hd he hc
    unfold D.octs
    ebind read_post hd hc, read_ext hd he with b d1 s1
    ebind octs_post k c d1 s1.ok hc, ih c d1 s1.ok (he.step s1) hc with r d2 s2
    edone

theorem isFinished_lift {buf2 : Bytes} {d : D} (hd : D.Ok d) :
    (lift buf2 d).isFinished = .ok (decide (d.off = d.lim)) := isFinished_at hd.off_le

theorem cstrs_ext {buf2 : Bytes} : ∀ (fuel : Nat) (d : D), D.Ok d → Ext buf2 d → d.lim - d.off < fuel →
    ExtOk buf2 (D.cstrs fuel d) (D.cstrs fuel (lift buf2 d)) := by
  intro fuel
  induction fuel with
  | zero => intro d _ _ h; omega
  | succ fuel ih =>
    intro d hd he hf
    unfold D.cstrs
    rw [isFinished_eq hd, isFinished_lift hd]
    by_cases hfin : d.off = d.lim
    · simp only [hfin, decide_true]; exact ExtOk.refl
    · simp only [hfin, decide_false]
      ebind cstr_post hd, cstr_ext hd he with s d1 s1
      have hf1 := s1.fuel (by omega) hf
      ebind cstrs_post fuel d1 s1.ok hf1, ih d1 s1.ok (he.step s1) hf1 with r d2 s2
      edone

theorem decField_ext {buf2 : Bytes} {d : D} (hd : D.Ok d) (he : Ext buf2 d) (f : Fld)
    (hs : f.small = true) : ExtOk buf2 (decField d f) (decField (lift buf2 d) f) := by
  cases f with
  | num w =>
    simp only [decField]
    have hw : w ≤ 8 := by simpa [Fld.small] using hs
    ebind num_post hd (w := w) (by omega), num_ext hd he with n d1 s1
    edone
  | «enum» w id =>
    simp only [decField]
    have hw : w ≤ 8 := by simpa [Fld.small] using hs
    ebind num_post hd (w := w) (by omega), num_ext hd he with n d1 s1
    edone
  | name c =>
    simp only [decField]
    ebind name_post hd, name_ext hd he with n d1 s1
    edone
  | cstr c =>
    simp only [decField]
    ebind cstr_post hd, cstr_ext hd he with s d1 s1
    edone
  | ocstr c =>
    simp only [decField]
    rw [isFinished_eq hd, isFinished_lift hd]
    by_cases hfin : d.off = d.lim
    · simp only [hfin, decide_true]; exact ExtOk.refl
    · simp only [hfin, decide_false]
      ebind cstr_post hd, cstr_ext hd he with s d1 s1
      edone
  | strs =>
    simp only [decField, lift_lim, lift_off]
    ebind cstrs_post (d.lim - d.off + 1) d hd (by omega),
      cstrs_ext (d.lim - d.off + 1) d hd he (by omega) with l d1 s1
    edone
  | rest u =>
    simp only [decField]
    ebind rest_post hd, rest_ext hd he with b d1 s1
    edone
  | oct k c =>
    simp only [decField]
    have hw : c ≤ 8 := by simpa [Fld.small] using hs
    ebind octs_post k c d hd (by omega), octs_ext k c d hd he (by omega) with b d1 s1
    edone

/-- **`decFields_local`** -/
theorem decFields_ext {buf2 : Bytes} : ∀ (fs : List Fld) (d : D), D.Ok d → Ext buf2 d →
    fs.all Fld.small = true → ExtOk buf2 (decFields d fs) (decFields (lift buf2 d) fs) := by
  intro fs
  induction fs with
  | nil => intro d _ _ _; simp only [decFields]; exact ExtOk.refl
  | cons f fs ih =>
    intro d hd he hs
    simp only [List.all_cons, Bool.and_eq_true] at hs
    simp only [decFields]
    ebind decField_post hd f hs.1, decField_ext hd he f hs.1 with v d1 s1
    ebind decFields_post fs d1 s1.ok hs.2, ih d1 s1.ok (he.step s1) hs.2 with vs d2 s2
    edone

end Safe
