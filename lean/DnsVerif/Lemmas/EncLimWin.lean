import DnsVerif.Lemmas.EncLimPrim

/-! # Encoder limits, part 2: back-patched windows and loops

`set_length_index` / `set_address_length_index` as exact equations on an output of the form
`pre ++ placeholder ++ body` (so: the checked subtraction never underflows, `NotEnoughBytes` is
unreachable, the length written is the true length), and the generic left-to-right loop `foldW`
that `encOptions`, `encApItems`, `encSvcParams`, `encQuestions`, `encRRs` are instances of. -/

namespace EncLim

/-! ## `set_length_index` -/

theorem patch_window (pre ph body x : Bytes) (h : x.length = ph.length) :
    patch (pre ++ ph ++ body) pre.length x = pre ++ x ++ body := by
  unfold patch
  rw [List.append_assoc pre ph body, List.take_left', h]
  · congr 1
    rw [← List.append_assoc, List.drop_left']
    simp
  · rfl

/-- **`set_length_index` on a window, exactly**: if the output is `pre ++ placeholder ++ body`
(two placeholder octets at index `pre.length`), the call fails with `.length` when the body has
more than 65535 octets and otherwise overwrites exactly the placeholder with the TRUE body length.
No other outcome (in particular no underflow panic of `len - (index + 2)` and no
`NotEnoughBytes`). -/
theorem setLen_window (e : Enc) (pre ph body : Bytes) (hph : ph.length = 2)
    (ho : e.out = pre ++ ph ++ body) :
    setLen e pre.length =
      if 65535 < body.length then .error .length
      else .ok { e with out := pre ++ beBytes 2 body.length ++ body } := by
  have hL : e.out.length = pre.length + 2 + body.length := by
    rw [ho]; simp [hph]; omega
  unfold setLen
  have h1 : ¬ e.out.length < pre.length + 2 := by omega
  have h2 : e.out.length - (pre.length + 2) = body.length := by omega
  have h3 : pre.length + 2 - 1 < e.out.length := by omega
  simp only [h1, if_false, h2, h3, if_true]
  by_cases hb : 65535 < body.length
  · simp [hb]
  · have : ¬ body.length > 65535 := hb
    simp only [this, if_false]
    rw [ho, patch_window pre ph body _ (by simp [hph])]

/-- the general inversion (any state, any index) -/
theorem setLen_ok {e e' : Enc} {li : Nat} (h : setLen e li = .ok e') :
    li + 2 ≤ e.out.length ∧ e.out.length - (li + 2) ≤ 65535 ∧
    e' = { e with out := patch e.out li (beBytes 2 (e.out.length - (li + 2))) } := by
  unfold setLen at h
  simp only at h
  by_cases h1 : e.out.length < li + 2
  · simp [h1] at h
  · by_cases h2 : e.out.length - (li + 2) > 65535
    · simp [h1, h2] at h
    · have h3 : li + 2 - 1 < e.out.length := by omega
      simp only [h1, h2, h3, if_true, if_false] at h
      cases h
      exact ⟨by omega, by omega, rfl⟩

/-- `set_length_index` keeps the length, the table, and every octet outside the placeholder -/
theorem setLen_frame {e e' : Enc} {li : Nat} (h : setLen e li = .ok e') :
    e'.out.length = e.out.length ∧ e'.idx = e.idx ∧
    ∀ j, j < li ∨ li + 2 ≤ j → e'.out[j]? = e.out[j]? := by
  obtain ⟨h1, _, rfl⟩ := setLen_ok h
  refine ⟨patch_length _ _ _ (by simp; omega), rfl, fun j hj => ?_⟩
  exact patch_get_out _ _ _ (by simp; omega) j (by simpa using hj)

/-- every error of `set_length_index`, from any state and index -/
theorem setLen_err {e : Enc} {li : Nat} {err : EErr} (h : setLen e li = .error err) :
    (err = .panic "set_length_index: len - (index + 2)" ∧ e.out.length < li + 2) ∨
    (err = .length ∧ li + 2 ≤ e.out.length ∧ 65535 < e.out.length - (li + 2)) := by
  unfold setLen at h
  simp only at h
  by_cases h1 : e.out.length < li + 2
  · simp [h1] at h; exact Or.inl ⟨h.symm, h1⟩
  · by_cases h2 : e.out.length - (li + 2) > 65535
    · simp [h1, h2] at h; exact Or.inr ⟨h.symm, by omega, h2⟩
    · have h3 : li + 1 < e.out.length := by omega
      simp [h1, h2, h3] at h

/-- `EncodeError::NotEnoughBytes` is unreachable in `set_length_index`: the index check of
`set_u16` is implied by the checked subtraction before it -/
theorem setLen_ne_notEnoughBytes (e : Enc) (li : Nat) : setLen e li ≠ .error .notEnoughBytes := by
  intro h
  rcases setLen_err h with ⟨he, _⟩ | ⟨he, _⟩ <;> cases he

/-! ## `set_address_length_index` -/

theorem or_128 : ∀ n : Fin 128, n.val ||| 128 = n.val + 128 := by decide

/-- the AFDLENGTH octet holds the negation bit and the true length -/
theorem afd_octet (neg : Bool) {len : Nat} (h : len < 128) :
    (UInt8.ofNat (if neg then len ||| 128 else len)).toNat = (if neg then 128 else 0) + len := by
  have h1 := or_128 ⟨len, h⟩
  simp only at h1
  cases neg
  · simp only [Bool.false_eq_true, if_false]
    rw [UInt8.ofNat_toNat_lt (by omega)]; omega
  · simp only [if_true]
    rw [h1, UInt8.ofNat_toNat_lt (by omega)]; omega

/-- **`set_address_length_index` on a window, exactly** -/
theorem setAddrLen_window (e : Enc) (neg : Bool) (pre ph body : Bytes) (hph : ph.length = 1)
    (ho : e.out = pre ++ ph ++ body) :
    setAddrLen e neg pre.length =
      if 255 < body.length then .error .length
      else if 128 ≤ body.length then .error .aplAddressLength
      else .ok { e with out := pre ++ [UInt8.ofNat (if neg then body.length ||| 128 else body.length)]
                                ++ body } := by
  have hL : e.out.length = pre.length + 1 + body.length := by
    rw [ho]; simp [hph]; omega
  unfold setAddrLen
  have h1 : ¬ e.out.length < pre.length + 1 := by omega
  have h2 : e.out.length - (pre.length + 1) = body.length := by omega
  have h3 : pre.length + 1 - 1 < e.out.length := by omega
  simp only [h1, if_false, h2, h3, if_true]
  by_cases hb : 255 < body.length
  · simp [hb]
  · have : ¬ body.length > 255 := hb
    simp only [this, if_false]
    by_cases hc : 128 ≤ body.length
    · have : body.length ≥ 128 := hc
      simp [this]
    · have : ¬ body.length ≥ 128 := hc
      simp only [this, if_false]
      rw [ho, patch_window pre ph body _ (by simp [hph])]

theorem setAddrLen_ok {e e' : Enc} {neg : Bool} {ali : Nat} (h : setAddrLen e neg ali = .ok e') :
    ali + 1 ≤ e.out.length ∧ e.out.length - (ali + 1) < 128 ∧
    e' = { e with out := patch e.out ali ([UInt8.ofNat
      (if neg then (e.out.length - (ali + 1)) ||| 128 else e.out.length - (ali + 1))]) } := by
  unfold setAddrLen at h
  simp only at h
  by_cases h1 : e.out.length < ali + 1
  · simp [h1] at h
  · by_cases h2 : e.out.length - (ali + 1) > 255
    · simp [h1, h2] at h
    · by_cases h3 : e.out.length - (ali + 1) ≥ 128
      · simp [h1, h2, h3] at h
      · have h4 : ali + 1 - 1 < e.out.length := by omega
        simp only [h1, h2, h3, h4, if_true, if_false] at h
        cases h
        exact ⟨by omega, by omega, rfl⟩

theorem setAddrLen_frame {e e' : Enc} {neg : Bool} {ali : Nat} (h : setAddrLen e neg ali = .ok e') :
    e'.out.length = e.out.length ∧ e'.idx = e.idx ∧
    ∀ j, j < ali ∨ ali + 1 ≤ j → e'.out[j]? = e.out[j]? := by
  obtain ⟨h1, _, rfl⟩ := setAddrLen_ok h
  refine ⟨patch_length _ _ _ (by simp; omega), rfl, fun j hj => ?_⟩
  exact patch_get_out _ _ _ (by simp; omega) j (by simpa using hj)

theorem setAddrLen_err {e : Enc} {neg : Bool} {ali : Nat} {err : EErr}
    (h : setAddrLen e neg ali = .error err) :
    (err = .panic "set_address_length_index: len - (index + 1)" ∧ e.out.length < ali + 1) ∨
    (err = .length ∧ ali + 1 ≤ e.out.length ∧ 255 < e.out.length - (ali + 1)) ∨
    (err = .aplAddressLength ∧ ali + 1 ≤ e.out.length ∧ 128 ≤ e.out.length - (ali + 1) ∧
      e.out.length - (ali + 1) ≤ 255) := by
  unfold setAddrLen at h
  simp only at h
  by_cases h1 : e.out.length < ali + 1
  · simp [h1] at h; exact Or.inl ⟨h.symm, h1⟩
  · by_cases h2 : e.out.length - (ali + 1) > 255
    · simp [h1, h2] at h; exact Or.inr (Or.inl ⟨h.symm, by omega, h2⟩)
    · by_cases h3 : e.out.length - (ali + 1) ≥ 128
      · simp [h1, h2, h3] at h; exact Or.inr (Or.inr ⟨h.symm, by omega, h3, by omega⟩)
      · have h4 : ali < e.out.length := by omega
        simp [h1, h2, h3, h4] at h

theorem setAddrLen_ne_notEnoughBytes (e : Enc) (neg : Bool) (ali : Nat) :
    setAddrLen e neg ali ≠ .error .notEnoughBytes := by
  intro h
  rcases setAddrLen_err h with ⟨he, _⟩ | ⟨he, _⟩ | ⟨he, _⟩ <;> cases he

/-- **The back-patch after a body writer**: if the body writer only appended to the output that
ended with the two placeholder octets (`Step`), then `set_length_index` at the placeholder fails
with `.length` exactly when more than 65535 octets were appended and otherwise writes the true
body length into the placeholder; nothing else is touched. -/
theorem setLen_after {e1 e2 : Enc} {k : Nat} (hst : Step (e1.put [0, 0]) e2 k) :
    ∃ body, e2.out = e1.out ++ [0, 0] ++ body ∧ body.length ≤ k ∧
      setLen e2 e1.out.length =
        if 65535 < body.length then .error .length
        else .ok { e2 with out := e1.out ++ beBytes 2 body.length ++ body } := by
  obtain ⟨⟨body, hb, hbl⟩, _⟩ := hst
  exact ⟨body, hb, hbl, setLen_window e2 e1.out [0, 0] body rfl hb⟩

/-! ## Generic list writers

`encOptions`, `encApItems`, `encSvcParams`, `encQuestions`, `encRRs` are all the same left-to-right
loop over a one-element writer. -/

def foldW {α : Type} (w : Enc → α → Except EErr Enc) : Enc → List α → Except EErr Enc
  | e, [] => .ok e
  | e, o :: r =>
    match w e o with
    | .error err => .error err
    | .ok e => foldW w e r

/-- success of the loop: the `Step`s add up, and every element was written successfully from some
state that extends the start state, to a state that the final state extends (so whatever the
element's writer appended is still there at the end) -/
theorem foldW_ok {α : Type} {w : Enc → α → Except EErr Enc} {size : α → Nat} {P : α → Prop}
    (hw : ∀ e e' o, P o → w e o = .ok e' → Step e e' (size o)) :
    ∀ (l : List α) (e e' : Enc), (∀ o ∈ l, P o) → foldW w e l = .ok e' →
      Step e e' (l.map size).sum ∧
      ∀ o ∈ l, ∃ e1 e2 k1 k2, Step e e1 k1 ∧ w e1 o = .ok e2 ∧ Step e2 e' k2 := by
  intro l
  induction l with
  | nil =>
    intro e e' _ h
    simp [foldW] at h; subst h
    exact ⟨Step.refl _ _, fun o ho => by simp at ho⟩
  | cons o r ih =>
    intro e e' hP h
    unfold foldW at h
    cases h1 : w e o with
    | error err => simp [h1] at h
    | ok e1 =>
      simp only [h1] at h
      obtain ⟨hs, hall⟩ := ih e1 e' (fun x hx => hP x (by simp [hx])) h
      have hs1 := hw e e1 o (hP o (by simp)) h1
      refine ⟨by simpa using hs1.trans hs, fun x hx => ?_⟩
      rcases List.mem_cons.mp hx with rfl | hx
      · exact ⟨e, e1, 0, _, Step.refl _ _, h1, hs⟩
      · obtain ⟨ea, eb, k1, k2, hk, hwk, hk2⟩ := hall x hx
        exact ⟨ea, eb, _, k2, hs1.trans hk, hwk, hk2⟩

/-- failure of the loop: some element failed with that error, from a state reached by writing the
elements before it -/
theorem foldW_err {α : Type} {w : Enc → α → Except EErr Enc} {size : α → Nat} {P : α → Prop}
    (hw : ∀ e e' o, P o → w e o = .ok e' → Step e e' (size o)) :
    ∀ (l : List α) (e : Enc) (err : EErr), (∀ o ∈ l, P o) → foldW w e l = .error err →
      ∃ pre o post e1, l = pre ++ o :: post ∧ Step e e1 (pre.map size).sum ∧ w e1 o = .error err := by
  intro l
  induction l with
  | nil => intro e err _ h; simp [foldW] at h
  | cons o r ih =>
    intro e err hP h
    unfold foldW at h
    cases h1 : w e o with
    | error err1 =>
      simp [h1] at h; subst h
      exact ⟨[], o, r, e, rfl, Step.refl _ _, h1⟩
    | ok e1 =>
      simp only [h1] at h
      obtain ⟨pre, x, post, e2, hl, hs, hx⟩ := ih e1 err (fun x hx => hP x (by simp [hx])) h
      refine ⟨o :: pre, x, post, e2, by rw [hl]; rfl, ?_, hx⟩
      simpa using (hw e e1 o (hP o (by simp)) h1).trans hs

/-- an element that fails from EVERY state makes the loop fail -/
theorem foldW_fail {α : Type} {w : Enc → α → Except EErr Enc} {o : α}
    (ho : ∀ e, ∃ err, w e o = .error err) :
    ∀ (l : List α) (e : Enc), o ∈ l → ∃ err, foldW w e l = .error err := by
  intro l
  induction l with
  | nil => intro e h; simp at h
  | cons x r ih =>
    intro e h
    unfold foldW
    cases h1 : w e x with
    | error err1 => exact ⟨err1, rfl⟩
    | ok e1 =>
      simp only
      rcases List.mem_cons.mp h with rfl | h
      · obtain ⟨err, he⟩ := ho e; rw [he] at h1; cases h1
      · exact ih e1 h

theorem sum_map_le_of_append {α : Type} (size : α → Nat) (pre : List α) (o : α) (post : List α) :
    (pre.map size).sum + size o ≤ ((pre ++ o :: post).map size).sum := by
  simp

/-- the error classification of the loop from that of one element -/
theorem foldW_cause {α : Type} {w : Enc → α → Except EErr Enc} {size : α → Nat}
    {P S A1 A2 C : α → Prop}
    (hw : ∀ e e' o, P o → w e o = .ok e' → Step e e' (size o))
    (he : ∀ e err o, P o → w e o = .error err → Cause e err (S o) (A1 o) (A2 o) (C o) (size o))
    {l : List α} {e : Enc} {err : EErr} (hP : ∀ o ∈ l, P o) (h : foldW w e l = .error err) :
    Cause e err (∃ o ∈ l, S o) (∃ o ∈ l, A1 o) (∃ o ∈ l, A2 o) (∃ o ∈ l, C o) (l.map size).sum := by
  obtain ⟨pre, o, post, e1, hl, hs, ho⟩ := foldW_err hw l e err hP h
  have hm : o ∈ l := by rw [hl]; simp
  refine (he e1 err o (hP o hm) ho).lift_step hs (fun h => ⟨o, hm, h⟩) (fun h => ⟨o, hm, h⟩)
    (fun h => ⟨o, hm, h⟩) (fun h => ⟨o, hm, h⟩) ?_
  rw [hl]; exact sum_map_le_of_append size pre o post

/-- exact output of the loop when every element appends a fixed octet string -/
theorem foldW_put {α : Type} {w : Enc → α → Except EErr Enc} {wire : α → Bytes}
    (hw : ∀ e e' o, w e o = .ok e' → e' = e.put (wire o)) :
    ∀ (l : List α) (e e' : Enc), foldW w e l = .ok e' → e' = e.put (l.flatMap wire) := by
  intro l
  induction l with
  | nil =>
    intro e e' h
    simp [foldW] at h; subst h
    simp [put_nil]
  | cons o r ih =>
    intro e e' h
    unfold foldW at h
    cases h1 : w e o with
    | error err => simp [h1] at h
    | ok e1 =>
      simp only [h1] at h
      rw [ih e1 e' h, hw e e1 o h1, put_put]
      simp

theorem length_le_flatMap {α : Type} (f : α → Bytes) {l : List α} {o : α} (h : o ∈ l) :
    (f o).length ≤ (l.flatMap f).length := by
  induction l with
  | nil => simp at h
  | cons x r ih =>
    simp only [List.flatMap_cons, List.length_append]
    rcases List.mem_cons.mp h with rfl | h
    · omega
    · have := ih h; omega

end EncLim
