import DnsVerif.Lemmas.ApiMachines
import DnsVerif.Lemmas.ApiExtra
import DnsVerif.Lemmas.Text
import DnsVerif.Lemmas.EncLimMsg
import DnsVerif.Lemmas.RTEmbedAll
import DnsVerif.Lemmas.RTShift2

/-! # Helper lemmas for the property clauses of C12 / C13 that had no property-level theorem

* C12 "whatever sequence of public constructors, setters, appends or decodes": the start states produced by the
  decoder-side constructors satisfy the state-machine invariants (`decEcs_inv`, `decApItem_inv`, `decCookie_inv`,
  `parseName_inv`, `name_inv_of_dec`);
* C13 "equal names are interchangeable compression targets": `lookup_congr`, `ciEq_drop`, `lookup_drop_congr`,
  `encNameGo_congr`, `encName_congr`, `encName_congr_length`;
* C10 "exactly what the element occupies when it is the first element of a message": the record embedding for the
  first record in wire order in whichever record section it stands (`embeds_first`, `elem_embeds_first`,
  `elem_embeds_shift_first`), the header / flag octets (`header_embeds`, `flags_embed`) and the name of the first
  question (`name_embeds_as_qname`). -/

namespace ExtraC

/-! ## Start states produced by the other constructors -/

/-- `FromStr for DomainName` -/
theorem parseName_inv {s : Bytes} {n : Name} (h : parseName s = .ok n) : DomainName.Inv n := parseName_limits h

/-- the wire decoder, from any decoder state -/
theorem name_inv_of_dec {d d' : D} {n : Name} (h : d.name = .ok (n, d')) : DomainName.Inv n :=
  (DomainName.inv_iff_wire n).mpr (ApiExtra.name_labels_of_dec h)

/-- a decoded ECS option goes through `ECS::new` -/
theorem decEcs_inv {d d' : D} {o : EdnsOpt} (h : decEcs d = .ok (o, d')) :
    ∃ fam src scope addr, o = .ecs fam src scope addr ∧ ECS.Inv ⟨src, scope, addr⟩ := by
  unfold decEcs at h
  cases h1 : d.family with
  | error e => simp [h1] at h
  | ok p1 =>
    obtain ⟨fam, d1⟩ := p1
    simp only [h1] at h
    cases h2 : d1.num 1 with
    | error e => simp [h2] at h
    | ok p2 =>
      obtain ⟨src, d2⟩ := p2
      simp only [h2] at h
      cases h3 : d2.num 1 with
      | error e => simp [h3] at h
      | ok p3 =>
        obtain ⟨scope, d3⟩ := p3
        simp only [h3] at h
        cases h4 : d3.address fam with
        | error e => simp [h4] at h
        | ok p4 =>
          obtain ⟨addr, d4⟩ := p4
          simp only [h4] at h
          cases h5 : ecsNew fam src scope addr with
          | error e => simp [h5] at h
          | ok o' =>
            simp only [h5] at h
            injection h with h
            injection h with ho _
            subst ho
            obtain ⟨rfl, hinv⟩ := (ecsNew_ok_iff _ _ _ _ _).mp h5
            exact ⟨fam, src, scope, addr, rfl, hinv⟩

/-- a decoded APL item goes through `APItem::new` -/
theorem decApItem_inv {d d' : D} {it : APItem} (h : decApItem d = .ok (it, d')) : it.Inv := by
  unfold decApItem at h
  cases h1 : d.family with
  | error e => simp [h1] at h
  | ok p1 =>
    obtain ⟨fam, d1⟩ := p1
    simp only [h1] at h
    cases h2 : d1.num 1 with
    | error e => simp [h2] at h
    | ok p2 =>
      obtain ⟨pfx, d2⟩ := p2
      simp only [h2] at h
      cases h3 : d2.num 1 with
      | error e => simp [h3] at h
      | ok p3 =>
        obtain ⟨b, d3⟩ := p3
        simp only [h3] at h
        cases h4 : d3.withSub (b &&& 127) (fun c => c.address fam) with
        | error e => simp [h4] at h
        | ok p4 =>
          obtain ⟨addr, d4⟩ := p4
          simp only [h4] at h
          cases h5 : apItemNew fam pfx ((b &&& 128) == 128) addr with
          | error e => simp [h5] at h
          | ok it' =>
            simp only [h5] at h
            injection h with h
            injection h with ho _
            subst ho
            exact ((apItemNew_ok_iff _ _ _ _ _).mp h5).2

/-- every item of a decoded APL list -/
theorem decApItems_inv : ∀ (fuel : Nat) {d d' : D} {l : List APItem},
    decApItems fuel d = .ok (l, d') → ∀ it ∈ l, it.Inv := by
  intro fuel
  induction fuel with
  | zero => intro d d' l h; simp [decApItems] at h
  | succ fuel ih =>
    intro d d' l h
    unfold decApItems at h
    cases h1 : d.isFinished with
    | error e => simp [h1] at h
    | ok fin =>
      cases fin with
      | true =>
        simp only [h1] at h
        injection h with h
        injection h with hl _
        subst hl
        intro it hit; simp at hit
      | false =>
        simp only [h1] at h
        cases h2 : decApItem d with
        | error e => simp [h2] at h
        | ok p2 =>
          obtain ⟨o, d2⟩ := p2
          simp only [h2] at h
          cases h3 : decApItems fuel d2 with
          | error e => simp [h3] at h
          | ok p3 =>
            obtain ⟨r, d3⟩ := p3
            simp only [h3] at h
            injection h with h
            injection h with hl _
            subst hl
            intro it hit
            rcases List.mem_cons.mp hit with rfl | hr
            · exact decApItem_inv h2
            · exact ih h3 it hr

/-- a decoded cookie option goes through `Cookie::new` -/
theorem decCookie_inv {c c' : D} {o : EdnsOpt} (hc : D.Ok c) (h : decCookie c = .ok (o, c')) :
    ∃ client server, o = .cookie client server ∧ client.length = 8 ∧ Cookie.Inv ⟨client, server⟩ := by
  obtain ⟨client, server, h1, h2, h3⟩ := ApiExtra.decCookie_valid hc h
  exact ⟨client, server, h1, h2, h3⟩

/-! ## Equal names are interchangeable compression targets -/

/-- the compression-table lookup depends on the key only up to name equality -/
theorem lookup_congr {a b : Name} (h : ciEq a b = true) (e : Enc) : e.lookup a = e.lookup b := by
  have hl : a.lower = b.lower := by simpa [ciEq] using h
  unfold Enc.lookup ciEq
  rw [hl]

/-- every suffix of equal names is equal (the encoder looks up every suffix of a name) -/
theorem ciEq_drop {a b : Name} (h : ciEq a b = true) (k : Nat) : ciEq (a.drop k) (b.drop k) = true := by
  have hl : a.lower = b.lower := by simpa [ciEq] using h
  simp only [ciEq, Name.lower, beq_iff_eq] at hl ⊢
  rw [List.map_drop, List.map_drop, hl]

/-- … so every suffix lookup gives the same answer for equal names -/
theorem lookup_drop_congr {a b : Name} (h : ciEq a b = true) (e : Enc) (k : Nat) :
    e.lookup (a.drop k) = e.lookup (b.drop k) := lookup_congr (ciEq_drop h k) e

/-! ## `encName` on equal names -/

/-- what is compared: the output up to ASCII case, and the compression table with lower-cased keys -/
def encView (e : Enc) : Bytes × List (Name × Nat × Nat) :=
  (e.out.map lowerB, e.idx.map (fun p => (p.1.lower, p.2)))

def locView (l : List (Name × Nat)) : List (Name × Nat) := l.map (fun p => (p.1.lower, p.2))

theorem lookup_idx {ea eb : Enc} (h : ea.idx = eb.idx) (k : Name) : ea.lookup k = eb.lookup k := by
  unfold Enc.lookup; rw [h]

theorem merge_view {ea eb : Enc} {la lb : List (Name × Nat)} (r : Nat)
    (hout : ea.out.map lowerB = eb.out.map lowerB) (hidx : ea.idx = eb.idx) (hloc : locView la = locView lb) :
    (ea.merge la r).map encView = (eb.merge lb r).map encView := by
  unfold Enc.merge
  by_cases hr : r > 16
  · simp [hr, Except.map]
  · simp only [hr, if_false, Except.map, encView, List.map_append, List.map_map, hout, hidx]
    have : List.map ((fun p : Name × Nat × Nat => (p.1.lower, p.2)) ∘ fun p : Name × Nat => (p.1, p.2, r)) la =
        (locView la).map (fun p => (p.1, p.2, r)) := by simp [locView, Function.comp_def]
    have hb : List.map ((fun p : Name × Nat × Nat => (p.1.lower, p.2)) ∘ fun p : Name × Nat => (p.1, p.2, r)) lb =
        (locView lb).map (fun p => (p.1, p.2, r)) := by simp [locView, Function.comp_def]
    rw [this, hb, hloc]

theorem ciEq_cons {l l' : Label} {r r' : Name} (h : ciEq (l :: r) (l' :: r') = true) :
    l.map lowerB = l'.map lowerB ∧ ciEq r r' = true := by
  simpa [ciEq, Name.lower, Label.lower] using h

theorem ciEq_nil_left {b : Name} (h : ciEq [] b = true) : b = [] := by
  cases b with
  | nil => rfl
  | cons x y => simp [ciEq, Name.lower] at h

theorem encNameGo_congr : ∀ (a b : Name), ciEq a b = true → ∀ (ea eb : Enc) (la lb : List (Name × Nat)),
    ea.out.map lowerB = eb.out.map lowerB → ea.idx = eb.idx → locView la = locView lb →
    (encNameGo ea a la).map encView = (encNameGo eb b lb).map encView := by
  intro a
  induction a with
  | nil =>
    intro b h ea eb la lb hout hidx hloc
    rw [ciEq_nil_left h]
    unfold encNameGo
    exact merge_view 0 (by simp [hout]) hidx hloc
  | cons l rest ih =>
    intro b h ea eb la lb hout hidx hloc
    cases b with
    | nil => simp [ciEq, Name.lower] at h
    | cons l' rest' =>
      obtain ⟨hl, hr⟩ := ciEq_cons h
      have hlen : ea.out.length = eb.out.length := by simpa using congrArg List.length hout
      have hll : l.length = l'.length := by simpa using congrArg List.length hl
      have hlk : ea.lookup (l :: rest) = eb.lookup (l' :: rest') := by
        rw [lookup_congr h ea, lookup_idx hidx]
      have hlit : (if ea.out.length > 65535 then Except.error EErr.length
            else if l.length > 255 then .error .string
            else encNameGo { ea with out := ea.out ++ (UInt8.ofNat l.length :: l) } rest
              (if ea.out.length ≤ 0x3FFF then (l :: rest, ea.out.length) :: la else la)).map encView =
          (if eb.out.length > 65535 then Except.error EErr.length
            else if l'.length > 255 then .error .string
            else encNameGo { eb with out := eb.out ++ (UInt8.ofNat l'.length :: l') } rest'
              (if eb.out.length ≤ 0x3FFF then (l' :: rest', eb.out.length) :: lb else lb)).map encView := by
        rw [hlen, hll]
        by_cases h1 : eb.out.length > 65535
        · simp [h1, Except.map]
        · by_cases h2 : l'.length > 255
          · simp [h1, h2, Except.map]
          · simp only [h1, h2, if_false]
            apply ih rest' hr
            · simp [hout, hl]
            · exact hidx
            · by_cases h3 : eb.out.length ≤ 0x3FFF
              · have hh : Name.lower (l :: rest) = Name.lower (l' :: rest') := by simpa [ciEq] using h
                simp [h3, locView, hh]
                exact hloc
              · simp [h3, hloc]
      unfold encNameGo
      simp only [hlk]
      cases eb.lookup (l' :: rest') with
      | none => exact hlit
      | some p =>
        obtain ⟨off, r⟩ := p
        simp only
        by_cases h1 : 0x3FFF < off
        · simp [h1, Except.map]
        · by_cases h2 : r ≥ 16
          · simp only [h1, h2, if_false, if_true]; exact hlit
          · simp only [h1, h2, if_false]
            exact merge_view (r + 1) (by simp [hout]) hidx hloc

/-- **equal names are interchangeable for the encoder**: from the same encoder state, writing `a` or an equal name `b`
fails with the same error or succeeds with the same output up to the ASCII case of the label octets (same length,
same length octets, same pointer octets at the same positions: `lowerB` fixes every octet outside `A`..`Z`) and the
same compression table up to the case of its keys (same offsets, same recursion counts) -/
theorem encName_congr {a b : Name} (h : ciEq a b = true) (e : Enc) :
    (encName e a).map encView = (encName e b).map encView :=
  encNameGo_congr a b h e e [] [] rfl rfl rfl

/-- … in particular the same error or the same number of octets -/
theorem encName_congr_length {a b : Name} (h : ciEq a b = true) (e : Enc) :
    (encName e a).map (fun e' => e'.out.length) = (encName e b).map (fun e' => e'.out.length) := by
  have hv := encName_congr h e
  cases ha : encName e a with
  | error x =>
    cases hb : encName e b with
    | error y => rw [ha, hb] at hv; simpa [Except.map] using hv
    | ok eb => rw [ha, hb] at hv; simp [Except.map] at hv
  | ok ea =>
    cases hb : encName e b with
    | error y => rw [ha, hb] at hv; simp [Except.map] at hv
    | ok eb =>
      rw [ha, hb] at hv
      simp only [Except.map, Except.ok.injEq, encView, Prod.mk.injEq] at hv ⊢
      simpa using congrArg List.length hv.1

/-! ## C10: the first element of a message -/

section Embed
open EncLim

theorem encRRs_append : ∀ (l1 l2 : List RR) (e : Enc),
    encRRs e (l1 ++ l2) = match encRRs e l1 with
      | .error err => .error err
      | .ok e1 => encRRs e1 l2 := by
  intro l1
  induction l1 with
  | nil => intro l2 e; simp [encRRs]
  | cons r l1 ih =>
    intro l2 e
    simp only [List.cons_append, encRRs]
    cases encRR e r with
    | error err => rfl
    | ok e1 => exact ih l2 e1

/-- with an empty question section the body is the three record sections written one after the other -/
theorem msgBody_noq {m : Msg} (hq : m.qs = []) (e : Enc) : msgBody m e = encRRs e (msgRRs m) := by
  unfold msgBody msgRRs
  rw [hq, encRRs_append, encRRs_append]
  simp only [encQuestions]
  cases encRRs e m.an with
  | error err => rfl
  | ok e1 =>
    simp only
    cases encRRs e1 m.ns with
    | error err => rfl
    | ok e2 => rfl

/-- assembly (generalises `RTS.embeds_of_shift`): the record is the first record of the message in wire order, in
whichever of the three record sections it stands (all earlier sections empty) -/
theorem embeds_first {R : Bytes → Bytes → Prop} {m : Msg} {rr : RR} {rest : List RR} {b bm : Bytes}
    (hsm : ShapedMsg m) (hq : m.qs = []) (hfirst : msgRRs m = rr :: rest) (h : encodeRR rr = .ok b)
    (hm : encodeDns m = .ok bm)
    (key : ∀ eA' eB', encRR {} rr = .ok eA' → encRR (Enc.put {} (msgHeader m)) rr = .ok eB' →
      ∃ b', eB'.out = msgHeader m ++ b' ∧ R eA'.out b') :
    ∃ b' tail, bm = msgHeader m ++ b' ++ tail ∧ R b b' := by
  obtain ⟨eA', heA, rfl⟩ := outOf_ok.mp h
  obtain ⟨e', he, rfl⟩ := outOf_ok.mp hm
  rw [encMsg_eq] at he
  split at he
  · cases he
  · cases hb : msgBody m (Enc.put {} (msgHeader m)) with
    | error err => simp [hb] at he
    | ok e2 =>
      simp only [hb] at he
      split at he
      · cases he
      · cases he
        rw [msgBody_noq hq, hfirst] at hb
        simp only [encRRs] at hb
        cases h1 : encRR (Enc.put {} (msgHeader m)) rr with
        | error err => simp [h1] at hb
        | ok e1 =>
          simp only [h1] at hb
          obtain ⟨b', hl, hR⟩ := key eA' e1 heA h1
          obtain ⟨x2, hx2⟩ := (encRRs_ok (fun r hr => hsm r (by rw [hfirst]; simp [hr])) hb).1.ext
          exact ⟨b', x2, by rw [hx2, hl], hR⟩

/-- `RT.elem_embeds` for the first record in wire order (pointer-free stand-alone encoding) -/
theorem elem_embeds_first {m : Msg} {rr : RR} {rest : List RR} {b bm : Bytes} (hsm : ShapedMsg m) (hwf : WfRR rr)
    (hq : m.qs = []) (hfirst : msgRRs m = rr :: rest) (h : encodeRR rr = .ok b) (hfull : b.length = rr.usize)
    (hm : encodeDns m = .ok bm) : ∃ tail, bm = msgHeader m ++ b ++ tail := by
  obtain ⟨b', tail, hbm, rfl⟩ := embeds_first (R := fun b b' => b' = b) hsm hq hfirst h hm
    (fun eA' eB' hA hB => by
      have hb : eA'.out = b := by
        obtain ⟨e, he, heb⟩ := outOf_ok.mp h
        rw [hA] at he; cases he; exact heb
      have sim : RT.Sim {} (Enc.put {} (msgHeader m)) :=
        ⟨by simp, fun q hq => by simp at hq, fun p hp => by simp at hp⟩
      obtain ⟨x, hxA, hxB⟩ := RT.encRR_sim hwf sim hA (by rw [hb, hfull]; simp) hB
      exact ⟨x, by rw [hxB]; simp, by rw [hxA]; simp⟩)
  exact ⟨tail, hbm⟩

/-- `RTS.elem_embeds_shift_wf` for the first record in wire order -/
theorem elem_embeds_shift_first {m : Msg} {rr : RR} {rest : List RR} {b bm : Bytes}
    (hsm : ShapedMsg m) (hwf : WfRR rr) (hq : m.qs = []) (hfirst : msgRRs m = rr :: rest)
    (h : encodeRR rr = .ok b) (hm : encodeDns m = .ok bm) :
    ∃ P b' tail, bm = msgHeader m ++ b' ++ tail ∧ RTS.ShiftEq P 12 b b' := by
  obtain ⟨b', tail, hbm, P, sh⟩ := embeds_first (R := fun b b' => ∃ P, RTS.Sh 12 0 b b' P) hsm hq hfirst h hm
    (fun eA' eB' hA hB => by
      have tab : RTS.Tab 12 {} (Enc.put {} (msgHeader m)) :=
        ⟨by simp [msgHeader_length], rfl, fun q hq => by simp at hq⟩
      obtain ⟨xA, xB, Q, hxA, hxB, sh⟩ := RTS.encRR_shift_wf hwf tab hA hB (by simp)
      refine ⟨xB, by rw [hxB]; simp, Q, ?_⟩
      have : eA'.out = xA := by rw [hxA]; simp
      rw [this]
      simpa using sh)
  exact ⟨P, b', tail, hbm, sh.toShiftEq⟩


/-- the first twelve octets of an encoded message are its header -/
theorem header_embeds {m : Msg} {bm : Bytes} (hsm : ShapedMsg m) (hm : encodeDns m = .ok bm) :
    ∃ rest, bm = msgHeader m ++ rest := by
  obtain ⟨e', he, rfl⟩ := outOf_ok.mp hm
  obtain ⟨_, _, ⟨rest, hrest, _⟩, _⟩ := encMsg_ok hsm he
  exact ⟨rest, by simpa using hrest⟩

/-- the two flag octets of an encoded message are what the stand-alone `Flags::encode` writes -/
theorem flags_embed {m : Msg} {bm : Bytes} (hsm : ShapedMsg m) (hm : encodeDns m = .ok bm) :
    (bm.drop 2).take 2 = encodeFlags m.flags := by
  obtain ⟨rest, rfl⟩ := header_embeds hsm hm
  simp [msgHeader, encodeFlags, flagsBytes, beBytes]

/-- the name of the first question is written exactly as the stand-alone `DomainName::encode` writes it -/
theorem name_embeds_as_qname {m : Msg} {q : Question} {rest : List Question} {b bm : Bytes} (hsm : ShapedMsg m)
    (hq : m.qs = q :: rest) (h : encodeName q.name = .ok b) (hm : encodeDns m = .ok bm) :
    ∃ tail, bm = msgHeader m ++ b ++ tail := by
  obtain ⟨e1, he1, rfl⟩ := outOf_ok.mp h
  have hQ : encodeQuestion q = .ok (e1.out ++ (beBytes 2 q.qtype ++ beBytes 2 q.qclass)) := by
    simp [encodeQuestion, encQuestion, he1, outOf, Enc.put]
  obtain ⟨tail, ht⟩ := RTS.question_embeds hsm hq hQ hm
  exact ⟨beBytes 2 q.qtype ++ beBytes 2 q.qclass ++ tail, by rw [ht]; simp⟩

end Embed

end ExtraC
