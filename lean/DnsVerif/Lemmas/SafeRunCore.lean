import DnsVerif.Lemmas.SafeMsg

/-! # The work of EVERY run, failing runs included (C07) — framework, primitives, names

The model's error outcomes do not carry the decoder state, so `d'.cost` is only available for accepting
runs. For every decoding function `f` of `Model/Dec.lean` this development defines `fC : D → Nat`, the
FINAL COST of the run of `f` started at `d`: the value of the octet counter (octets handed out by
`Decoder::read` / `Decoder::bytes`) when `f` returns — with a value or with an error. `fC` follows the
control flow of `f` by calling the model functions themselves (`bindC (f d) …`), so there is no second
copy of the decoder whose agreement with the first would have to be proved; a failing `read` hands out
nothing, so a primitive that fails leaves the counter where it was.

For every `f` one lemma `f_postC : D.Ok d → PostC K d (f d) (fC d)`:
* if `f d = .ok (v, d')` then `fC d = d'.cost` (the final cost IS the model's cost on accepting runs);
* if `f d` fails then `d.cost ≤ fC d ≤ d.cost + K * (d.lim - d.off) + slack d`: at most `K` per octet of
  the REMAINING WINDOW, plus — once, because the run ends there — the work of one failing name expansion,
  `slack d = 290 + min 191 d.buf.length`.

The counter never decreases along a run (`Step.cost_lo`), so a bound on the final cost bounds the counter
at every intermediate point. Main theorems: `SafeRunMsg.lean`. -/

namespace Safe

/-- work of one failing name expansion: `1 + 254 + 2·17 + 1` octets of labels and pointers that were
still accepted, and one label of at most 191 octets (a length octet below 192) read before it is rejected -/
def slack (d : D) : Nat := 290 + min 191 d.buf.length

/-- final cost of `match r with | .error e => .error e | .ok (a, d1) => k a d1`: `fc` if `r` failed,
else the final cost `kc a d1` of the continuation -/
def bindC {α : Type} (r : Except DErr (α × D)) (fc : Nat) (kc : α → D → Nat) : Nat :=
  match r with
  | .error _ => fc
  | .ok (a, d1) => kc a d1

/-- final cost of a step that fails without having read anything, or succeeds and is the last to read -/
def primC {α : Type} (r : Except DErr (α × D)) (d : D) : Nat :=
  match r with
  | .error _ => d.cost
  | .ok (_, d1) => d1.cost

def PostC {α : Type} (K : Nat) (d : D) (r : Except DErr (α × D)) (c : Nat) : Prop :=
  match r with
  | .ok p => c = p.2.cost
  | .error _ => d.cost ≤ c ∧ c ≤ d.cost + K * (d.lim - d.off) + slack d

/-- the failure half of `PostC` (all that is needed of the first part of a sequence) -/
def FailC {α : Type} (K : Nat) (d : D) (r : Except DErr (α × D)) (c : Nat) : Prop :=
  ∀ e, r = .error e → d.cost ≤ c ∧ c ≤ d.cost + K * (d.lim - d.off) + slack d

theorem PostC.fail {α : Type} {K : Nat} {d : D} {r : Except DErr (α × D)} {c : Nat}
    (h : PostC K d r c) : FailC K d r c := by
  intro e he; subst he; exact h

/-- a step that fails without reading -/
theorem FailC.here {α : Type} {K : Nat} {d : D} {r : Except DErr (α × D)} : FailC K d r d.cost :=
  fun _ _ => ⟨Nat.le_refl _, by omega⟩

theorem PostC.of_fail {α : Type} {K1 K : Nat} {d : D} {e : DErr} {c : Nat}
    (h : FailC (α := α) K1 d (.error e) c) (hK : K1 ≤ K) : PostC (α := α) K d (.error e) c := by
  obtain ⟨h1, h2⟩ := h e rfl
  refine ⟨h1, Nat.le_trans h2 ?_⟩
  have := Nat.mul_le_mul_right (d.lim - d.off) hK
  omega

theorem PostC.of_fail' {α : Type} {K1 K : Nat} {d : D} {r : Except DErr (α × D)} {e : DErr} {c : Nat}
    (hr : r = .error e) (h : FailC K1 d r c) (hK : K1 ≤ K) : PostC (α := α) K d (.error e) c := by
  subst hr; exact PostC.of_fail h hK

theorem PostC.ok_here {α : Type} {K : Nat} {d d' : D} {a : α} : PostC K d (.ok (a, d')) d'.cost := rfl

theorem PostC.err_here {α : Type} {K : Nat} {d : D} {e : DErr} : PostC (α := α) K d (.error e) d.cost :=
  ⟨Nat.le_refl _, by omega⟩

theorem PostC.prim {α : Type} {K : Nat} {d : D} {r : Except DErr (α × D)} : PostC K d r (primC r d) := by
  cases r with
  | error e => exact PostC.err_here
  | ok p => rfl

theorem PostC.weaken {α : Type} {K K' : Nat} {d : D} {r : Except DErr (α × D)} {c : Nat}
    (h : PostC K d r c) (hK : K ≤ K') : PostC K' d r c := by
  cases r with
  | ok p => exact h
  | error e => exact PostC.of_fail h.fail hK

/-- continue after a successful step: the rest is judged from the new cursor -/
theorem PostC.trans {α : Type} {K1 K m : Nat} {d d1 : D} {r : Except DErr (α × D)} {c : Nat}
    (s : Step K1 m d d1) (hK : K1 ≤ K) (h : PostC K d1 r c) : PostC K d r c := by
  cases r with
  | ok p => exact h
  | error e =>
    obtain ⟨h1, h2⟩ := h
    have o := s.off; have l := s.lim; have ol := s.ok.off_le
    have c1 := s.cost_lo; have c2 := s.cost_hi
    have hs : slack d1 = slack d := by unfold slack; rw [s.buf]
    have e1 : K1 * (d1.off - d.off) ≤ K * (d1.off - d.off) := Nat.mul_le_mul_right _ hK
    have e2 : K * (d.lim - d.off) = K * (d1.off - d.off) + K * (d1.lim - d1.off) := by
      rw [← Nat.mul_add]; congr 1; omega
    exact ⟨by omega, by omega⟩

theorem PostC.of_bounds {α : Type} {K1 K : Nat} {d : D} {e : DErr} {c : Nat}
    (h : d.cost ≤ c ∧ c ≤ d.cost + K1 * (d.lim - d.off) + slack d) (hK : K1 ≤ K) :
    PostC (α := α) K d (.error e) c := by
  refine ⟨h.1, Nat.le_trans h.2 ?_⟩
  have := Nat.mul_le_mul_right (d.lim - d.off) hK
  omega

@[elab_as_elim]
theorem Post.elimC {α : Type} {K m : Nat} {d : D} {x : Except DErr (α × D)}
    {motive : Except DErr (α × D) → Prop} (hx : Post K m d x) {fc : Nat} (hc : FailC K d x fc)
    (herr : ∀ e, x = .error e → (d.cost ≤ fc ∧ fc ≤ d.cost + K * (d.lim - d.off) + slack d) →
      motive (.error e))
    (hok : ∀ a d1, x = .ok (a, d1) → Step K m d d1 → motive (.ok (a, d1))) : motive x := by
  cases x with
  | error e => exact herr e rfl (hc e rfl)
  | ok p => obtain ⟨a, d1⟩ := p; exact hok a d1 rfl hx

/-- `cbind p, c with a d1 s`: the goal is
`PostC K d (match r with | .error e => .error e | .ok (a, d1) => k) (bindC r fc kc)`,
`p : Post K1 m d r` (from the safety development) and `c : FailC K1 d r fc`. -/
macro "cbind " p:term ", " c:term " with " a:ident d1:ident s:ident : tactic =>
  `(tactic| (refine Post.elimC $p $c (fun _ _ hb => PostC.of_bounds hb (by omega))
               (fun $a $d1 _ $s => ?_)
             dsimp only [bindC]
             refine PostC.trans $s (by omega) ?_))

@[elab_as_elim]
theorem Post.elimL {α : Type} {K m : Nat} {d : D} {x : Except DErr (α × D)}
    {motive : Except DErr (α × D) → Prop} (hx : Post K m d x) {c : Nat} (hc : PostC K d x c)
    (herr : ∀ e, x = .error e → (d.cost ≤ c ∧ c ≤ d.cost + K * (d.lim - d.off) + slack d) →
      motive (.error e))
    (hok : ∀ a d1, x = .ok (a, d1) → Step K m d d1 → c = d1.cost → motive (.ok (a, d1))) : motive x := by
  cases x with
  | error e => exact herr e rfl hc
  | ok p => obtain ⟨a, d1⟩ := p; exact hok a d1 rfl hx hc

/-- `cdone`: what remains after the last read is pure validation; the final cost is the current one -/
macro "cdone" : tactic =>
  `(tactic| ((repeat' split) <;> first | exact PostC.ok_here | exact PostC.err_here))

/-- `clast p, c`: the last reading step is a compound function `g` with final cost `gC d` (the goal is
`PostC K d (match g d with | .error e => .error e | .ok (a, d1) => pure validation) (gC d)`),
`p : Post K1 m d (g d)`, `c : PostC K1 d (g d) (gC d)` -/
macro "clast " p:term ", " c:term : tactic =>
  `(tactic| (refine Post.elimL $p $c (fun _ _ hb => PostC.of_bounds hb (by omega))
               (fun _ _ _ s hc => ?_)
             dsimp only
             rw [hc]
             refine PostC.trans s (by omega) ?_
             cdone))

/-- `cprim p`: the last reading step is a primitive `r` (the final cost is `primC r d`), `p : Post K1 m d r` -/
macro "cprim " p:term : tactic =>
  `(tactic| (refine Post.elim $p (fun _ _ => PostC.err_here) (fun _ _ _ s => ?_)
             dsimp only [primC]
             refine PostC.trans s (by omega) ?_
             cdone))

/-! ## Primitives -/

theorem read_postC {d : D} {n : Nat} : PostC 1 d (d.read n) (primC (d.read n) d) := PostC.prim
theorem num_postC {d : D} {w : Nat} : PostC 1 d (d.num w) (primC (d.num w) d) := PostC.prim
theorem u8_postC {d : D} : PostC 1 d d.u8 (primC d.u8 d) := PostC.prim
theorem rest_postC {d : D} : PostC 1 d d.rest (primC d.rest d) := PostC.prim

/-- `Decoder::string`: the length octet may have been read when the octets are missing -/
def cstrC (d : D) : Nat := bindC d.u8 d.cost fun len d1 => primC (d1.read len.toNat) d1

theorem cstr_postC {d : D} (hd : D.Ok d) : PostC 1 d d.cstr (cstrC d) := by
  unfold D.cstr cstrC
  cbind u8_post hd, FailC.here with len d1 s1
  cases h : d1.read len.toNat with
  | error e => exact PostC.err_here
  | ok p =>
    obtain ⟨s, d2⟩ := p
    dsimp only [primC]
    have s2 := (read_post s1.ok (by have := len.toNat_lt; omega)).step h
    refine PostC.trans s2 (Nat.le_refl _) ?_
    cdone

/-- the child window: the slice is charged first, then the body, then `finished` (which reads nothing) -/
def withSubC {α : Type} (d : D) (len : Nat) (f : D → Except DErr (α × D)) (fc : D → Nat) : Nat :=
  bindC (d.read len) d.cost fun _ d' =>
    bindC (f { buf := d.buf, off := d.off, lim := d.off + len, cost := d'.cost })
      (fc { buf := d.buf, off := d.off, lim := d.off + len, cost := d'.cost }) fun _ c => c.cost

theorem withSub_postC {α : Type} {K : Nat} {d : D} {len : Nat} {f : D → Except DErr (α × D)}
    {fc : D → Nat} (hd : D.Ok d)
    (hf : ∀ c : D, D.Ok c → c.buf = d.buf → c.off = d.off → c.lim = d.off + len →
      Post K 0 c (f c) ∧ PostC K c (f c) (fc c)) :
    PostC (K + 1) d (d.withSub len f) (withSubC d len f fc) := by
  unfold D.withSub withSubC
  cases hr : d.read len with
  | error e => exact PostC.err_here
  | ok p =>
    obtain ⟨bs, d'⟩ := p
    obtain ⟨hl, _, _, hd'⟩ := read_ok hr
    subst hd'
    dsimp only [bindC]
    have hc0 := withSub_child_Ok (c0 := d.cost + len) hd hl
    obtain ⟨p1, p2⟩ := hf _ hc0 rfl rfl rfl
    have hb := hd.off_le
    have hmul : (K + 1) * len ≤ (K + 1) * (d.lim - d.off) := Nat.mul_le_mul_left _ (by omega)
    have hsl : slack { buf := d.buf, off := d.off, lim := d.off + len, cost := d.cost + len } = slack d := rfl
    rw [Nat.succ_mul, Nat.succ_mul] at hmul
    cases hfr : f { buf := d.buf, off := d.off, lim := d.off + len, cost := d.cost + len } with
    | error e =>
      rw [hfr] at p2
      obtain ⟨q1, q2⟩ := p2
      rw [hsl] at q2
      simp only at q1 q2
      rw [Nat.add_sub_cancel_left] at q2
      show d.cost ≤ fc _ ∧ fc _ ≤ d.cost + (K + 1) * (d.lim - d.off) + slack d
      exact ⟨by omega, by rw [Nat.succ_mul]; omega⟩
    | ok q =>
      obtain ⟨a, c⟩ := q
      dsimp only
      have st : Step K 0 _ c := p1.step hfr
      have h1 := st.cost_lo; have h2 := st.cost_hi; have h3 := st.le_lim; have h4 := st.off
      simp only at h1 h2 h3 h4
      have h5 : K * (c.off - d.off) ≤ K * len := Nat.mul_le_mul_left _ (by omega)
      cases hfin : c.finished with
      | error e =>
        show d.cost ≤ c.cost ∧ c.cost ≤ d.cost + (K + 1) * (d.lim - d.off) + slack d
        exact ⟨by omega, by rw [Nat.succ_mul]; omega⟩
      | ok u => rfl

end Safe
