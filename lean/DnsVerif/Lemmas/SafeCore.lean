import DnsVerif.Lemmas.DecPrim
import DnsVerif.Lemmas.NameSound
import DnsVerif.Lemmas.NameFuel

/-! # Safety / cost framework for the model decoder (C01, C07, locality half of C09)

One predicate carries everything that is proved about a decoding function `f` started on a decoder
state `d` with `D.Ok d`:

* `Safe.Step K m d d'` : `d'` is again `D.Ok`, has the same buffer and the same window limit, the
  cursor moved forward by AT LEAST `m` octets (so it never leaves the window, `d'.off ≤ d'.lim = d.lim`),
  the cost did not decrease and grew by at most `K` per octet consumed.
* `Safe.Post K m d r`  : the outcome `r` is either an error that is neither a `.panic` nor `.fuel`
  (nor `.offset`), or a success whose decoder state `d'` satisfies `Step K m d d'`.

`K` is the potential constant of the cost argument (C07): `1` for plain reads, `289` for names
(`name_cost_le`; a name consumes at least one octet in place), and `K + 1` for a `withSub` window around
a body of constant `K` (the `read` that makes the slice charges every octet of the window once more). -/

namespace Safe

/-- the error kinds that must be unreachable: a Rust panic, the model's fuel running out, and
`DecodeError::Offset` (reported by `Decoder::dns` when it is not started at offset 0; no other function
reports it, and the entry point starts at 0) -/
def _root_.DErr.bad : DErr → Bool
  | .panic _ => true
  | .fuel => true
  | .offset => true
  | _ => false

theorem bad_false_iff (e : DErr) : e.bad = false ↔ (∀ s, e ≠ .panic s) ∧ e ≠ .fuel ∧ e ≠ .offset := by
  cases e <;> simp [DErr.bad]

structure Step (K m : Nat) (d d' : D) : Prop where
  ok : D.Ok d'
  buf : d'.buf = d.buf
  lim : d'.lim = d.lim
  off : d.off + m ≤ d'.off
  cost_lo : d.cost ≤ d'.cost
  cost_hi : d'.cost ≤ d.cost + K * (d'.off - d.off)

def Post {α : Type} (K m : Nat) (d : D) : Except DErr (α × D) → Prop
  | .error e => e.bad = false
  | .ok p => Step K m d p.2

/-- outcome of a validator that does not touch the decoder -/
def PostU {α : Type} : Except DErr α → Prop
  | .error e => e.bad = false
  | .ok _ => True

theorem Step.refl {K : Nat} {d : D} (h : D.Ok d) : Step K 0 d d :=
  ⟨h, rfl, rfl, Nat.le_refl _, Nat.le_refl _, by simp⟩

theorem Step.le_lim {K m : Nat} {d d' : D} (s : Step K m d d') : d'.off ≤ d.lim := by
  have := s.ok.off_le; rw [s.lim] at this; exact this

/-- the loop variant: a step that consumes at least one octet uses up one unit of fuel -/
theorem Step.fuel {K m fuel : Nat} {d d' : D} (s : Step K m d d') (hm : 0 < m)
    (hf : d.lim - d.off < fuel + 1) : d'.lim - d'.off < fuel := by
  have := s.off; have := s.ok.off_le; have := s.lim; omega

theorem Step.weaken {K K' m m' : Nat} {d d' : D} (s : Step K m d d') (hK : K ≤ K') (hm : m' ≤ m) :
    Step K' m' d d' := by
  refine ⟨s.ok, s.buf, s.lim, by have := s.off; omega, s.cost_lo, ?_⟩
  exact Nat.le_trans s.cost_hi (Nat.add_le_add_left (Nat.mul_le_mul_right _ hK) _)

theorem Step.trans {K1 K m1 m2 : Nat} {d d1 d2 : D} (s1 : Step K1 m1 d d1) (s2 : Step K m2 d1 d2)
    (hK : K1 ≤ K) : Step K (m1 + m2) d d2 := by
  have o1 := s1.off; have o2 := s2.off
  refine ⟨s2.ok, s2.buf.trans s1.buf, s2.lim.trans s1.lim, by omega,
    Nat.le_trans s1.cost_lo s2.cost_lo, ?_⟩
  have h1 : K1 * (d1.off - d.off) ≤ K * (d1.off - d.off) := Nat.mul_le_mul_right _ hK
  have h2 : K * (d2.off - d.off) = K * (d1.off - d.off) + K * (d2.off - d1.off) := by
    rw [← Nat.mul_add]; congr 1; omega
  have := s1.cost_hi; have := s2.cost_hi
  omega

theorem Post.error {α : Type} {K m : Nat} {d : D} {e : DErr} (h : e.bad = false) :
    Post (α := α) K m d (.error e) := h

/-- the end of a chain of steps: everything has been accounted for -/
theorem Post.done {α : Type} {K m : Nat} {d : D} {a : α} (h : D.Ok d) (hm : m = 0 := by omega) :
    Post K m d (.ok (a, d)) := by
  subst hm; exact Step.refl h

/-- eliminator: case analysis on the outcome of a step whose `Post` is known -/
@[elab_as_elim]
theorem Post.elim {α : Type} {K m : Nat} {d : D} {x : Except DErr (α × D)}
    {motive : Except DErr (α × D) → Prop} (hx : Post K m d x)
    (herr : ∀ e, e.bad = false → motive (.error e))
    (hok : ∀ a d1, x = .ok (a, d1) → Step K m d d1 → motive (.ok (a, d1))) : motive x := by
  cases x with
  | error e => exact herr e hx
  | ok p => obtain ⟨a, d1⟩ := p; exact hok a d1 rfl hx

@[elab_as_elim]
theorem PostU.elim {α : Type} {x : Except DErr α} {motive : Except DErr α → Prop} (hx : PostU x)
    (herr : ∀ e, e.bad = false → motive (.error e)) (hok : ∀ a, motive (.ok a)) : motive x := by
  cases x with
  | error e => exact herr e hx
  | ok a => exact hok a

/-- continue after a step: the rest is judged from the new cursor -/
theorem Post.trans {α : Type} {K1 K m1 m : Nat} {d d1 : D} {r : Except DErr (α × D)}
    (s : Step K1 m1 d d1) (hK : K1 ≤ K) (h : Post K (m - m1) d1 r) : Post K m d r := by
  cases r with
  | error e => exact h
  | ok p => exact (Step.trans s h hK).weaken (Nat.le_refl _) (by omega)

theorem Post.weaken {α : Type} {K K' m m' : Nat} {d : D} {r : Except DErr (α × D)}
    (h : Post K m d r) (hK : K ≤ K') (hm : m' ≤ m) : Post K' m' d r := by
  cases r with
  | error e => exact h
  | ok p => exact Step.weaken h hK hm

/-- `pbind p with a d1 s`: the goal is `Post K m d (match x with | .error e => .error e | .ok (a, d1) => k)`
and `p : Post K1 m1 d x`; the error case is closed, the success case continues with `k` judged from `d1`
(`s : Step K1 m1 d d1`). -/
macro "pbind " p:term " with " a:ident d1:ident s:ident : tactic =>
  `(tactic| (refine Post.elim $p (fun _ he => Post.error he) (fun $a $d1 _ $s => ?_)
             dsimp only
             refine Post.trans $s (by omega) ?_))

/-- the same, keeping the equation `x = .ok (a, d1)` as `h` -/
macro "pbindh " p:term " with " a:ident d1:ident s:ident h:ident : tactic =>
  `(tactic| (refine Post.elim $p (fun _ he => Post.error he) (fun $a $d1 $h $s => ?_)
             dsimp only
             refine Post.trans $s (by omega) ?_))

/-- `ubind p with a`: the same for a validator `x : Except DErr α` with `p : PostU x` -/
macro "ubind " p:term " with " a:ident : tactic =>
  `(tactic| (refine PostU.elim $p (fun _ he => Post.error he) (fun $a => ?_)
             dsimp only))

/-! ## The primitives -/

theorem read_post {d : D} {n : Nat} (hd : D.Ok d) (hn : n < 2 ^ 63) : Post 1 n d (d.read n) := by
  cases h : d.read n with
  | error e => rw [(read_err_ok hd hn h).1]; rfl
  | ok p =>
    obtain ⟨bs, d'⟩ := p
    have a := (read_adv hd h).1
    exact ⟨a.ok, a.buf, a.lim, by rw [a.off]; exact Nat.le_refl _, by rw [a.cost]; omega,
      by rw [a.cost, a.off]; omega⟩

theorem num_post {d : D} {w : Nat} (hd : D.Ok d) (hw : w < 2 ^ 63) : Post 1 w d (d.num w) := by
  cases h : d.num w with
  | error e => rw [(num_err_ok hd hw h).1]; rfl
  | ok p =>
    obtain ⟨v, d'⟩ := p
    have a := num_adv hd h
    exact ⟨a.ok, a.buf, a.lim, by rw [a.off]; exact Nat.le_refl _, by rw [a.cost]; omega,
      by rw [a.cost, a.off]; omega⟩

theorem u8_post {d : D} (hd : D.Ok d) : Post 1 1 d d.u8 := by
  cases h : d.u8 with
  | error e => rw [(u8_err_ok hd h).1]; rfl
  | ok p =>
    obtain ⟨v, d'⟩ := p
    have a := u8_adv hd h
    exact ⟨a.ok, a.buf, a.lim, by rw [a.off]; exact Nat.le_refl _, by rw [a.cost]; omega,
      by rw [a.cost, a.off]; omega⟩

theorem rest_post {d : D} (hd : D.Ok d) : Post 1 0 d d.rest := by
  cases h : d.rest with
  | error e => exact absurd h (rest_noErr hd e)
  | ok p =>
    obtain ⟨v, d'⟩ := p
    have a := (rest_adv hd h).1
    exact ⟨a.ok, a.buf, a.lim, by rw [a.off]; omega, by rw [a.cost]; omega,
      by rw [a.cost, a.off]; omega⟩

theorem cstr_post {d : D} (hd : D.Ok d) : Post 1 1 d d.cstr := by
  cases h : d.cstr with
  | error e => rcases cstr_err_ok hd h with h1 | h1 <;> (rw [h1]; rfl)
  | ok p =>
    obtain ⟨v, d'⟩ := p
    have a := (cstr_adv hd h).1
    exact ⟨a.ok, a.buf, a.lim, by rw [a.off]; omega, by rw [a.cost]; omega,
      by rw [a.cost, a.off]; omega⟩

theorem isNameErr_not_bad {e : DErr} (h : e.isNameErr = true) : e.bad = false := by
  cases e <;> first | rfl | (simp [DErr.isNameErr] at h)

/-- a name: at least one octet in place, at most 289 octets of `read` (`name_sound`) -/
theorem name_post {d : D} (hd : D.Ok d) : Post 289 1 d d.name := by
  cases h : d.name with
  | error e => exact isNameErr_not_bad (name_err_ok hd h)
  | ok p =>
    obtain ⟨n, d'⟩ := p
    obtain ⟨hops, h17, _, hb, hl, hlt, hle, hsz, _, _, hc⟩ := name_sound h
    exact ⟨name_Ok hd h, hb, hl, by show d.off + 1 ≤ d'.off; omega, by show d.cost ≤ d'.cost; omega,
      by show d'.cost ≤ d.cost + 289 * (d'.off - d.off); omega⟩

/-- `is_finished` inside the window never fails; it is a test of `off = lim` -/
theorem isFinished_eq {d : D} (hd : D.Ok d) : d.isFinished = .ok (decide (d.off = d.lim)) :=
  isFinished_at hd.off_le

/-- the child window: body constant `K` gives `K + 1` for the parent, which advances by exactly `len` -/
theorem withSub_post {α : Type} {K : Nat} {d : D} {len : Nat} {f : D → Except DErr (α × D)}
    (hd : D.Ok d) (hlen : len < 2 ^ 63)
    (hf : ∀ c : D, D.Ok c → c.buf = d.buf → c.off = d.off → c.lim = d.off + len → Post K 0 c (f c)) :
    Post (K + 1) len d (d.withSub len f) := by
  cases h : d.withSub len f with
  | error e =>
    rcases withSub_err h with h1 | ⟨hl, h1 | ⟨a, c, _, h2⟩⟩
    · rw [(read_err_ok hd hlen h1).1]; rfl
    · have := hf _ (withSub_child_Ok (c0 := d.cost + len) hd hl) rfl rfl rfl
      rw [h1] at this; exact this
    · rcases finished_err h2 with ⟨h3, _⟩ | ⟨h3, _⟩ <;> (rw [h3]; rfl)
  | ok p =>
    obtain ⟨a, d'⟩ := p
    obtain ⟨hl, c, hc, hfin, hd'⟩ := withSub_ok h
    have s : Step K 0 { buf := d.buf, off := d.off, lim := d.off + len, cost := d.cost + len } c := by
      have := hf _ (withSub_child_Ok (c0 := d.cost + len) hd hl) rfl rfl rfl
      rw [hc] at this; exact this
    have h1 := s.lim; have h2 := s.cost_lo; have h3 := s.cost_hi
    simp only at h1 h2 h3
    have h4 : c.off - d.off = len := by omega
    rw [h4] at h3
    subst hd'
    refine ⟨⟨hl, hd.lim_le, hd.len_lt⟩, rfl, rfl, Nat.le_refl _, by show d.cost ≤ c.cost; omega, ?_⟩
    show c.cost ≤ d.cost + (K + 1) * (d.off + len - d.off)
    rw [Nat.add_sub_cancel_left, Nat.succ_mul]; omega

/-- a 16-bit length read from the wire is far below the address-space limit -/
theorem num2_lt {d d' : D} {v : Nat} (hd : D.Ok d) (h : d.num 2 = .ok (v, d')) : v < 2 ^ 63 := by
  have := num_lt hd.lim_le h; omega

/-! ## The requested shape of the per-function safety lemma -/

/-- `Spec d r`: the outcome `r` of a decoding function started at `d` is never a panic, never `fuel`, and
a success leaves a good decoder on the same buffer and window, with cursor and cost not decreased. -/
def Spec {α : Type} (d : D) (r : Except DErr (α × D)) : Prop :=
  (∀ s, r ≠ .error (.panic s)) ∧ r ≠ .error .fuel ∧
  (∀ v d', r = .ok (v, d') →
    D.Ok d' ∧ d'.buf = d.buf ∧ d'.lim = d.lim ∧ d.off ≤ d'.off ∧ d.cost ≤ d'.cost)

theorem Post.spec {α : Type} {K m : Nat} {d : D} {r : Except DErr (α × D)} (h : Post K m d r) :
    Spec d r := by
  cases r with
  | error e =>
    have hb : e.bad = false := h
    obtain ⟨h1, h2, _⟩ := (bad_false_iff e).mp hb
    refine ⟨fun s hs => ?_, fun hs => ?_, fun v d' hv => (by cases hv)⟩
    · injection hs with hs; exact h1 s hs
    · injection hs with hs; exact h2 hs
  | ok p =>
    have st : Step K m d p.2 := h
    refine ⟨fun s hs => (by cases hs), fun hs => (by cases hs), fun v d' hv => ?_⟩
    injection hv with hv; subst hv
    exact ⟨st.ok, st.buf, st.lim, Nat.le_trans (Nat.le_add_right _ _) st.off, st.cost_lo⟩

/-- success part of `Post`, as implications -/
theorem Post.step {α : Type} {K m : Nat} {d d' : D} {r : Except DErr (α × D)} {v : α}
    (h : Post K m d r) (hr : r = .ok (v, d')) : Step K m d d' := by
  subst hr; exact h

/-- the cost lemma in the requested shape: at most `K` per octet consumed -/
theorem Step.cost {K m : Nat} {d d' : D} (s : Step K m d d') : d'.cost - d.cost ≤ K * (d'.off - d.off) := by
  have := s.cost_hi; omega


/-- the work bound of C07: octets handed out by `Decoder::read` / `Decoder::bytes` for an input of `n`
octets (the proofs give `290 * n`) -/
def costBound (n : Nat) : Nat := 304 * n + 304

/-- a run from a fresh `Decoder::main` with constant `K ≤ 304` stays below `costBound` -/
theorem Step.costBound {K m : Nat} {b : Bytes} {d' : D} (s : Step K m (D.main b) d') (hK : K ≤ 304) :
    d'.cost ≤ costBound b.length := by
  have h1 := s.cost_hi
  have h2 := s.le_lim
  have h3 : K * (d'.off - (D.main b).off) ≤ 304 * b.length :=
    Nat.mul_le_mul hK (by show d'.off - 0 ≤ b.length; exact Nat.le_trans (Nat.sub_le _ _) h2)
  have h4 : (D.main b).cost = 0 := rfl
  unfold Safe.costBound
  omega

end Safe
