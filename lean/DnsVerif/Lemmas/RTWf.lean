import DnsVerif.Spec.WF
import DnsVerif.Lemmas.SoundMsg
import DnsVerif.Lemmas.ApiMachines
import DnsVerif.Lemmas.Utf8

/-! # Round trip, part 1 (T-wf): what the wire grammar accepts is well-formed

`msgAt_wf : MsgAt b bk m → WfMsg m`, bottom-up over the relations of `Spec/Wire.lean`
(`nameRefAt_wf`, `fieldAt_wf`, `fieldsAt_wf`, `optionAt_wf`, `apItemAt_wf`, `svcParamAt_wf`,
`rdataAt_wf`, `rrAt_wf`, `questionAt_wf`). With decoder soundness (`Sound.decodeDns_sound`) this
gives `decodeDns_wf`: every DECODED value is well-formed in the sense of `Spec/WF.lean` (the
hypothesis of the encoder theorems), i.e. decoded values can be fed back into the encoder
theorems (C02) and decoding yields valid values (C12).

The only non-structural ingredient: the `TryFrom<String>` validators (`StrCheck.run`) are
idempotent on their own output and preserve length and UTF-8 validity (`strCheck_run_ok`); for the
CAA tag this is "lower-casing an ASCII-alphanumeric string gives a lower-case alphanumeric string". -/

namespace RT

/-! ## Names -/

theorem nameRefAt_wf {buf : Bytes} {bk : Bool} {off e : Nat} {n : Name} (h : NameRefAt buf bk off n e) :
    WfName n := by
  obtain ⟨_, hn, _, hu, hs⟩ := h
  exact ⟨hn.wf, hs, hu⟩

/-! ## Validated character-strings -/

private theorem alnum_lowerB_all : ∀ b : UInt8, (!isAlnumB b || isAlnumB (lowerB b)) = true := by
  decide +kernel

theorem alnum_lowerB {b : UInt8} (h : isAlnumB b = true) : isAlnumB (lowerB b) = true := by
  have := alnum_lowerB_all b
  simpa [h] using this

theorem ite_ok {p : Prop} [Decidable p] {s v : Bytes} {err : DErr}
    (h : (if p then Except.ok s else Except.error err) = Except.ok v) : p ∧ v = s := by
  by_cases hp : p
  · rw [if_pos hp] at h; injection h with h; exact ⟨hp, h.symm⟩
  · rw [if_neg hp] at h; cases h

/-- **the validators are idempotent on their output** and keep the length and UTF-8 validity:
a stored string passes its own validator unchanged -/
theorem strCheck_run_ok {c : StrCheck} {s v : Bytes} (h : c.run s = .ok v) :
    v.length = s.length ∧ c.run v = .ok v ∧ validUtf8 v = validUtf8 s := by
  cases c with
  | any => simp only [StrCheck.run] at h; injection h with h; subst h; exact ⟨rfl, rfl, rfl⟩
  | psdn =>
    simp only [StrCheck.run] at h
    obtain ⟨hp, rfl⟩ := ite_ok h
    exact ⟨rfl, by simp only [StrCheck.run]; rw [if_pos hp], rfl⟩
  | isdn =>
    simp only [StrCheck.run] at h
    obtain ⟨hp, rfl⟩ := ite_ok h
    exact ⟨rfl, by simp only [StrCheck.run]; rw [if_pos hp], rfl⟩
  | sa =>
    simp only [StrCheck.run] at h
    obtain ⟨hp, rfl⟩ := ite_ok h
    exact ⟨rfl, by simp only [StrCheck.run]; rw [if_pos hp], rfl⟩
  | gpos =>
    simp only [StrCheck.run] at h
    obtain ⟨hp, rfl⟩ := ite_ok h
    exact ⟨rfl, by simp only [StrCheck.run]; rw [if_pos hp], rfl⟩
  | tag =>
    obtain ⟨hne, hall, rfl⟩ := (tag_ok_iff s v).mp h
    refine ⟨by simp, ?_, validUtf8_lower s⟩
    rw [tag_ok_iff]
    refine ⟨by simpa using hne, ?_, ?_⟩
    · rw [List.all_eq_true] at hall ⊢
      intro b hb
      rw [List.mem_map] at hb
      obtain ⟨a, ha, rfl⟩ := hb
      exact alnum_lowerB (hall a ha)
    · rw [List.map_map]
      apply List.map_congr_left
      intro a _
      exact (lowerB_idem a).symm

theorem wfStr_of_run {buf : Bytes} {off e : Nat} {c : StrCheck} {s v : Bytes} (hc : CStrAt buf off s e)
    (hu : validUtf8 s = true) (hr : c.run s = .ok v) : WfStr c v := by
  obtain ⟨hl, hrun, hutf⟩ := strCheck_run_ok hr
  exact ⟨by rw [hl]; exact hc.1, by rw [hutf]; exact hu, hrun⟩

theorem cstrsAt_wf {buf : Bytes} {lim off : Nat} {l : List Bytes} (h : CStrsAt buf lim off l) :
    ∀ s ∈ l, s.length ≤ 255 ∧ validUtf8 s = true := by
  induction h with
  | nil => intro s hs; simp at hs
  | cons _ hc _ hu _ ih =>
    intro s hs
    rcases List.mem_cons.mp hs with rfl | hs
    · exact ⟨hc.1, hu⟩
    · exact ih s hs

/-! ## Fields of the regular record types -/

theorem fieldAt_wf {buf : Bytes} {bk : Bool} {lim off e : Nat} {f : Fld} {v : FVal}
    (h : FieldAt buf bk lim off f v e) : WfVal f v := by
  cases h with
  | num hn _ _ => exact hn
  | enum hn hv _ _ => exact ⟨hn, hv⟩
  | name hn _ => exact nameRefAt_wf hn
  | cstr hc _ hu hr => exact wfStr_of_run hc hu hr
  | ocstrNone => exact trivial
  | ocstrSome _ hc _ hu hr => exact wfStr_of_run hc hu hr
  | strs hne hl => exact ⟨hne, cstrsAt_wf hl⟩
  | rest _ _ hu => exact hu
  | oct hl _ _ => exact hl

theorem fieldsAt_wf {buf : Bytes} {bk : Bool} {lim off : Nat} {fs : List Fld} {vs : List FVal}
    (h : FieldsAt buf bk lim off fs vs) : WfVals fs vs := by
  induction h with
  | nil => exact trivial
  | cons hf _ ih => exact ⟨fieldAt_wf hf, ih⟩

/-! ## EDNS options, APL items, SvcParams -/

theorem optionAt_wf {buf : Bytes} {off e : Nat} {o : EdnsOpt} (h : OptionAt buf off o e) : WfOption o := by
  cases h with
  | ecs _ _ _ _ hs hc hp =>
    obtain ⟨hfam, hlen, _, _, _, hpfx, hno⟩ := hp
    exact ⟨hfam, hlen, hs, hc, hpfx, hno⟩
  | cookie hc hs _ => exact ⟨hc, hs⟩
  | padding hn _ => exact hn

theorem optionsAt_wf {buf : Bytes} {lim off : Nat} {l : List EdnsOpt} (h : OptionsAt buf lim off l) :
    ∀ o ∈ l, WfOption o := by
  induction h with
  | nil => intro o ho; simp at ho
  | cons h1 _ _ ih =>
    intro o ho
    rcases List.mem_cons.mp ho with rfl | ho
    · exact optionAt_wf h1
    · exact ih o ho

theorem apItemAt_wf {buf : Bytes} {off e : Nat} {it : APItem} (h : ApItemAt buf off it e) : WfApItem it := by
  cases h with
  | mk hp _ _ ha =>
    obtain ⟨hfam, hlen, _, _, _, hpfx, hno⟩ := ha
    exact ⟨hfam, hlen, hp, hpfx, hno⟩

theorem apItemsAt_wf {buf : Bytes} {lim off : Nat} {l : List APItem} (h : ApItemsAt buf lim off l) :
    ∀ it ∈ l, WfApItem it := by
  induction h with
  | nil => intro o ho; simp at ho
  | cons h1 _ _ ih =>
    intro o ho
    rcases List.mem_cons.mp ho with rfl | ho
    · exact apItemAt_wf h1
    · exact ih o ho

theorem svcValueAt_wf {buf : Bytes} {lim off : Nat} {p : SvcParam} (h : SvcValueAt buf lim off p) : WfParam p := by
  cases h with
  | mandatory hk _ _ => exact hk
  | alpn hc => exact cstrsAt_wf hc
  | noDefaultAlpn => exact trivial
  | port hp _ _ => exact hp
  | ipv4hint hh _ _ => exact hh
  | ech _ hb _ => exact hb
  | ipv6hint hh _ _ => exact hh
  | priv h7 hk _ _ => exact ⟨h7, hk⟩
  | key65535 => exact trivial

theorem svcParamAt_wf {buf : Bytes} {off e : Nat} {p : SvcParam} (h : SvcParamAt buf off p e) : WfParam p := by
  cases h with
  | mk _ _ hv => exact svcValueAt_wf hv

theorem svcParamsAt_wf {buf : Bytes} {lim off : Nat} {l : List SvcParam} (h : SvcParamsAt buf lim off l) :
    ∀ p ∈ l, WfParam p := by
  induction h with
  | nil => intro o ho; simp at ho
  | cons h1 _ _ ih =>
    intro o ho
    rcases List.mem_cons.mp ho with rfl | ho
    · exact svcParamAt_wf h1
    · exact ih o ho

/-! ## RDATA, records, questions, messages -/

theorem rdataAt_wf {buf : Bytes} {bk : Bool} {lim ty off : Nat} {rd : RData}
    (h : RDataAt buf bk lim ty off rd) : WfRData ty rd := by
  cases h with
  | regular hk hf => exact ⟨_, hk, fieldsAt_wf hf⟩
  | opt hk ho => exact ⟨hk, optionsAt_wf ho⟩
  | apl hk hi => exact ⟨hk, apItemsAt_wf hi⟩
  | svcbAlias hk _ hn =>
    exact ⟨⟨_, hk⟩, by decide, nameRefAt_wf hn, trivial, fun p hp => by simp at hp, fun _ => rfl⟩
  | svcbService hk h0 hp _ hn _ hw hperm hs =>
    refine ⟨⟨_, hk⟩, hp, nameRefAt_wf hn, hs, fun p hm => ?_, fun h => by omega⟩
    exact svcParamsAt_wf hw p (hperm.mem_iff.mp hm)

theorem rrAt_wf {buf : Bytes} {bk : Bool} {off e : Nat} {rr : RR} (h : RRAt buf bk off rr e) : WfRR rr := by
  cases h with
  | normal hty hn _ _ httl _ hcls _ hrd =>
    refine ⟨rdataAt_wf hrd, ?_⟩
    have hno : ∀ p x v d o, rr.rd ≠ .opt p x v d o := by
      intro p x v d o heq
      rw [heq] at hrd
      cases hrd with
      | opt hk _ => exact hty (Sound.rrKind_opt hk)
    cases hr : rr.rd with
    | opt p x v d o => exact absurd hr (hno p x v d o)
    | fields vs => exact ⟨nameRefAt_wf hn, hcls, httl⟩
    | apl items => exact ⟨nameRefAt_wf hn, hcls, httl⟩
    | svcb p t ps => exact ⟨nameRefAt_wf hn, hcls, httl⟩
  | opt _ hp he hv _ _ hrd => exact ⟨rdataAt_wf hrd, rfl, rfl, rfl, hp, he, hv⟩

theorem rrsAt_wf {buf : Bytes} {bk : Bool} {off e : Nat} {rs : List RR} (h : RRsAt buf bk off rs e) :
    ∀ r ∈ rs, WfRR r := by
  induction h with
  | nil => intro r hr; simp at hr
  | cons h1 _ ih =>
    intro r hr
    rcases List.mem_cons.mp hr with rfl | hr
    · exact rrAt_wf h1
    · exact ih r hr

theorem questionAt_wf {buf : Bytes} {bk : Bool} {off e : Nat} {q : Question} (h : QuestionAt buf bk off q e) :
    WfQuestion q := by
  obtain ⟨_, hn, hqt, hqc, _⟩ := h
  exact ⟨nameRefAt_wf hn, hqt, hqc⟩

theorem questionsAt_wf {buf : Bytes} {bk : Bool} {off e : Nat} {qs : List Question}
    (h : QuestionsAt buf bk off qs e) : ∀ q ∈ qs, WfQuestion q := by
  induction h with
  | nil => intro r hr; simp at hr
  | cons h1 _ ih =>
    intro r hr
    rcases List.mem_cons.mp hr with rfl | hr
    · exact questionAt_wf h1
    · exact ih r hr

/-- **T-wf.** A message of the wire grammar (either mode) is a well-formed value. -/
theorem msgAt_wf {b : Bytes} {bk : Bool} {m : Msg} (h : MsgAt b bk m) : WfMsg m := by
  obtain ⟨_, _, hid, hfl, hq, han, hns, har, _, e1, e2, e3, hqs, hans, hnss, hars⟩ := h
  exact ⟨hid, hfl, hq, han, hns, har, questionsAt_wf hqs, rrsAt_wf hans, rrsAt_wf hnss, rrsAt_wf hars⟩

/-- **Decoded values are well-formed** (C02: a decoded message satisfies the hypothesis of the encoder
theorems; C12: decoding yields only valid values). -/
theorem decodeDns_wf {b : Bytes} {m : Msg} {d : D} (h : decodeDns b = .ok (m, d)) : WfMsg m :=
  msgAt_wf (Sound.decodeDns_sound h)

theorem decodeRR_wf {b : Bytes} {rr : RR} {d : D} (hb : b.length < 2 ^ 63) (h : decodeRR b = .ok (rr, d)) :
    WfRR rr := rrAt_wf (Sound.decodeRR_sound hb h).1

theorem decodeQuestion_wf {b : Bytes} {q : Question} {d : D} (hb : b.length < 2 ^ 63)
    (h : decodeQuestion b = .ok (q, d)) : WfQuestion q := questionAt_wf (Sound.decodeQuestion_sound hb h)

theorem decodeName_wf {b : Bytes} {n : Name} {d : D} (h : decodeName b = .ok (n, d)) : WfName n :=
  nameRefAt_wf (Sound.decodeName_sound h).1

/-! ## Non-vacuity -/

/-- the CAA tag validator lower-cases; its output passes unchanged -/
example : StrCheck.run .tag [73, 83, 115] = .ok [105, 115, 115] ∧
    StrCheck.run .tag [105, 115, 115] = .ok [105, 115, 115] := ⟨rfl, rfl⟩

/-- a response with one question and a compressed CAA answer whose tag `ISs` is stored as `iss` -/
private def exBuf : Bytes :=
  [0x12, 0x34, 0x81, 0x80, 0, 1, 0, 1, 0, 0, 0, 0, 1, 97, 0, 0, 1, 0, 1,
   192, 12, 1, 1, 0, 1, 0, 0, 0, 9, 0, 5, 0, 3, 73, 83, 115]

private def exMsg : Msg :=
  { id := 0x1234
    flags := ⟨true, 0, false, false, true, true, false, false, 0⟩
    qs := [⟨[[97]], 1, 1⟩]
    an := [⟨[[97]], 257, 1, 9, .fields [.num 0, .bytes [105, 115, 115], .bytes []]⟩]
    ns := []
    ar := [] }

set_option maxRecDepth 16384 in
private theorem exBuf_decoded :
    decodeDns exBuf = .ok (exMsg, { buf := exBuf, off := 36, lim := 36, cost := 44 }) := rfl

example : WfMsg exMsg := decodeDns_wf exBuf_decoded

end RT
