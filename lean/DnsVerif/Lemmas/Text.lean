import DnsVerif.Model.Api
import DnsVerif.Lemmas.Utf8

/-! # Text form, length and equality of `DomainName` (C13)

`Display`, `FromStr`, `len()`, `append_label` and `==` of `DomainName` on octet strings
(Model/Api.lean, Prim.lean). -/

/-- the label does not contain the octet `.` -/
def noDot (l : Label) : Prop := dot ∉ l

/-- names for which the text form is unambiguous and within the limits: every label has 1..=63
octets and no dot octet, and the wire length `Name.sz n + 1` is at most 255. The root is `[]`. -/
def wfText (n : Name) : Prop := (∀ l ∈ n, 1 ≤ l.length ∧ l.length ≤ 63 ∧ noDot l) ∧ Name.sz n < 255

/-- the limits of `DomainName` (same as `wfName n ∧ Name.sz n < 255`, `wfName` of `Prim.lean`) -/
def NameLimits (n : Name) : Prop := (∀ l ∈ n, 1 ≤ l.length ∧ l.length ≤ 63) ∧ Name.sz n < 255

theorem NameLimits_iff_wfName (n : Name) : NameLimits n ↔ wfName n ∧ Name.sz n < 255 := Iff.rfl

theorem wfText.limits {n : Name} (h : wfText n) : NameLimits n :=
  ⟨fun l hl => ⟨(h.1 l hl).1, (h.1 l hl).2.1⟩, h.2⟩

/-! ## `len()` is the length of the printed form -/

theorem len_display (n : Name) : Name.len n = (display n).length := by
  unfold Name.len display
  split
  · rfl
  · rename_i hne
    clear hne
    have : ∀ m : Name, m.length + (m.map List.length).sum = (m.flatMap (fun l => l ++ [dot])).length := by
      intro m
      induction m with
      | nil => rfl
      | cons l r ih => simp [List.flatMap_cons] at ih ⊢; omega
    exact this n

/-- for a non-root name `len()` is `Name.sz`, i.e. the wire length minus one -/
theorem len_eq_sz (n : Name) (hn : n ≠ []) : Name.len n = Name.sz n := by
  unfold Name.len Name.sz
  simp only [hn, if_false]
  clear hn
  induction n with
  | nil => rfl
  | cons l r ih => simp at ih ⊢; omega

theorem wire_len (n : Name) : (Name.wire n).length = Name.sz n + 1 := by
  induction n with
  | nil => rfl
  | cons l r ih => simp [Name.wire, Name.sz_cons, ih]; omega

example : Name.len [[119, 119, 119], [97]] = 6 ∧ display [[119, 119, 119], [97]] = [119, 119, 119, 46, 97, 46] ∧
    (Name.wire [[119, 119, 119], [97]]).length = 7 := by decide
example : Name.len [] = 1 ∧ display [] = [46] := by decide

/-! ## `split('.')` -/

/-- splitting `l ++ "." ++ rest` when `l` has no dot -/
theorem splitDot_label (l : Label) (hl : noDot l) (rest : Bytes) :
    splitDot (l ++ dot :: rest) = l :: splitDot rest := by
  induction l with
  | nil => simp [splitDot]
  | cons b r ih =>
    have hb : b ≠ dot := by intro h; apply hl; simp [h]
    have hr : noDot r := by intro h; apply hl; simp [h]
    simp only [List.cons_append, splitDot, hb, if_false, ih hr]

theorem splitDot_last (l : Label) (hl : noDot l) : splitDot l = [l] := by
  induction l with
  | nil => rfl
  | cons b r ih =>
    have hb : b ≠ dot := by intro h; apply hl; simp [h]
    have hr : noDot r := by intro h; apply hl; simp [h]
    simp only [splitDot, hb, if_false, ih hr]

theorem splitDot_ne_nil (s : Bytes) : splitDot s ≠ [] := by
  induction s with
  | nil => simp [splitDot]
  | cons b r ih =>
    unfold splitDot
    split
    · simp
    · split <;> simp

/-- the pieces of `split('.')` contain no dot -/
theorem splitDot_noDot (s : Bytes) : ∀ l ∈ splitDot s, noDot l := by
  induction s with
  | nil => intro l hl; simp [splitDot] at hl; subst hl; simp [noDot]
  | cons b r ih =>
    intro l hl
    unfold splitDot at hl
    split at hl
    · simp at hl
      rcases hl with rfl | hl
      · simp [noDot]
      · exact ih l hl
    · rename_i hb
      split at hl
      · rename_i h t heq
        rw [heq] at ih
        simp at hl
        rcases hl with rfl | hl
        · have := ih h (by simp)
          intro hc
          simp at hc
          rcases hc with hc | hc
          · exact hb hc.symm
          · exact this hc
        · exact ih l (by simp [hl])
      · simp at hl
        subst hl
        intro hc
        simp at hc
        exact hb hc.symm

/-- the dotted form without the trailing dot -/
def joinDot : Name → Bytes
  | [] => []
  | [l] => l
  | l :: r => l ++ dot :: joinDot r

theorem joinDot_cons_cons (l l2 : Label) (r : Name) :
    joinDot (l :: l2 :: r) = l ++ dot :: joinDot (l2 :: r) := rfl

theorem splitDot_join : ∀ (n : Name), n ≠ [] → (∀ l ∈ n, noDot l) → splitDot (joinDot n) = n := by
  intro n
  induction n with
  | nil => intro h; exact absurd rfl h
  | cons l r ih =>
    intro _ hnd
    cases r with
    | nil => simp [joinDot, splitDot_last l (hnd l (by simp))]
    | cons l2 r2 =>
      simp only [joinDot]
      rw [splitDot_label l (hnd l (by simp))]
      rw [ih (by simp) (fun x hx => hnd x (by simp [hx]))]

/-- `split('.')` loses nothing: joining the pieces with dots gives back the string -/
theorem joinDot_split (s : Bytes) : joinDot (splitDot s) = s := by
  induction s with
  | nil => rfl
  | cons b r ih =>
    unfold splitDot
    split
    · rename_i hb
      have hne := splitDot_ne_nil r
      cases hsp : splitDot r with
      | nil => exact absurd hsp hne
      | cons h t =>
        rw [hsp] at ih
        rw [joinDot_cons_cons, ih, hb]; rfl
    · split
      · rename_i h t heq
        rw [heq] at ih
        cases t with
        | nil => simp [joinDot] at ih ⊢; exact ih
        | cons t1 t2 =>
          rw [joinDot_cons_cons] at ih ⊢
          rw [← ih]; rfl
      · rename_i heq
        exact absurd heq (splitDot_ne_nil r)

theorem display_eq_join (n : Name) (hn : n ≠ []) : display n = joinDot n ++ [dot] := by
  unfold display
  simp only [hn, if_false]
  induction n with
  | nil => exact absurd rfl hn
  | cons l r ih =>
    cases r with
    | nil => simp [joinDot]
    | cons l2 r2 =>
      have := ih (by simp)
      simp only [List.flatMap_cons] at this ⊢
      rw [this]; simp [joinDot]

theorem stripDot_append (s : Bytes) : stripDot (s ++ [dot]) = s := by
  unfold stripDot
  simp

/-- `strip_suffix('.')` removes at most one trailing dot -/
theorem stripDot_cases (s : Bytes) :
    (s.getLast? = some dot ∧ stripDot s ++ [dot] = s) ∨ (s.getLast? ≠ some dot ∧ stripDot s = s) := by
  unfold stripDot
  cases h : s.getLast? with
  | none => right; simp
  | some b =>
    by_cases hb : b = dot
    · left
      subst hb
      refine ⟨rfl, ?_⟩
      simp only [if_true]
      have hne : s ≠ [] := by intro h'; subst h'; simp at h
      have h2 := List.dropLast_concat_getLast hne
      rw [List.getLast?_eq_some_getLast hne] at h
      injection h with h
      rw [h] at h2; exact h2
    · right
      refine ⟨by simpa using hb, ?_⟩
      simp [hb]

/-! ## `FromStr` after `Display` -/

theorem parseLabel_ok {l : Bytes} (h1 : 1 ≤ l.length) (h2 : l.length ≤ 63) : parseLabel l = .ok l := by
  unfold parseLabel checkLabel
  have : ¬ l.length = 0 := by omega
  have : l.length < 64 := by omega
  simp [*]

theorem parseLabel_inv {l l' : Bytes} (h : parseLabel l = .ok l') :
    l' = l ∧ 1 ≤ l.length ∧ l.length ≤ 63 := by
  unfold parseLabel checkLabel at h
  split at h
  · simp at h
  · rename_i hc
    split at hc
    · simp at hc
    · split at hc
      · injection h with h; exact ⟨h.symm, by omega, by omega⟩
      · simp at hc

theorem appendLabel_inv {n n' : Name} {l : Label} (h : appendLabel n l = .ok n') :
    n' = n ++ [l] ∧ Name.sz n + l.length + 1 < 255 := by
  unfold appendLabel at h
  split at h
  · simp at h
  · injection h with h; exact ⟨h.symm, by omega⟩

theorem parseLabels_ok : ∀ (n acc : Name), (∀ l ∈ n, 1 ≤ l.length ∧ l.length ≤ 63) →
    Name.sz (acc ++ n) < 255 → parseLabels acc n = .ok (acc ++ n) := by
  intro n
  induction n with
  | nil => intro acc _ _; simp [parseLabels]
  | cons l r ih =>
    intro acc hwf hsz
    have ⟨h1, h2⟩ := hwf l (by simp)
    have hp : parseLabel l = .ok l := parseLabel_ok h1 h2
    have ha : appendLabel acc l = .ok (acc ++ [l]) := by
      unfold appendLabel
      rw [Name.sz_append, Name.sz_cons] at hsz
      have : ¬ (255 ≤ Name.sz acc + l.length + 1) := by omega
      simp [this]
    simp only [parseLabels, hp, ha]
    have := ih (acc ++ [l]) (fun x hx => hwf x (by simp [hx])) (by simpa using hsz)
    simpa using this

/-- what a successful `parseLabels` says: the result is the accumulator followed by exactly the
given strings, each of which has 1..=63 octets, and the total stays below the name limit -/
theorem parseLabels_inv : ∀ (ss : List Bytes) (acc n : Name), parseLabels acc ss = .ok n →
    n = acc ++ ss ∧ (∀ l ∈ ss, 1 ≤ l.length ∧ l.length ≤ 63) ∧ (ss ≠ [] → Name.sz n < 255) := by
  intro ss
  induction ss with
  | nil =>
    intro acc n h
    simp only [parseLabels] at h
    injection h with h
    simp [h]
  | cons s rest ih =>
    intro acc n h
    simp only [parseLabels] at h
    cases hp : parseLabel s with
    | error e => simp [hp] at h
    | ok l =>
      simp only [hp] at h
      obtain ⟨rfl, hl1, hl2⟩ := parseLabel_inv hp
      cases ha : appendLabel acc l with
      | error e => simp [ha] at h
      | ok acc' =>
        simp only [ha] at h
        obtain ⟨rfl, hsz⟩ := appendLabel_inv ha
        obtain ⟨hn, hall, hlim⟩ := ih _ _ h
        refine ⟨by simpa using hn, ?_, fun _ => ?_⟩
        · intro x hx
          simp at hx
          rcases hx with rfl | hx
          · exact ⟨hl1, hl2⟩
          · exact hall x hx
        · cases rest with
          | nil =>
            simp at hn; subst hn
            rw [Name.sz_append, Name.sz_cons]; simp; omega
          | cons _ _ => exact hlim (by simp)

theorem display_ne_dot (n : Name) (hn : n ≠ []) (h : ∀ l ∈ n, 1 ≤ l.length) : display n ≠ [dot] := by
  rw [display_eq_join n hn]
  intro hc
  have hj : joinDot n = [] := by
    have := congrArg List.length hc
    simpa using this
  cases n with
  | nil => exact hn rfl
  | cons l r =>
    have hl := h l (by simp)
    cases r with
    | nil => simp [joinDot] at hj; rw [hj] at hl; simp at hl
    | cons _ _ => simp [joinDot] at hj

/-- Text round trip (C13): parsing what `Display` printed gives back the same name, root included. -/
theorem parse_display (n : Name) (h : wfText n) : parseName (display n) = .ok n := by
  by_cases hn : n = []
  · subst hn; simp [parseName, display]
  · have hne : display n ≠ [dot] := display_ne_dot n hn (fun l hl => (h.1 l hl).1)
    unfold parseName
    simp only [hne, if_false]
    rw [display_eq_join n hn, stripDot_append, splitDot_join n hn (fun l hl => (h.1 l hl).2.2)]
    have := parseLabels_ok n [] (fun l hl => ⟨(h.1 l hl).1, (h.1 l hl).2.1⟩) (by simpa using h.2)
    simpa using this

/-- the dotted form of a non-root name with non-empty labels ends in an octet of one of its labels -/
theorem joinDot_getLast : ∀ (n : Name), n ≠ [] → (∀ l ∈ n, l ≠ []) →
    ∃ l ∈ n, ∃ b ∈ l, (joinDot n).getLast? = some b := by
  intro n
  induction n with
  | nil => intro h; exact absurd rfl h
  | cons l r ih =>
    intro _ hne
    cases r with
    | nil =>
      have hl : l ≠ [] := hne l (by simp)
      exact ⟨l, by simp, l.getLast hl, List.getLast_mem hl, by simp [joinDot, List.getLast?_eq_some_getLast hl]⟩
    | cons l2 r2 =>
      obtain ⟨x, hx, b, hb, hlast⟩ := ih (by simp) (fun y hy => hne y (by simp [hy]))
      refine ⟨x, by simp [hx], b, hb, ?_⟩
      rw [joinDot_cons_cons, List.getLast?_append, List.getLast?_cons, hlast]
      simp

/-- the relative spelling (no trailing dot) parses to the same name -/
theorem parse_joinDot (n : Name) (hn : n ≠ []) (h : wfText n) : parseName (joinDot n) = .ok n := by
  have hnd : ∀ l ∈ n, noDot l := fun l hl => (h.1 l hl).2.2
  have hsplit := splitDot_join n hn hnd
  obtain ⟨l, hl, b, hb, hlast⟩ := joinDot_getLast n hn (fun l hl hc => by
    have := (h.1 l hl).1; rw [hc] at this; simp at this)
  have hbd : b ≠ dot := fun hc => hnd l hl (hc ▸ hb)
  have hstrip : stripDot (joinDot n) = joinDot n := by
    unfold stripDot; rw [hlast]; simp [hbd]
  have hne : joinDot n ≠ [dot] := by
    intro hc
    rw [hc] at hlast
    simp at hlast
    exact hbd hlast.symm
  unfold parseName
  simp only [hne, if_false, hstrip, hsplit]
  have := parseLabels_ok n [] (fun l hl => ⟨(h.1 l hl).1, (h.1 l hl).2.1⟩) (by simpa using h.2)
  simpa using this

example : wfText [[119, 119, 119], [97]] ∧ wfText [] := by
  refine ⟨⟨?_, by decide⟩, ⟨by simp, by decide⟩⟩
  intro l hl
  simp at hl
  rcases hl with rfl | rfl <;> simp [noDot, dot]
example : parseName [119, 119, 119, 46, 97, 46] = .ok [[119, 119, 119], [97]] ∧
    parseName [119, 119, 119, 46, 97] = .ok [[119, 119, 119], [97]] ∧ parseName [46] = .ok [] := by
  simp [parseName, stripDot, splitDot, parseLabels, parseLabel, checkLabel, appendLabel, dot, Name.sz]

/-- The hypothesis `noDot` of `parse_display` cannot be dropped: a label that contains the octet `.`
(possible on the wire and through `Label::try_from`, which only checks the length) is printed
unescaped, so the text form is read back as two labels. -/
theorem parse_display_dot_counterexample :
    display [[97, 46, 98]] = [97, 46, 98, 46] ∧ parseName (display [[97, 46, 98]]) = .ok [[97], [98]] ∧
    (nameStep [] [97, 46, 98]).2 = .ok () := by
  simp [display, parseName, stripDot, splitDot, parseLabels, parseLabel, checkLabel, appendLabel, dot, Name.sz,
    nameStep]

/-! ## `Display` after `FromStr`: limits, and the exact set of accepted strings -/

/-- what a successful `FromStr` says about its input and result -/
theorem parseName_inv {s : Bytes} {n : Name} (h : parseName s = .ok n) :
    (s = [dot] ∧ n = []) ∨
    (s ≠ [dot] ∧ n = splitDot (stripDot s) ∧ n ≠ [] ∧ (∀ l ∈ n, 1 ≤ l.length ∧ l.length ≤ 63) ∧
      Name.sz n < 255) := by
  unfold parseName at h
  split at h
  · rename_i hs
    injection h with h
    exact .inl ⟨hs, h.symm⟩
  · rename_i hs
    obtain ⟨hn, hall, hlim⟩ := parseLabels_inv _ _ _ h
    simp only [List.nil_append] at hn
    have hne := splitDot_ne_nil (stripDot s)
    refine .inr ⟨hs, hn, by rw [hn]; exact hne, ?_, hlim hne⟩
    rw [hn]; exact hall

/-- Every name produced by `FromStr` is within the limits (labels of 1..=63 octets, wire length at
most 255) and has dot-free labels. -/
theorem parseName_wfText {s : Bytes} {n : Name} (h : parseName s = .ok n) : wfText n := by
  rcases parseName_inv h with ⟨_, rfl⟩ | ⟨_, hn, _, hall, hsz⟩
  · exact ⟨by simp, by simp⟩
  · refine ⟨fun l hl => ⟨(hall l hl).1, (hall l hl).2, ?_⟩, hsz⟩
    rw [hn] at hl
    exact splitDot_noDot _ l hl

/-- the converse limits, in the form asked for by C13 -/
theorem parseName_limits {s : Bytes} {n : Name} (h : parseName s = .ok n) :
    (∀ l ∈ n, 1 ≤ l.length ∧ l.length ≤ 63) ∧ Name.sz n < 255 :=
  (parseName_wfText h).limits

/-- `Display` after `FromStr`: the printed form is the input, with the trailing dot added if it was
missing (so `FromStr` followed by `Display` normalises to the absolute spelling and nothing else). -/
theorem display_parse {s : Bytes} {n : Name} (h : parseName s = .ok n) :
    display n = if s.getLast? = some dot then s else s ++ [dot] := by
  rcases parseName_inv h with ⟨rfl, rfl⟩ | ⟨_, hn, hne, _, _⟩
  · simp [display]
  · rw [display_eq_join n hne, hn, joinDot_split]
    rcases stripDot_cases s with ⟨h1, h2⟩ | ⟨h1, h2⟩
    · simp [h1, h2]
    · simp [h1, h2]

/-- The exact set of strings accepted by `FromStr` and their values: `s` parses to `n` iff `n` is
within the limits with dot-free labels and `s` is the absolute spelling `display n` or (for a
non-root name) the relative spelling without the trailing dot. -/
theorem parseName_ok_iff (s : Bytes) (n : Name) :
    parseName s = .ok n ↔ wfText n ∧ (s = display n ∨ (n ≠ [] ∧ s = joinDot n)) := by
  constructor
  · intro h
    refine ⟨parseName_wfText h, ?_⟩
    have hd := display_parse h
    by_cases hl : s.getLast? = some dot
    · rw [if_pos hl] at hd; exact .inl hd.symm
    · rw [if_neg hl] at hd
      rcases parseName_inv h with ⟨rfl, _⟩ | ⟨_, _, hne, _, _⟩
      · simp at hl
      · rw [display_eq_join n hne] at hd
        exact .inr ⟨hne, (List.append_cancel_right hd).symm⟩
  · rintro ⟨hwf, rfl | ⟨hne, rfl⟩⟩
    · exact parse_display n hwf
    · exact parse_joinDot n hne hwf

/-- `FromStr` is injective up to the optional trailing dot -/
theorem parseName_inj {s t : Bytes} {n : Name} (hs : parseName s = .ok n) (ht : parseName t = .ok n) :
    s = t ∨ s = t ++ [dot] ∨ s ++ [dot] = t := by
  have h1 := display_parse hs
  have h2 := display_parse ht
  rw [h1] at h2
  by_cases a : s.getLast? = some dot <;> by_cases b : t.getLast? = some dot <;> simp [a, b] at h2
  · exact .inl h2
  · exact .inr (.inl h2)
  · exact .inr (.inr h2)
  · exact .inl h2

-- errors of `FromStr`: empty string, empty label, label of 64 octets
example : parseName [] = .error .labelEmpty ∧ parseName [97, 46, 46] = .error .labelEmpty ∧
    parseName [46, 46] = .error .labelEmpty ∧ parseName [46, 97] = .error .labelEmpty := by
  simp [parseName, stripDot, splitDot, parseLabels, parseLabel, checkLabel, appendLabel, dot, Name.sz]
example : (match parseName (List.replicate 64 97) with | .error .labelLength => true | _ => false) = true ∧
    (match parseName (List.replicate 63 97) with | .ok [l] => l.length == 63 | _ => false) = true := by
  decide

/-! ## Names built by `append_label` -/

/-- closed form of one `Label::try_from` + `append_label` step -/
theorem nameStep_spec (n : Name) (l : Bytes) :
    nameStep n l =
      if l.length = 0 then (n, .error .labelEmpty)
      else if 64 ≤ l.length then (n, .error .labelLength)
      else if 255 ≤ Name.sz n + l.length + 1 then (n, .error .nameLength)
      else (n ++ [l], .ok ()) := by
  unfold nameStep parseLabel checkLabel appendLabel
  by_cases h0 : l.length = 0
  · simp [h0]
  · by_cases h1 : l.length < 64
    · have h1' : ¬ 64 ≤ l.length := by omega
      by_cases h2 : 255 ≤ Name.sz n + l.length + 1
      · simp [h0, h1, h1', h2]
      · simp [h0, h1, h1', h2]
    · have h1' : 64 ≤ l.length := by omega
      simp [h0, h1, h1']

theorem nameStep_limits (n : Name) (l : Bytes) (h : NameLimits n) : NameLimits (nameStep n l).1 := by
  rw [nameStep_spec]
  split; · exact h
  split; · exact h
  split; · exact h
  refine ⟨?_, ?_⟩
  · intro x hx
    simp at hx
    rcases hx with hx | rfl
    · exact h.1 x hx
    · omega
  · rw [Name.sz_append, Name.sz_cons]; simp; omega

/-- Any sequence of `append_label` calls (successful or not) starting from the root yields a name
whose labels have 1..=63 octets and whose wire length `Name.sz n + 1` is at most 255. -/
theorem appendLabels_inv (ls : List Bytes) :
    (∀ l ∈ ls.foldl (fun n l => (nameStep n l).1) [], 1 ≤ l.length ∧ l.length ≤ 63) ∧
    Name.sz (ls.foldl (fun n l => (nameStep n l).1) []) < 255 := by
  have : ∀ (ls : List Bytes) (n : Name), NameLimits n →
      NameLimits (ls.foldl (fun n l => (nameStep n l).1) n) := by
    intro ls
    induction ls with
    | nil => intro n h; exact h
    | cons l r ih => intro n h; exact ih _ (nameStep_limits n l h)
  exact this ls [] ⟨by simp, by simp⟩

/-- the limit is sharp: 3 × 63 + 61 octets of labels give `Name.sz = 254` (wire length 255), and
one more octet is rejected -/
example : Name.sz ([List.replicate 63 97, List.replicate 63 97, List.replicate 63 97, List.replicate 61 97].foldl
    (fun n l => (nameStep n l).1) []) = 254 := by
  simp [nameStep_spec, Name.sz]
example : (nameStep [List.replicate 63 97, List.replicate 63 97, List.replicate 63 97] (List.replicate 62 97)).2
    = .error .nameLength := by
  simp [nameStep_spec, Name.sz]

/-! ## Equality of names: ASCII case only -/

theorem Name.eq_iff (a b : Name) : ciEq a b = true ↔ a.map Label.lower = b.map Label.lower := by
  unfold ciEq Name.lower
  simp

theorem ciEq_refl (a : Name) : ciEq a a = true := (Name.eq_iff a a).mpr rfl

theorem ciEq_comm (a b : Name) : ciEq a b = ciEq b a := by
  rw [Bool.eq_iff_iff, Name.eq_iff, Name.eq_iff]
  exact ⟨Eq.symm, Eq.symm⟩

theorem ciEq_symm {a b : Name} (h : ciEq a b = true) : ciEq b a = true := by
  rw [ciEq_comm]; exact h

theorem ciEq_trans {a b c : Name} (h1 : ciEq a b = true) (h2 : ciEq b c = true) : ciEq a c = true := by
  rw [Name.eq_iff] at *
  exact h1.trans h2

/-- `==` is the kernel of `Name.lower`, hence an equivalence relation -/
theorem ciEq_equivalence : Equivalence (fun a b : Name => ciEq a b = true) :=
  ⟨ciEq_refl, ciEq_symm, ciEq_trans⟩

theorem ciEq_of_eq {a b : Name} (h : a = b) : ciEq a b = true := h ▸ ciEq_refl a

/-- equal names have the same label lengths -/
theorem ciEq_map_length {a b : Name} (h : ciEq a b = true) : a.map List.length = b.map List.length := by
  rw [Name.eq_iff] at h
  have := congrArg (List.map List.length) h
  simpa [List.map_map, Function.comp_def] using this

/-- Names that compare equal have the same shape: the same number of labels and pairwise equal
label lengths (so replacing a name by an equal one, as compression does, can only change ASCII
case, never a length). -/
theorem ciEq_same_shape {a b : Name} (h : ciEq a b = true) :
    a.length = b.length ∧ ∀ i (ha : i < a.length) (hb : i < b.length), a[i].length = b[i].length := by
  have hm := ciEq_map_length h
  have hl : a.length = b.length := by simpa using congrArg List.length hm
  refine ⟨hl, fun i ha hb => ?_⟩
  have h1 : (a.map List.length)[i]'(by simpa using ha) = (b.map List.length)[i]'(by simpa using hb) := by
    simp only [hm]
  simpa using h1

/-- … and the labels at the same position differ only in ASCII case -/
theorem ciEq_getElem {a b : Name} (h : ciEq a b = true) (i : Nat) (ha : i < a.length) (hb : i < b.length) :
    Label.lower a[i] = Label.lower b[i] := by
  rw [Name.eq_iff] at h
  have h1 : (a.map Label.lower)[i]'(by simpa using ha) = (b.map Label.lower)[i]'(by simpa using hb) := by
    simp only [h]
  simpa using h1

theorem ciEq_sz {a b : Name} (h : ciEq a b = true) : Name.sz a = Name.sz b := by
  have hm := ciEq_map_length h
  unfold Name.sz
  have : ∀ n : Name, n.map (fun l => l.length + 1) = (n.map List.length).map (· + 1) := by
    intro n; simp [List.map_map, Function.comp_def]
  rw [this a, this b, hm]

/-- equal names have wire forms of the same length -/
theorem ciEq_wire_len {a b : Name} (h : ciEq a b = true) : (Name.wire a).length = (Name.wire b).length := by
  rw [wire_len, wire_len, ciEq_sz h]

/-- equal names are UTF-8-valid together (label by label) -/
theorem ciEq_validUtf8 {a b : Name} (h : ciEq a b = true) (i : Nat) (ha : i < a.length) (hb : i < b.length) :
    validUtf8 a[i] = validUtf8 b[i] :=
  validUtf8_ci_eq _ _ (ciEq_getElem h i ha hb)

example : ciEq [[0x57, 0x77], [0xC3, 0x84]] [[0x77, 0x57], [0xC3, 0x84]] = true := by decide
-- only ASCII: "Ä" (C3 84) and "ä" (C3 A4) are different names
example : ciEq [[0xC3, 0x84]] [[0xC3, 0xA4]] = false := by decide
