import DnsVerif.Lemmas.RTWf
import DnsVerif.Lemmas.RTSize
import DnsVerif.Lemmas.EncSpecMsg
import DnsVerif.Lemmas.CompleteMsg

/-! # Round trip, part 3: the compositions (C05, C02, C10)

* C05 `encode_decode`: encoder ⇒ wire grammar in its strict form (`EncSpec.encodeDns_spec`, `bk = true`)
  ⇒ decoder completeness (`Complete.decodeDns_complete`): the output of the encoder for a well-formed
  message is accepted by the decoder and decodes to the same value up to `Msg.norm`;
* C10 element round trips `rr_roundtrip`, `question_roundtrip`, `name_roundtrip`;
* what `Msg.norm` compares, spelled out (`msg_norm_eq_iff`, `rr_norm_eq_iff`, `map_eq_map_iff`,
  `fval_lower_eq_iff`, `svcParam_norm_eq_iff`, `rdata_norm_*`): identical in every field, names compared
  ASCII-case-insensitively, the key list of `mandatory` compared as a sorted list;
* `nameAt_ptr_lt`: a compression pointer of the grammar has a target below 16384, and below its own
  offset in the strict mode.
The versions with encoder totality (C02 `roundtrip`) are at the end (they use `RTSize.lean`). -/

namespace RT

/-! ## Extents of the grammar's items -/

/-- the in-place part of a name takes at most `sz + 2` octets (`sz + 1` literal, 2 if it is a pointer
to the root) -/
theorem nameAt_end_le {buf : Bytes} {bk : Bool} {off h e : Nat} {n : Name} (hn : NameAt buf bk off n h e) :
    e ≤ off + Name.sz n + 2 := by
  induction hn with
  | root _ => omega
  | label _ _ _ hl _ _ ih => rw [Name.sz_cons]; omega
  | ptr _ _ _ _ _ _ => omega

theorem nameRefAt_end_le {buf : Bytes} {bk : Bool} {off e : Nat} {n : Name} (h : NameRefAt buf bk off n e) :
    e ≤ off + 256 := by
  obtain ⟨_, hn, _, _, hs⟩ := h
  have := nameAt_end_le hn
  omega

theorem rrAt_end_le {buf : Bytes} {bk : Bool} {off e : Nat} {rr : RR} (h : RRAt buf bk off rr e) :
    e ≤ off + 65801 := by
  cases h with
  | normal _ hn _ _ _ hr _ _ _ => have := nameRefAt_end_le hn; omega
  | opt hn _ _ _ hr _ _ => have := nameRefAt_end_le hn; omega

theorem questionAt_end_le {buf : Bytes} {bk : Bool} {off e : Nat} {q : Question} (h : QuestionAt buf bk off q e) :
    e ≤ off + 260 := by
  obtain ⟨e0, hn, _, _, _, he, _⟩ := h
  have := nameRefAt_end_le hn
  omega

/-- **pointers of the grammar**: if a name of the grammar starts with a pointer octet, the name is
continued at the 14-bit target, which is below 16384 and — in the strict mode `bk = true` that the
encoder guarantees — below the pointer's own offset; the hop count drops by one -/
theorem nameAt_ptr_lt {buf : Bytes} {bk : Bool} {off h e : Nat} {n : Name} (hn : NameAt buf bk off n h e)
    {a b : UInt8} (ha : buf[off]? = some a) (hp : 192 ≤ a.toNat) (hb : buf[off + 1]? = some b) :
    ptrOff a b < 16384 ∧ (bk = true → ptrOff a b < off) ∧ e = off + 2 ∧
    ∃ h' e', h = h' + 1 ∧ NameAt buf bk (ptrOff a b) n h' e' := by
  have hlt : ptrOff a b < 16384 := by
    have := a.toNat_lt; have := b.toNat_lt
    unfold ptrOff; omega
  cases hn with
  | root h0 => rw [ha] at h0; cases h0; simp at hp
  | label hl _ h63 _ _ _ => rw [ha] at hl; cases hl; omega
  | ptr ha' _ hb' hbk hrest =>
    rw [ha] at ha'; cases ha'
    rw [hb] at hb'; cases hb'
    exact ⟨hlt, hbk, rfl, _, _, rfl, hrest⟩

/-! ## What `norm` compares -/

theorem msg_norm_eq_iff {m' m : Msg} :
    m'.norm = m.norm ↔ m'.id = m.id ∧ m'.flags = m.flags ∧
      m'.qs.map Question.lower = m.qs.map Question.lower ∧ m'.an.map RR.norm = m.an.map RR.norm ∧
      m'.ns.map RR.norm = m.ns.map RR.norm ∧ m'.ar.map RR.norm = m.ar.map RR.norm := by
  cases m'; cases m; simp [Msg.norm]

theorem rr_norm_eq_iff {r' r : RR} :
    r'.norm = r.norm ↔ r'.name.lower = r.name.lower ∧ r'.ty = r.ty ∧ r'.cls = r.cls ∧ r'.ttl = r.ttl ∧
      r'.rd.norm = r.rd.norm := by
  cases r'; cases r; simp [RR.norm]

theorem question_lower_eq_iff {q' q : Question} :
    q'.lower = q.lower ↔ q'.name.lower = q.name.lower ∧ q'.qtype = q.qtype ∧ q'.qclass = q.qclass := by
  cases q'; cases q; simp [Question.lower]

/-- names are compared ASCII-case-insensitively: `Name.lower` equality is the crate's `==` -/
theorem name_lower_eq_iff {a b : Name} : a.lower = b.lower ↔ ciEq a b = true := by simp [ciEq]

/-- two lists with the same image under `f` = same length and pointwise the same image -/
theorem map_eq_map_iff {α β : Type} (f : α → β) : ∀ {l' l : List α},
    l'.map f = l.map f ↔ l'.length = l.length ∧ ∀ (i : Nat) (a' a : α), l'[i]? = some a' → l[i]? = some a → f a' = f a := by
  intro l'
  induction l' with
  | nil =>
    intro l
    cases l with
    | nil => simp
    | cons a l => simp
  | cons a' l' ih =>
    intro l
    cases l with
    | nil => simp
    | cons a l =>
      simp only [List.map_cons, List.cons.injEq, List.length_cons, ih]
      constructor
      · rintro ⟨h0, hl, hp⟩
        refine ⟨by omega, fun i x' x h1 h2 => ?_⟩
        cases i with
        | zero => simp at h1 h2; subst h1; subst h2; exact h0
        | succ i => simp at h1 h2; exact hp i x' x h1 h2
      · rintro ⟨hl, hp⟩
        exact ⟨hp 0 a' a (by simp) (by simp), by omega, fun i x' x h1 h2 => hp (i + 1) x' x (by simpa using h1) (by simpa using h2)⟩

theorem fval_lower_eq_iff {v' v : FVal} :
    v'.lower = v.lower ↔
      (∃ n' n, v' = .name n' ∧ v = .name n ∧ n'.lower = n.lower) ∨ ((∀ n, v ≠ .name n) ∧ v' = v) := by
  cases v' <;> cases v <;> simp [FVal.lower]

theorem svcParam_norm_eq_iff {p' p : SvcParam} :
    p'.norm = p.norm ↔
      (∃ ks' ks, p' = .mandatory ks' ∧ p = .mandatory ks ∧ sortNat ks' = sortNat ks) ∨
      ((∀ ks, p ≠ .mandatory ks) ∧ p' = p) := by
  cases p' <;> cases p <;> simp [SvcParam.norm]

theorem rdata_norm_fields {rd : RData} {vs : List FVal} (h : rd.norm = (RData.fields vs).norm) :
    ∃ vs', rd = .fields vs' ∧ vs'.map FVal.lower = vs.map FVal.lower := by
  cases rd <;> simp [RData.norm] at h
  exact ⟨_, rfl, h⟩

theorem rdata_norm_opt {rd : RData} {p x v : Nat} {d : Bool} {o : List EdnsOpt}
    (h : rd.norm = (RData.opt p x v d o).norm) : rd = .opt p x v d o := by
  cases rd <;> simp [RData.norm] at h
  simp [h]

theorem rdata_norm_apl {rd : RData} {items : List APItem} (h : rd.norm = (RData.apl items).norm) :
    rd = .apl items := by
  cases rd <;> simp [RData.norm] at h
  simp [h]

theorem rdata_norm_svcb {rd : RData} {p : Nat} {t : Name} {ps : List SvcParam}
    (h : rd.norm = (RData.svcb p t ps).norm) :
    ∃ t' ps', rd = .svcb p t' ps' ∧ t'.lower = t.lower ∧ ps'.map SvcParam.norm = ps.map SvcParam.norm := by
  cases rd <;> simp [RData.norm] at h
  obtain ⟨rfl, h2, h3⟩ := h
  exact ⟨_, _, rfl, h2, h3⟩

/-- the weak form asked for by C02: identical header fields and section sizes -/
theorem msg_norm_eq {m' m : Msg} (h : m'.norm = m.norm) :
    m'.id = m.id ∧ m'.flags = m.flags ∧ m'.qs.length = m.qs.length ∧ m'.an.length = m.an.length ∧
    m'.ns.length = m.ns.length ∧ m'.ar.length = m.ar.length := by
  obtain ⟨h1, h2, h3, h4, h5, h6⟩ := msg_norm_eq_iff.mp h
  exact ⟨h1, h2, EncSpec.map_length_eq h3, EncSpec.map_length_eq h4, EncSpec.map_length_eq h5,
    EncSpec.map_length_eq h6⟩

/-- pointwise: the `i`-th answer of both messages agree in every field, owner names up to ASCII case
(and likewise for the other sections, by `map_eq_map_iff`) -/
theorem msg_norm_an {m' m : Msg} (h : m'.norm = m.norm) {i : Nat} {r' r : RR}
    (h1 : m'.an[i]? = some r') (h2 : m.an[i]? = some r) :
    ciEq r'.name r.name = true ∧ r'.ty = r.ty ∧ r'.cls = r.cls ∧ r'.ttl = r.ttl ∧ r'.rd.norm = r.rd.norm := by
  obtain ⟨_, _, _, h4, _, _⟩ := msg_norm_eq_iff.mp h
  have := ((map_eq_map_iff RR.norm).mp h4).2 i r' r h1 h2
  obtain ⟨a, b, c, d, e⟩ := rr_norm_eq_iff.mp this
  exact ⟨name_lower_eq_iff.mp a, b, c, d, e⟩

/-! ## C05: what the encoder writes is read back -/

/-- **C05 (`encode_decode`).** The octets produced for a well-formed message are accepted by the decoder,
and the decoded message is the encoded one up to ASCII case of names and the order of `mandatory` keys. -/
theorem encode_decode {m : Msg} {b : Bytes} (hwf : WfMsg m) (h : encodeDns m = .ok b) :
    ∃ m' d, decodeDns b = .ok (m', d) ∧ m'.norm = m.norm := by
  obtain ⟨m', hn, hat⟩ := EncSpec.encodeDns_spec hwf h
  obtain ⟨d, hd, _⟩ := Complete.decodeDns_complete' hat
  exact ⟨m', d, hd, hn⟩

/-- … with the layout rules of C05 (`MsgAt b true m'`: counts = section sizes, every length field = the
octets it covers, every pointer strictly backwards and below 16384 (`nameAt_ptr_lt`), at most 16 hops,
nothing after the last record), the decoder consuming the whole buffer, and the decoded value
well-formed again -/
theorem encode_decode_layout {m : Msg} {b : Bytes} (hwf : WfMsg m) (h : encodeDns m = .ok b) :
    ∃ m' d, decodeDns b = .ok (m', d) ∧ m'.norm = m.norm ∧ d.off = b.length ∧ MsgAt b true m' ∧ WfMsg m' := by
  obtain ⟨m', hn, hat⟩ := EncSpec.encodeDns_spec hwf h
  obtain ⟨d, hd, hoff⟩ := Complete.decodeDns_complete' hat
  exact ⟨m', d, hd, hn, hoff, hat, msgAt_wf hat⟩

/-- the decoder is a function of the octets: ANY decoding of the encoder's output is the encoded value
up to `norm` -/
theorem decode_of_encode {m m' : Msg} {b : Bytes} {d : D} (hwf : WfMsg m) (h : encodeDns m = .ok b)
    (hd : decodeDns b = .ok (m', d)) : m'.norm = m.norm := by
  obtain ⟨m1, d1, hd1, hn⟩ := encode_decode hwf h
  rw [hd] at hd1
  injection hd1 with hd1
  rw [(Prod.mk.inj hd1).1]; exact hn

/-! ## C10: element round trips -/

/-- **one record** (`RR::encode` then `RR::decode`) -/
theorem rr_roundtrip {rr : RR} {b : Bytes} (hwf : WfRR rr) (h : encodeRR rr = .ok b) :
    ∃ rr' d, decodeRR b = .ok (rr', d) ∧ rr'.norm = rr.norm ∧ d.off = b.length := by
  obtain ⟨rr', hn, hat⟩ := EncSpec.encodeRR_spec hwf h
  have hle := rrAt_end_le hat
  obtain ⟨c, hc⟩ := Complete.decodeRR_complete hat (by omega)
  exact ⟨rr', _, hc, hn, rfl⟩

/-- **one question** -/
theorem question_roundtrip {q : Question} {b : Bytes} (hwf : WfQuestion q) (h : encodeQuestion q = .ok b) :
    ∃ q' d, decodeQuestion b = .ok (q', d) ∧ q'.lower = q.lower ∧ d.off = b.length := by
  obtain ⟨q', hn, hat⟩ := EncSpec.encodeQuestion_spec hwf h
  have hle := questionAt_end_le hat
  obtain ⟨c, hc⟩ := Complete.decodeQuestion_complete hat (by omega)
  exact ⟨q', _, hc, hn, rfl⟩

/-- **one name**: read back exactly (same case: nothing is compressed in a fresh encoder) -/
theorem name_roundtrip {n : Name} {b : Bytes} (hwf : WfName n) (h : encodeName n = .ok b) :
    ∃ d, decodeName b = .ok (n, d) ∧ d.off = b.length := by
  obtain ⟨_, _, hat⟩ := EncSpec.encodeName_spec hwf h
  have hle := nameRefAt_end_le hat
  obtain ⟨c, hc⟩ := Complete.decodeName_complete hat (by omega)
  exact ⟨_, hc, rfl⟩

/-! ## With encoder totality: C05 and C02 in closed form -/

/-- **C05 with totality.** A well-formed message of at most 65535 octets (uncompressed) is encoded; the
output is a message of the strict wire grammar (`MsgAt b true m'`: the layout rules of C05), no longer than
the uncompressed size, and the decoder reads it back as the same value up to `norm`. -/
theorem encode_decode_total {m : Msg} (hwf : WfMsg m) (hsz : m.usize ≤ 65535) :
    ∃ b m' d, encodeDns m = .ok b ∧ decodeDns b = .ok (m', d) ∧ m'.norm = m.norm ∧ MsgAt b true m' ∧
      b.length ≤ m.usize ∧ d.off = b.length := by
  obtain ⟨b, hb, hlen⟩ := encodeDns_total hwf hsz
  obtain ⟨m', d, hd, hn, hoff, hat, _⟩ := encode_decode_layout hwf hb
  exact ⟨b, m', d, hb, hd, hn, hat, hlen, hoff⟩

/-- **C02 (`roundtrip`).** decode → encode → decode: an accepted message (whose uncompressed size is at
most 65535 octets) is encoded successfully, and decoding the new octets gives the same message:
identical in every field, names compared ASCII-case-insensitively (`msg_norm_eq_iff` ff.; the `mandatory`
key list of a decoded message is compared as a sorted list). -/
theorem roundtrip {b : Bytes} {m : Msg} {d : D} (h : decodeDns b = .ok (m, d)) (hsz : m.usize ≤ 65535) :
    ∃ b' m' d', encodeDns m = .ok b' ∧ decodeDns b' = .ok (m', d') ∧ m'.norm = m.norm := by
  obtain ⟨b', m', d', hb, hd, hn, _⟩ := encode_decode_total (decodeDns_wf h) hsz
  exact ⟨b', m', d', hb, hd, hn⟩

/-- the same with everything that is known about the re-encoded octets -/
theorem roundtrip_layout {b : Bytes} {m : Msg} {d : D} (h : decodeDns b = .ok (m, d)) (hsz : m.usize ≤ 65535) :
    ∃ b' m' d', encodeDns m = .ok b' ∧ decodeDns b' = .ok (m', d') ∧ m'.norm = m.norm ∧ MsgAt b' true m' ∧
      b'.length ≤ m.usize ∧ d'.off = b'.length ∧ WfMsg m' := by
  obtain ⟨b', m', d', hb, hd, hn, hat, hl, ho⟩ := encode_decode_total (decodeDns_wf h) hsz
  exact ⟨b', m', d', hb, hd, hn, hat, hl, ho, msgAt_wf hat⟩

/-- without the size premise: if the decoded message is refused by the encoder, then with `.length` and
only because its uncompressed size exceeds 65535 octets (compression made the input fit) -/
theorem roundtrip_or_too_big {b : Bytes} {m : Msg} {d : D} (h : decodeDns b = .ok (m, d)) :
    (∃ b' m' d', encodeDns m = .ok b' ∧ decodeDns b' = .ok (m', d') ∧ m'.norm = m.norm) ∨
    (encodeDns m = .error .length ∧ 65535 < m.usize) := by
  cases he : encodeDns m with
  | ok b' =>
    obtain ⟨m', d', hd, hn⟩ := encode_decode (decodeDns_wf h) he
    exact Or.inl ⟨b', m', d', rfl, hd, hn⟩
  | error err =>
    obtain ⟨rfl, hgt⟩ := encodeDns_error (decodeDns_wf h) he
    exact Or.inr ⟨rfl, hgt⟩

/-- C10 with totality: records, questions, names -/
theorem rr_roundtrip_total {rr : RR} (hwf : WfRR rr) (hsz : rr.usize ≤ 65535) :
    ∃ b rr' d, encodeRR rr = .ok b ∧ decodeRR b = .ok (rr', d) ∧ rr'.norm = rr.norm ∧ d.off = b.length := by
  obtain ⟨b, hb, _⟩ := encodeRR_total hwf hsz
  obtain ⟨rr', d, hd, hn, ho⟩ := rr_roundtrip hwf hb
  exact ⟨b, rr', d, hb, hd, hn, ho⟩

theorem question_roundtrip_total {q : Question} (hwf : WfQuestion q) :
    ∃ b q' d, encodeQuestion q = .ok b ∧ decodeQuestion b = .ok (q', d) ∧ q'.lower = q.lower ∧
      d.off = b.length := by
  obtain ⟨b, hb, _⟩ := encodeQuestion_total hwf
  obtain ⟨q', d, hd, hn, ho⟩ := question_roundtrip hwf hb
  exact ⟨b, q', d, hb, hd, hn, ho⟩

theorem name_roundtrip_total {n : Name} (hwf : WfName n) :
    encodeName n = .ok (Name.wire n) ∧
    ∃ d, decodeName (Name.wire n) = .ok (n, d) ∧ d.off = (Name.wire n).length := by
  obtain ⟨b, hb, rfl, _⟩ := encodeName_total hwf
  exact ⟨hb, name_roundtrip hwf hb⟩

/-- decode → encode → decode for one record -/
theorem rr_decode_roundtrip {b : Bytes} {rr : RR} {d : D} (hb : b.length < 2 ^ 63)
    (h : decodeRR b = .ok (rr, d)) (hsz : rr.usize ≤ 65535) :
    ∃ b' rr' d', encodeRR rr = .ok b' ∧ decodeRR b' = .ok (rr', d') ∧ rr'.norm = rr.norm ∧
      d'.off = b'.length :=
  rr_roundtrip_total (decodeRR_wf hb h) hsz

/-! ## Non-vacuity -/

/-- the example message of `EncSpecMsg.lean` (question, compressed MX answer with an upper-case owner,
OPT with padding) goes through the round trip -/
example : ∃ m' d, decodeDns
    [0x12, 0x34, 0x81, 0x80, 0, 1, 0, 1, 0, 0, 0, 1,
     1, 97, 1, 98, 0, 0, 1, 0, 1,
     0xC0, 12, 0, 15, 0, 1, 0, 0, 0, 60, 0, 6, 0, 10, 1, 109, 0xC0, 12,
     0, 0, 41, 4, 208, 0, 0, 0, 0, 0, 6, 0, 12, 0, 2, 0, 0] = .ok (m', d) ∧ m'.norm = EncSpec.exMsg.norm :=
  encode_decode EncSpec.exMsg_wf EncSpec.exMsg_encoded

example : encodeName [[119, 119, 119], [97]] = .ok [3, 119, 119, 119, 1, 97, 0] := rfl

/-- … and is encoded because it is well-formed and small -/
example : ∃ b m' d, encodeDns EncSpec.exMsg = .ok b ∧ decodeDns b = .ok (m', d) ∧ m'.norm = EncSpec.exMsg.norm ∧
    MsgAt b true m' ∧ b.length ≤ EncSpec.exMsg.usize ∧ d.off = b.length :=
  encode_decode_total EncSpec.exMsg_wf (by decide)

/-- C02 on concrete octets: the 56 octets above are decoded (the upper-case owner `A.b` was compressed
away: the decoder sees `a.b`), re-encoded and decoded again to the same message -/
private def exBuf : Bytes :=
  [0x12, 0x34, 0x81, 0x80, 0, 1, 0, 1, 0, 0, 0, 1,
   1, 97, 1, 98, 0, 0, 1, 0, 1,
   0xC0, 12, 0, 15, 0, 1, 0, 0, 0, 60, 0, 6, 0, 10, 1, 109, 0xC0, 12,
   0, 0, 41, 4, 208, 0, 0, 0, 0, 0, 6, 0, 12, 0, 2, 0, 0]

private def exDecoded : Msg :=
  { EncSpec.exMsg with an := [⟨[[97], [98]], 15, 1, 60, .fields [.num 10, .name [[109], [97], [98]]]⟩] }

set_option maxRecDepth 16384 in
private theorem exBuf_decoded :
    decodeDns exBuf = .ok (exDecoded, { buf := exBuf, off := 56, lim := 56, cost := 80 }) := rfl

example : ∃ b' m' d', encodeDns exDecoded = .ok b' ∧ decodeDns b' = .ok (m', d') ∧ m'.norm = exDecoded.norm :=
  roundtrip exBuf_decoded (by decide)

end RT
