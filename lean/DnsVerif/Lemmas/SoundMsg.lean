import DnsVerif.Lemmas.SoundRR

/-! # Decoder soundness, part 4: sections, the message, the public entry points, and the visible
corollaries of property C03

`decodeDns_sound : decodeDns b = .ok (m, d) → MsgAt b false m` — an accepted message means exactly
what the RFC grammar of `Spec/Wire.lean` says its octets mean: the header octets are the rendered
header, the counts equal the section sizes, the sections follow one another without gaps, every
record's RDATA fills exactly its RDLENGTH, and nothing follows the last record. -/

namespace Sound

/-! ## Counted sections -/

theorem decQuestions_sound : ∀ (k : Nat) {d d' : D} {qs : List Question}, D.Ok d →
    decQuestions k d = .ok (qs, d') →
    QuestionsAt d.buf false d.off qs d'.off ∧ qs.length = k ∧ Keep d d' := by
  intro k
  induction k with
  | zero =>
    intro d d' qs hd h
    simp only [decQuestions] at h
    injection h with h; injection h with h1 h2
    subst h1; subst h2
    exact ⟨.nil, rfl, Keep.refl hd⟩
  | succ k ih =>
    intro d d' qs hd h
    unfold decQuestions at h
    cases hq : decQuestion d with
    | error e => simp [hq] at h
    | ok p =>
      obtain ⟨q, d1⟩ := p
      simp only [hq] at h
      obtain ⟨q1, k1⟩ := decQuestion_sound hd hq
      cases hr : decQuestions k d1 with
      | error e => simp [hr] at h
      | ok p2 =>
        obtain ⟨r, d2⟩ := p2
        simp only [hr] at h
        injection h with h; injection h with h1 h2
        subst h1; subst h2
        obtain ⟨r1, r2, k2⟩ := ih k1.ok hr
        rw [k1.buf] at r1
        exact ⟨.cons q1 r1, by simp [r2], k1.trans k2⟩

/-- exactly the announced number of records, one after the other -/
theorem decRRs_sound : ∀ (k : Nat) {d d' : D} {rs : List RR}, D.Ok d →
    decRRs k d = .ok (rs, d') → RRsAt d.buf false d.off rs d'.off ∧ rs.length = k ∧ Keep d d' := by
  intro k
  induction k with
  | zero =>
    intro d d' rs hd h
    simp only [decRRs] at h
    injection h with h; injection h with h1 h2
    subst h1; subst h2
    exact ⟨.nil, rfl, Keep.refl hd⟩
  | succ k ih =>
    intro d d' rs hd h
    unfold decRRs at h
    cases hq : decRR d with
    | error e => simp [hq] at h
    | ok p =>
      obtain ⟨q, d1⟩ := p
      simp only [hq] at h
      obtain ⟨q1, k1, _⟩ := decRR_sound' hd hq
      cases hr : decRRs k d1 with
      | error e => simp [hr] at h
      | ok p2 =>
        obtain ⟨r, d2⟩ := p2
        simp only [hr] at h
        injection h with h; injection h with h1 h2
        subst h1; subst h2
        obtain ⟨r1, r2, k2⟩ := ih k1.ok hr
        rw [k1.buf] at r1
        exact ⟨.cons q1 r1, by simp [r2], k1.trans k2⟩

/-! ## The message -/

/-- `Decoder::dns` only succeeds at offset 0 of a window of 12..65536 octets -/
theorem decMsg_bounds {d d' : D} {m : Msg} (h : decMsg d = .ok (m, d')) :
    d.off = 0 ∧ 12 ≤ d.lim ∧ d.lim ≤ 65536 := by
  unfold decMsg at h
  by_cases h0 : d.off ≠ 0
  · rw [if_pos h0] at h; cases h
  · by_cases h12 : d.lim < 12
    · rw [if_neg h0, if_pos h12] at h; cases h
    · by_cases hbig : 65536 < d.lim
      · rw [if_neg h0, if_neg h12, if_pos hbig] at h; cases h
      · exact ⟨by omega, by omega, by omega⟩

/-- the six header numbers -/
private theorem header_sound {d d1 d2 d3 d4 d5 d6 : D} {id qd an ns ar : Nat} {fl : Flags} (hd : D.Ok d)
    (h1 : d.num 2 = .ok (id, d1)) (h2 : decFlags d1 = .ok (fl, d2)) (h3 : d2.num 2 = .ok (qd, d3))
    (h4 : d3.num 2 = .ok (an, d4)) (h5 : d4.num 2 = .ok (ns, d5)) (h6 : d5.num 2 = .ok (ar, d6)) :
    id < 65536 ∧ FlagsOk fl ∧ qd < 65536 ∧ an < 65536 ∧ ns < 65536 ∧ ar < 65536 ∧
      BytesAt d.buf d.off (beBytes 2 id ++ beBytes 2 (flagsWord fl) ++ beBytes 2 qd ++ beBytes 2 an ++
        beBytes 2 ns ++ beBytes 2 ar) ∧ d6.off = d.off + 12 ∧ Keep d d6 := by
  obtain ⟨a1, a2, _, a3, _, k1⟩ := num_sound hd h1
  obtain ⟨b2, b1, b3, k2⟩ := decFlags_sound k1.ok h2
  obtain ⟨c1, c2, _, c3, _, k3⟩ := num_sound k2.ok h3
  obtain ⟨e1, e2, _, e3, _, k4⟩ := num_sound k3.ok h4
  obtain ⟨f1, f2, _, f3, _, k5⟩ := num_sound k4.ok h5
  obtain ⟨g1, g2, _, g3, _, k6⟩ := num_sound k5.ok h6
  refine ⟨by simpa using a1, b1, by simpa using c1, by simpa using e1, by simpa using f1,
    by simpa using g1, ?_, by omega, k1.trans (k2.trans (k3.trans (k4.trans (k5.trans k6))))⟩
  rw [k1.buf] at b2
  rw [k2.buf, k1.buf] at c2
  rw [k3.buf, k2.buf, k1.buf] at e2
  rw [k4.buf, k3.buf, k2.buf, k1.buf] at f2
  rw [k5.buf, k4.buf, k3.buf, k2.buf, k1.buf] at g2
  refine bytesAt_append_of (bytesAt_append_of (bytesAt_append_of (bytesAt_append_of (bytesAt_append_of
    a2 (o2 := d1.off) ?_ b2) (o2 := d2.off) ?_ c2) (o2 := d3.off) ?_ e2) (o2 := d4.off) ?_ f2)
    (o2 := d5.off) ?_ g2
  · simp [a3]
  · simp; omega
  · simp; omega
  · simp; omega
  · simp; omega

/-- **Soundness of `Decoder::dns`** on a decoder whose window is the whole buffer. -/
theorem decMsg_sound {d d' : D} {m : Msg} (hd : D.Ok d) (hl : d.lim = d.buf.length)
    (h : decMsg d = .ok (m, d')) : MsgAt d.buf false m ∧ d'.off = d.buf.length ∧ Keep d d' := by
  obtain ⟨z0, z12, zbig⟩ := decMsg_bounds h
  unfold decMsg at h
  rw [if_neg (by omega), if_neg (by omega), if_neg (by omega)] at h
  cases h1 : d.num 2 with
  | error e => simp [h1] at h
  | ok p1 =>
  obtain ⟨id, d1⟩ := p1
  simp only [h1] at h
  cases h2 : decFlags d1 with
  | error e => simp [h2] at h
  | ok p2 =>
  obtain ⟨fl, d2⟩ := p2
  simp only [h2] at h
  cases h3 : d2.num 2 with
  | error e => simp [h3] at h
  | ok p3 =>
  obtain ⟨qd, d3⟩ := p3
  simp only [h3] at h
  cases h4 : d3.num 2 with
  | error e => simp [h4] at h
  | ok p4 =>
  obtain ⟨an, d4⟩ := p4
  simp only [h4] at h
  cases h5 : d4.num 2 with
  | error e => simp [h5] at h
  | ok p5 =>
  obtain ⟨ns, d5⟩ := p5
  simp only [h5] at h
  cases h6 : d5.num 2 with
  | error e => simp [h6] at h
  | ok p6 =>
  obtain ⟨ar, d6⟩ := p6
  simp only [h6] at h
  obtain ⟨x1, x2, x3, x4, x5, x6, x7, x8, k6⟩ := header_sound hd h1 h2 h3 h4 h5 h6
  cases h7 : decQuestions qd d6 with
  | error e => simp [h7] at h
  | ok p7 =>
  obtain ⟨qs, d7⟩ := p7
  simp only [h7] at h
  obtain ⟨q1, q2, k7⟩ := decQuestions_sound qd k6.ok h7
  cases h8 : decRRs an d7 with
  | error e => simp [h8] at h
  | ok p8 =>
  obtain ⟨ans, d8⟩ := p8
  simp only [h8] at h
  obtain ⟨r1, r2, k8⟩ := decRRs_sound an k7.ok h8
  cases h9 : decRRs ns d8 with
  | error e => simp [h9] at h
  | ok p9 =>
  obtain ⟨nss, d9⟩ := p9
  simp only [h9] at h
  obtain ⟨s1, s2, k9⟩ := decRRs_sound ns k8.ok h9
  cases h10 : decRRs ar d9 with
  | error e => simp [h10] at h
  | ok p10 =>
  obtain ⟨ars, d10⟩ := p10
  simp only [h10] at h
  obtain ⟨t1, t2, k10⟩ := decRRs_sound ar k9.ok h10
  cases hfin : d10.isFinished with
  | error e => simp [hfin] at h
  | ok fin =>
  cases fin with
  | false => simp [hfin] at h
  | true =>
  simp only [hfin] at h
  injection h with h; injection h with ha hb
  subst hb
  have hend : d10.off = d10.lim := (isFinished_ok hfin).2.mp rfl
  have kall : Keep d d10 := k6.trans (k7.trans (k8.trans (k9.trans k10)))
  have hb7 : d7.buf = d.buf := k7.buf.trans k6.buf
  have hb8 : d8.buf = d.buf := k8.buf.trans hb7
  have hb9 : d9.buf = d.buf := k9.buf.trans hb8
  rw [k6.buf, x8, z0] at q1
  rw [hb7] at r1
  rw [hb8] at s1
  rw [hb9, hend, kall.lim, hl] at t1
  rw [z0] at x7
  refine ⟨?_, by rw [hend, kall.lim, hl], kall⟩
  rw [← ha]
  refine ⟨by omega, by omega, x1, x2, by simp only [q2]; exact x3, by simp only [r2]; exact x4,
    by simp only [s2]; exact x5, by simp only [t2]; exact x6, ?_, d7.off, d8.off, d9.off, q1, r1, s1, t1⟩
  simp only [q2, r2, s2, t2]
  exact x7

/-! ## The public entry points -/

/-- **C03 capstone.** An accepted message is a message of the wire grammar on the same octets:
header, counts equal to the section sizes, every record framed exactly by its RDLENGTH, nothing after
the last record. (No length hypothesis is needed: `Decoder::dns` itself rejects more than 65536
octets.) -/
theorem decodeDns_sound {b : Bytes} {m : Msg} {d : D} (h : decodeDns b = .ok (m, d)) : MsgAt b false m := by
  unfold decodeDns at h
  obtain ⟨_, _, hbig⟩ := decMsg_bounds h
  have hlen : b.length < 2 ^ 63 := by
    have : b.length ≤ 65536 := hbig
    omega
  exact (decMsg_sound (D.main_Ok b hlen) rfl h).1

/-- the form with the allocation-limit hypothesis used by the other entry points -/
theorem decodeDns_sound' {b : Bytes} {m : Msg} {d : D} (_ : b.length < 2 ^ 63)
    (h : decodeDns b = .ok (m, d)) : MsgAt b false m ∧ d.off = b.length := by
  unfold decodeDns at h
  obtain ⟨_, _, hbig⟩ := decMsg_bounds h
  have hlen : b.length < 2 ^ 63 := by
    have : b.length ≤ 65536 := hbig
    omega
  have := decMsg_sound (D.main_Ok b hlen) rfl h
  exact ⟨this.1, this.2.1⟩

theorem decodeRR_sound {b : Bytes} {rr : RR} {d : D} (hb : b.length < 2 ^ 63)
    (h : decodeRR b = .ok (rr, d)) : RRAt b false 0 rr d.off ∧ d.off ≤ b.length := by
  obtain ⟨h1, _, _, _, h5⟩ := decRR_sound (D.main_Ok b hb) h
  exact ⟨h1, h5⟩

theorem decodeQuestion_sound {b : Bytes} {q : Question} {d : D} (hb : b.length < 2 ^ 63)
    (h : decodeQuestion b = .ok (q, d)) : QuestionAt b false 0 q d.off := by
  exact (decQuestion_sound (D.main_Ok b hb) h).1

theorem decodeName_sound {b : Bytes} {n : Name} {d : D} (h : decodeName b = .ok (n, d)) :
    NameRefAt b false 0 n d.off ∧ d.off ≤ b.length := by
  obtain ⟨hops, h17, hna, _, _, _, hle, hsz, _, hutf, _⟩ := name_sound h
  exact ⟨⟨hops, hna, by simpa [maxHops] using h17, hutf, hsz⟩, hle⟩

theorem decodeFlags_sound {b : Bytes} {f : Flags} {d : D} (hb : b.length < 2 ^ 63)
    (h : decodeFlags b = .ok (f, d)) : BytesAt b 0 (beBytes 2 (flagsWord f)) ∧ FlagsOk f ∧ d.off = 2 := by
  obtain ⟨h1, h2, h3, _⟩ := decFlags_sound (D.main_Ok b hb) h
  exact ⟨h1, h2, by simpa [D.main] using h3⟩

/-! ## Visible corollaries named by C03 (first on the grammar, then for accepted messages) -/

theorem rrsAt_mem {buf : Bytes} {bk : Bool} {off e : Nat} {rs : List RR} {rr : RR}
    (h : RRsAt buf bk off rs e) (hm : rr ∈ rs) : ∃ o e', RRAt buf bk o rr e' := by
  induction h with
  | nil => simp at hm
  | cons h1 _ ih =>
    rcases List.mem_cons.mp hm with rfl | hm
    · exact ⟨_, _, h1⟩
    · exact ih hm

/-- the records of a message -/
def Msg.rrs (m : Msg) : List RR := m.an ++ m.ns ++ m.ar

theorem msgAt_rr_mem {b : Bytes} {bk : Bool} {m : Msg} {rr : RR} (h : MsgAt b bk m) (hm : rr ∈ Msg.rrs m) :
    ∃ o e, RRAt b bk o rr e := by
  obtain ⟨_, _, _, _, _, _, _, _, _, e1, e2, e3, _, h1, h2, h3⟩ := h
  simp only [Msg.rrs, List.mem_append] at hm
  rcases hm with (hm | hm) | hm
  · exact rrsAt_mem h1 hm
  · exact rrsAt_mem h2 hm
  · exact rrsAt_mem h3 hm

theorem questionsAt_mem {buf : Bytes} {bk : Bool} {off e : Nat} {qs : List Question} {q : Question}
    (h : QuestionsAt buf bk off qs e) (hm : q ∈ qs) : ∃ o e', QuestionAt buf bk o q e' := by
  induction h with
  | nil => simp at hm
  | cons h1 _ ih =>
    rcases List.mem_cons.mp hm with rfl | hm
    · exact ⟨_, _, h1⟩
    · exact ih hm

/-- every non-OPT record of the grammar has a supported class -/
theorem rrAt_class_supported {buf : Bytes} {bk : Bool} {off e : Nat} {rr : RR} (h : RRAt buf bk off rr e)
    (hty : rr.ty ≠ 41) : classKnown rr.cls = true := by
  cases h with
  | normal _ _ _ _ _ _ hc => exact hc.1
  | opt => exact absurd rfl hty

/-- **`accepted_class_supported`**: every accepted non-OPT record has a supported class. -/
theorem accepted_class_supported {b : Bytes} {m : Msg} {d : D} (h : decodeDns b = .ok (m, d)) :
    ∀ rr ∈ Msg.rrs m, rr.ty ≠ 41 → classKnown rr.cls = true := by
  intro rr hm hty
  obtain ⟨_, _, hr⟩ := msgAt_rr_mem (decodeDns_sound h) hm
  exact rrAt_class_supported hr hty

/-- the record types without a class field: A, WKS, AAAA, APL, SVCB, HTTPS -/
def inOnlyType (ty : Nat) : Prop := ty = 1 ∨ ty = 11 ∨ ty = 28 ∨ ty = 42 ∨ ty = 64 ∨ ty = 65

theorem classOk_in_only {ty cls : Nat} (h : classOk ty cls) (hty : inOnlyType ty) : cls = 1 := by
  obtain ⟨_, h2⟩ := h
  rcases hty with rfl | rfl | rfl | rfl | rfl | rfl
  · exact h2 rfl
  · exact h2 rfl
  · exact h2 rfl
  · exact h2
  · exact h2
  · exact h2

theorem rrAt_in_only {buf : Bytes} {bk : Bool} {off e : Nat} {rr : RR} (h : RRAt buf bk off rr e)
    (hty : inOnlyType rr.ty) : rr.cls = 1 := by
  cases h with
  | normal _ _ _ _ _ _ hc => exact classOk_in_only hc hty
  | opt =>
    exfalso
    simp only [inOnlyType] at hty
    omega

/-- **`accepted_in_only`**: accepted A, WKS, AAAA, APL, SVCB, HTTPS records have wire class IN. -/
theorem accepted_in_only {b : Bytes} {m : Msg} {d : D} (h : decodeDns b = .ok (m, d)) :
    ∀ rr ∈ Msg.rrs m, inOnlyType rr.ty → rr.cls = 1 := by
  intro rr hm hty
  obtain ⟨_, _, hr⟩ := msgAt_rr_mem (decodeDns_sound h) hm
  exact rrAt_in_only hr hty

theorem rdataAt_svc_sorted {buf : Bytes} {bk : Bool} {lim ty off prio : Nat} {target : Name}
    {ps : List SvcParam} (h : RDataAt buf bk lim ty off (.svcb prio target ps)) : keysSorted ps := by
  cases h with
  | svcbAlias => trivial
  | svcbService _ _ _ _ _ _ _ _ hs => exact hs

theorem rrAt_svc_sorted {buf : Bytes} {bk : Bool} {off e prio : Nat} {rr : RR} {target : Name}
    {ps : List SvcParam} (h : RRAt buf bk off rr e) (hrd : rr.rd = .svcb prio target ps) : keysSorted ps := by
  cases h with
  | normal _ _ _ _ _ _ _ _ hr => rw [hrd] at hr; exact rdataAt_svc_sorted hr
  | opt => cases hrd

/-- **`no_duplicate_svcparam`**: the parameters of an accepted SVCB / HTTPS record have strictly
increasing keys; in particular no key occurs twice. -/
theorem no_duplicate_svcparam {b : Bytes} {m : Msg} {d : D} (h : decodeDns b = .ok (m, d)) :
    ∀ rr ∈ Msg.rrs m, ∀ prio target ps, rr.rd = .svcb prio target ps →
      keysSorted ps ∧ (ps.map SvcParam.key).Nodup := by
  intro rr hm prio target ps hrd
  obtain ⟨_, _, hr⟩ := msgAt_rr_mem (decodeDns_sound h) hm
  have := rrAt_svc_sorted hr hrd
  exact ⟨this, keysSorted_nodup this⟩

/-! ### Names -/

def FVal.names : FVal → List Name
  | .name n => [n]
  | _ => []

def RData.names : RData → List Name
  | .fields vs => vs.flatMap FVal.names
  | .svcb _ t _ => [t]
  | _ => []

/-- all names of a record: the owner and the names inside the RDATA -/
def RR.names (r : RR) : List Name := r.name :: RData.names r.rd

/-- all names of a message -/
def Msg.names (m : Msg) : List Name := m.qs.map (·.name) ++ (Msg.rrs m).flatMap RR.names

/-- at most 255 wire octets, labels of 1..63 octets, valid UTF-8 -/
def NameOk (n : Name) : Prop :=
  Name.sz n < 255 ∧ (Name.wire n).length ≤ 255 ∧ wfName n ∧ ∀ l ∈ n, validUtf8 l = true

theorem nameRefAt_nameOk {buf : Bytes} {bk : Bool} {off e : Nat} {n : Name} (h : NameRefAt buf bk off n e) :
    NameOk n := by
  obtain ⟨_, hn, _, hu, hs⟩ := h
  exact ⟨hs, by rw [wire_len]; omega, hn.wf, hu⟩

theorem fieldsAt_names_ok {buf : Bytes} {bk : Bool} {lim off : Nat} {fs : List Fld} {vs : List FVal}
    (h : FieldsAt buf bk lim off fs vs) : ∀ n ∈ vs.flatMap FVal.names, NameOk n := by
  induction h with
  | nil => intro n hn; simp at hn
  | cons hf _ ih =>
    intro n hn
    rw [List.flatMap_cons, List.mem_append] at hn
    rcases hn with hn | hn
    · cases hf with
      | name hr _ =>
        simp only [FVal.names, List.mem_singleton] at hn
        subst hn; exact nameRefAt_nameOk hr
      | _ => simp [FVal.names] at hn
    · exact ih n hn

theorem rdataAt_names_ok {buf : Bytes} {bk : Bool} {lim ty off : Nat} {rd : RData}
    (h : RDataAt buf bk lim ty off rd) : ∀ n ∈ RData.names rd, NameOk n := by
  cases h with
  | regular _ hf => exact fieldsAt_names_ok hf
  | opt => intro n hn; simp [RData.names] at hn
  | apl => intro n hn; simp [RData.names] at hn
  | svcbAlias _ _ hr =>
    intro n hn
    simp only [RData.names, List.mem_singleton] at hn
    subst hn; exact nameRefAt_nameOk hr
  | svcbService _ _ _ _ hr =>
    intro n hn
    simp only [RData.names, List.mem_singleton] at hn
    subst hn; exact nameRefAt_nameOk hr

theorem rrAt_names_ok {buf : Bytes} {bk : Bool} {off e : Nat} {rr : RR} (h : RRAt buf bk off rr e) :
    ∀ n ∈ RR.names rr, NameOk n := by
  intro n hn
  cases h with
  | normal _ hr _ _ _ _ _ _ hd =>
    simp only [RR.names, List.mem_cons] at hn
    rcases hn with rfl | hn
    · exact nameRefAt_nameOk hr
    · exact rdataAt_names_ok hd n hn
  | opt hr _ _ _ _ _ hd =>
    simp only [RR.names, List.mem_cons] at hn
    rcases hn with rfl | hn
    · exact nameRefAt_nameOk hr
    · exact rdataAt_names_ok hd n hn

theorem msgAt_names_ok {b : Bytes} {bk : Bool} {m : Msg} (h : MsgAt b bk m) : ∀ n ∈ Msg.names m, NameOk n := by
  intro n hn
  simp only [Msg.names, List.mem_append, List.mem_map, List.mem_flatMap] at hn
  rcases hn with ⟨q, hq, rfl⟩ | ⟨rr, hrr, hn⟩
  · obtain ⟨_, _, _, _, _, _, _, _, _, _, _, _, hqs, _⟩ := h
    obtain ⟨_, _, _, hr, _⟩ := questionsAt_mem hqs hq
    exact nameRefAt_nameOk hr
  · obtain ⟨_, _, hr⟩ := msgAt_rr_mem h hrr
    exact rrAt_names_ok hr n hn

/-- **`name_le_255`**: every name of an accepted message (question names, owner names, names inside
RDATA, SVCB targets) takes at most 255 octets in uncompressed wire form, its labels have 1..63 octets
and are valid UTF-8. -/
theorem name_le_255 {b : Bytes} {m : Msg} {d : D} (h : decodeDns b = .ok (m, d)) :
    ∀ n ∈ Msg.names m, Name.sz n < 255 ∧ (Name.wire n).length ≤ 255 ∧ wfName n ∧
      ∀ l ∈ n, validUtf8 l = true :=
  msgAt_names_ok (decodeDns_sound h)

/-! ### Numeric fields -/

/-- **`value_on_wire`** (C03): the value of a numeric field is the big-endian value of the `w` octets at
its offset, and these octets are exactly `beBytes w n`. -/
theorem value_on_wire {d d' : D} {w n : Nat} (hd : D.Ok d) (h : decField d (.num w) = .ok (.num n, d')) :
    beVal ((d.buf.drop d.off).take w) = n ∧ BytesAt d.buf d.off (beBytes w n) ∧ n < 256 ^ w ∧
      d'.off = d.off + w := by
  simp only [decField] at h
  cases hn : d.num w with
  | error e => simp [hn] at h
  | ok p =>
    obtain ⟨n', d1⟩ := p
    simp only [hn] at h
    injection h with h; injection h with h1 h2
    injection h1 with h1
    subst h1; subst h2
    obtain ⟨n1, n2, n3, n4, _, _⟩ := num_sound hd hn
    exact ⟨n3.symm, n2, n1, n4⟩

/-- the same read off the relation: a `.num w` field of the grammar determines its value -/
theorem fieldAt_num_value {buf : Bytes} {bk : Bool} {lim off w e : Nat} {v : FVal}
    (hl : lim ≤ buf.length) (h : FieldAt buf bk lim off (.num w) v e) :
    ∃ n, v = .num n ∧ beVal ((buf.drop off).take w) = n ∧ e = off + w := by
  cases h with
  | num h1 h2 h3 =>
    rename_i n
    refine ⟨n, rfl, ?_, rfl⟩
    have := bytesAt_eq_slice h2 (by rw [beBytes_length]; omega)
    rw [beBytes_length] at this
    rw [this, Be.beVal_beBytes h1]

/-! ## Non-vacuity: query `a. IN A` with one answer `A 1.2.3.4` whose owner is a pointer to offset 12 -/

private def exMsg : Bytes :=
  [0x12, 0x34, 0x81, 0x80, 0, 1, 0, 1, 0, 0, 0, 0,
   1, 97, 0, 0, 1, 0, 1,
   0xc0, 12, 0, 1, 0, 1, 0, 0, 0, 5, 0, 4, 1, 2, 3, 4]

private def exM : Msg :=
  { id := 0x1234,
    flags := { qr := true, opcode := 0, aa := false, tc := false, rd := true, ra := true, ad := false,
               cd := false, rcode := 0 },
    qs := [{ name := [[97]], qtype := 1, qclass := 1 }],
    an := [{ name := [[97]], ty := 1, cls := 1, ttl := 5, rd := .fields [.bytes [1, 2, 3, 4]] }],
    ns := [], ar := [] }

set_option maxRecDepth 16384 in
private theorem exMsg_dec : decodeDns exMsg = .ok (exM, { buf := exMsg, off := 35, lim := 35, cost := 42 }) := rfl

example : MsgAt exMsg false exM := decodeDns_sound exMsg_dec
example : Msg.names exM = [[[97]], [[97]]] := rfl
example : ∀ n ∈ Msg.names exM, Name.sz n < 255 := fun n hn => (name_le_255 exMsg_dec n hn).1
example : ∀ rr ∈ Msg.rrs exM, inOnlyType rr.ty → rr.cls = 1 := accepted_in_only exMsg_dec

/-- An OPT record whose owner is a compression pointer to a zero octet (offset 10 of the header) is
accepted, and is a record of the grammar: `RRAt.opt` allows any encoding of the root name. -/
private def exOptMsg : Bytes := [0, 0, 0, 0, 0, 0, 0, 0, 0, 0, 0, 1, 0xc0, 0x0a, 0, 41, 0x10, 0, 0, 0, 0, 0, 0, 0]

set_option maxRecDepth 16384 in
example : ∃ m d, decodeDns exOptMsg = .ok (m, d) ∧ MsgAt exOptMsg false m ∧
    m.ar = [{ name := [], ty := 41, cls := 0, ttl := 0, rd := .opt 4096 0 0 false [] }] := by
  have h : decodeDns exOptMsg = .ok (
      { id := 0, flags := { qr := false, opcode := 0, aa := false, tc := false, rd := false, ra := false,
                            ad := false, cd := false, rcode := 0 },
        qs := [], an := [], ns := [],
        ar := [{ name := [], ty := 41, cls := 0, ttl := 0, rd := .opt 4096 0 0 false [] }] },
      { buf := exOptMsg, off := 24, lim := 24, cost := 25 }) := rfl
  exact ⟨_, _, h, decodeDns_sound h, rfl⟩

example : beVal ((([1, 2, 3] : Bytes).drop 1).take 2) = 515 ∧ BytesAt [1, 2, 3] 1 (beBytes 2 515) ∧
    515 < 256 ^ 2 ∧ 3 = 1 + 2 :=
  value_on_wire (d := { buf := [1, 2, 3], off := 1, lim := 3 }) (d' := { buf := [1, 2, 3], off := 3, lim := 3, cost := 2 })
    ⟨by decide, by decide, by simp⟩ rfl

end Sound
