import DnsVerif.Lemmas.EncLimMsg
import DnsVerif.Lemmas.EncSpecMsg

/-! # Round trip, part 2 (T-total): a well-formed value that fits is encoded

The UNCOMPRESSED wire size of a value (`Msg.usize`, `RR.usize`, `Question.usize`, `Name.usize`) is the
size defined by the encoder-limits development (`EncLim.msgSize`, `rrSize`, `qSize`: structural
recursion mirroring the writers of `Model/Enc.lean`, every name counted literally as `Name.sz n + 1`,
an ECS address as the octets `addrWithPrefix` emits, an APL address as the octets `stripZeros` leaves);
`msg_usize_eq` … `rdata_usize_*` display the recursion.

This file connects `Spec/WF.lean` with the premises of the error classification `EncLim.encode_error_kinds`
/ `EncLim.encRR_cause`: a well-formed value is `Shaped`, has no string above 255 octets, no APL address
above 16 octets, no section above 65535 entries. Hence the ONLY way the encoder can refuse a well-formed
value is the size limit, and below the limit it succeeds:

`encodeDns_total : WfMsg m → m.usize ≤ 65535 → ∃ b, encodeDns m = .ok b ∧ b.length ≤ m.usize`,
element versions `encodeRR_total`, `encodeQuestion_total`, `encodeName_total`, and the versions from an
arbitrary encoder state satisfying the compression-table invariant (`encRR_total`, `encQuestion_total`). -/

/-! ## Uncompressed sizes -/

/-- a name written literally: length octet + octets per label, then the root octet -/
abbrev Name.usize (n : Name) : Nat := Name.sz n + 1
/-- name + QTYPE + QCLASS -/
abbrev Question.usize (q : Question) : Nat := EncLim.qSize q
/-- owner + TYPE/CLASS/TTL/RDLENGTH (10) + uncompressed RDATA; for OPT the owner is the root -/
abbrev RR.usize (rr : RR) : Nat := EncLim.rrSize rr
/-- header (12) + the four sections -/
abbrev Msg.usize (m : Msg) : Nat := EncLim.msgSize m

namespace RT

open EncLim

theorem msg_usize_eq (m : Msg) :
    m.usize = 12 + (m.qs.map Question.usize).sum + (m.an.map RR.usize).sum + (m.ns.map RR.usize).sum +
      (m.ar.map RR.usize).sum := by
  show 12 + ((m.qs.map qSize).sum + (m.an.map rrSize).sum + (m.ns.map rrSize).sum + (m.ar.map rrSize).sum) =
    12 + (m.qs.map qSize).sum + (m.an.map rrSize).sum + (m.ns.map rrSize).sum + (m.ar.map rrSize).sum
  omega

theorem question_usize_eq (q : Question) : q.usize = Name.usize q.name + 4 := rfl

theorem rr_usize_eq (rr : RR) : rr.usize = Name.usize (rrOwner rr) + 10 + rdataSize rr := rfl

theorem rdata_usize_fields {rr : RR} {info : RRInfo} {vs : List FVal} (hk : rrKind rr.ty = some (.regular info))
    (hrd : rr.rd = .fields vs) : rdataSize rr = fieldsSize (info.flds.map (·.2)) vs := by
  simp only [rdataSize, hk, hrd]

theorem rdata_usize_opt {rr : RR} {p x v : Nat} {d : Bool} {opts : List EdnsOpt} (hk : rrKind rr.ty = some .opt)
    (hrd : rr.rd = .opt p x v d opts) : rdataSize rr = (opts.map optionSize).sum := by
  simp only [rdataSize, hk, hrd]

theorem rdata_usize_apl {rr : RR} {items : List APItem} (hk : rrKind rr.ty = some .apl)
    (hrd : rr.rd = .apl items) : rdataSize rr = (items.map apItemSize).sum := by
  simp only [rdataSize, hk, hrd]

theorem rdata_usize_svcb {rr : RR} {b : Bool} {prio : Nat} {target : Name} {params : List SvcParam}
    (hk : rrKind rr.ty = some (.svcb b)) (hrd : rr.rd = .svcb prio target params) :
    rdataSize rr = 2 + Name.usize target + (if prio = 0 then 0 else (params.map svcSize).sum) := by
  simp only [rdataSize, hk, hrd]

/-- ECS: 4 + family/source/scope (4) + the address octets that `addrWithPrefix` emits -/
theorem option_usize_ecs (fam src scope : Nat) (addr : Bytes) :
    optionSize (.ecs fam src scope addr) = 8 + (addrWithPrefix addr (max src scope)).length := by
  simp [optionSize, optionBody]; omega

/-- APL item: 4 + the address without trailing zero octets -/
theorem apItem_usize (it : APItem) : apItemSize it = 4 + (stripZeros it.addr).length := rfl

/-! ## Well-formed ⇒ the premises of the error classification -/

theorem wfVal_shaped {f : Fld} {v : FVal} (h : WfVal f v) : shapedF f v = true := by
  cases f <;> cases v <;> first | rfl | (exact absurd h (by simp [WfVal]))

theorem wfVals_shaped : ∀ {fs : List Fld} {vs : List FVal}, WfVals fs vs → shapedFs fs vs = true := by
  intro fs
  induction fs with
  | nil => intro vs h; cases vs with
    | nil => rfl
    | cons v vs => exact absurd h (by simp [WfVals])
  | cons f fs ih =>
    intro vs h
    cases vs with
    | nil => exact absurd h (by simp [WfVals])
    | cons v vs =>
      obtain ⟨h1, h2⟩ := h
      simp [shapedFs, wfVal_shaped h1, ih h2]

theorem wfName_labels {n : Name} (h : WfName n) : ∀ l ∈ n, l.length ≤ 255 := by
  intro l hl
  have := (h.1 l hl).2
  omega

theorem wfVal_strs {f : Fld} {v : FVal} (h : WfVal f v) : ∀ s ∈ fieldStrs f v, s.length ≤ 255 := by
  intro s hs
  cases f <;> cases v <;> simp only [fieldStrs, List.not_mem_nil] at hs
  · exact wfName_labels h s hs
  · rename_i c b
    simp only [List.mem_singleton] at hs; subst hs
    exact (show WfStr c s from h).1
  · rename_i c o
    cases o with
    | none => simp at hs
    | some b =>
      simp only [List.mem_singleton] at hs; subst hs
      exact (show WfStr c s from h).1
  · rename_i l
    exact ((show l ≠ [] ∧ ∀ s ∈ l, s.length ≤ 255 ∧ validUtf8 s = true from h).2 s hs).1

theorem wfVals_strs : ∀ {fs : List Fld} {vs : List FVal}, WfVals fs vs →
    ∀ s ∈ fieldsStrs fs vs, s.length ≤ 255 := by
  intro fs
  induction fs with
  | nil => intro vs _ s hs; simp [fieldsStrs] at hs
  | cons f fs ih =>
    intro vs h s hs
    cases vs with
    | nil => simp [fieldsStrs] at hs
    | cons v vs =>
      obtain ⟨h1, h2⟩ := h
      simp only [fieldsStrs, List.mem_append] at hs
      rcases hs with hs | hs
      · exact wfVal_strs h1 s hs
      · exact ih h2 s hs

theorem wfParam_strs {p : SvcParam} (h : WfParam p) : ∀ s ∈ svcStrs p, s.length ≤ 255 := by
  intro s hs
  cases p <;> simp only [svcStrs, List.not_mem_nil] at hs
  exact ((show ∀ s ∈ _, s.length ≤ 255 ∧ validUtf8 s = true from h) s hs).1

theorem wfApItem_addr {it : APItem} (h : WfApItem it) : (stripZeros it.addr).length ≤ 16 := by
  have h1 := stripZeros_length_le it.addr
  have h2 := h.2.1
  unfold famWidth at h2
  split at h2 <;> omega

/-- the four ways of being a well-formed record -/
theorem wfRR_cases {rr : RR} (h : WfRR rr) :
    (∃ info vs, rrKind rr.ty = some (.regular info) ∧ rr.rd = .fields vs ∧
      WfVals (info.flds.map (·.2)) vs ∧ WfName rr.name) ∨
    (∃ p x v d opts, rrKind rr.ty = some .opt ∧ rr.rd = .opt p x v d opts ∧ (∀ o ∈ opts, WfOption o) ∧
      rr.name = []) ∨
    (∃ items, rrKind rr.ty = some .apl ∧ rr.rd = .apl items ∧ (∀ it ∈ items, WfApItem it) ∧ WfName rr.name) ∨
    (∃ b prio target params, rrKind rr.ty = some (.svcb b) ∧ rr.rd = .svcb prio target params ∧
      WfName target ∧ (∀ p ∈ params, WfParam p) ∧ WfName rr.name) := by
  obtain ⟨name, ty, cls, ttl, rd⟩ := rr
  obtain ⟨h1, h2⟩ := h
  cases rd with
  | fields vs =>
    obtain ⟨info, hk, hv⟩ := h1
    exact Or.inl ⟨info, vs, hk, rfl, hv, h2.1⟩
  | opt p x v d opts => exact Or.inr (Or.inl ⟨p, x, v, d, opts, h1.1, rfl, h1.2, h2.1⟩)
  | apl items => exact Or.inr (Or.inr (Or.inl ⟨items, h1.1, rfl, h1.2, h2.1⟩))
  | svcb prio target params =>
    obtain ⟨⟨b, hk⟩, _, ht, _, hp, _⟩ := h1
    exact Or.inr (Or.inr (Or.inr ⟨b, prio, target, params, hk, rfl, ht, hp, h2.1⟩))

theorem wfRR_shaped {rr : RR} (h : WfRR rr) : Shaped rr := by
  rcases wfRR_cases h with ⟨info, vs, hk, hrd, hv, _⟩ | ⟨p, x, v, d, opts, hk, hrd, _⟩ | ⟨items, hk, hrd, _⟩ |
    ⟨b, prio, target, params, hk, hrd, _⟩
  · simp only [Shaped, shapedRR, hk, hrd]; exact wfVals_shaped hv
  · simp only [Shaped, shapedRR, hk, hrd]
  · simp only [Shaped, shapedRR, hk, hrd]
  · simp only [Shaped, shapedRR, hk, hrd]

theorem wfRR_owner {rr : RR} (h : WfRR rr) : WfName (rrOwner rr) := by
  rcases wfRR_cases h with ⟨info, vs, hk, _, _, hn⟩ | ⟨p, x, v, d, opts, hk, _, _, hn⟩ | ⟨items, hk, _, _, hn⟩ |
    ⟨b, prio, target, params, hk, _, _, _, hn⟩
  · simpa only [rrOwner, hk] using hn
  · simpa only [rrOwner, hk] using EncSpec.wfName_nil
  · simpa only [rrOwner, hk] using hn
  · simpa only [rrOwner, hk] using hn

theorem wfRR_strs {rr : RR} (h : WfRR rr) : ∀ s ∈ rrStrs rr, s.length ≤ 255 := by
  intro s hs
  simp only [rrStrs, List.mem_append] at hs
  rcases hs with hs | hs
  · exact wfName_labels (wfRR_owner h) s hs
  · rcases wfRR_cases h with ⟨info, vs, hk, hrd, hv, _⟩ | ⟨p, x, v, d, opts, hk, hrd, _⟩ | ⟨items, hk, hrd, _⟩ |
      ⟨b, prio, target, params, hk, hrd, ht, hp, _⟩
    · simp only [rdataStrs, hk, hrd] at hs
      exact wfVals_strs hv s hs
    · simp [rdataStrs, hk, hrd] at hs
    · simp [rdataStrs, hk, hrd] at hs
    · simp only [rdataStrs, hk, hrd, List.mem_append, List.mem_flatMap] at hs
      rcases hs with hs | ⟨q, hq, hs⟩
      · exact wfName_labels ht s hs
      · exact wfParam_strs (hp q hq) s hs

theorem wfRR_apl {rr : RR} (h : WfRR rr) : ∀ it ∈ rrAplItems rr, (stripZeros it.addr).length ≤ 16 := by
  intro it hit
  rcases wfRR_cases h with ⟨info, vs, hk, hrd, _⟩ | ⟨p, x, v, d, opts, hk, hrd, _⟩ | ⟨items, hk, hrd, hi, _⟩ |
    ⟨b, prio, target, params, hk, hrd, _⟩
  · simp [rrAplItems, hk, hrd] at hit
  · simp [rrAplItems, hk, hrd] at hit
  · simp only [rrAplItems, hk, hrd] at hit
    exact wfApItem_addr (hi it hit)
  · simp [rrAplItems, hk, hrd] at hit

theorem wfMsg_shaped {m : Msg} (h : WfMsg m) : ShapedMsg m := by
  obtain ⟨_, _, _, _, _, _, _, han, hns, har⟩ := h
  intro rr hr
  simp only [msgRRs, List.mem_append] at hr
  rcases hr with (hr | hr) | hr
  · exact wfRR_shaped (han rr hr)
  · exact wfRR_shaped (hns rr hr)
  · exact wfRR_shaped (har rr hr)

theorem wfMsg_rr {m : Msg} (h : WfMsg m) : ∀ rr ∈ msgRRs m, WfRR rr := by
  obtain ⟨_, _, _, _, _, _, _, han, hns, har⟩ := h
  intro rr hr
  simp only [msgRRs, List.mem_append] at hr
  rcases hr with (hr | hr) | hr
  · exact han rr hr
  · exact hns rr hr
  · exact har rr hr

theorem wfMsg_strs {m : Msg} (h : WfMsg m) : ∀ s ∈ msgStrs m, s.length ≤ 255 := by
  intro s hs
  simp only [msgStrs, List.mem_append, List.mem_flatMap] at hs
  rcases hs with ⟨q, hq, hs⟩ | ⟨rr, hr, hs⟩
  · exact wfName_labels (h.2.2.2.2.2.2.1 q hq).1 s hs
  · exact wfRR_strs (wfMsg_rr h rr hr) s hs

theorem wfMsg_apl {m : Msg} (h : WfMsg m) : ∀ it ∈ msgAplItems m, (stripZeros it.addr).length ≤ 127 := by
  intro it hit
  simp only [msgAplItems, List.mem_flatMap] at hit
  obtain ⟨rr, hr, hit⟩ := hit
  have := wfRR_apl (wfMsg_rr h rr hr) it hit
  omega

theorem wfMsg_count {m : Msg} (h : WfMsg m) : ¬ CountOver m := by
  obtain ⟨_, _, h1, h2, h3, h4, _⟩ := h
  unfold CountOver; omega

/-! ## Totality from an arbitrary state (the compression-table invariant is kept) -/

/-- **a well-formed record that fits is written**, from any state satisfying the invariant; at most
its uncompressed size is appended (compression only shortens) and the invariant holds again -/
theorem encRR_total {S : Nat → Prop} {e : Enc} {rr : RR} (hinv : EInv S e) (hwf : WfRR rr)
    (hsz : e.out.length + rr.usize ≤ 65535) :
    ∃ e', encRR e rr = .ok e' ∧ e.out.length ≤ e'.out.length ∧ e'.out.length ≤ e.out.length + rr.usize ∧
      EInv (ext S e.out.length e'.out.length) e' := by
  cases h : encRR e rr with
  | ok e' =>
    have hst := encRR_step (wfRR_shaped hwf) h
    exact ⟨e', rfl, hst.length_le, hst.length_le_add, (EncSpec.encRR_spec hinv hwf h).2.1⟩
  | error err =>
    exfalso
    rcases encRR_cause (wfRR_shaped hwf) h with ⟨_, s, hs, hgt⟩ | ⟨_, ⟨it, hit, hgt⟩ | hf | hgt⟩ |
      ⟨_, it, hit, hgt, _⟩ | ⟨_, hn⟩
    · have := wfRR_strs hwf s hs; omega
    · have := wfRR_apl hwf it hit; unfold apl255 at hgt; omega
    · exact hf
    · exact absurd hsz (by simp only [RR.usize]; omega)
    · have := wfRR_apl hwf it hit; omega
    · exact hn (IdxLe.of_EInv hinv)

theorem encQuestion_total {S : Nat → Prop} {e : Enc} {q : Question} (hinv : EInv S e) (hwf : WfQuestion q)
    (hsz : e.out.length + q.usize ≤ 65535) :
    ∃ e', encQuestion e q = .ok e' ∧ e.out.length ≤ e'.out.length ∧ e'.out.length ≤ e.out.length + q.usize ∧
      EInv (ext S e.out.length e'.out.length) e' := by
  cases h : encQuestion e q with
  | ok e' =>
    have hst := encQuestion_step h
    exact ⟨e', rfl, hst.length_le, hst.length_le_add, (EncSpec.encQuestion_spec hinv hwf h).2.1⟩
  | error err =>
    exfalso
    rcases encQuestion_cause h with ⟨_, s, hs, hgt⟩ | ⟨_, hf | hf | hgt⟩ | ⟨_, hf⟩ | ⟨_, hn⟩
    · have := wfName_labels hwf.1 s hs; omega
    · exact hf
    · exact hf
    · exact absurd hsz (by simp only [Question.usize]; omega)
    · exact hf
    · exact hn (IdxLe.of_EInv hinv)

/-! ## Totality of the public entry points -/

/-- **T-total (capstone).** A well-formed message whose uncompressed size is at most 65535 octets is
encoded, into at most that many octets. -/
theorem encodeDns_total {m : Msg} (hwf : WfMsg m) (hsz : m.usize ≤ 65535) :
    ∃ b, encodeDns m = .ok b ∧ b.length ≤ m.usize := by
  obtain ⟨b, hb⟩ := encode_total (wfMsg_shaped hwf) (wfMsg_strs hwf) (wfMsg_apl hwf) (wfMsg_count hwf) hsz
  obtain ⟨e', he, rfl⟩ := outOf_ok.mp hb
  have := (encMsg_step (wfMsg_shaped hwf) he).length_le_add
  exact ⟨_, hb, by simpa using this⟩

/-- conversely the size limit is the only obstacle: a well-formed message is refused only with `.length`,
and only if its uncompressed size exceeds 65535 -/
theorem encodeDns_error {m : Msg} {err : EErr} (hwf : WfMsg m) (h : encodeDns m = .error err) :
    err = .length ∧ 65535 < m.usize := by
  rcases encode_error_kinds (wfMsg_shaped hwf) h with ⟨_, s, hm, hgt⟩ | ⟨_, it, hit, h1, _⟩ |
    ⟨he, hc | ⟨it, hit, hgt⟩ | hc⟩
  · have := wfMsg_strs hwf s hm; omega
  · have := wfMsg_apl hwf it hit; omega
  · exact absurd hc (wfMsg_count hwf)
  · have := wfMsg_apl hwf it hit; omega
  · exact ⟨he, hc⟩

theorem encodeRR_total {rr : RR} (hwf : WfRR rr) (hsz : rr.usize ≤ 65535) :
    ∃ b, encodeRR rr = .ok b ∧ b.length ≤ rr.usize := by
  obtain ⟨e', he, _, hle, _⟩ := encRR_total (e := {}) EInv.empty hwf (by simpa using hsz)
  exact ⟨e'.out, by simp [encodeRR, outOf, he], by simpa using hle⟩

theorem encodeQuestion_total {q : Question} (hwf : WfQuestion q) :
    ∃ b, encodeQuestion q = .ok b ∧ b.length ≤ q.usize := by
  have hq : q.usize ≤ 65535 := by
    have := hwf.1.2.1
    simp only [Question.usize, qSize]; omega
  obtain ⟨e', he, _, hle, _⟩ := encQuestion_total (e := {}) EInv.empty hwf (by simpa using hq)
  exact ⟨e'.out, by simp [encodeQuestion, outOf, he], by simpa using hle⟩

/-- a well-formed name is always encoded (it has at most 255 octets), to exactly its literal form -/
theorem encodeName_total {n : Name} (hwf : WfName n) :
    ∃ b, encodeName n = .ok b ∧ b = Name.wire n ∧ b.length = Name.usize n := by
  obtain ⟨e', he⟩ := encName_total (e := {}) EInv.empty hwf.1 (by have := hwf.2.1; simp; omega)
  have hb : encodeName n = .ok e'.out := by simp [encodeName, outOf, he]
  have := (EncSpec.encodeName_spec hwf hb).1
  exact ⟨e'.out, hb, this, by rw [this, Name.wire_length]⟩

/-! ## Non-vacuity -/

/-- the example message of `EncSpecMsg.lean`: 62 octets uncompressed, 56 on the wire -/
example : EncSpec.exMsg.usize = 62 := by decide

example : ∃ b, encodeDns EncSpec.exMsg = .ok b ∧ b.length ≤ 62 :=
  encodeDns_total EncSpec.exMsg_wf (by decide)

end RT
