import DnsVerif.Lemmas.EncLimDns
import DnsVerif.Model.Dec

/-! # Encoder limits: the theorems of property C08 and of the encoder half of C01

All statements are about EVERY value of the model's value types. The only premise is the shape
premise `Shaped rr` / `ShapedMsg m` (the constructor of `rr.rd` matches the table row of `rr.ty`),
which the Rust enum enforces; the model's `.panic "field/value mismatch"` / `"unknown record type"`
outcomes exist only because the Lean value type is generic.

* `encode_no_panic`, `encode_ne_notEnoughBytes`, `encode_ne_maxRecursion`, `encode_ne_compression`
* `encode_error_kinds` (and `encodeRR_error_kinds`), `aplAddressLength_unreachable`, `encode_total`
* `encode_limits`
* `unrepresentable_err_*`
* known findings K3, K4a, K4b, K4c as theorems on concrete witnesses (not to be "fixed"). -/

namespace EncLim

/-! ## The entry points -/

theorem outOf_error {r : Except EErr Enc} {err : EErr} : outOf r = .error err ↔ r = .error err := by
  cases r <;> simp [outOf]

theorem outOf_ok {r : Except EErr Enc} {b : Bytes} : outOf r = .ok b ↔ ∃ e, r = .ok e ∧ e.out = b := by
  cases r <;> simp [outOf]

/-! ## No panic, no `NotEnoughBytes`, no `MaxRecursion`, no `Compression` -/

/-- the error `bad` is returned by no writer and no entry point, from any encoder state -/
def Never (bad : EErr) : Prop :=
  (∀ (e : Enc) (n : Name), encName e n ≠ .error bad) ∧
  (∀ (e : Enc) (q : Question), encQuestion e q ≠ .error bad) ∧
  (∀ (e : Enc) (rr : RR), Shaped rr → encRR e rr ≠ .error bad) ∧
  (∀ (e : Enc) (m : Msg), ShapedMsg m → encMsg e m ≠ .error bad) ∧
  (∀ n : Name, encodeName n ≠ .error bad) ∧
  (∀ q : Question, encodeQuestion q ≠ .error bad) ∧
  (∀ rr : RR, Shaped rr → encodeRR rr ≠ .error bad) ∧
  (∀ m : Msg, ShapedMsg m → encodeDns m ≠ .error bad)

theorem never_of_ne {bad : EErr} (h1 : bad ≠ .string) (h2 : bad ≠ .length)
    (h3 : bad ≠ .aplAddressLength) (h4 : bad ≠ .compression) : Never bad := by
  have key : ∀ {e S A1 A2 C sz}, ¬ Cause e bad S A1 A2 C sz := by
    intro e S A1 A2 C sz h
    rcases h with ⟨he, _⟩ | ⟨he, _⟩ | ⟨he, _⟩ | ⟨he, _⟩
    · exact h1 he
    · exact h2 he
    · exact h3 he
    · exact h4 he
  have a1 : ∀ (e : Enc) (n : Name), encName e n ≠ .error bad := fun e n h => key (encName_cause h)
  have a2 : ∀ (e : Enc) (q : Question), encQuestion e q ≠ .error bad :=
    fun e q h => key (encQuestion_cause h)
  have a3 : ∀ (e : Enc) (rr : RR), Shaped rr → encRR e rr ≠ .error bad :=
    fun e rr hs h => key (encRR_cause hs h)
  have a4 : ∀ (e : Enc) (m : Msg), ShapedMsg m → encMsg e m ≠ .error bad :=
    fun e m hs h => key (encMsg_cause hs h)
  exact ⟨a1, a2, a3, a4, fun n h => a1 {} n (outOf_error.mp h), fun q h => a2 {} q (outOf_error.mp h),
    fun rr hs h => a3 {} rr hs (outOf_error.mp h), fun m hs h => a4 {} m hs (outOf_error.mp h)⟩

/-- **C01 (encoder half) / C08: encoding never panics.** No writer and no public entry point
returns a `.panic` outcome, from ANY encoder state and for EVERY (shaped) value: the checked
subtractions `len - (index + 2)` / `len - (index + 1)` of the back-patches never underflow, and no
field/value mismatch is reachable. -/
theorem encode_no_panic (s : String) : Never (.panic s) :=
  never_of_ne (fun h => by cases h) (fun h => by cases h) (fun h => by cases h) (fun h => by cases h)

/-- `EncodeError::NotEnoughBytes` is unreachable (the index checks of `set_u16` / `set_u8`) -/
theorem encode_ne_notEnoughBytes : Never .notEnoughBytes :=
  never_of_ne (fun h => by cases h) (fun h => by cases h) (fun h => by cases h) (fun h => by cases h)

/-- `EncodeError::MaxRecursion` is unreachable -/
theorem encode_ne_maxRecursion : Never .maxRecursion :=
  never_of_ne (fun h => by cases h) (fun h => by cases h) (fun h => by cases h) (fun h => by cases h)

/-- `EncodeError::Compression` is unreachable from every state that satisfies the table invariant
(every reachable state: `reachable_inv`), in fact from every state whose table offsets are all
`≤ 0x3FFF`; in particular for the public entry points, which start from the fresh encoder. -/
theorem encode_ne_compression :
    (∀ (e : Enc), IdxLe e → ∀ n : Name, encName e n ≠ .error .compression) ∧
    (∀ (e : Enc), IdxLe e → ∀ q : Question, encQuestion e q ≠ .error .compression) ∧
    (∀ (e : Enc), IdxLe e → ∀ rr : RR, Shaped rr → encRR e rr ≠ .error .compression) ∧
    (∀ (e : Enc), IdxLe e → ∀ m : Msg, ShapedMsg m → encMsg e m ≠ .error .compression) ∧
    (∀ n : Name, encodeName n ≠ .error .compression) ∧
    (∀ q : Question, encodeQuestion q ≠ .error .compression) ∧
    (∀ rr : RR, Shaped rr → encodeRR rr ≠ .error .compression) ∧
    (∀ m : Msg, ShapedMsg m → encodeDns m ≠ .error .compression) := by
  have a1 : ∀ (e : Enc), IdxLe e → ∀ n : Name, encName e n ≠ .error .compression :=
    fun e hi n h => (encName_cause h).ne_compression hi rfl
  have a2 : ∀ (e : Enc), IdxLe e → ∀ q : Question, encQuestion e q ≠ .error .compression :=
    fun e hi q h => (encQuestion_cause h).ne_compression hi rfl
  have a3 : ∀ (e : Enc), IdxLe e → ∀ rr : RR, Shaped rr → encRR e rr ≠ .error .compression :=
    fun e hi rr hs h => (encRR_cause hs h).ne_compression hi rfl
  have a4 : ∀ (e : Enc), IdxLe e → ∀ m : Msg, ShapedMsg m → encMsg e m ≠ .error .compression :=
    fun e hi m hs h => (encMsg_cause hs h).ne_compression hi rfl
  exact ⟨a1, a2, a3, a4, fun n h => a1 {} IdxLe.empty n (outOf_error.mp h),
    fun q h => a2 {} IdxLe.empty q (outOf_error.mp h),
    fun rr hs h => a3 {} IdxLe.empty rr hs (outOf_error.mp h),
    fun m hs h => a4 {} IdxLe.empty m hs (outOf_error.mp h)⟩

/-- the form with the full table invariant, as used by the history proofs -/
theorem encMsg_ne_compression {S : Nat → Prop} {e : Enc} (hinv : EInv S e) {m : Msg}
    (hs : ShapedMsg m) : encMsg e m ≠ .error .compression :=
  encode_ne_compression.2.2.2.1 e (IdxLe.of_EInv hinv) m hs

/-! ## The error characterisation -/

/-- **C08: every error of `Dns::encode`, with its cause.** The only error kinds are `.string`,
`.length` and `.aplAddressLength`:
* `.string`: the value contains a label or character-string of more than 255 octets;
* `.aplAddressLength`: the value contains an APL address which, after dropping trailing zero
  octets, still has 128..255 octets;
* `.length`: a section has more than 65535 entries, or an APL address (stripped) has more than 255
  octets, or the message does not fit: its uncompressed size exceeds 65535 octets. The last case
  covers every remaining source of `.length` in the code – an RDATA / option / SvcParam window of
  more than 65535 octets, an `ech` of more than 65535, a label to be written at an offset above
  65535, the final size check – because in each of them more than 65535 octets had been (or were to
  be) written, and what is written is at most `msgSize m` octets. -/
theorem encode_error_kinds {m : Msg} {err : EErr} (hs : ShapedMsg m) (h : encodeDns m = .error err) :
    (err = .string ∧ ∃ s ∈ msgStrs m, 255 < s.length) ∨
    (err = .aplAddressLength ∧ ∃ it ∈ msgAplItems m,
      128 ≤ (stripZeros it.addr).length ∧ (stripZeros it.addr).length ≤ 255 ∧ 128 ≤ it.addr.length) ∨
    (err = .length ∧ (CountOver m ∨ (∃ it ∈ msgAplItems m, 255 < (stripZeros it.addr).length) ∨
      65535 < msgSize m)) := by
  rcases encMsg_cause hs (outOf_error.mp h) with ⟨he, hc⟩ | ⟨he, hc⟩ | ⟨he, it, hit, h1, h2⟩ | ⟨_, hn⟩
  · exact Or.inl ⟨he, hc⟩
  · refine Or.inr (Or.inr ⟨he, ?_⟩)
    rcases hc with hc | hc | hc
    · exact Or.inr (Or.inl hc)
    · exact Or.inl hc
    · exact Or.inr (Or.inr (by simpa using hc))
  · exact Or.inr (Or.inl ⟨he, it, hit, h1, h2, by have := stripZeros_length_le it.addr; omega⟩)
  · exact absurd IdxLe.empty hn

/-- `.aplAddressLength` (and the APL cause of `.length`) is unreachable when every APL address has
at most 127 octets – always true for the 4- and 16-octet addresses of the Rust types, because
`stripZeros` never lengthens -/
theorem aplAddressLength_unreachable {m : Msg} (hs : ShapedMsg m)
    (ha : ∀ it ∈ msgAplItems m, it.addr.length ≤ 127) :
    encodeDns m ≠ .error .aplAddressLength ∧
    (encodeDns m = .error .length → CountOver m ∨ 65535 < msgSize m) := by
  refine ⟨fun h => ?_, fun h => ?_⟩
  · rcases encode_error_kinds hs h with ⟨he, _⟩ | ⟨_, it, hit, _, _, h3⟩ | ⟨he, _⟩
    · cases he
    · have := ha it hit; omega
    · cases he
  · rcases encode_error_kinds hs h with ⟨he, _⟩ | ⟨he, _⟩ | ⟨_, hc | ⟨it, hit, hgt⟩ | hc⟩
    · cases he
    · cases he
    · exact Or.inl hc
    · have := ha it hit; have := stripZeros_length_le it.addr; omega
    · exact Or.inr hc

/-- **Totality**: a (shaped) message with no oversized string, no oversized APL address, no
oversized section and an uncompressed size of at most 65535 octets is encoded successfully. -/
theorem encode_total {m : Msg} (hs : ShapedMsg m) (hstr : ∀ s ∈ msgStrs m, s.length ≤ 255)
    (hapl : ∀ it ∈ msgAplItems m, (stripZeros it.addr).length ≤ 127) (hcnt : ¬ CountOver m)
    (hsz : msgSize m ≤ 65535) : ∃ b, encodeDns m = .ok b := by
  cases h : encodeDns m with
  | ok b => exact ⟨b, rfl⟩
  | error err =>
    exfalso
    rcases encode_error_kinds hs h with ⟨_, s, hm, hgt⟩ | ⟨_, it, hit, h1, _⟩ | ⟨_, hc | ⟨it, hit, hgt⟩ | hc⟩
    · have := hstr s hm; omega
    · have := hapl it hit; omega
    · exact hcnt hc
    · have := hapl it hit; omega
    · omega

/-- the same classification for `RR::encode` -/
theorem encodeRR_error_kinds {rr : RR} {err : EErr} (hs : Shaped rr) (h : encodeRR rr = .error err) :
    (err = .string ∧ ∃ s ∈ rrStrs rr, 255 < s.length) ∨
    (err = .aplAddressLength ∧ ∃ it ∈ rrAplItems rr,
      128 ≤ (stripZeros it.addr).length ∧ (stripZeros it.addr).length ≤ 255) ∨
    (err = .length ∧ ((∃ it ∈ rrAplItems rr, 255 < (stripZeros it.addr).length) ∨ 65535 < rrSize rr)) := by
  rcases encRR_cause hs (outOf_error.mp h) with ⟨he, hc⟩ | ⟨he, hc⟩ | ⟨he, hc⟩ | ⟨_, hn⟩
  · exact Or.inl ⟨he, hc⟩
  · refine Or.inr (Or.inr ⟨he, ?_⟩)
    rcases hc with hc | hc | hc
    · exact Or.inl hc
    · exact hc.elim
    · exact Or.inr (by simpa using hc)
  · exact Or.inr (Or.inl ⟨he, hc⟩)
  · exact absurd IdxLe.empty hn

/-- `Question::encode` and `DomainName::encode` -/
theorem encodeQuestion_error_kinds {q : Question} {err : EErr} (h : encodeQuestion q = .error err) :
    (err = .string ∧ ∃ l ∈ q.name, 255 < l.length) ∨ (err = .length ∧ 65535 < qSize q) := by
  rcases encQuestion_cause (outOf_error.mp h) with ⟨he, hc⟩ | ⟨he, hc⟩ | ⟨_, hc⟩ | ⟨_, hn⟩
  · exact Or.inl ⟨he, hc⟩
  · rcases hc with hc | hc | hc
    · exact hc.elim
    · exact hc.elim
    · exact Or.inr ⟨he, by simpa using hc⟩
  · exact hc.elim
  · exact absurd IdxLe.empty hn

theorem encodeName_error_kinds {n : Name} {err : EErr} (h : encodeName n = .error err) :
    (err = .string ∧ ∃ l ∈ n, 255 < l.length) ∨ (err = .length ∧ 65535 < Name.sz n + 1) := by
  rcases encName_cause (outOf_error.mp h) with ⟨he, hc⟩ | ⟨he, hc⟩ | ⟨_, hc⟩ | ⟨_, hn⟩
  · exact Or.inl ⟨he, hc⟩
  · rcases hc with hc | hc | hc
    · exact hc.elim
    · exact hc.elim
    · exact Or.inr ⟨he, by simpa using hc⟩
  · exact hc.elim
  · exact absurd IdxLe.empty hn

/-! ## The limits on success -/

/-- how `Encoder::domain_name` wrote the name `n` as the octets `nm`: a literal prefix of the name,
every label of it at most 255 octets, then the root octet (whole name written) or ONE pointer whose
target is at most `0x3FFF` -/
def NameWritten (nm : Bytes) (n : Name) : Prop :=
  ∃ pre post, n = pre ++ post ∧ (∀ l ∈ pre, l.length ≤ 255) ∧
    ((post = [] ∧ nm = labelsWire pre ++ [0]) ∨
     (post ≠ [] ∧ ∃ off, off ≤ 0x3FFF ∧ nm = labelsWire pre ++ ptrBytes off))

theorem nameWritten_of_encName {e e1 : Enc} {n : Name} {nm : Bytes} (h : encName e n = .ok e1)
    (hnm : e1.out = e.out ++ nm) : NameWritten nm n := by
  obtain ⟨pre, post, hs, hp, ho⟩ := encName_pointer_le h
  refine ⟨pre, post, hs, hp, ?_⟩
  rcases ho with ⟨hpost, ho⟩ | ⟨hpost, off, hoff, ho, _⟩
  · refine Or.inl ⟨hpost, ?_⟩
    rw [hnm, List.append_assoc] at ho
    exact List.append_cancel_left ho
  · refine Or.inr ⟨hpost, off, hoff, ?_⟩
    rw [hnm, List.append_assoc] at ho
    exact List.append_cancel_left ho

/-- **C08: what a successful `Dns::encode` guarantees.**
(a) at most 65535 octets;
(b) the output starts with ID, flags and the four count fields, which hold the TRUE section sizes,
    each `≤ 65535` (so `beVal` of the two octets is the size: not wrapped, not truncated);
(c) every record of the message occupies a segment `name ++ TYPE/CLASS/TTL ++ RDLENGTH ++ body` of
    the output where RDLENGTH holds the TRUE body length, which is `≤ 65535`; its owner name was
    written as a literal prefix plus root octet or a pointer with target `≤ 0x3FFF`; every
    character-string (and uncompressed label, `alpn` id) of it has at most 255 octets; every APL
    address fewer than 128; every SvcParam value at most 65535; every EDNS option at most 65535
    with its four header octets;
(d) every question occupies a segment `name ++ QTYPE ++ QCLASS`, same statement about the name. -/
theorem encode_limits {m : Msg} {b : Bytes} (hs : ShapedMsg m) (h : encodeDns m = .ok b) :
    b.length ≤ 65535 ∧
    (∃ rest, b = beBytes 2 m.id ++ flagsBytes m.flags ++ beBytes 2 m.qs.length ++
      beBytes 2 m.an.length ++ beBytes 2 m.ns.length ++ beBytes 2 m.ar.length ++ rest) ∧
    (m.qs.length ≤ 65535 ∧ m.an.length ≤ 65535 ∧ m.ns.length ≤ 65535 ∧ m.ar.length ≤ 65535) ∧
    (beVal (beBytes 2 m.qs.length) = m.qs.length ∧ beVal (beBytes 2 m.an.length) = m.an.length ∧
      beVal (beBytes 2 m.ns.length) = m.ns.length ∧ beVal (beBytes 2 m.ar.length) = m.ar.length) ∧
    (∀ rr ∈ msgRRs m, ∃ pre nm body post,
      b = pre ++ nm ++ rrFixed rr ++ beBytes 2 body.length ++ body ++ post ∧
      body.length ≤ 65535 ∧ beVal (beBytes 2 body.length) = body.length ∧
      NameWritten nm (rrOwner rr) ∧
      (∀ s ∈ rdataChecked rr, s.length ≤ 255) ∧
      (∀ it ∈ rrAplItems rr, (stripZeros it.addr).length < 128) ∧
      (∀ p ∈ rrSvcParams rr, (svcBody p).length ≤ 65535) ∧
      (∀ o ∈ rrOptions rr, (optionBody o).length + 4 ≤ 65535)) ∧
    (∀ q ∈ m.qs, ∃ pre nm post,
      b = pre ++ nm ++ beBytes 2 q.qtype ++ beBytes 2 q.qclass ++ post ∧ NameWritten nm q.name) := by
  obtain ⟨e', he, rfl⟩ := outOf_ok.mp h
  obtain ⟨hlen, hcnt, ⟨rest, hrest, _⟩, _, hq, hr⟩ := encMsg_ok hs he
  have hc : m.qs.length ≤ 65535 ∧ m.an.length ≤ 65535 ∧ m.ns.length ≤ 65535 ∧ m.ar.length ≤ 65535 := by
    unfold CountOver at hcnt; omega
  refine ⟨hlen, ⟨rest, by simpa [msgHeader] using hrest⟩, hc,
    ⟨beVal_beBytes2 hc.1, beVal_beBytes2 hc.2.1, beVal_beBytes2 hc.2.2.1, beVal_beBytes2 hc.2.2.2⟩,
    fun rr hrm => ?_, fun q hqm => ?_⟩
  · obtain ⟨ea, eb, _, _, ha, hw, hb⟩ := hr rr hrm
    obtain ⟨⟨e1, nm, body, hn, hnm, _, _, ho, hbl, _⟩, _, hchk, hapl, hsvc, hopt⟩ :=
      encRR_ok (hs rr hrm) hw
    obtain ⟨post, hpost⟩ := hb.ext
    obtain ⟨pre, hpre⟩ := ha.ext
    refine ⟨ea.out, nm, body, post, by rw [hpost, ho], hbl, beVal_beBytes2 hbl,
      nameWritten_of_encName hn hnm, hchk, hapl, hsvc, hopt⟩
  · obtain ⟨ea, eb, _, _, ha, hw, hb⟩ := hq q hqm
    obtain ⟨e1, nm, hn, hnm, _, _, ho, _⟩ := encQuestion_ok hw
    obtain ⟨post, hpost⟩ := hb.ext
    exact ⟨ea.out, nm, post, by rw [hpost, ho], nameWritten_of_encName hn hnm⟩

/-- `RR::encode` -/
theorem encodeRR_limits {rr : RR} {b : Bytes} (hs : Shaped rr) (h : encodeRR rr = .ok b) :
    ∃ nm body, b = nm ++ rrFixed rr ++ beBytes 2 body.length ++ body ∧
      body.length ≤ 65535 ∧ beVal (beBytes 2 body.length) = body.length ∧
      NameWritten nm (rrOwner rr) ∧
      (∀ s ∈ rdataChecked rr, s.length ≤ 255) ∧
      (∀ it ∈ rrAplItems rr, (stripZeros it.addr).length < 128) ∧
      (∀ p ∈ rrSvcParams rr, (svcBody p).length ≤ 65535) ∧
      (∀ o ∈ rrOptions rr, (optionBody o).length + 4 ≤ 65535) := by
  obtain ⟨e', he, rfl⟩ := outOf_ok.mp h
  obtain ⟨⟨e1, nm, body, hn, hnm, _, _, ho, hbl, _⟩, _, hchk, hapl, hsvc, hopt⟩ := encRR_ok hs he
  exact ⟨nm, body, by simpa using ho, hbl, beVal_beBytes2 hbl, nameWritten_of_encName hn hnm,
    hchk, hapl, hsvc, hopt⟩

/-! ## Output-length bookkeeping: the summary asked for in the task

Every COMPLETE writer leaves the old output alone (`e'.out.take e.out.length = e.out`, hence the
output only grows); the two back-patches keep the length and touch only their placeholder
(`setLen_frame`, `setAddrLen_frame`). -/

theorem take_of_step {e e' : Enc} {k : Nat} (h : Step e e' k) :
    e.out.length ≤ e'.out.length ∧ e'.out.take e.out.length = e.out := ⟨h.length_le, h.take⟩

theorem output_bookkeeping (e e' : Enc) :
    (∀ x, e.put x = e' → e.out.length ≤ e'.out.length ∧ e'.out.take e.out.length = e.out) ∧
    (∀ s, e.cstr s = .ok e' → e.out.length ≤ e'.out.length ∧ e'.out.take e.out.length = e.out) ∧
    (∀ l, encCstrs e l = .ok e' → e.out.length ≤ e'.out.length ∧ e'.out.take e.out.length = e.out) ∧
    (∀ n, encName e n = .ok e' → e.out.length ≤ e'.out.length ∧ e'.out.take e.out.length = e.out) ∧
    (∀ n, encNameU e n = .ok e' → e.out.length ≤ e'.out.length ∧ e'.out.take e.out.length = e.out) ∧
    (∀ f v, encField e f v = .ok e' → e.out.length ≤ e'.out.length ∧ e'.out.take e.out.length = e.out) ∧
    (∀ fs vs, encFields e fs vs = .ok e' →
      e.out.length ≤ e'.out.length ∧ e'.out.take e.out.length = e.out) ∧
    (∀ o, encOption e o = .ok e' → e.out.length ≤ e'.out.length ∧ e'.out.take e.out.length = e.out) ∧
    (∀ it, encApItem e it = .ok e' → e.out.length ≤ e'.out.length ∧ e'.out.take e.out.length = e.out) ∧
    (∀ p, encSvcParam e p = .ok e' → e.out.length ≤ e'.out.length ∧ e'.out.take e.out.length = e.out) ∧
    (∀ q, encQuestion e q = .ok e' → e.out.length ≤ e'.out.length ∧ e'.out.take e.out.length = e.out) ∧
    (∀ l, encOptions e l = .ok e' → e.out.length ≤ e'.out.length ∧ e'.out.take e.out.length = e.out) ∧
    (∀ l, encApItems e l = .ok e' → e.out.length ≤ e'.out.length ∧ e'.out.take e.out.length = e.out) ∧
    (∀ l, encSvcParams e l = .ok e' → e.out.length ≤ e'.out.length ∧ e'.out.take e.out.length = e.out) ∧
    (∀ l, encQuestions e l = .ok e' → e.out.length ≤ e'.out.length ∧ e'.out.take e.out.length = e.out) ∧
    (∀ l, (∀ rr ∈ l, Shaped rr) → encRRs e l = .ok e' →
      e.out.length ≤ e'.out.length ∧ e'.out.take e.out.length = e.out) ∧
    (∀ n, encCount e n = .ok e' → e.out.length ≤ e'.out.length ∧ e'.out.take e.out.length = e.out) ∧
    (∀ rr, Shaped rr → encRR e rr = .ok e' →
      e.out.length ≤ e'.out.length ∧ e'.out.take e.out.length = e.out) ∧
    (∀ m, ShapedMsg m → encMsg e m = .ok e' →
      e.out.length ≤ e'.out.length ∧ e'.out.take e.out.length = e.out) ∧
    (∀ li, setLen e li = .ok e' → e'.out.length = e.out.length ∧
      ∀ j, j < li ∨ li + 2 ≤ j → e'.out[j]? = e.out[j]?) ∧
    (∀ neg ali, setAddrLen e neg ali = .ok e' → e'.out.length = e.out.length ∧
      ∀ j, j < ali ∨ ali + 1 ≤ j → e'.out[j]? = e.out[j]?) :=
  ⟨fun x h => take_of_step (h ▸ Step.put e x),
   fun _ h => take_of_step (cstr_step h),
   fun _ h => take_of_step (encCstrs_step h),
   fun _ h => take_of_step (encName_step h),
   fun _ h => take_of_step (encNameU_step h),
   fun _ _ h => take_of_step (encField_ok h).1,
   fun _ _ h => take_of_step (encFields_ok _ _ _ _ h).1,
   fun _ h => take_of_step (encOption_step h),
   fun _ h => take_of_step (encApItem_step h),
   fun _ h => take_of_step (encSvcParam_step h),
   fun _ h => take_of_step (encQuestion_step h),
   fun _ h => take_of_step (encOptions_step h),
   fun _ h => take_of_step (encApItems_step h),
   fun _ h => take_of_step (encSvcParams_step h),
   fun _ h => take_of_step (encQuestions_ok h).1,
   fun _ hs h => take_of_step (encRRs_ok hs h).1,
   fun n h => take_of_step ((encCount_ok h).2.1 ▸ Step.put e (beBytes 2 n)),
   fun _ hs h => take_of_step (encRR_step hs h),
   fun _ hs h => take_of_step (encMsg_step hs h),
   fun _ h => ⟨(setLen_frame h).1, (setLen_frame h).2.2⟩,
   fun _ _ h => ⟨(setAddrLen_frame h).1, (setAddrLen_frame h).2.2⟩⟩

/-! ## The converse: unrepresentable values are refused -/

/-- a section of more than 65535 entries: `.length`, from every state, before anything of any
section is written (no premise at all) -/
theorem unrepresentable_err_section (e : Enc) {m : Msg} (h : CountOver m) :
    encMsg e m = .error .length := by
  rw [encMsg_eq, if_pos h]

theorem unrepresentable_err_section' {m : Msg} (h : CountOver m) : encodeDns m = .error .length := by
  unfold encodeDns; rw [unrepresentable_err_section {} h]; rfl

/-- a message of more than 65535 octets: `.length` -/
theorem unrepresentable_err_message (e : Enc) {m : Msg} {e' : Enc}
    (hb : msgBody m (e.put (msgHeader m)) = .ok e') (h : 65535 < e'.out.length) :
    encMsg e m = .error .length := by
  rw [encMsg_eq]
  split
  · rfl
  · simp only [hb, if_pos h]

/-- a character-string (uncompressed label, `alpn` id of a ServiceMode record) of more than 255
octets anywhere in the message: an error -/
theorem unrepresentable_err_string {m : Msg} (hs : ShapedMsg m)
    (h : ∃ rr ∈ msgRRs m, ∃ s ∈ rdataChecked rr, 255 < s.length) : ∃ err, encodeDns m = .error err := by
  cases hr : encodeDns m with
  | error err => exact ⟨err, rfl⟩
  | ok b =>
    obtain ⟨rr, hrm, s, hsm, hgt⟩ := h
    obtain ⟨_, _, _, _, _, _, _, _, hchk, _⟩ := (encode_limits hs hr).2.2.2.2.1 rr hrm
    have := hchk s hsm; omega

/-- an APL address of 128 or more octets (after stripping trailing zeros): an error -/
theorem unrepresentable_err_apl {m : Msg} (hs : ShapedMsg m)
    (h : ∃ it ∈ msgAplItems m, 128 ≤ (stripZeros it.addr).length) : ∃ err, encodeDns m = .error err := by
  cases hr : encodeDns m with
  | error err => exact ⟨err, rfl⟩
  | ok b =>
    obtain ⟨it, hit, hgt⟩ := h
    simp only [msgAplItems, List.mem_flatMap] at hit
    obtain ⟨rr, hrm, hit⟩ := hit
    obtain ⟨_, _, _, _, _, _, _, _, _, hapl, _⟩ := (encode_limits hs hr).2.2.2.2.1 rr hrm
    have := hapl it hit; omega

/-- a SvcParam value of more than 65535 octets (e.g. an `ech` of more than 65533 octets) in a
ServiceMode record: an error -/
theorem unrepresentable_err_svcparam {m : Msg} (hs : ShapedMsg m)
    (h : ∃ rr ∈ msgRRs m, ∃ p ∈ rrSvcParams rr, 65535 < (svcBody p).length) :
    ∃ err, encodeDns m = .error err := by
  cases hr : encodeDns m with
  | error err => exact ⟨err, rfl⟩
  | ok b =>
    obtain ⟨rr, hrm, p, hp, hgt⟩ := h
    obtain ⟨_, _, _, _, _, _, _, _, _, _, hsvc, _⟩ := (encode_limits hs hr).2.2.2.2.1 rr hrm
    have := hsvc p hp; omega

/-- an EDNS option (any kind) of more than 65535 octets with its four header octets: an error -/
theorem unrepresentable_err_option {m : Msg} (hs : ShapedMsg m)
    (h : ∃ rr ∈ msgRRs m, ∃ o ∈ rrOptions rr, 65535 < (optionBody o).length + 4) :
    ∃ err, encodeDns m = .error err := by
  cases hr : encodeDns m with
  | error err => exact ⟨err, rfl⟩
  | ok b =>
    obtain ⟨rr, hrm, o, ho, hgt⟩ := h
    obtain ⟨_, _, _, _, _, _, _, _, _, _, _, hopt⟩ := (encode_limits hs hr).2.2.2.2.1 rr hrm
    have := hopt o ho; omega

/-- the exact error kinds of the item writers (from every state): see `encOption_eq`,
`encApItem_eq`, `encSvcParam_eq`, `cstr_eq`, `encCstrs_eq`, `encRR_window_too_long` -/
theorem unrepresentable_err_items (e : Enc) :
    (∀ s : Bytes, 255 < s.length → e.cstr s = .error .string) ∧
    (∀ o, isPadding o = false → 65535 < (optionBody o).length → encOption e o = .error .length) ∧
    (∀ it : APItem, 255 < (stripZeros it.addr).length → encApItem e it = .error .length) ∧
    (∀ it : APItem, 128 ≤ (stripZeros it.addr).length → (stripZeros it.addr).length ≤ 255 →
      encApItem e it = .error .aplAddressLength) ∧
    (∀ p, (∃ s ∈ svcStrs p, 255 < s.length) → encSvcParam e p = .error .string) ∧
    (∀ p, (¬ ∃ s ∈ svcStrs p, 255 < s.length) → 65535 < (svcBody p).length →
      encSvcParam e p = .error .length) ∧
    (∀ b : Bytes, 65535 < b.length → encSvcParam e (.ech b) = .error .length) := by
  refine ⟨fun s h => cstr_long e h, fun o hp h => ?_, fun it h => ?_, fun it h1 h2 => ?_,
    fun p h => ?_, fun p hn h => ?_, fun b h => ?_⟩
  · rw [encOption_eq, if_pos ⟨hp, h⟩]
  · rw [encApItem_eq, if_pos h]
  · rw [encApItem_eq, if_neg (by omega), if_pos h1]
  · rw [encSvcParam_eq, if_pos h]
  · rw [encSvcParam_eq, if_neg hn, if_pos h]
  · rw [encSvcParam_eq, if_neg (by simp [svcStrs]), if_pos (by simp [svcBody]; omega)]

/-! ## Known findings, as theorems on concrete witnesses (these are NOT to be "fixed")

They are exactly the value classes that `encode_limits` cannot exclude: the encoder returns `Ok`,
within all wire limits, but the octets mean something else. -/

/-- all-false flags, opcode 0, rcode 16 (`BADVERS`) -/
def k3Flags : Flags :=
  { qr := false, opcode := 0, aa := false, tc := false, rd := false, ra := false, ad := false,
    cd := false, rcode := 16 }

/-- **K3**: `Flags { rcode: 16.. }` – `buffer |= rcode as u8` sets the CD bit and leaves a wrong
RCODE nibble: rcode 16 with `cd = false` gives the octets `00 10`, the same as rcode 0 with
`cd = true`. -/
theorem K3_rcode16 :
    flagsBytes k3Flags = [0, 0x10] ∧
    flagsBytes { k3Flags with cd := true, rcode := 0 } = [0, 0x10] := by decide

/-- … and so for all of 16..=23 (`BADVERS`..`BADCOOKIE`) -/
theorem K3_rcode16_23 : ∀ r : Fin 8,
    flagsBytes { k3Flags with rcode := 16 + r.val } =
    flagsBytes { k3Flags with cd := true, rcode := r.val } := by decide

/-- **K4a**: `ServiceParameter::PRIVATE { number: 3, .. }` is written exactly like `port` (for every
port, from every state) … -/
theorem K4a_priv_as_port (e : Enc) (p : Nat) :
    encSvcParam e (.priv 3 (beBytes 2 p)) = encSvcParam e (.port p) := by
  rw [encSvcParam_eq, encSvcParam_eq]
  simp [svcStrs, svcBody, svcWire, SvcParam.key]

/-- … witness: an SVCB record with `.priv 3 [0, 80]` and one with `.port 80` -/
theorem K4a_witness :
    encodeRR ⟨[], 64, 1, 0, .svcb 1 [] [.priv 3 [0, 80]]⟩ =
    encodeRR ⟨[], 64, 1, 0, .svcb 1 [] [.port 80]⟩ ∧
    (RR.mk [] 64 1 0 (.svcb 1 [] [.priv 3 [0, 80]])) ≠ ⟨[], 64, 1, 0, .svcb 1 [] [.port 80]⟩ :=
  ⟨rfl, by decide⟩

/-- **K4b**: the parameters of an alias-form record (`prio = 0`) are dropped, from every state -/
theorem K4b_alias_drops_params (e : Enc) (name : Name) (cls ttl : Nat) (target : Name)
    (params : List SvcParam) :
    encRR e ⟨name, 64, cls, ttl, .svcb 0 target params⟩ =
    encRR e ⟨name, 64, cls, ttl, .svcb 0 target []⟩ ∧
    encRR e ⟨name, 65, cls, ttl, .svcb 0 target params⟩ =
    encRR e ⟨name, 65, cls, ttl, .svcb 0 target []⟩ := by
  constructor <;> simp [encRR, rrKind]

theorem K4b_witness :
    encodeRR ⟨[], 64, 1, 0, .svcb 0 [[97]] [.port 80]⟩ = encodeRR ⟨[], 64, 1, 0, .svcb 0 [[97]] []⟩ ∧
    encodeRR ⟨[], 64, 1, 0, .svcb 0 [[97]] []⟩ =
      .ok [0, 0, 64, 0, 1, 0, 0, 0, 0, 0, 5, 0, 0, 1, 97, 0] := ⟨rfl, rfl⟩

/-- **K4c**: a GPOS record with an empty `longitude` encodes successfully, to octets that the
library's own decoder rejects with `DecodeError::GPOS` -/
theorem K4c_gpos_empty :
    Shaped ⟨[], 27, 1, 0, .fields [.bytes [], .bytes [49], .bytes [50]]⟩ ∧
    encodeRR ⟨[], 27, 1, 0, .fields [.bytes [], .bytes [49], .bytes [50]]⟩ =
      .ok [0, 0, 27, 0, 1, 0, 0, 0, 0, 0, 5, 0, 1, 49, 1, 50] ∧
    decodeRR [0, 0, 27, 0, 1, 0, 0, 0, 0, 0, 5, 0, 1, 49, 1, 50] = .error .gpos :=
  ⟨by decide, rfl, rfl⟩

/-! ## Non-vacuity -/

/-- a response with a question, an MX answer, and OPT (cookie), APL and HTTPS additionals -/
def exMsg : Msg :=
  { id := 0x1234,
    flags := { qr := true, opcode := 0, aa := false, tc := false, rd := true, ra := true, ad := false,
               cd := false, rcode := 0 },
    qs := [⟨[[97], [98]], 15, 1⟩],
    an := [⟨[[97], [98]], 15, 1, 300, .fields [.num 10, .name [[109], [97], [98]]]⟩],
    ns := [],
    ar := [⟨[], 41, 0, 0, .opt 1232 0 0 false [.cookie [1, 2, 3, 4, 5, 6, 7, 8] none]⟩,
           ⟨[[97], [98]], 42, 1, 60, .apl [⟨1, 8, true, [10, 0, 0, 0]⟩]⟩,
           ⟨[[97], [98]], 65, 1, 60, .svcb 1 [] [.alpn [[104, 50]], .port 443]⟩] }

set_option maxRecDepth 8192 in
/-- hypotheses of `encode_limits` (and of `encode_total`) -/
example : ShapedMsg exMsg ∧ encodeDns exMsg = .ok
    [18, 52, 129, 128, 0, 1, 0, 1, 0, 0, 0, 3, 1, 97, 1, 98, 0, 0, 15, 0, 1, 192, 12, 0, 15, 0, 1, 0, 0,
     1, 44, 0, 6, 0, 10, 1, 109, 192, 12, 0, 0, 41, 4, 208, 0, 0, 0, 0, 0, 12, 0, 10, 0, 8, 1, 2, 3, 4, 5,
     6, 7, 8, 192, 12, 0, 42, 0, 1, 0, 0, 0, 60, 0, 5, 0, 1, 8, 129, 10, 192, 12, 0, 65, 0, 1, 0, 0, 0, 60,
     0, 16, 0, 1, 0, 0, 1, 0, 3, 2, 104, 50, 0, 3, 0, 2, 1, 187] ∧
    msgSize exMsg = 119 ∧ ¬ CountOver exMsg := ⟨by decide, rfl, rfl, by decide⟩

set_option maxRecDepth 8192 in
/-- `encode_error_kinds`, `.string`: a TXT string of 256 octets -/
example : ShapedMsg { exMsg with an := [⟨[], 16, 1, 0, .fields [.strs [List.replicate 256 0]]⟩] } ∧
    encodeDns { exMsg with an := [⟨[], 16, 1, 0, .fields [.strs [List.replicate 256 0]]⟩] } =
      .error .string := ⟨by decide, rfl⟩

set_option maxRecDepth 8192 in
/-- `encode_error_kinds`, `.aplAddressLength` / `.length`: APL addresses of 128 and 256 non-zero
octets (the Rust address types have 4 or 16) -/
example :
    encodeRR ⟨[], 42, 1, 0, .apl [⟨1, 8, false, List.replicate 128 1⟩]⟩ = .error .aplAddressLength ∧
    encodeRR ⟨[], 42, 1, 0, .apl [⟨1, 8, false, List.replicate 256 1⟩]⟩ = .error .length := ⟨rfl, rfl⟩

/-- `unrepresentable_err_option`: a padding option of 65532 or more octets (its own length field
is written unchecked by the model, but the RDLENGTH back-patch refuses the record) -/
example (e : Enc) (n : Nat) (h : 65532 ≤ n) :
    ∃ err, encRR e ⟨[], 41, 0, 0, .opt 0 0 0 false [.padding n]⟩ = .error err :=
  encRR_long_option e (rr := ⟨[], 41, 0, 0, .opt 0 0 0 false [.padding n]⟩) rfl
    ⟨.padding n, List.Mem.head _, by simp [optionBody]; omega⟩

/-- `unrepresentable_err_section`: 65536 questions -/
example (q : Question) : CountOver { exMsg with qs := List.replicate 65536 q } :=
  Or.inl (by show 65535 < (List.replicate 65536 q).length; rw [List.length_replicate]; omega)

/-- `encRR_window_too_long` / `setLen_window`: a NULL record with 65536 octets of data -/
example (e : Enc) (pre ph body : Bytes) (hph : ph.length = 2) (hb : body.length = 65536) :
    setLen { e with out := pre ++ ph ++ body } pre.length = .error .length := by
  rw [setLen_window _ pre ph body hph rfl, if_pos (by omega)]

end EncLim
