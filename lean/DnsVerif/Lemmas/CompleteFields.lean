import DnsVerif.Spec.Wire
import DnsVerif.Lemmas.DecPrim
import DnsVerif.Lemmas.NameComplete
import DnsVerif.Lemmas.BeBytes

/-! # Decoder completeness against the wire grammar, part 1: primitives and regular fields (C04)

Whenever a relation of `Spec/Wire.lean` holds on a buffer, the model decoder started at that offset
with that window returns EXACTLY that value and leaves the cursor at the relation's end offset.
This file: `BytesAt` algebra, forward lemmas for the primitives (`num`, `cstr`, `cstrs`, `rest`,
`octs`, names), `decField_complete`, `decFields_complete`. All statements are generic in `bk`
(`maxHops bk ≤ 17`), and the weakening lemmas `XAt buf true … → XAt buf false …` are in
`CompleteMsg.lean`. -/

namespace Complete

/-! ## `BytesAt` -/

theorem bytesAt_nil (buf : Bytes) (off : Nat) : BytesAt buf off [] := fun i hi => by simp at hi

theorem bytesAt_append {buf : Bytes} {o : Nat} {x y : Bytes} :
    BytesAt buf o (x ++ y) ↔ BytesAt buf o x ∧ BytesAt buf (o + x.length) y := by
  constructor
  · intro hxy
    constructor
    · intro i hi
      rw [hxy i (by simp; omega), List.getElem?_append_left hi]
    · intro i hi
      have := hxy (x.length + i) (by simp; omega)
      rw [show o + x.length + i = o + (x.length + i) by omega, this,
        List.getElem?_append_right (by omega)]
      congr 1; omega
  · rintro ⟨hx, hy⟩ i hi
    by_cases h : i < x.length
    · rw [hx i h, List.getElem?_append_left h]
    · have := hy (i - x.length) (by simp at hi; omega)
      rw [List.getElem?_append_right (by omega), ← this]; congr 1; omega

/-- a non-empty slice lies inside the buffer -/
theorem bytesAt_le {buf : Bytes} {o : Nat} {x : Bytes} (h : BytesAt buf o x) (hx : 0 < x.length) :
    o + x.length ≤ buf.length := by
  obtain ⟨n, hn⟩ : ∃ n, x.length = n + 1 := ⟨x.length - 1, by omega⟩
  have h1 := h n (by omega)
  rw [List.getElem?_eq_getElem (l := x) (by omega)] at h1
  have := getElem?_some_lt h1
  omega

theorem bytesAt_singleton {buf : Bytes} {o : Nat} {b : UInt8} : BytesAt buf o [b] ↔ buf[o]? = some b := by
  constructor
  · intro h; simpa using h 0 (by simp)
  · intro h i hi
    have : i = 0 := by simpa using hi
    subst this; simpa using h

/-- the slice of the buffer at a `BytesAt` is the list -/
theorem take_drop_of_bytesAt {buf : Bytes} {off n : Nat} {x : Bytes} (hx : BytesAt buf off x)
    (hn : n = x.length) (hlen : off + n ≤ buf.length) : (buf.drop off).take n = x := by
  subst hn; exact take_drop_eq hlen hx

/-! ## Primitives -/

theorem read_of_bytesAt {buf : Bytes} {off lim c : Nat} {x : Bytes} (hx : BytesAt buf off x)
    (hl : off + x.length ≤ lim) (hlb : lim ≤ buf.length) (hB : buf.length < 2 ^ 63) :
    D.read { buf := buf, off := off, lim := lim, cost := c } x.length =
      .ok (x, { buf := buf, off := off + x.length, lim := lim, cost := c + x.length }) :=
  read_at_eq hl hlb hB hx

/-- a `w`-octet big-endian number on the wire is read back exactly -/
theorem num_of_bytesAt {buf : Bytes} {off lim c w n : Nat} (hx : BytesAt buf off (beBytes w n))
    (hn : n < 256 ^ w) (hl : off + w ≤ lim) (hlb : lim ≤ buf.length) (hB : buf.length < 2 ^ 63) :
    D.num { buf := buf, off := off, lim := lim, cost := c } w =
      .ok (n, { buf := buf, off := off + w, lim := lim, cost := c + w }) := by
  have := read_of_bytesAt (c := c) hx (by simpa using hl) hlb hB
  simp only [beBytes_length] at this
  unfold D.num
  rw [this]
  simp only [Be.beVal_beBytes hn]

/-- one octet read as a number -/
theorem num1_of_getElem {buf : Bytes} {off lim c : Nat} {b : UInt8} (hb : buf[off]? = some b)
    (hl : off + 1 ≤ lim) (hlb : lim ≤ buf.length) (hB : buf.length < 2 ^ 63) :
    D.num { buf := buf, off := off, lim := lim, cost := c } 1 =
      .ok (b.toNat, { buf := buf, off := off + 1, lim := lim, cost := c + 1 }) := by
  have := read_of_bytesAt (c := c) (x := [b]) (bytesAt_singleton.mpr hb) (by simpa using hl) hlb hB
  simp only [List.length_cons, List.length_nil, Nat.zero_add] at this
  unfold D.num
  rw [this]
  simp only [Be.beVal_singleton]

theorem rest_of_bytesAt {buf : Bytes} {off lim c : Nat} {b : Bytes} (hb : BytesAt buf off b)
    (hl : off + b.length = lim) (hlb : lim ≤ buf.length) :
    D.rest { buf := buf, off := off, lim := lim, cost := c } =
      .ok (b, { buf := buf, off := lim, lim := lim, cost := c + b.length }) := by
  rw [rest_at (by simp only; omega)]
  simp only
  rw [take_drop_of_bytesAt hb (by omega) (by omega)]
  congr 3; omega

theorem cstr_of {buf : Bytes} {off lim c e : Nat} {s : Bytes} (h : CStrAt buf off s e)
    (hu : validUtf8 s = true) (hl : e ≤ lim) (hlb : lim ≤ buf.length) (hB : buf.length < 2 ^ 63) :
    D.cstr { buf := buf, off := off, lim := lim, cost := c } =
      .ok (s, { buf := buf, off := e, lim := lim, cost := c + 1 + s.length }) := by
  obtain ⟨h1, h2, h3, h4⟩ := h
  subst h4
  exact cstr_at (by omega) h2 h3 hu hl hlb hB

theorem CStrAt.lt {buf : Bytes} {off e : Nat} {s : Bytes} (h : CStrAt buf off s e) : off < e := by
  have := h.2.2.2; omega

theorem CStrsAt.le {buf : Bytes} {lim off : Nat} {l : List Bytes} (h : CStrsAt buf lim off l) : off ≤ lim := by
  induction h with
  | nil => exact Nat.le_refl _
  | cons h1 _ _ _ _ _ => omega

/-- `while !is_finished { string() }` on a window filled exactly by character-strings -/
theorem cstrs_of {buf : Bytes} {lim : Nat} (hlb : lim ≤ buf.length) (hB : buf.length < 2 ^ 63)
    {off : Nat} {l : List Bytes} (h : CStrsAt buf lim off l) :
    ∀ (fuel c : Nat), lim - off < fuel →
      ∃ c', D.cstrs fuel { buf := buf, off := off, lim := lim, cost := c } =
        .ok (l, { buf := buf, off := lim, lim := lim, cost := c' }) := by
  induction h with
  | nil =>
    intro fuel c hf
    cases fuel with
    | zero => omega
    | succ fuel =>
      refine ⟨c, ?_⟩
      unfold D.cstrs
      rw [isFinished_at (Nat.le_refl _)]
      simp
  | @cons off s e r hlt hs hel hu hr ih =>
    intro fuel c hf
    cases fuel with
    | zero => omega
    | succ fuel =>
      have hlt' := CStrAt.lt hs
      obtain ⟨c', hc'⟩ := ih fuel (c + 1 + s.length) (by omega)
      refine ⟨c', ?_⟩
      unfold D.cstrs
      rw [isFinished_at (by simp only; omega)]
      have hne : ¬ (off = lim) := by omega
      simp only [hne, decide_false]
      rw [cstr_of hs hu hel hlb hB]
      simp only [hc']

/-- `reads` reads of `chunk` octets -/
theorem octs_of {buf : Bytes} {lim : Nat} (hlb : lim ≤ buf.length) (hB : buf.length < 2 ^ 63) :
    ∀ (k chunk off c : Nat) (b : Bytes), b.length = k * chunk → BytesAt buf off b → off + k * chunk ≤ lim →
      D.octs k chunk { buf := buf, off := off, lim := lim, cost := c } =
        .ok (b, { buf := buf, off := off + k * chunk, lim := lim, cost := c + k * chunk }) := by
  intro k
  induction k with
  | zero =>
    intro chunk off c b hlen _ _
    have : b = [] := by simpa using hlen
    subst this
    simp [D.octs]
  | succ k ih =>
    intro chunk off c b hlen hb hl
    have hmul : (k + 1) * chunk = chunk + k * chunk := by rw [Nat.add_mul]; omega
    rw [hmul] at hlen hl
    have hsplit : b = b.take chunk ++ b.drop chunk := (List.take_append_drop _ _).symm
    have hlt : (b.take chunk).length = chunk := by rw [List.length_take]; omega
    have hld : (b.drop chunk).length = k * chunk := by rw [List.length_drop]; omega
    rw [hsplit, bytesAt_append, hlt] at hb
    have hr := read_of_bytesAt (c := c) (lim := lim) hb.1 (by omega) hlb hB
    rw [hlt] at hr
    unfold D.octs
    rw [hr]
    simp only
    rw [ih chunk (off + chunk) (c + chunk) (b.drop chunk) hld hb.2 (by omega)]
    simp only [List.take_append_drop]
    rw [hmul]
    congr 3 <;> omega

/-! ## Names -/

theorem maxHops_le (bk : Bool) : maxHops bk ≤ 17 := by cases bk <;> simp [maxHops]

theorem NameRefAt.lt {buf : Bytes} {bk : Bool} {off e : Nat} {n : Name} (h : NameRefAt buf bk off n e) :
    off < e := by
  obtain ⟨_, hn, _⟩ := h; exact hn.end_gt

theorem NameRefAt.le_length {buf : Bytes} {bk : Bool} {off e : Nat} {n : Name} (h : NameRefAt buf bk off n e) :
    e ≤ buf.length := by
  obtain ⟨_, hn, _⟩ := h; exact hn.end_le

/-- names of the grammar within the crate's limits are decoded exactly (through `name_complete`) -/
theorem name_of {buf : Bytes} {bk : Bool} {off e lim c : Nat} {n : Name} (h : NameRefAt buf bk off n e)
    (he : e ≤ lim) (hlb : lim ≤ buf.length) (hB : buf.length < 2 ^ 63) :
    ∃ c', D.name { buf := buf, off := off, lim := lim, cost := c } =
      .ok (n, { buf := buf, off := e, lim := lim, cost := c' }) := by
  obtain ⟨hops, hn, hh, hutf, hsz⟩ := h
  exact ⟨_, name_complete hn (Nat.le_trans hh (maxHops_le bk)) hutf hsz he hlb hB⟩

/-! ## Fields -/

theorem FieldAt.le {buf bk lim off f v e} (h : FieldAt buf bk lim off f v e) : off ≤ e ∧ e ≤ lim := by
  cases h with
  | num _ _ h => exact ⟨by omega, h⟩
  | enum _ _ _ h => exact ⟨by omega, h⟩
  | name hn h => exact ⟨Nat.le_of_lt (NameRefAt.lt hn), h⟩
  | cstr hs h _ _ => exact ⟨Nat.le_of_lt (CStrAt.lt hs), h⟩
  | ocstrNone => exact ⟨Nat.le_refl _, Nat.le_refl _⟩
  | ocstrSome _ hs h _ _ => exact ⟨Nat.le_of_lt (CStrAt.lt hs), h⟩
  | strs _ hs => exact ⟨CStrsAt.le hs, Nat.le_refl _⟩
  | rest _ h _ => exact ⟨by omega, Nat.le_refl _⟩
  | oct _ _ h => exact ⟨by omega, h⟩

theorem FieldsAt.le {buf bk lim off fs vs} (h : FieldsAt buf bk lim off fs vs) : off ≤ lim := by
  induction h with
  | nil => exact Nat.le_refl _
  | cons hf _ ih => have := (FieldAt.le hf).1; omega

/-- **every field kind**: the field decoder returns exactly the value of the grammar -/
theorem decField_complete {buf : Bytes} {bk : Bool} {lim off e c : Nat} {f : Fld} {v : FVal}
    (h : FieldAt buf bk lim off f v e) (hlb : lim ≤ buf.length) (hB : buf.length < 2 ^ 63) :
    ∃ c', decField { buf := buf, off := off, lim := lim, cost := c } f =
      .ok (v, { buf := buf, off := e, lim := lim, cost := c' }) := by
  cases h with
  | @num _ w n hn hb hl =>
    refine ⟨c + w, ?_⟩
    simp only [decField, num_of_bytesAt hb hn hl hlb hB]
  | @enum _ w id n hn hv hb hl =>
    refine ⟨c + w, ?_⟩
    simp only [decField, num_of_bytesAt hb hn hl hlb hB, hv, if_true]
  | name hn hl =>
    obtain ⟨c', hc'⟩ := name_of (c := c) hn hl hlb hB
    exact ⟨c', by simp only [decField, hc']⟩
  | @cstr _ ck s v' _ hs hl hu hr =>
    refine ⟨c + 1 + s.length, ?_⟩
    simp only [decField, cstr_of hs hu hl hlb hB, hr]
  | ocstrNone =>
    refine ⟨c, ?_⟩
    simp only [decField]
    rw [isFinished_at (Nat.le_refl _)]
    simp
  | @ocstrSome _ ck s v' _ hlt hs hl hu hr =>
    refine ⟨c + 1 + s.length, ?_⟩
    simp only [decField]
    rw [isFinished_at (by simp only; omega)]
    have hne : ¬ (off = lim) := by omega
    simp only [hne, decide_false, cstr_of hs hu hl hlb hB, hr]
  | @strs _ l hne hs =>
    obtain ⟨c', hc'⟩ := cstrs_of hlb hB hs (lim - off + 1) c (by omega)
    refine ⟨c', ?_⟩
    simp only [decField, hc']
    cases l with
    | nil => exact absurd rfl hne
    | cons a r => simp
  | @rest _ u b hb hl hu =>
    refine ⟨c + b.length, ?_⟩
    simp only [decField, rest_of_bytesAt hb hl hlb]
    cases u with
    | false => simp
    | true => simp [hu rfl]
  | @oct _ k ch b hlen hb hl =>
    refine ⟨c + k * ch, ?_⟩
    simp only [decField, octs_of hlb hB k ch off c b hlen hb hl]

/-- the fields of a record fill the window exactly: the cursor ends at `lim` -/
theorem decFields_complete {buf : Bytes} {bk : Bool} {lim : Nat} (hlb : lim ≤ buf.length)
    (hB : buf.length < 2 ^ 63) {off : Nat} {fs : List Fld} {vs : List FVal}
    (h : FieldsAt buf bk lim off fs vs) :
    ∀ c, ∃ c', decFields { buf := buf, off := off, lim := lim, cost := c } fs =
      .ok (vs, { buf := buf, off := lim, lim := lim, cost := c' }) := by
  induction h with
  | nil => intro c; exact ⟨c, rfl⟩
  | cons hf _ ih =>
    intro c
    obtain ⟨c1, h1⟩ := decField_complete (c := c) hf hlb hB
    obtain ⟨c2, h2⟩ := ih c1
    exact ⟨c2, by simp only [decFields, h1, h2]⟩

/-! ## Non-vacuity: the RDATA of `MX 10 a.<ptr to 0>` and of a TXT record -/

private def exBuf : Bytes := [3, 119, 119, 119, 0, 0, 10, 1, 97, 192, 0, 2, 104, 105, 0]

private theorem exName : NameRefAt exBuf true 7 [[97], [119, 119, 119]] 11 :=
  ⟨1, .label (len := 1) (by decide) (by decide) (by decide) (by decide) (by decide)
    (.ptr (a := 192) (b := 0) (by decide) (by decide) (by decide) (by decide)
      (.label (len := 3) (by decide) (by decide) (by decide) (by decide) (by decide) (.root (by decide)))),
    by decide, by decide, by decide⟩

private theorem exFields : FieldsAt exBuf true 11 5 [.num 2, .name true]
    [.num 10, .name [[97], [119, 119, 119]]] :=
  .cons (.num (by decide) (by unfold BytesAt; decide) (by decide)) (.cons (.name exName (by decide)) .nil)

example : ∃ c', decFields { buf := exBuf, off := 5, lim := 11, cost := 0 } [.num 2, .name true] =
    .ok ([.num 10, .name [[97], [119, 119, 119]]], { buf := exBuf, off := 11, lim := 11, cost := c' }) :=
  decFields_complete (by decide) (by simp [exBuf]) exFields 0

private theorem exTxt : FieldAt exBuf true 15 11 .strs (.strs [[104, 105], []]) 15 :=
  .strs (by simp)
    (.cons (e := 14) (by decide) ⟨by decide, by decide, by unfold BytesAt; decide, by decide⟩ (by decide) (by decide)
      (.cons (e := 15) (by decide) ⟨by decide, by decide, by unfold BytesAt; decide, by decide⟩ (by decide)
        (by decide) .nil))

example : ∃ c', decField { buf := exBuf, off := 11, lim := 15, cost := 0 } .strs =
    .ok (.strs [[104, 105], []], { buf := exBuf, off := 15, lim := 15, cost := c' }) :=
  decField_complete exTxt (by decide) (by simp [exBuf])

end Complete
