import DnsVerif.Lemmas.EncInv

/-! # The name writers: error classification, totality, size, the uncompressed writer,
and the invariant over every history (property C06)

New theorems (not in the prototypes):
* `encNameGo_error_cases` / `encName_error`: the only errors of `Encoder::domain_name` are
  `.length` (a label is written literally at an offset `> 65535`), `.string` (a label longer than
  255 octets, impossible for well-formed names) and `.compression` (a table entry with an offset
  `> 0x3FFF`, impossible under the invariant); `.maxRecursion`, `.panic _`, … never.
* `encName_total`: no error when every label is written at an offset `≤ 65535`.
* `encName_size_le`: between 1 and `Name.sz n + 1` octets are appended.
* `encNameU_spec` and friends for `Encoder::domain_name_uncompressed`.
* `Reach` / `reachable_inv`: the invariant holds after every finite history of writer steps. -/

/-! ## Error classification of `encNameGo` -/

/-- Every error of the compressing name writer, from ANY encoder state and local index:
* `.length`: some label `l` of `n = pre ++ l :: post` had to be written literally while the output
  was already longer than 65535 octets (`pre` was written literally before it);
* `.string`: `n` has a label longer than 255 octets;
* `.compression`: the table has an entry with an offset above `0x3FFF`. -/
theorem encNameGo_error_cases : ∀ (n : Name) (e : Enc) (loc : List (Name × Nat)) (err : EErr),
    encNameGo e n loc = .error err →
    (err = .length ∧ ∃ pre l post, n = pre ++ l :: post ∧ 65535 < e.out.length + Name.sz pre) ∨
    (err = .string ∧ ∃ l ∈ n, 255 < l.length) ∨
    (err = .compression ∧ ∃ p ∈ e.idx, 0x3FFF < p.2.1) := by
  intro n
  induction n with
  | nil =>
    intro e loc err h
    simp [encNameGo, Enc.merge] at h
  | cons l rest ih =>
    intro e loc err h
    have hlit : ∀ (_ : (if e.out.length > 65535 then Except.error EErr.length
        else if l.length > 255 then Except.error EErr.string
        else encNameGo { e with out := e.out ++ (UInt8.ofNat l.length :: l) } rest
              (if e.out.length ≤ 0x3FFF then (l :: rest, e.out.length) :: loc else loc)) = .error err),
        (err = .length ∧ ∃ pre l' post, l :: rest = pre ++ l' :: post ∧
            65535 < e.out.length + Name.sz pre) ∨
        (err = .string ∧ ∃ l' ∈ l :: rest, 255 < l'.length) ∨
        (err = .compression ∧ ∃ p ∈ e.idx, 0x3FFF < p.2.1) := by
      intro h
      split at h
      · rename_i hgt
        simp at h
        exact Or.inl ⟨h.symm, [], l, rest, rfl, by simp; omega⟩
      split at h
      · rename_i hgt
        simp at h
        exact Or.inr (Or.inl ⟨h.symm, l, by simp, hgt⟩)
      rcases ih _ _ _ h with ⟨he, pre, l', post, hsplit, hsz⟩ | ⟨he, l', hl', hgt⟩ | ⟨he, p, hp, hgt⟩
      · refine Or.inl ⟨he, l :: pre, l', post, by rw [hsplit]; rfl, ?_⟩
        simp only [List.length_append, List.length_cons] at hsz
        rw [Name.sz_cons]; omega
      · exact Or.inr (Or.inl ⟨he, l', List.mem_cons_of_mem _ hl', hgt⟩)
      · exact Or.inr (Or.inr ⟨he, p, hp, hgt⟩)
    unfold encNameGo at h
    cases hlk : e.lookup (l :: rest) with
    | none => simp only [hlk] at h; exact hlit h
    | some pr =>
      obtain ⟨off, r⟩ := pr
      simp only [hlk] at h
      obtain ⟨p, hp, _, hpo⟩ := lookup_spec hlk
      split at h
      · rename_i hgt
        simp at h
        exact Or.inr (Or.inr ⟨h.symm, p, hp, by rw [hpo]; exact hgt⟩)
      split at h
      · exact hlit h
      · rename_i hr
        simp only [Enc.merge] at h
        have : ¬ (r + 1 > 16) := by omega
        simp [this] at h

/-! ### Unreachable errors, each one separately -/

/-- `EncodeError::MaxRecursion` is unreachable from EVERY encoder state (no invariant needed):
a pointer is only emitted to a target of depth `< 16`. -/
theorem encNameGo_ne_maxRecursion (e : Enc) (n : Name) (loc : List (Name × Nat)) :
    encNameGo e n loc ≠ .error .maxRecursion := by
  intro h
  rcases encNameGo_error_cases n e loc _ h with ⟨he, _⟩ | ⟨he, _⟩ | ⟨he, _⟩ <;> cases he

theorem encName_ne_maxRecursion (e : Enc) (n : Name) : encName e n ≠ .error .maxRecursion :=
  encNameGo_ne_maxRecursion e n []

/-- no arithmetic or index panic, from every state -/
theorem encNameGo_ne_panic (e : Enc) (n : Name) (loc : List (Name × Nat)) (s : String) :
    encNameGo e n loc ≠ .error (.panic s) := by
  intro h
  rcases encNameGo_error_cases n e loc _ h with ⟨he, _⟩ | ⟨he, _⟩ | ⟨he, _⟩ <;> cases he

theorem encName_ne_panic (e : Enc) (n : Name) (s : String) : encName e n ≠ .error (.panic s) :=
  encNameGo_ne_panic e n [] s

theorem encName_ne_notEnoughBytes (e : Enc) (n : Name) : encName e n ≠ .error .notEnoughBytes := by
  intro h
  rcases encNameGo_error_cases n e [] _ h with ⟨he, _⟩ | ⟨he, _⟩ | ⟨he, _⟩ <;> cases he

theorem encName_ne_aplAddressLength (e : Enc) (n : Name) :
    encName e n ≠ .error .aplAddressLength := by
  intro h
  rcases encNameGo_error_cases n e [] _ h with ⟨he, _⟩ | ⟨he, _⟩ | ⟨he, _⟩ <;> cases he

/-- `EncodeError::Compression` is unreachable under the table invariant -/
theorem encNameGo_ne_compression {S : Nat → Prop} {e : Enc} (hinv : EInv S e) (n : Name)
    (loc : List (Name × Nat)) : encNameGo e n loc ≠ .error .compression := by
  intro h
  rcases encNameGo_error_cases n e loc _ h with ⟨he, _⟩ | ⟨he, _⟩ | ⟨_, p, hp, hgt⟩
  · cases he
  · cases he
  · have := (hinv.2 p hp).1; omega

theorem encName_ne_compression {S : Nat → Prop} {e : Enc} (hinv : EInv S e) (n : Name) :
    encName e n ≠ .error .compression :=
  encNameGo_ne_compression hinv n []

/-- `EncodeError::String` is unreachable for well-formed names (labels of at most 255 octets
suffice), from every state -/
theorem encNameGo_ne_string (e : Enc) {n : Name} (hn : ∀ l ∈ n, l.length ≤ 255)
    (loc : List (Name × Nat)) : encNameGo e n loc ≠ .error .string := by
  intro h
  rcases encNameGo_error_cases n e loc _ h with ⟨he, _⟩ | ⟨_, l, hl, hgt⟩ | ⟨he, _⟩
  · cases he
  · have := hn l hl; omega
  · cases he

theorem encName_ne_string (e : Enc) {n : Name} (hwf : wfName n) : encName e n ≠ .error .string :=
  encNameGo_ne_string e (fun l hl => by have := (hwf l hl).2; omega) []

/-- Under the invariant, a well-formed name can only fail with `.length`, and then a label was to be
written literally at an offset above 65535 (after the labels `pre` had been written literally). -/
theorem encName_error {S : Nat → Prop} {e : Enc} {n : Name} {err : EErr}
    (hinv : EInv S e) (hwf : wfName n) (h : encName e n = .error err) :
    err = .length ∧ ∃ pre l post, n = pre ++ l :: post ∧ 65535 < e.out.length + Name.sz pre := by
  rcases encNameGo_error_cases n e [] _ h with hlen | ⟨he, _⟩ | ⟨he, _⟩
  · exact hlen
  · subst he; exact absurd h (encName_ne_string e hwf)
  · subst he; exact absurd h (encName_ne_compression hinv n)

/-- **Totality.** From any state satisfying the invariant, a well-formed name is written without
error provided every label starts at an offset `≤ 65535` even if nothing is compressed. Since the
last label has at least one octet, `out.length + Name.sz n ≤ 65537` is exactly that (the bound
`65538` fails: see the example below). The root octet or a pointer may start at any offset. -/
theorem encName_total {S : Nat → Prop} {e : Enc} {n : Name}
    (hinv : EInv S e) (hwf : wfName n) (hsz : e.out.length + Name.sz n ≤ 65537) :
    ∃ e', encName e n = .ok e' := by
  cases h : encName e n with
  | ok e' => exact ⟨e', rfl⟩
  | error err =>
    obtain ⟨_, pre, l, post, hsplit, hgt⟩ := encName_error hinv hwf h
    have hl : wfLabel l := hwf l (by rw [hsplit]; simp)
    have : Name.sz n = Name.sz pre + (l.length + 1 + Name.sz post) := by
      rw [hsplit, Name.sz_append, Name.sz_cons]
    have := hl.1
    omega

/-- the form used at message level: the uncompressed name fits below offset 65535 -/
theorem encName_total' {S : Nat → Prop} {e : Enc} {n : Name}
    (hinv : EInv S e) (hwf : wfName n) (hsz : e.out.length + Name.sz n + 1 ≤ 65535) :
    ∃ e', encName e n = .ok e' :=
  encName_total hinv hwf (by omega)

/-- the root name is written from every state whatsoever -/
theorem encName_root (e : Enc) : encName e [] = .ok { e with out := e.out ++ [0] } := by
  simp [encName, encNameGo, Enc.merge]

/-! ## Size -/

/-- at least one octet, at most the uncompressed wire form (`Name.sz n + 1` octets), from every
state and for every name (no hypotheses) -/
theorem encNameGo_size : ∀ (n : Name) (e e' : Enc) (loc : List (Name × Nat)),
    encNameGo e n loc = .ok e' →
    ∃ x, e'.out = e.out ++ x ∧ 1 ≤ x.length ∧ x.length ≤ Name.sz n + 1 := by
  intro n
  induction n with
  | nil =>
    intro e e' loc h
    simp [encNameGo, Enc.merge] at h
    subst h
    exact ⟨[0], rfl, by simp, by simp⟩
  | cons l rest ih =>
    intro e e' loc h
    have hlit : ∀ (_ : (if e.out.length > 65535 then Except.error EErr.length
        else if l.length > 255 then Except.error EErr.string
        else encNameGo { e with out := e.out ++ (UInt8.ofNat l.length :: l) } rest
              (if e.out.length ≤ 0x3FFF then (l :: rest, e.out.length) :: loc else loc)) = .ok e'),
        ∃ x, e'.out = e.out ++ x ∧ 1 ≤ x.length ∧ x.length ≤ Name.sz (l :: rest) + 1 := by
      intro h
      split at h; · simp at h
      split at h; · simp at h
      obtain ⟨x, hx, h1, h2⟩ := ih _ _ _ h
      refine ⟨(UInt8.ofNat l.length :: l) ++ x, by rw [hx]; simp, by simp, ?_⟩
      rw [Name.sz_cons]
      simp only [List.length_append, List.length_cons]
      omega
    unfold encNameGo at h
    cases hlk : e.lookup (l :: rest) with
    | none => simp only [hlk] at h; exact hlit h
    | some pr =>
      obtain ⟨off, r⟩ := pr
      simp only [hlk] at h
      split at h; · simp at h
      split at h
      · exact hlit h
      · rename_i hr
        simp only [Enc.merge] at h
        have : ¬ (r + 1 > 16) := by omega
        simp [this] at h
        subst h
        refine ⟨ptrBytes off, rfl, by simp [ptrBytes], ?_⟩
        rw [Name.sz_cons]
        simp only [ptrBytes, List.length_cons, List.length_nil]
        omega

/-- **compressed ≤ uncompressed**: between 1 and `Name.sz n + 1` octets are appended -/
theorem encName_size_le {e e' : Enc} {n : Name} (h : encName e n = .ok e') :
    ∃ x, e'.out = e.out ++ x ∧ 1 ≤ x.length ∧ x.length ≤ Name.sz n + 1 :=
  encNameGo_size n e e' [] h

theorem encName_length_le {e e' : Enc} {n : Name} (h : encName e n = .ok e') :
    e.out.length + 1 ≤ e'.out.length ∧ e'.out.length ≤ e.out.length + Name.sz n + 1 := by
  obtain ⟨x, hx, h1, h2⟩ := encName_size_le h
  rw [hx, List.length_append]; omega

/-! ## The uncompressed writer -/

theorem Name.wire_length (n : Name) : (Name.wire n).length = Name.sz n + 1 := by
  induction n with
  | nil => rfl
  | cons l r ih =>
    simp only [Name.wire, List.length_cons, List.length_append, ih, Name.sz_cons]; omega

/-- on success exactly the uncompressed wire form is appended and the table is untouched (every
state, every name) -/
theorem encNameU_out : ∀ (n : Name) (e e' : Enc), encNameU e n = .ok e' →
    e' = e.put (Name.wire n) := by
  intro n
  induction n with
  | nil =>
    intro e e' h
    simp [encNameU] at h
    exact h.symm
  | cons l rest ih =>
    intro e e' h
    unfold encNameU at h
    split at h; · simp at h
    split at h; · simp at h
    rw [ih _ _ h]
    simp [Enc.put, Name.wire]

/-- every error of the uncompressed writer, from any state -/
theorem encNameU_error_cases : ∀ (n : Name) (e : Enc) (err : EErr), encNameU e n = .error err →
    (err = .length ∧ ∃ pre l post, n = pre ++ l :: post ∧ 65535 < e.out.length + Name.sz pre) ∨
    (err = .string ∧ ∃ l ∈ n, 255 < l.length) := by
  intro n
  induction n with
  | nil => intro e err h; simp [encNameU] at h
  | cons l rest ih =>
    intro e err h
    unfold encNameU at h
    split at h
    · rename_i hgt
      simp at h
      exact Or.inl ⟨h.symm, [], l, rest, rfl, by simp; omega⟩
    split at h
    · rename_i hgt
      simp at h
      exact Or.inr ⟨h.symm, l, by simp, hgt⟩
    rcases ih _ _ h with ⟨he, pre, l', post, hsplit, hsz⟩ | ⟨he, l', hl', hgt⟩
    · refine Or.inl ⟨he, l :: pre, l', post, by rw [hsplit]; rfl, ?_⟩
      simp only [Enc.put, List.length_append, List.length_cons] at hsz
      rw [Name.sz_cons]; omega
    · exact Or.inr ⟨he, l', List.mem_cons_of_mem _ hl', hgt⟩

/-- for well-formed names the only possible error is `.length` -/
theorem encNameU_error {e : Enc} {n : Name} {err : EErr} (hwf : wfName n)
    (h : encNameU e n = .error err) :
    err = .length ∧ ∃ pre l post, n = pre ++ l :: post ∧ 65535 < e.out.length + Name.sz pre := by
  rcases encNameU_error_cases n e err h with hlen | ⟨_, l, hl, hgt⟩
  · exact hlen
  · have := (hwf l hl).2; omega

theorem encNameU_total {e : Enc} {n : Name} (hwf : wfName n)
    (hsz : e.out.length + Name.sz n ≤ 65537) : ∃ e', encNameU e n = .ok e' := by
  cases h : encNameU e n with
  | ok e' => exact ⟨e', rfl⟩
  | error err =>
    obtain ⟨_, pre, l, post, hsplit, hgt⟩ := encNameU_error hwf h
    have hl : wfLabel l := hwf l (by rw [hsplit]; simp)
    have : Name.sz n = Name.sz pre + (l.length + 1 + Name.sz post) := by
      rw [hsplit, Name.sz_append, Name.sz_cons]
    have := hl.1
    omega

/-- the uncompressed wire form of a well-formed name, wherever it sits in a buffer, is read as
that name with zero pointer hops -/
theorem nameAt_wire : ∀ (n : Name) (buf : Bytes) (off : Nat), wfName n →
    BytesAt buf off (Name.wire n) → NameAt buf true off n 0 (off + (Name.wire n).length) := by
  intro n
  induction n with
  | nil =>
    intro buf off _ hb
    have := hb 0 (by simp [Name.wire])
    simp [Name.wire] at this ⊢
    exact NameAt.root this
  | cons l rest ih =>
    intro buf off hwf hb
    have hl : wfLabel l := hwf l (by simp)
    have hwf' : wfName rest := fun x hx => hwf x (by simp [hx])
    have hlen : (UInt8.ofNat l.length).toNat = l.length :=
      UInt8.ofNat_toNat_lt (by have := hl.2; omega)
    have hwl : (Name.wire (l :: rest)).length = 1 + l.length + (Name.wire rest).length := by
      simp [Name.wire]; omega
    have hrest : NameAt buf true (off + 1 + l.length) rest 0
        (off + 1 + l.length + (Name.wire rest).length) := by
      apply ih _ _ hwf'
      intro i hi
      have := hb (1 + l.length + i) (by rw [hwl]; omega)
      rw [show off + 1 + l.length + i = off + (1 + l.length + i) by omega, this]
      simp only [Name.wire]
      rw [show 1 + l.length + i = (l.length + i) + 1 by omega, List.getElem?_cons_succ,
        List.getElem?_append_right (by omega)]
      congr 1; omega
    rw [hwl, show off + (1 + l.length + (Name.wire rest).length) =
      off + 1 + l.length + (Name.wire rest).length by omega]
    refine NameAt.label (len := UInt8.ofNat l.length) ?_ (by rw [hlen]; exact hl.1)
      (by rw [hlen]; exact hl.2) hlen.symm ?_ (by rw [hlen]; exact hrest)
    · have := hb 0 (by rw [hwl]; omega)
      simpa [Name.wire] using this
    · intro i hi
      have := hb (1 + i) (by rw [hwl]; omega)
      rw [show off + 1 + i = off + (1 + i) by omega, this]
      simp only [Name.wire]
      rw [show 1 + i = i + 1 by omega, List.getElem?_cons_succ, List.getElem?_append_left hi]

/-- **`Encoder::domain_name_uncompressed` from any state satisfying the invariant**: exactly
`Name.wire n` is appended, the table is unchanged, the invariant is kept with the new octets
frozen, and in every buffer agreeing on the frozen set the name `n` itself (same case) is read at
the old end with ZERO pointer hops. -/
theorem encNameU_spec (n : Name) (S : Nat → Prop) (e e' : Enc)
    (hwf : wfName n) (hinv : EInv S e) (h : encNameU e n = .ok e') :
    e'.out = e.out ++ Name.wire n ∧ e'.idx = e.idx ∧
      EInv (ext S e.out.length e'.out.length) e' ∧
      ∀ buf', Agree (ext S e.out.length e'.out.length) e'.out buf' →
        NameAt buf' true e.out.length n 0 e'.out.length := by
  have he := encNameU_out n e e' h
  subst he
  have hL : (e.put (Name.wire n)).out.length = e.out.length + (Name.wire n).length := by
    simp [Enc.put]
  refine ⟨rfl, rfl, by rw [hL]; exact EInv.put _ hinv, ?_⟩
  intro buf' ha
  rw [hL] at ha ⊢
  exact nameAt_wire n buf' e.out.length hwf (bytesAt_put (S := S) ha)

/-- no pointer is followed when the written name is read back: ANY reading of the buffer at that
offset is the name `n` with zero hops -/
theorem encNameU_no_pointer (n : Name) (S : Nat → Prop) (e e' : Enc)
    (hwf : wfName n) (hinv : EInv S e) (h : encNameU e n = .ok e')
    (buf' : Bytes) (ha : Agree (ext S e.out.length e'.out.length) e'.out buf')
    {n' : Name} {hops en : Nat} (hr : NameAt buf' true e.out.length n' hops en) :
    n' = n ∧ hops = 0 ∧ en = e'.out.length := by
  obtain ⟨_, _, _, hname⟩ := encNameU_spec n S e e' hwf hinv h
  obtain ⟨h1, h2, h3⟩ := (hname buf' ha).det hr
  exact ⟨h1.symm, h2.symm, h3.symm⟩

/-! ## Every history (C06) -/

/-- Encoder states reachable from the fresh encoder `{}` by any finite sequence of steps, together
with the ghost set of frozen positions:
* `name` / `nameU`: a successful call of either name writer with a well-formed name;
* `put`: appending arbitrary octets, which are frozen;
* `hole`: appending arbitrary octets that stay unfrozen (the 2-octet RDLENGTH / option length /
  SvcParam length placeholders and the 1-octet APL address-length placeholder are instances);
* `patch`: overwriting any range that contains no frozen position (patching exactly an earlier
  placeholder is an instance);
* `freeze`: freezing further positions of the existing output (e.g. a placeholder once patched). -/
inductive Reach : (Nat → Prop) → Enc → Prop
  | init : Reach (fun _ => False) {}
  | name {S e e'} (n : Name) : Reach S e → wfName n → encName e n = .ok e' →
      Reach (ext S e.out.length e'.out.length) e'
  | nameU {S e e'} (n : Name) : Reach S e → wfName n → encNameU e n = .ok e' →
      Reach (ext S e.out.length e'.out.length) e'
  | put {S e} (x : Bytes) : Reach S e → Reach (ext S e.out.length (e.out.length + x.length)) (e.put x)
  | hole {S e} (x : Bytes) : Reach S e → Reach S (e.put x)
  | patch {S e} (i : Nat) (x : Bytes) : Reach S e → i + x.length ≤ e.out.length →
      (∀ j, S j → j < i ∨ i + x.length ≤ j) → Reach S { e with out := _root_.patch e.out i x }
  | freeze {S S' e} : Reach S e → (∀ i, S i → S' i) → (∀ i, S' i → i < e.out.length) → Reach S' e

/-- **The compression-table invariant holds after every history.** -/
theorem reachable_inv {S : Nat → Prop} {e : Enc} (h : Reach S e) : EInv S e := by
  induction h with
  | init => exact EInv.empty
  | name n _ hwf hgo ih =>
    obtain ⟨_, _, _, hinv, _⟩ := encName_spec n _ _ _ hwf ih hgo
    exact hinv
  | nameU n _ hwf hgo ih => exact (encNameU_spec n _ _ _ hwf ih hgo).2.2.1
  | put x _ ih => exact EInv.put x ih
  | hole x _ ih => exact EInv.put_unfrozen x ih
  | patch i x _ hfit hout ih => exact EInv.patch ih hfit hout
  | freeze _ hS hb ih => exact EInv.grow hS hb ih

/-- the model's `set_length_index` is a `patch` step when the two placeholder octets are unfrozen -/
theorem Reach.setLen {S : Nat → Prop} {e e' : Enc} {li : Nat} (h : Reach S e)
    (hout : ∀ j, S j → j < li ∨ li + 2 ≤ j) (hs : _root_.setLen e li = .ok e') : Reach S e' := by
  unfold _root_.setLen at hs
  simp only at hs
  by_cases h1 : e.out.length < li + 2
  · simp [h1] at hs
  · by_cases h2 : e.out.length - (li + 2) > 65535
    · simp [h1, h2] at hs
    · have h3 : li + 2 - 1 < e.out.length := by omega
      simp only [h1, h2, h3, if_true, if_false] at hs
      cases hs
      exact Reach.patch li _ h (by simp; omega) (by simpa using hout)

/-- the model's `set_address_length_index` is a `patch` step when the placeholder octet is unfrozen -/
theorem Reach.setAddrLen {S : Nat → Prop} {e e' : Enc} {neg : Bool} {ali : Nat} (h : Reach S e)
    (hout : ∀ j, S j → j < ali ∨ ali + 1 ≤ j) (hs : _root_.setAddrLen e neg ali = .ok e') :
    Reach S e' := by
  unfold _root_.setAddrLen at hs
  simp only at hs
  by_cases h1 : e.out.length < ali + 1
  · simp [h1] at hs
  · by_cases h2 : e.out.length - (ali + 1) > 255
    · simp [h1, h2] at hs
    · by_cases h3 : e.out.length - (ali + 1) ≥ 128
      · simp [h1, h2, h3] at hs
      · have h4 : ali + 1 - 1 < e.out.length := by omega
        simp only [h1, h2, h3, h4, if_true, if_false] at hs
        cases hs
        exact Reach.patch ali _ h (by simp; omega) (by simpa using hout)

/-- in particular, from every reachable state a well-formed name is written correctly or fails
with `.length` only -/
theorem reachable_encName {S : Nat → Prop} {e : Enc} (h : Reach S e) {n : Name} (hwf : wfName n) :
    (∃ e', encName e n = .ok e' ∧ Reach (ext S e.out.length e'.out.length) e') ∨
    (encName e n = .error .length ∧ 65535 < e.out.length + Name.sz n) := by
  cases hgo : encName e n with
  | ok e' => exact Or.inl ⟨e', rfl, Reach.name n h hwf hgo⟩
  | error err =>
    obtain ⟨he, pre, l, post, hsplit, hgt⟩ := encName_error (reachable_inv h) hwf hgo
    subst he
    refine Or.inr ⟨rfl, ?_⟩
    rw [hsplit, Name.sz_append]; omega

/-! ## Non-vacuity -/

private theorem wf_ab : wfName [[97], [98]] := by
  intro l hl; simp at hl; rcases hl with rfl | rfl <;> simp [wfLabel]

/-- `encName_total`, `encName_size_le`: `a.b` after `a.b` is a two-octet pointer -/
example : ∃ e1 e2, encName {} [[97], [98]] = .ok e1 ∧ encName e1 [[97], [98]] = .ok e2 ∧
    e2.out = [1, 97, 1, 98, 0, 192, 0] ∧ Name.sz [[97], [98]] + 1 = 5 :=
  ⟨_, _, rfl, rfl, rfl, rfl⟩

example : ∃ e', encName {} [[97], [98]] = .ok e' := encName_total EInv.empty wf_ab (by simp [Name.sz])

/-- the bound of `encName_total` is sharp: with 65536 octets already written, the one-label name
`a` (`out.length + Name.sz n = 65538`) fails with `.length` -/
example (out : Bytes) (h : out.length = 65536) : encName { out := out } [[97]] = .error .length := by
  simp [encName, encNameGo, Enc.lookup, h]

example : (List.replicate 65536 (0 : UInt8)).length = 65536 := List.length_replicate

/-- … while the root name (and any name that compresses to a pointer) is still written there -/
example (out : Bytes) : ∃ e', encName { out := out } [] = .ok e' := ⟨_, encName_root _⟩

/-- the three error classes of `encNameGo_error_cases` are all inhabited for states violating the
respective hypothesis: a table entry above `0x3FFF` gives `.compression`, a 256-octet label gives
`.string` -/
example : encName { idx := [([[97]], 0x4000, 0)] } [[97]] = .error .compression := by
  simp [encName, encNameGo, Enc.lookup, ciEq]

example (l : Label) (h : l.length = 256) : encName {} [l] = .error .string := by
  simp [encName, encNameGo, Enc.lookup, h]

/-- `encNameU_spec` -/
example : encNameU {} [[97], [98]] = .ok { out := Name.wire [[97], [98]] } ∧ wfName [[97], [98]] :=
  ⟨rfl, wf_ab⟩

/-- `Reach`: owner name, fixed part, RDLENGTH hole, compressed RDATA name, back-patch, freeze -/
example : ∃ S e, Reach S e ∧ e.out = [1, 97, 1, 98, 0, 0, 2, 0, 1, 0, 2, 1, 99, 192, 2] := by
  have h1 : Reach (ext (fun _ => False) 0 5) _ := Reach.name [[97], [98]] Reach.init wf_ab rfl
  have h2 : Reach (ext (ext (fun _ => False) 0 5) 5 9) _ := Reach.put [0, 2, 0, 1] h1
  have h3 := Reach.hole [0, 0] h2
  have hwf : wfName [[99], [98]] := by
    intro l hl; simp at hl; rcases hl with rfl | rfl <;> simp [wfLabel]
  have h4 : Reach (ext (ext (ext (fun _ => False) 0 5) 5 9) 11 15) _ :=
    Reach.name [[99], [98]] h3 hwf rfl
  have h5 := Reach.patch 9 [0, 2] h4 (by decide) (by
    intro j hj
    simp [ext] at hj
    simp only [List.length_cons, List.length_nil]
    omega)
  exact ⟨_, _, h5, rfl⟩
