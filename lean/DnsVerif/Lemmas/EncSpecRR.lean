import DnsVerif.Lemmas.EncSpecBodies

/-! # Encoder ⇒ wire grammar: resource records (C05 / C06), and C18

`encRR_spec`: one call of `Encoder::rr` from ANY state satisfying the compression-table invariant
appends a rendering (`RRAt … true …`: backward pointers, at most 16 hops, RDLENGTH = octets of the
RDATA, every inner length = octets covered) of a record that equals the given one up to ASCII case of
names and the order of the `mandatory` key list (`RR.norm`).

C18: `rdata_no_pointer` (records whose name fields are all uncompressible are written literally),
`literalNameTypes_spec` / `compress_flags_rfc1035` (which types these are, by evaluating `rrKind`),
and the witness `svcb_target_compressed_witness` for the known finding K1. -/

namespace EncSpec

/-! ## Small facts -/

/-- `rr_opt_ttl` (shifts and ors) is the arithmetic TTL word of RFC 6891 §6.1.3 -/
theorem optTtl_eq {ext ver : Nat} (dnssec : Bool) (hv : ver < 256) :
    optTtlWord ext ver dnssec = optTtlOf ext ver dnssec := by
  unfold optTtlWord optTtlOf
  have h1 : ver <<< 16 < 2 ^ 24 := by rw [Nat.shiftLeft_eq]; omega
  rw [← Nat.shiftLeft_add_eq_or_of_lt h1 ext]
  have h2 : ext <<< 24 + ver <<< 16 = (ext * 256 + ver) <<< 16 := by
    simp only [Nat.shiftLeft_eq]; omega
  rw [h2]
  have h3 : (if dnssec = true then 0x80 <<< 8 else 0) < 2 ^ 16 := by cases dnssec <;> decide
  rw [← Nat.shiftLeft_add_eq_or_of_lt h3]
  simp only [Nat.shiftLeft_eq]
  cases dnssec <;> simp <;> omega

theorem classKnown_lt {cls : Nat} (h : classKnown cls = true) : cls < 65536 := by
  simp [classKnown, inTable, Gen.enumClass] at h
  omega

theorem wfName_nil : WfName [] := ⟨fun _ h => by simp at h, by simp, fun _ h => by simp at h⟩

/-! ## `encRR` in combinator form, per kind of record -/

theorem encRR_regular_eq {rr : RR} {info : RRInfo} {vs : List FVal}
    (hk : rrKind rr.ty = some (.regular info)) (hrd : rr.rd = .fields vs) (e : Enc) :
    encRR e rr = wSeq (fun e => encName e rr.name) (wSeq (wPut (beBytes 2 rr.ty ++
      beBytes 2 (match info.inOnly with | none => rr.cls | some _ => 1) ++ beBytes 4 rr.ttl))
      (wWin16 (fun e => encFields e (info.flds.map (·.2)) vs))) e := by
  unfold encRR
  simp only [hk, hrd]
  rfl

theorem encRR_opt_eq {rr : RR} {payload ext ver : Nat} {dnssec : Bool} {opts : List EdnsOpt}
    (hk : rrKind rr.ty = some .opt) (hrd : rr.rd = .opt payload ext ver dnssec opts) (e : Enc) :
    encRR e rr = wSeq (fun e => encName e []) (wSeq (wPut (beBytes 2 rr.ty ++
      beBytes 2 payload ++ beBytes 4 (optTtlWord ext ver dnssec)))
      (wWin16 (fun e => encOptions e opts))) e := by
  unfold encRR
  simp only [hk, hrd]
  rfl

theorem encRR_apl_eq {rr : RR} {items : List APItem}
    (hk : rrKind rr.ty = some .apl) (hrd : rr.rd = .apl items) (e : Enc) :
    encRR e rr = wSeq (fun e => encName e rr.name) (wSeq (wPut (beBytes 2 rr.ty ++
      beBytes 2 1 ++ beBytes 4 rr.ttl)) (wWin16 (fun e => encApItems e items))) e := by
  unfold encRR
  simp only [hk, hrd]
  rfl

/-- the part of the SVCB body after the target name -/
def svcTail (prio : Nat) (params : List SvcParam) : Writer :=
  fun e => if prio = 0 then .ok e else encSvcParams e params

theorem encRR_svcb_eq {rr : RR} {https : Bool} {prio : Nat} {target : Name} {params : List SvcParam}
    (hk : rrKind rr.ty = some (.svcb https)) (hrd : rr.rd = .svcb prio target params) (e : Enc) :
    encRR e rr = wSeq (fun e => encName e rr.name) (wSeq (wPut (beBytes 2 rr.ty ++
      beBytes 2 1 ++ beBytes 4 rr.ttl))
      (wWin16 (wSeq (wPut (beBytes 2 prio)) (wSeq (fun e => encName e target)
        (svcTail prio params))))) e := by
  unfold encRR
  simp only [hk, hrd]
  simp only [wSeq, wWin16, wWin, wPut, svcTail]
  cases encName e rr.name with
  | error err => rfl
  | ok e1 =>
    simp only
    cases encName (((e1.put (beBytes 2 rr.ty ++ beBytes 2 1 ++ beBytes 4 rr.ttl)).put [0, 0]).put
      (beBytes 2 prio)) target with
    | error err => rfl
    | ok e2 => rfl

theorem svcTail_spec {prio : Nat} {params : List SvcParam} (hl : ∀ p ∈ params, WfParam p)
    (h0 : prio = 0 → params = []) :
    WSpec (svcTail prio params) (fun buf s t => SvcParamsAt buf t s (params.map SvcParam.norm)) := by
  by_cases hp : prio = 0
  · refine (spec_skip.of_eq (fun e => by simp [svcTail, hp, wSkip])).conseq ?_
    rintro buf s t _ _ rfl
    rw [h0 hp]
    exact .nil
  · exact (encSvcParams_spec hl).of_eq (fun e => by simp [svcTail, hp])

/-! ## The record writer -/

/-- what `encRR` guarantees about the region it wrote -/
def RRSpec (rr : RR) (buf : Bytes) (s t : Nat) : Prop :=
  ∃ rr', rr'.norm = rr.norm ∧ RRAt buf true s rr' t

/-- the common frame NAME TYPE CLASS TTL RDLENGTH RDATA as produced by the combinators -/
def FrameAt (owner : Name) (hdr : Bytes) (Φ : Bytes → Nat → Nat → Prop) (buf : Bytes) (s t : Nat) : Prop :=
  ∃ m, s ≤ m ∧ m ≤ t ∧ (∃ n', n'.lower = owner.lower ∧ NameRefAt buf true s n' m) ∧
    ∃ m2, m ≤ m2 ∧ m2 ≤ t ∧ (m2 = m + hdr.length ∧ BytesAt buf m hdr) ∧
      ∃ len, len ≤ 65535 ∧ BytesAt buf m2 (beBytes 2 len) ∧ t = m2 + 2 + len ∧ Φ buf (m2 + 2) t

theorem frame_spec {owner : Name} (ho : WfName owner) (hdr : Bytes) {body : Writer}
    {Φ : Bytes → Nat → Nat → Prop} (hb : WSpec body Φ) :
    WSpec (wSeq (fun e => encName e owner) (wSeq (wPut hdr) (wWin16 body))) (FrameAt owner hdr Φ) :=
  spec_seq (spec_name ho) (spec_seq (spec_put hdr) (spec_win16 hb))

/-- unpacking a frame whose fixed part has 8 octets -/
theorem FrameAt.elim {owner : Name} {hdr : Bytes} {Φ : Bytes → Nat → Nat → Prop} {buf : Bytes} {s t : Nat}
    (h : FrameAt owner hdr Φ buf s t) (h8 : hdr.length = 8) :
    ∃ n' m len, n'.lower = owner.lower ∧ NameRefAt buf true s n' m ∧ len < 65536 ∧
      BytesAt buf m (hdr ++ beBytes 2 len) ∧ t = m + 10 + len ∧ Φ buf (m + 10) (m + 10 + len) := by
  obtain ⟨m, _, _, ⟨n', hci, hn⟩, m2, _, _, ⟨rfl, hH⟩, len, hlen, hL, rfl, hΦ⟩ := h
  rw [h8] at hL hΦ ⊢
  refine ⟨n', m, len, hci, hn, by omega, bytesAt_append hH (by rw [h8]; exact hL), by omega, ?_⟩
  rw [show m + 10 = m + 8 + 2 by omega]
  exact hΦ

/-- **`Encoder::rr` emits a rendering of the record** (all four kinds of bodies). -/
theorem encRR_wspec {rr : RR} (hwf : WfRR rr) : WSpec (fun e => encRR e rr) (RRSpec rr) := by
  obtain ⟨name, ty, cls, ttl, rd⟩ := rr
  obtain ⟨hrd, hrest⟩ := hwf
  cases rd with
  | fields vs =>
    obtain ⟨info, hk, hvs⟩ := hrd
    obtain ⟨hname, hcls, httl⟩ := hrest
    simp only at hk hvs hname hcls httl
    have hty : ty ≠ 41 := by
      intro h41; subst h41
      have : rrKind 41 = some .opt := rfl
      rw [this] at hk; cases hk
    have hc := hcls.2
    simp only [hk] at hc
    have hcw : (match info.inOnly with | none => cls | some _ => 1) = cls := by
      cases hio : info.inOnly with
      | none => rfl
      | some x => simp [hio] at hc; exact hc.symm
    refine ((frame_spec hname _ (encFields_spec hvs (rrKind_lastOnly hk))).of_eq
      (encRR_regular_eq (rr := ⟨name, ty, cls, ttl, .fields vs⟩) hk rfl)).conseq ?_
    intro buf s t _ _ hF
    obtain ⟨n', m, len, hci, hn, hlen, hH, rfl, vs', hvs', hfs⟩ := hF.elim (by simp)
    rw [hcw] at hH
    refine ⟨⟨n', ty, cls, ttl, .fields vs'⟩, by simp [RR.norm, RData.norm, hci, hvs'], ?_⟩
    exact .normal hty hn (Nat.lt_trans (rrKind_ty_lt hk) (by omega)) (classKnown_lt hcls.1) httl hlen
      hcls hH (.regular hk hfs)
  | opt payload ext ver dnssec opts =>
    obtain ⟨hk, hopts⟩ := hrd
    obtain ⟨hname, hcls, httl, hpay, hext, hver⟩ := hrest
    simp only at hk hname hcls httl
    subst hname hcls httl
    have hty := rrKind_opt hk
    subst hty
    refine ((frame_spec wfName_nil _ (encOptions_spec hopts)).of_eq
      (encRR_opt_eq (rr := ⟨[], 41, 0, 0, .opt payload ext ver dnssec opts⟩) hk rfl)).conseq ?_
    intro buf s t _ _ hF
    obtain ⟨n', m, len, hci, hn, hlen, hH, rfl, hos⟩ := hF.elim (by simp)
    have hn0 := lower_eq_nil hci
    subst hn0
    rw [optTtl_eq dnssec hver] at hH
    exact ⟨_, rfl, .opt hn hpay hext hver hlen hH (.opt hk hos)⟩
  | apl items =>
    obtain ⟨hk, hitems⟩ := hrd
    obtain ⟨hname, hcls, httl⟩ := hrest
    simp only at hk hname hcls httl
    have hty : ty ≠ 41 := by
      intro h41; subst h41
      have : rrKind 41 = some .opt := rfl
      rw [this] at hk; cases hk
    have hc := hcls.2
    simp only [hk] at hc
    subst hc
    refine ((frame_spec hname _ (encApItems_spec hitems)).of_eq
      (encRR_apl_eq (rr := ⟨name, ty, 1, ttl, .apl items⟩) hk rfl)).conseq ?_
    intro buf s t _ _ hF
    obtain ⟨n', m, len, hci, hn, hlen, hH, rfl, his⟩ := hF.elim (by simp)
    refine ⟨⟨n', ty, 1, ttl, .apl items⟩, by simp [RR.norm, RData.norm, hci], ?_⟩
    exact .normal hty hn (Nat.lt_trans (rrKind_ty_lt hk) (by omega)) (show (1 : Nat) < 65536 by omega)
      httl hlen hcls hH (.apl hk his)
  | svcb prio target params =>
    obtain ⟨⟨https, hk⟩, hprio, htarget, hsorted, hparams, h0⟩ := hrd
    obtain ⟨hname, hcls, httl⟩ := hrest
    simp only at hk hname hcls httl
    have hty : ty ≠ 41 := by
      intro h41; subst h41
      have : rrKind 41 = some .opt := rfl
      rw [this] at hk; cases hk
    have hc := hcls.2
    simp only [hk] at hc
    subst hc
    refine ((frame_spec hname _ (spec_seq (spec_put (beBytes 2 prio)) (spec_seq (spec_name htarget)
      (svcTail_spec hparams h0)))).of_eq
      (encRR_svcb_eq (rr := ⟨name, ty, 1, ttl, .svcb prio target params⟩) hk rfl)).conseq ?_
    intro buf s t _ _ hF
    obtain ⟨n', m, len, hci, hn, hlen, hH, rfl, m3, _, _, ⟨rfl, hP⟩, m4, _, hm4, ⟨tg', htci, htn⟩, hps⟩ :=
      hF.elim (by simp)
    simp only [beBytes_length] at htn
    refine ⟨⟨n', ty, 1, ttl, .svcb prio tg' (params.map SvcParam.norm)⟩, ?_, ?_⟩
    · simp only [RR.norm, RData.norm, hci, htci, List.map_map]
      congr 2
      apply List.map_congr_left
      intro p _
      exact SvcParam.norm_idem p
    · refine .normal hty hn (Nat.lt_trans (rrKind_ty_lt hk) (by omega)) (show (1 : Nat) < 65536 by omega)
        httl hlen hcls hH ?_
      by_cases hp : prio = 0
      · have hnil := h0 hp
        subst hp hnil
        cases hps
        exact .svcbAlias hk hP htn
      · exact .svcbService hk (by omega) hprio hP htn hm4 hps (List.Perm.refl _) (keysSorted_norm hsorted)

/-- **C05 / C06 for one record, from any encoder state satisfying the invariant.**
The old output is kept, the invariant is re-established with the WHOLE record frozen, and in every
buffer that agrees with the new output on the frozen positions the region `[old end, new end)` is a
rendering of a record `rr'` with `rr'.norm = rr.norm`. -/
theorem encRR_spec {S : Nat → Prop} {e e' : Enc} {rr : RR}
    (hinv : EInv S e) (hwf : WfRR rr) (h : encRR e rr = .ok e') :
    e.out <+: e'.out ∧ EInv (ext S e.out.length e'.out.length) e' ∧
    (∀ i, e.out.length ≤ i → i < e'.out.length → ext S e.out.length e'.out.length i) ∧
    ∀ buf', Agree (ext S e.out.length e'.out.length) e'.out buf' →
      ∃ rr', rr'.norm = rr.norm ∧ RRAt buf' true e.out.length rr' e'.out.length := by
  obtain ⟨hp, hinv', hf⟩ := (encRR_wspec hwf).run hinv h
  exact ⟨hp, hinv', fun i h1 h2 => Or.inr ⟨h1, h2⟩, hf⟩

/-- the same for every buffer that merely EXTENDS the output -/
theorem encRR_spec_prefix {S : Nat → Prop} {e e' : Enc} {rr : RR}
    (hinv : EInv S e) (hwf : WfRR rr) (h : encRR e rr = .ok e') (buf' : Bytes) (hp : e'.out <+: buf') :
    ∃ rr', rr'.norm = rr.norm ∧ RRAt buf' true e.out.length rr' e'.out.length := by
  obtain ⟨_, hinv', _, hf⟩ := encRR_spec hinv hwf h
  exact hf buf' (agree_of_prefix hp hinv'.1)

/-! ## C18: no compression inside the RDATA of the newer types -/

/-- evaluate a check on every row of the record table -/
def rowsAll (chk : Nat → RRInfo → Bool) : Bool :=
  implementedTypes.all (fun ty => match rrKind ty with
    | some (.regular info) => chk ty info
    | _ => true)

theorem rows_forall {chk : Nat → RRInfo → Bool} (h : rowsAll chk = true) {ty : Nat} {info : RRInfo}
    (hk : rrKind ty = some (.regular info)) : chk ty info = true := by
  have := List.all_eq_true.mp h ty (rrKind_some_mem hk)
  simpa [hk] using this

/-- the record types that have names in their RDATA, none of which may be compressed:
RP, AFSDB, RT, PX, SRV, KX, DNAME, LP -/
def literalNameTypes : List Nat := [17, 18, 21, 26, 33, 36, 39, 107]

/-- the record types of RFC 1035 whose RDATA names may be compressed:
NS, MD, MF, CNAME, SOA, MB, MG, MR, PTR, MINFO, MX -/
def compressTypes : List Nat := [2, 3, 4, 5, 6, 7, 8, 9, 12, 14, 15]

/-- a row has a name field and no compressible one exactly for `literalNameTypes` -/
theorem literalNameTypes_spec {ty : Nat} {info : RRInfo} (hk : rrKind ty = some (.regular info)) :
    ty ∈ literalNameTypes ↔
      ((∃ f ∈ info.flds, f.2 = .name false) ∧ ∀ f ∈ info.flds, f.2 ≠ .name true) := by
  have h := rows_forall (chk := fun ty info =>
    literalNameTypes.contains ty ==
      (info.flds.any (fun f => f.2 == .name false) && info.flds.all (fun f => f.2 != .name true)))
    (by decide) hk
  simp only [beq_iff_eq] at h
  rw [← List.contains_iff_mem, h]
  simp [List.any_eq_true, List.all_eq_true]

/-- **the compress flags of the table are those of RFC 1035 / RFC 3597 §4**: only the RDATA names of
the eleven well-known types are ever compressed -/
theorem compress_flags_rfc1035 : ∀ (ty : Nat) (info : RRInfo) (f : String),
    rrKind ty = some (.regular info) → (f, Fld.name true) ∈ info.flds →
    ty ∈ [2, 3, 4, 5, 6, 7, 8, 9, 12, 14, 15] := by
  intro ty info f hk hf
  show ty ∈ compressTypes
  have h := rows_forall (chk := fun ty info =>
    !(info.flds.any (fun f => f.2 == .name true)) || compressTypes.contains ty) (by decide) hk
  have hany : info.flds.any (fun f => f.2 == .name true) = true :=
    List.any_eq_true.mpr ⟨_, hf, by simp⟩
  simpa [hany] using h

/-- … and conversely every name of those types is compressible -/
theorem compressTypes_all_compress {ty : Nat} {info : RRInfo} (hk : rrKind ty = some (.regular info))
    (hty : ty ∈ compressTypes) : ∀ f ∈ info.flds, f.2 ≠ .name false := by
  have h := rows_forall (chk := fun ty info =>
    !(compressTypes.contains ty) || info.flds.all (fun f => f.2 != .name false)) (by decide) hk
  have hc : compressTypes.contains ty = true := List.contains_iff_mem.mpr hty
  simp only [hc, Bool.not_true, Bool.false_or, List.all_eq_true] at h
  intro f hf
  simpa using h f hf

/-- **C18.** A well-formed record of a type without compressible name fields is written with its
RDATA fields literally: the rendered values are the given ones (same case), and every name among them
is read with ZERO pointer hops from exactly its uncompressed wire octets `Name.wire n`. (The owner name
in front may of course be compressed.) -/
theorem rdata_no_pointer {S : Nat → Prop} {e e' : Enc} {rr : RR} {info : RRInfo} {vs : List FVal}
    (hinv : EInv S e) (hwf : WfRR rr) (hk : rrKind rr.ty = some (.regular info))
    (hnc : ∀ f ∈ info.flds, f.2 ≠ .name true) (hrd : rr.rd = .fields vs)
    (h : encRR e rr = .ok e') :
    ∀ buf', Agree (ext S e.out.length e'.out.length) e'.out buf' →
      ∃ owner' e1 rdlen, owner'.lower = rr.name.lower ∧ NameRefAt buf' true e.out.length owner' e1 ∧
        e'.out.length = e1 + 10 + rdlen ∧ BytesAt buf' (e1 + 8) (beBytes 2 rdlen) ∧
        LitFieldsAt buf' (e1 + 10 + rdlen) (e1 + 10) (info.flds.map (·.2)) vs := by
  obtain ⟨name, ty, cls, ttl, rd⟩ := rr
  simp only at hk hrd
  subst hrd
  obtain ⟨⟨info', hk', hvs⟩, hname, _, _⟩ := hwf
  simp only at hk' hvs hname
  rw [hk] at hk'
  cases hk'
  have hnc' : ∀ f ∈ info.flds.map (·.2), f ≠ .name true := by
    intro f hf
    obtain ⟨g, hg, rfl⟩ := List.mem_map.mp hf
    exact hnc g hg
  have hw := (frame_spec hname _ (encFieldsU_spec hvs (rrKind_lastOnly hk) hnc')).of_eq
    (encRR_regular_eq (rr := ⟨name, ty, cls, ttl, .fields vs⟩) hk rfl)
  obtain ⟨_, _, _, hf⟩ := hw S e e' hinv h
  intro buf' ha
  obtain ⟨n', m, len, hci, hn, _, hH, ht, hlit⟩ := (hf buf' ha).elim (by simp)
  refine ⟨n', m, len, hci, hn, ht, ?_, hlit⟩
  have := bytesAt_right hH
  simpa using this

/-- for the eight types of `literalNameTypes` the hypothesis of `rdata_no_pointer` holds -/
theorem literalNameTypes_no_compress {ty : Nat} {info : RRInfo} (hk : rrKind ty = some (.regular info))
    (hty : ty ∈ literalNameTypes) : ∀ f ∈ info.flds, f.2 ≠ .name true :=
  ((literalNameTypes_spec hk).mp hty).2

/-! ### K1: the SVCB / HTTPS target IS compressed by the encoder (RFC 9460 §2.2 forbids it)

`a. SVCB 1 a.`: the target name inside the RDATA is the pointer `c0 00` to the owner name. -/

def k1Record : RR := { name := [[97]], ty := 64, cls := 1, ttl := 0, rd := .svcb 1 [[97]] [] }

theorem svcb_target_compressed_witness :
    encodeRR k1Record = .ok [1, 97, 0, 0, 64, 0, 1, 0, 0, 0, 0, 0, 4, 0, 1, 0xC0, 0x00] := rfl

/-- the record of the witness is well-formed, so `encRR_spec` applies to it: the grammar (which
allows pointers in every name position) is respected, the RFC 9460 rule is not -/
theorem k1Record_wf : WfRR k1Record := by
  have hn : WfName [[97]] := by
    refine ⟨?_, by decide, ?_⟩
    · intro l hl; simp at hl; subst hl; simp [wfLabel]
    · intro l hl; simp at hl; subst hl; decide
  refine ⟨⟨⟨false, rfl⟩, by decide, hn, trivial, fun p hp => by simp at hp, fun h => by simp at h⟩,
    hn, ⟨by decide, rfl⟩, by decide⟩

/-! ## Non-vacuity -/

/-- `a. MX 10 b.a.`: the exchange is compressed against the owner name -/
example : ∃ e', encRR {} ⟨[[97]], 15, 1, 60, .fields [.num 10, .name [[98], [97]]]⟩ = .ok e' ∧
    e'.out = [1, 97, 0, 0, 15, 0, 1, 0, 0, 0, 60, 0, 6, 0, 10, 1, 98, 0xC0, 0] := ⟨_, rfl, rfl⟩

/-- `a. SRV 0 0 80 a.` (a type of `literalNameTypes`): the target is NOT compressed -/
example : ∃ e', encRR {} ⟨[[97]], 33, 1, 0, .fields [.num 0, .num 0, .num 80, .name [[97]]]⟩ = .ok e' ∧
    e'.out = [1, 97, 0, 0, 33, 0, 1, 0, 0, 0, 0, 0, 9, 0, 0, 0, 0, 0, 80, 1, 97, 0] := ⟨_, rfl, rfl⟩

end EncSpec
