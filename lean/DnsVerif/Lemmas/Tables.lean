import DnsVerif.Model.Dec
import DnsVerif.Model.Enc
import DnsVerif.Spec.Iana

/-! # Helper lemmas for the code-table part of C11

Closed forms of the decoder entry points that validate a code point against a regenerated table
(`decCode` = `decodeType/Class/QType/QClass`, `decField (.enum ..)`, `D.family`, `decOption`, and the
checks inside `decRR`, `decQuestion`, `checkClass`). -/

namespace C11

/-- membership in a code table, as list membership of the code -/
theorem inTable_iff (t : List (String × Nat)) (n : Nat) : inTable t n = true ↔ n ∈ t.map (·.2) := by
  simp [inTable, List.any_eq_true]

theorem inTable_false_iff (t : List (String × Nat)) (n : Nat) : inTable t n = false ↔ n ∉ t.map (·.2) := by
  rw [← inTable_iff]; simp

/-- the decoder state after two octets were consumed from a fresh `Decoder::main` -/
def consumed2 (b : Bytes) : D := { buf := b, off := 2, lim := b.length, cost := 2 }

/-! ## Two-octet big-endian numbers -/

theorem beBytes2_eq (n : Nat) : beBytes 2 n = [UInt8.ofNat (n / 256 % 256), UInt8.ofNat (n % 256)] := by
  simp [beBytes]

theorem beBytes2_val {n : Nat} (h : n < 65536) :
    (UInt8.ofNat (n / 256 % 256)).toNat * 256 + (UInt8.ofNat (n % 256)).toNat = n := by
  rw [UInt8.ofNat_toNat_lt (by omega), UInt8.ofNat_toNat_lt (by omega)]; omega

theorem num2_at0 (a b : UInt8) (r : Bytes) (lim c : Nat) (h : 2 ≤ lim) :
    ({ buf := a :: b :: r, off := 0, lim := lim, cost := c } : D).num 2 =
      .ok (a.toNat * 256 + b.toNat, { buf := a :: b :: r, off := 2, lim := lim, cost := c + 2 }) := by
  simp [D.num, D.read, beVal, h]

/-! ## `decCode` (the four public code decoders) -/

/-- on at least two octets: the big-endian value of the first two, accepted iff in the table -/
theorem decCode_two (known : Nat → Bool) (err : Nat → DErr) (a b : UInt8) (rest : Bytes) :
    decCode known err (D.main (a :: b :: rest)) =
      if known (a.toNat * 256 + b.toNat) = true
      then .ok (a.toNat * 256 + b.toNat, consumed2 (a :: b :: rest))
      else .error (err (a.toNat * 256 + b.toNat)) := by
  have n0 := num2_at0 a b rest (rest.length + 1 + 1) 0 (by omega)
  unfold decCode
  simp only [D.main, List.length_cons, n0]
  cases known (a.toNat * 256 + b.toNat) <;> simp [consumed2]

theorem decCode_short (known : Nat → Bool) (err : Nat → DErr) (b : Bytes) (h : b.length < 2) :
    decCode known err (D.main b) = .error .notEnoughBytes := by
  have : ¬ (2 ≤ b.length) := by omega
  simp [decCode, D.main, D.num, D.read, this]

theorem decCode_beBytes2 (known : Nat → Bool) (err : Nat → DErr) (n : Nat) (h : n < 65536) :
    decCode known err (D.main (beBytes 2 n)) =
      if known n = true then .ok (n, consumed2 (beBytes 2 n)) else .error (err n) := by
  rw [beBytes2_eq, decCode_two, beBytes2_val h]

/-! ## Validated fields inside records and options -/

theorem decField_enum (d d' : D) (w n : Nat) (id : EnumId) (h : d.num w = .ok (n, d')) :
    decField d (.enum w id) = if id.valid n = true then .ok (.num n, d') else .error (id.err n) := by
  simp [decField, h]

theorem family_closed (d d' : D) (n : Nat) (h : d.num 2 = .ok (n, d')) :
    d.family = if inTable Gen.enumAddressFamilyNumber n = true then .ok (n, d')
               else .error (.ecsAddressNumber n) := by
  simp [D.family, h]

theorem decOption_bad_code (d d' : D) (code : Nat) (h : d.num 2 = .ok (code, d'))
    (hk : inTable Gen.enumEDNSOptionCode code = false) :
    decOption d = .error (.ednsOptionCode code) := by
  simp [decOption, h, hk]

theorem decRR_bad_type (d d1 d2 : D) (name : Name) (ty : Nat) (h1 : d.name = .ok (name, d1))
    (h2 : d1.num 2 = .ok (ty, d2)) (hk : typeKnown ty = false) : decRR d = .error (.type ty) := by
  simp [decRR, h1, h2, hk]

theorem decQuestion_bad_qtype (d d1 d2 : D) (name : Name) (qt : Nat) (h1 : d.name = .ok (name, d1))
    (h2 : d1.num 2 = .ok (qt, d2)) (hk : qtypeKnown qt = false) : decQuestion d = .error (.qtype qt) := by
  simp [decQuestion, h1, h2, hk]

theorem decQuestion_bad_qclass (d d1 d2 d3 : D) (name : Name) (qt qc : Nat) (h1 : d.name = .ok (name, d1))
    (h2 : d1.num 2 = .ok (qt, d2)) (hk : qtypeKnown qt = true) (h3 : d2.num 2 = .ok (qc, d3))
    (hc : qclassKnown qc = false) : decQuestion d = .error (.qclass qc) := by
  simp [decQuestion, h1, h2, hk, h3, hc]

theorem checkClass_bad (cls : Nat) (io : Option (Nat → DErr)) (hk : classKnown cls = false) :
    checkClass cls io = .error (.class_ cls) := by
  simp [checkClass, hk]

/-! ## Set equality of two explicit lists from two decidable inclusions -/

theorem mem_iff_of_subsets {α : Type} {l1 l2 : List α} (h12 : ∀ x ∈ l1, x ∈ l2) (h21 : ∀ x ∈ l2, x ∈ l1)
    (x : α) : x ∈ l1 ↔ x ∈ l2 := ⟨h12 x, h21 x⟩

/-! ## Where the record table uses validated code points and type names -/

/-- the validated (`.enum`) fields of record type `t`: field name, width in octets, validator -/
def enumFieldsOf (t : Nat) : List (String × Nat × EnumId) :=
  match rrKind t with
  | some (.regular i) =>
    i.flds.filterMap (fun p => match p.2 with
      | .enum w id => some (p.1, w, id)
      | _ => none)
  | _ => []

/-- all validated fields of all implemented record types -/
def enumFieldSites : List (Nat × String × Nat × EnumId) :=
  implementedTypes.flatMap (fun t => (enumFieldsOf t).map (fun x => (t, x)))

/-- the printed type name the record table attaches to code `t` is the crate's variant name -/
def tnameOk (t : Nat) : Bool :=
  match rrKind t with
  | some (.regular i) => Gen.enumType.contains (i.tname, t)
  | some _ => typeKnown t
  | none => false

end C11
