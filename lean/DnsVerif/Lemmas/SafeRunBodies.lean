import DnsVerif.Lemmas.SafeRunName

/-! # Final cost of every run: fields, EDNS options, APL items, SvcParams, RDATA bodies

The definitions `fC` mirror `Model/Dec.lean` line by line: `bindC (g d) (gC d) fun a d1 => …` where the
model has `match g d with | .error e => .error e | .ok (a, d1) => …`; pure validation after the last
read does not change the counter, so the final cost of the last reading step is the final cost of the
function. -/

namespace Safe

/-! ## Regular fields -/

def octsC : Nat → Nat → D → Nat
  | 0, _, d => d.cost
  | k+1, c, d => bindC (d.read c) d.cost fun _ d1 => octsC k c d1

theorem octs_postC : ∀ (k c : Nat) (d : D), D.Ok d → c < 2 ^ 63 →
    PostC 1 d (D.octs k c d) (octsC k c d) := by
  intro k
  induction k with
  | zero => intro c d _ _; unfold D.octs octsC; exact PostC.ok_here
  | succ k ih =>
    intro c d hd hc
    unfold D.octs octsC
    cbind read_post hd hc, FailC.here with b d1 s1
    clast (octs_post k c d1 s1.ok hc), (ih c d1 s1.ok hc)

def cstrsC : Nat → D → Nat
  | 0, d => d.cost
  | fuel+1, d =>
    match d.isFinished with
    | .error _ => d.cost
    | .ok true => d.cost
    | .ok false => bindC d.cstr (cstrC d) fun _ d1 => cstrsC fuel d1

theorem cstrs_postC : ∀ (fuel : Nat) (d : D), D.Ok d → d.lim - d.off < fuel →
    PostC 1 d (D.cstrs fuel d) (cstrsC fuel d) := by
  intro fuel
  induction fuel with
  | zero => intro d _ h; omega
  | succ fuel ih =>
    intro d hd hf
    unfold D.cstrs cstrsC
    rw [isFinished_eq hd]
    by_cases hfin : d.off = d.lim
    · simp only [hfin, decide_true]; exact PostC.ok_here
    · simp only [hfin, decide_false]
      cbind cstr_post hd, (cstr_postC hd).fail with s d1 s1
      have hf1 := s1.fuel (by omega) hf
      clast (cstrs_post fuel d1 s1.ok hf1), (ih d1 s1.ok hf1)

def decFieldC (d : D) : Fld → Nat
  | .num w => primC (d.num w) d
  | .enum w _ => primC (d.num w) d
  | .name _ => nameC d
  | .cstr _ => cstrC d
  | .ocstr _ =>
    match d.isFinished with
    | .error _ => d.cost
    | .ok true => d.cost
    | .ok false => cstrC d
  | .strs => cstrsC (d.lim - d.off + 1) d
  | .rest _ => primC d.rest d
  | .oct k c => octsC k c d

theorem decField_postC {d : D} (hd : D.Ok d) (f : Fld) (hs : f.small = true) :
    PostC 289 d (decField d f) (decFieldC d f) := by
  cases f with
  | num w =>
    simp only [decField, decFieldC]
    have hw : w ≤ 8 := by simpa [Fld.small] using hs
    cprim (num_post hd (w := w) (by omega))
  | «enum» w id =>
    simp only [decField, decFieldC]
    have hw : w ≤ 8 := by simpa [Fld.small] using hs
    cprim (num_post hd (w := w) (by omega))
  | name c =>
    simp only [decField, decFieldC]
    clast (name_post hd), (name_postC hd)
  | cstr c =>
    simp only [decField, decFieldC]
    clast (cstr_post hd), (cstr_postC hd)
  | ocstr c =>
    simp only [decField, decFieldC]
    rw [isFinished_eq hd]
    by_cases hfin : d.off = d.lim
    · simp only [hfin, decide_true]; exact PostC.ok_here
    · simp only [hfin, decide_false]
      clast (cstr_post hd), (cstr_postC hd)
  | strs =>
    simp only [decField, decFieldC]
    clast (cstrs_post (d.lim - d.off + 1) d hd (by omega)), (cstrs_postC (d.lim - d.off + 1) d hd (by omega))
  | rest u =>
    simp only [decField, decFieldC]
    cprim (rest_post hd)
  | oct k c =>
    simp only [decField, decFieldC]
    have hw : c ≤ 8 := by simpa [Fld.small] using hs
    clast (octs_post k c d hd (by omega)), (octs_postC k c d hd (by omega))

def decFieldsC (d : D) : List Fld → Nat
  | [] => d.cost
  | f :: fs => bindC (decField d f) (decFieldC d f) fun _ d1 => decFieldsC d1 fs

theorem decFields_postC : ∀ (fs : List Fld) (d : D), D.Ok d → fs.all Fld.small = true →
    PostC 289 d (decFields d fs) (decFieldsC d fs) := by
  intro fs
  induction fs with
  | nil => intro d _ _; simp only [decFields, decFieldsC]; exact PostC.ok_here
  | cons f fs ih =>
    intro d hd hs
    simp only [List.all_cons, Bool.and_eq_true] at hs
    simp only [decFields, decFieldsC]
    cbind decField_post hd f hs.1, (decField_postC hd f hs.1).fail with v d1 s1
    clast (decFields_post fs d1 s1.ok hs.2), (ih d1 s1.ok hs.2)

/-! ## Address prefixes, EDNS options -/

def familyC (d : D) : Nat := primC (d.num 2) d

theorem family_postC {d : D} (hd : D.Ok d) : PostC 1 d d.family (familyC d) := by
  unfold D.family familyC
  cprim (num_post hd (w := 2) (by omega))

/-- the address octets are handed out before the size guard -/
def addressC (d : D) : Nat := primC d.rest d

theorem address_postC {d : D} (hd : D.Ok d) (fam : Nat) : PostC 1 d (d.address fam) (addressC d) := by
  unfold D.address addressC
  cprim (rest_post hd)

def decEcsC (d : D) : Nat :=
  bindC d.family (familyC d) fun _ d1 =>
    bindC (d1.num 1) d1.cost fun _ d2 =>
      bindC (d2.num 1) d2.cost fun _ d3 => addressC d3

theorem decEcs_postC {d : D} (hd : D.Ok d) : PostC 1 d (decEcs d) (decEcsC d) := by
  unfold decEcs decEcsC
  cbind family_post hd, (family_postC hd).fail with fam d1 s1
  cbind num_post s1.ok (w := 1) (by omega), FailC.here with src d2 s2
  cbind num_post s2.ok (w := 1) (by omega), FailC.here with scope d3 s3
  clast (address_post s3.ok fam), (address_postC s3.ok fam)

def decCookieC (d : D) : Nat := primC d.rest d

theorem decCookie_postC {d : D} (hd : D.Ok d) : PostC 1 d (decCookie d) (decCookieC d) := by
  unfold decCookie decCookieC
  cprim (rest_post hd)

def decPaddingC (d : D) : Nat := primC d.rest d

theorem decPadding_postC {d : D} (hd : D.Ok d) : PostC 1 d (decPadding d) (decPaddingC d) := by
  unfold decPadding decPaddingC
  cprim (rest_post hd)

def decOptionC (d : D) : Nat :=
  bindC (d.num 2) d.cost fun code d1 =>
    if !inTable Gen.enumEDNSOptionCode code then d1.cost else
    bindC (d1.num 2) d1.cost fun len d2 =>
      withSubC d2 len
        (fun c => if code = 8 then decEcs c else if code = 10 then decCookie c else decPadding c)
        (fun c => if code = 8 then decEcsC c else if code = 10 then decCookieC c else decPaddingC c)

theorem decOption_postC {d : D} (hd : D.Ok d) : PostC 2 d (decOption d) (decOptionC d) := by
  unfold decOption decOptionC
  cbind num_post hd (w := 2) (by omega), FailC.here with code d1 s1
  split
  · exact PostC.err_here
  · cbind num_post s1.ok (w := 2) (by omega), FailC.here with len d2 s2
    refine withSub_postC (K := 1) s2.ok (fun c hc _ _ _ => ?_)
    split
    · exact ⟨(decEcs_post hc).weaken (Nat.le_refl _) (by omega), decEcs_postC hc⟩
    · split
      · exact ⟨decCookie_post hc, decCookie_postC hc⟩
      · exact ⟨decPadding_post hc, decPadding_postC hc⟩

def decOptionsC : Nat → D → Nat
  | 0, d => d.cost
  | fuel+1, d =>
    match d.isFinished with
    | .error _ => d.cost
    | .ok true => d.cost
    | .ok false => bindC (decOption d) (decOptionC d) fun _ d1 => decOptionsC fuel d1

theorem decOptions_postC : ∀ (fuel : Nat) (d : D), D.Ok d → d.lim - d.off < fuel →
    PostC 2 d (decOptions fuel d) (decOptionsC fuel d) := by
  intro fuel
  induction fuel with
  | zero => intro d _ h; omega
  | succ fuel ih =>
    intro d hd hf
    unfold decOptions decOptionsC
    rw [isFinished_eq hd]
    by_cases hfin : d.off = d.lim
    · simp only [hfin, decide_true]; exact PostC.ok_here
    · simp only [hfin, decide_false]
      cbind decOption_post hd, (decOption_postC hd).fail with o d1 s1
      have hf1 := s1.fuel (by omega) hf
      clast (decOptions_post fuel d1 s1.ok hf1), (ih d1 s1.ok hf1)

/-! ## APL -/

def decApItemC (d : D) : Nat :=
  bindC d.family (familyC d) fun fam d1 =>
    bindC (d1.num 1) d1.cost fun _ d2 =>
      bindC (d2.num 1) d2.cost fun b d3 =>
        withSubC d3 (b &&& 127) (fun c => c.address fam) addressC

theorem decApItem_postC {d : D} (hd : D.Ok d) : PostC 2 d (decApItem d) (decApItemC d) := by
  unfold decApItem decApItemC
  cbind family_post hd, (family_postC hd).fail with fam d1 s1
  cbind num_post s1.ok (w := 1) (by omega), FailC.here with pfx d2 s2
  cbind num_post s2.ok (w := 1) (by omega), FailC.here with b d3 s3
  have hlen : b &&& 127 < 2 ^ 63 := by
    have : b &&& 127 ≤ 127 := Nat.and_le_right
    omega
  clast (withSub_post (K := 1) (f := fun c => c.address fam) s3.ok hlen
      (fun c hc _ _ _ => address_post hc fam)),
    (withSub_postC (K := 1) (f := fun c => c.address fam) (fc := addressC) s3.ok
      (fun c hc _ _ _ => ⟨address_post hc fam, address_postC hc fam⟩))

def decApItemsC : Nat → D → Nat
  | 0, d => d.cost
  | fuel+1, d =>
    match d.isFinished with
    | .error _ => d.cost
    | .ok true => d.cost
    | .ok false => bindC (decApItem d) (decApItemC d) fun _ d1 => decApItemsC fuel d1

theorem decApItems_postC : ∀ (fuel : Nat) (d : D), D.Ok d → d.lim - d.off < fuel →
    PostC 2 d (decApItems fuel d) (decApItemsC fuel d) := by
  intro fuel
  induction fuel with
  | zero => intro d _ h; omega
  | succ fuel ih =>
    intro d hd hf
    unfold decApItems decApItemsC
    rw [isFinished_eq hd]
    by_cases hfin : d.off = d.lim
    · simp only [hfin, decide_true]; exact PostC.ok_here
    · simp only [hfin, decide_false]
      cbind decApItem_post hd, (decApItem_postC hd).fail with o d1 s1
      have hf1 := s1.fuel (by omega) hf
      clast (decApItems_post fuel d1 s1.ok hf1), (ih d1 s1.ok hf1)

/-! ## SVCB / HTTPS -/

def nums16C : Nat → D → Nat
  | 0, d => d.cost
  | fuel+1, d =>
    match d.isFinished with
    | .error _ => d.cost
    | .ok true => d.cost
    | .ok false => bindC (d.num 2) d.cost fun _ d1 => nums16C fuel d1

theorem nums16_postC : ∀ (fuel : Nat) (d : D), D.Ok d → d.lim - d.off < fuel →
    PostC 1 d (D.nums16 fuel d) (nums16C fuel d) := by
  intro fuel
  induction fuel with
  | zero => intro d _ h; omega
  | succ fuel ih =>
    intro d hd hf
    unfold D.nums16 nums16C
    rw [isFinished_eq hd]
    by_cases hfin : d.off = d.lim
    · simp only [hfin, decide_true]; exact PostC.ok_here
    · simp only [hfin, decide_false]
      cbind num_post hd (w := 2) (by omega), FailC.here with n d1 s1
      have hf1 := s1.fuel (by omega) hf
      clast (nums16_post fuel d1 s1.ok hf1), (ih d1 s1.ok hf1)

def hintsC : Nat → Nat → Nat → D → Nat
  | 0, _, _, d => d.cost
  | fuel+1, k, c, d =>
    match d.isFinished with
    | .error _ => d.cost
    | .ok true => d.cost
    | .ok false => bindC (D.octs k c d) (octsC k c d) fun _ d1 => hintsC fuel k c d1

theorem hints_postC : ∀ (fuel k c : Nat) (d : D), D.Ok d → 0 < k * c → c < 2 ^ 63 →
    d.lim - d.off < fuel → PostC 1 d (D.hints fuel k c d) (hintsC fuel k c d) := by
  intro fuel
  induction fuel with
  | zero => intro k c d _ _ _ h; omega
  | succ fuel ih =>
    intro k c d hd hkc hc hf
    unfold D.hints hintsC
    rw [isFinished_eq hd]
    by_cases hfin : d.off = d.lim
    · simp only [hfin, decide_true]; exact PostC.ok_here
    · simp only [hfin, decide_false]
      cbind octs_post k c d hd hc, (octs_postC k c d hd hc).fail with h d1 s1
      have hf1 := s1.fuel hkc hf
      clast (hints_post fuel k c d1 s1.ok hkc hc hf1), (ih k c d1 s1.ok hkc hc hf1)

def decSvcParamC (key : Nat) (d : D) : Nat :=
  let fuel := d.lim - d.off + 1
  if key = 0 then nums16C fuel d
  else if key = 1 then cstrsC fuel d
  else if key = 2 then d.cost
  else if key = 3 then primC (d.num 2) d
  else if key = 4 then hintsC fuel 1 4 d
  else if key = 5 then bindC (d.num 2) d.cost fun _ d1 => primC d1.rest d1
  else if key = 6 then hintsC fuel 8 2 d
  else if key = 65535 then d.cost
  else primC d.rest d

theorem decSvcParam_postC (key : Nat) {d : D} (hd : D.Ok d) :
    PostC 1 d (decSvcParam key d) (decSvcParamC key d) := by
  unfold decSvcParam decSvcParamC
  dsimp only
  split
  · clast (nums16_post _ d hd (by omega)), (nums16_postC _ d hd (by omega))
  split
  · clast (cstrs_post _ d hd (by omega)), (cstrs_postC _ d hd (by omega))
  split
  · exact PostC.ok_here
  split
  · cprim (num_post hd (w := 2) (by omega))
  split
  · clast (hints_post _ 1 4 d hd (by omega) (by omega) (by omega)),
      (hints_postC _ 1 4 d hd (by omega) (by omega) (by omega))
  split
  · cbind num_post hd (w := 2) (by omega), FailC.here with len d1 s1
    cprim (rest_post s1.ok)
  split
  · clast (hints_post _ 8 2 d hd (by omega) (by omega) (by omega)),
      (hints_postC _ 8 2 d hd (by omega) (by omega) (by omega))
  split
  · exact PostC.ok_here
  · cprim (rest_post hd)

def decSvcParamsC : Nat → D → List SvcParam → Nat
  | 0, d, _ => d.cost
  | fuel+1, d, acc =>
    match d.isFinished with
    | .error _ => d.cost
    | .ok true => d.cost
    | .ok false =>
      bindC (d.num 2) d.cost fun key d1 =>
        bindC (d1.num 2) d1.cost fun len d2 =>
          bindC (d2.withSub len (decSvcParam key)) (withSubC d2 len (decSvcParam key) (decSvcParamC key))
            fun p d3 =>
              match insertParam p acc with
              | none => d3.cost
              | some acc => decSvcParamsC fuel d3 acc

theorem decSvcParams_postC : ∀ (fuel : Nat) (d : D) (acc : List SvcParam), D.Ok d →
    d.lim - d.off < fuel → PostC 2 d (decSvcParams fuel d acc) (decSvcParamsC fuel d acc) := by
  intro fuel
  induction fuel with
  | zero => intro d _ _ h; omega
  | succ fuel ih =>
    intro d acc hd hf
    unfold decSvcParams decSvcParamsC
    rw [isFinished_eq hd]
    by_cases hfin : d.off = d.lim
    · simp only [hfin, decide_true]; exact PostC.ok_here
    · simp only [hfin, decide_false]
      cbind num_post hd (w := 2) (by omega), FailC.here with key d1 s1
      refine Post.elim (num_post s1.ok (w := 2) (by omega)) (fun _ _ => PostC.err_here)
        (fun len d2 h2 s2 => ?_)
      dsimp only [bindC]
      refine PostC.trans s2 (by omega) ?_
      cbind (withSub_post (K := 1) (f := decSvcParam key) s2.ok (num2_lt s1.ok h2)
          (fun c hc _ _ _ => decSvcParam_post key hc)),
        (withSub_postC (K := 1) (f := decSvcParam key) (fc := decSvcParamC key) s2.ok
          (fun c hc _ _ _ => ⟨decSvcParam_post key hc, decSvcParam_postC key hc⟩)).fail with p d3 s3
      cases hins : insertParam p acc with
      | none => exact PostC.err_here
      | some acc' =>
        dsimp only
        have hf3 : d3.lim - d3.off < fuel := by
          have := s1.off; have := s2.off; have := s3.off
          have := s1.lim; have := s2.lim; have := s3.lim; have := s3.ok.off_le
          omega
        exact ih d3 acc' s3.ok hf3

/-! ## The RDATA dispatcher -/

def decRDataC (name : Name) (ty cls ttl : Nat) (c : D) : Nat :=
  match rrKind ty with
  | none => c.cost
  | some (.regular info) =>
    match checkClass cls info.inOnly with
    | .error _ => c.cost
    | .ok () => decFieldsC c (info.flds.map (·.2))
  | some .opt =>
    if name ≠ [] then c.cost else
    match optTtl ttl with
    | .error _ => c.cost
    | .ok _ => decOptionsC (c.lim - c.off + 1) c
  | some .apl =>
    match checkClass cls (some .aplClass) with
    | .error _ => c.cost
    | .ok () => decApItemsC (c.lim - c.off + 1) c
  | some (.svcb _) =>
    match checkClass cls (some .svcbClass) with
    | .error _ => c.cost
    | .ok () =>
      bindC (c.num 2) c.cost fun prio c1 =>
        bindC c1.name (nameC c1) fun _ c2 =>
          if prio = 0 then c2.cost else decSvcParamsC (c2.lim - c2.off + 1) c2 []

theorem decRData_postC (name : Name) (ty cls ttl : Nat) {c : D} (hc : D.Ok c) :
    PostC 289 c (decRData name ty cls ttl c) (decRDataC name ty cls ttl c) := by
  unfold decRData decRDataC
  cases hk : rrKind ty with
  | none => exact PostC.err_here
  | some k =>
    cases k with
    | regular info =>
      dsimp only
      cases hcc : checkClass cls info.inOnly with
      | error e => exact PostC.err_here
      | ok u =>
        dsimp only
        clast (decFields_post _ c hc (rrKind_small hk)), (decFields_postC _ c hc (rrKind_small hk))
    | opt =>
      dsimp only
      split
      · exact PostC.err_here
      · cases hot : optTtl ttl with
        | error e => exact PostC.err_here
        | ok t =>
          dsimp only
          clast (decOptions_post (c.lim - c.off + 1) c hc (by omega)),
            (decOptions_postC (c.lim - c.off + 1) c hc (by omega))
    | apl =>
      dsimp only
      cases hcc : checkClass cls (some .aplClass) with
      | error e => exact PostC.err_here
      | ok u =>
        dsimp only
        clast (decApItems_post (c.lim - c.off + 1) c hc (by omega)),
          (decApItems_postC (c.lim - c.off + 1) c hc (by omega))
    | svcb https =>
      dsimp only
      cases hcc : checkClass cls (some .svcbClass) with
      | error e => exact PostC.err_here
      | ok u =>
        dsimp only
        cbind num_post hc (w := 2) (by omega), FailC.here with prio c1 s1
        cbind name_post s1.ok, (name_postC s1.ok).fail with target c2 s2
        split
        · exact PostC.ok_here
        · clast (decSvcParams_post (c2.lim - c2.off + 1) c2 [] s2.ok (by omega)),
            (decSvcParams_postC (c2.lim - c2.off + 1) c2 [] s2.ok (by omega))

/-! ## Non-vacuity: an OPT body whose second option is truncated: 8 octets were handed out for the first
option (4 header, 2 window, 2 padding), then 4 for the header of the second, then the window read fails -/

private def exD : D := { buf := [0, 12, 0, 2, 0, 0, 0, 12, 0, 9, 0], off := 0, lim := 11, cost := 0 }

example : decOptions 12 exD = .error .notEnoughBytes := rfl
example : decOptionsC 12 exD = 12 := by decide

end Safe
