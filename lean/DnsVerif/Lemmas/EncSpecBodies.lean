import DnsVerif.Lemmas.EncSpecFields
import DnsVerif.Lemmas.AddrEmit

/-! # Encoder ⇒ wire grammar: the irregular bodies (EDNS options, APL items, SvcParams)

`encOption_spec`, `encOptions_spec`, `encApItem_spec`, `encApItems_spec`, `encSvcParam_spec`,
`encSvcParams_spec`, the facts about `sortNat` (a sorted permutation, idempotent), and the
normal form `RR.norm` / `Msg.norm` that the encoder theorems compare (names up to ASCII case, the
key list of `mandatory` up to order). -/

/-! ## The abstraction compared by the encoder theorems

`Msg.lower` (names up to ASCII case) and additionally the `mandatory` key list sorted: the encoder
writes the keys in ascending order (`sort_unstable`), whatever order the value holds. -/

def SvcParam.norm : SvcParam → SvcParam
  | .mandatory ks => .mandatory (sortNat ks)
  | p => p

def RData.norm : RData → RData
  | .fields vs => .fields (vs.map FVal.lower)
  | .svcb p t ps => .svcb p t.lower (ps.map SvcParam.norm)
  | r => r

def RR.norm (r : RR) : RR := { r with name := r.name.lower, rd := r.rd.norm }

def Msg.norm (m : Msg) : Msg :=
  { m with qs := m.qs.map Question.lower, an := m.an.map RR.norm, ns := m.ns.map RR.norm,
           ar := m.ar.map RR.norm }

namespace EncSpec

theorem bytesAt_cast {buf : Bytes} {off off' : Nat} {x : Bytes} (h : BytesAt buf off x) (e : off = off') :
    BytesAt buf off' x := e ▸ h

/-! ## `sortNat` is a sorted permutation -/

theorem insertSorted_perm (x : Nat) : ∀ l : List Nat, (insertSorted x l).Perm (x :: l) := by
  intro l
  induction l with
  | nil => exact List.Perm.refl _
  | cons y r ih =>
    unfold insertSorted
    split
    · exact List.Perm.refl _
    · exact (List.Perm.cons y ih).trans (List.Perm.swap x y r)

theorem sortNat_perm : ∀ l : List Nat, (sortNat l).Perm l := by
  intro l
  induction l with
  | nil => exact List.Perm.refl _
  | cons x r ih => exact (insertSorted_perm x (sortNat r)).trans (List.Perm.cons x ih)

theorem mem_sortNat {l : List Nat} {k : Nat} : k ∈ sortNat l ↔ k ∈ l := (sortNat_perm l).mem_iff

theorem length_sortNat (l : List Nat) : (sortNat l).length = l.length := (sortNat_perm l).length_eq

theorem insertSorted_sorted (x : Nat) : ∀ l : List Nat, l.Pairwise (· ≤ ·) →
    (insertSorted x l).Pairwise (· ≤ ·) := by
  intro l
  induction l with
  | nil => intro _; simp [insertSorted]
  | cons y r ih =>
    intro h
    have hy := (List.pairwise_cons.mp h).1
    have hr := (List.pairwise_cons.mp h).2
    unfold insertSorted
    split
    · rename_i hxy
      refine List.pairwise_cons.mpr ⟨?_, h⟩
      intro z hz
      rcases List.mem_cons.mp hz with rfl | hz
      · exact hxy
      · exact Nat.le_trans hxy (hy z hz)
    · rename_i hxy
      refine List.pairwise_cons.mpr ⟨?_, ih hr⟩
      intro z hz
      rcases List.mem_cons.mp ((insertSorted_perm x r).mem_iff.mp hz) with rfl | hz
      · omega
      · exact hy z hz

theorem sortNat_sorted : ∀ l : List Nat, (sortNat l).Pairwise (· ≤ ·) := by
  intro l
  induction l with
  | nil => simp [sortNat]
  | cons x r ih => exact insertSorted_sorted x _ ih

theorem sortNat_of_sorted : ∀ l : List Nat, l.Pairwise (· ≤ ·) → sortNat l = l := by
  intro l
  induction l with
  | nil => intro _; rfl
  | cons x r ih =>
    intro h
    have hx := (List.pairwise_cons.mp h).1
    rw [sortNat, ih (List.pairwise_cons.mp h).2]
    cases r with
    | nil => rfl
    | cons y r' => simp [insertSorted, hx y (by simp)]

/-- sorting twice is sorting once -/
theorem sortNat_idem (l : List Nat) : sortNat (sortNat l) = sortNat l :=
  sortNat_of_sorted _ (sortNat_sorted l)

theorem SvcParam.norm_idem (p : SvcParam) : p.norm.norm = p.norm := by
  cases p <;> simp [SvcParam.norm, sortNat_idem]

theorem SvcParam.norm_key (p : SvcParam) : p.norm.key = p.key := by
  cases p <;> rfl

/-! ## Address prefixes -/

theorem take_take_length {α : Type} (a : List α) (j : Nat) : a.take (a.take j).length = a.take j := by
  rw [List.take_eq_take_iff, List.length_take]; omega

theorem prefixAddr_of_take {buf : Bytes} {off k fam pfx : Nat} {addr : Bytes}
    (hfam : fam = 1 ∨ fam = 2) (hlen : addr.length = famWidth fam) (hk : k ≤ addr.length)
    (hb : BytesAt buf off (addr.take k)) (hz : ∀ x ∈ addr.drop k, x = 0)
    (hp : pfx ≤ 8 * famWidth fam) (hno : NoBitBeyond addr pfx) : PrefixAddrAt buf off k fam pfx addr :=
  ⟨hfam, hlen, by omega, hb, hz, hp, hno⟩

/-- the ECS writer: the emitted octets are a prefix of the address and everything cut off is zero -/
theorem prefixAddr_ecs {buf : Bytes} {off fam p : Nat} {addr : Bytes}
    (hfam : fam = 1 ∨ fam = 2) (hlen : addr.length = famWidth fam)
    (hp : p ≤ 8 * famWidth fam) (hno : NoBitBeyond addr p)
    (hb : BytesAt buf off (addrWithPrefix addr p)) :
    PrefixAddrAt buf off (addrWithPrefix addr p).length fam p addr := by
  have hlk := addrWithPrefix_length addr p
  refine prefixAddr_of_take hfam hlen (by omega) ?_ ?_ hp hno
  · rw [addrWithPrefix_eq, take_take_length, ← addrWithPrefix_eq]; exact hb
  · intro x hx
    rw [List.mem_drop_iff_getElem] at hx
    obtain ⟨i, hi, rfl⟩ := hx
    exact hno.octet_zero _ (by omega) (by omega)

/-- the APL writer: trailing zero octets are dropped -/
theorem prefixAddr_apl {buf : Bytes} {off fam p : Nat} {addr : Bytes}
    (hfam : fam = 1 ∨ fam = 2) (hlen : addr.length = famWidth fam)
    (hp : p ≤ 8 * famWidth fam) (hno : NoBitBeyond addr p)
    (hb : BytesAt buf off (stripZeros addr)) :
    PrefixAddrAt buf off (stripZeros addr).length fam p addr := by
  refine prefixAddr_of_take hfam hlen (stripZeros_length_le addr) ?_ (stripZeros_dropped addr) hp hno
  rw [← stripZeros_eq_take]; exact hb

/-! ## EDNS options -/

/-- **One EDNS option** (ECS / COOKIE / PADDING): code, back-patched length = octets covered, data. -/
theorem encOption_spec {o : EdnsOpt} (hwf : WfOption o) :
    WSpec (fun e => encOption e o) (fun buf s t => OptionAt buf s o t) := by
  cases o with
  | ecs fam src scope addr =>
    obtain ⟨hfam, hlen, hsrc, hscope, hp, hno⟩ := hwf
    refine ((spec_seq (spec_put (beBytes 2 8)) (spec_win16 (spec_seq
      (spec_put (beBytes 2 fam ++ beBytes 1 src ++ beBytes 1 scope))
      (spec_put (addrWithPrefix addr (max src scope)))))).of_eq (fun e => rfl)).conseq ?_
    rintro buf s t _ _ ⟨m, _, _, ⟨rfl, h8⟩, len, hlen16, hL, rfl, m2, _, _, ⟨rfl, hA⟩, hm2, hB⟩
    simp only [beBytes_length, List.length_append] at hm2 hB hA hL ⊢
    have hk : len - 4 = (addrWithPrefix addr (max src scope)).length := by omega
    have e1 : s + 2 + 2 + len = s + 4 + len := by omega
    rw [e1]
    refine .ecs (bytesAt_append h8 (by simpa using hL)) (by omega) (by omega)
      (bytesAt_cast hA (by omega)) hsrc hscope ?_
    rw [hk]
    exact prefixAddr_ecs hfam hlen hp hno (bytesAt_cast hB (by omega))
  | cookie client server =>
    obtain ⟨hc, hs⟩ := hwf
    cases server with
    | none =>
      refine ((spec_seq (spec_put (beBytes 2 10)) (spec_win16 (spec_put client))).of_eq
        (fun e => rfl)).conseq ?_
      rintro buf s t _ _ ⟨m, _, _, ⟨rfl, h10⟩, len, _, hL, rfl, hm2, hB⟩
      simp only [beBytes_length] at hm2 hB hL ⊢
      have hk : len = 8 := by omega
      subst hk
      have := OptionAt.cookie (buf := buf) (off := s) (client := client) (server := none) hc hs
        (by
          simp only [Option.getD_none, List.length_nil, Nat.add_zero, List.append_nil]
          exact bytesAt_append (bytesAt_append h10 (by simpa using hL)) (by simpa using hB))
      simpa using this
    | some sv =>
      refine ((spec_seq (spec_put (beBytes 2 10)) (spec_win16 (spec_seq (spec_put client)
        (spec_put sv)))).of_eq (fun e => rfl)).conseq ?_
      rintro buf s t _ _ ⟨m, _, _, ⟨rfl, h10⟩, len, _, hL, rfl, m2, _, _, ⟨rfl, hC⟩, hm2, hB⟩
      simp only [beBytes_length] at hm2 hB hL hC ⊢
      have hk : len = 8 + sv.length := by omega
      subst hk
      have := OptionAt.cookie (buf := buf) (off := s) (client := client) (server := some sv) hc hs
        (by
          simp only [Option.getD_some]
          refine bytesAt_append (bytesAt_append (bytesAt_append h10 (by simpa using hL))
            (by simpa using hC)) ?_
          simp only [List.length_append, beBytes_length, hc]
          exact bytesAt_cast hB (by omega))
      simp only [Option.getD_some] at this
      rw [show s + 2 + 2 + (8 + sv.length) = s + 4 + 8 + sv.length by omega]
      exact this
  | padding n =>
    refine ((spec_put (beBytes 2 12 ++ beBytes 2 n ++ List.replicate n 0)).of_eq (fun e => rfl)).conseq ?_
    rintro buf s t _ _ ⟨rfl, hb⟩
    have e : s + (beBytes 2 12 ++ beBytes 2 n ++ List.replicate n 0).length = s + 4 + n := by
      simp; omega
    rw [e]
    exact .padding hwf hb

theorem chain_options {buf : Bytes} {lim : Nat} : ∀ {off : Nat} {l : List EdnsOpt},
    ChainAt (fun o buf off t => OptionAt buf off o t) buf lim off l → OptionsAt buf lim off l := by
  intro off l h
  induction h with
  | nil => exact .nil
  | cons _ h2 hΦ _ ih => exact .cons hΦ h2 ih

/-- the options fill the OPT RDATA window exactly -/
theorem encOptions_spec {l : List EdnsOpt} (hl : ∀ o ∈ l, WfOption o) :
    WSpec (fun e => encOptions e l) (fun buf off t => OptionsAt buf t off l) := by
  refine (spec_list encOptions encOption (fun _ => rfl) (fun _ _ _ => rfl)
    (Φ := fun o buf off t => OptionAt buf off o t) (P := WfOption)
    (fun o ho => encOption_spec ho) l hl).conseq ?_
  intro buf s t _ _ h
  exact chain_options h

/-! ## APL items -/

theorem or128 : ∀ len < 128, len ||| 128 = len + 128 := by decide

theorem aplOctet_eq {neg : Bool} {len : Nat} (h : len < 128) :
    aplOctet neg len = UInt8.ofNat (len + if neg then 128 else 0) := by
  unfold aplOctet
  cases neg
  · simp
  · simp [or128 len h]

/-- **One APL item**: family, prefix, back-patched length / negation octet = address octets that
follow, address without its trailing zero octets. -/
theorem encApItem_spec {it : APItem} (hwf : WfApItem it) :
    WSpec (fun e => encApItem e it) (fun buf s t => ApItemAt buf s it t) := by
  obtain ⟨hfam, hlen, hpfx, hp, hno⟩ := hwf
  refine ((spec_seq (spec_put (beBytes 2 it.fam ++ beBytes 1 it.pfx))
    (spec_win8 it.neg (spec_put (stripZeros it.addr)))).of_eq (fun e => rfl)).conseq ?_
  rintro buf s t _ _ ⟨m, _, _, ⟨rfl, hH⟩, len, hlen7, hO, rfl, hm2, hB⟩
  simp only [beBytes_length, List.length_append] at hm2 hB hO ⊢
  have hk : len = (stripZeros it.addr).length := by omega
  rw [show s + (2 + 1) + 1 + len = s + 4 + len by omega]
  refine .mk hpfx hlen7 (bytesAt_append hH ?_) ?_
  · rw [← aplOctet_eq hlen7]
    exact bytesAt_singleton (by simpa using hO)
  · rw [hk]
    exact prefixAddr_apl hfam hlen hp hno (bytesAt_cast hB (by omega))

theorem chain_apItems {buf : Bytes} {lim : Nat} : ∀ {off : Nat} {l : List APItem},
    ChainAt (fun o buf off t => ApItemAt buf off o t) buf lim off l → ApItemsAt buf lim off l := by
  intro off l h
  induction h with
  | nil => exact .nil
  | cons _ h2 hΦ _ ih => exact .cons hΦ h2 ih

theorem encApItems_spec {l : List APItem} (hl : ∀ o ∈ l, WfApItem o) :
    WSpec (fun e => encApItems e l) (fun buf off t => ApItemsAt buf t off l) := by
  refine (spec_list encApItems encApItem (fun _ => rfl) (fun _ _ _ => rfl)
    (Φ := fun o buf off t => ApItemAt buf off o t) (P := WfApItem)
    (fun o ho => encApItem_spec ho) l hl).conseq ?_
  intro buf s t _ _ h
  exact chain_apItems h

/-! ## SvcParams -/

/-- the value part of `encSvcParam` as a writer -/
def svcBody (p : SvcParam) : Writer := fun e =>
  match p with
  | .mandatory ks => .ok (e.put ((sortNat ks).flatMap (beBytes 2)))
  | .alpn ids => encCstrs e ids
  | .noDefaultAlpn => .ok e
  | .port p => .ok (e.put (beBytes 2 p))
  | .ipv4hint hs => .ok (e.put hs.flatten)
  | .ech b => if b.length > 65535 then .error .length else .ok (e.put (beBytes 2 b.length ++ b))
  | .ipv6hint hs => .ok (e.put hs.flatten)
  | .priv _ b => .ok (e.put b)
  | .key65535 => .ok e

theorem encSvcParam_eq (p : SvcParam) (e : Enc) :
    encSvcParam e p = wSeq (wPut (beBytes 2 p.key)) (wWin16 (svcBody p)) e := by
  cases p <;> rfl

theorem length_flatMap_be2 (ks : List Nat) : (ks.flatMap (beBytes 2)).length = 2 * ks.length := by
  induction ks with
  | nil => rfl
  | cons k r ih => simp only [List.flatMap_cons, List.length_append, beBytes_length, ih, List.length_cons]; omega

theorem length_flatten_const {c : Nat} : ∀ (hs : List Bytes), (∀ h ∈ hs, h.length = c) →
    hs.flatten.length = c * hs.length := by
  intro hs
  induction hs with
  | nil => intro _; simp
  | cons h r ih =>
    intro hall
    simp only [List.flatten_cons, List.length_append, List.length_cons]
    rw [ih (fun x hx => hall x (by simp [hx])), hall h (by simp), Nat.mul_succ]; omega

/-- the value of one SvcParam inside its own window; `mandatory` is written sorted -/
theorem svcBody_spec {p : SvcParam} (hwf : WfParam p) :
    WSpec (svcBody p) (fun buf s t => SvcValueAt buf t s p.norm) := by
  cases p with
  | mandatory ks =>
    refine ((spec_put ((sortNat ks).flatMap (beBytes 2))).of_eq (fun e => rfl)).conseq ?_
    rintro buf s t _ _ ⟨rfl, hb⟩
    exact .mandatory (fun k hk => hwf k (mem_sortNat.mp hk)) hb (by rw [length_flatMap_be2])
  | alpn ids =>
    refine ((encCstrs_spec (l := ids) (fun s hs => (hwf s hs).2)).of_eq (fun e => rfl)).conseq ?_
    intro buf s t _ _ h
    exact .alpn h
  | noDefaultAlpn =>
    refine (spec_skip.of_eq (fun e => rfl)).conseq ?_
    rintro buf s t _ _ rfl
    exact .noDefaultAlpn
  | port p =>
    refine ((spec_put (beBytes 2 p)).of_eq (fun e => rfl)).conseq ?_
    rintro buf s t _ _ ⟨rfl, hb⟩
    exact .port hwf hb (by simp)
  | ipv4hint hs =>
    refine ((spec_put hs.flatten).of_eq (fun e => rfl)).conseq ?_
    rintro buf s t _ _ ⟨rfl, hb⟩
    exact .ipv4hint hwf hb (by rw [length_flatten_const hs hwf])
  | ech b =>
    have hb' : ¬ b.length > 65535 := by have : b.length < 65536 := hwf; omega
    refine ((spec_put (beBytes 2 b.length ++ b)).of_eq (fun e => by simp [svcBody, hb', wPut])).conseq ?_
    rintro buf s t _ _ ⟨rfl, hb⟩
    exact .ech hb hwf (by simp; omega)
  | ipv6hint hs =>
    refine ((spec_put hs.flatten).of_eq (fun e => rfl)).conseq ?_
    rintro buf s t _ _ ⟨rfl, hb⟩
    exact .ipv6hint hwf hb (by rw [length_flatten_const hs hwf])
  | priv k b =>
    refine ((spec_put b).of_eq (fun e => rfl)).conseq ?_
    rintro buf s t _ _ ⟨rfl, hb⟩
    exact .priv hwf.1 hwf.2 hb rfl
  | key65535 =>
    refine (spec_skip.of_eq (fun e => rfl)).conseq ?_
    rintro buf s t _ _ rfl
    exact .key65535

/-- **One SvcParam**: key, back-patched length = octets of the value, value (`mandatory` sorted). -/
theorem encSvcParam_spec {p : SvcParam} (hwf : WfParam p) :
    WSpec (fun e => encSvcParam e p) (fun buf s t => SvcParamAt buf s p.norm t) := by
  refine ((spec_seq (spec_put (beBytes 2 p.key)) (spec_win16 (svcBody_spec hwf))).of_eq
    (encSvcParam_eq p)).conseq ?_
  rintro buf s t _ _ ⟨m, _, _, ⟨rfl, hK⟩, len, hlen, hL, rfl, hV⟩
  simp only [beBytes_length] at hL hV ⊢
  rw [show s + 2 + 2 + len = s + 4 + len by omega] at hV ⊢
  refine .mk (by omega) (bytesAt_append (by rw [SvcParam.norm_key]; exact hK) (by simpa using hL)) ?_
  exact (show s + 2 + 2 = s + 4 by omega) ▸ hV

theorem chain_svcParams {buf : Bytes} {lim : Nat} : ∀ {off : Nat} {l : List SvcParam},
    ChainAt (fun o buf off t => SvcParamAt buf off o.norm t) buf lim off l →
    SvcParamsAt buf lim off (l.map SvcParam.norm) := by
  intro off l h
  induction h with
  | nil => exact .nil
  | cons _ h2 hΦ _ ih => exact .cons hΦ h2 ih

/-- the parameters in the given order (each one normalised) fill the rest of the RDATA window -/
theorem encSvcParams_spec {l : List SvcParam} (hl : ∀ o ∈ l, WfParam o) :
    WSpec (fun e => encSvcParams e l) (fun buf off t => SvcParamsAt buf t off (l.map SvcParam.norm)) := by
  refine (spec_list encSvcParams encSvcParam (fun _ => rfl) (fun _ _ _ => rfl)
    (Φ := fun o buf off t => SvcParamAt buf off o.norm t) (P := WfParam)
    (fun o ho => encSvcParam_spec ho) l hl).conseq ?_
  intro buf s t _ _ h
  exact chain_svcParams h

/-- normalising keeps the keys, hence their order -/
theorem keysSorted_norm : ∀ {l : List SvcParam}, keysSorted l → keysSorted (l.map SvcParam.norm) := by
  intro l
  induction l with
  | nil => exact id
  | cons a r ih =>
    cases r with
    | nil => intro _; trivial
    | cons b r' =>
      intro h
      exact ⟨by rw [SvcParam.norm_key, SvcParam.norm_key]; exact h.1, ih h.2⟩

/-! ## Non-vacuity -/

attribute [local instance] Lemmas.decEqExcept

/-- ECS 10.1.0.0/16: option length 7 covers family, two prefix lengths and three address octets -/
example : WfOption (.ecs 1 16 0 [10, 1, 0, 0]) ∧
    ∃ e', encOption {} (.ecs 1 16 0 [10, 1, 0, 0]) = .ok e' ∧ e'.out = [0, 8, 0, 7, 0, 1, 16, 0, 10, 1, 0] := by
  refine ⟨⟨.inl rfl, rfl, by decide, by decide, by decide, ?_⟩, _, rfl, rfl⟩
  exact ((checkPrefix_ok_iff _ _).mp (by decide)).2

/-- APL !10.0.0.0/8: one address octet, negation bit set -/
example : WfApItem ⟨1, 8, true, [10, 0, 0, 0]⟩ ∧
    ∃ e', encApItem {} ⟨1, 8, true, [10, 0, 0, 0]⟩ = .ok e' ∧ e'.out = [0, 1, 8, 129, 10] := by
  refine ⟨⟨.inl rfl, rfl, by decide, by decide, ?_⟩, _, rfl, rfl⟩
  exact ((checkPrefix_ok_iff _ _).mp (by decide)).2

/-- `mandatory = [3, 1]` is written as `1, 3` -/
example : WfParam (.mandatory [3, 1]) ∧
    ∃ e', encSvcParam {} (.mandatory [3, 1]) = .ok e' ∧ e'.out = [0, 0, 0, 4, 0, 1, 0, 3] :=
  ⟨by intro k hk; simp at hk; omega, _, rfl, rfl⟩

example : sortNat [5, 3, 9, 3, 0] = [0, 3, 3, 5, 9] := by decide

end EncSpec
