import DnsVerif.Lemmas.RTEmbedAll

/-! # Round trip, part 7 (C10): a stand-alone record is what the message encoder writes,
UP TO THE SHIFT OF POINTER OFFSETS

`RT.elem_embeds` needs the hypothesis "the stand-alone encoding contains no compression pointer". This
file removes it: the stand-alone encoding `b` of a record and the octets `b'` that the record occupies
as first record of a message (empty question section) have the same length and are equal octet by octet,
except that at the positions `P` where `b` holds a compression pointer to `t`, `b'` holds a pointer to
`t + 12` (`ShiftEq P 12 b b'`), provided `b.length + 12 ≤ 0x4000` (see `elem_embeds_shift`).

Method: lock-step simulation of run A (fresh encoder) and run B (encoder after the 12 header octets).
* `Tab k eA eB`: B's output is `k` octets longer, B's compression table is A's table with every offset
  moved by `k` (same keys, same order, same depths), every offset in A's table is below A's output length;
* `Sh k s x y P` (inductive, structural): `y` is `x` with the pointers at the absolute positions `P`
  (`x` starts at absolute position `s`) moved by `k`; it composes by concatenation (`Sh.append`) and
  implies the positional statement `ShiftEq` (`Sh.toShiftEq`);
* `ShStep k eA eB eA' eB'`: both runs appended `Sh`-related octets and `Tab` is kept.
The only writer that is not a plain `put` of value-determined octets is `Encoder::domain_name`
(`encNameGo_shift`); RDLENGTH is the same in both runs because `Sh` keeps lengths.

Proved here (exact statements below): `elem_embeds_sh` (structural form), `elem_embeds_shift_of_shaped`
(`ShiftEq` form, only the shape premise `ShapedMsg m`), `elem_embeds_shift` (the same with the unused
hypothesis `WfRR rr`, the signature asked for), `question_embeds` (a question embeds verbatim), and a
non-vacuity example (MX `a` / `b.a`: pointer `c0 00` stand-alone, `c0 0c` inside a message).

Why `b.length + 12 ≤ 0x4000`: the insertion guard `off ≤ 0x3FFF` of the compression table sees offsets that
are 12 larger in run B. Without the hypothesis the shape-only statement is false (`#eval` on the model):
owner = 63 labels of 255 × `a`, one label of 251 × `b`, the label `x` (written at offset 16380), type MX,
exchange `x`: stand-alone the exchange is the pointer `ff fc` (16397 octets in all), inside the message the
label `x` sits at 16392 > 0x3FFF, is not registered, and the exchange is written literally as `01 78 00`
(16410 - 12 = 16398 octets): the lengths differ. (That owner is not a `WfName`; for `WfRR` records every
compressible name lies in the first few hundred octets and the size hypothesis is not needed at all:
`elem_embeds_shift_wf` in `RTShift2.lean`.) -/

namespace RTS

open EncLim

/-! ## The statement layer -/

/-- the 14-bit pointer target stored at position `i`, if the two octets at `i` form a compression pointer -/
def ptrAt (b : Bytes) (i : Nat) : Option Nat :=
  match b[i]?, b[i+1]? with
  | some h, some l => if 0xC0 ≤ h.toNat then some ((h.toNat - 0xC0) * 256 + l.toNat) else none
  | _, _ => none

/-- `b'` is `b` with the pointers at the positions `P` moved by `k`; nothing else differs -/
structure ShiftEq (P : List Nat) (k : Nat) (b b' : Bytes) : Prop where
  len  : b.length = b'.length
  same : ∀ i, i < b.length → i ∉ P → (∀ p ∈ P, i ≠ p + 1) → b[i]? = b'[i]?
  ptr  : ∀ p ∈ P, ∃ t, ptrAt b p = some t ∧ ptrAt b' p = some (t + k) ∧ t < p

/-! ## The structural relation -/

/-- `y` is `x` (which starts at absolute position `s`) with the backward pointers at the absolute
positions `P` (in increasing order) moved by `k` -/
inductive Sh (k : Nat) : Nat → Bytes → Bytes → List Nat → Prop
  | nil (s : Nat) : Sh k s [] [] []
  | same (s : Nat) (c : UInt8) (x y : Bytes) (P : List Nat) : Sh k (s + 1) x y P → Sh k s (c :: x) (c :: y) P
  | ptr (s t : Nat) (x y : Bytes) (P : List Nat) : t < s → t + k ≤ 0x3FFF → Sh k (s + 2) x y P →
      Sh k s (ptrBytes t ++ x) (ptrBytes (t + k) ++ y) (s :: P)

theorem Sh.refl (k : Nat) : ∀ (x : Bytes) (s : Nat), Sh k s x x [] := by
  intro x
  induction x with
  | nil => intro s; exact Sh.nil s
  | cons c x ih => intro s; exact Sh.same s c x x [] (ih (s + 1))

theorem Sh.one_ptr {k s t : Nat} (h1 : t < s) (h2 : t + k ≤ 0x3FFF) :
    Sh k s (ptrBytes t) (ptrBytes (t + k)) [s] := by
  simpa using Sh.ptr s t [] [] [] h1 h2 (Sh.nil _)

theorem Sh.append {k : Nat} {s : Nat} {x y : Bytes} {P : List Nat} (h : Sh k s x y P) :
    ∀ {x' y' : Bytes} {P' : List Nat}, Sh k (s + x.length) x' y' P' → Sh k s (x ++ x') (y ++ y') (P ++ P') := by
  induction h with
  | nil s => intro x' y' P' h2; simpa using h2
  | same s c x y P _ ih =>
    intro x' y' P' h2
    have e : s + (c :: x).length = s + 1 + x.length := by simp only [List.length_cons]; omega
    rw [e] at h2
    exact Sh.same s c _ _ _ (ih h2)
  | ptr s t x y P h1 h2 _ ih =>
    intro x' y' P' h3
    have e : s + (ptrBytes t ++ x).length = s + 2 + x.length := by
      simp only [List.length_append, ptrBytes_length]; omega
    rw [e] at h3
    have := Sh.ptr s t _ _ _ h1 h2 (ih h3)
    simpa only [List.append_assoc, List.cons_append] using this

theorem ptrAt_cons_succ (c : UInt8) (x : Bytes) (i : Nat) : ptrAt (c :: x) (i + 1) = ptrAt x i := by
  simp [ptrAt]

theorem ptrAt_ptrBytes {t : Nat} (h : t ≤ 0x3FFF) (x : Bytes) : ptrAt (ptrBytes t ++ x) 0 = some t := by
  have h1 : (UInt8.ofNat (192 + t / 256)).toNat = 192 + t / 256 := UInt8.ofNat_toNat_lt (by omega)
  have h2 : (UInt8.ofNat (t % 256)).toNat = t % 256 := UInt8.ofNat_toNat_lt (by omega)
  simp only [ptrAt, ptrBytes, List.cons_append, List.nil_append, List.getElem?_cons_zero, Nat.zero_add,
    List.getElem?_cons_succ, h1, h2]
  rw [if_pos (by omega)]
  congr 1
  omega

/-- what `Sh` says position by position -/
theorem Sh.spec {k s : Nat} {x y : Bytes} {P : List Nat} (h : Sh k s x y P) :
    x.length = y.length ∧ (∀ p ∈ P, s ≤ p) ∧
    (∀ i, s + i ∉ P → (∀ p ∈ P, s + i ≠ p + 1) → x[i]? = y[i]?) ∧
    (∀ p ∈ P, ∃ t, ptrAt x (p - s) = some t ∧ ptrAt y (p - s) = some (t + k) ∧ t < p) := by
  induction h with
  | nil s => exact ⟨rfl, by simp, fun _ _ _ => rfl, by simp⟩
  | same s c x y P _ ih =>
    obtain ⟨ih1, ih2, ih3, ih4⟩ := ih
    refine ⟨by simp [ih1], fun p hp => by have := ih2 p hp; omega, fun i hi1 hi2 => ?_, fun p hp => ?_⟩
    · cases i with
      | zero => rfl
      | succ i =>
        have e : s + (i + 1) = s + 1 + i := by omega
        rw [e] at hi1 hi2
        simpa using ih3 i hi1 hi2
    · obtain ⟨t, ht1, ht2, ht3⟩ := ih4 p hp
      have := ih2 p hp
      have e : p - s = (p - (s + 1)) + 1 := by omega
      rw [e, ptrAt_cons_succ, ptrAt_cons_succ]
      exact ⟨t, ht1, ht2, ht3⟩
  | ptr s t x y P h1 h2 _ ih =>
    obtain ⟨ih1, ih2, ih3, ih4⟩ := ih
    refine ⟨by simp [ptrBytes, ih1], fun p hp => ?_, fun i hi1 hi2 => ?_, fun p hp => ?_⟩
    · rcases List.mem_cons.mp hp with rfl | hp
      · exact Nat.le_refl _
      · have := ih2 p hp; omega
    · cases i with
      | zero => exact absurd (by simp) hi1
      | succ i =>
        cases i with
        | zero => exact absurd rfl (hi2 s (by simp))
        | succ i =>
          have e : s + (i + 1 + 1) = s + 2 + i := by omega
          rw [e] at hi1 hi2
          have := ih3 i (fun hm => hi1 (List.mem_cons_of_mem _ hm))
            (fun p hp => hi2 p (List.mem_cons_of_mem _ hp))
          simpa [ptrBytes] using this
    · rcases List.mem_cons.mp hp with rfl | hp
      · rw [Nat.sub_self, ptrAt_ptrBytes (by omega), ptrAt_ptrBytes h2]
        exact ⟨t, rfl, rfl, h1⟩
      · obtain ⟨t', ht1, ht2, ht3⟩ := ih4 p hp
        have := ih2 p hp
        have e : p - s = (p - (s + 2)) + 1 + 1 := by omega
        rw [e]
        simp only [ptrBytes, List.cons_append, List.nil_append, ptrAt_cons_succ]
        exact ⟨t', ht1, ht2, ht3⟩

/-- the structural relation from position 0 implies the positional one -/
theorem Sh.toShiftEq {k : Nat} {x y : Bytes} {P : List Nat} (h : Sh k 0 x y P) : ShiftEq P k x y := by
  obtain ⟨h1, _, h3, h4⟩ := h.spec
  refine ⟨h1, fun i _ hi1 hi2 => h3 i (by simpa using hi1) (by simpa using hi2), fun p hp => ?_⟩
  simpa using h4 p hp

/-! ## The relation between the two runs -/

def shiftIdx (k : Nat) (idx : List (Name × Nat × Nat)) : List (Name × Nat × Nat) :=
  idx.map (fun q => (q.1, q.2.1 + k, q.2.2))

def shiftLoc (k : Nat) (loc : List (Name × Nat)) : List (Name × Nat) :=
  loc.map (fun q => (q.1, q.2 + k))

/-- run B is run A moved by `k` octets -/
structure Tab (k : Nat) (eA eB : Enc) : Prop where
  len : eB.out.length = eA.out.length + k
  idx : eB.idx = shiftIdx k eA.idx
  lt : ∀ q ∈ eA.idx, q.2.1 < eA.out.length

theorem Tab.put {k : Nat} {eA eB : Enc} (h : Tab k eA eB) (x : Bytes) : Tab k (eA.put x) (eB.put x) :=
  ⟨by simp only [put_out, List.length_append, h.len]; omega, h.idx,
   fun q hq => by have := h.lt q hq; simp only [put_out, List.length_append]; omega⟩

theorem lookup_shift {k : Nat} {eA eB : Enc} (h : Tab k eA eB) (n : Name) :
    eB.lookup n = (eA.lookup n).map (fun v => (v.1 + k, v.2)) := by
  unfold Enc.lookup
  rw [h.idx, shiftIdx, List.find?_map]
  cases hf : eA.idx.find? ((fun p => ciEq p.1 n) ∘ fun q => (q.1, q.2.1 + k, q.2.2)) with
  | none =>
    have hf' : eA.idx.find? (fun p => ciEq p.1 n) = none := hf
    simp [hf']
  | some q =>
    have hf' : eA.idx.find? (fun p => ciEq p.1 n) = some q := hf
    simp [hf']

/-- both runs appended related octets and are still related -/
def ShStep (k : Nat) (eA eB eA' eB' : Enc) : Prop :=
  ∃ xA xB Q, eA'.out = eA.out ++ xA ∧ eB'.out = eB.out ++ xB ∧ Sh k eA.out.length xA xB Q ∧ Tab k eA' eB'

theorem ShStep.tab {k : Nat} {eA eB eA' eB' : Enc} (h : ShStep k eA eB eA' eB') : Tab k eA' eB' := by
  obtain ⟨_, _, _, _, _, _, t⟩ := h; exact t

theorem ShStep.refl {k : Nat} {eA eB : Enc} (tab : Tab k eA eB) : ShStep k eA eB eA eB :=
  ⟨[], [], [], by simp, by simp, Sh.nil _, tab⟩

theorem ShStep.put {k : Nat} {eA eB : Enc} (tab : Tab k eA eB) (x : Bytes) :
    ShStep k eA eB (eA.put x) (eB.put x) :=
  ⟨x, x, [], rfl, rfl, Sh.refl k x _, tab.put x⟩

theorem ShStep.trans {k : Nat} {eA eB eA1 eB1 eA2 eB2 : Enc} (h1 : ShStep k eA eB eA1 eB1)
    (h2 : ShStep k eA1 eB1 eA2 eB2) : ShStep k eA eB eA2 eB2 := by
  obtain ⟨x, x', Q, hxA, hxB, hs, _⟩ := h1
  obtain ⟨y, y', Q', hyA, hyB, hs', tab⟩ := h2
  rw [hxA, List.length_append] at hs'
  exact ⟨x ++ y, x' ++ y', Q ++ Q', by rw [hyA, hxA]; simp, by rw [hyB, hxB]; simp, hs.append hs', tab⟩

/-! ## Names -/

/-- the two ways `Encoder::domain_name` can succeed on a non-root name: a usable table hit (pointer), or
a literal label followed by the rest -/
theorem go_cons_cases {e e' : Enc} {l : Label} {rest : Name} {loc : List (Name × Nat)}
    (h : encNameGo e (l :: rest) loc = .ok e') :
    (∃ off r, e.lookup (l :: rest) = some (off, r) ∧ off ≤ 0x3FFF ∧ r < 16 ∧
      e' = { out := e.out ++ ptrBytes off, idx := loc.map (fun p => (p.1, p.2, r + 1)) ++ e.idx }) ∨
    ((∀ off r, e.lookup (l :: rest) = some (off, r) → 16 ≤ r) ∧
      encNameGo { e with out := e.out ++ (UInt8.ofNat l.length :: l) } rest
        (if e.out.length ≤ 0x3FFF then (l :: rest, e.out.length) :: loc else loc) = .ok e') := by
  have hlit : ∀ (_ : (if e.out.length > 65535 then Except.error EErr.length
        else if l.length > 255 then Except.error EErr.string
        else encNameGo { e with out := e.out ++ (UInt8.ofNat l.length :: l) } rest
              (if e.out.length ≤ 0x3FFF then (l :: rest, e.out.length) :: loc else loc)) = .ok e'),
      encNameGo { e with out := e.out ++ (UInt8.ofNat l.length :: l) } rest
        (if e.out.length ≤ 0x3FFF then (l :: rest, e.out.length) :: loc else loc) = .ok e' := by
    intro h
    split at h; · cases h
    split at h; · cases h
    exact h
  unfold encNameGo at h
  cases hlk : e.lookup (l :: rest) with
  | none =>
    simp only [hlk] at h
    exact Or.inr ⟨fun _ _ hc => (by cases hc), hlit h⟩
  | some pr =>
    obtain ⟨off, r⟩ := pr
    simp only [hlk] at h
    split at h; · cases h
    rename_i h0
    split at h
    · rename_i hr
      exact Or.inr ⟨fun o' r' hc => (by cases hc; exact hr), hlit h⟩
    · rename_i hr
      simp only [Enc.merge] at h
      have h3 : ¬ (r + 1 > 16) := by omega
      rw [if_neg h3] at h
      cases h
      exact Or.inl ⟨off, r, rfl, by omega, by omega, rfl⟩

/-- `Encoder::domain_name` appends at least one octet -/
theorem go_len {e e' : Enc} {n : Name} {loc : List (Name × Nat)} (h : encNameGo e n loc = .ok e') :
    e.out.length < e'.out.length := by
  obtain ⟨⟨pre, post, _, _, _, ho⟩, _⟩ := encNameGo_shape n e e' loc h
  rcases ho with ⟨_, ho⟩ | ⟨_, off, _, ho⟩
  · rw [ho]; simp only [List.length_append, List.length_cons, List.length_nil]; omega
  · rw [ho]; simp only [List.length_append, ptrBytes_length]; omega

theorem merge_tab {k : Nat} {eA eB : Enc} (tab : Tab k eA eB) {locA : List (Name × Nat)}
    (hloc : ∀ q ∈ locA, q.2 < eA.out.length) (xA xB : Bytes) (hx : xA.length = xB.length) (r : Nat) :
    Tab k { out := eA.out ++ xA, idx := locA.map (fun p => (p.1, p.2, r)) ++ eA.idx }
      { out := eB.out ++ xB, idx := (shiftLoc k locA).map (fun p => (p.1, p.2, r)) ++ eB.idx } := by
  refine ⟨?_, ?_, ?_⟩
  · simp only [List.length_append, tab.len, hx]; omega
  · simp only [tab.idx, shiftIdx, shiftLoc, List.map_append, List.map_map]
    rfl
  · intro q hq
    simp only [List.mem_append, List.mem_map] at hq
    simp only [List.length_append]
    rcases hq with ⟨p, hp, rfl⟩ | hq
    · have := hloc p hp; simp only; omega
    · have := tab.lt q hq; omega

/-- **lock-step for `Encoder::domain_name`**: a hit in A is the corresponding hit in B (same depth, offset
moved by `k`), the insertion guards agree because everything stays below `0x4000 - k` -/
theorem encNameGo_shift (k : Nat) : ∀ (n : Name) (eA eB eA' eB' : Enc) (locA : List (Name × Nat)),
    Tab k eA eB → (∀ q ∈ locA, q.2 < eA.out.length) →
    encNameGo eA n locA = .ok eA' → encNameGo eB n (shiftLoc k locA) = .ok eB' →
    eA'.out.length + k ≤ 0x4000 → ShStep k eA eB eA' eB' := by
  intro n
  induction n with
  | nil =>
    intro eA eB eA' eB' locA tab hloc hA hB _
    simp [encNameGo, Enc.merge] at hA hB
    subst hA; subst hB
    exact ⟨[0], [0], [], rfl, rfl, Sh.refl k _ _, merge_tab tab hloc [0] [0] rfl 0⟩
  | cons l rest ih =>
    intro eA eB eA' eB' locA tab hloc hA hB hN
    have hlk := lookup_shift tab (l :: rest)
    have lit : encNameGo { eA with out := eA.out ++ (UInt8.ofNat l.length :: l) } rest
          (if eA.out.length ≤ 0x3FFF then (l :: rest, eA.out.length) :: locA else locA) = .ok eA' →
        encNameGo { eB with out := eB.out ++ (UInt8.ofNat l.length :: l) } rest
          (if eB.out.length ≤ 0x3FFF then (l :: rest, eB.out.length) :: shiftLoc k locA else shiftLoc k locA) =
            .ok eB' → ShStep k eA eB eA' eB' := by
      intro hA' hB'
      have hlen := go_len hA'
      simp only [List.length_append, List.length_cons] at hlen
      have hcA : eA.out.length ≤ 0x3FFF := by omega
      have hcB : eB.out.length ≤ 0x3FFF := by rw [tab.len]; omega
      rw [if_pos hcA] at hA'
      rw [if_pos hcB] at hB'
      have e : (l :: rest, eB.out.length) :: shiftLoc k locA =
          shiftLoc k ((l :: rest, eA.out.length) :: locA) := by
        simp [shiftLoc, tab.len]
      rw [e] at hB'
      have tab1 := tab.put (UInt8.ofNat l.length :: l)
      refine (ShStep.put tab (UInt8.ofNat l.length :: l)).trans (ih _ _ eA' eB' _ tab1 ?_ hA' hB' hN)
      intro q hq
      simp only [put_out, List.length_append, List.length_cons]
      rcases List.mem_cons.mp hq with rfl | hq
      · simp only; omega
      · have := hloc q hq; omega
    rcases go_cons_cases hA with ⟨off, r, hlkA, _, hr, rfl⟩ | ⟨hdA, hA'⟩
    · rw [hlkA] at hlk
      rcases go_cons_cases hB with ⟨offB, rB, hlkB, _, _, rfl⟩ | ⟨hdB, _⟩
      · rw [hlkB] at hlk
        simp only [Option.map_some, Option.some.injEq, Prod.mk.injEq] at hlk
        obtain ⟨rfl, rfl⟩ := hlk
        obtain ⟨q, hq, hqv⟩ := RT.lookup_some_mem hlkA
        have hlt := tab.lt q hq
        rw [hqv] at hlt
        simp only [List.length_append, ptrBytes_length] at hN
        refine ⟨ptrBytes off, ptrBytes (off + k), [eA.out.length], rfl, rfl,
          Sh.one_ptr hlt (by omega), merge_tab tab hloc (ptrBytes off) (ptrBytes (off + k)) rfl _⟩
      · have := hdB (off + k) r (by rw [hlk]; rfl)
        omega
    · rcases go_cons_cases hB with ⟨offB, rB, hlkB, _, hrB, rfl⟩ | ⟨_, hB'⟩
      · rw [hlkB] at hlk
        cases hlkA : eA.lookup (l :: rest) with
        | none => rw [hlkA] at hlk; simp at hlk
        | some v =>
          rw [hlkA] at hlk
          simp only [Option.map_some, Option.some.injEq, Prod.mk.injEq] at hlk
          have := hdA v.1 v.2 hlkA
          omega
      · exact lit hA' hB'

theorem encName_shift {k : Nat} {n : Name} {eA eB eA' eB' : Enc} (tab : Tab k eA eB)
    (hA : encName eA n = .ok eA') (hB : encName eB n = .ok eB') (hN : eA'.out.length + k ≤ 0x4000) :
    ShStep k eA eB eA' eB' :=
  encNameGo_shift k n eA eB eA' eB' [] tab (fun q hq => by simp at hq) hA hB hN

/-! ## Fields -/

theorem encField_shift {k : Nat} {f : Fld} {v : FVal} {eA eB eA' eB' : Enc} (tab : Tab k eA eB)
    (hA : encField eA f v = .ok eA') (hB : encField eB f v = .ok eB')
    (hN : f = .name true → eA'.out.length + k ≤ 0x4000) : ShStep k eA eB eA' eB' := by
  by_cases hf : f = .name true
  · subst hf
    cases v with
    | name n => exact encName_shift tab hA hB (hN rfl)
    | _ => simp [encField] at hA
  · rw [RT.encField_put hf hA, RT.encField_put hf hB]
    exact ShStep.put tab _

theorem encFields_shift {k : Nat} : ∀ {fs : List Fld} {vs : List FVal} {eA eB eA' eB' : Enc}, Tab k eA eB →
    encFields eA fs vs = .ok eA' → encFields eB fs vs = .ok eB' → eA'.out.length + k ≤ 0x4000 →
    ShStep k eA eB eA' eB' := by
  intro fs
  induction fs with
  | nil =>
    intro vs eA eB eA' eB' tab hA hB _
    cases vs with
    | nil =>
      simp [encFields] at hA hB; subst hA; subst hB
      exact ShStep.refl tab
    | cons v vs => simp [encFields] at hA
  | cons f fs ih =>
    intro vs eA eB eA' eB' tab hA hB hN
    cases vs with
    | nil => simp [encFields] at hA
    | cons v vs =>
      unfold encFields at hA hB
      cases hA1 : encField eA f v with
      | error err => simp [hA1] at hA
      | ok eA1 =>
        cases hB1 : encField eB f v with
        | error err => simp [hB1] at hB
        | ok eB1 =>
          simp only [hA1] at hA
          simp only [hB1] at hB
          have b2 := (encFields_ok fs vs eA1 eA' hA).1.length_le
          have s1 := encField_shift tab hA1 hB1 (fun _ => by omega)
          exact s1.trans (ih s1.tab hA hB hN)

/-! ## RDATA and the record -/

theorem rrBody_shift {k : Nat} {rr : RR} {eA eB eA' eB' : Enc} (hs : Shaped rr) (tab : Tab k eA eB)
    (hA : rrBody rr eA = .ok eA') (hB : rrBody rr eB = .ok eB') (hN : eA'.out.length + k ≤ 0x4000) :
    ShStep k eA eB eA' eB' := by
  rcases hs.cases with ⟨info, vs, hk, hrd, _⟩ | ⟨p, x, v, d, opts, hk, hrd⟩ | ⟨items, hk, hrd⟩ |
    ⟨b, prio, target, params, hk, hrd⟩
  · simp only [rrBody, hk, hrd] at hA hB
    exact encFields_shift tab hA hB hN
  · simp only [rrBody, hk, hrd] at hA hB
    rw [encOptions_ok hA, encOptions_ok hB]
    exact ShStep.put tab _
  · simp only [rrBody, hk, hrd] at hA hB
    rw [encApItems_ok hA, encApItems_ok hB]
    exact ShStep.put tab _
  · simp only [rrBody, hk, hrd] at hA hB
    cases hA1 : encName (eA.put (beBytes 2 prio)) target with
    | error err => simp [hA1] at hA
    | ok eA1 =>
      cases hB1 : encName (eB.put (beBytes 2 prio)) target with
      | error err => simp [hB1] at hB
      | ok eB1 =>
        simp only [hA1] at hA
        simp only [hB1] at hB
        by_cases hp : prio = 0
        · rw [if_pos hp] at hA hB
          cases hA; cases hB
          exact (ShStep.put tab _).trans (encName_shift (tab.put _) hA1 hB1 hN)
        · rw [if_neg hp] at hA hB
          have eA2 := encSvcParams_ok hA
          have eB2 := encSvcParams_ok hB
          have hle : eA1.out.length ≤ eA'.out.length := by
            rw [eA2]; simp only [put_out, List.length_append]; omega
          have s1 := encName_shift (tab.put (beBytes 2 prio)) hA1 hB1 (by omega)
          rw [eA2, eB2]
          exact ((ShStep.put tab _).trans s1).trans (ShStep.put s1.tab _)

/-- assembly of a record from a lock-step result for the owner name and one for the RDATA writer (RDLENGTH
is the same in both runs because `Sh` keeps lengths) -/
theorem encRR_assemble {k : Nat} {rr : RR} {eA eB eA' eB' : Enc} (hs : Shaped rr)
    (hA : encRR eA rr = .ok eA') (hB : encRR eB rr = .ok eB')
    (hown : ∀ eA1 eB1, encName eA (rrOwner rr) = .ok eA1 → encName eB (rrOwner rr) = .ok eB1 →
      eA1.out.length ≤ eA'.out.length → ShStep k eA eB eA1 eB1)
    (hbody : ∀ eA1 eB1 eA2 eB2, encName eA (rrOwner rr) = .ok eA1 → Tab k eA1 eB1 →
      rrBody rr ((eA1.put (rrFixed rr)).put [0, 0]) = .ok eA2 →
      rrBody rr ((eB1.put (rrFixed rr)).put [0, 0]) = .ok eB2 → eA2.out.length = eA'.out.length →
      ShStep k ((eA1.put (rrFixed rr)).put [0, 0]) ((eB1.put (rrFixed rr)).put [0, 0]) eA2 eB2) :
    ∃ xA xB Q, eA'.out = eA.out ++ xA ∧ eB'.out = eB.out ++ xB ∧ Sh k eA.out.length xA xB Q := by
  rw [encRR_eq eA hs] at hA
  rw [encRR_eq eB hs] at hB
  cases hA1 : encName eA (rrOwner rr) with
  | error err => simp [hA1] at hA
  | ok eA1 =>
    cases hB1 : encName eB (rrOwner rr) with
    | error err => simp [hB1] at hB
    | ok eB1 =>
      simp only [hA1] at hA
      simp only [hB1] at hB
      cases hA2 : rrBody rr ((eA1.put (rrFixed rr)).put [0, 0]) with
      | error err => simp [hA2] at hA
      | ok eA2 =>
        cases hB2 : rrBody rr ((eB1.put (rrFixed rr)).put [0, 0]) with
        | error err => simp [hB2] at hB
        | ok eB2 =>
          simp only [hA2] at hA
          simp only [hB2] at hB
          obtain ⟨hstA, _⟩ := rrBody_ok hs hA2
          obtain ⟨hstB, _⟩ := rrBody_ok hs hB2
          obtain ⟨bodyA, hbA, _, hsetA⟩ := setLen_after hstA
          obtain ⟨bodyB, hbB, _, hsetB⟩ := setLen_after hstB
          rw [hsetA] at hA
          rw [hsetB] at hB
          split at hA; · cases hA
          split at hB; · cases hB
          cases hA; cases hB
          simp only at hown hbody ⊢
          have hl2 : eA2.out.length =
              ((eA1.put (rrFixed rr)).out ++ beBytes 2 bodyA.length ++ bodyA).length := by
            rw [hbA]
            simp only [put_out, List.length_append, beBytes_length, List.length_cons, List.length_nil]
          have hl1 : eA1.out.length ≤
              ((eA1.put (rrFixed rr)).out ++ beBytes 2 bodyA.length ++ bodyA).length := by
            simp only [put_out, List.length_append]; omega
          obtain ⟨x1, y1, Q1, hx1A, hx1B, sh1, tab1⟩ := hown eA1 eB1 hA1 hB1 hl1
          obtain ⟨x2, y2, Q2, hx2A, hx2B, sh2, _⟩ := hbody eA1 eB1 eA2 eB2 hA1 tab1 hA2 hB2 hl2
          have e1 : bodyA = x2 := by
            rw [hbA] at hx2A
            simp only [put_out, List.append_assoc] at hx2A
            exact List.append_cancel_left (List.append_cancel_left (List.append_cancel_left hx2A))
          have e2 : bodyB = y2 := by
            rw [hbB] at hx2B
            simp only [put_out, List.append_assoc] at hx2B
            exact List.append_cancel_left (List.append_cancel_left (List.append_cancel_left hx2B))
          subst e1; subst e2
          have hl : bodyA.length = bodyB.length := sh2.spec.1
          have hfix := rrFixed_length rr
          refine ⟨x1 ++ (rrFixed rr ++ beBytes 2 bodyA.length) ++ bodyA,
            y1 ++ (rrFixed rr ++ beBytes 2 bodyA.length) ++ bodyB, (Q1 ++ []) ++ Q2, ?_, ?_, ?_⟩
          · simp only [put_out, hx1A, List.append_assoc]
          · simp only [put_out, hx1B, hl, List.append_assoc]
          · refine (sh1.append (Sh.refl k _ _)).append ?_
            have e : eA.out.length + (x1 ++ (rrFixed rr ++ beBytes 2 bodyA.length)).length =
                ((eA1.put (rrFixed rr)).put [0, 0]).out.length := by
              simp only [put_out, hx1A, List.length_append, beBytes_length, List.length_cons, List.length_nil]
              omega
            rw [e]; exact sh2

/-- **lock-step for `Encoder::rr`** -/
theorem encRR_shift {k : Nat} {rr : RR} {eA eB eA' eB' : Enc} (hs : Shaped rr) (tab : Tab k eA eB)
    (hA : encRR eA rr = .ok eA') (hB : encRR eB rr = .ok eB') (hN : eA'.out.length + k ≤ 0x4000) :
    ∃ xA xB Q, eA'.out = eA.out ++ xA ∧ eB'.out = eB.out ++ xB ∧ Sh k eA.out.length xA xB Q :=
  encRR_assemble hs hA hB
    (fun _ _ hA1 hB1 hle => encName_shift tab hA1 hB1 (by omega))
    (fun _ _ _ _ _ tab1 hA2 hB2 hl => rrBody_shift hs ((tab1.put _).put _) hA2 hB2 (by omega))

/-! ## The embedding up to the shift of pointer offsets -/

/-- assembly (sibling of `RT.embeds_of_same`): a relation `R` between what the record writer appends from
the fresh encoder and from the state after the header is a relation between the stand-alone encoding and
the octets after the header of the message -/
theorem embeds_of_shift {R : Bytes → Bytes → Prop} {m : Msg} {rr : RR} {rest : List RR} {b bm : Bytes}
    (hsm : ShapedMsg m) (hq : m.qs = []) (han : m.an = rr :: rest) (h : encodeRR rr = .ok b)
    (hm : encodeDns m = .ok bm)
    (key : ∀ eA' eB', encRR {} rr = .ok eA' → encRR (Enc.put {} (msgHeader m)) rr = .ok eB' →
      ∃ b', eB'.out = msgHeader m ++ b' ∧ R eA'.out b') :
    ∃ b' tail, bm = msgHeader m ++ b' ++ tail ∧ R b b' := by
  obtain ⟨eA', heA, rfl⟩ := outOf_ok.mp h
  obtain ⟨e', he, rfl⟩ := outOf_ok.mp hm
  rw [encMsg_eq] at he
  split at he
  · cases he
  · cases hb : msgBody m (Enc.put {} (msgHeader m)) with
    | error err => simp [hb] at he
    | ok e2 =>
      simp only [hb] at he
      split at he
      · cases he
      · cases he
        simp only [msgBody, hq, han, encQuestions, encRRs] at hb
        cases h1 : encRR (Enc.put {} (msgHeader m)) rr with
        | error err => simp [h1] at hb
        | ok e1 =>
          simp only [h1] at hb
          obtain ⟨b', hl, hR⟩ := key eA' e1 heA h1
          cases h2 : encRRs e1 rest with
          | error err => simp [h2] at hb
          | ok e3 =>
            simp only [h2] at hb
            cases h3 : encRRs e3 m.ns with
            | error err => simp [h3] at hb
            | ok e4 =>
              simp only [h3] at hb
              obtain ⟨x2, hx2⟩ := (encRRs_ok (fun r hr => hsm.an r (by rw [han]; simp [hr])) h2).1.ext
              obtain ⟨x3, hx3⟩ := (encRRs_ok hsm.ns h3).1.ext
              obtain ⟨x4, hx4⟩ := (encRRs_ok hsm.ar hb).1.ext
              exact ⟨b', x2 ++ x3 ++ x4, by rw [hx4, hx3, hx2, hl]; simp, hR⟩

/-- the structural form: the octets after the header are `Sh`-related to the stand-alone encoding.
Only the shape premise is needed (no well-formedness of the values). -/
theorem elem_embeds_sh {m : Msg} {rr : RR} {rest : List RR} {b bm : Bytes}
    (hsm : ShapedMsg m) (hq : m.qs = []) (han : m.an = rr :: rest)
    (h : encodeRR rr = .ok b) (hsmall : b.length + 12 ≤ 0x4000) (hm : encodeDns m = .ok bm) :
    ∃ b' tail, bm = msgHeader m ++ b' ++ tail ∧ ∃ P, Sh 12 0 b b' P := by
  have hs : Shaped rr := hsm.an rr (by rw [han]; simp)
  refine embeds_of_shift (R := fun b b' => ∃ P, Sh 12 0 b b' P) hsm hq han h hm (fun eA' eB' hA hB => ?_)
  have hb : eA'.out = b := by
    obtain ⟨e, he, heb⟩ := outOf_ok.mp h
    rw [hA] at he; cases he; exact heb
  have tab : Tab 12 {} (Enc.put {} (msgHeader m)) :=
    ⟨by simp [msgHeader_length], rfl, fun q hq => by simp at hq⟩
  obtain ⟨xA, xB, Q, hxA, hxB, sh⟩ := encRR_shift hs tab hA hB (by rw [hb]; exact hsmall)
  refine ⟨xB, by rw [hxB]; simp, Q, ?_⟩
  have : eA'.out = xA := by rw [hxA]; simp
  rw [this]
  simpa using sh

/-- **C10 `elem_embeds_shift`, shape premise only.** -/
theorem elem_embeds_shift_of_shaped {m : Msg} {rr : RR} {rest : List RR} {b bm : Bytes}
    (hsm : ShapedMsg m) (hq : m.qs = []) (han : m.an = rr :: rest)
    (h : encodeRR rr = .ok b) (hsmall : b.length + 12 ≤ 0x4000) (hm : encodeDns m = .ok bm) :
    ∃ P b' tail, bm = msgHeader m ++ b' ++ tail ∧ ShiftEq P 12 b b' := by
  obtain ⟨b', tail, hbm, P, sh⟩ := elem_embeds_sh hsm hq han h hsmall hm
  exact ⟨P, b', tail, hbm, sh.toShiftEq⟩

/-- **C10 `elem_embeds_shift`.** For every record whose stand-alone encoding `b` succeeds with
`b.length + 12 ≤ 0x4000`, and every successfully encoded message with an empty question section and this
record as first answer: the twelve header octets are followed by octets `b'` that are `b` with every
compression pointer moved by 12 (same length, same octets outside the pointers, every pointer of `b` at a
position in `P` is a backward pointer to `t` and `b'` has a pointer to `t + 12` there). The hypothesis
`WfRR rr` of the task statement is not needed (kept for the signature). -/
theorem elem_embeds_shift {m : Msg} {rr : RR} {rest : List RR} {b bm : Bytes}
    (hsm : ShapedMsg m) (_hwf : WfRR rr) (hq : m.qs = []) (han : m.an = rr :: rest)
    (h : encodeRR rr = .ok b) (hsmall : b.length + 12 ≤ 0x4000) (hm : encodeDns m = .ok bm) :
    ∃ P b' tail, bm = msgHeader m ++ b' ++ tail ∧ ShiftEq P 12 b b' :=
  elem_embeds_shift_of_shaped hsm hq han h hsmall hm

/-! ## Questions: no pointer, identical octets -/

/-- a question written by a fresh encoder contains no pointer, and the first question of a message is
written right after the header with an empty table: the octets are identical -/
theorem question_embeds {m : Msg} {q : Question} {rest : List Question} {b bm : Bytes}
    (hsm : ShapedMsg m) (hq : m.qs = q :: rest) (h : encodeQuestion q = .ok b)
    (hm : encodeDns m = .ok bm) : ∃ tail, bm = msgHeader m ++ b ++ tail := by
  obtain ⟨eA', heA, rfl⟩ := outOf_ok.mp h
  obtain ⟨e', he, rfl⟩ := outOf_ok.mp hm
  rw [encMsg_eq] at he
  split at he
  · cases he
  · cases hb : msgBody m (Enc.put {} (msgHeader m)) with
    | error err => simp [hb] at he
    | ok e2 =>
      simp only [hb] at he
      split at he
      · cases he
      · cases he
        simp only [msgBody, hq, encQuestions] at hb
        cases h1 : encQuestion (Enc.put {} (msgHeader m)) q with
        | error err => simp [h1] at hb
        | ok e1 =>
          simp only [h1] at hb
          cases h2 : encQuestions e1 rest with
          | error err => simp [h2] at hb
          | ok e3 =>
            simp only [h2] at hb
            cases h3 : encRRs e3 m.an with
            | error err => simp [h3] at hb
            | ok e4 =>
              simp only [h3] at hb
              cases h4 : encRRs e4 m.ns with
              | error err => simp [h4] at hb
              | ok e5 =>
                simp only [h4] at hb
                obtain ⟨x2, hx2⟩ := (encQuestions_ok h2).1.ext
                obtain ⟨x3, hx3⟩ := (encRRs_ok hsm.an h3).1.ext
                obtain ⟨x4, hx4⟩ := (encRRs_ok hsm.ns h4).1.ext
                obtain ⟨x5, hx5⟩ := (encRRs_ok hsm.ar hb).1.ext
                unfold encQuestion at heA h1
                cases hnA : encName {} q.name with
                | error err => simp [hnA] at heA
                | ok a1 =>
                  cases hnB : encName (Enc.put {} (msgHeader m)) q.name with
                  | error err => simp [hnB] at h1
                  | ok b1 =>
                    simp only [hnA] at heA
                    simp only [hnB] at h1
                    cases heA; cases h1
                    have wA := EncSpec.encNameGo_empty q.name {} a1 [] rfl hnA
                    have wB := EncSpec.encNameGo_empty q.name (Enc.put {} (msgHeader m)) b1 [] rfl hnB
                    refine ⟨x2 ++ x3 ++ x4 ++ x5, ?_⟩
                    rw [hx5, hx4, hx3, hx2]
                    simp only [put_out, wA, wB, List.append_assoc, List.nil_append]

/-! ## Non-vacuity: an MX record whose exchange `b.a` is compressed against the owner `a` -/

private def exMX : RR := ⟨[[97]], 15, 1, 60, .fields [.num 10, .name [[98], [97]]]⟩
private def exMsg : Msg := ⟨7, ⟨false, 0, false, false, false, false, false, false, 0⟩, [], [exMX], [], []⟩
/-- stand-alone: the exchange ends with the pointer `c0 00` -/
private def exA : Bytes := [1, 97, 0, 0, 15, 0, 1, 0, 0, 0, 60, 0, 6, 0, 10, 1, 98, 192, 0]
/-- inside the message: the pointer is `c0 0c` -/
private def exB : Bytes := [1, 97, 0, 0, 15, 0, 1, 0, 0, 0, 60, 0, 6, 0, 10, 1, 98, 192, 12]

private theorem exMX_wf : WfRR exMX := by
  have h1 : WfName [[97]] :=
    ⟨by intro l hl; simp at hl; subst hl; simp [wfLabel], by simp [Name.sz],
     by intro l hl; simp at hl; subst hl; decide⟩
  have h2 : WfName [[98], [97]] :=
    ⟨by intro l hl; simp at hl; rcases hl with rfl | rfl <;> simp [wfLabel], by simp [Name.sz],
     by intro l hl; simp at hl; rcases hl with rfl | rfl <;> decide⟩
  exact ⟨⟨_, rfl, (by decide : 10 < 256 ^ 2), h2, trivial⟩, h1, ⟨by decide, fun h => by simp at h⟩, by decide⟩

/-- the two encodings, computed by the model -/
example : encodeRR exMX = .ok exA ∧
    encodeDns exMsg = .ok ([0, 7, 0, 0, 0, 0, 0, 1, 0, 0, 0, 0] ++ exB) := ⟨rfl, rfl⟩

/-- all hypotheses of `elem_embeds_shift` hold for it -/
example : ∃ P b' tail, [0, 7, 0, 0, 0, 0, 0, 1, 0, 0, 0, 0] ++ exB = msgHeader exMsg ++ b' ++ tail ∧
    ShiftEq P 12 exA b' :=
  elem_embeds_shift (m := exMsg) (by decide) exMX_wf rfl rfl rfl (by decide) rfl

/-- and the two encodings really differ exactly by that pointer: position 17 holds a pointer to 0 in the
stand-alone encoding and to 12 inside the message; everything before it is identical -/
example : ptrAt exA 17 = some 0 ∧ ptrAt exB 17 = some 12 ∧ exA.take 17 = exB.take 17 ∧
    exA.length = 19 ∧ exB.length = 19 ∧ exA ≠ exB := by decide

example : ShiftEq [17] 12 exA exB :=
  Sh.toShiftEq ((Sh.refl 12 [1, 97, 0, 0, 15, 0, 1, 0, 0, 0, 60, 0, 6, 0, 10, 1, 98] 0).append
    (Sh.one_ptr (t := 0) (by decide) (by decide)))

end RTS
