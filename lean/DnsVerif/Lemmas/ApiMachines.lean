import DnsVerif.Model.Api
import DnsVerif.Lemmas.Prefix
import DnsVerif.Lemmas.Text
import DnsVerif.Lemmas.AddrEmit

/-! # The validated value types as state machines over their public API (C12)

For each of `ECS`, `APItem`, `Cookie`, `DomainName` (built by `append_label`): an invariant `Inv`
stated independently of the checking code, and the theorems

* `new_inv`            a successful constructor yields `Inv`;
* `step_inv`           every setter preserves `Inv` (whether it succeeds or not);
* `reachable_inv`      hence every value reachable by any sequence of API calls satisfies `Inv`;
* `step_err_unchanged` a setter that reports an error leaves the value exactly as it was;
* `step_no_panic`      no setter panics;
* `step_ok_iff`        (extra) a setter succeeds exactly when the requested value satisfies `Inv`,
                       and then the value is the requested one (the checks are not too strict).

Then the `TryFrom<String>` validators of `Tag`, `PSDNAddress`, `ISDNAddress`, `SA`. -/

/-! ## ECS (`set`-then-check-then-roll-back, the `setter!` macro) -/

/-- the documented constraint: the larger prefix length fits the address and no address bit beyond
it is set -/
def ECS.Inv (s : ECS) : Prop :=
  max s.src s.scope ≤ 8 * s.addr.length ∧ NoBitBeyond s.addr (max s.src s.scope)

def ECS.run (s : ECS) (ops : List EcsOp) : ECS := ops.foldl (fun s op => (s.step op).1) s

/-- what the setter is asked to do -/
def EcsOp.apply (s : ECS) : EcsOp → ECS
  | .setSrc v => { s with src := v }
  | .setScope v => { s with scope := v }
  | .setAddr a => { s with addr := a }

theorem ECS.inv_iff (s : ECS) : s.Inv ↔ s.checkAddr = .ok () := (checkPrefix_ok_iff _ _).symm

theorem ECS.new_ok_iff (src scope : Nat) (addr : Bytes) (s : ECS) :
    ECS.new src scope addr = .ok s ↔ s = ⟨src, scope, addr⟩ ∧ s.Inv := by
  unfold ECS.new
  simp only
  constructor
  · intro h
    split at h
    · rename_i hc
      injection h with h
      subst h
      exact ⟨rfl, (ECS.inv_iff _).mpr hc⟩
    · simp at h
  · rintro ⟨rfl, hinv⟩
    rw [(ECS.inv_iff _).mp hinv]

theorem ECS.new_inv {src scope : Nat} {addr : Bytes} {s : ECS} (h : ECS.new src scope addr = .ok s) :
    s.Inv := ((ECS.new_ok_iff _ _ _ _).mp h).2

/-- closed form of a setter: it performs the assignment iff the result passes the check -/
theorem ECS.step_spec (s : ECS) (op : EcsOp) :
    s.step op = match (op.apply s).checkAddr with
      | .ok () => (op.apply s, .ok ())
      | .error e => (s, .error e) := by
  cases op <;> simp only [ECS.step, EcsOp.apply] <;> split <;> rename_i hc <;> simp only [hc]

theorem ECS.step_inv (s : ECS) (op : EcsOp) (h : s.Inv) : (s.step op).1.Inv := by
  rw [ECS.step_spec]
  split
  · rename_i hc; exact (ECS.inv_iff _).mpr hc
  · exact h

/-- a setter that reports an error leaves the value exactly as it was -/
theorem ECS.step_err_unchanged (s : ECS) (op : EcsOp) (e : DErr) (h : (s.step op).2 = .error e) :
    (s.step op).1 = s := by
  rw [ECS.step_spec] at h ⊢
  split
  · rename_i hc; rw [hc] at h; simp at h
  · rfl

/-- every value reachable through the public API satisfies the constraint -/
theorem ECS.reachable_inv (s : ECS) (ops : List EcsOp) (h : s.Inv) : (s.run ops).Inv := by
  unfold ECS.run
  induction ops generalizing s with
  | nil => exact h
  | cons op ops ih => exact ih _ (ECS.step_inv s op h)

/-- … in particular everything built from a successful `ECS::new` -/
theorem ECS.reachable_from_new {src scope : Nat} {addr : Bytes} {s : ECS}
    (h : ECS.new src scope addr = .ok s) (ops : List EcsOp) : (s.run ops).Inv :=
  ECS.reachable_inv s ops (ECS.new_inv h)

/-- setters never panic -/
theorem ECS.step_no_panic (s : ECS) (op : EcsOp) (x : String) : (s.step op).2 ≠ .error (.panic x) := by
  rw [ECS.step_spec]
  split
  · simp
  · rename_i e hc
    intro he
    simp only at he
    injection he with he
    subst he
    exact checkPrefix_no_panic _ _ _ hc

theorem ECS.new_no_panic (src scope : Nat) (addr : Bytes) (x : String) :
    ECS.new src scope addr ≠ .error (.panic x) := by
  unfold ECS.new
  simp only
  split
  · simp
  · rename_i e hc
    intro he
    injection he with he
    subst he
    exact checkPrefix_no_panic _ _ _ hc

/-- a setter succeeds exactly when the requested value satisfies the constraint, and then the new
value is the requested one -/
theorem ECS.step_ok_iff (s : ECS) (op : EcsOp) :
    (s.step op).2 = .ok () ↔ (op.apply s).Inv := by
  rw [ECS.step_spec, ECS.inv_iff]
  split
  · rename_i hc; simp [hc]
  · rename_i e hc; simp [hc]

theorem ECS.step_ok_state (s : ECS) (op : EcsOp) (h : (s.step op).2 = .ok ()) :
    (s.step op).1 = op.apply s := by
  rw [ECS.step_spec] at h ⊢
  split
  · rfl
  · rename_i e hc; rw [hc] at h; simp at h

/-- the error of a setter is one of the four address errors (`checkPrefix_err_iff` says which) -/
theorem ECS.step_err_kind (s : ECS) (op : EcsOp) (e : DErr) (h : (s.step op).2 = .error e) :
    e = .addr4Prefix ∨ e = .addr4Mask ∨ e = .addr6Prefix ∨ e = .addr6Mask := by
  rw [ECS.step_spec] at h
  split at h
  · simp at h
  · rename_i e' hc
    simp only at h
    injection h with h
    subst h
    unfold ECS.checkAddr at hc
    rcases (checkPrefix_err_iff _ _ _).mp hc with ⟨_, h⟩ | ⟨_, _, h⟩ <;> rw [h] <;> split <;> simp

/-- the decoder-side constructor `ECS::new` (Model/Dec.lean) -/
theorem ecsNew_ok_iff (fam src scope : Nat) (addr : Bytes) (o : EdnsOpt) :
    ecsNew fam src scope addr = .ok o ↔
      o = .ecs fam src scope addr ∧ max src scope ≤ 8 * addr.length ∧ NoBitBeyond addr (max src scope) := by
  unfold ecsNew
  rw [← checkPrefix_ok_iff]
  constructor
  · intro h
    split at h
    · simp at h
    · rename_i hc
      injection h with h
      exact ⟨h.symm, hc⟩
  · rintro ⟨rfl, hc⟩
    rw [hc]

/-- Consequence for the wire form (C17): for every valid ECS value the address cut by the encoder
(`addrWithPrefix`) and zero-filled by the decoder (`D.address`) is the stored address. -/
theorem ECS.addr_roundtrip (s : ECS) (h : s.Inv) :
    addrWithPrefix s.addr (max s.src s.scope) ++
      List.replicate (s.addr.length - (addrWithPrefix s.addr (max s.src s.scope)).length) 0 = s.addr :=
  addrWithPrefix_fill _ _ h.2

attribute [local instance] Lemmas.decEqExcept

example : ECS.new 24 0 [10, 0, 0, 0] = .ok ⟨24, 0, [10, 0, 0, 0]⟩ := by decide
example : ECS.new 24 0 [10, 0, 0, 1] = .error .addr4Mask := by decide
-- lowering the source prefix below the address bits is refused and the value is unchanged
example : (⟨24, 0, [10, 1, 2, 0]⟩ : ECS).step (.setSrc 8) = (⟨24, 0, [10, 1, 2, 0]⟩, .error .addr4Mask) := by
  decide
example : (⟨24, 0, [10, 1, 2, 0]⟩ : ECS).step (.setScope 33) = (⟨24, 0, [10, 1, 2, 0]⟩, .error .addr4Prefix) := by
  decide
example : (⟨24, 0, [10, 1, 2, 0]⟩ : ECS).step (.setAddr [10, 0, 0, 0]) = (⟨24, 0, [10, 0, 0, 0]⟩, .ok ()) := by
  decide
example : (⟨24, 0, [10, 1, 2, 0]⟩ : ECS).run [.setSrc 8, .setAddr [10, 0, 0, 0], .setSrc 8, .setScope 40]
    = ⟨8, 0, [10, 0, 0, 0]⟩ := by decide

/-! ## APItem (check before assign; `negation` is a public field) -/

def APItem.Inv (s : APItem) : Prop := s.pfx ≤ 8 * s.addr.length ∧ NoBitBeyond s.addr s.pfx

/-- the family tag agrees with the address size (kept by the API; the decoder takes it from the wire) -/
def APItem.FamInv (s : APItem) : Prop := s.fam = if s.addr.length = 4 then 1 else 2

def APItem.run (s : APItem) (ops : List ApOp) : APItem := ops.foldl (fun s op => (s.step op).1) s

def ApOp.apply (s : APItem) : ApOp → APItem
  | .setPrefix v => { s with pfx := v }
  | .setNeg b => { s with neg := b }
  | .setAddr a => { s with addr := a, fam := if a.length = 4 then 1 else 2 }

theorem APItem.inv_iff (s : APItem) : s.Inv ↔ checkPrefix s.addr s.pfx = .ok () :=
  (checkPrefix_ok_iff _ _).symm

/-- the decoder-side constructor (Model/Dec.lean) -/
theorem apItemNew_ok_iff (fam pfx : Nat) (neg : Bool) (addr : Bytes) (s : APItem) :
    apItemNew fam pfx neg addr = .ok s ↔ s = ⟨fam, pfx, neg, addr⟩ ∧ s.Inv := by
  unfold apItemNew
  constructor
  · intro h
    split at h
    · simp at h
    · rename_i hc
      injection h with h
      subst h
      exact ⟨rfl, (APItem.inv_iff _).mpr hc⟩
  · rintro ⟨rfl, hinv⟩
    rw [(APItem.inv_iff _).mp hinv]

theorem APItem.new_ok_iff (pfx : Nat) (neg : Bool) (addr : Bytes) (s : APItem) :
    APItem.new pfx neg addr = .ok s ↔ s = ⟨if addr.length = 4 then 1 else 2, pfx, neg, addr⟩ ∧ s.Inv :=
  apItemNew_ok_iff _ _ _ _ _

theorem APItem.new_inv {pfx : Nat} {neg : Bool} {addr : Bytes} {s : APItem}
    (h : APItem.new pfx neg addr = .ok s) : s.Inv := ((APItem.new_ok_iff _ _ _ _).mp h).2

theorem APItem.new_famInv {pfx : Nat} {neg : Bool} {addr : Bytes} {s : APItem}
    (h : APItem.new pfx neg addr = .ok s) : s.FamInv := by
  rw [((APItem.new_ok_iff _ _ _ _).mp h).1]; rfl

theorem APItem.step_inv (s : APItem) (op : ApOp) (h : s.Inv) : (s.step op).1.Inv := by
  cases op with
  | setPrefix v =>
    simp only [APItem.step]
    split
    · rename_i hc; exact (APItem.inv_iff _).mpr hc
    · exact h
  | setNeg b => exact h
  | setAddr a =>
    simp only [APItem.step]
    split
    · rename_i hc; exact (APItem.inv_iff _).mpr hc
    · exact h

theorem APItem.step_famInv (s : APItem) (op : ApOp) (h : s.FamInv) : (s.step op).1.FamInv := by
  cases op with
  | setPrefix v => simp only [APItem.step]; split <;> exact h
  | setNeg b => exact h
  | setAddr a =>
    simp only [APItem.step]
    split
    · rfl
    · exact h

theorem APItem.step_err_unchanged (s : APItem) (op : ApOp) (e : DErr) (h : (s.step op).2 = .error e) :
    (s.step op).1 = s := by
  cases op with
  | setPrefix v =>
    simp only [APItem.step] at h ⊢
    split
    · rename_i hc; simp [hc] at h
    · rfl
  | setNeg b => simp [APItem.step] at h
  | setAddr a =>
    simp only [APItem.step] at h ⊢
    split
    · rename_i hc; simp [hc] at h
    · rfl

theorem APItem.reachable_inv (s : APItem) (ops : List ApOp) (h : s.Inv) : (s.run ops).Inv := by
  unfold APItem.run
  induction ops generalizing s with
  | nil => exact h
  | cons op ops ih => exact ih _ (APItem.step_inv s op h)

theorem APItem.reachable_famInv (s : APItem) (ops : List ApOp) (h : s.FamInv) : (s.run ops).FamInv := by
  unfold APItem.run
  induction ops generalizing s with
  | nil => exact h
  | cons op ops ih => exact ih _ (APItem.step_famInv s op h)

theorem APItem.reachable_from_new {pfx : Nat} {neg : Bool} {addr : Bytes} {s : APItem}
    (h : APItem.new pfx neg addr = .ok s) (ops : List ApOp) : (s.run ops).Inv ∧ (s.run ops).FamInv :=
  ⟨APItem.reachable_inv s ops (APItem.new_inv h), APItem.reachable_famInv s ops (APItem.new_famInv h)⟩

theorem APItem.step_no_panic (s : APItem) (op : ApOp) (x : String) : (s.step op).2 ≠ .error (.panic x) := by
  cases op with
  | setPrefix v =>
    simp only [APItem.step]
    split
    · simp
    · rename_i e hc
      intro he
      simp only at he
      injection he with he
      subst he
      exact checkPrefix_no_panic _ _ _ hc
  | setNeg b => simp [APItem.step]
  | setAddr a =>
    simp only [APItem.step]
    split
    · simp
    · rename_i e hc
      intro he
      simp only at he
      injection he with he
      subst he
      exact checkPrefix_no_panic _ _ _ hc

theorem APItem.new_no_panic (pfx : Nat) (neg : Bool) (addr : Bytes) (x : String) :
    APItem.new pfx neg addr ≠ .error (.panic x) := by
  unfold APItem.new apItemNew
  split
  · rename_i e hc
    intro he
    injection he with he
    subst he
    exact checkPrefix_no_panic _ _ _ hc
  · simp

/-- on a valid item a setter succeeds exactly when the requested value satisfies the constraint
(`set_negation` does not exist: the field is public and unconstrained) -/
theorem APItem.step_ok_iff (s : APItem) (op : ApOp) (h : s.Inv) :
    (s.step op).2 = .ok () ↔ (op.apply s).Inv := by
  cases op with
  | setPrefix v =>
    simp only [APItem.step, ApOp.apply]
    rw [APItem.inv_iff]
    split
    · rename_i hc; simp [hc]
    · rename_i e hc; simp [hc]
  | setNeg b => exact ⟨fun _ => h, fun _ => rfl⟩
  | setAddr a =>
    simp only [APItem.step, ApOp.apply]
    rw [APItem.inv_iff]
    split
    · rename_i hc; simp [hc]
    · rename_i e hc; simp [hc]

theorem APItem.step_ok_state (s : APItem) (op : ApOp) (h : (s.step op).2 = .ok ()) :
    (s.step op).1 = op.apply s := by
  cases op with
  | setPrefix v =>
    simp only [APItem.step, ApOp.apply] at h ⊢
    split
    · rfl
    · rename_i e hc; simp [hc] at h
  | setNeg b => rfl
  | setAddr a =>
    simp only [APItem.step, ApOp.apply] at h ⊢
    split
    · rfl
    · rename_i e hc; simp [hc] at h

example : APItem.new 9 false [10, 128, 0, 0] = .ok ⟨1, 9, false, [10, 128, 0, 0]⟩ := by decide
example : APItem.new 8 false [10, 128, 0, 0] = .error .addr4Mask := by decide
example : (⟨1, 9, false, [10, 128, 0, 0]⟩ : APItem).step (.setPrefix 8) =
    (⟨1, 9, false, [10, 128, 0, 0]⟩, .error .addr4Mask) := by decide
example : (⟨1, 9, false, [10, 128, 0, 0]⟩ : APItem).run
    [.setPrefix 8, .setNeg true, .setAddr (0xfe :: 0x80 :: List.replicate 14 0), .setPrefix 200]
    = ⟨2, 9, true, 0xfe :: 0x80 :: List.replicate 14 0⟩ := by decide

/-! ## Cookie (`client_cookie` is a public field) -/

/-- the server cookie is absent or has 8..=32 octets -/
def Cookie.Inv (s : Cookie) : Prop := ∀ v, s.server = some v → 8 ≤ v.length ∧ v.length ≤ 32

def Cookie.run (s : Cookie) (ops : List CookieOp) : Cookie := ops.foldl (fun s op => (s.step op).1) s

def CookieOp.apply (s : Cookie) : CookieOp → Cookie
  | .setServer v => { s with server := v }
  | .setClient c => { s with client := c }

theorem Cookie.step_spec (s : Cookie) (op : CookieOp) :
    s.step op = match op with
      | .setServer (some v) =>
        if 8 ≤ v.length ∧ v.length ≤ 32 then (op.apply s, .ok ()) else (s, .error .cookieServerLength)
      | _ => (op.apply s, .ok ()) := by
  cases op with
  | setClient c => rfl
  | setServer v => cases v <;> rfl

theorem Cookie.step_inv (s : Cookie) (op : CookieOp) (h : s.Inv) : (s.step op).1.Inv := by
  cases op with
  | setClient c => exact h
  | setServer v =>
    cases v with
    | none => intro v hv; simp [Cookie.step] at hv
    | some v =>
      simp only [Cookie.step]
      split
      · rename_i hc
        intro w hw
        simp at hw
        subst hw
        exact hc
      · exact h

theorem Cookie.step_err_unchanged (s : Cookie) (op : CookieOp) (e : DErr) (h : (s.step op).2 = .error e) :
    (s.step op).1 = s := by
  cases op with
  | setClient c => simp [Cookie.step] at h
  | setServer v =>
    cases v with
    | none => simp [Cookie.step] at h
    | some v =>
      simp only [Cookie.step] at h ⊢
      split
      · rename_i hc; simp [hc] at h
      · rfl

theorem Cookie.reachable_inv (s : Cookie) (ops : List CookieOp) (h : s.Inv) : (s.run ops).Inv := by
  unfold Cookie.run
  induction ops generalizing s with
  | nil => exact h
  | cons op ops ih => exact ih _ (Cookie.step_inv s op h)

theorem Cookie.step_no_panic (s : Cookie) (op : CookieOp) (x : String) :
    (s.step op).2 ≠ .error (.panic x) := by
  cases op with
  | setClient c => simp [Cookie.step]
  | setServer v =>
    cases v with
    | none => simp [Cookie.step]
    | some v => simp only [Cookie.step]; split <;> simp

/-- the only error of a cookie setter -/
theorem Cookie.step_err_kind (s : Cookie) (op : CookieOp) (e : DErr) (h : (s.step op).2 = .error e) :
    e = .cookieServerLength := by
  cases op with
  | setClient c => simp [Cookie.step] at h
  | setServer v =>
    cases v with
    | none => simp [Cookie.step] at h
    | some v =>
      simp only [Cookie.step] at h
      split at h
      · simp at h
      · simp only at h; injection h with h; exact h.symm

theorem Cookie.step_ok_iff (s : Cookie) (op : CookieOp) (h : s.Inv) :
    (s.step op).2 = .ok () ↔ (op.apply s).Inv := by
  cases op with
  | setClient c => exact ⟨fun _ => h, fun _ => rfl⟩
  | setServer v =>
    cases v with
    | none =>
      refine ⟨fun _ => ?_, fun _ => rfl⟩
      intro v hv; simp [CookieOp.apply] at hv
    | some v =>
      simp only [Cookie.step, CookieOp.apply]
      constructor
      · intro hok
        split at hok
        · rename_i hc
          intro w hw
          simp at hw
          subst hw
          exact hc
        · simp at hok
      · intro hinv
        have := hinv v rfl
        simp [this]

theorem Cookie.step_ok_state (s : Cookie) (op : CookieOp) (h : (s.step op).2 = .ok ()) :
    (s.step op).1 = op.apply s := by
  cases op with
  | setClient c => rfl
  | setServer v =>
    cases v with
    | none => rfl
    | some v =>
      simp only [Cookie.step, CookieOp.apply] at h ⊢
      split
      · rfl
      · rename_i hc; simp [hc] at h

theorem Cookie.new_ok_iff (client : Bytes) (server : Option Bytes) (s : Cookie) :
    Cookie.new client server = .ok s ↔ s = ⟨client, server⟩ ∧ s.Inv := by
  unfold Cookie.new
  cases server with
  | none =>
    simp only [Cookie.step]
    constructor
    · intro h
      injection h with h
      subst h
      exact ⟨rfl, fun v hv => by simp at hv⟩
    · rintro ⟨rfl, _⟩; rfl
  | some v =>
    simp only [Cookie.step]
    by_cases hc : 8 ≤ v.length ∧ v.length ≤ 32
    · simp only [hc, and_self, if_true]
      constructor
      · intro h
        injection h with h
        subst h
        refine ⟨rfl, fun w hw => ?_⟩
        simp at hw; subst hw; exact hc
      · rintro ⟨rfl, _⟩; rfl
    · simp only [hc, if_false]
      constructor
      · intro h; simp at h
      · rintro ⟨rfl, hinv⟩
        exact absurd (hinv v rfl) hc

theorem Cookie.new_inv {client : Bytes} {server : Option Bytes} {s : Cookie}
    (h : Cookie.new client server = .ok s) : s.Inv := ((Cookie.new_ok_iff _ _ _).mp h).2

theorem Cookie.reachable_from_new {client : Bytes} {server : Option Bytes} {s : Cookie}
    (h : Cookie.new client server = .ok s) (ops : List CookieOp) : (s.run ops).Inv :=
  Cookie.reachable_inv s ops (Cookie.new_inv h)

theorem Cookie.new_no_panic (client : Bytes) (server : Option Bytes) (x : String) :
    Cookie.new client server ≠ .error (.panic x) := by
  unfold Cookie.new
  cases server with
  | none => simp [Cookie.step]
  | some v =>
    simp only [Cookie.step]
    by_cases hc : 8 ≤ v.length ∧ v.length ≤ 32
    · simp [hc]
    · simp [hc]

/-- the decoder-side constructor (Model/Dec.lean) -/
theorem cookieNew_ok_iff (client : Bytes) (server : Option Bytes) (o : EdnsOpt) :
    cookieNew client server = .ok o ↔
      o = .cookie client server ∧ ∀ v, server = some v → 8 ≤ v.length ∧ v.length ≤ 32 := by
  unfold cookieNew
  cases server with
  | none =>
    simp only
    constructor
    · intro h; injection h with h; exact ⟨h.symm, fun v hv => by simp at hv⟩
    · rintro ⟨rfl, _⟩; rfl
  | some v =>
    simp only
    by_cases hc : 8 ≤ v.length ∧ v.length ≤ 32
    · simp only [hc, and_self, if_true]
      constructor
      · intro h; injection h with h
        refine ⟨h.symm, fun w hw => ?_⟩
        simp at hw; subst hw; exact hc
      · rintro ⟨rfl, _⟩; rfl
    · simp only [hc, if_false]
      constructor
      · intro h; simp at h
      · rintro ⟨_, hinv⟩
        exact absurd (hinv v rfl) hc

example : Cookie.new [1, 2, 3, 4, 5, 6, 7, 8] (some (List.replicate 8 7)) =
    .ok ⟨[1, 2, 3, 4, 5, 6, 7, 8], some (List.replicate 8 7)⟩ := by decide
example : Cookie.new [1, 2, 3, 4, 5, 6, 7, 8] (some (List.replicate 7 7)) = .error .cookieServerLength := by
  decide
example : (⟨[1], some (List.replicate 8 7)⟩ : Cookie).step (.setServer (some (List.replicate 33 7))) =
    (⟨[1], some (List.replicate 8 7)⟩, .error .cookieServerLength) := by decide
example : (⟨[1], none⟩ : Cookie).run [.setServer (some [1]), .setClient [2], .setServer (some (List.replicate 32 0))]
    = ⟨[2], some (List.replicate 32 0)⟩ := by decide

/-! ## DomainName built by `append_label` from the root -/

/-- labels of 1..=63 octets and `Name.sz n < 255`, i.e. wire length at most 255 -/
def DomainName.Inv (n : Name) : Prop := (∀ l ∈ n, 1 ≤ l.length ∧ l.length ≤ 63) ∧ Name.sz n < 255

def DomainName.run (n : Name) (ls : List Bytes) : Name := ls.foldl (fun n l => (nameStep n l).1) n

theorem DomainName.inv_iff_wire (n : Name) :
    DomainName.Inv n ↔ wfName n ∧ (Name.wire n).length ≤ 255 := by
  unfold DomainName.Inv
  rw [wire_len]
  exact ⟨fun h => ⟨h.1, by have := h.2; omega⟩, fun h => ⟨h.1, by have := h.2; omega⟩⟩

/-- `DomainName::default()` (the root) -/
theorem DomainName.new_inv : DomainName.Inv [] := ⟨by simp, by simp⟩

theorem DomainName.step_inv (n : Name) (l : Bytes) (h : DomainName.Inv n) :
    DomainName.Inv (nameStep n l).1 := nameStep_limits n l h

theorem DomainName.reachable_inv (n : Name) (ls : List Bytes) (h : DomainName.Inv n) :
    DomainName.Inv (DomainName.run n ls) := by
  unfold DomainName.run
  induction ls generalizing n with
  | nil => exact h
  | cons l ls ih => exact ih _ (DomainName.step_inv n l h)

theorem DomainName.reachable_from_root (ls : List Bytes) : DomainName.Inv (DomainName.run [] ls) :=
  DomainName.reachable_inv [] ls DomainName.new_inv

theorem DomainName.step_err_unchanged (n : Name) (l : Bytes) (e : DErr) (h : (nameStep n l).2 = .error e) :
    (nameStep n l).1 = n := by
  rw [nameStep_spec] at h ⊢
  split; · rfl
  split; · rfl
  split; · rfl
  rename_i h1 h2 h3
  simp [h1, h2, h3] at h

theorem DomainName.step_no_panic (n : Name) (l : Bytes) (x : String) :
    (nameStep n l).2 ≠ .error (.panic x) := by
  rw [nameStep_spec]
  split; · simp
  split; · simp
  split <;> simp

/-- the step succeeds exactly when the extended name satisfies the limits -/
theorem DomainName.step_ok_iff (n : Name) (l : Bytes) (h : DomainName.Inv n) :
    (nameStep n l).2 = .ok () ↔ DomainName.Inv (n ++ [l]) := by
  rw [nameStep_spec]
  unfold DomainName.Inv
  rw [Name.sz_append, Name.sz_cons]
  simp only [Name.sz_nil, Nat.add_zero]
  constructor
  · intro hok
    split at hok; · simp at hok
    split at hok; · simp at hok
    split at hok; · simp at hok
    refine ⟨fun x hx => ?_, by omega⟩
    simp at hx
    rcases hx with hx | rfl
    · exact h.1 x hx
    · omega
  · rintro ⟨hl, hsz⟩
    have := hl l (by simp)
    have h1 : ¬ l.length = 0 := by omega
    have h2 : ¬ 64 ≤ l.length := by omega
    have h3 : ¬ 255 ≤ Name.sz n + l.length + 1 := by omega
    simp [h1, h2, h3]

theorem DomainName.step_ok_state (n : Name) (l : Bytes) (h : (nameStep n l).2 = .ok ()) :
    (nameStep n l).1 = n ++ [l] := by
  rw [nameStep_spec] at h ⊢
  split at h; · simp at h
  split at h; · simp at h
  split at h; · simp at h
  rename_i h1 h2 h3
  simp [h1, h2, h3]

example : DomainName.run [] [[119, 119, 119], [], List.replicate 64 97, [97]] = [[119, 119, 119], [97]] := by
  simp [DomainName.run, nameStep_spec, Name.sz]

/-! ## `TryFrom<String>` validators -/

private theorem alnum_lower_all : ∀ b : UInt8,
    (!isAlnumB b || (isDigitB (lowerB b) || isLowerB (lowerB b))) = true := by
  decide +kernel

theorem alnum_lower {b : UInt8} (h : isAlnumB b = true) :
    (isDigitB (lowerB b) || isLowerB (lowerB b)) = true := by
  have := alnum_lower_all b
  simpa [h] using this

/-- `Tag::try_from`: accepted iff non-empty and ASCII alphanumeric; the stored tag is the lower-cased
input -/
theorem tag_ok_iff (s t : Bytes) :
    StrCheck.run .tag s = .ok t ↔ s ≠ [] ∧ s.all isAlnumB = true ∧ t = s.map lowerB := by
  simp only [StrCheck.run]
  cases s with
  | nil => simp
  | cons b r =>
    simp only [List.isEmpty_cons, Bool.false_eq_true, if_false]
    by_cases hall : (b :: r).all isAlnumB = true
    · rw [if_pos hall]
      constructor
      · intro h; injection h with h; exact ⟨by simp, hall, h.symm⟩
      · rintro ⟨_, _, rfl⟩; rfl
    · rw [if_neg hall]
      constructor
      · intro h; simp at h
      · rintro ⟨_, h, _⟩; exact absurd h hall

/-- every stored `Tag` is non-empty and consists of lower-case ASCII letters and digits -/
theorem tag_inv {s t : Bytes} (h : StrCheck.run .tag s = .ok t) :
    t ≠ [] ∧ (∀ b ∈ t, (isDigitB b || isLowerB b) = true) ∧ t = s.map lowerB := by
  obtain ⟨hne, hall, rfl⟩ := (tag_ok_iff s t).mp h
  refine ⟨by simpa using hne, ?_, rfl⟩
  intro b hb
  rw [List.mem_map] at hb
  obtain ⟨a, ha, rfl⟩ := hb
  rw [List.all_eq_true] at hall
  exact alnum_lower (hall a ha)

theorem tag_err (s : Bytes) (e : DErr) :
    StrCheck.run .tag s = .error e ↔
      (s = [] ∧ e = .tagEmpty) ∨ (s ≠ [] ∧ s.all isAlnumB = false ∧ e = .tagIllegal) := by
  simp only [StrCheck.run]
  cases s with
  | nil => simp; exact ⟨Eq.symm, Eq.symm⟩
  | cons b r =>
    simp only [List.isEmpty_cons, Bool.false_eq_true, if_false]
    by_cases hall : (b :: r).all isAlnumB = true
    · rw [if_pos hall]; simp [hall]
    · rw [if_neg hall]
      have hall' : (b :: r).all isAlnumB = false := by simpa using hall
      constructor
      · intro h; injection h with h; exact .inr ⟨by simp, hall', h.symm⟩
      · rintro (⟨h, _⟩ | ⟨_, _, rfl⟩)
        · simp at h
        · rfl

/-- `PSDNAddress::try_from`: decimal digits only (the empty string is accepted) -/
theorem psdn_ok_iff (s t : Bytes) :
    StrCheck.run .psdn s = .ok t ↔ t = s ∧ ∀ b ∈ s, isDigitB b = true := by
  simp only [StrCheck.run]
  rw [← List.all_eq_true]
  by_cases h : s.all isDigitB = true
  · rw [if_pos h]
    exact ⟨fun h' => by injection h' with h'; exact ⟨h'.symm, h⟩, fun ⟨h', _⟩ => by rw [h']⟩
  · rw [if_neg h]
    exact ⟨fun h' => by simp at h', fun ⟨_, h'⟩ => absurd h' h⟩

/-- `ISDNAddress::try_from`: decimal digits only -/
theorem isdn_ok_iff (s t : Bytes) :
    StrCheck.run .isdn s = .ok t ↔ t = s ∧ ∀ b ∈ s, isDigitB b = true := by
  simp only [StrCheck.run]
  rw [← List.all_eq_true]
  by_cases h : s.all isDigitB = true
  · rw [if_pos h]
    exact ⟨fun h' => by injection h' with h'; exact ⟨h'.symm, h⟩, fun ⟨h', _⟩ => by rw [h']⟩
  · rw [if_neg h]
    exact ⟨fun h' => by simp at h', fun ⟨_, h'⟩ => absurd h' h⟩

/-- `SA::try_from`: hexadecimal digits only -/
theorem sa_ok_iff (s t : Bytes) :
    StrCheck.run .sa s = .ok t ↔ t = s ∧ ∀ b ∈ s, isHexDigitB b = true := by
  simp only [StrCheck.run]
  rw [← List.all_eq_true]
  by_cases h : s.all isHexDigitB = true
  · rw [if_pos h]
    exact ⟨fun h' => by injection h' with h'; exact ⟨h'.symm, h⟩, fun ⟨h', _⟩ => by rw [h']⟩
  · rw [if_neg h]
    exact ⟨fun h' => by simp at h', fun ⟨_, h'⟩ => absurd h' h⟩

/-- the GPOS strings: 1..=256 octets -/
theorem gpos_ok_iff (s t : Bytes) :
    StrCheck.run .gpos s = .ok t ↔ t = s ∧ 1 ≤ s.length ∧ s.length ≤ 256 := by
  simp only [StrCheck.run]
  by_cases h : 1 ≤ s.length ∧ s.length ≤ 256
  · rw [if_pos h]
    exact ⟨fun h' => by injection h' with h'; exact ⟨h'.symm, h⟩, fun ⟨h', _⟩ => by rw [h']⟩
  · rw [if_neg h]
    exact ⟨fun h' => by simp at h', fun ⟨_, h'⟩ => absurd h' h⟩

/-- no validator panics, and each has exactly one or two error kinds -/
theorem strCheck_err_kind (c : StrCheck) (s : Bytes) (e : DErr) (h : StrCheck.run c s = .error e) :
    (c = .psdn ∧ e = .psdn) ∨ (c = .isdn ∧ e = .isdn) ∨ (c = .sa ∧ e = .isdnSA) ∨ (c = .gpos ∧ e = .gpos) ∨
    (c = .tag ∧ (e = .tagEmpty ∨ e = .tagIllegal)) := by
  cases c <;> simp only [StrCheck.run] at h
  · simp at h
  · split at h
    · simp at h
    · injection h with h; simp [← h]
  · split at h
    · simp at h
    · injection h with h; simp [← h]
  · split at h
    · simp at h
    · injection h with h; simp [← h]
  · split at h
    · simp at h
    · injection h with h; simp [← h]
  · split at h
    · injection h with h; simp [← h]
    · split at h
      · simp at h
      · injection h with h; simp [← h]

-- "Issue" is stored as "issue"; "iss-ue" and "" are rejected
example : StrCheck.run .tag [0x49, 0x73, 0x73, 0x75, 0x65] = .ok [0x69, 0x73, 0x73, 0x75, 0x65] := by decide
example : StrCheck.run .tag [0x69, 0x2d] = .error .tagIllegal ∧ StrCheck.run .tag [] = .error .tagEmpty := by
  decide
example : StrCheck.run .psdn [0x33, 0x31] = .ok [0x33, 0x31] ∧ StrCheck.run .psdn [0x33, 0x61] = .error .psdn ∧
    StrCheck.run .sa [0x33, 0x61, 0x46] = .ok [0x33, 0x61, 0x46] ∧ StrCheck.run .sa [0x67] = .error .isdnSA ∧
    StrCheck.run .isdn [0x2b] = .error .isdn := by decide
