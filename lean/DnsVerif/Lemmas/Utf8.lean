import DnsVerif.Prim

/-! # UTF-8 validity and ASCII case

`validUtf8` (the DFA of `Prim.lean`, i.e. what `std::str::from_utf8` accepts) is invariant under
ASCII case changes, and ASCII case folding never changes lengths. These are the facts that let the
name compression (which may replace a suffix by a case-variant that is already in the message) keep
decoded labels valid and of the same shape. -/

/-! ## `lowerB` -/

set_option maxRecDepth 8192 in
theorem lowerB_idem : ∀ b : UInt8, lowerB (lowerB b) = lowerB b := by
  decide +kernel

set_option maxRecDepth 8192 in
private theorem lowerB_high_all : ∀ b : UInt8, (!decide (128 ≤ b.toNat) || lowerB b == b) = true := by
  decide +kernel

/-- octets outside ASCII (all lead and continuation octets of multi-octet UTF-8 sequences) are fixed -/
theorem lowerB_high {b : UInt8} (h : 128 ≤ b.toNat) : lowerB b = b := by
  have := lowerB_high_all b
  simpa [h] using this

/-- exact description of `lowerB` on octet values -/
theorem lowerB_toNat (b : UInt8) :
    (lowerB b).toNat = if 65 ≤ b.toNat ∧ b.toNat ≤ 90 then b.toNat + 32 else b.toNat := by
  unfold lowerB
  split
  · rename_i h
    have := b.toNat_lt
    rw [UInt8.toNat_add]
    show (b.toNat + 32) % 256 = _
    omega
  · rfl

example : lowerB 65 = 97 ∧ lowerB 90 = 122 ∧ lowerB 64 = 64 ∧ lowerB 91 = 91 ∧ lowerB 0xC3 = 0xC3 := by
  decide

/-! ## `Label.lower` -/

@[simp] theorem Label.lower_length (l : Label) : (Label.lower l).length = l.length := by
  simp [Label.lower]

@[simp] theorem Label.lower_nil : Label.lower [] = [] := rfl

@[simp] theorem Label.lower_cons (b : UInt8) (l : Label) :
    Label.lower (b :: l) = lowerB b :: Label.lower l := rfl

theorem Label.lower_append (a b : Label) : Label.lower (a ++ b) = Label.lower a ++ Label.lower b := by
  simp [Label.lower]

theorem Label.lower_idem (l : Label) : Label.lower (Label.lower l) = Label.lower l := by
  simp [Label.lower, lowerB_idem]

/-- ASCII case never changes lengths -/
theorem lower_eq_length {a b : Label} (h : Label.lower a = Label.lower b) : a.length = b.length := by
  have := congrArg List.length h
  simpa using this

example : Label.lower [0x41, 0x62, 0xC3, 0x84] = [0x61, 0x62, 0xC3, 0x84] := by decide

/-! ## UTF-8 -/

set_option maxRecDepth 8192 in
theorem utf8Step_lower : ∀ (s : Fin 8) (b : UInt8), utf8Step s (lowerB b) = utf8Step s b := by
  decide +kernel

theorem utf8Run_lower : ∀ (l : Bytes) (s : Fin 8), utf8Run s (l.map lowerB) = utf8Run s l := by
  intro l
  induction l with
  | nil => intro s; rfl
  | cons b r ih =>
    intro s
    simp only [List.map_cons, utf8Run, utf8Step_lower]
    split
    · exact ih _
    · rfl

theorem validUtf8_lower (l : Bytes) : validUtf8 (Label.lower l) = validUtf8 l := utf8Run_lower l 0

/-- UTF-8 validity depends only on the ASCII-case class of the octet string -/
theorem validUtf8_ci (l l' : Label) (h : Label.lower l' = Label.lower l) (hv : validUtf8 l = true) :
    validUtf8 l' = true := by
  rw [← validUtf8_lower l', h, validUtf8_lower l]; exact hv

/-- the same as an equation (both directions) -/
theorem validUtf8_ci_eq (l l' : Label) (h : Label.lower l' = Label.lower l) :
    validUtf8 l' = validUtf8 l := by
  rw [← validUtf8_lower l', h, validUtf8_lower l]

-- non-vacuity: "Kä" / "kä" (U+00E4 = C3 A4)
example : Label.lower [0x6B, 0xC3, 0xA4] = Label.lower [0x4B, 0xC3, 0xA4] ∧
    validUtf8 [0x4B, 0xC3, 0xA4] = true := by decide
-- the DFA rejects overlong forms, surrogates and code points above U+10FFFF, accepts the Kelvin sign
example : validUtf8 [0xE2, 0x84, 0xAA] = true ∧ validUtf8 [0xC0, 0x80] = false ∧
    validUtf8 [0xED, 0xA0, 0x80] = false ∧ validUtf8 [0xF4, 0x90, 0x80, 0x80] = false := by decide
