import DnsVerif.Spec.WF
import DnsVerif.Lemmas.ApiMachines
import DnsVerif.Lemmas.EncLimMsg
import DnsVerif.Lemmas.EncSpecFields
import DnsVerif.Lemmas.RTMsg

/-! # API-constructible values, and the classification of those that encode `Ok` (C08, last clause)

`ApiOk m` says what the Rust TYPES and the public constructors / setters / `TryFrom` validators of the
crate guarantee about a `Dns` value, and nothing more:

* every numeric field is within its Rust integer width (`u8`/`u16`/`u32`/`u64`: `n < 256 ^ w`);
* `String` fields are valid UTF-8; `Vec<u8>` fields are arbitrary; `Ipv4Addr`, `Ipv6Addr`, `[u8; N]` have
  their fixed size;
* validated newtypes satisfy their validator: `Label` (1..=63 octets), `DomainName` (at most 255 wire
  octets: `DomainName.Inv` of `Lemmas/ApiMachines.lean`), `PSDNAddress` / `ISDNAddress` (digits), `SA`
  (hex digits), `Tag` (non-empty, alphanumeric, stored lower-case), the C-like enums (code in its table),
  `NonEmptyVec` (TXT), `ECS` / `APItem` (the prefix invariants `ECS.Inv`, `APItem.Inv` that `new` and
  every setter keep), `Cookie` (8 client octets by type, 8..=32 server octets);
* `BTreeSet<ServiceParameter>` is strictly sorted by `get_registered_number` (the `Ord` instance compares
  only that number);
* header enums (`Opcode`, `RCode`, `Class`, `QType`, `QClass`, the record enum `RR`) are among the
  supported variants;
* the embedding conventions of the model for fields that a Rust struct does NOT have: an `OPT` value has
  owner `[]`, `cls = 0`, `ttl = 0` (its wire CLASS / TTL live in `RData.opt`); `A`, `AAAA`, `WKS`, `APL`,
  `SVCB`, `HTTPS` have no class field and are embedded with `cls = 1` (`classOk`).

NOT part of `ApiOk` – on purpose: every limit that `encode` itself checks (character-string / label /
`alpn` id `≤ 255`, RDATA / option / SvcParam value / `ech` `≤ 65535`, section sizes `≤ 65535`, message
`≤ 65535`): exceeding one of them makes `encode` return an error, which is fine. And NOT part of it: the
four value classes below, which the public fields allow.

The recorded findings as value classes: `Finding.K3`, `Finding.K4a`, `Finding.K4b`, `Finding.K4c`.

Main theorem (`ApiOk.classified`): an API-constructible value that encodes successfully is well-formed
(`WfMsg`, the premise of the round-trip theorem `C05.encode_decode`) or lies in one of the four classes.
No fifth class was needed: every conjunct of `WfMsg` is an API fact, a consequence of successful
encoding (`EncLim.encode_limits`), or the negation of one of K3, K4a, K4b, K4c. -/

/-! ## What the API guarantees -/

/-- `DomainName` (a list of `Label`s, each a validated `String`): the invariant kept by
`Label::try_from`, `append_label`, `FromStr`, and UTF-8 because labels are `String`s -/
def ApiOkName (n : Name) : Prop := DomainName.Inv n ∧ ∀ l ∈ n, validUtf8 l = true

/-- a `String`-like field that is rendered as a `<character-string>`: UTF-8, and for the validated
newtypes (`PSDNAddress`, `ISDNAddress`, `SA`, `Tag`) the stored string is what its `TryFrom<String>`
validator stores. The three `GPOS` fields are plain `pub String`s: the `gpos` check exists only in the
decoder, so the API guarantees nothing beyond UTF-8 for them. NO length bound. -/
def ApiOkStr (c : StrCheck) (s : Bytes) : Prop := validUtf8 s = true ∧ (c ≠ .gpos → c.run s = .ok s)

/-- one field value against its field descriptor -/
def ApiOkVal : Fld → FVal → Prop
  | .num w, .num n => n < 256 ^ w
  | .enum w id, .num n => n < 256 ^ w ∧ id.valid n = true
  | .name _, .name n => ApiOkName n
  | .cstr c, .bytes s => ApiOkStr c s
  | .ocstr _, .obytes none => True
  | .ocstr c, .obytes (some s) => ApiOkStr c s
  | .strs, .strs l => l ≠ [] ∧ ∀ s ∈ l, validUtf8 s = true
  | .rest u, .bytes b => u = true → validUtf8 b = true
  | .oct k c, .bytes b => b.length = k * c
  | _, _ => False

def ApiOkVals : List Fld → List FVal → Prop
  | [], [] => True
  | f :: fs, v :: vs => ApiOkVal f v ∧ ApiOkVals fs vs
  | _, _ => False

/-- `Address` is `Ipv4(Ipv4Addr) | Ipv6(Ipv6Addr)`; the family number is derived from the variant -/
def ApiOkAddr (fam : Nat) (addr : Bytes) : Prop := (addr.length = 4 ∧ fam = 1) ∨ (addr.length = 16 ∧ fam = 2)

/-- `ECS` (private fields; `new` and the three setters keep `ECS.Inv`), `Cookie` (`client_cookie: [u8; 8]`
public, `server_cookie` private and checked), `Padding(pub u16)` -/
def ApiOkOption : EdnsOpt → Prop
  | .ecs fam src scope addr => src < 256 ∧ scope < 256 ∧ ApiOkAddr fam addr ∧ ECS.Inv ⟨src, scope, addr⟩
  | .cookie client server => client.length = 8 ∧ Cookie.Inv ⟨client, server⟩
  | .padding n => n < 65536

/-- `APItem` (`prefix: u8` and `address` private; `new` and the setters keep `APItem.Inv`) -/
def ApiOkApItem (it : APItem) : Prop := it.pfx < 256 ∧ ApiOkAddr it.fam it.addr ∧ it.Inv

/-- `ServiceParameter`: every variant has public fields; only the types constrain them -/
def ApiOkParam : SvcParam → Prop
  | .mandatory ks => ∀ k ∈ ks, k < 65536
  | .alpn ids => ∀ s ∈ ids, validUtf8 s = true
  | .noDefaultAlpn => True
  | .port p => p < 65536
  | .ipv4hint hs => ∀ h ∈ hs, h.length = 4
  | .ech _ => True
  | .ipv6hint hs => ∀ h ∈ hs, h.length = 16
  | .priv k _ => k < 65536
  | .key65535 => True

/-- the body of a record of type `ty` (the variant of the Rust enum `RR` fixes the constructor) -/
def ApiOkRData (ty : Nat) : RData → Prop
  | .fields vs => ∃ info, rrKind ty = some (.regular info) ∧ ApiOkVals (info.flds.map (·.2)) vs
  | .opt payload ext ver _ opts =>
      rrKind ty = some .opt ∧ payload < 65536 ∧ ext < 256 ∧ ver < 256 ∧ ∀ o ∈ opts, ApiOkOption o
  | .apl items => rrKind ty = some .apl ∧ ∀ it ∈ items, ApiOkApItem it
  | .svcb prio target params =>
      (∃ https, rrKind ty = some (.svcb https)) ∧ prio < 65536 ∧ ApiOkName target ∧
      keysSorted params ∧ ∀ p ∈ params, ApiOkParam p

/-- a resource record. `OPT` has no owner / class / ttl fields (embedded as `[]`, `0`, `0`); the other
records have `domain_name: DomainName`, `ttl: u32` and either `class: Class` or no class field
(embedded as IN): `classOk`. -/
def ApiOkRR (rr : RR) : Prop :=
  ApiOkRData rr.ty rr.rd ∧
  match rr.rd with
  | .opt .. => rr.name = [] ∧ rr.cls = 0 ∧ rr.ttl = 0
  | _ => ApiOkName rr.name ∧ classOk rr.ty rr.cls ∧ rr.ttl < 2 ^ 32

def ApiOkQuestion (q : Question) : Prop :=
  ApiOkName q.name ∧ qtypeKnown q.qtype = true ∧ qclassKnown q.qclass = true

/-- `Flags { opcode: Opcode, rcode: RCode, .. }`: any variant of the two enums, INCLUDING the extended
rcodes 16..=23 -/
def ApiOkFlags (f : Flags) : Prop := opcodeKnown f.opcode = true ∧ rcodeKnown f.rcode = true

/-- `Dns { id: u16, flags, questions: Vec<_>, answers: Vec<_>, authorities: Vec<_>, additionals: Vec<_> }`:
NO bound on the section sizes -/
def ApiOk (m : Msg) : Prop :=
  m.id < 65536 ∧ ApiOkFlags m.flags ∧ (∀ q ∈ m.qs, ApiOkQuestion q) ∧ ∀ rr ∈ EncLim.msgRRs m, ApiOkRR rr

/-! ## The recorded findings as value classes -/

namespace Finding

/-- **K3**: an extended rcode (`BADVERS..BADCOOKIE`, 16..=23) in the header flags -/
def K3 (m : Msg) : Prop := 15 < m.flags.rcode

/-- **K4a**: `PRIVATE { number }` with the number of a registered key (0..=6) or 65535 -/
def K4aRR (rr : RR) : Prop :=
  ∃ prio target params k b, rr.rd = .svcb prio target params ∧ SvcParam.priv k b ∈ params ∧ (k ≤ 6 ∨ k = 65535)

/-- **K4b**: alias form (`priority = 0`) with a non-empty parameter set -/
def K4bRR (rr : RR) : Prop := ∃ target params, rr.rd = .svcb 0 target params ∧ params ≠ []

/-- **K4c**: `GPOS` with an empty longitude, latitude or altitude -/
def K4cRR (rr : RR) : Prop :=
  rr.ty = 27 ∧ ∃ lo la al, rr.rd = .fields [.bytes lo, .bytes la, .bytes al] ∧ (lo = [] ∨ la = [] ∨ al = [])

def K4a (m : Msg) : Prop := ∃ rr ∈ EncLim.msgRRs m, K4aRR rr
def K4b (m : Msg) : Prop := ∃ rr ∈ EncLim.msgRRs m, K4bRR rr
def K4c (m : Msg) : Prop := ∃ rr ∈ EncLim.msgRRs m, K4cRR rr

end Finding

namespace ApiOk

open EncLim Finding

/-! ## Names, strings, fields -/

theorem name_wf {n : Name} (h : ApiOkName n) : WfName n := ⟨h.1.1, h.1.2, h.2⟩

/-- a string field: the length bound comes from the encoder, non-emptiness of a GPOS string from `¬ K4c` -/
theorem str_wf {c : StrCheck} {s : Bytes} (ha : ApiOkStr c s) (hl : s.length ≤ 255) (hg : c = .gpos → s ≠ []) :
    WfStr c s := by
  refine ⟨hl, ha.1, ?_⟩
  by_cases hc : c = .gpos
  · subst hc
    have hne := hg rfl
    have h1 : 1 ≤ s.length := by
      cases s with
      | nil => exact absurd rfl hne
      | cons a r => simp
    exact (gpos_ok_iff s s).mpr ⟨rfl, h1, by omega⟩
  · exact ha.2 hc

/-- the GPOS strings of a field are non-empty -/
def gposFilled : Fld → FVal → Prop
  | .cstr c, .bytes s => c = .gpos → s ≠ []
  | .ocstr c, .obytes (some s) => c = .gpos → s ≠ []
  | _, _ => True

def gposFilleds : List Fld → List FVal → Prop
  | f :: fs, v :: vs => gposFilled f v ∧ gposFilleds fs vs
  | _, _ => True

theorem val_shaped {f : Fld} {v : FVal} (ha : ApiOkVal f v) : shapedF f v = true := by
  cases f <;> cases v <;> first | rfl | exact ha.elim

theorem vals_shaped : ∀ (fs : List Fld) (vs : List FVal), ApiOkVals fs vs → shapedFs fs vs = true
  | [], [], _ => rfl
  | [], _ :: _, h => h.elim
  | _ :: _, [], h => h.elim
  | f :: fs, v :: vs, h => by
    simp only [shapedFs, Bool.and_eq_true]
    exact ⟨val_shaped h.1, vals_shaped fs vs h.2⟩

theorem val_wf {f : Fld} {v : FVal} (ha : ApiOkVal f v) (hc : ∀ s ∈ fieldChecked f v, s.length ≤ 255)
    (hg : gposFilled f v) : WfVal f v := by
  cases f with
  | num w => cases v <;> first | exact ha | exact ha.elim
  | «enum» w id => cases v <;> first | exact ha | exact ha.elim
  | name c => cases v <;> first | exact name_wf ha | exact ha.elim
  | cstr c =>
    cases v with
    | bytes s => exact str_wf ha (hc s (by simp [fieldChecked])) hg
    | _ => exact ha.elim
  | ocstr c =>
    cases v with
    | obytes o =>
      cases o with
      | none => trivial
      | some s => exact str_wf ha (hc s (by simp [fieldChecked])) hg
    | _ => exact ha.elim
  | strs =>
    cases v with
    | strs l => exact ⟨ha.1, fun s hs => ⟨hc s (by simpa [fieldChecked] using hs), ha.2 s hs⟩⟩
    | _ => exact ha.elim
  | rest u => cases v <;> first | exact ha | exact ha.elim
  | oct k c => cases v <;> first | exact ha | exact ha.elim

theorem vals_wf : ∀ (fs : List Fld) (vs : List FVal), ApiOkVals fs vs →
    (∀ s ∈ fieldsChecked fs vs, s.length ≤ 255) → gposFilleds fs vs → WfVals fs vs
  | [], [], _, _, _ => trivial
  | [], _ :: _, h, _, _ => h.elim
  | _ :: _, [], h, _, _ => h.elim
  | f :: fs, v :: vs, h, hc, hg =>
    ⟨val_wf h.1 (fun s hs => hc s (by simp [fieldsChecked, hs])) hg.1,
     vals_wf fs vs h.2 (fun s hs => hc s (by simp [fieldsChecked, hs])) hg.2⟩

/-! ## Only GPOS (type 27) has `gpos` strings -/

def noGposF : Fld → Bool
  | .cstr .gpos => false
  | .ocstr .gpos => false
  | _ => true

theorem gposFilled_of_noGposF {f : Fld} (h : noGposF f = true) (v : FVal) : gposFilled f v := by
  cases f with
  | cstr c =>
    cases v with
    | bytes s => intro hc; subst hc; cases h
    | _ => trivial
  | ocstr c =>
    cases v with
    | obytes o =>
      cases o with
      | none => trivial
      | some s => intro hc; subst hc; cases h
    | _ => trivial
  | _ => cases v <;> trivial

theorem gposFilleds_of_noGpos : ∀ (fs : List Fld) (vs : List FVal), fs.all noGposF = true → gposFilleds fs vs
  | [], [], _ => trivial
  | [], _ :: _, _ => trivial
  | _ :: _, [], _ => trivial
  | f :: fs, v :: vs, h => by
    simp only [List.all_cons, Bool.and_eq_true] at h
    exact ⟨gposFilled_of_noGposF h.1 v, gposFilleds_of_noGpos fs vs h.2⟩

/-- in the record table `gpos` strings occur in the row of type 27 only -/
theorem gpos_only_27 : ∀ ty ∈ implementedTypes,
    (match rrKind ty with
     | some (.regular i) => (i.flds.map (·.2)).all noGposF || ty == 27
     | _ => true) = true := by decide

theorem noGpos_of_ne_27 {ty : Nat} {info : RRInfo} (hk : rrKind ty = some (.regular info)) (hty : ty ≠ 27) :
    (info.flds.map (·.2)).all noGposF = true := by
  have h := gpos_only_27 ty (EncSpec.rrKind_some_mem hk)
  rw [hk] at h
  simp only [Bool.or_eq_true, beq_iff_eq] at h
  rcases h with h | h
  · exact h
  · exact absurd h hty

/-- the three fields of an API-constructible GPOS body -/
theorem gpos_vals {vs : List FVal} (h : ApiOkVals [.cstr .gpos, .cstr .gpos, .cstr .gpos] vs) :
    ∃ lo la al, vs = [.bytes lo, .bytes la, .bytes al] := by
  match vs, h with
  | [.bytes lo, .bytes la, .bytes al], _ => exact ⟨lo, la, al, rfl⟩

/-! ## Options, APL items, SvcParams -/

theorem famWidth_of_addr {fam : Nat} {addr : Bytes} (h : ApiOkAddr fam addr) :
    (fam = 1 ∨ fam = 2) ∧ addr.length = famWidth fam := by
  rcases h with ⟨hl, rfl⟩ | ⟨hl, rfl⟩
  · exact ⟨Or.inl rfl, by simp [famWidth, hl]⟩
  · exact ⟨Or.inr rfl, by simp [famWidth, hl]⟩

theorem option_wf {o : EdnsOpt} (h : ApiOkOption o) : WfOption o := by
  cases o with
  | ecs fam src scope addr =>
    obtain ⟨h1, h2, h3, h4, h5⟩ := h
    obtain ⟨hf, hl⟩ := famWidth_of_addr h3
    exact ⟨hf, hl, h1, h2, by rw [← hl]; exact h4, h5⟩
  | cookie client server => exact ⟨h.1, h.2⟩
  | padding n => exact h

theorem apItem_wf {it : APItem} (h : ApiOkApItem it) : WfApItem it := by
  obtain ⟨h1, h2, h3, h4⟩ := h
  obtain ⟨hf, hl⟩ := famWidth_of_addr h2
  exact ⟨hf, hl, h1, by rw [← hl]; exact h3, h4⟩

/-- a WRITTEN parameter: the `alpn` id and `ech` bounds come from the encoder, the key range of
`PRIVATE` from `¬ K4a` -/
theorem param_wf {p : SvcParam} (h : ApiOkParam p) (hstr : ∀ s ∈ svcStrs p, s.length ≤ 255)
    (hbody : (svcBody p).length ≤ 65535) (hk : ∀ k b, p = .priv k b → ¬ (k ≤ 6 ∨ k = 65535)) : WfParam p := by
  cases p with
  | mandatory ks => exact h
  | alpn ids => exact fun s hs => ⟨hstr s hs, h s hs⟩
  | noDefaultAlpn => trivial
  | port p => exact h
  | ipv4hint hs => exact h
  | ech b =>
    simp only [svcBody, List.length_append, beBytes_length] at hbody
    show b.length < 65536
    omega
  | ipv6hint hs => exact h
  | priv k b =>
    have := hk k b rfl
    have h' : k < 65536 := h
    show 7 ≤ k ∧ k < 65535
    omega
  | key65535 => trivial

/-! ## Records -/

theorem rr_shaped {rr : RR} (h : ApiOkRR rr) : Shaped rr := by
  obtain ⟨name, ty, cls, ttl, rd⟩ := rr
  obtain ⟨hrd, _⟩ := h
  unfold Shaped shapedRR
  cases rd with
  | fields vs =>
    obtain ⟨info, hk, hv⟩ := hrd
    simp only [hk]
    exact vals_shaped _ _ hv
  | opt payload ext ver dnssec opts => simp only [hrd.1]
  | apl items => simp only [hrd.1]
  | svcb prio target params =>
    obtain ⟨⟨https, hk⟩, _⟩ := hrd
    simp only [hk]

/-- **record level**: an API-constructible record whose checked strings and written SvcParam values are
within the limits that a successful `encode` guarantees, and which is in none of the classes K4a, K4b,
K4c, is well-formed -/
theorem rr_wf {rr : RR} (h : ApiOkRR rr) (hchk : ∀ s ∈ rdataChecked rr, s.length ≤ 255)
    (hsvc : ∀ p ∈ rrSvcParams rr, (svcBody p).length ≤ 65535)
    (h4a : ¬ K4aRR rr) (h4b : ¬ K4bRR rr) (h4c : ¬ K4cRR rr) : WfRR rr := by
  obtain ⟨name, ty, cls, ttl, rd⟩ := rr
  obtain ⟨hrd, hrest⟩ := h
  cases rd with
  | fields vs =>
    obtain ⟨info, hk, hv⟩ := hrd
    simp only [rdataChecked, hk] at hchk
    refine ⟨⟨info, hk, vals_wf _ _ hv hchk ?_⟩, name_wf hrest.1, hrest.2.1, hrest.2.2⟩
    by_cases hty : ty = 27
    · subst hty
      have hi : info = ⟨"GPOS", none, [("longitude", .cstr .gpos), ("latitude", .cstr .gpos),
          ("altitude", .cstr .gpos)]⟩ := by
        have : some (RRKind.regular info) = rrKind 27 := hk.symm
        simp only [rrKind] at this
        injection this with this
        injection this
      subst hi
      obtain ⟨lo, la, al, rfl⟩ := gpos_vals hv
      refine ⟨fun _ hlo => ?_, fun _ hla => ?_, fun _ hal => ?_, trivial⟩
      · exact h4c ⟨rfl, lo, la, al, rfl, Or.inl hlo⟩
      · exact h4c ⟨rfl, lo, la, al, rfl, Or.inr (Or.inl hla)⟩
      · exact h4c ⟨rfl, lo, la, al, rfl, Or.inr (Or.inr hal)⟩
    · exact gposFilleds_of_noGpos _ _ (noGpos_of_ne_27 hk hty)
  | opt payload ext ver dnssec opts =>
    obtain ⟨hk, hp, he, hv, ho⟩ := hrd
    exact ⟨⟨hk, fun o hoo => option_wf (ho o hoo)⟩, hrest.1, hrest.2.1, hrest.2.2, hp, he, hv⟩
  | apl items =>
    exact ⟨⟨hrd.1, fun it hit => apItem_wf (hrd.2 it hit)⟩, name_wf hrest.1, hrest.2.1, hrest.2.2⟩
  | svcb prio target params =>
    obtain ⟨⟨https, hk⟩, hp, htg, hsorted, hps⟩ := hrd
    simp only [rdataChecked, hk] at hchk
    simp only [rrSvcParams, hk] at hsvc
    have hzero : prio = 0 → params = [] := fun hz => by
      subst hz
      cases params with
      | nil => rfl
      | cons p ps => exact absurd ⟨target, p :: ps, rfl, by simp⟩ h4b
    refine ⟨⟨⟨https, hk⟩, hp, name_wf htg, hsorted, fun p hpm => ?_, hzero⟩,
      name_wf hrest.1, hrest.2.1, hrest.2.2⟩
    by_cases hz : prio = 0
    · rw [hzero hz] at hpm; cases hpm
    · simp only [hz, if_false] at hchk hsvc
      refine param_wf (hps p hpm) (fun s hs => hchk s ?_) (hsvc p hpm) (fun k b hpk hbad => ?_)
      · simp only [List.mem_flatMap]; exact ⟨p, hpm, hs⟩
      · exact h4a ⟨prio, target, params, k, b, rfl, hpk ▸ hpm, hbad⟩

theorem question_wf {q : Question} (h : ApiOkQuestion q) : WfQuestion q := ⟨name_wf h.1, h.2.1, h.2.2⟩

/-! ## Messages -/

theorem shapedMsg {m : Msg} (h : ApiOk m) : ShapedMsg m := fun rr hr => rr_shaped (h.2.2.2 rr hr)

/-- an API-constructible value that encodes `Ok` and is in none of the four classes is well-formed -/
theorem wf_of_not_finding {m : Msg} {b : Bytes} (ha : ApiOk m) (h : encodeDns m = .ok b)
    (h3 : ¬ K3 m) (h4a : ¬ K4a m) (h4b : ¬ K4b m) (h4c : ¬ K4c m) : WfMsg m := by
  obtain ⟨_, _, hcnt, _, hlim, _⟩ := encode_limits (shapedMsg ha) h
  obtain ⟨hid, hfl, hq, hrr⟩ := ha
  have hwf : ∀ rr ∈ msgRRs m, WfRR rr := fun rr hr => by
    obtain ⟨_, _, _, _, _, _, _, _, hchk, _, hsvc, _⟩ := hlim rr hr
    exact rr_wf (hrr rr hr) hchk hsvc (fun hk => h4a ⟨rr, hr, hk⟩) (fun hk => h4b ⟨rr, hr, hk⟩)
      (fun hk => h4c ⟨rr, hr, hk⟩)
  have h3' : m.flags.rcode < 16 := by unfold K3 at h3; omega
  exact ⟨hid, ⟨hfl.1, hfl.2, h3'⟩, by omega, by omega, by omega, by omega,
    fun q hqm => question_wf (hq q hqm),
    fun r hr => hwf r (by simp [msgRRs, hr]), fun r hr => hwf r (by simp [msgRRs, hr]),
    fun r hr => hwf r (by simp [msgRRs, hr])⟩

/-- **The classification** (C08, last clause): an API-constructible value that `encode` accepts is
well-formed — so it decodes back to the same value (`C05.encode_decode`) — or lies in one of the four
recorded classes. -/
theorem classified {m : Msg} {b : Bytes} (ha : ApiOk m) (h : encodeDns m = .ok b) :
    WfMsg m ∨ K3 m ∨ K4a m ∨ K4b m ∨ K4c m := by
  by_cases h3 : K3 m
  · exact Or.inr (Or.inl h3)
  by_cases h4a : K4a m
  · exact Or.inr (Or.inr (Or.inl h4a))
  by_cases h4b : K4b m
  · exact Or.inr (Or.inr (Or.inr (Or.inl h4b)))
  by_cases h4c : K4c m
  · exact Or.inr (Or.inr (Or.inr (Or.inr h4c)))
  exact Or.inl (wf_of_not_finding ha h h3 h4a h4b h4c)

/-- … and outside the four classes the emitted message decodes, to the same value -/
theorem decodes_back {m : Msg} {b : Bytes} (ha : ApiOk m) (h3 : ¬ K3 m) (h4a : ¬ K4a m) (h4b : ¬ K4b m)
    (h4c : ¬ K4c m) (h : encodeDns m = .ok b) : ∃ m' d, decodeDns b = .ok (m', d) ∧ m'.norm = m.norm :=
  RT.encode_decode (wf_of_not_finding ha h h3 h4a h4b h4c) h

/-- conversely a well-formed value is API-constructible in the sense above and in none of the classes:
`WfMsg` = `ApiOk` + the limits that `encode` checks + "not K3, K4a, K4b, K4c" -/
theorem wf_not_finding {m : Msg} (hwf : WfMsg m) : ¬ K3 m ∧ ¬ K4a m ∧ ¬ K4b m ∧ ¬ K4c m := by
  obtain ⟨_, hfl, _, _, _, _, _, han, hns, har⟩ := hwf
  have hrr : ∀ rr ∈ msgRRs m, WfRR rr := fun rr hr => by
    simp only [msgRRs, List.mem_append] at hr
    rcases hr with (hr | hr) | hr
    · exact han rr hr
    · exact hns rr hr
    · exact har rr hr
  refine ⟨fun h3 => ?_, ?_, ?_, ?_⟩
  · have := hfl.2.2; unfold K3 at h3; omega
  · rintro ⟨rr, hr, prio, target, params, k, b, hrd, hpm, hbad⟩
    have h := (hrr rr hr).1
    rw [hrd] at h
    have h' : 7 ≤ k ∧ k < 65535 := h.2.2.2.2.1 _ hpm
    omega
  · rintro ⟨rr, hr, target, params, hrd, hne⟩
    have h := (hrr rr hr).1
    rw [hrd] at h
    exact hne (h.2.2.2.2.2 rfl)
  · rintro ⟨rr, hr, hty, lo, la, al, hrd, hemp⟩
    have h := (hrr rr hr).1
    rw [hrd, hty] at h
    obtain ⟨info, hk, hv⟩ := h
    have hi : info = ⟨"GPOS", none, [("longitude", .cstr .gpos), ("latitude", .cstr .gpos),
        ("altitude", .cstr .gpos)]⟩ := by
      have : some (RRKind.regular info) = rrKind 27 := hk.symm
      simp only [rrKind] at this
      injection this with this
      injection this
    subst hi
    obtain ⟨⟨_, _, h1⟩, ⟨_, _, h2⟩, ⟨_, _, h3⟩, _⟩ := hv
    have e1 := ((gpos_ok_iff _ _).mp h1).2.1
    have e2 := ((gpos_ok_iff _ _).mp h2).2.1
    have e3 := ((gpos_ok_iff _ _).mp h3).2.1
    rcases hemp with rfl | rfl | rfl
    · simp at e1
    · simp at e2
    · simp at e3

/-! ## Non-vacuity: a value outside the four classes, and one witness per class

Each witness message is API-constructible, encodes `Ok`, lies in EXACTLY one of the four classes, is not
well-formed, and the octets it is encoded to decode to a different value (K3, K4a, K4b) or not at all
(K4c): every disjunct of `classified` is inhabited and none of them can be dropped. -/

attribute [local instance] Lemmas.decEqExcept

instance (n : Name) : Decidable (ApiOkName n) := by unfold ApiOkName DomainName.Inv; infer_instance
instance (m : Msg) : Decidable (K3 m) := by unfold K3; infer_instance

/-- response flags `QR RD RA`, opcode `Query`, the given rcode -/
def fl (rcode : Nat) : Flags := ⟨true, 0, false, false, true, true, false, false, rcode⟩

/-- one record in the answer section of a response -/
def one (rcode : Nat) (rr : RR) : Msg :=
  { id := 0x1234, flags := fl rcode, qs := [⟨[[97]], 1, 1⟩], an := [rr], ns := [], ar := [] }

theorem one_api {rcode : Nat} {rr : RR} (hrc : rcodeKnown rcode = true) (hrr : ApiOkRR rr) : ApiOk (one rcode rr) := by
  refine ⟨(by decide : 0x1234 < 65536), ⟨(by decide : opcodeKnown 0 = true), hrc⟩, fun q hq => ?_, fun r hr => ?_⟩
  · simp [one] at hq; subst hq; exact ⟨by decide, by decide, by decide⟩
  · simp [one, msgRRs] at hr; subst hr; exact hrr

/-- a response with a question, an A and a (filled) GPOS answer, an OPT record with ECS, cookie and padding
options, and an HTTPS record in service form with `port` and a `PRIVATE` key in the private range -/
def okMsg : Msg :=
  { id := 0x1234
    flags := fl 0
    qs := [⟨[[97]], 1, 1⟩]
    an := [⟨[[97]], 1, 1, 60, .fields [.bytes [10, 0, 0, 1]]⟩,
           ⟨[[97]], 27, 1, 60, .fields [.bytes [49], .bytes [50], .bytes [51]]⟩]
    ns := []
    ar := [⟨[], 41, 0, 0, .opt 1232 0 0 false [.ecs 1 24 0 [10, 0, 0, 0], .cookie [1, 2, 3, 4, 5, 6, 7, 8] none, .padding 2]⟩,
           ⟨[[97]], 65, 1, 60, .svcb 1 [] [.port 443, .priv 7 [1]]⟩] }

theorem okMsg_api : ApiOk okMsg := by
  refine ⟨by decide, ⟨by decide, by decide⟩, fun q hq => ?_, fun r hr => ?_⟩
  · simp [okMsg] at hq; subst hq; exact ⟨by decide, by decide, by decide⟩
  · simp [okMsg, msgRRs] at hr
    rcases hr with rfl | rfl | rfl | rfl
    · exact ⟨⟨_, rfl, rfl, trivial⟩, by decide, ⟨by decide, fun _ => rfl⟩, by decide⟩
    · exact ⟨⟨_, rfl, ⟨by decide, fun h => absurd rfl h⟩, ⟨by decide, fun h => absurd rfl h⟩,
        ⟨by decide, fun h => absurd rfl h⟩, trivial⟩, by decide, ⟨by decide, fun h => by simp at h⟩, by decide⟩
    · refine ⟨⟨rfl, by decide, by decide, by decide, fun o ho => ?_⟩, rfl, rfl, rfl⟩
      simp at ho
      rcases ho with rfl | rfl | rfl
      · exact ⟨by decide, by decide, Or.inl ⟨rfl, rfl⟩,
          ECS.new_inv (by decide : ECS.new 24 0 [10, 0, 0, 0] = .ok ⟨24, 0, [10, 0, 0, 0]⟩)⟩
      · exact ⟨rfl, fun v hv => by simp at hv⟩
      · exact (by decide : 2 < 65536)
    · refine ⟨⟨⟨true, rfl⟩, by decide, by decide, ⟨by decide, trivial⟩, fun p hp => ?_⟩, by decide, ⟨by decide, rfl⟩, by decide⟩
      simp at hp
      rcases hp with rfl | rfl
      · exact (by decide : 443 < 65536)
      · exact (by decide : 7 < 65536)


theorem one_K3 (rcode : Nat) (rr : RR) : K3 (one rcode rr) ↔ 15 < rcode := Iff.rfl
theorem one_K4a (rcode : Nat) (rr : RR) : K4a (one rcode rr) ↔ K4aRR rr := by simp [K4a, one, msgRRs]
theorem one_K4b (rcode : Nat) (rr : RR) : K4b (one rcode rr) ↔ K4bRR rr := by simp [K4b, one, msgRRs]
theorem one_K4c (rcode : Nat) (rr : RR) : K4c (one rcode rr) ↔ K4cRR rr := by simp [K4c, one, msgRRs]

theorem fields_not_K4a (name : Name) (ty cls ttl : Nat) (vs : List FVal) : ¬ K4aRR ⟨name, ty, cls, ttl, .fields vs⟩ := by
  rintro ⟨_, _, _, _, _, h, _⟩; cases h
theorem fields_not_K4b (name : Name) (ty cls ttl : Nat) (vs : List FVal) : ¬ K4bRR ⟨name, ty, cls, ttl, .fields vs⟩ := by
  rintro ⟨_, _, h, _⟩; cases h
theorem svcb_not_K4c (name : Name) (ty cls ttl prio : Nat) (tg : Name) (ps : List SvcParam) :
    ¬ K4cRR ⟨name, ty, cls, ttl, .svcb prio tg ps⟩ := by
  rintro ⟨_, _, _, _, h, _⟩; cases h

def aRR : RR := ⟨[[97]], 1, 1, 60, .fields [.bytes [10, 0, 0, 1]]⟩
theorem aRR_api : ApiOkRR aRR := ⟨⟨_, rfl, rfl, trivial⟩, by decide, ⟨by decide, fun _ => rfl⟩, by decide⟩

/-- K3 witness -/
def k3Msg : Msg := one 16 aRR
theorem k3Msg_spec : ApiOk k3Msg ∧ K3 k3Msg ∧ ¬ K4a k3Msg ∧ ¬ K4b k3Msg ∧ ¬ K4c k3Msg ∧ ¬ WfMsg k3Msg ∧
    encodeDns k3Msg = .ok [18, 52, 129, 144, 0, 1, 0, 1, 0, 0, 0, 0, 1, 97, 0, 0, 1, 0, 1, 192, 12, 0, 1, 0, 1, 0, 0, 0,
      60, 0, 4, 10, 0, 0, 1] := by
  have h3 : K3 k3Msg := (one_K3 _ _).mpr (by decide)
  refine ⟨one_api (by decide) aRR_api, h3, ?_, ?_, ?_, fun hwf => (wf_not_finding hwf).1 h3, rfl⟩
  · rw [k3Msg, one_K4a]; exact fields_not_K4a _ _ _ _ _
  · rw [k3Msg, one_K4b]; exact fields_not_K4b _ _ _ _ _
  · rw [k3Msg, one_K4c]; rintro ⟨h, _⟩; cases h

set_option maxRecDepth 16384 in
/-- the emitted octets decode to a DIFFERENT value: `cd = true`, rcode 0 -/
theorem k3Msg_decoded : ∃ d, decodeDns [18, 52, 129, 144, 0, 1, 0, 1, 0, 0, 0, 0, 1, 97, 0, 0, 1, 0, 1, 192, 12, 0, 1, 0, 1,
      0, 0, 0, 60, 0, 4, 10, 0, 0, 1] = .ok ({ k3Msg with flags := { k3Msg.flags with cd := true, rcode := 0 } }, d) :=
  ⟨_, rfl⟩


/-- K4a witness: `PRIVATE { number: 3, wire_data: [0, 80] }` -/
def k4aRR : RR := ⟨[], 64, 1, 0, .svcb 1 [] [.priv 3 [0, 80]]⟩
def k4aMsg : Msg := one 0 k4aRR
theorem k4aRR_api : ApiOkRR k4aRR := by
  refine ⟨⟨⟨false, rfl⟩, by decide, by decide, trivial, fun p hp => ?_⟩, by decide, ⟨by decide, rfl⟩, by decide⟩
  simp at hp; subst hp; exact (by decide : 3 < 65536)
theorem k4aMsg_spec : ApiOk k4aMsg ∧ ¬ K3 k4aMsg ∧ K4a k4aMsg ∧ ¬ K4b k4aMsg ∧ ¬ K4c k4aMsg ∧ ¬ WfMsg k4aMsg ∧
    encodeDns k4aMsg = .ok [18, 52, 129, 128, 0, 1, 0, 1, 0, 0, 0, 0, 1, 97, 0, 0, 1, 0, 1, 0, 0, 64, 0, 1, 0, 0, 0, 0,
      0, 9, 0, 1, 0, 0, 3, 0, 2, 0, 80] := by
  have h4 : K4a k4aMsg := (one_K4a _ _).mpr ⟨1, [], _, 3, [0, 80], rfl, List.Mem.head _, Or.inl (by decide)⟩
  refine ⟨one_api (by decide) k4aRR_api, by decide, h4, ?_, ?_, fun hwf => (wf_not_finding hwf).2.1 h4, rfl⟩
  · rw [k4aMsg, one_K4b]; rintro ⟨_, _, h, _⟩; cases h
  · rw [k4aMsg, one_K4c]; exact svcb_not_K4c _ _ _ _ _ _ _

set_option maxRecDepth 16384 in
/-- the emitted octets decode to a DIFFERENT value: `PORT { port: 80 }` -/
theorem k4aMsg_decoded : ∃ d, decodeDns [18, 52, 129, 128, 0, 1, 0, 1, 0, 0, 0, 0, 1, 97, 0, 0, 1, 0, 1, 0, 0, 64, 0, 1, 0,
      0, 0, 0, 0, 9, 0, 1, 0, 0, 3, 0, 2, 0, 80] = .ok (one 0 ⟨[], 64, 1, 0, .svcb 1 [] [.port 80]⟩, d) := ⟨_, rfl⟩

/-- K4b witness: alias form with `PORT { port: 80 }` -/
def k4bRR : RR := ⟨[], 64, 1, 0, .svcb 0 [[97]] [.port 80]⟩
def k4bMsg : Msg := one 0 k4bRR
theorem k4bRR_api : ApiOkRR k4bRR := by
  refine ⟨⟨⟨false, rfl⟩, by decide, by decide, trivial, fun p hp => ?_⟩, by decide, ⟨by decide, rfl⟩, by decide⟩
  simp at hp; subst hp; exact (by decide : 80 < 65536)
theorem k4bMsg_spec : ApiOk k4bMsg ∧ ¬ K3 k4bMsg ∧ ¬ K4a k4bMsg ∧ K4b k4bMsg ∧ ¬ K4c k4bMsg ∧ ¬ WfMsg k4bMsg ∧
    encodeDns k4bMsg = .ok [18, 52, 129, 128, 0, 1, 0, 1, 0, 0, 0, 0, 1, 97, 0, 0, 1, 0, 1, 0, 0, 64, 0, 1, 0, 0, 0, 0,
      0, 4, 0, 0, 192, 12] := by
  have h4 : K4b k4bMsg := (one_K4b _ _).mpr ⟨[[97]], _, rfl, by simp⟩
  refine ⟨one_api (by decide) k4bRR_api, by decide, ?_, h4, ?_, fun hwf => (wf_not_finding hwf).2.2.1 h4, rfl⟩
  · rw [k4bMsg, one_K4a]
    rintro ⟨_, _, _, k, b, h, hm, _⟩
    injection h with _ _ h; subst h; simp at hm
  · rw [k4bMsg, one_K4c]; exact svcb_not_K4c _ _ _ _ _ _ _

set_option maxRecDepth 16384 in
/-- the emitted octets decode to a DIFFERENT value: no parameters -/
theorem k4bMsg_decoded : ∃ d, decodeDns [18, 52, 129, 128, 0, 1, 0, 1, 0, 0, 0, 0, 1, 97, 0, 0, 1, 0, 1, 0, 0, 64, 0, 1, 0,
      0, 0, 0, 0, 4, 0, 0, 192, 12] = .ok (one 0 ⟨[], 64, 1, 0, .svcb 0 [[97]] []⟩, d) := ⟨_, rfl⟩

/-- K4c witness: `GPOS` with an empty longitude -/
def k4cRR : RR := ⟨[], 27, 1, 0, .fields [.bytes [], .bytes [49], .bytes [50]]⟩
def k4cMsg : Msg := one 0 k4cRR
theorem k4cRR_api : ApiOkRR k4cRR :=
  ⟨⟨_, rfl, ⟨by decide, fun h => absurd rfl h⟩, ⟨by decide, fun h => absurd rfl h⟩, ⟨by decide, fun h => absurd rfl h⟩,
    trivial⟩, by decide, ⟨by decide, fun h => by simp at h⟩, by decide⟩
theorem k4cMsg_spec : ApiOk k4cMsg ∧ ¬ K3 k4cMsg ∧ ¬ K4a k4cMsg ∧ ¬ K4b k4cMsg ∧ K4c k4cMsg ∧ ¬ WfMsg k4cMsg ∧
    encodeDns k4cMsg = .ok [18, 52, 129, 128, 0, 1, 0, 1, 0, 0, 0, 0, 1, 97, 0, 0, 1, 0, 1, 0, 0, 27, 0, 1, 0, 0, 0, 0,
      0, 5, 0, 1, 49, 1, 50] := by
  have h4 : K4c k4cMsg := (one_K4c _ _).mpr ⟨rfl, [], [49], [50], rfl, Or.inl rfl⟩
  refine ⟨one_api (by decide) k4cRR_api, by decide, ?_, ?_, h4, fun hwf => (wf_not_finding hwf).2.2.2 h4, rfl⟩
  · rw [k4cMsg, one_K4a]; exact fields_not_K4a _ _ _ _ _
  · rw [k4cMsg, one_K4b]; exact fields_not_K4b _ _ _ _ _

set_option maxRecDepth 16384 in
/-- the emitted octets do not decode at all -/
theorem k4cMsg_decoded : decodeDns [18, 52, 129, 128, 0, 1, 0, 1, 0, 0, 0, 0, 1, 97, 0, 0, 1, 0, 1, 0, 0, 27, 0, 1, 0, 0, 0,
      0, 0, 5, 0, 1, 49, 1, 50] = .error .gpos := rfl

/-! ### a value outside the four classes -/

set_option maxRecDepth 16384 in
theorem okMsg_encoded : encodeDns okMsg = .ok
    [18, 52, 129, 128, 0, 1, 0, 2, 0, 0, 0, 2, 1, 97, 0, 0, 1, 0, 1, 192, 12, 0, 1, 0, 1, 0, 0, 0, 60, 0, 4, 10,
     0, 0, 1, 192, 12, 0, 27, 0, 1, 0, 0, 0, 60, 0, 6, 1, 49, 1, 50, 1, 51, 0, 0, 41, 4, 208, 0, 0, 0, 0, 0, 30, 0, 8, 0, 8,
     0, 1, 24, 0, 10, 0, 0, 0, 0, 10, 0, 8, 1, 2, 3, 4, 5, 6, 7, 8, 0, 12, 0, 2, 0, 0, 192, 12, 0, 65, 0, 1, 0, 0, 0, 60, 0,
     14, 0, 1, 0, 0, 3, 0, 2, 1, 187, 0, 7, 0, 1, 1] := rfl

theorem okMsg_not_finding : ¬ K3 okMsg ∧ ¬ K4a okMsg ∧ ¬ K4b okMsg ∧ ¬ K4c okMsg := by
  refine ⟨by decide, ?_, ?_, ?_⟩
  · rintro ⟨rr, hr, _, _, _, k, b, hrd, hm, hbad⟩
    simp [okMsg, msgRRs] at hr
    rcases hr with rfl | rfl | rfl | rfl <;> try (cases hrd)
    simp at hm; omega
  · rintro ⟨rr, hr, _, _, hrd, _⟩
    simp [okMsg, msgRRs] at hr
    rcases hr with rfl | rfl | rfl | rfl <;> cases hrd
  · rintro ⟨rr, hr, hty, lo, la, al, hrd, hemp⟩
    simp [okMsg, msgRRs] at hr
    rcases hr with rfl | rfl | rfl | rfl <;> try (cases hty)
    injection hrd with hrd
    simp at hrd
    obtain ⟨rfl, rfl, rfl⟩ := hrd
    simp at hemp

/-- the hypotheses of `decodes_back` hold of `okMsg` -/
example : ∃ m' d, decodeDns
    [18, 52, 129, 128, 0, 1, 0, 2, 0, 0, 0, 2, 1, 97, 0, 0, 1, 0, 1, 192, 12, 0, 1, 0, 1, 0, 0, 0, 60, 0, 4, 10,
     0, 0, 1, 192, 12, 0, 27, 0, 1, 0, 0, 0, 60, 0, 6, 1, 49, 1, 50, 1, 51, 0, 0, 41, 4, 208, 0, 0, 0, 0, 0, 30, 0, 8, 0, 8,
     0, 1, 24, 0, 10, 0, 0, 0, 0, 10, 0, 8, 1, 2, 3, 4, 5, 6, 7, 8, 0, 12, 0, 2, 0, 0, 192, 12, 0, 65, 0, 1, 0, 0, 0, 60, 0,
     14, 0, 1, 0, 0, 3, 0, 2, 1, 187, 0, 7, 0, 1, 1] = .ok (m', d) ∧ m'.norm = okMsg.norm :=
  decodes_back okMsg_api okMsg_not_finding.1 okMsg_not_finding.2.1 okMsg_not_finding.2.2.1 okMsg_not_finding.2.2.2
    okMsg_encoded

end ApiOk
