import DnsVerif.Model.Dec
import DnsVerif.Spec.Bits

/-! # `check_ipv4_addr` / `check_ipv6_addr` against the bit-level statement (C12 / C17 / C01)

`checkPrefix octets p` (Model/Dec.lean) succeeds exactly when `p` is at most the address width and
no address bit at a position `≥ p` is set; it never takes the panicking branch `octects[index]`; the
error kind is determined by which of the two conditions fails. -/

set_option maxRecDepth 100000 in
theorem mask_octet : ∀ (o : UInt8) (r : Fin 8),
    ((o &&& ((0xFF : UInt8) >>> UInt8.ofNat r.val)) == 0) =
      decide (∀ k : Fin 8, r ≤ k → obit o k.val = false) := by
  decide +kernel

set_option maxRecDepth 100000 in
theorem zero_octet : ∀ (o : UInt8), (o == 0) = decide (∀ k : Fin 8, obit o k.val = false) := by
  decide +kernel

/-- an octet is zero iff all its eight bits are clear -/
theorem zero_octet_iff (o : UInt8) : o = 0 ↔ ∀ k, k < 8 → obit o k = false := by
  have h := zero_octet o
  constructor
  · intro h0 k hk
    have h1 : (o == 0) = true := by simp [h0]
    rw [h] at h1
    exact of_decide_eq_true h1 ⟨k, hk⟩
  · intro hb
    have : decide (∀ k : Fin 8, obit o k.val = false) = true := decide_eq_true (fun k => hb k.val k.isLt)
    rw [← h] at this
    simpa using this

theorem abit_eq (octets : Bytes) (j : Nat) (h : j / 8 < octets.length) :
    abit octets j = obit octets[j / 8] (j % 8) := by
  unfold abit
  rw [List.getElem?_eq_getElem h]

/-- position `8 * i + k` is bit `k` of octet `i` -/
theorem abit_mul_add (octets : Bytes) (i k : Nat) (hi : i < octets.length) (hk : k < 8) :
    abit octets (8 * i + k) = obit octets[i] k := by
  have e1 : (8 * i + k) / 8 = i := by omega
  have e2 : (8 * i + k) % 8 = k := by omega
  rw [abit_eq octets _ (by omega)]
  simp only [e1, e2]

theorem NoBitBeyond.mono {octets : Bytes} {p q : Nat} (h : NoBitBeyond octets p) (hpq : p ≤ q) :
    NoBitBeyond octets q := fun j hj hj' => h j (by omega) hj'

/-- every octet wholly beyond the prefix is zero -/
theorem NoBitBeyond.octet_zero {octets : Bytes} {p : Nat} (h : NoBitBeyond octets p)
    (i : Nat) (hi : i < octets.length) (hp : p ≤ 8 * i) : octets[i] = 0 := by
  rw [zero_octet_iff]
  intro k hk
  rw [← abit_mul_add octets i k hi hk]
  exact h _ (by omega) (by omega)

/-- the branch `octects[index]` of `check_prefix` is never out of bounds -/
theorem checkPrefix_no_panic (octets : Bytes) (p : Nat) (site : String) :
    checkPrefix octets p ≠ .error (.panic site) := by
  unfold checkPrefix
  simp only
  split; · split <;> simp
  split; · simp
  split
  · rename_i hn
    rw [List.getElem?_eq_none_iff] at hn
    omega
  · split; · split <;> simp
    split
    · simp
    · split <;> simp

theorem checkPrefix_ok_iff (octets : Bytes) (p : Nat) :
    checkPrefix octets p = .ok () ↔ p ≤ 8 * octets.length ∧ NoBitBeyond octets p := by
  unfold checkPrefix
  simp only
  split
  · rename_i h
    constructor
    · intro h'; split at h' <;> simp at h'
    · intro h'; omega
  · rename_i h1
    split
    · rename_i h2
      simp only [true_iff]
      exact ⟨by omega, fun j hj hj' => by omega⟩
    · rename_i h2
      have hlt : p / 8 < octets.length := by omega
      rw [List.getElem?_eq_getElem hlt]
      simp only
      have hm := mask_octet octets[p / 8] ⟨p % 8, Nat.mod_lt _ (by omega)⟩
      simp only at hm
      constructor
      · intro hok
        split at hok; · split at hok <;> simp at hok
        rename_i hmask
        split at hok
        · rename_i hall
          refine ⟨by omega, ?_⟩
          intro j hj hj'
          rw [abit_eq octets j (by omega)]
          by_cases hsame : j / 8 = p / 8
          · -- same octet
            have hmask' : (octets[p / 8] &&& ((0xFF : UInt8) >>> UInt8.ofNat (p % 8)) == 0) = true := by
              simpa using hmask
            rw [hm] at hmask'
            have := of_decide_eq_true hmask' ⟨j % 8, Nat.mod_lt _ (by omega)⟩ (by
              show p % 8 ≤ j % 8
              have := Nat.div_add_mod j 8; have := Nat.div_add_mod p 8; omega)
            simp only [hsame]
            exact this
          · have hgt : p / 8 + 1 ≤ j / 8 := by
              have := Nat.div_le_div_right (c := 8) hj; omega
            rw [List.all_eq_true] at hall
            have hz := hall octets[j / 8] (by
              rw [List.mem_drop_iff_getElem]
              exact ⟨j / 8 - (p / 8 + 1), by omega, by congr 1; omega⟩)
            have := zero_octet octets[j / 8]
            rw [hz] at this
            exact of_decide_eq_true this.symm ⟨j % 8, Nat.mod_lt _ (by omega)⟩
        · split at hok <;> simp at hok
      · rintro ⟨_, hno⟩
        have hmask : (octets[p / 8] &&& ((0xFF : UInt8) >>> UInt8.ofNat (p % 8)) == 0) = true := by
          rw [hm]
          apply decide_eq_true
          intro k hk
          have := hno (8 * (p / 8) + k.val) (by
            have := Nat.div_add_mod p 8
            have : p % 8 ≤ k.val := hk
            omega) (by have := k.isLt; omega)
          rw [abit_mul_add octets (p / 8) k.val hlt k.isLt] at this
          exact this
        have hmask' : ((octets[p / 8] &&& ((0xFF : UInt8) >>> UInt8.ofNat (p % 8))) != 0) = false := by
          simpa using hmask
        simp only [hmask', Bool.false_eq_true, if_false]
        have hall : (octets.drop (p / 8 + 1)).all (· == 0) = true := by
          rw [List.all_eq_true]
          intro x hx
          rw [List.mem_drop_iff_getElem] at hx
          obtain ⟨i, hi, rfl⟩ := hx
          have := hno.octet_zero (p / 8 + 1 + i) (by omega) (by omega)
          simp [this]
        simp [hall]

/-- the three possible outcomes, with the condition under which each can occur -/
theorem checkPrefix_cases (octets : Bytes) (p : Nat) :
    (8 * octets.length < p ∧
      checkPrefix octets p = .error (if octets.length = 4 then .addr4Prefix else .addr6Prefix)) ∨
    (p ≤ 8 * octets.length ∧ (checkPrefix octets p = .ok () ∨
      checkPrefix octets p = .error (if octets.length = 4 then .addr4Mask else .addr6Mask))) := by
  unfold checkPrefix
  simp only
  split
  · rename_i h; exact .inl ⟨h, rfl⟩
  · rename_i h1
    refine .inr ⟨by omega, ?_⟩
    split; · exact .inl rfl
    rename_i h2
    have hlt : p / 8 < octets.length := by omega
    rw [List.getElem?_eq_getElem hlt]
    simp only
    split; · exact .inr rfl
    split
    · exact .inl rfl
    · exact .inr rfl

/-- Which error is returned when: a prefix longer than the address ⇒ the `Prefix` error of the
family (IPv4 iff the address has 4 octets); otherwise a set bit beyond the prefix ⇒ the `Mask`
error of the family. Together with `checkPrefix_ok_iff` this determines `checkPrefix` completely. -/
theorem checkPrefix_err_kind (octets : Bytes) (p : Nat) :
    (8 * octets.length < p →
      checkPrefix octets p = .error (if octets.length = 4 then .addr4Prefix else .addr6Prefix)) ∧
    (p ≤ 8 * octets.length → ¬ NoBitBeyond octets p →
      checkPrefix octets p = .error (if octets.length = 4 then .addr4Mask else .addr6Mask)) := by
  rcases checkPrefix_cases octets p with ⟨h1, h2⟩ | ⟨h1, h2 | h2⟩
  · exact ⟨fun _ => h2, fun h => by omega⟩
  · exact ⟨fun h => by omega, fun _ hn => absurd ((checkPrefix_ok_iff _ _).mp h2).2 hn⟩
  · exact ⟨fun h => by omega, fun _ _ => h2⟩

/-- the converse reading: every error of `checkPrefix` is one of the four address errors, and says
exactly what is wrong -/
theorem checkPrefix_err_iff (octets : Bytes) (p : Nat) (e : DErr) :
    checkPrefix octets p = .error e ↔
      (8 * octets.length < p ∧ e = (if octets.length = 4 then .addr4Prefix else .addr6Prefix)) ∨
      (p ≤ 8 * octets.length ∧ ¬ NoBitBeyond octets p ∧
        e = (if octets.length = 4 then .addr4Mask else .addr6Mask)) := by
  constructor
  · intro h
    rcases checkPrefix_cases octets p with ⟨h1, h2⟩ | ⟨h1, h2 | h2⟩
    · rw [h2] at h; exact .inl ⟨h1, by injection h with h; exact h.symm⟩
    · rw [h2] at h; cases h
    · refine .inr ⟨h1, ?_, ?_⟩
      · intro hn
        have := (checkPrefix_ok_iff octets p).mpr ⟨h1, hn⟩
        rw [this] at h2; cases h2
      · rw [h2] at h; injection h with h; exact h.symm
  · rintro (⟨h1, rfl⟩ | ⟨h1, h2, rfl⟩)
    · exact (checkPrefix_err_kind octets p).1 h1
    · exact (checkPrefix_err_kind octets p).2 h1 h2

/-! ## Non-vacuity -/

/-- `Except` has no `DecidableEq` in core; used (as a local instance) only for `decide` in examples -/
@[reducible] def Lemmas.decEqExcept {ε α : Type} [DecidableEq ε] [DecidableEq α] : DecidableEq (Except ε α)
  | .ok a, .ok b => if h : a = b then isTrue (by rw [h]) else isFalse (fun h' => h (by injection h'))
  | .error a, .error b => if h : a = b then isTrue (by rw [h]) else isFalse (fun h' => h (by injection h'))
  | .ok _, .error _ => isFalse (fun h => by cases h)
  | .error _, .ok _ => isFalse (fun h => by cases h)
attribute [local instance] Lemmas.decEqExcept

-- 10.0.0.0/8 passes, 10.0.0.1/8 has a bit beyond (Mask), /33 is too long (Prefix), IPv6 variants
example : checkPrefix [10, 0, 0, 0] 8 = .ok () := by decide
example : checkPrefix [10, 0, 0, 1] 8 = .error .addr4Mask := by decide
example : checkPrefix [10, 0, 0, 0] 33 = .error .addr4Prefix := by decide
example : checkPrefix [10, 128, 0, 0] 9 = .ok () ∧ checkPrefix [10, 128, 0, 0] 8 = .error .addr4Mask := by
  decide
example : checkPrefix (0x20 :: 0x01 :: 0x0d :: 0xb8 :: List.replicate 12 0) 29 = .ok () := by decide
example : checkPrefix (0x20 :: 0x01 :: 0x0d :: 0xb8 :: List.replicate 12 0) 28 = .error .addr6Mask := by
  decide
example : checkPrefix (List.replicate 16 0) 129 = .error .addr6Prefix := by decide
example : NoBitBeyond [10, 128, 0, 0] 9 := ((checkPrefix_ok_iff _ _).mp (by decide)).2
example : ¬ NoBitBeyond [10, 128, 0, 0] 8 := fun h =>
  absurd ((checkPrefix_ok_iff [10, 128, 0, 0] 8).mpr ⟨by decide, h⟩) (by decide)
example : abit [10, 128, 0, 0] 4 = true ∧ abit [10, 128, 0, 0] 8 = true ∧ abit [10, 128, 0, 0] 9 = false := by
  decide
