import DnsVerif.Spec.Wire
import DnsVerif.Lemmas.BeBytes
import DnsVerif.Lemmas.NameSound

/-! # Decoder soundness, part 1: primitives and the fields of the regular record types (C03)

Whenever a model reader succeeds, the corresponding relation of `Spec/Wire.lean` holds on the SAME
buffer at the SAME absolute offsets (mode `bk = false`), and the cursor ends exactly where the relation
ends. The decoder state after the step has the same buffer and window and satisfies `D.Ok` again
(`Sound.Keep`). -/

namespace Sound

/-- `d'` is a later state of `d`: same buffer, same window, cursor not moved backwards, invariant holds -/
structure Keep (d d' : D) : Prop where
  buf : d'.buf = d.buf
  lim : d'.lim = d.lim
  le : d.off ≤ d'.off
  ok : D.Ok d'

theorem Keep.refl {d : D} (h : D.Ok d) : Keep d d := ⟨rfl, rfl, Nat.le_refl _, h⟩

theorem Keep.trans {d d' d'' : D} (h1 : Keep d d') (h2 : Keep d' d'') : Keep d d'' :=
  ⟨h2.buf.trans h1.buf, h2.lim.trans h1.lim, Nat.le_trans h1.le h2.le, h2.ok⟩

theorem Keep.off_le {d d' : D} (h : Keep d d') : d'.off ≤ d.lim := by
  have := h.ok.off_le; rw [h.lim] at this; exact this

/-! ## `BytesAt` -/

theorem bytesAt_nil (buf : Bytes) (off : Nat) : BytesAt buf off [] := by
  intro i hi; simp at hi

/-- a slice of the buffer is at its own offset -/
theorem bytesAt_slice (buf : Bytes) (off n : Nat) : BytesAt buf off ((buf.drop off).take n) := by
  intro i hi
  rw [List.length_take] at hi
  rw [take_drop_getElem? (by omega)]

theorem bytesAt_append {buf : Bytes} {off : Nat} {x y : Bytes} :
    BytesAt buf off (x ++ y) ↔ BytesAt buf off x ∧ BytesAt buf (off + x.length) y := by
  constructor
  · intro h
    constructor
    · intro i hi
      have := h i (by simp; omega)
      rw [this, List.getElem?_append_left hi]
    · intro i hi
      have := h (x.length + i) (by simp; omega)
      rw [Nat.add_assoc, this, List.getElem?_append_right (by omega)]
      simp
  · rintro ⟨h1, h2⟩ i hi
    by_cases hx : i < x.length
    · rw [List.getElem?_append_left hx]; exact h1 i hx
    · rw [List.getElem?_append_right (by omega)]
      have := h2 (i - x.length) (by simp at hi; omega)
      rw [← this]; congr 1; omega

/-- glue two adjacent pieces -/
theorem bytesAt_append_of {buf : Bytes} {off o2 : Nat} {x y : Bytes} (h1 : BytesAt buf off x)
    (ho : o2 = off + x.length) (h2 : BytesAt buf o2 y) : BytesAt buf off (x ++ y) :=
  bytesAt_append.mpr ⟨h1, by rw [← ho]; exact h2⟩

theorem bytesAt_singleton {buf : Bytes} {off : Nat} {b : UInt8} : BytesAt buf off [b] ↔ buf[off]? = some b := by
  constructor
  · intro h; simpa using h 0 (by simp)
  · intro h i hi
    have : i = 0 := by simpa using hi
    subst this; simpa using h

/-- a `BytesAt` fact inside the buffer determines the slice -/
theorem bytesAt_eq_slice {buf : Bytes} {off : Nat} {x : Bytes} (h : BytesAt buf off x)
    (hl : off + x.length ≤ buf.length) : (buf.drop off).take x.length = x :=
  take_drop_eq hl h

/-! ## Numbers -/

/-- **`value_on_wire`, decoder form**: a successful `w`-octet read returns the big-endian value of the
`w` octets at the cursor, and these octets are `beBytes w n`. -/
theorem num_sound {d d' : D} {w n : Nat} (hd : D.Ok d) (h : d.num w = .ok (n, d')) :
    n < 256 ^ w ∧ BytesAt d.buf d.off (beBytes w n) ∧ n = beVal ((d.buf.drop d.off).take w) ∧
      d'.off = d.off + w ∧ d.off + w ≤ d.lim ∧ Keep d d' := by
  obtain ⟨n1, n2, n3⟩ := num_ok h
  have hl := take_drop_length (buf := d.buf) (off := d.off) (n := w) (by have := hd.lim_le; omega)
  refine ⟨num_lt hd.lim_le h, ?_, n2, ?_, n1, ?_⟩
  · rw [n2, Be.beBytes_beVal hl]; exact bytesAt_slice _ _ _
  · rw [n3]
  · subst n3; exact ⟨rfl, rfl, by simp, ⟨n1, hd.lim_le, hd.len_lt⟩⟩

/-! ## `<character-string>` -/

theorem cstr_sound {d d' : D} {s : Bytes} (hd : D.Ok d) (h : d.cstr = .ok (s, d')) :
    CStrAt d.buf d.off s d'.off ∧ validUtf8 s = true ∧ d'.off ≤ d.lim ∧ d.off < d'.off ∧ Keep d d' := by
  obtain ⟨len, c1, c2, c3, c4, c5⟩ := cstr_ok h
  have := hd.lim_le
  have hl : s.length = len.toNat := by rw [c3]; exact take_drop_length (by omega)
  have hlt := len.toNat_lt
  subst c5
  refine ⟨⟨by omega, ?_, ?_, by simp only; omega⟩, c4, c2, by simp only; omega,
    ⟨rfl, rfl, by simp only; omega, ⟨c2, hd.lim_le, hd.len_lt⟩⟩⟩
  · rw [c1, hl]; simp
  · rw [c3]; exact bytesAt_slice _ _ _

/-- the loop `while !is_finished { string() }` yields the strings that fill the window exactly -/
theorem cstrs_sound : ∀ (fuel : Nat) {d d' : D} {l : List Bytes}, D.Ok d →
    D.cstrs fuel d = .ok (l, d') → CStrsAt d.buf d.lim d.off l ∧ d'.off = d.lim ∧ Keep d d' := by
  intro fuel
  induction fuel with
  | zero => intro d d' l _ h; simp [D.cstrs] at h
  | succ fuel ih =>
    intro d d' l hd h
    unfold D.cstrs at h
    cases hf : d.isFinished with
    | error e => simp [hf] at h
    | ok b =>
      obtain ⟨f1, f2⟩ := isFinished_ok hf
      cases b with
      | true =>
        simp only [hf] at h
        injection h with h; injection h with h1 h2
        subst h1; subst h2
        have : d.off = d.lim := f2.mp rfl
        refine ⟨?_, this, Keep.refl hd⟩
        rw [this]; exact .nil
      | false =>
        simp only [hf] at h
        have hlt : d.off < d.lim := by
          have : d.off ≠ d.lim := fun hc => by have := f2.mpr hc; cases this
          omega
        cases hc : d.cstr with
        | error e => simp [hc] at h
        | ok p =>
          obtain ⟨s, d1⟩ := p
          simp only [hc] at h
          obtain ⟨s1, s2, s3, _, k1⟩ := cstr_sound hd hc
          cases hr : D.cstrs fuel d1 with
          | error e => simp [hr] at h
          | ok q =>
            obtain ⟨r, d2⟩ := q
            simp only [hr] at h
            injection h with h; injection h with h1 h2
            subst h1; subst h2
            obtain ⟨r1, r2, k2⟩ := ih k1.ok hr
            rw [k1.buf, k1.lim] at r1
            exact ⟨.cons hlt s1 s3 s2 r1, by rw [r2, k1.lim], k1.trans k2⟩

/-! ## `rest`, `octs` -/

theorem rest_sound {d d' : D} {b : Bytes} (hd : D.Ok d) (h : d.rest = .ok (b, d')) :
    BytesAt d.buf d.off b ∧ d.off + b.length = d.lim ∧ d'.off = d.lim ∧ Keep d d' := by
  obtain ⟨r1, r2, r3⟩ := rest_ok h
  obtain ⟨a1, a2, _⟩ := rest_adv hd h
  refine ⟨by rw [r2]; exact bytesAt_slice _ _ _, by omega, by rw [r3], ⟨a1.buf, a1.lim, ?_, a1.ok⟩⟩
  rw [a1.off]; omega

theorem octs_sound : ∀ (k c : Nat) {d d' : D} {b : Bytes}, D.Ok d → D.octs k c d = .ok (b, d') →
    b.length = k * c ∧ BytesAt d.buf d.off b ∧ d'.off = d.off + k * c ∧ Keep d d' := by
  intro k c
  induction k with
  | zero =>
    intro d d' b hd h
    simp only [D.octs] at h
    injection h with h; injection h with h1 h2
    subst h1; subst h2
    exact ⟨by simp, bytesAt_nil _ _, by simp, Keep.refl hd⟩
  | succ k ih =>
    intro d d' b hd h
    unfold D.octs at h
    cases hr : d.read c with
    | error e => simp [hr] at h
    | ok p =>
      obtain ⟨x, d1⟩ := p
      simp only [hr] at h
      obtain ⟨a1, xl⟩ := read_adv hd hr
      obtain ⟨_, _, x3, _⟩ := read_ok hr
      cases ho : D.octs k c d1 with
      | error e => simp [ho] at h
      | ok q =>
        obtain ⟨r, d2⟩ := q
        simp only [ho] at h
        injection h with h; injection h with h1 h2
        subst h1; subst h2
        obtain ⟨o1, o2, o3, k2⟩ := ih a1.ok ho
        have k1 : Keep d d1 := ⟨a1.buf, a1.lim, by rw [a1.off]; omega, a1.ok⟩
        refine ⟨by rw [List.length_append, xl, o1, Nat.succ_mul]; omega, ?_, ?_, k1.trans k2⟩
        · rw [bytesAt_append]
          refine ⟨by rw [x3]; exact bytesAt_slice _ _ _, ?_⟩
          rw [xl, ← a1.off, ← a1.buf]; exact o2
        · rw [o3, a1.off, Nat.succ_mul]; omega

/-! ## One field -/

theorem decField_sound {d d' : D} {f : Fld} {v : FVal} (hd : D.Ok d) (h : decField d f = .ok (v, d')) :
    FieldAt d.buf false d.lim d.off f v d'.off ∧ Keep d d' := by
  cases f with
  | num w =>
    simp only [decField] at h
    cases hn : d.num w with
    | error e => simp [hn] at h
    | ok p =>
      obtain ⟨n, d1⟩ := p
      simp only [hn] at h
      injection h with h; injection h with h1 h2
      subst h1; subst h2
      obtain ⟨n1, n2, _, n3, n4, k⟩ := num_sound hd hn
      rw [n3]
      exact ⟨.num n1 n2 n4, k⟩
  | «enum» w id =>
    simp only [decField] at h
    cases hn : d.num w with
    | error e => simp [hn] at h
    | ok p =>
      obtain ⟨n, d1⟩ := p
      simp only [hn] at h
      by_cases hv : id.valid n = true
      · simp only [hv, if_true] at h
        injection h with h; injection h with h1 h2
        subst h1; subst h2
        obtain ⟨n1, n2, _, n3, n4, k⟩ := num_sound hd hn
        rw [n3]
        exact ⟨.enum n1 hv n2 n4, k⟩
      · simp [hv] at h
  | name c =>
    simp only [decField] at h
    cases hn : d.name with
    | error e => simp [hn] at h
    | ok p =>
      obtain ⟨n, d1⟩ := p
      simp only [hn] at h
      injection h with h; injection h with h1 h2
      subst h1; subst h2
      obtain ⟨hops, h17, hna, hb, hl, hlt, hle, hsz, _, hutf, _⟩ := name_sound hn
      exact ⟨.name ⟨hops, hna, by simpa [maxHops] using h17, hutf, hsz⟩ hle,
        ⟨hb, hl, by omega, name_Ok hd hn⟩⟩
  | cstr c =>
    simp only [decField] at h
    cases hc : d.cstr with
    | error e => simp [hc] at h
    | ok p =>
      obtain ⟨s, d1⟩ := p
      simp only [hc] at h
      cases hr : c.run s with
      | error e => simp [hr] at h
      | ok s' =>
        simp only [hr] at h
        injection h with h; injection h with h1 h2
        subst h1; subst h2
        obtain ⟨s1, s2, s3, _, k⟩ := cstr_sound hd hc
        exact ⟨.cstr s1 s3 s2 hr, k⟩
  | ocstr c =>
    simp only [decField] at h
    cases hf : d.isFinished with
    | error e => simp [hf] at h
    | ok b =>
      obtain ⟨f1, f2⟩ := isFinished_ok hf
      cases b with
      | true =>
        simp only [hf] at h
        injection h with h; injection h with h1 h2
        subst h1; subst h2
        have : d.off = d.lim := f2.mp rfl
        rw [this]
        exact ⟨.ocstrNone, Keep.refl hd⟩
      | false =>
        simp only [hf] at h
        have hlt : d.off < d.lim := by
          have : d.off ≠ d.lim := fun hc => by have := f2.mpr hc; cases this
          omega
        cases hc : d.cstr with
        | error e => simp [hc] at h
        | ok p =>
          obtain ⟨s, d1⟩ := p
          simp only [hc] at h
          cases hr : c.run s with
          | error e => simp [hr] at h
          | ok s' =>
            simp only [hr] at h
            injection h with h; injection h with h1 h2
            subst h1; subst h2
            obtain ⟨s1, s2, s3, _, k⟩ := cstr_sound hd hc
            exact ⟨.ocstrSome hlt s1 s3 s2 hr, k⟩
  | strs =>
    simp only [decField] at h
    cases hc : D.cstrs (d.lim - d.off + 1) d with
    | error e => simp [hc] at h
    | ok p =>
      obtain ⟨l, d1⟩ := p
      simp only [hc] at h
      cases l with
      | nil => simp at h
      | cons s r =>
        simp only [List.isEmpty_cons, Bool.false_eq_true, if_false] at h
        injection h with h; injection h with h1 h2
        subst h1; subst h2
        obtain ⟨c1, c2, k⟩ := cstrs_sound _ hd hc
        rw [c2]
        exact ⟨.strs (by simp) c1, k⟩
  | rest u =>
    simp only [decField] at h
    cases hr : d.rest with
    | error e => simp [hr] at h
    | ok p =>
      obtain ⟨b, d1⟩ := p
      simp only [hr] at h
      obtain ⟨r1, r2, r3, k⟩ := rest_sound hd hr
      by_cases hu : (u && !validUtf8 b) = true
      · simp [hu] at h
      · simp only [hu] at h
        injection h with h; injection h with h1 h2
        subst h1; subst h2
        rw [r3]
        refine ⟨.rest r1 r2 ?_, k⟩
        intro hut
        cases hvb : validUtf8 b with
        | true => rfl
        | false => exfalso; apply hu; simp [hut, hvb]
  | oct k c =>
    simp only [decField] at h
    cases ho : D.octs k c d with
    | error e => simp [ho] at h
    | ok p =>
      obtain ⟨b, d1⟩ := p
      simp only [ho] at h
      injection h with h; injection h with h1 h2
      subst h1; subst h2
      obtain ⟨o1, o2, o3, kp⟩ := octs_sound k c hd ho
      rw [o3]
      have := kp.off_le
      exact ⟨.oct o1 o2 (by omega), kp⟩

/-! ## A list of fields -/

theorem decFields_sound' : ∀ (fs : List Fld) {d d' : D} {vs : List FVal}, D.Ok d →
    decFields d fs = .ok (vs, d') →
    Keep d d' ∧ (d'.off = d'.lim → FieldsAt d.buf false d.lim d.off fs vs) := by
  intro fs
  induction fs with
  | nil =>
    intro d d' vs hd h
    simp only [decFields] at h
    injection h with h; injection h with h1 h2
    subst h1; subst h2
    refine ⟨Keep.refl hd, fun he => ?_⟩
    rw [he]; exact .nil
  | cons f fs ih =>
    intro d d' vs hd h
    unfold decFields at h
    cases hf : decField d f with
    | error e => simp [hf] at h
    | ok p =>
      obtain ⟨v, d1⟩ := p
      simp only [hf] at h
      cases hr : decFields d1 fs with
      | error e => simp [hr] at h
      | ok q =>
        obtain ⟨vs', d2⟩ := q
        simp only [hr] at h
        injection h with h; injection h with h1 h2
        subst h1; subst h2
        obtain ⟨f1, k1⟩ := decField_sound hd hf
        obtain ⟨k2, r1⟩ := ih k1.ok hr
        refine ⟨k1.trans k2, fun he => ?_⟩
        have := r1 he
        rw [k1.buf, k1.lim] at this
        exact .cons f1 this

/-- the fields of a record: if the reader ends exactly at the end of its window, the window holds
exactly the fields -/
theorem decFields_sound {fs : List Fld} {d d' : D} {vs : List FVal} (hd : D.Ok d)
    (h : decFields d fs = .ok (vs, d')) (he : d'.off = d'.lim) :
    FieldsAt d.buf false d.lim d.off fs vs ∧ Keep d d' :=
  ⟨(decFields_sound' fs hd h).2 he, (decFields_sound' fs hd h).1⟩

/-! ## Non-vacuity -/

private def exBuf : Bytes := [0, 10, 3, 97, 98, 99, 1, 100, 0]

example : D.Ok { buf := exBuf, off := 0, lim := 9 } := ⟨by decide, by decide, by simp [exBuf]⟩
example : decFields { buf := exBuf, off := 0, lim := 9 } [.num 2, .cstr .any, .name true] =
    .ok ([.num 10, .bytes [97, 98, 99], .name [[100]]], { buf := exBuf, off := 9, lim := 9, cost := 9 }) := rfl
example : FieldsAt exBuf false 9 0 [.num 2, .cstr .any, .name true] [.num 10, .bytes [97, 98, 99], .name [[100]]] :=
  (decFields_sound (d := { buf := exBuf, off := 0, lim := 9 }) ⟨by decide, by decide, by simp [exBuf]⟩ rfl rfl).1

end Sound
