import DnsVerif.Lemmas.RTElem

/-! # Round trip, part 5 (C10): a stand-alone record is what the message encoder writes

`elem_embeds_partial`: let `rr` be a record whose RDATA contains no COMPRESSIBLE name (`noCompress`: OPT,
APL and the regular types without a `.name true` field — 33 of the 46 implemented types, listed in
`noCompressTypes`). Then

* its stand-alone encoding (`RR::encode`, a fresh encoder) is the explicit literal rendering `rrLiteral rr`
  (owner name uncompressed, TYPE/CLASS/TTL, true RDLENGTH, literal RDATA): it contains no pointer;
* in every message with an empty question section and `rr` as first answer that is encoded successfully,
  the twelve header octets are followed by exactly those octets (`elem_embeds_partial`), and for the
  message holding only `rr` the output is header ++ stand-alone encoding (`elem_embeds_single`).

The restriction to these types is removed in `RTEmbedAll.lean` (`elem_embeds`: EVERY record type, under
the hypothesis that the stand-alone encoding contains no pointer, i.e. has the full uncompressed length).
Without that hypothesis the statement is false for the 13 types with compressible names in RDATA (NS, MD,
MF, CNAME, SOA, MB, MG, MR, PTR, MINFO, MX, SVCB, HTTPS): a pointer emitted stand-alone (`192 0`) is emitted
shifted (`192 12`) inside a message — see the MX example at the end of this file. -/

namespace RT

open EncLim

/-! ## Literal rendering of fields -/

def fieldWire : Fld → FVal → Bytes
  | .num w, .num n => beBytes w n
  | .enum w _, .num n => beBytes w n
  | .name _, .name n => Name.wire n
  | .cstr _, .bytes s => cstrWire s
  | .ocstr _, .obytes (some s) => cstrWire s
  | .strs, .strs l => cstrsWire l
  | .rest _, .bytes b => b
  | .oct _ _, .bytes b => b
  | _, _ => []

def fieldsWire : List Fld → List FVal → Bytes
  | f :: fs, v :: vs => fieldWire f v ++ fieldsWire fs vs
  | _, _ => []

/-- every field except a compressible name appends its literal rendering, from every state, and leaves
the compression table alone -/
theorem encField_put {e e' : Enc} {f : Fld} {v : FVal} (hf : f ≠ .name true) (h : encField e f v = .ok e') :
    e' = e.put (fieldWire f v) := by
  unfold encField at h
  split at h
  · cases h; rfl
  · cases h; rfl
  · exact absurd rfl hf
  · rw [encNameU_out _ _ _ h]; rfl
  · rw [cstr_eq] at h; split at h
    · cases h
    · cases h; rfl
  · cases h; simp [fieldWire, put_nil]
  · rw [cstr_eq] at h; split at h
    · cases h
    · cases h; rfl
  · obtain ⟨_, rfl⟩ := encCstrs_ok h; rfl
  · cases h; rfl
  · cases h; rfl
  · cases h

theorem encField_out {e e' : Enc} {f : Fld} {v : FVal} (hf : f ≠ .name true) (h : encField e f v = .ok e') :
    e'.out = e.out ++ fieldWire f v := by
  rw [encField_put hf h]; rfl

theorem encFields_out : ∀ {fs : List Fld} {vs : List FVal} {e e' : Enc}, (∀ f ∈ fs, f ≠ .name true) →
    encFields e fs vs = .ok e' → e'.out = e.out ++ fieldsWire fs vs := by
  intro fs
  induction fs with
  | nil =>
    intro vs e e' _ h
    cases vs with
    | nil => simp [encFields] at h; subst h; simp [fieldsWire]
    | cons v vs => simp [encFields] at h
  | cons f fs ih =>
    intro vs e e' hf h
    cases vs with
    | nil => simp [encFields] at h
    | cons v vs =>
      unfold encFields at h
      cases h1 : encField e f v with
      | error err => simp [h1] at h
      | ok e1 =>
        simp only [h1] at h
        rw [ih (fun x hx => hf x (by simp [hx])) h, encField_out (hf f (by simp)) h1]
        simp [fieldsWire]

theorem foldW_out {α : Type} {w : Enc → α → Except EErr Enc} {wire : α → Bytes}
    (hw : ∀ e e' o, w e o = .ok e' → e'.out = e.out ++ wire o) :
    ∀ (l : List α) (e e' : Enc), foldW w e l = .ok e' → e'.out = e.out ++ l.flatMap wire := by
  intro l
  induction l with
  | nil => intro e e' h; simp [foldW] at h; subst h; simp
  | cons o r ih =>
    intro e e' h
    unfold foldW at h
    cases h1 : w e o with
    | error err => simp [h1] at h
    | ok e1 =>
      simp only [h1] at h
      rw [ih e1 e' h, hw e e1 o h1]
      simp

/-! ## Records without compressible names in RDATA -/

def noCompressTy (ty : Nat) : Bool :=
  match rrKind ty with
  | some (.regular info) => info.flds.all (fun p => p.2 != .name true)
  | some .opt => true
  | some .apl => true
  | _ => false

def noCompress (rr : RR) : Bool := noCompressTy rr.ty

/-- the 33 types concerned -/
def noCompressTypes : List Nat :=
  [1, 10, 11, 13, 16, 17, 18, 19, 20, 21, 22, 26, 27, 28, 29, 31, 32, 33, 36, 39, 41, 42, 43, 44, 48,
   104, 105, 106, 107, 108, 109, 256, 257]

theorem noCompressTypes_spec : ∀ ty ∈ implementedTypes, noCompressTy ty = decide (ty ∈ noCompressTypes) := by
  decide

/-- literal RDATA -/
def bodyWire (rr : RR) : Bytes :=
  match rrKind rr.ty, rr.rd with
  | some (.regular info), .fields vs => fieldsWire (info.flds.map (·.2)) vs
  | some .opt, .opt _ _ _ _ opts => opts.flatMap optionWire
  | some .apl, .apl items => items.flatMap apItemWire
  | _, _ => []

/-- the literal rendering of the whole record: no pointer, RDLENGTH = the true RDATA size -/
def rrLiteral (rr : RR) : Bytes :=
  Name.wire (rrOwner rr) ++ rrFixed rr ++ beBytes 2 (bodyWire rr).length ++ bodyWire rr

theorem rrBody_out {rr : RR} {e e' : Enc} (hs : Shaped rr) (hn : noCompress rr = true)
    (h : rrBody rr e = .ok e') : e'.out = e.out ++ bodyWire rr := by
  rcases hs.cases with ⟨info, vs, hk, hrd, _⟩ | ⟨pl, ext, ver, ds, opts, hk, hrd⟩ | ⟨items, hk, hrd⟩ |
    ⟨b, prio, target, params, hk, hrd⟩
  · simp only [rrBody, hk, hrd] at h
    simp only [bodyWire, hk, hrd]
    refine encFields_out (fun f hf => ?_) h
    simp only [noCompress, noCompressTy, hk, List.all_eq_true] at hn
    rw [List.mem_map] at hf
    obtain ⟨p, hp, rfl⟩ := hf
    simpa using hn p hp
  · simp only [rrBody, hk, hrd] at h
    simp only [bodyWire, hk, hrd]
    rw [encOptions_eq_foldW] at h
    exact foldW_out (fun _ _ _ hw => by rw [(encOption_ok hw).1]; rfl) _ _ _ h
  · simp only [rrBody, hk, hrd] at h
    simp only [bodyWire, hk, hrd]
    rw [encApItems_eq_foldW] at h
    exact foldW_out (fun _ _ _ hw => by rw [(encApItem_ok hw).1]; rfl) _ _ _ h
  · simp [noCompress, noCompressTy, hk] at hn

/-- **from every state with an empty compression table** such a record is appended as its literal
rendering, wherever the output currently ends -/
theorem encRR_literal {e e' : Enc} {rr : RR} (hs : Shaped rr) (hn : noCompress rr = true) (hidx : e.idx = [])
    (h : encRR e rr = .ok e') : e'.out = e.out ++ rrLiteral rr := by
  rw [encRR_eq e hs] at h
  cases h1 : encName e (rrOwner rr) with
  | error err => simp [h1] at h
  | ok e1 =>
    simp only [h1] at h
    cases h2 : rrBody rr ((e1.put (rrFixed rr)).put [0, 0]) with
    | error err => simp [h2] at h
    | ok e2 =>
      simp only [h2] at h
      have hb := rrBody_out hs hn h2
      have hw := EncSpec.encNameGo_empty (rrOwner rr) e e1 [] hidx h1
      have ho : e2.out = (e1.put (rrFixed rr)).out ++ [0, 0] ++ bodyWire rr := by rw [hb]; rfl
      rw [setLen_window e2 (e1.put (rrFixed rr)).out [0, 0] (bodyWire rr) rfl ho] at h
      split at h
      · cases h
      · cases h
        simp only [put_out, hw, rrLiteral, List.append_assoc]

/-- the stand-alone encoding is the literal rendering -/
theorem encodeRR_literal {rr : RR} {b : Bytes} (hs : Shaped rr) (hn : noCompress rr = true)
    (h : encodeRR rr = .ok b) : b = rrLiteral rr := by
  obtain ⟨e', he, rfl⟩ := outOf_ok.mp h
  simpa using encRR_literal hs hn rfl he

/-! ## The embedding -/

/-- assembly: if the record writer appends the same octets from the fresh encoder and from the state after
the header, the message output is header ++ stand-alone encoding ++ the remaining records -/
theorem embeds_of_same {m : Msg} {rr : RR} {rest : List RR} {b bm : Bytes} (hsm : ShapedMsg m)
    (hq : m.qs = []) (han : m.an = rr :: rest) (h : encodeRR rr = .ok b) (hm : encodeDns m = .ok bm)
    (key : ∀ eA' eB', encRR {} rr = .ok eA' → encRR (Enc.put {} (msgHeader m)) rr = .ok eB' →
      eB'.out = msgHeader m ++ eA'.out) :
    ∃ tail, bm = msgHeader m ++ b ++ tail := by
  obtain ⟨eA', heA, rfl⟩ := outOf_ok.mp h
  obtain ⟨e', he, rfl⟩ := outOf_ok.mp hm
  rw [encMsg_eq] at he
  split at he
  · cases he
  · cases hb : msgBody m (Enc.put {} (msgHeader m)) with
    | error err => simp [hb] at he
    | ok e2 =>
      simp only [hb] at he
      split at he
      · cases he
      · cases he
        simp only [msgBody, hq, han, encQuestions, encRRs] at hb
        cases h1 : encRR (Enc.put {} (msgHeader m)) rr with
        | error err => simp [h1] at hb
        | ok e1 =>
          simp only [h1] at hb
          have hl := key eA' e1 heA h1
          cases h2 : encRRs e1 rest with
          | error err => simp [h2] at hb
          | ok e3 =>
            simp only [h2] at hb
            cases h3 : encRRs e3 m.ns with
            | error err => simp [h3] at hb
            | ok e4 =>
              simp only [h3] at hb
              obtain ⟨x2, hx2⟩ := (encRRs_ok (fun r hr => hsm.an r (by rw [han]; simp [hr])) h2).1.ext
              obtain ⟨x3, hx3⟩ := (encRRs_ok hsm.ns h3).1.ext
              obtain ⟨x4, hx4⟩ := (encRRs_ok hsm.ar hb).1.ext
              exact ⟨x2 ++ x3 ++ x4, by rw [hx4, hx3, hx2, hl]; simp⟩

/-- **C10 `elem_embeds_partial`.** A message with an empty question section whose first answer is a
record without compressible RDATA names: after the twelve header octets come exactly the octets of the
record's stand-alone encoding. -/
theorem elem_embeds_partial {m : Msg} {rr : RR} {rest : List RR} {b bm : Bytes} (hsm : ShapedMsg m)
    (hq : m.qs = []) (han : m.an = rr :: rest) (hn : noCompress rr = true)
    (h : encodeRR rr = .ok b) (hm : encodeDns m = .ok bm) :
    ∃ tail, bm = msgHeader m ++ b ++ tail := by
  have hs : Shaped rr := hsm.an rr (by rw [han]; simp)
  refine embeds_of_same hsm hq han h hm (fun eA' eB' hA hB => ?_)
  rw [encRR_literal hs hn rfl hA, encRR_literal hs hn rfl hB]
  simp

/-- the message holding only that record: header followed by the stand-alone encoding, nothing else -/
theorem elem_embeds_single {id : Nat} {fl : Flags} {rr : RR} {b bm : Bytes} (hs : Shaped rr)
    (hn : noCompress rr = true) (h : encodeRR rr = .ok b)
    (hm : encodeDns ⟨id, fl, [], [rr], [], []⟩ = .ok bm) :
    bm = beBytes 2 id ++ flagsBytes fl ++ [0, 0, 0, 1, 0, 0, 0, 0] ++ b := by
  rw [encodeRR_literal hs hn h]
  obtain ⟨e', he, rfl⟩ := outOf_ok.mp hm
  rw [encMsg_eq] at he
  split at he
  · cases he
  · simp only [msgBody, encQuestions, encRRs] at he
    cases h1 : encRR (Enc.put {} (msgHeader ⟨id, fl, [], [rr], [], []⟩)) rr with
    | error err => simp [h1] at he
    | ok e1 =>
      simp only [h1] at he
      split at he
      · cases he
      · cases he
        rw [encRR_literal hs hn rfl h1]
        simp [msgHeader, beBytes]

/-! ## Non-vacuity -/

/-- an A record: its stand-alone encoding is literal and is found after the header of a message -/
private def exA : RR := ⟨[[97]], 1, 1, 60, .fields [.bytes [10, 0, 0, 1]]⟩

example : noCompress exA = true ∧ Shaped exA := ⟨by decide, by decide⟩

example : encodeRR exA = .ok [1, 97, 0, 0, 1, 0, 1, 0, 0, 0, 60, 0, 4, 10, 0, 0, 1] ∧
    encodeDns ⟨7, ⟨false, 0, false, false, false, false, false, false, 0⟩, [], [exA], [], []⟩ =
      .ok ([0, 7, 0, 0, 0, 0, 0, 1, 0, 0, 0, 0] ++ [1, 97, 0, 0, 1, 0, 1, 0, 0, 0, 60, 0, 4, 10, 0, 0, 1]) :=
  ⟨rfl, rfl⟩

/-- why the hypothesis is needed for the other types: an MX record whose exchange is compressed against
its owner has a pointer to offset 0 stand-alone and to offset 12 inside a message -/
private def exMX : RR := ⟨[[97]], 15, 1, 60, .fields [.num 10, .name [[97]]]⟩

example : noCompress exMX = false ∧
    encodeRR exMX = .ok [1, 97, 0, 0, 15, 0, 1, 0, 0, 0, 60, 0, 4, 0, 10, 192, 0] ∧
    encodeDns ⟨7, ⟨false, 0, false, false, false, false, false, false, 0⟩, [], [exMX], [], []⟩ =
      .ok ([0, 7, 0, 0, 0, 0, 0, 1, 0, 0, 0, 0] ++ [1, 97, 0, 0, 15, 0, 1, 0, 0, 0, 60, 0, 4, 0, 10, 192, 12]) :=
  ⟨by decide, rfl, rfl⟩

end RT
