import DnsVerif.Lemmas.RTMsg
import DnsVerif.Lemmas.EncLimMsg

/-! # C02: the exact relation between a message and its round trip

`RT.roundtrip` concludes `m'.norm = m.norm`. `Msg.norm` = `Msg.lower` (names lower-cased, Spec/Wire.lean)
plus: the key list of every `mandatory` SvcParam SORTED (`sortNat`, the encoder sorts on the way out).

* `svcParam_norm_mandatory`, `svcParam_norm_other`, `svcParam_norm_eq_self_iff`, `sortNat_eq_self_iff`:
  what `SvcParam.norm` does — nothing, except sorting the key list of `mandatory`;
* `rdata_norm_eq_iff`, `rdata_lower_eq_iff`, `rr_lower_eq_iff`, `msg_lower_eq_iff` (with
  `RT.msg_norm_eq_iff`, `RT.rr_norm_eq_iff`, `RT.svcParam_norm_eq_iff`, `RT.fval_lower_eq_iff`): what the
  two abstractions compare, unfolded;
* `msg_norm_eq_lower_iff`: `m.norm = m.lower` says exactly that every `mandatory` key list of `m` is
  already sorted;
* `decoded_of_encoded_sorted`: whatever is decoded from the OUTPUT OF THE ENCODER (for a well-formed value)
  has all its `mandatory` lists sorted — proved by re-running the encoder specification with the witness
  of `EncSpec.encRR_wspec` made visible (`encRR_wspecN`, `encMsg_specN`);
* `second_pass_exact`: hence from the second round trip on, the relation is `Msg.lower` equality: every
  SvcParam VALUE (and every other field except the ASCII case of names) is identical. -/

namespace ExtraF

open EncSpec EncLim

/-! ## What `norm` does to a parameter -/

theorem svcParam_norm_mandatory (ks : List Nat) : SvcParam.norm (.mandatory ks) = .mandatory (sortNat ks) := rfl

theorem svcParam_norm_other {p : SvcParam} (h : ∀ ks, p ≠ .mandatory ks) : p.norm = p := by
  cases p <;> first | rfl | exact absurd rfl (h _)

/-- `sortNat` fixes exactly the ascending lists -/
theorem sortNat_eq_self_iff (ks : List Nat) : sortNat ks = ks ↔ ks.Pairwise (· ≤ ·) :=
  ⟨fun h => h ▸ sortNat_sorted ks, sortNat_of_sorted ks⟩

theorem svcParam_norm_eq_self_iff {p : SvcParam} :
    p.norm = p ↔ ∀ ks, p = .mandatory ks → ks.Pairwise (· ≤ ·) := by
  cases p with
  | mandatory ks =>
    simp only [SvcParam.norm, SvcParam.mandatory.injEq, sortNat_eq_self_iff]
    exact ⟨fun h ks' e => e ▸ h, fun h => h ks rfl⟩
  | _ => simp [SvcParam.norm]

theorem map_norm_eq_self_iff : ∀ {ps : List SvcParam},
    ps.map SvcParam.norm = ps ↔ ∀ ks, SvcParam.mandatory ks ∈ ps → ks.Pairwise (· ≤ ·)
  | [] => by simp
  | p :: ps => by
    simp only [List.map_cons, List.cons.injEq, map_norm_eq_self_iff (ps := ps), svcParam_norm_eq_self_iff,
      List.mem_cons]
    constructor
    · rintro ⟨h1, h2⟩ ks (h | h)
      · exact h1 ks h.symm
      · exact h2 ks h
    · intro h
      exact ⟨fun ks e => h ks (Or.inl e.symm), fun ks e => h ks (Or.inr e)⟩

/-! ## What `norm` and `lower` compare -/

theorem rdata_norm_eq_iff {r' r : RData} :
    r'.norm = r.norm ↔
      match r with
      | .fields vs => ∃ vs', r' = .fields vs' ∧ vs'.map FVal.lower = vs.map FVal.lower
      | .svcb p t ps => ∃ t' ps', r' = .svcb p t' ps' ∧ t'.lower = t.lower ∧
          ps'.map SvcParam.norm = ps.map SvcParam.norm
      | _ => r' = r := by
  cases r with
  | fields vs =>
    exact ⟨RT.rdata_norm_fields, fun ⟨vs', e, h⟩ => by rw [e]; simp [RData.norm, h]⟩
  | opt p x v d o => exact ⟨RT.rdata_norm_opt, fun e => by rw [e]⟩
  | apl items => exact ⟨RT.rdata_norm_apl, fun e => by rw [e]⟩
  | svcb p t ps =>
    exact ⟨RT.rdata_norm_svcb, fun ⟨t', ps', e, h1, h2⟩ => by rw [e]; simp [RData.norm, h1, h2]⟩

/-- `RData.lower`: identical except for the ASCII case of names; in particular every SvcParam is identical -/
theorem rdata_lower_eq_iff {r' r : RData} :
    r'.lower = r.lower ↔
      match r with
      | .fields vs => ∃ vs', r' = .fields vs' ∧ vs'.map FVal.lower = vs.map FVal.lower
      | .svcb p t ps => ∃ t', r' = .svcb p t' ps ∧ t'.lower = t.lower
      | _ => r' = r := by
  cases r' <;> cases r <;> simp [RData.lower]
  · constructor
    · rintro ⟨rfl, h, rfl⟩; exact ⟨_, ⟨rfl, rfl, rfl⟩, h⟩
    · rintro ⟨_, ⟨rfl, rfl, rfl⟩, h⟩; exact ⟨rfl, h, rfl⟩

theorem rr_lower_eq_iff {r' r : RR} :
    r'.lower = r.lower ↔ r'.name.lower = r.name.lower ∧ r'.ty = r.ty ∧ r'.cls = r.cls ∧ r'.ttl = r.ttl ∧
      r'.rd.lower = r.rd.lower := by
  cases r'; cases r; simp [RR.lower]

theorem msg_lower_eq_iff {m' m : Msg} :
    m'.lower = m.lower ↔ m'.id = m.id ∧ m'.flags = m.flags ∧
      m'.qs.map Question.lower = m.qs.map Question.lower ∧ m'.an.map RR.lower = m.an.map RR.lower ∧
      m'.ns.map RR.lower = m.ns.map RR.lower ∧ m'.ar.map RR.lower = m.ar.map RR.lower := by
  cases m'; cases m; simp [Msg.lower]

/-! ## `norm = lower`: the `mandatory` lists are already sorted -/

theorem rdata_norm_eq_lower_iff {rd : RData} :
    rd.norm = rd.lower ↔ ∀ p t ps, rd = .svcb p t ps → ∀ ks, SvcParam.mandatory ks ∈ ps → ks.Pairwise (· ≤ ·) := by
  cases rd with
  | svcb p t ps =>
    simp only [RData.norm, RData.lower, RData.svcb.injEq, true_and, map_norm_eq_self_iff]
    exact ⟨fun h p' t' ps' ⟨_, _, e⟩ => e ▸ h, fun h => h p t ps ⟨rfl, rfl, rfl⟩⟩
  | _ => simp [RData.norm, RData.lower]

theorem rr_norm_eq_lower_iff {rr : RR} : rr.norm = rr.lower ↔ rr.rd.norm = rr.rd.lower := by
  cases rr; simp [RR.norm, RR.lower]

theorem msg_norm_eq_lower_iff {m : Msg} :
    m.norm = m.lower ↔ ∀ rr ∈ msgRRs m, rr.rd.norm = rr.rd.lower := by
  cases m
  simp only [Msg.norm, Msg.lower, Msg.mk.injEq, true_and, List.map_inj_left, rr_norm_eq_lower_iff, msgRRs,
    List.mem_append]
  constructor
  · rintro ⟨h1, h2, h3⟩ rr ((h | h) | h)
    · exact h1 rr h
    · exact h2 rr h
    · exact h3 rr h
  · intro h
    exact ⟨fun rr hr => h rr (Or.inl (Or.inl hr)), fun rr hr => h rr (Or.inl (Or.inr hr)),
      fun rr hr => h rr (Or.inr hr)⟩

/-- spelled out: every `mandatory` key list anywhere in the message is ascending -/
theorem msg_norm_eq_lower_iff' {m : Msg} :
    m.norm = m.lower ↔ ∀ rr ∈ msgRRs m, ∀ p t ps, rr.rd = .svcb p t ps →
      ∀ ks, SvcParam.mandatory ks ∈ ps → ks.Pairwise (· ≤ ·) := by
  rw [msg_norm_eq_lower_iff]
  exact ⟨fun h rr hr => rdata_norm_eq_lower_iff.mp (h rr hr), fun h rr hr => rdata_norm_eq_lower_iff.mpr (h rr hr)⟩

/-- for two messages whose `mandatory` lists are sorted, `norm` equality IS `lower` equality -/
theorem lower_eq_of_norm_eq {m' m : Msg} (h : m'.norm = m.norm) (hs' : m'.norm = m'.lower) (hs : m.norm = m.lower) :
    m'.lower = m.lower := by rw [← hs', ← hs, h]

/-! ## The encoder specification with the sortedness of its witness made visible -/

def RRSpecN (rr : RR) (buf : Bytes) (s t : Nat) : Prop :=
  ∃ rr', rr'.norm = rr.norm ∧ rr'.rd.norm = rr'.rd.lower ∧ RRAt buf true s rr' t

theorem map_norm_norm (ps : List SvcParam) :
    (ps.map SvcParam.norm).map SvcParam.norm = ps.map SvcParam.norm := by
  rw [List.map_map]
  exact List.map_congr_left (fun p _ => SvcParam.norm_idem p)

/-- `EncSpec.encRR_wspec`, and the record that the emitted octets render has sorted `mandatory` lists -/
theorem encRR_wspecN {rr : RR} (hwf : WfRR rr) : WSpec (fun e => encRR e rr) (RRSpecN rr) := by
  obtain ⟨name, ty, cls, ttl, rd⟩ := rr
  cases rd with
  | svcb prio target params =>
    obtain ⟨⟨⟨https, hk⟩, hprio, htarget, hsorted, hparams, h0⟩, hname, hcls, httl⟩ := hwf
    simp only at hk hname hcls httl
    have hty : ty ≠ 41 := by
      intro h41; subst h41
      have : rrKind 41 = some .opt := rfl
      rw [this] at hk; cases hk
    have hc := hcls.2
    simp only [hk] at hc
    subst hc
    refine ((frame_spec hname _ (spec_seq (spec_put (beBytes 2 prio)) (spec_seq (spec_name htarget)
      (svcTail_spec hparams h0)))).of_eq
      (encRR_svcb_eq (rr := ⟨name, ty, 1, ttl, .svcb prio target params⟩) hk rfl)).conseq ?_
    intro buf s t _ _ hF
    obtain ⟨n', m, len, hci, hn, hlen, hH, rfl, m3, _, _, ⟨rfl, hP⟩, m4, _, hm4, ⟨tg', htci, htn⟩, hps⟩ :=
      hF.elim (by simp)
    simp only [beBytes_length] at htn
    refine ⟨⟨n', ty, 1, ttl, .svcb prio tg' (params.map SvcParam.norm)⟩, ?_, ?_, ?_⟩
    · simp only [RR.norm, RData.norm, hci, htci, map_norm_norm]
    · simp only [RData.norm, RData.lower, map_norm_norm]
    · refine .normal hty hn (Nat.lt_trans (rrKind_ty_lt hk) (by omega)) (show (1 : Nat) < 65536 by omega)
        httl hlen hcls hH ?_
      by_cases hp : prio = 0
      · have hnil := h0 hp
        subst hp hnil
        cases hps
        exact .svcbAlias hk hP htn
      · exact .svcbService hk (by omega) hprio hP htn hm4 hps (List.Perm.refl _) (keysSorted_norm hsorted)
  | fields vs =>
    refine (encRR_wspec hwf).conseq ?_
    rintro buf s t _ _ ⟨rr', hn, hat⟩
    refine ⟨rr', hn, ?_, hat⟩
    obtain ⟨vs', e, _⟩ := RT.rdata_norm_fields (RT.rr_norm_eq_iff.mp hn).2.2.2.2
    rw [e]; rfl
  | opt p x v dn o =>
    refine (encRR_wspec hwf).conseq ?_
    rintro buf s t _ _ ⟨rr', hn, hat⟩
    refine ⟨rr', hn, ?_, hat⟩
    rw [RT.rdata_norm_opt (RT.rr_norm_eq_iff.mp hn).2.2.2.2]; rfl
  | apl items =>
    refine (encRR_wspec hwf).conseq ?_
    rintro buf s t _ _ ⟨rr', hn, hat⟩
    refine ⟨rr', hn, ?_, hat⟩
    rw [RT.rdata_norm_apl (RT.rr_norm_eq_iff.mp hn).2.2.2.2]; rfl

theorem chain_rrsN {buf : Bytes} {lim : Nat} : ∀ {off : Nat} {l : List RR},
    ChainAt RRSpecN buf lim off l →
    ∃ l', l'.map RR.norm = l.map RR.norm ∧ l'.map RR.norm = l'.map RR.lower ∧ RRsAt buf true off l' lim := by
  intro off l h
  induction h with
  | nil => exact ⟨[], rfl, rfl, .nil⟩
  | cons _ _ hΦ _ ih =>
    obtain ⟨l', hl', hs', hq⟩ := ih
    obtain ⟨r', hr', hs, hra⟩ := hΦ
    exact ⟨r' :: l', by simp [hr', hl'], by simp [hs', rr_norm_eq_lower_iff.mpr hs], .cons hra hq⟩

theorem encRRs_specN {l : List RR} (hl : ∀ r ∈ l, WfRR r) :
    WSpec (fun e => encRRs e l) (fun buf s t =>
      ∃ l', l'.map RR.norm = l.map RR.norm ∧ l'.map RR.norm = l'.map RR.lower ∧ RRsAt buf true s l' t) := by
  refine (spec_list encRRs encRR (fun _ => rfl) (fun _ _ _ => rfl)
    (Φ := RRSpecN) (P := WfRR) (fun r hr => encRR_wspecN hr) l hl).conseq ?_
  intro buf s t _ _ h
  exact chain_rrsN h

/-- `EncSpec.encodeDns_spec`, and the rendered message has sorted `mandatory` lists -/
theorem encodeDns_specN {m : Msg} {b : Bytes} (hwf : WfMsg m) (h : encodeDns m = .ok b) :
    ∃ m', m'.norm = m.norm ∧ m'.norm = m'.lower ∧ MsgAt b true m' := by
  obtain ⟨m0, _, h12, _⟩ := encodeDns_spec hwf h
  obtain ⟨hid, hfl, _, _, _, _, hqs, han, hns, har⟩ := hwf
  have hspec := ((spec_seq (spec_put (beBytes 2 m.id ++ flagsBytes m.flags)) (spec_seq (encCount_spec m.qs.length)
    (spec_seq (encCount_spec m.an.length) (spec_seq (encCount_spec m.ns.length)
    (spec_seq (encCount_spec m.ar.length) (spec_seq (encQuestions_spec hqs)
    (spec_seq (encRRs_specN han) (spec_seq (encRRs_specN hns) (spec_seq (encRRs_specN har)
    wLimit_spec))))))))).of_eq (encMsg_eq m)).fresh h
  obtain ⟨m1, _, _, ⟨rfl, hH⟩, m2, _, _, ⟨hq16, rfl, hQ⟩, m3, _, _, ⟨ha16, rfl, hA⟩,
    m4, _, _, ⟨hn16, rfl, hN⟩, m5, _, _, ⟨hr16, rfl, hR⟩, e1, _, _, ⟨qs', hqs', hqsAt⟩,
    e2, _, _, ⟨an', han', san, hanAt⟩, e3, _, _, ⟨ns', hns', sns, hnsAt⟩, e4, _, _, ⟨ar', har', sar, harAt⟩,
    he4, hlim⟩ := hspec
  subst he4
  have hfb : (flagsBytes m.flags).length = 2 := rfl
  rw [flagsBytes_spec hfl] at hH
  simp only [List.length_append, beBytes_length, hfb] at hQ hA hN hR hqsAt
  have lq := map_length_eq hqs'
  have la := map_length_eq han'
  have ln := map_length_eq hns'
  have lr := map_length_eq har'
  refine ⟨⟨m.id, m.flags, qs', an', ns', ar'⟩, by simp [Msg.norm, hqs', han', hns', har'],
    by simp [Msg.norm, Msg.lower, san, sns, sar], h12, by omega, hid, hfl,
    by simp only; omega, by simp only; omega, by simp only; omega, by simp only; omega, ?_,
    e1, e2, e3, ?_, hanAt, hnsAt, harAt⟩
  · simp only [lq, la, ln, lr]
    refine bytesAt_append (bytesAt_append (bytesAt_append (bytesAt_append hH ?_) ?_) ?_) ?_
    · simpa using hQ
    · simpa using hA
    · simpa using hN
    · simpa using hR
  · simpa using hqsAt

/-- **whatever is decoded from the encoder's output has sorted `mandatory` lists** (and is the encoded
value up to `norm`) -/
theorem decoded_of_encoded_sorted {m m' : Msg} {b : Bytes} {d : D} (hwf : WfMsg m) (h : encodeDns m = .ok b)
    (hd : decodeDns b = .ok (m', d)) : m'.norm = m.norm ∧ m'.norm = m'.lower := by
  obtain ⟨m1, hn, hs, hat⟩ := encodeDns_specN hwf h
  have := Complete.MsgAt.functional' hat (Sound.decodeDns_sound hd)
  subst this
  exact ⟨hn, hs⟩

/-- **second pass**: a message `m'` that was decoded from the encoder's output is reproduced by a further
round trip up to ASCII case of names ONLY: `Msg.lower` equality, every SvcParam value identical -/
theorem second_pass_exact {m m' m'' : Msg} {b b' : Bytes} {d d' : D} (hwf : WfMsg m) (h : encodeDns m = .ok b)
    (hd : decodeDns b = .ok (m', d)) (h' : encodeDns m' = .ok b') (hd' : decodeDns b' = .ok (m'', d')) :
    m''.lower = m'.lower := by
  obtain ⟨_, hs'⟩ := decoded_of_encoded_sorted hwf h hd
  obtain ⟨hn, hs''⟩ := decoded_of_encoded_sorted (RT.decodeDns_wf hd) h' hd'
  exact lower_eq_of_norm_eq hn hs'' hs'


/-! ## The uncompressed size depends on the value only up to `norm` -/

theorem svcSize_norm (p : SvcParam) : svcSize p.norm = svcSize p := by
  cases p <;> simp [SvcParam.norm, svcSize, EncLim.svcBody, sortNat_idem]

theorem sum_svcSize_of_norm {ps' ps : List SvcParam} (h : ps'.map SvcParam.norm = ps.map SvcParam.norm) :
    (ps'.map svcSize).sum = (ps.map svcSize).sum := by
  have key : ∀ l : List SvcParam, l.map svcSize = (l.map SvcParam.norm).map svcSize := fun l => by
    rw [List.map_map]; exact List.map_congr_left (fun p _ => (svcSize_norm p).symm)
  rw [key ps', key ps, h]

theorem fieldSize_of_lower {f : Fld} {v' v : FVal} (h : v'.lower = v.lower) : fieldSize f v' = fieldSize f v := by
  rcases RT.fval_lower_eq_iff.mp h with ⟨n', n, rfl, rfl, hn⟩ | ⟨_, rfl⟩
  · cases f <;> simp [fieldSize, lower_sz hn]
  · rfl

theorem fieldsSize_of_lower : ∀ (fs : List Fld) (vs' vs : List FVal), vs'.map FVal.lower = vs.map FVal.lower →
    fieldsSize fs vs' = fieldsSize fs vs
  | [], _, _, _ => by simp [fieldsSize]
  | _ :: _, [], [], _ => rfl
  | _ :: _, [], _ :: _, h => by simp at h
  | _ :: _, _ :: _, [], h => by simp at h
  | f :: fs, v' :: vs', v :: vs, h => by
    simp only [List.map_cons, List.cons.injEq] at h
    simp only [fieldsSize, fieldSize_of_lower h.1, fieldsSize_of_lower fs vs' vs h.2]

theorem rrSize_of_norm {r' r : RR} (h : r'.norm = r.norm) : rrSize r' = rrSize r := by
  obtain ⟨n', ty', c', t', rd'⟩ := r'
  obtain ⟨n, ty, c, t, rd⟩ := r
  obtain ⟨hn, hty, _, _, hrd⟩ := RT.rr_norm_eq_iff.mp h
  simp only at hn hty hrd
  subst hty
  have hsz := lower_sz hn
  unfold rrSize rrOwner rdataSize
  simp only
  cases rd with
  | fields vs =>
    obtain ⟨vs', rfl, hv⟩ := RT.rdata_norm_fields hrd
    cases rrKind ty' with
    | none => simp [hsz]
    | some k => cases k <;> simp [hsz, fieldsSize_of_lower _ _ _ hv]
  | opt p x v dn o =>
    rw [RT.rdata_norm_opt hrd]
    cases rrKind ty' with
    | none => simp [hsz]
    | some k => cases k <;> simp [hsz]
  | apl items =>
    rw [RT.rdata_norm_apl hrd]
    cases rrKind ty' with
    | none => simp [hsz]
    | some k => cases k <;> simp [hsz]
  | svcb p tg ps =>
    obtain ⟨tg', ps', rfl, htg, hps⟩ := RT.rdata_norm_svcb hrd
    cases rrKind ty' with
    | none => simp [hsz]
    | some k => cases k <;> simp [hsz, lower_sz htg, sum_svcSize_of_norm hps]

theorem map_transfer {α β γ : Type} {f : α → β} {g : α → γ} (hfg : ∀ a' a, f a' = f a → g a' = g a) :
    ∀ {l' l : List α}, l'.map f = l.map f → l'.map g = l.map g
  | [], [], _ => rfl
  | [], _ :: _, h => by simp at h
  | _ :: _, [], h => by simp at h
  | a' :: l', a :: l, h => by
    simp only [List.map_cons, List.cons.injEq] at h ⊢
    exact ⟨hfg a' a h.1, map_transfer hfg h.2⟩

/-- two messages equal up to `norm` have the same uncompressed size -/
theorem usize_of_norm {m' m : Msg} (h : m'.norm = m.norm) : m'.usize = m.usize := by
  obtain ⟨_, _, hq, ha, hn, hr⟩ := RT.msg_norm_eq_iff.mp h
  have hq' : m'.qs.map qSize = m.qs.map qSize := map_transfer (fun q' q hqq => by
    have := lower_sz (RT.question_lower_eq_iff.mp hqq).1
    simp [qSize, this]) hq
  have ha' := map_transfer (g := rrSize) (fun _ _ => rrSize_of_norm) ha
  have hn' := map_transfer (g := rrSize) (fun _ _ => rrSize_of_norm) hn
  have hr' := map_transfer (g := rrSize) (fun _ _ => rrSize_of_norm) hr
  rw [RT.msg_usize_eq, RT.msg_usize_eq]
  show 12 + (m'.qs.map qSize).sum + (m'.an.map rrSize).sum + (m'.ns.map rrSize).sum + (m'.ar.map rrSize).sum =
    12 + (m.qs.map qSize).sum + (m.an.map rrSize).sum + (m.ns.map rrSize).sum + (m.ar.map rrSize).sum
  rw [hq', ha', hn', hr']

/-- **C02, twice**: decode → encode → decode gives `m'` with `m'.norm = m.norm` and all `mandatory` lists
sorted; a further encode → decode of `m'` succeeds and gives `m''` with `m''.lower = m'.lower` — identical
in every field, every SvcParam value included, up to the ASCII case of names -/
theorem roundtrip_twice {b : Bytes} {m : Msg} {d : D} (h : decodeDns b = .ok (m, d)) (hsz : m.usize ≤ 65535) :
    ∃ b' m' d', encodeDns m = .ok b' ∧ decodeDns b' = .ok (m', d') ∧ m'.norm = m.norm ∧ m'.norm = m'.lower ∧
      ∃ b'' m'' d'', encodeDns m' = .ok b'' ∧ decodeDns b'' = .ok (m'', d'') ∧ m''.lower = m'.lower := by
  obtain ⟨b', m', d', hb', hd', hn⟩ := RT.roundtrip h hsz
  obtain ⟨_, hs'⟩ := decoded_of_encoded_sorted (RT.decodeDns_wf h) hb' hd'
  obtain ⟨b'', m'', d'', hb'', hd'', _⟩ := RT.roundtrip hd' (by rw [usize_of_norm hn]; exact hsz)
  exact ⟨b', m', d', hb', hd', hn, hs', b'', m'', d'', hb'', hd'',
    second_pass_exact (RT.decodeDns_wf h) hb' hd' hb'' hd''⟩


/-! ## Non-vacuity: an HTTPS answer whose `mandatory` list is NOT sorted on the wire -/

/-- `a. HTTPS 1 . mandatory=port,alpn alpn=h2 port=443` with the keys of `mandatory` in the order 3, 1 -/
def exSvcBuf : Bytes :=
  [0x12, 0x34, 0x81, 0x80, 0, 0, 0, 1, 0, 0, 0, 0,
   1, 97, 0, 0, 65, 0, 1, 0, 0, 0, 60, 0, 24, 0, 1, 0,
   0, 0, 0, 4, 0, 3, 0, 1, 0, 1, 0, 3, 2, 104, 50, 0, 3, 0, 2, 1, 187]

def exSvcMsg : Msg :=
  { id := 0x1234, flags := ⟨true, 0, false, false, true, true, false, false, 0⟩, qs := [],
    an := [⟨[[97]], 65, 1, 60, .svcb 1 [] [.mandatory [3, 1], .alpn [[104, 50]], .port 443]⟩], ns := [], ar := [] }

set_option maxRecDepth 16384 in
theorem exSvcBuf_decoded : decodeDns exSvcBuf = .ok (exSvcMsg, { buf := exSvcBuf, off := 49, lim := 49, cost := 82 }) := rfl

/-- the decoded value is not in normal form: `mandatory [3, 1]` -/
theorem exSvcMsg_unsorted : exSvcMsg.norm ≠ exSvcMsg.lower := by decide

end ExtraF
