import DnsVerif.Lemmas.NameSound

/-! # A name with a cyclic pointer structure is never accepted (C07)

`NStep buf off off'`: the octets at `off` are a label (then `off'` is the offset after it) or a
compression pointer (then `off'` is its target) — one step of "following the structure of a name",
defined without reference to the decoder or to `NameAt`. A structure is cyclic when some offset `x`
reachable from the start reaches itself again in at least one step. A `NameAt` derivation is a finite
object and the grammar is deterministic (`NameAt.det`), so no derivation exists at a cyclic start; with
`name_sound` the decoder rejects every such input. -/

namespace Safe

/-- one step along the structure of a (possibly compressed) name -/
inductive NStep (buf : Bytes) : Nat → Nat → Prop
  | label {off} {len : UInt8} : buf[off]? = some len → 1 ≤ len.toNat → len.toNat ≤ 63 →
      NStep buf off (off + 1 + len.toNat)
  | ptr {off} {a b : UInt8} : buf[off]? = some a → 192 ≤ a.toNat → buf[off + 1]? = some b →
      NStep buf off (ptrOff a b)

/-- `k` steps -/
inductive NPath (buf : Bytes) : Nat → Nat → Nat → Prop
  | nil {off} : NPath buf off off 0
  | cons {off off' off'' k} : NStep buf off off' → NPath buf off' off'' k → NPath buf off off'' (k + 1)

/-- a step along a derivable name leads to a derivable name with a derivation one node smaller -/
theorem NameAt.nstep {buf : Bytes} {bk : Bool} {off off' : Nat} {n : Name} {h e : Nat}
    (hn : NameAt buf bk off n h e) (hs : NStep buf off off') :
    ∃ n' h' e', NameAt buf bk off' n' h' e' ∧ n'.length + h' + 1 = n.length + h := by
  cases hn with
  | root h0 =>
    cases hs with
    | label hb h1 _ => rw [h0] at hb; cases hb; simp at h1
    | ptr hb hp _ => rw [h0] at hb; cases hb; simp at hp
  | @label _ len lab rest _ _ hb h1 h63 hlen hbytes hrest =>
    cases hs with
    | label hb' _ _ =>
      rw [hb] at hb'; cases hb'
      exact ⟨rest, h, e, hrest, by simp only [List.length_cons]; omega⟩
    | ptr hb' hp _ => rw [hb] at hb'; cases hb'; omega
  | @ptr _ a b _ h0 _ hb hp hb2 _ hrest =>
    cases hs with
    | label hb' _ h63 => rw [hb] at hb'; cases hb'; omega
    | ptr hb' _ hb2' =>
      rw [hb] at hb'; cases hb'
      rw [hb2] at hb2'; cases hb2'
      exact ⟨n, h0, _, hrest, by omega⟩

theorem NameAt.npath {buf : Bytes} {bk : Bool} {off off' k : Nat} (hp : NPath buf off off' k) :
    ∀ {n : Name} {h e : Nat}, NameAt buf bk off n h e →
    ∃ n' h' e', NameAt buf bk off' n' h' e' ∧ n'.length + h' + k = n.length + h := by
  induction hp with
  | nil => intro n h e hn; exact ⟨n, h, e, hn, rfl⟩
  | cons hs _ ih =>
    intro n h e hn
    obtain ⟨n1, h1, e1, hn1, hm1⟩ := NameAt.nstep hn hs
    obtain ⟨n2, h2, e2, hn2, hm2⟩ := ih hn1
    exact ⟨n2, h2, e2, hn2, by omega⟩

/-- **No name of the grammar has a cyclic structure:** if some offset `x` reachable from `off` reaches
itself again in `k ≥ 1` steps, there is no derivation at `off` at all. -/
theorem NameAt.acyclic {buf : Bytes} {bk : Bool} {off x j k : Nat} (h1 : NPath buf off x j)
    (h2 : NPath buf x x (k + 1)) {n : Name} {h e : Nat} : ¬ NameAt buf bk off n h e := by
  intro hn
  obtain ⟨n1, hh1, e1, hn1, _⟩ := NameAt.npath h1 hn
  obtain ⟨n2, hh2, e2, hn2, hm⟩ := NameAt.npath h2 hn1
  obtain ⟨r1, r2, _⟩ := hn1.det hn2
  subst r1; subst r2
  omega

/-- **A cyclic name is always an error** (any decoder state, any window): if the pointer/label
structure starting at the cursor runs into a cycle, `Decoder::domain_name` does not succeed. -/
theorem name_cyclic_error {d : D} {x j k : Nat} (h1 : NPath d.buf d.off x j)
    (h2 : NPath d.buf x x (k + 1)) : ∀ n d', d.name ≠ .ok (n, d') := by
  intro n d' h
  obtain ⟨hops, _, hn, _⟩ := name_sound h
  exact NameAt.acyclic h1 h2 hn

/-! ## Non-vacuity: a self-pointer, and a label followed by a pointer back to it -/

example : NPath [192, 0] 0 0 1 := .cons (.ptr (a := 192) (b := 0) rfl (by decide) rfl) .nil

example : NPath [1, 97, 192, 0] 0 0 2 :=
  .cons (.label (len := 1) rfl (by decide) (by decide))
    (.cons (.ptr (a := 192) (b := 0) rfl (by decide) rfl) .nil)

example : D.name { buf := [1, 97, 192, 0], off := 0, lim := 4 } = .error .endlessRecursion := rfl

end Safe
