import DnsVerif.Spec.NameAt
import DnsVerif.Lemmas.DecPrim

/-! # Completeness of name decoding (C04: RFC grammar ⇒ accepted)

Every name of the grammar `NameAt` (RFC 1035 §4.1.4; pointers in any direction) that the crate's
limits allow — at most 17 compression hops, size below 255, UTF-8 labels — is accepted by `D.name`,
which returns exactly that name, leaves the cursor right after the part stored in place, and has
read exactly `1 + sz n + 2·hops` octets. -/

/-- forward lemma for `domain_name_label`: the label `lab` is stored at the cursor, followed by `nb` -/
theorem nameLabel_at {buf : Bytes} {off lim c : Nat} {name0 : Name} {len nb : UInt8} {lab : Label}
    (hll : lab.length = len.toNat) (h1 : 1 ≤ len.toNat) (h63 : len.toNat ≤ 63)
    (hbytes : ∀ i, i < lab.length → buf[off + i]? = lab[i]?)
    (hu : validUtf8 lab = true) (hsz : Name.sz name0 + lab.length + 1 < 255)
    (hnb : buf[off + len.toNat]? = some nb)
    (hl : off + len.toNat + 1 ≤ lim) (hlb : lim ≤ buf.length) (hB : buf.length < 2 ^ 63) :
    D.nameLabel { buf := buf, off := off, lim := lim, cost := c } name0 len =
      .ok (nb, name0 ++ [lab],
        { buf := buf, off := off + len.toNat + 1, lim := lim, cost := c + len.toNat + 1 }) := by
  have hread := read_at_eq (c := c) (x := lab) (off := off) (lim := lim) (by omega) hlb hB hbytes
  rw [hll] at hread
  have hu8 := u8_at' (c := c + len.toNat) (lim := lim) hnb (by omega) hB
  unfold D.nameLabel
  rw [hread]
  simp only [hu, Bool.not_true, Bool.false_eq_true, if_false]
  rw [checkLabel_at (by omega) (by omega)]
  simp only
  rw [appendLabel_at hsz]
  simp only
  rw [hu8]

/-- Completeness of the second phase (on the whole buffer), with the exact cost. Backwardness of
pointers is not needed: a name of the grammar never visits an offset twice (`NameAt.det`), so the
`HashSet` check cannot fire. -/
theorem nameRec_complete {buf : Bytes} {bk off n h e} (hn : NameAt buf bk off n h e)
    (hB : buf.length < 2 ^ 63) :
    ∀ (fuel : Nat) (name0 : Name) (seen : List Nat) (len : UInt8) (c : Nat),
      buf[off]? = some len →
      (∀ l ∈ n, validUtf8 l = true) →
      Name.sz (name0 ++ n) < 255 →
      seen.length + h ≤ 16 →
      (∀ s ∈ seen, ∃ m hs es, NameAt buf bk s m hs es ∧ h ≤ hs) →
      n.length + h < fuel →
      nameRec fuel { buf := buf, off := off + 1, lim := buf.length, cost := c } name0 seen len
        = .ok (name0 ++ n, c + Name.sz n + 2 * h) := by
  induction hn with
  | root h0 =>
    intro fuel name0 seen len c hlen _ _ _ _ hf
    rw [h0] at hlen; cases hlen
    cases fuel with
    | zero => omega
    | succ fuel => simp [nameRec]
  | @label off len lab rest h e hb h1 h63 hll hbytes hrest ih =>
    intro fuel name0 seen len0 c hlen hutf hsz hseen hinv hf
    rw [hb] at hlen; cases hlen
    cases fuel with
    | zero => omega
    | succ fuel =>
      obtain ⟨nb, hnb⟩ := hrest.first
      have hne : len ≠ 0 := by intro hz; rw [hz] at h1; simp at h1
      have hnp : ¬ (isPtr len = true) := by simp [isPtr]; omega
      have hnb' := getElem?_some_lt hnb
      rw [Name.sz_append, Name.sz_cons] at hsz
      have hlab := nameLabel_at (c := c) (off := off + 1) (lim := buf.length) (name0 := name0)
        hll h1 h63 hbytes (hutf lab (by simp)) (by omega) hnb (by omega) (Nat.le_refl _) hB
      unfold nameRec
      rw [if_neg hne, if_neg hnp, hlab]
      simp only
      rw [ih fuel (name0 ++ [lab]) seen nb (c + len.toNat + 1) hnb (fun l hl => hutf l (by simp [hl]))
        (by rw [Name.sz_append, Name.sz_append, Name.sz_cons]; simp; omega) hseen hinv
        (by simp at hf; omega)]
      rw [Name.sz_cons, hll]
      simp only [List.append_assoc, List.cons_append, List.nil_append]
      congr 2; omega
  | @ptr off a b n h e hb hp hb2 hback hrest ih =>
    intro fuel name0 seen len c hlen hutf hsz hseen hinv hf
    rw [hb] at hlen; cases hlen
    cases fuel with
    | zero => omega
    | succ fuel =>
      obtain ⟨nb, hnb⟩ := hrest.first
      have hne : a ≠ 0 := by intro hz; rw [hz] at hp; simp at hp
      have hip : isPtr a = true := by simp [isPtr]; omega
      have hb2' := getElem?_some_lt hb2
      have hnb' := getElem?_some_lt hnb
      have hu8 := u8_at' (c := c) (lim := buf.length) hb2 (by omega) hB
      have hnot : ¬ (seen.contains (ptrOff a b) = true) := by
        intro hc
        have hmem : ptrOff a b ∈ seen := by simpa using hc
        obtain ⟨m, hs, es, hm, hle⟩ := hinv _ hmem
        have := (hrest.det hm).2.1
        omega
      have hu8' := u8_at' (c := c + 1) (lim := buf.length) hnb (by omega) hB
      have hlt : ¬ (seen.length + 1 > 16) := by omega
      unfold nameRec
      rw [if_neg hne, if_pos hip, hu8]
      simp only
      rw [if_neg hnot, if_neg hlt, hu8']
      simp only
      rw [ih fuel name0 (ptrOff a b :: seen) nb (c + 1 + 1) hnb hutf hsz (by simp; omega) ?_ (by omega)]
      · congr 2; omega
      · intro s hs
        rcases List.mem_cons.mp hs with rfl | hs
        · exact ⟨n, h, e, hrest, by omega⟩
        · obtain ⟨m, hs', es, hm, hle⟩ := hinv s hs
          exact ⟨m, hs', es, hm, by omega⟩

/-- Completeness of `Decoder::domain_name` inside a window `[.., lim)`, with the exact cost. -/
theorem nameWin_complete {buf : Bytes} {bk off n h e} (hn : NameAt buf bk off n h e)
    (hB : buf.length < 2 ^ 63) :
    ∀ (fuel : Nat) (name0 : Name) (len : UInt8) (lim c : Nat),
      buf[off]? = some len → e ≤ lim → lim ≤ buf.length →
      (∀ l ∈ n, validUtf8 l = true) →
      Name.sz (name0 ++ n) < 255 →
      h ≤ 17 →
      n.length < fuel →
      nameWin fuel { buf := buf, off := off + 1, lim := lim, cost := c } name0 len
        = .ok (name0 ++ n, { buf := buf, off := e, lim := lim, cost := c + Name.sz n + 2 * h }) := by
  induction hn with
  | root h0 =>
    intro fuel name0 len lim c hlen _ _ _ _ _ hf
    rw [h0] at hlen; cases hlen
    cases fuel with
    | zero => omega
    | succ fuel => simp [nameWin]
  | @label off len lab rest h e hb h1 h63 hll hbytes hrest ih =>
    intro fuel name0 len0 lim c hlen he hlb hutf hsz hh hf
    rw [hb] at hlen; cases hlen
    cases fuel with
    | zero => omega
    | succ fuel =>
      obtain ⟨nb, hnb⟩ := hrest.first
      have hgt := hrest.end_gt
      have hne : len ≠ 0 := by intro hz; rw [hz] at h1; simp at h1
      have hnp : ¬ (isPtr len = true) := by simp [isPtr]; omega
      rw [Name.sz_append, Name.sz_cons] at hsz
      have hlab := nameLabel_at (c := c) (off := off + 1) (lim := lim) (name0 := name0)
        hll h1 h63 hbytes (hutf lab (by simp)) (by omega) hnb (by omega) hlb hB
      unfold nameWin
      rw [if_neg hne, if_neg hnp, hlab]
      simp only
      rw [ih fuel (name0 ++ [lab]) nb lim (c + len.toNat + 1) hnb he hlb
        (fun l hl => hutf l (by simp [hl]))
        (by rw [Name.sz_append, Name.sz_append, Name.sz_cons]; simp; omega) hh (by simp at hf; omega)]
      rw [Name.sz_cons, hll]
      simp only [List.append_assoc, List.cons_append, List.nil_append]
      congr 3; omega
  | @ptr off a b n h e hb hp hb2 hback hrest _ =>
    intro fuel name0 len lim c hlen he hlb hutf hsz hh hf
    rw [hb] at hlen; cases hlen
    cases fuel with
    | zero => omega
    | succ fuel =>
      obtain ⟨nb, hnb⟩ := hrest.first
      have hne : a ≠ 0 := by intro hz; rw [hz] at hp; simp at hp
      have hip : isPtr a = true := by simp [isPtr]; omega
      have hnb' := getElem?_some_lt hnb
      have hu8 := u8_at' (c := c) (lim := lim) hb2 (by omega) hB
      have hu8' := u8_at' (c := c + 1) (lim := buf.length) hnb (by omega) hB
      have hlen2 : 2 * n.length ≤ Name.sz n := hrest.wf.two_length_le_sz
      have hszn : Name.sz n < 255 := by rw [Name.sz_append] at hsz; omega
      have hrec := nameRec_complete hrest hB 200 name0 [] nb (c + 1 + 1) hnb hutf hsz
        (by simp; omega) (by simp) (by omega)
      unfold nameWin
      rw [if_neg hne, if_pos hip, hu8]
      simp only
      rw [hu8']
      simp only
      rw [hrec]
      simp only
      congr 3; omega

/-- **C04 for names (grammar ⇒ accepted).** A name of the grammar at `off` whose in-place part ends
inside the window, within the crate's limits (17 hops, size < 255, UTF-8 labels), is decoded by
`D.name` to exactly that name; the cursor ends at `e`; exactly `1 + sz n + 2·h` octets are read. -/
theorem name_complete {buf : Bytes} {bk : Bool} {off h e lim c : Nat} {n : Name}
    (hn : NameAt buf bk off n h e) (hh : h ≤ 17) (hutf : ∀ l ∈ n, validUtf8 l = true)
    (hsz : Name.sz n < 255) (he : e ≤ lim) (hlb : lim ≤ buf.length) (hB : buf.length < 2 ^ 63) :
    D.name { buf := buf, off := off, lim := lim, cost := c } =
      .ok (n, { buf := buf, off := e, lim := lim, cost := c + 1 + Name.sz n + 2 * h }) := by
  obtain ⟨b, hb⟩ := hn.first
  have hgt := hn.end_gt
  have hlen2 : 2 * n.length ≤ Name.sz n := hn.wf.two_length_le_sz
  unfold D.name
  rw [u8_at' hb (by omega) hB]
  simp only
  have := nameWin_complete hn hB 200 [] b lim (c + 1) hb he hlb hutf (by simpa using hsz) hh (by omega)
  simpa using this

/-- the existential form asked for by property C04 -/
theorem name_complete' {buf : Bytes} {bk : Bool} {off h e lim c : Nat} {n : Name}
    (hn : NameAt buf bk off n h e) (hh : h ≤ 17) (hutf : ∀ l ∈ n, validUtf8 l = true)
    (hsz : Name.sz n < 255) (he : e ≤ lim) (hlb : lim ≤ buf.length) (hB : buf.length < 2 ^ 63) :
    ∃ c', D.name { buf := buf, off := off, lim := lim, cost := c } =
      .ok (n, { buf := buf, off := e, lim := lim, cost := c' }) :=
  ⟨_, name_complete hn hh hutf hsz he hlb hB⟩

/-! ## Non-vacuity: the hypotheses of `name_complete` hold for a compressed name -/

private def exBuf : Bytes := [3, 119, 119, 119, 0, 1, 97, 192, 0]

private theorem exName : NameAt exBuf true 5 [[97], [119, 119, 119]] 1 9 :=
  .label (len := 1) (by decide) (by decide) (by decide) (by decide) (by decide)
    (.ptr (a := 192) (b := 0) (by decide) (by decide) (by decide) (by decide)
      (.label (len := 3) (by decide) (by decide) (by decide) (by decide) (by decide) (.root (by decide))))

example : D.name { buf := exBuf, off := 5, lim := 9, cost := 0 } =
    .ok ([[97], [119, 119, 119]], { buf := exBuf, off := 9, lim := 9, cost := 0 + 1 + 6 + 2 * 1 }) :=
  name_complete exName (by decide) (by decide) (by decide) (by decide) (by decide)
    (by simp [exBuf])
