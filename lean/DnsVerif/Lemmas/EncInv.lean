import DnsVerif.Model.Enc
import DnsVerif.Spec.NameAt

/-! # The compression-table invariant of the encoder (property C06, core)

`EInv S e`: every entry `(k ↦ off, r)` of the compression table `e.idx` is *good*: in every buffer
that agrees with the current output on the ghost set `S` of *frozen* positions, a name that is
ASCII-case-equal to `k` is stored at `off` (`off ≤ 0x3FFF`, inside the output) and is read with
exactly `r ≤ 16` backward pointer hops. Stating goodness for all agreeing buffers makes the
invariant stable under appending (`EInv.put`, `EInv.put_unfrozen`) and under back-patching of
positions outside `S` (`EInv.patch`), which is what the record-level proofs need.

Main theorem: `encName_spec` (one call of `Encoder::domain_name` from ANY state satisfying the
invariant). Ported from `design_prototypes/Proto/Core/EncInv.lean` and the generic part of
`RR.lean`. -/

/-! ## Agreement of buffers on a set of positions -/

def Agree (S : Nat → Prop) (buf buf' : Bytes) : Prop :=
  buf.length ≤ buf'.length ∧ ∀ i, S i → buf'[i]? = buf[i]?

/-- `S` extended by the half-open range `[a, b)` -/
def ext (S : Nat → Prop) (a b : Nat) : Nat → Prop := fun i => S i ∨ (a ≤ i ∧ i < b)

theorem ext_mono (S : Nat → Prop) (a b : Nat) : ∀ i, S i → ext S a b i := fun _ h => Or.inl h

theorem ext_ext (S : Nat → Prop) {a b c : Nat} (hab : a ≤ b) (hbc : b ≤ c) :
    ext (ext S a b) b c = ext S a c := by
  funext i; apply propext; unfold ext; constructor
  · rintro ((h | h) | h)
    · exact Or.inl h
    · exact Or.inr ⟨h.1, by omega⟩
    · exact Or.inr ⟨by omega, h.2⟩
  · rintro (h | h)
    · exact Or.inl (Or.inl h)
    · by_cases hi : i < b
      · exact Or.inl (Or.inr ⟨h.1, hi⟩)
      · exact Or.inr ⟨by omega, h.2⟩

theorem ext_self (S : Nat → Prop) (a : Nat) : ext S a a = S := by
  funext i; apply propext; unfold ext; constructor
  · rintro (h | h)
    · exact h
    · omega
  · exact Or.inl

theorem Agree.refl (S : Nat → Prop) (buf : Bytes) : Agree S buf buf := ⟨Nat.le_refl _, fun _ _ => rfl⟩

theorem Agree.mono {S S' : Nat → Prop} {buf x buf' : Bytes}
    (hS : ∀ i, S i → S' i) (hb : ∀ i, S i → i < buf.length)
    (h : Agree S' (buf ++ x) buf') : Agree S buf buf' := by
  refine ⟨?_, ?_⟩
  · have := h.1; simp at this; omega
  · intro i hi
    rw [h.2 i (hS i hi), List.getElem?_append_left (hb i hi)]

/-- overwriting octets outside `S` (length back-patching) keeps agreement -/
theorem Agree.patch {S : Nat → Prop} {buf buf2 buf' : Bytes}
    (hlen : buf2.length = buf.length) (hsame : ∀ i, S i → buf2[i]? = buf[i]?)
    (h : Agree S buf2 buf') : Agree S buf buf' :=
  ⟨by have := h.1; omega, fun i hi => by rw [h.2 i hi, hsame i hi]⟩

theorem Agree.weaken {S S' : Nat → Prop} {buf buf' : Bytes} (hS : ∀ i, S i → S' i)
    (h : Agree S' buf buf') : Agree S buf buf' := ⟨h.1, fun i hi => h.2 i (hS i hi)⟩

theorem Agree.trans {S S' : Nat → Prop} {a b c : Bytes} (hS : ∀ i, S i → S' i)
    (h1 : Agree S a b) (h2 : Agree S' b c) : Agree S a c :=
  ⟨by have := h1.1; have := h2.1; omega, fun i hi => by rw [h2.2 i (hS i hi), h1.2 i hi]⟩

theorem Agree.append (S : Nat → Prop) (a x : Bytes) (hb : ∀ i, S i → i < a.length) :
    Agree S a (a ++ x) :=
  ⟨by simp, fun i hi => List.getElem?_append_left (hb i hi)⟩

/-! ## Good entries, the invariant -/

/-- table entry `(k ↦ off, r)` is good w.r.t. the set `S` of frozen octets:
in every buffer that agrees with `buf` on `S`, a name ASCII-case-equal to `k` sits at `off`
and needs exactly `r` backward hops. -/
def Good (S : Nat → Prop) (buf : Bytes) (k : Name) (off r : Nat) : Prop :=
  off ≤ 0x3FFF ∧ off < buf.length ∧ r ≤ 16 ∧
    ∃ (k' : Name) (ek : Nat), k'.lower = k.lower ∧
      ∀ buf', Agree S buf buf' → NameAt buf' true off k' r ek

def EInv (S : Nat → Prop) (e : Enc) : Prop :=
  (∀ i, S i → i < e.out.length) ∧ ∀ p ∈ e.idx, Good S e.out p.1 p.2.1 p.2.2

/-- the fresh encoder satisfies the invariant (with nothing frozen) -/
theorem EInv.empty : EInv (fun _ => False) {} :=
  ⟨fun _ h => h.elim, fun _ hp => by simp at hp⟩

theorem Good.mono {S S' : Nat → Prop} {buf x : Bytes} {k off r}
    (hS : ∀ i, S i → S' i) (hb : ∀ i, S i → i < buf.length)
    (h : Good S buf k off r) : Good S' (buf ++ x) k off r := by
  obtain ⟨h1, h2, h3, k', ek, hk, hn⟩ := h
  refine ⟨h1, by simp; omega, h3, k', ek, hk, ?_⟩
  intro buf' ha
  exact hn buf' (Agree.mono hS hb ha)

theorem Good.patch {S : Nat → Prop} {buf buf2 : Bytes} {k off r}
    (hlen : buf2.length = buf.length) (hsame : ∀ i, S i → buf2[i]? = buf[i]?)
    (h : Good S buf k off r) : Good S buf2 k off r := by
  obtain ⟨h1, h2, h3, k', ek, hk, hn⟩ := h
  exact ⟨h1, by omega, h3, k', ek, hk, fun buf' ha => hn buf' (Agree.patch hlen hsame ha)⟩

/-- freezing more positions keeps an entry good -/
theorem Good.grow {S S' : Nat → Prop} {buf : Bytes} {k off r} (hS : ∀ i, S i → S' i)
    (h : Good S buf k off r) : Good S' buf k off r := by
  obtain ⟨h1, h2, h3, k', ek, hk, hn⟩ := h
  exact ⟨h1, h2, h3, k', ek, hk, fun buf' ha => hn buf' (Agree.weaken hS ha)⟩

/-! ## Generic stability lemmas (used by the record-level proofs) -/

/-- appending octets and freezing them -/
theorem EInv.put {S : Nat → Prop} {e : Enc} (x : Bytes) (h : EInv S e) :
    EInv (ext S e.out.length (e.out.length + x.length)) (e.put x) := by
  refine ⟨?_, ?_⟩
  · intro i hi
    simp only [Enc.put, List.length_append]
    rcases hi with h' | h'
    · have := h.1 i h'; omega
    · omega
  · intro p hp
    exact Good.mono (ext_mono _ _ _) h.1 (h.2 p hp)

/-- appending without freezing the new octets (length placeholder) -/
theorem EInv.put_unfrozen {S : Nat → Prop} {e : Enc} (x : Bytes) (h : EInv S e) :
    EInv S (e.put x) := by
  refine ⟨?_, ?_⟩
  · intro i hi
    simp only [Enc.put, List.length_append]
    have := h.1 i hi; omega
  · intro p hp
    exact Good.mono (fun _ h => h) h.1 (h.2 p hp)

/-- freezing more positions of the existing output (e.g. a placeholder after it was patched) -/
theorem EInv.grow {S S' : Nat → Prop} {e : Enc} (hS : ∀ i, S i → S' i)
    (hb : ∀ i, S' i → i < e.out.length) (h : EInv S e) : EInv S' e :=
  ⟨hb, fun p hp => Good.grow hS (h.2 p hp)⟩

theorem bytesAt_put {S : Nat → Prop} {buf x buf' : Bytes}
    (ha : Agree (ext S buf.length (buf.length + x.length)) (buf ++ x) buf') :
    BytesAt buf' buf.length x := by
  intro i hi
  rw [ha.2 (buf.length + i) (Or.inr ⟨by omega, by omega⟩), List.getElem?_append_right (by omega)]
  congr 1; omega

theorem patch_length (buf : Bytes) (i : Nat) (x : Bytes) (h : i + x.length ≤ buf.length) :
    (patch buf i x).length = buf.length := by
  simp [patch, List.length_take, List.length_drop]; omega

theorem patch_get_out (buf : Bytes) (i : Nat) (x : Bytes) (h : i + x.length ≤ buf.length) (j : Nat)
    (hj : j < i ∨ i + x.length ≤ j) : (patch buf i x)[j]? = buf[j]? := by
  unfold patch
  rcases hj with hj | hj
  · rw [List.append_assoc, List.getElem?_append_left (by simp [List.length_take]; omega)]
    rw [List.getElem?_take_of_lt hj]
  · rw [List.getElem?_append_right (by simp [List.length_take]; omega)]
    simp only [List.length_append, List.length_take]
    rw [List.getElem?_drop]
    congr 1
    have : min i buf.length = i := by omega
    omega

theorem patch_get_in (buf : Bytes) (i : Nat) (x : Bytes) (h : i + x.length ≤ buf.length) (j : Nat)
    (hj : j < x.length) : (patch buf i x)[i + j]? = x[j]? := by
  unfold patch
  rw [List.getElem?_append_left (by simp [List.length_take]; omega)]
  rw [List.getElem?_append_right (by simp [List.length_take]; omega)]
  simp only [List.length_take]
  congr 1
  have : min i buf.length = i := by omega
  omega

/-- overwriting positions outside the frozen set (back-patching a length placeholder) keeps the
invariant -/
theorem EInv.patch {S : Nat → Prop} {e : Enc} {i : Nat} {x : Bytes} (h : EInv S e)
    (hfit : i + x.length ≤ e.out.length) (hout : ∀ j, S j → j < i ∨ i + x.length ≤ j) :
    EInv S { e with out := _root_.patch e.out i x } := by
  have hl := patch_length e.out i x hfit
  refine ⟨fun j hj => ?_, fun p hp => ?_⟩
  · simp only [hl]; exact h.1 j hj
  · exact Good.patch hl (fun j hj => patch_get_out _ _ _ hfit j (hout j hj)) (h.2 p hp)

/-- … and the patched range may be frozen afterwards -/
theorem EInv.patch_freeze {S : Nat → Prop} {e : Enc} {i : Nat} {x : Bytes} (h : EInv S e)
    (hfit : i + x.length ≤ e.out.length) (hout : ∀ j, S j → j < i ∨ i + x.length ≤ j) :
    EInv (ext S i (i + x.length)) { e with out := _root_.patch e.out i x } := by
  refine EInv.grow (ext_mono _ _ _) ?_ (EInv.patch h hfit hout)
  intro j hj
  simp only [patch_length e.out i x hfit]
  rcases hj with hj | hj
  · exact h.1 j hj
  · omega

/-! ## One label / one pointer at the end of the output -/

theorem nameAt_label_end {S : Nat → Prop} {buf buf' : Bytes} {l : Label} {tail h et}
    (hl : wfLabel l)
    (ha : Agree (ext S buf.length (buf.length + 1 + l.length)) (buf ++ (UInt8.ofNat l.length :: l)) buf')
    (hT : NameAt buf' true (buf.length + 1 + l.length) tail h et) :
    NameAt buf' true buf.length (l :: tail) h et := by
  have hlen : (UInt8.ofNat l.length).toNat = l.length :=
    UInt8.ofNat_toNat_lt (by have := hl.2; omega)
  have hpos : ∀ j, j < 1 + l.length → buf'[buf.length + j]? = (UInt8.ofNat l.length :: l)[j]? := by
    intro j hj
    rw [ha.2 (buf.length + j) (Or.inr ⟨by omega, by omega⟩)]
    rw [List.getElem?_append_right (by omega)]
    congr 1; omega
  refine NameAt.label (len := UInt8.ofNat l.length) ?_ (by rw [hlen]; exact hl.1)
    (by rw [hlen]; exact hl.2) hlen.symm ?_ ?_
  · have := hpos 0 (by omega); simpa using this
  · intro i hi
    have := hpos (1 + i) (by omega)
    rw [show buf.length + 1 + i = buf.length + (1 + i) by omega, this]
    simp [Nat.add_comm 1 i]
  · rw [hlen]; exact hT

theorem ptr_arith {off : Nat} (h : off ≤ 0x3FFF) :
    192 ≤ (UInt8.ofNat (192 + off / 256)).toNat ∧
    ptrOff (UInt8.ofNat (192 + off / 256)) (UInt8.ofNat (off % 256)) = off := by
  have h1 : (UInt8.ofNat (192 + off / 256)).toNat = 192 + off / 256 :=
    UInt8.ofNat_toNat_lt (by omega)
  have h2 : (UInt8.ofNat (off % 256)).toNat = off % 256 := UInt8.ofNat_toNat_lt (by omega)
  unfold ptrOff
  rw [h1, h2]; omega

theorem nameAt_ptr_end {S : Nat → Prop} {buf buf' : Bytes} {offT : Nat} {kT : Name} {r eT : Nat}
    (hoff : offT ≤ 0x3FFF) (hlt : offT < buf.length)
    (ha : Agree (ext S buf.length (buf.length + 2)) (buf ++ ptrBytes offT) buf')
    (hT : NameAt buf' true offT kT r eT) :
    NameAt buf' true buf.length kT (r + 1) (buf.length + 2) := by
  have ⟨p1, p2⟩ := ptr_arith hoff
  refine NameAt.ptr (a := UInt8.ofNat (192 + offT / 256)) (b := UInt8.ofNat (offT % 256)) (e := eT)
    ?_ p1 ?_ (fun _ => by rw [p2]; exact hlt) (by rw [p2]; exact hT)
  · rw [ha.2 buf.length (Or.inr ⟨by omega, by omega⟩)]; simp [ptrBytes]
  · rw [ha.2 (buf.length + 1) (Or.inr ⟨by omega, by omega⟩)]; simp [ptrBytes]

/-! ## Pending entries of the local index -/

/-- pending local entry: reads `w` literally from `off` up to the current end of `buf` -/
def Pend (S : Nat → Prop) (buf : Bytes) (k : Name) (off : Nat) (rem : Name) : Prop :=
  off ≤ 0x3FFF ∧ off < buf.length ∧ ∃ w : Name, k = w ++ rem ∧
    ∀ buf', Agree S buf buf' → ∀ tail h et, NameAt buf' true buf.length tail h et →
      NameAt buf' true off (w ++ tail) h et

theorem Pend.step {S : Nat → Prop} {buf : Bytes} {k off l rest}
    (hb : ∀ i, S i → i < buf.length) (hl : wfLabel l)
    (h : Pend S buf k off (l :: rest)) :
    Pend (ext S buf.length (buf.length + 1 + l.length)) (buf ++ (UInt8.ofNat l.length :: l))
      k off rest := by
  obtain ⟨h1, h2, w, hk, hn⟩ := h
  refine ⟨h1, by simp; omega, w ++ [l], by simp [hk], ?_⟩
  intro buf' ha tail h et hT
  have ha' : Agree S buf buf' := Agree.mono (fun i hi => Or.inl hi) hb ha
  have hlen : (buf ++ UInt8.ofNat l.length :: l).length = buf.length + 1 + l.length := by
    simp; omega
  rw [hlen] at hT
  have := hn buf' ha' (l :: tail) h et (nameAt_label_end hl ha hT)
  simpa using this

theorem Pend.finish_root {S : Nat → Prop} {buf : Bytes} {k off}
    (hb : ∀ i, S i → i < buf.length) (h : Pend S buf k off []) :
    Good (ext S buf.length (buf.length + 1)) (buf ++ [0]) k off 0 := by
  obtain ⟨h1, h2, w, hk, hn⟩ := h
  refine ⟨h1, by simp; omega, by omega, k, buf.length + 1, rfl, ?_⟩
  intro buf' ha
  have ha' : Agree S buf buf' := Agree.mono (fun i hi => Or.inl hi) hb ha
  have := hn buf' ha' [] 0 (buf.length + 1) (NameAt.root ?_)
  · simpa [hk] using this
  · rw [ha.2 buf.length (Or.inr ⟨by omega, by omega⟩)]; simp

theorem Pend.finish_ptr {S : Nat → Prop} {buf : Bytes} {k off rem kT offT r}
    (hb : ∀ i, S i → i < buf.length) (h : Pend S buf k off rem)
    (hg : Good S buf kT offT r) (hci : kT.lower = rem.lower) (hr : r < 16) :
    Good (ext S buf.length (buf.length + 2)) (buf ++ ptrBytes offT) k off (r + 1) := by
  obtain ⟨h1, h2, w, hk, hn⟩ := h
  obtain ⟨g1, g2, _, kT', eT, hkT, gn⟩ := hg
  refine ⟨h1, by simp; omega, by omega, w ++ kT', buf.length + 2, ?_, ?_⟩
  · simp [Name.lower] at *; rw [hk]; simp [hkT, hci]
  · intro buf' ha
    have ha' : Agree S buf buf' := Agree.mono (fun i hi => Or.inl hi) hb ha
    exact hn buf' ha' kT' (r + 1) _ (nameAt_ptr_end g1 g2 ha (gn buf' ha'))

theorem lookup_spec {e : Enc} {k : Name} {off r : Nat} (h : e.lookup k = some (off, r)) :
    ∃ p ∈ e.idx, p.1.lower = k.lower ∧ p.2 = (off, r) := by
  unfold Enc.lookup at h
  split at h
  · rename_i p hp
    simp at h
    have hm := List.mem_of_find?_eq_some hp
    have hc := List.find?_some hp
    refine ⟨p, hm, ?_, h⟩
    simpa [ciEq] using hc
  · simp at h

/-! ## The name writer -/

/-- One name written by `Encoder::domain_name`, from any encoder state satisfying the invariant
and any local index of pending entries: the output only grows, the invariant is re-established
(with the new octets frozen), and in every later buffer that keeps the frozen octets, a name
ASCII-case-equal to `n` sits at the old end of the output, is stored in place exactly up to the new
end, and needs at most 16 backward hops. -/
theorem encNameGo_spec : ∀ (n : Name) (S : Nat → Prop) (e e' : Enc) (loc : List (Name × Nat)),
    wfName n →
    (∀ i, S i → i < e.out.length) →
    (∀ p ∈ e.idx, Good S e.out p.1 p.2.1 p.2.2) →
    (∀ q ∈ loc, Pend S e.out q.1 q.2 n) →
    encNameGo e n loc = .ok e' →
    ∃ x, e'.out = e.out ++ x ∧ x ≠ [] ∧
      EInv (ext S e.out.length e'.out.length) e' ∧
      ∃ n' h, n'.lower = n.lower ∧ h ≤ 16 ∧
        ∀ buf', Agree (ext S e.out.length e'.out.length) e'.out buf' →
          NameAt buf' true e.out.length n' h e'.out.length := by
  intro n
  induction n with
  | nil =>
    intro S e e' loc _ hb hidx hloc hgo
    simp only [encNameGo, Enc.merge] at hgo
    simp at hgo
    subst hgo
    refine ⟨[0], rfl, by simp, ⟨?_, ?_⟩, [], 0, rfl, by omega, ?_⟩
    · intro i hi
      simp only [List.length_append, List.length_singleton] at hi ⊢
      rcases hi with h | h
      · have := hb i h; omega
      · omega
    · intro p hp
      simp only [List.length_append, List.length_singleton]
      simp only [List.mem_append, List.mem_map] at hp
      rcases hp with ⟨q, hq, rfl⟩ | hp
      · exact Pend.finish_root hb (hloc q hq)
      · exact Good.mono (ext_mono _ _ _) hb (hidx p hp)
    · intro buf' ha
      simp only [List.length_append, List.length_singleton] at ha ⊢
      apply NameAt.root
      rw [ha.2 e.out.length (Or.inr ⟨by omega, by omega⟩)]; simp
  | cons l rest ih =>
    intro S e e' loc hwf hb hidx hloc hgo
    have hl : wfLabel l := hwf l (by simp)
    have hwf' : wfName rest := fun x hx => hwf x (by simp [hx])
    have hlit : ∀ (_ : (if e.out.length > 65535 then Except.error EErr.length
        else if l.length > 255 then Except.error EErr.string
        else encNameGo { e with out := e.out ++ (UInt8.ofNat l.length :: l) } rest
              (if e.out.length ≤ 0x3FFF then (l :: rest, e.out.length) :: loc else loc)) = .ok e'),
        ∃ x, e'.out = e.out ++ x ∧ x ≠ [] ∧
        EInv (ext S e.out.length e'.out.length) e' ∧
        ∃ n' h, n'.lower = Name.lower (l :: rest) ∧ h ≤ 16 ∧
          ∀ buf', Agree (ext S e.out.length e'.out.length) e'.out buf' →
            NameAt buf' true e.out.length n' h e'.out.length := by
      intro hgo
      split at hgo; · simp at hgo
      split at hgo; · simp at hgo
      have hL1 : (e.out ++ (UInt8.ofNat l.length :: l)).length = e.out.length + 1 + l.length := by
        simp; omega
      have hb1 : ∀ i, ext S e.out.length (e.out.length + 1 + l.length) i →
          i < (e.out ++ (UInt8.ofNat l.length :: l)).length := by
        intro i hi; rw [hL1]
        rcases hi with h | h
        · have := hb i h; omega
        · exact h.2
      have hidx1 : ∀ p ∈ e.idx, Good (ext S e.out.length (e.out.length + 1 + l.length))
          (e.out ++ (UInt8.ofNat l.length :: l)) p.1 p.2.1 p.2.2 :=
        fun p hp => Good.mono (ext_mono _ _ _) hb (hidx p hp)
      have hloc1 : ∀ q ∈ (if e.out.length ≤ 0x3FFF then (l :: rest, e.out.length) :: loc else loc),
          Pend (ext S e.out.length (e.out.length + 1 + l.length))
            (e.out ++ (UInt8.ofNat l.length :: l)) q.1 q.2 rest := by
        intro q hq
        have hold : ∀ q ∈ loc, Pend (ext S e.out.length (e.out.length + 1 + l.length))
            (e.out ++ (UInt8.ofNat l.length :: l)) q.1 q.2 rest :=
          fun q hq => Pend.step hb hl (hloc q hq)
        split at hq
        · rename_i hle
          rcases List.mem_cons.mp hq with rfl | hq
          · refine ⟨hle, by rw [hL1]; omega, [l], rfl, ?_⟩
            intro buf' ha tail h et hT
            rw [hL1] at hT
            exact nameAt_label_end hl ha hT
          · exact hold q hq
        · exact hold q hq
      obtain ⟨x, hx, _, hinv, n'', h, hn'', hh, hname⟩ :=
        ih (ext S e.out.length (e.out.length + 1 + l.length))
          { e with out := e.out ++ (UInt8.ofNat l.length :: l) } e' _ hwf' hb1 hidx1 hloc1 hgo
      simp only at hx hinv hname
      have hL2 : e.out.length + 1 + l.length ≤ e'.out.length := by
        rw [hx, List.length_append, hL1]; omega
      rw [hL1, ext_ext S (by omega) hL2] at hinv hname
      refine ⟨(UInt8.ofNat l.length :: l) ++ x, by rw [hx]; simp, by simp, hinv, l :: n'', h, ?_, hh, ?_⟩
      · simp [Name.lower] at hn'' ⊢; exact hn''
      · intro buf' ha
        have ha1 : Agree (ext S e.out.length (e.out.length + 1 + l.length))
            (e.out ++ (UInt8.ofNat l.length :: l)) buf' := by
          have ha2 : Agree (ext S e.out.length e'.out.length)
              ((e.out ++ (UInt8.ofNat l.length :: l)) ++ x) buf' := by rw [← hx]; exact ha
          exact Agree.mono (fun i hi => by
            rcases hi with h | h
            · exact Or.inl h
            · exact Or.inr ⟨h.1, by omega⟩) hb1 ha2
        exact nameAt_label_end hl ha1 (hname buf' ha)
    unfold encNameGo at hgo
    cases hlk : e.lookup (l :: rest) with
    | none => simp only [hlk] at hgo; exact hlit hgo
    | some pr =>
      obtain ⟨off, r⟩ := pr
      simp only [hlk] at hgo
      obtain ⟨p, hp, hci, hpo⟩ := lookup_spec hlk
      have hg := hidx p hp
      rw [hpo] at hg
      simp only at hg
      split at hgo; · simp at hgo
      split at hgo
      · exact hlit hgo
      · rename_i hr
        simp only [Enc.merge] at hgo
        have : ¬ (r + 1 > 16) := by omega
        simp [this] at hgo
        subst hgo
        obtain ⟨g1, g2, g3, kT', eT, hkT, gn⟩ := hg
        have hlen : (e.out ++ ptrBytes off).length = e.out.length + 2 := by simp [ptrBytes]
        refine ⟨ptrBytes off, rfl, by simp [ptrBytes], ⟨?_, ?_⟩, kT', r + 1, by rw [hkT, hci],
          by omega, ?_⟩
        · intro i hi
          simp only [hlen] at hi ⊢
          rcases hi with h | h
          · have := hb i h; omega
          · omega
        · intro q hq
          simp only [List.mem_append, List.mem_map] at hq
          simp only [hlen]
          rcases hq with ⟨q', hq', rfl⟩ | hq
          · exact Pend.finish_ptr hb (hloc q' hq') ⟨g1, g2, g3, kT', eT, hkT, gn⟩ hci (by omega)
          · exact Good.mono (ext_mono _ _ _) hb (hidx q hq)
        · intro buf' ha
          simp only [hlen] at ha ⊢
          have ha' : Agree S e.out buf' := Agree.mono (ext_mono _ _ _) hb ha
          exact nameAt_ptr_end g1 g2 ha (gn buf' ha')

/-- **`Encoder::domain_name` from any state satisfying the invariant** (the public writer starts
with an empty local index). -/
theorem encName_spec (n : Name) (S : Nat → Prop) (e e' : Enc)
    (hwf : wfName n) (hinv : EInv S e) (h : encName e n = .ok e') :
    ∃ x, e'.out = e.out ++ x ∧ x ≠ [] ∧
      EInv (ext S e.out.length e'.out.length) e' ∧
      ∃ n' h, n'.lower = n.lower ∧ h ≤ 16 ∧
        ∀ buf', Agree (ext S e.out.length e'.out.length) e'.out buf' →
          NameAt buf' true e.out.length n' h e'.out.length :=
  encNameGo_spec n S e e' [] hwf hinv.1 hinv.2 (by simp) h

/-! ## Non-vacuity -/

/-- `a.b` then `C.B`: the second name is one literal label and a pointer to offset 2 -/
example :
    ∃ e1 e2, encName {} [[97], [98]] = .ok e1 ∧ encName e1 [[67], [66]] = .ok e2 ∧
      wfName [[97], [98]] ∧ wfName [[67], [66]] ∧ EInv (fun _ => False) {} ∧
      e2.out = [1, 97, 1, 98, 0, 1, 67, 192, 2] := by
  refine ⟨_, _, rfl, rfl, ?_, ?_, EInv.empty, rfl⟩ <;>
    · intro l hl; simp at hl; rcases hl with rfl | rfl <;> simp [wfLabel]

example : EInv (ext (fun _ => False) 0 2) (({} : Enc).put [7, 7]) := EInv.put [7, 7] EInv.empty
