import DnsVerif.Lemmas.Order

/-! # The iteration order of the local index is irrelevant for WHOLE messages (property C14)

`Lemmas/Order.lean` shows that one name write with a permuted local index (`encNameWith σ`) cannot be
distinguished from the model's `encName`. Here this is lifted to every entry point of the encoder:
`encFieldWith`, `encFieldsWith`, `encRRWith`, `encQuestionWith`, `encQuestionsWith`, `encRRsWith`,
`encMsgWith` and the entry points `encodeDnsWith`, `encodeRRWith`, `encodeQuestionWith`,
`encodeNameWith` are exact copies of the model functions of `Model/Enc.lean` in which every call of
the compressing name writer `encName` is replaced by `encNameWith (σ pos)`, where
`σ : Nat → List (Name × Nat) → List (Name × Nat)` is an arbitrary family of permutations indexed by
the output position `pos` at which the name starts (so that EVERY name write of one message may use
a different iteration order: two different name writes of one run start at different positions,
because every name write emits at least one octet).

Main results: `encodeDnsWith_eq`, `encodeRRWith_eq`, `encodeQuestionWith_eq`, `encodeNameWith_eq`:
the produced bytes (or the error) are those of the model, for every `σ` that permutes. -/

namespace OrderMsg

/-- a family of iteration orders, one per output position -/
abbrev Orders := Nat → List (Name × Nat) → List (Name × Nat)

/-- every member of the family returns a permutation of its argument -/
def Orders.Perm (σ : Orders) : Prop := ∀ (pos : Nat) (l : List (Name × Nat)), (σ pos l).Perm l

/-! ## The encoder with permuted merges -/

/-- `Encoder::domain_name`, the local map being iterated in the order `σ pos` where `pos` is the
position at which the name is written -/
def encNameAt (σ : Orders) (e : Enc) (n : Name) : Except EErr Enc := encNameWith (σ e.out.length) e n

def encFieldWith (σ : Orders) (e : Enc) : Fld → FVal → Except EErr Enc
  | .num w, .num n => .ok (e.put (beBytes w n))
  | .enum w _, .num n => .ok (e.put (beBytes w n))
  | .name true, .name n => encNameAt σ e n
  | .name false, .name n => encNameU e n
  | .cstr _, .bytes s => e.cstr s
  | .ocstr _, .obytes none => .ok e
  | .ocstr _, .obytes (some s) => e.cstr s
  | .strs, .strs l => encCstrs e l
  | .rest _, .bytes b => .ok (e.put b)
  | .oct _ _, .bytes b => .ok (e.put b)
  | _, _ => .error (.panic "field/value mismatch")

def encFieldsWith (σ : Orders) (e : Enc) : List Fld → List FVal → Except EErr Enc
  | [], [] => .ok e
  | f :: fs, v :: vs =>
    match encFieldWith σ e f v with
    | .error err => .error err
    | .ok e => encFieldsWith σ e fs vs
  | _, _ => .error (.panic "field/value mismatch")

/-- `Encoder::rr` -/
def encRRWith (σ : Orders) (e : Enc) (rr : RR) : Except EErr Enc :=
  match rrKind rr.ty with
  | none => .error (.panic "unknown record type")
  | some (.regular info) =>
    match encNameAt σ e rr.name with
    | .error err => .error err
    | .ok e =>
      let cls := match info.inOnly with
        | none => rr.cls
        | some _ => 1
      let e := e.put (beBytes 2 rr.ty ++ beBytes 2 cls ++ beBytes 4 rr.ttl)
      let li := e.out.length
      let e := e.put [0, 0]
      match rr.rd with
      | .fields vs =>
        match encFieldsWith σ e (info.flds.map (·.2)) vs with
        | .error err => .error err
        | .ok e => setLen e li
      | _ => .error (.panic "field/value mismatch")
  | some .opt =>
    match rr.rd with
    | .opt payload ext ver dnssec opts =>
      match encNameAt σ e [] with
      | .error err => .error err
      | .ok e =>
        let e := e.put (beBytes 2 rr.ty ++ beBytes 2 payload ++ beBytes 4 (optTtlWord ext ver dnssec))
        let li := e.out.length
        let e := e.put [0, 0]
        match encOptions e opts with
        | .error err => .error err
        | .ok e => setLen e li
    | _ => .error (.panic "field/value mismatch")
  | some .apl =>
    match rr.rd with
    | .apl items =>
      match encNameAt σ e rr.name with
      | .error err => .error err
      | .ok e =>
        let e := e.put (beBytes 2 rr.ty ++ beBytes 2 1 ++ beBytes 4 rr.ttl)
        let li := e.out.length
        let e := e.put [0, 0]
        match encApItems e items with
        | .error err => .error err
        | .ok e => setLen e li
    | _ => .error (.panic "field/value mismatch")
  | some (.svcb _) =>
    match rr.rd with
    | .svcb prio target params =>
      match encNameAt σ e rr.name with
      | .error err => .error err
      | .ok e =>
        let e := e.put (beBytes 2 rr.ty ++ beBytes 2 1 ++ beBytes 4 rr.ttl)
        let li := e.out.length
        let e := e.put [0, 0]
        let e := e.put (beBytes 2 prio)
        match encNameAt σ e target with
        | .error err => .error err
        | .ok e =>
          let ps : Except EErr Enc := if prio = 0 then .ok e else encSvcParams e params
          match ps with
          | .error err => .error err
          | .ok e => setLen e li
    | _ => .error (.panic "field/value mismatch")

def encQuestionWith (σ : Orders) (e : Enc) (q : Question) : Except EErr Enc :=
  match encNameAt σ e q.name with
  | .error err => .error err
  | .ok e => .ok (e.put (beBytes 2 q.qtype ++ beBytes 2 q.qclass))

def encQuestionsWith (σ : Orders) (e : Enc) : List Question → Except EErr Enc
  | [] => .ok e
  | o :: r =>
    match encQuestionWith σ e o with
    | .error err => .error err
    | .ok e => encQuestionsWith σ e r

def encRRsWith (σ : Orders) (e : Enc) : List RR → Except EErr Enc
  | [] => .ok e
  | o :: r =>
    match encRRWith σ e o with
    | .error err => .error err
    | .ok e => encRRsWith σ e r

/-- `Encoder::dns` -/
def encMsgWith (σ : Orders) (e : Enc) (m : Msg) : Except EErr Enc :=
  let e := e.put (beBytes 2 m.id ++ flagsBytes m.flags)
  match encCount e m.qs.length with
  | .error err => .error err
  | .ok e =>
    match encCount e m.an.length with
    | .error err => .error err
    | .ok e =>
      match encCount e m.ns.length with
      | .error err => .error err
      | .ok e =>
        match encCount e m.ar.length with
        | .error err => .error err
        | .ok e =>
          match encQuestionsWith σ e m.qs with
          | .error err => .error err
          | .ok e =>
            match encRRsWith σ e m.an with
            | .error err => .error err
            | .ok e =>
              match encRRsWith σ e m.ns with
              | .error err => .error err
              | .ok e =>
                match encRRsWith σ e m.ar with
                | .error err => .error err
                | .ok e => if e.out.length > 65535 then .error .length else .ok e

/-! ### Entry points (a fresh `Encoder`) -/

def encodeDnsWith (σ : Orders) (m : Msg) : Except EErr Bytes := outOf (encMsgWith σ {} m)
def encodeRRWith (σ : Orders) (rr : RR) : Except EErr Bytes := outOf (encRRWith σ {} rr)
def encodeQuestionWith (σ : Orders) (q : Question) : Except EErr Bytes := outOf (encQuestionWith σ {} q)
def encodeNameWith (σ : Orders) (n : Name) : Except EErr Bytes := outOf (encNameAt σ {} n)

/-! ## Relational reasoning -/

/-- elimination of a pair of related results (the motive is found by abstracting both scrutinees) -/
@[elab_as_elim]
theorem rel_elim {R : Enc → Enc → Prop} {motive : Except EErr Enc → Except EErr Enc → Prop}
    {a b : Except EErr Enc} (h : ExceptRel R a b)
    (herr : ∀ x, motive (.error x) (.error x))
    (hok : ∀ x y, R x y → motive (.ok x) (.ok y)) : motive a b := by
  cases a with
  | error x =>
    cases b with
    | error y => cases (h : x = y); exact herr x
    | ok y => exact h.elim
  | ok x =>
    cases b with
    | error y => exact h.elim
    | ok y => exact hok x y h

/-- `rbind h with x y hxy`: both sides are `match · with | .error err => .error err | .ok e => …`
on results related by `h`; continue with the `ok` branches -/
syntax "rbind " term " with " ident ident ident : tactic
macro_rules
  | `(tactic| rbind $h with $x $y $hxy) =>
    `(tactic| (refine rel_elim $h (fun _ => rfl) (fun $x $y $hxy => ?_); dsimp only))

abbrev Rel := ExceptRel Enc.LookupEq

theorem rel_err (x : EErr) : Rel (.error x) (.error x) := rfl

/-! ## Writers that never look at the table -/

theorem cstr_congr {e1 e2 : Enc} (h : Enc.LookupEq e1 e2) (s : Bytes) : Rel (e1.cstr s) (e2.cstr s) := by
  unfold Enc.cstr
  by_cases hc : s.length > 255
  · simp only [if_pos hc]; exact rfl
  · simp only [if_neg hc]; exact h.put _

theorem encCstrs_congr : ∀ (l : List Bytes) {e1 e2 : Enc}, Enc.LookupEq e1 e2 →
    Rel (encCstrs e1 l) (encCstrs e2 l) := by
  intro l
  induction l with
  | nil => intro e1 e2 h; exact h
  | cons s r ih =>
    intro e1 e2 h
    unfold encCstrs
    rbind (cstr_congr h s) with x y hxy
    exact ih hxy

theorem setLen_congr {e1 e2 : Enc} (h : Enc.LookupEq e1 e2) (li : Nat) :
    Rel (setLen e1 li) (setLen e2 li) := by
  unfold setLen
  have ho : e1.out = e2.out := h.1
  by_cases h1 : e2.out.length < li + 2
  · simp only [ho, if_pos h1]; exact rfl
  simp only [ho, if_neg h1]
  by_cases h2 : e2.out.length - (li + 2) > 65535
  · simp only [if_pos h2]; exact rfl
  simp only [if_neg h2]
  by_cases h3 : li + 2 - 1 < e2.out.length
  · simp only [if_pos h3]
    exact ⟨rfl, h.2⟩
  · simp only [if_neg h3]; exact rfl

theorem setAddrLen_congr {e1 e2 : Enc} (h : Enc.LookupEq e1 e2) (neg : Bool) (ali : Nat) :
    Rel (setAddrLen e1 neg ali) (setAddrLen e2 neg ali) := by
  unfold setAddrLen
  have ho : e1.out = e2.out := h.1
  by_cases h1 : e2.out.length < ali + 1
  · simp only [ho, if_pos h1]; exact rfl
  simp only [ho, if_neg h1]
  by_cases h2 : e2.out.length - (ali + 1) > 255
  · simp only [if_pos h2]; exact rfl
  simp only [if_neg h2]
  by_cases h4 : e2.out.length - (ali + 1) ≥ 128
  · simp only [if_pos h4]; exact rfl
  simp only [if_neg h4]
  by_cases h3 : ali + 1 - 1 < e2.out.length
  · simp only [if_pos h3]
    exact ⟨rfl, h.2⟩
  · simp only [if_neg h3]; exact rfl

theorem encCount_congr {e1 e2 : Enc} (h : Enc.LookupEq e1 e2) (n : Nat) :
    Rel (encCount e1 n) (encCount e2 n) := by
  unfold encCount
  by_cases hc : n > 65535
  · simp only [if_pos hc]; exact rfl
  · simp only [if_neg hc]; exact h.put _

/-- equal outputs: the positions read off the two states agree -/
theorem len_eq {e1 e2 : Enc} (h : Enc.LookupEq e1 e2) : e1.out.length = e2.out.length := by rw [h.1]

theorem encOption_congr {e1 e2 : Enc} (h : Enc.LookupEq e1 e2) (o : EdnsOpt) :
    Rel (encOption e1 o) (encOption e2 o) := by
  cases o with
  | ecs fam src scope addr =>
    simp only [encOption]
    rw [len_eq (h.put (beBytes 2 8))]
    exact setLen_congr ((((h.put _).put _).put _).put _) _
  | cookie client server =>
    simp only [encOption]
    rw [len_eq (h.put (beBytes 2 10))]
    cases server with
    | none => exact setLen_congr (((h.put _).put _).put _) _
    | some s => exact setLen_congr ((((h.put _).put _).put _).put _) _
  | padding n =>
    simp only [encOption]
    exact h.put _

theorem encOptions_congr : ∀ (l : List EdnsOpt) {e1 e2 : Enc}, Enc.LookupEq e1 e2 →
    Rel (encOptions e1 l) (encOptions e2 l) := by
  intro l
  induction l with
  | nil => intro e1 e2 h; exact h
  | cons s r ih =>
    intro e1 e2 h
    unfold encOptions
    rbind (encOption_congr h s) with x y hxy
    exact ih hxy

theorem encApItem_congr {e1 e2 : Enc} (h : Enc.LookupEq e1 e2) (it : APItem) :
    Rel (encApItem e1 it) (encApItem e2 it) := by
  simp only [encApItem]
  rw [len_eq (h.put (beBytes 2 it.fam ++ beBytes 1 it.pfx))]
  exact setAddrLen_congr (((h.put _).put _).put _) _ _

theorem encApItems_congr : ∀ (l : List APItem) {e1 e2 : Enc}, Enc.LookupEq e1 e2 →
    Rel (encApItems e1 l) (encApItems e2 l) := by
  intro l
  induction l with
  | nil => intro e1 e2 h; exact h
  | cons s r ih =>
    intro e1 e2 h
    unfold encApItems
    rbind (encApItem_congr h s) with x y hxy
    exact ih hxy

theorem encSvcParam_congr {e1 e2 : Enc} (h : Enc.LookupEq e1 e2) (p : SvcParam) :
    Rel (encSvcParam e1 p) (encSvcParam e2 p) := by
  simp only [encSvcParam]
  rw [len_eq (h.put (beBytes 2 p.key))]
  have h2 : Enc.LookupEq ((e1.put (beBytes 2 p.key)).put [0, 0]) ((e2.put (beBytes 2 p.key)).put [0, 0]) :=
    (h.put _).put _
  cases p with
  | mandatory ks => exact setLen_congr (h2.put _) _
  | alpn ids =>
    dsimp only
    rbind (encCstrs_congr ids h2) with x y hxy
    exact setLen_congr hxy _
  | noDefaultAlpn => exact setLen_congr h2 _
  | port p => exact setLen_congr (h2.put _) _
  | ipv4hint hs => exact setLen_congr (h2.put _) _
  | ech b =>
    dsimp only
    by_cases hc : b.length > 65535
    · simp only [if_pos hc]; exact rfl
    · simp only [if_neg hc]; exact setLen_congr (h2.put _) _
  | ipv6hint hs => exact setLen_congr (h2.put _) _
  | priv k b => exact setLen_congr (h2.put _) _
  | key65535 => exact setLen_congr h2 _

theorem encSvcParams_congr : ∀ (l : List SvcParam) {e1 e2 : Enc}, Enc.LookupEq e1 e2 →
    Rel (encSvcParams e1 l) (encSvcParams e2 l) := by
  intro l
  induction l with
  | nil => intro e1 e2 h; exact h
  | cons s r ih =>
    intro e1 e2 h
    unfold encSvcParams
    rbind (encSvcParam_congr h s) with x y hxy
    exact ih hxy

/-! ## Writers that use the table: only through `encName` -/

/-- one name write at any position, in the order chosen for that position -/
theorem encNameAt_rel {σ : Orders} (hσ : σ.Perm) {e1 e2 : Enc} (h : Enc.LookupEq e1 e2) (n : Name) :
    Rel (encNameAt σ e1 n) (encName e2 n) :=
  encName_order_irrelevant (σ e1.out.length) (hσ e1.out.length) h n

theorem encFieldWith_rel {σ : Orders} (hσ : σ.Perm) {e1 e2 : Enc} (h : Enc.LookupEq e1 e2)
    (f : Fld) (v : FVal) : Rel (encFieldWith σ e1 f v) (encField e2 f v) := by
  cases f with
  | name c =>
    cases v with
    | name n =>
      cases c with
      | true => simp only [encFieldWith, encField]; exact encNameAt_rel hσ h n
      | false => simp only [encFieldWith, encField]; exact encNameU_congr n h
    | _ => simp only [encFieldWith, encField]; exact rfl
  | ocstr c =>
    cases v with
    | obytes b =>
      cases b with
      | none => exact h
      | some s => simp only [encFieldWith, encField]; exact cstr_congr h s
    | _ => simp only [encFieldWith, encField]; exact rfl
  | _ =>
    cases v <;> simp only [encFieldWith, encField] <;>
      first
      | exact rfl
      | exact h.put _
      | exact cstr_congr h _
      | exact encCstrs_congr _ h

theorem encFieldsWith_rel {σ : Orders} (hσ : σ.Perm) : ∀ (fs : List Fld) (vs : List FVal) {e1 e2 : Enc},
    Enc.LookupEq e1 e2 → Rel (encFieldsWith σ e1 fs vs) (encFields e2 fs vs) := by
  intro fs
  induction fs with
  | nil =>
    intro vs e1 e2 h
    cases vs with
    | nil => exact h
    | cons v vs => exact rfl
  | cons f fs ih =>
    intro vs e1 e2 h
    cases vs with
    | nil => exact rfl
    | cons v vs =>
      simp only [encFieldsWith, encFields]
      rbind (encFieldWith_rel hσ h f v) with x y hxy
      exact ih vs hxy

theorem encQuestionWith_rel {σ : Orders} (hσ : σ.Perm) {e1 e2 : Enc} (h : Enc.LookupEq e1 e2)
    (q : Question) : Rel (encQuestionWith σ e1 q) (encQuestion e2 q) := by
  unfold encQuestionWith encQuestion
  rbind (encNameAt_rel hσ h q.name) with x y hxy
  exact hxy.put _

theorem encQuestionsWith_rel {σ : Orders} (hσ : σ.Perm) : ∀ (l : List Question) {e1 e2 : Enc},
    Enc.LookupEq e1 e2 → Rel (encQuestionsWith σ e1 l) (encQuestions e2 l) := by
  intro l
  induction l with
  | nil => intro e1 e2 h; exact h
  | cons s r ih =>
    intro e1 e2 h
    unfold encQuestionsWith encQuestions
    rbind (encQuestionWith_rel hσ h s) with x y hxy
    exact ih hxy

theorem encRRWith_rel {σ : Orders} (hσ : σ.Perm) {e1 e2 : Enc} (h : Enc.LookupEq e1 e2)
    (rr : RR) : Rel (encRRWith σ e1 rr) (encRR e2 rr) := by
  unfold encRRWith encRR
  cases hk : rrKind rr.ty with
  | none => exact rfl
  | some k =>
    cases k with
    | regular info =>
      dsimp only
      rbind (encNameAt_rel hσ h rr.name) with x y hxy
      rw [len_eq (hxy.put (beBytes 2 rr.ty ++ beBytes 2 (match info.inOnly with
        | none => rr.cls
        | some _ => 1) ++ beBytes 4 rr.ttl))]
      cases rr.rd with
      | fields vs =>
        dsimp only
        rbind (encFieldsWith_rel hσ (info.flds.map (·.2)) vs ((hxy.put (beBytes 2 rr.ty ++ beBytes 2
          (match info.inOnly with
            | none => rr.cls
            | some _ => 1) ++ beBytes 4 rr.ttl)).put [0, 0])) with x' y' hxy'
        exact setLen_congr hxy' _
      | _ => exact rfl
    | opt =>
      dsimp only
      cases rr.rd with
      | opt payload ext ver dnssec opts =>
        dsimp only
        rbind (encNameAt_rel hσ h []) with x y hxy
        rw [len_eq (hxy.put (beBytes 2 rr.ty ++ beBytes 2 payload ++ beBytes 4 (optTtlWord ext ver dnssec)))]
        rbind (encOptions_congr opts ((hxy.put (beBytes 2 rr.ty ++ beBytes 2 payload ++
          beBytes 4 (optTtlWord ext ver dnssec))).put [0, 0])) with x' y' hxy'
        exact setLen_congr hxy' _
      | _ => exact rfl
    | apl =>
      dsimp only
      cases rr.rd with
      | apl items =>
        dsimp only
        rbind (encNameAt_rel hσ h rr.name) with x y hxy
        rw [len_eq (hxy.put (beBytes 2 rr.ty ++ beBytes 2 1 ++ beBytes 4 rr.ttl))]
        rbind (encApItems_congr items ((hxy.put (beBytes 2 rr.ty ++ beBytes 2 1 ++
          beBytes 4 rr.ttl)).put [0, 0])) with x' y' hxy'
        exact setLen_congr hxy' _
      | _ => exact rfl
    | svcb b =>
      dsimp only
      cases rr.rd with
      | svcb prio target params =>
        dsimp only
        rbind (encNameAt_rel hσ h rr.name) with x y hxy
        rw [len_eq (hxy.put (beBytes 2 rr.ty ++ beBytes 2 1 ++ beBytes 4 rr.ttl))]
        rbind (encNameAt_rel hσ (((hxy.put (beBytes 2 rr.ty ++ beBytes 2 1 ++
          beBytes 4 rr.ttl)).put [0, 0]).put (beBytes 2 prio)) target) with x' y' hxy'
        by_cases hp : prio = 0
        · simp only [if_pos hp]
          exact setLen_congr hxy' _
        · simp only [if_neg hp]
          rbind (encSvcParams_congr params hxy') with x'' y'' hxy''
          exact setLen_congr hxy'' _
      | _ => exact rfl

theorem encRRsWith_rel {σ : Orders} (hσ : σ.Perm) : ∀ (l : List RR) {e1 e2 : Enc},
    Enc.LookupEq e1 e2 → Rel (encRRsWith σ e1 l) (encRRs e2 l) := by
  intro l
  induction l with
  | nil => intro e1 e2 h; exact h
  | cons s r ih =>
    intro e1 e2 h
    unfold encRRsWith encRRs
    rbind (encRRWith_rel hσ h s) with x y hxy
    exact ih hxy

theorem encMsgWith_rel {σ : Orders} (hσ : σ.Perm) {e1 e2 : Enc} (h : Enc.LookupEq e1 e2)
    (m : Msg) : Rel (encMsgWith σ e1 m) (encMsg e2 m) := by
  unfold encMsgWith encMsg
  dsimp only
  rbind (encCount_congr (h.put (beBytes 2 m.id ++ flagsBytes m.flags)) m.qs.length) with a1 b1 h1
  rbind (encCount_congr h1 m.an.length) with a2 b2 h2
  rbind (encCount_congr h2 m.ns.length) with a3 b3 h3
  rbind (encCount_congr h3 m.ar.length) with a4 b4 h4
  rbind (encQuestionsWith_rel hσ m.qs h4) with a5 b5 h5
  rbind (encRRsWith_rel hσ m.an h5) with a6 b6 h6
  rbind (encRRsWith_rel hσ m.ns h6) with a7 b7 h7
  rbind (encRRsWith_rel hσ m.ar h7) with a8 b8 h8
  rw [len_eq h8]
  by_cases hc : b8.out.length > 65535
  · simp only [if_pos hc]; exact rfl
  · simp only [if_neg hc]; exact h8

/-! ## The entry points -/

theorem outOf_rel {a b : Except EErr Enc} (h : Rel a b) : outOf a = outOf b := by
  refine rel_elim h (fun _ => rfl) (fun x y hxy => ?_)
  simp only [outOf]
  rw [hxy.1]

/-- **C14 for whole messages.** Whatever the iteration order of the local `HashMap` at each of the
name writes of a message (a different permutation at every output position), `Encoder::dns` from a
fresh encoder fails with the same error or produces the same octets as the model. -/
theorem encodeDnsWith_eq (σ : Orders) (hσ : σ.Perm) (m : Msg) : encodeDnsWith σ m = encodeDns m :=
  outOf_rel (encMsgWith_rel hσ (Enc.LookupEq.refl {}) m)

theorem encodeRRWith_eq (σ : Orders) (hσ : σ.Perm) (rr : RR) : encodeRRWith σ rr = encodeRR rr :=
  outOf_rel (encRRWith_rel hσ (Enc.LookupEq.refl {}) rr)

theorem encodeQuestionWith_eq (σ : Orders) (hσ : σ.Perm) (q : Question) :
    encodeQuestionWith σ q = encodeQuestion q :=
  outOf_rel (encQuestionWith_rel hσ (Enc.LookupEq.refl {}) q)

theorem encodeNameWith_eq (σ : Orders) (hσ : σ.Perm) (n : Name) : encodeNameWith σ n = encodeName n :=
  outOf_rel (encNameAt_rel hσ (Enc.LookupEq.refl {}) n)

/-- a single order used at every name write -/
theorem encodeDnsWith_const_eq (σ : List (Name × Nat) → List (Name × Nat)) (hσ : ∀ l, (σ l).Perm l)
    (m : Msg) : encodeDnsWith (fun _ => σ) m = encodeDns m :=
  encodeDnsWith_eq (fun _ => σ) (fun _ => hσ) m

/-- with the identity order the permuted encoder IS the model's encoder -/
theorem encNameAt_id (e : Enc) (n : Name) : encNameAt (fun _ => id) e n = encName e n :=
  encNameWith_id e n

/-! ## Non-vacuity -/

/-- an SOA record `h.a.c SOA n.a.c r.a.c 1 2 3 4 5` with every local map iterated in reverse: same
octets as the model, a different table (more examples, for a whole message, in `Props/C14.lean`) -/
example :
    let rr : RR := ⟨[[104], [97], [99]], 6, 1, 60,
      .fields [.name [[110], [97], [99]], .name [[114], [97], [99]], .num 1, .num 2, .num 3, .num 4,
        .num 5]⟩
    let σ : Orders := fun _ => List.reverse
    σ.Perm ∧
    encodeRRWith σ rr = .ok [1, 104, 1, 97, 1, 99, 0, 0, 6, 0, 1, 0, 0, 0, 60, 0, 28, 1, 110, 192, 2, 1, 114,
      192, 2, 0, 0, 0, 1, 0, 0, 0, 2, 0, 0, 0, 3, 0, 0, 0, 4, 0, 0, 0, 5] ∧
    encodeRR rr = encodeRRWith σ rr ∧
    (encRRWith σ {} rr).toOption.map (·.idx) = some [([[114], [97], [99]], 21, 1), ([[110], [97], [99]], 17, 1),
      ([[104], [97], [99]], 0, 0), ([[97], [99]], 2, 0), ([[99]], 4, 0)] ∧
    (encRR {} rr).toOption.map (·.idx) = some [([[114], [97], [99]], 21, 1), ([[110], [97], [99]], 17, 1),
      ([[99]], 4, 0), ([[97], [99]], 2, 0), ([[104], [97], [99]], 0, 0)] :=
  ⟨fun _ l => List.reverse_perm l, rfl, rfl, rfl, rfl⟩

end OrderMsg
