import DnsVerif.Lemmas.EncLimRR

/-! # Encoder limits, part 5: questions, sections, whole messages (`Encoder::dns`)

* `encMsg_eq`: the structure of `Encoder::dns` (all four counts are checked first, the total length
  last);
* `encMsg_ok` / `encMsg_cause`: success and failure of `encMsg` from EVERY state, for every
  `ShapedMsg` value.
The public entry points and the final theorems are in `EncLimMsg.lean`. -/

namespace EncLim

/-! ## Questions -/

def qSize (q : Question) : Nat := Name.sz q.name + 1 + 4

theorem encQuestion_ok {e e' : Enc} {q : Question} (h : encQuestion e q = .ok e') :
    ∃ e1 nm, encName e q.name = .ok e1 ∧ e1.out = e.out ++ nm ∧ 1 ≤ nm.length ∧
      nm.length ≤ Name.sz q.name + 1 ∧
      e'.out = e.out ++ nm ++ beBytes 2 q.qtype ++ beBytes 2 q.qclass ∧ e'.idx = e1.idx := by
  unfold encQuestion at h
  cases h1 : encName e q.name with
  | error err => simp [h1] at h
  | ok e1 =>
    simp only [h1] at h
    cases h
    obtain ⟨nm, hnm, hn1, hn2⟩ := encName_size_le h1
    exact ⟨e1, nm, rfl, hnm, hn1, hn2, by simp [hnm], rfl⟩

theorem encQuestion_step {e e' : Enc} {q : Question} (h : encQuestion e q = .ok e') :
    Step e e' (qSize q) := by
  unfold encQuestion at h
  cases h1 : encName e q.name with
  | error err => simp [h1] at h
  | ok e1 =>
    simp only [h1] at h
    cases h
    have := (encName_step h1).trans (Step.put e1 (beBytes 2 q.qtype ++ beBytes 2 q.qclass))
    simpa [qSize] using this

theorem encQuestion_cause {e : Enc} {q : Question} {err : EErr} (h : encQuestion e q = .error err) :
    Cause e err (∃ l ∈ q.name, 255 < l.length) False False False (qSize q) := by
  unfold encQuestion at h
  cases h1 : encName e q.name with
  | error err1 =>
    simp [h1] at h; subst h
    exact (encName_cause h1).lift id id id id (by unfold qSize; omega) id
  | ok e1 => simp [h1] at h

theorem encQuestions_eq_foldW : ∀ (l : List Question) (e : Enc),
    encQuestions e l = foldW encQuestion e l := by
  intro l
  induction l with
  | nil => intro e; rfl
  | cons o r ih =>
    intro e
    unfold encQuestions foldW
    cases encQuestion e o with
    | error err => rfl
    | ok e1 => exact ih e1

theorem encRRs_eq_foldW : ∀ (l : List RR) (e : Enc), encRRs e l = foldW encRR e l := by
  intro l
  induction l with
  | nil => intro e; rfl
  | cons o r ih =>
    intro e
    unfold encRRs foldW
    cases encRR e o with
    | error err => rfl
    | ok e1 => exact ih e1

/-- **`encCount`, exactly** (`try_into::<u16>` on a section size): a size of more than 65535 is
refused with `.length`, any other is written as two octets that hold it exactly -/
theorem encCount_eq (e : Enc) (n : Nat) :
    encCount e n = if 65535 < n then .error .length else .ok (e.put (beBytes 2 n)) := rfl

theorem encCount_ok {e e' : Enc} {n : Nat} (h : encCount e n = .ok e') :
    n ≤ 65535 ∧ e' = e.put (beBytes 2 n) ∧ beVal (beBytes 2 n) = n := by
  rw [encCount_eq] at h
  split at h
  · cases h
  · cases h; exact ⟨by omega, rfl, beVal_beBytes2 (by omega)⟩

/-! ## Sections of records -/

def secSize (l : List RR) : Nat := (l.map rrSize).sum

theorem encRRs_ok {l : List RR} {e e' : Enc} (hs : ∀ rr ∈ l, Shaped rr) (h : encRRs e l = .ok e') :
    Step e e' (secSize l) ∧
    ∀ rr ∈ l, ∃ e1 e2 k1 k2, Step e e1 k1 ∧ encRR e1 rr = .ok e2 ∧ Step e2 e' k2 := by
  rw [encRRs_eq_foldW] at h
  exact foldW_ok (w := encRR) (size := rrSize) (P := Shaped) (fun _ _ _ hp hw => encRR_step hp hw)
    l e e' hs h

theorem encRRs_cause {l : List RR} {e : Enc} {err : EErr} (hs : ∀ rr ∈ l, Shaped rr)
    (h : encRRs e l = .error err) :
    Cause e err (∃ rr ∈ l, ∃ s ∈ rrStrs rr, 255 < s.length) (∃ rr ∈ l, ∃ it ∈ rrAplItems rr, apl128 it)
      (∃ rr ∈ l, ∃ it ∈ rrAplItems rr, apl255 it) False (secSize l) := by
  rw [encRRs_eq_foldW] at h
  refine (foldW_cause (w := encRR) (size := rrSize) (P := Shaped)
    (S := fun rr => ∃ s ∈ rrStrs rr, 255 < s.length) (A1 := fun rr => ∃ it ∈ rrAplItems rr, apl128 it)
    (A2 := fun rr => ∃ it ∈ rrAplItems rr, apl255 it) (C := fun _ => False)
    (fun _ _ _ hp hw => encRR_step hp hw) (fun _ _ _ hp hw => encRR_cause hp hw) hs h).lift
    id id id ?_ (Nat.le_refl _) id
  rintro ⟨_, _, hf⟩; exact hf.elim

theorem encQuestions_ok {l : List Question} {e e' : Enc} (h : encQuestions e l = .ok e') :
    Step e e' (l.map qSize).sum ∧
    ∀ q ∈ l, ∃ e1 e2 k1 k2, Step e e1 k1 ∧ encQuestion e1 q = .ok e2 ∧ Step e2 e' k2 := by
  rw [encQuestions_eq_foldW] at h
  exact foldW_ok (w := encQuestion) (size := qSize) (P := fun _ => True)
    (fun _ _ _ _ hw => encQuestion_step hw) l e e' (fun _ _ => trivial) h

theorem encQuestions_cause {l : List Question} {e : Enc} {err : EErr}
    (h : encQuestions e l = .error err) :
    Cause e err (∃ q ∈ l, ∃ s ∈ q.name, 255 < s.length) False False False (l.map qSize).sum := by
  rw [encQuestions_eq_foldW] at h
  refine (foldW_cause (w := encQuestion) (size := qSize) (P := fun _ => True)
    (S := fun q => ∃ s ∈ q.name, 255 < s.length) (A1 := fun _ => False) (A2 := fun _ => False)
    (C := fun _ => False)
    (fun _ _ _ _ hw => encQuestion_step hw) (fun _ _ _ _ hw => encQuestion_cause hw)
    (fun _ _ => trivial) h).lift id ?_ ?_ ?_ (Nat.le_refl _) id
  all_goals (rintro ⟨_, _, hf⟩; exact hf.elim)

/-! ## The message -/

/-- all records of the message, in wire order -/
def msgRRs (m : Msg) : List RR := m.an ++ m.ns ++ m.ar

def ShapedMsg (m : Msg) : Prop := ∀ rr ∈ msgRRs m, Shaped rr

instance (m : Msg) : Decidable (ShapedMsg m) := by unfold ShapedMsg; infer_instance

theorem ShapedMsg.an {m : Msg} (h : ShapedMsg m) : ∀ rr ∈ m.an, Shaped rr :=
  fun rr hr => h rr (by simp [msgRRs, hr])
theorem ShapedMsg.ns {m : Msg} (h : ShapedMsg m) : ∀ rr ∈ m.ns, Shaped rr :=
  fun rr hr => h rr (by simp [msgRRs, hr])
theorem ShapedMsg.ar {m : Msg} (h : ShapedMsg m) : ∀ rr ∈ m.ar, Shaped rr :=
  fun rr hr => h rr (by simp [msgRRs, hr])

/-- the twelve header octets with the TRUE section sizes in the four count fields -/
def msgHeader (m : Msg) : Bytes :=
  beBytes 2 m.id ++ flagsBytes m.flags ++ beBytes 2 m.qs.length ++ beBytes 2 m.an.length ++
    beBytes 2 m.ns.length ++ beBytes 2 m.ar.length

theorem msgHeader_length (m : Msg) : (msgHeader m).length = 12 := by
  simp [msgHeader, flagsBytes]

/-- a section has more than 65535 entries -/
def CountOver (m : Msg) : Prop :=
  65535 < m.qs.length ∨ 65535 < m.an.length ∨ 65535 < m.ns.length ∨ 65535 < m.ar.length

instance (m : Msg) : Decidable (CountOver m) := by unfold CountOver; infer_instance

/-- the four sections, after the header -/
def msgBody (m : Msg) (e : Enc) : Except EErr Enc :=
  match encQuestions e m.qs with
  | .error err => .error err
  | .ok e =>
    match encRRs e m.an with
    | .error err => .error err
    | .ok e =>
      match encRRs e m.ns with
      | .error err => .error err
      | .ok e => encRRs e m.ar

/-- **The structure of `Encoder::dns`**: all four section sizes are checked before anything of a
section is written; the count fields hold the true sizes; the total length is checked last. -/
theorem encMsg_eq (e : Enc) (m : Msg) :
    encMsg e m =
      if CountOver m then .error .length
      else
        match msgBody m (e.put (msgHeader m)) with
        | .error err => .error err
        | .ok e' => if 65535 < e'.out.length then .error .length else .ok e' := by
  unfold encMsg encCount CountOver
  by_cases h1 : m.qs.length > 65535
  · simp [h1]
  by_cases h2 : m.an.length > 65535
  · simp [h1, h2]
  by_cases h3 : m.ns.length > 65535
  · simp [h1, h2, h3]
  by_cases h4 : m.ar.length > 65535
  · simp [h1, h2, h3, h4]
  simp only [h1, h2, h3, h4, if_false, put_put, msgBody, msgHeader, List.append_assoc]
  cases encQuestions _ m.qs with
  | error err => rfl
  | ok e1 =>
    simp only
    cases encRRs e1 m.an with
    | error err => rfl
    | ok e2 =>
      simp only
      cases encRRs e2 m.ns with
      | error err => rfl
      | ok e3 =>
        simp only
        cases encRRs e3 m.ar with
        | error err => rfl
        | ok e4 => rfl

def msgBodySize (m : Msg) : Nat :=
  (m.qs.map qSize).sum + secSize m.an + secSize m.ns + secSize m.ar

/-- size of the uncompressed rendering of the message -/
def msgSize (m : Msg) : Nat := 12 + msgBodySize m

/-- all labels and character-strings of the message -/
def msgStrs (m : Msg) : List Bytes :=
  m.qs.flatMap (·.name) ++ (msgRRs m).flatMap rrStrs

def msgAplItems (m : Msg) : List APItem := (msgRRs m).flatMap rrAplItems

theorem msgBody_ok {m : Msg} {e e' : Enc} (hs : ShapedMsg m) (h : msgBody m e = .ok e') :
    Step e e' (msgBodySize m) ∧
    (∀ q ∈ m.qs, ∃ e1 e2 k1 k2, Step e e1 k1 ∧ encQuestion e1 q = .ok e2 ∧ Step e2 e' k2) ∧
    (∀ rr ∈ msgRRs m, ∃ e1 e2 k1 k2, Step e e1 k1 ∧ encRR e1 rr = .ok e2 ∧ Step e2 e' k2) := by
  unfold msgBody at h
  cases h1 : encQuestions e m.qs with
  | error err => simp [h1] at h
  | ok e1 =>
    simp only [h1] at h
    cases h2 : encRRs e1 m.an with
    | error err => simp [h2] at h
    | ok e2 =>
      simp only [h2] at h
      cases h3 : encRRs e2 m.ns with
      | error err => simp [h3] at h
      | ok e3 =>
        simp only [h3] at h
        obtain ⟨s1, a1⟩ := encQuestions_ok h1
        obtain ⟨s2, a2⟩ := encRRs_ok hs.an h2
        obtain ⟨s3, a3⟩ := encRRs_ok hs.ns h3
        obtain ⟨s4, a4⟩ := encRRs_ok hs.ar h
        refine ⟨((s1.trans s2).trans s3).trans s4, fun q hq => ?_, fun rr hr => ?_⟩
        · obtain ⟨ea, eb, k1, k2, ha, hw, hb⟩ := a1 q hq
          exact ⟨ea, eb, k1, _, ha, hw, ((hb.trans s2).trans s3).trans s4⟩
        · simp only [msgRRs, List.mem_append] at hr
          rcases hr with (hr | hr) | hr
          · obtain ⟨ea, eb, k1, k2, ha, hw, hb⟩ := a2 rr hr
            exact ⟨ea, eb, _, _, s1.trans ha, hw, (hb.trans s3).trans s4⟩
          · obtain ⟨ea, eb, k1, k2, ha, hw, hb⟩ := a3 rr hr
            exact ⟨ea, eb, _, _, (s1.trans s2).trans ha, hw, hb.trans s4⟩
          · obtain ⟨ea, eb, k1, k2, ha, hw, hb⟩ := a4 rr hr
            exact ⟨ea, eb, _, _, ((s1.trans s2).trans s3).trans ha, hw, hb⟩

theorem msgBody_cause {m : Msg} {e : Enc} {err : EErr} (hs : ShapedMsg m)
    (h : msgBody m e = .error err) :
    Cause e err (∃ s ∈ msgStrs m, 255 < s.length) (∃ it ∈ msgAplItems m, apl128 it)
      (∃ it ∈ msgAplItems m, apl255 it) False (msgBodySize m) := by
  have hS : ∀ l : List RR, (∀ rr ∈ l, rr ∈ msgRRs m) →
      (∃ rr ∈ l, ∃ s ∈ rrStrs rr, 255 < s.length) → ∃ s ∈ msgStrs m, 255 < s.length := by
    rintro l hl ⟨rr, hr, s, hsm, hgt⟩
    refine ⟨s, ?_, hgt⟩
    simp only [msgStrs, List.mem_append, List.mem_flatMap]
    exact Or.inr ⟨rr, hl rr hr, hsm⟩
  have hA : ∀ (P : APItem → Prop) (l : List RR), (∀ rr ∈ l, rr ∈ msgRRs m) →
      (∃ rr ∈ l, ∃ it ∈ rrAplItems rr, P it) → ∃ it ∈ msgAplItems m, P it := by
    rintro P l hl ⟨rr, hr, it, hit, hp⟩
    refine ⟨it, ?_, hp⟩
    simp only [msgAplItems, List.mem_flatMap]
    exact ⟨rr, hl rr hr, hit⟩
  have man : ∀ rr ∈ m.an, rr ∈ msgRRs m := fun rr hr => by simp [msgRRs, hr]
  have mns : ∀ rr ∈ m.ns, rr ∈ msgRRs m := fun rr hr => by simp [msgRRs, hr]
  have mar : ∀ rr ∈ m.ar, rr ∈ msgRRs m := fun rr hr => by simp [msgRRs, hr]
  unfold msgBody at h
  cases h1 : encQuestions e m.qs with
  | error err1 =>
    simp [h1] at h; subst h
    refine (encQuestions_cause h1).lift ?_ False.elim False.elim id (by unfold msgBodySize; omega) id
    rintro ⟨q, hq, s, hsm, hgt⟩
    refine ⟨s, ?_, hgt⟩
    simp only [msgStrs, List.mem_append, List.mem_flatMap]
    exact Or.inl ⟨q, hq, hsm⟩
  | ok e1 =>
    simp only [h1] at h
    obtain ⟨s1, _⟩ := encQuestions_ok h1
    cases h2 : encRRs e1 m.an with
    | error err2 =>
      simp [h2] at h; subst h
      exact (encRRs_cause hs.an h2).lift_step s1 (hS _ man) (hA _ _ man) (hA _ _ man) id
        (by unfold msgBodySize; omega)
    | ok e2 =>
      simp only [h2] at h
      obtain ⟨s2, _⟩ := encRRs_ok hs.an h2
      cases h3 : encRRs e2 m.ns with
      | error err3 =>
        simp [h3] at h; subst h
        exact (encRRs_cause hs.ns h3).lift_step (s1.trans s2) (hS _ mns) (hA _ _ mns) (hA _ _ mns) id
          (by unfold msgBodySize; omega)
      | ok e3 =>
        simp only [h3] at h
        obtain ⟨s3, _⟩ := encRRs_ok hs.ns h3
        exact (encRRs_cause hs.ar h).lift_step ((s1.trans s2).trans s3) (hS _ mar) (hA _ _ mar)
          (hA _ _ mar) id (by unfold msgBodySize; omega)

/-- **Success of `Encoder::dns`**: the header with the true counts (each `≤ 65535`) followed by the
sections; at most 65535 octets in total; every question and every record was written by a
successful call of its own writer whose output is still part of the final output. -/
theorem encMsg_ok {m : Msg} {e e' : Enc} (hs : ShapedMsg m) (h : encMsg e m = .ok e') :
    e'.out.length ≤ 65535 ∧ ¬ CountOver m ∧
    (∃ rest, e'.out = e.out ++ msgHeader m ++ rest ∧ rest.length ≤ msgBodySize m) ∧
    (IdxLe e → IdxLe e') ∧
    (∀ q ∈ m.qs, ∃ e1 e2 k1 k2, Step e e1 k1 ∧ encQuestion e1 q = .ok e2 ∧ Step e2 e' k2) ∧
    (∀ rr ∈ msgRRs m, ∃ e1 e2 k1 k2, Step e e1 k1 ∧ encRR e1 rr = .ok e2 ∧ Step e2 e' k2) := by
  rw [encMsg_eq] at h
  split at h
  · cases h
  · rename_i hc
    cases h1 : msgBody m (e.put (msgHeader m)) with
    | error err => simp [h1] at h
    | ok e2 =>
      simp only [h1] at h
      split at h
      · cases h
      · rename_i hle
        cases h
        obtain ⟨hst, hq, hr⟩ := msgBody_ok hs h1
        have hp := Step.put e (msgHeader m)
        obtain ⟨⟨rest, hrest, hrl⟩, hidx⟩ := hst
        refine ⟨by omega, hc, ⟨rest, by simpa using hrest, hrl⟩, hidx, fun q hqm => ?_, fun rr hrm => ?_⟩
        · obtain ⟨ea, eb, k1, k2, ha, hw, hb⟩ := hq q hqm
          exact ⟨ea, eb, _, k2, hp.trans ha, hw, hb⟩
        · obtain ⟨ea, eb, k1, k2, ha, hw, hb⟩ := hr rr hrm
          exact ⟨ea, eb, _, k2, hp.trans ha, hw, hb⟩

theorem encMsg_step {m : Msg} {e e' : Enc} (hs : ShapedMsg m) (h : encMsg e m = .ok e') :
    Step e e' (msgSize m) := by
  obtain ⟨_, _, ⟨rest, hr, hrl⟩, hi, _⟩ := encMsg_ok hs h
  refine ⟨⟨msgHeader m ++ rest, by rw [hr]; simp, ?_⟩, hi⟩
  simp only [List.length_append, msgHeader_length, msgSize]; omega

/-- **Failure of `Encoder::dns`** -/
theorem encMsg_cause {m : Msg} {e : Enc} {err : EErr} (hs : ShapedMsg m)
    (h : encMsg e m = .error err) :
    Cause e err (∃ s ∈ msgStrs m, 255 < s.length) (∃ it ∈ msgAplItems m, apl128 it)
      (∃ it ∈ msgAplItems m, apl255 it) (CountOver m) (msgSize m) := by
  rw [encMsg_eq] at h
  split at h
  · rename_i hc
    cases h
    exact Or.inr (Or.inl ⟨rfl, Or.inr (Or.inl hc)⟩)
  · have hp : Step e (e.put (msgHeader m)) 12 := by
      simpa [msgHeader_length] using Step.put e (msgHeader m)
    cases h1 : msgBody m (e.put (msgHeader m)) with
    | error err1 =>
      simp [h1] at h; subst h
      exact (msgBody_cause hs h1).lift_step hp id id id False.elim (by unfold msgSize; omega)
    | ok e2 =>
      simp only [h1] at h
      split at h
      · rename_i hgt
        cases h
        refine Or.inr (Or.inl ⟨rfl, Or.inr (Or.inr ?_)⟩)
        have := (hp.trans (msgBody_ok hs h1).1).length_le_add
        unfold msgSize; omega
      · cases h

/-- **Where a `.length` of `Encoder::dns` comes from**: a section of more than 65535 entries, or
a question / record writer returned it (`encRR_length_cases`), or everything was written and the
message has more than 65535 octets. (No shape premise.) -/
theorem encMsg_length_cases {m : Msg} {e : Enc} (h : encMsg e m = .error .length) :
    CountOver m ∨ msgBody m (e.put (msgHeader m)) = .error .length ∨
    ∃ e', msgBody m (e.put (msgHeader m)) = .ok e' ∧ 65535 < e'.out.length := by
  rw [encMsg_eq] at h
  split at h
  · rename_i hc; exact Or.inl hc
  · cases h1 : msgBody m (e.put (msgHeader m)) with
    | error err1 => simp only [h1] at h; exact Or.inr (Or.inl h)
    | ok e2 =>
      simp only [h1] at h
      split at h
      · rename_i hgt; exact Or.inr (Or.inr ⟨e2, rfl, hgt⟩)
      · cases h

end EncLim
