import DnsVerif.Lemmas.NameSound

/-! # Name decoding terminates by itself and never panics (C07 termination, C01 no panic)

* The fuel constant `200` of the model is never what stops name expansion: every label step adds
  at least 2 to the name size (which `appendLabel` keeps below 255) and every pointer step adds an
  entry to the visited set (which is limited to 16 entries), so at most `127 + 16 + 1` iterations
  happen. This holds for EVERY decoder state, no bounds assumed.
* Under the bounds `D.Ok` (cursor in window, window in buffer, buffer shorter than `2^63`) the only
  errors of `D.name` are the seven listed in `DErr.isNameErr`; in particular never a panic. -/

/-- the error kinds name decoding can report (`labelEmpty` is not among them) -/
def DErr.isNameErr : DErr → Bool
  | .notEnoughBytes | .utf8 | .labelLength | .nameLength | .endlessRecursion | .maxRecursion => true
  | _ => false

theorem ptrOff_lt (a b : UInt8) : ptrOff a b < 16384 := by
  unfold ptrOff
  have := b.toNat_lt
  have := Nat.mod_lt a.toNat (by omega : 64 > 0)
  omega

/-! ## Fuel -/

theorem u8_ne_fuel (d : D) : d.u8 ≠ .error .fuel := by
  intro h
  rcases u8_err h with ⟨h1, _⟩ | ⟨h1, _⟩ | ⟨h1, _⟩ <;> cases h1

theorem nameLabel_ne_fuel (d : D) (name : Name) (len : UInt8) : d.nameLabel name len ≠ .error .fuel := by
  intro h
  rcases nameLabel_err h with h1 | h1 | h1 | h1 | h1 | ⟨s, h1⟩ <;> cases h1

/-- Termination argument of C07: the fuel is never what stops the expansion. No hypothesis on the
decoder state, the accumulated name, or the visited set. -/
theorem nameRec_no_fuel : ∀ (fuel : Nat) (d : D) (name : Name) (seen : List Nat) (len : UInt8),
    (254 - Name.sz name) / 2 + (16 - seen.length) + 1 < fuel →
    nameRec fuel d name seen len ≠ .error .fuel := by
  intro fuel
  induction fuel with
  | zero => intro _ _ _ _ h; omega
  | succ fuel ih =>
    intro d name seen len hf h
    unfold nameRec at h
    by_cases hz : len = 0
    · rw [if_pos hz] at h; cases h
    · rw [if_neg hz] at h
      by_cases hp : isPtr len = true
      · rw [if_pos hp] at h
        cases hu8 : d.u8 with
        | error e =>
          simp only [hu8] at h
          injection h with h; subst h
          exact u8_ne_fuel d hu8
        | ok p =>
          obtain ⟨b, d1⟩ := p
          simp only [hu8] at h
          by_cases hns : seen.contains (ptrOff len b) = true
          · rw [if_pos hns] at h; cases h
          · rw [if_neg hns] at h
            by_cases hlen16 : seen.length + 1 > 16
            · rw [if_pos hlen16] at h; cases h
            · rw [if_neg hlen16] at h
              cases hu8' : ({ d1 with off := ptrOff len b } : D).u8 with
              | error e =>
                simp only [hu8'] at h
                injection h with h; subst h
                exact u8_ne_fuel _ hu8'
              | ok q =>
                obtain ⟨l2, d2⟩ := q
                simp only [hu8'] at h
                exact ih d2 name (ptrOff len b :: seen) l2 (by simp only [List.length_cons]; omega) h
      · rw [if_neg hp] at h
        cases hl : d.nameLabel name len with
        | error e =>
          simp only [hl] at h
          injection h with h; subst h
          exact nameLabel_ne_fuel d name len hl
        | ok p =>
          obtain ⟨nb, name', d1⟩ := p
          simp only [hl] at h
          obtain ⟨lab, _, l1', _, _, _, l5, l6, _, _, _⟩ := nameLabel_ok hl
          refine ih d1 name' seen nb ?_ h
          rw [l5, Name.sz_append, Name.sz_cons]; simp only [Name.sz_nil]; omega

/-- with the model's constant fuel 200 and an empty visited set (what `nameWin` calls) -/
theorem nameRec_200_no_fuel (d : D) (name : Name) (len : UInt8) :
    nameRec 200 d name [] len ≠ .error .fuel :=
  nameRec_no_fuel 200 d name [] len (by simp only [List.length_nil]; omega)

/-- the window loop: at most 127 label steps, then the (fuel-free) second phase -/
theorem nameWin_no_fuel : ∀ (fuel : Nat) (d : D) (name : Name) (len : UInt8),
    (254 - Name.sz name) / 2 + 1 < fuel →
    nameWin fuel d name len ≠ .error .fuel := by
  intro fuel
  induction fuel with
  | zero => intro _ _ _ h; omega
  | succ fuel ih =>
    intro d name len hf h
    unfold nameWin at h
    by_cases hz : len = 0
    · rw [if_pos hz] at h; cases h
    · rw [if_neg hz] at h
      by_cases hp : isPtr len = true
      · rw [if_pos hp] at h
        cases hu8 : d.u8 with
        | error e =>
          simp only [hu8] at h
          injection h with h; subst h
          exact u8_ne_fuel d hu8
        | ok p =>
          obtain ⟨b, d1⟩ := p
          simp only [hu8] at h
          cases hu8' : (D.mk d1.buf (ptrOff len b) d1.buf.length d1.cost).u8 with
          | error e =>
            simp only [hu8'] at h
            injection h with h; subst h
            exact u8_ne_fuel _ hu8'
          | ok q =>
            obtain ⟨l2, dm⟩ := q
            simp only [hu8'] at h
            cases hrec : nameRec 200 dm name [] l2 with
            | error e =>
              simp only [hrec] at h
              injection h with h; subst h
              exact nameRec_200_no_fuel dm name l2 hrec
            | ok w => simp [hrec] at h
      · rw [if_neg hp] at h
        cases hl : d.nameLabel name len with
        | error e =>
          simp only [hl] at h
          injection h with h; subst h
          exact nameLabel_ne_fuel d name len hl
        | ok p =>
          obtain ⟨nb, name', d1⟩ := p
          simp only [hl] at h
          obtain ⟨lab, _, l1', _, _, _, l5, l6, _, _, _⟩ := nameLabel_ok hl
          refine ih d1 name' nb ?_ h
          rw [l5, Name.sz_append, Name.sz_cons]; simp only [Name.sz_nil]; omega

theorem nameWin_200_no_fuel (d : D) (name : Name) (len : UInt8) :
    nameWin 200 d name len ≠ .error .fuel :=
  nameWin_no_fuel 200 d name len (by omega)

/-- **C07 for names (termination):** `D.name` never runs out of fuel — for EVERY decoder state. -/
theorem name_no_fuel (d : D) : d.name ≠ .error .fuel := by
  intro h
  unfold D.name at h
  cases hu8 : d.u8 with
  | error e =>
    simp only [hu8] at h
    injection h with h; subst h
    exact u8_ne_fuel d hu8
  | ok p =>
    obtain ⟨l, d1⟩ := p
    simp only [hu8] at h
    exact nameWin_200_no_fuel d1 [] l h

/-! ## Error classification under the bounds; no panic -/

/-- Under the bounds, the second phase reports only name errors (or `fuel`, excluded above). -/
theorem nameRec_err_ok : ∀ (fuel : Nat) (d : D) (name : Name) (seen : List Nat) (len : UInt8) (e : DErr),
    D.Ok d → nameRec fuel d name seen len = .error e → e.isNameErr = true ∨ e = .fuel := by
  intro fuel
  induction fuel with
  | zero =>
    intro d name seen len e _ h
    unfold nameRec at h
    injection h with h
    exact .inr h.symm
  | succ fuel ih =>
    intro d name seen len e hd h
    unfold nameRec at h
    by_cases hz : len = 0
    · rw [if_pos hz] at h; cases h
    · rw [if_neg hz] at h
      by_cases hp : isPtr len = true
      · rw [if_pos hp] at h
        cases hu8 : d.u8 with
        | error e' =>
          simp only [hu8] at h
          injection h with h; subst h
          rw [(u8_err_ok hd hu8).1]; exact .inl rfl
        | ok p =>
          obtain ⟨b, d1⟩ := p
          simp only [hu8] at h
          have hd1 := (u8_adv hd hu8).ok
          by_cases hns : seen.contains (ptrOff len b) = true
          · rw [if_pos hns] at h; injection h with h; subst h; exact .inl rfl
          · rw [if_neg hns] at h
            by_cases hlen16 : seen.length + 1 > 16
            · rw [if_pos hlen16] at h; injection h with h; subst h; exact .inl rfl
            · rw [if_neg hlen16] at h
              have hpo := ptrOff_lt len b
              cases hu8' : ({ d1 with off := ptrOff len b } : D).u8 with
              | error e' =>
                simp only [hu8'] at h
                injection h with h; subst h
                rw [(u8_err_of_bounds (d := D.mk d1.buf (ptrOff len b) d1.lim d1.cost)
                  (by simp only; omega) hd1.lim_le hu8').1]
                exact .inl rfl
              | ok q =>
                obtain ⟨l2, d2⟩ := q
                simp only [hu8'] at h
                exact ih d2 name (ptrOff len b :: seen) l2 e
                  (u8_Ok_of_bounds (d := D.mk d1.buf (ptrOff len b) d1.lim d1.cost)
                    hd1.lim_le hd1.len_lt hu8') h
      · rw [if_neg hp] at h
        cases hl : d.nameLabel name len with
        | error e' =>
          simp only [hl] at h
          injection h with h; subst h
          rcases nameLabel_err_ok hd hz hl with h1 | h1 | h1 | h1 <;> (rw [h1]; exact .inl rfl)
        | ok p =>
          obtain ⟨nb, name', d1⟩ := p
          simp only [hl] at h
          exact ih d1 name' seen nb e (nameLabel_Ok hd hl) h

theorem nameWin_err_ok : ∀ (fuel : Nat) (d : D) (name : Name) (len : UInt8) (e : DErr),
    D.Ok d → nameWin fuel d name len = .error e → e.isNameErr = true ∨ e = .fuel := by
  intro fuel
  induction fuel with
  | zero =>
    intro d name len e _ h
    unfold nameWin at h
    injection h with h
    exact .inr h.symm
  | succ fuel ih =>
    intro d name len e hd h
    unfold nameWin at h
    by_cases hz : len = 0
    · rw [if_pos hz] at h; cases h
    · rw [if_neg hz] at h
      by_cases hp : isPtr len = true
      · rw [if_pos hp] at h
        cases hu8 : d.u8 with
        | error e' =>
          simp only [hu8] at h
          injection h with h; subst h
          rw [(u8_err_ok hd hu8).1]; exact .inl rfl
        | ok p =>
          obtain ⟨b, d1⟩ := p
          simp only [hu8] at h
          have hd1 := (u8_adv hd hu8).ok
          have hpo := ptrOff_lt len b
          cases hu8' : (D.mk d1.buf (ptrOff len b) d1.buf.length d1.cost).u8 with
          | error e' =>
            simp only [hu8'] at h
            injection h with h; subst h
            rw [(u8_err_of_bounds (d := D.mk d1.buf (ptrOff len b) d1.buf.length d1.cost)
              (by simp only; omega) (Nat.le_refl _) hu8').1]
            exact .inl rfl
          | ok q =>
            obtain ⟨l2, dm⟩ := q
            simp only [hu8'] at h
            cases hrec : nameRec 200 dm name [] l2 with
            | error e' =>
              simp only [hrec] at h
              injection h with h; subst h
              exact nameRec_err_ok 200 dm name [] l2 _
                (u8_Ok_of_bounds (d := D.mk d1.buf (ptrOff len b) d1.buf.length d1.cost)
                  (Nat.le_refl _) hd1.len_lt hu8') hrec
            | ok w => simp [hrec] at h
      · rw [if_neg hp] at h
        cases hl : d.nameLabel name len with
        | error e' =>
          simp only [hl] at h
          injection h with h; subst h
          rcases nameLabel_err_ok hd hz hl with h1 | h1 | h1 | h1 <;> (rw [h1]; exact .inl rfl)
        | ok p =>
          obtain ⟨nb, name', d1⟩ := p
          simp only [hl] at h
          exact ih d1 name' nb e (nameLabel_Ok hd hl) h

/-- **Error classification of `D.name`:** under the bounds, the only possible errors are
`notEnoughBytes`, `utf8`, `labelLength`, `nameLength`, `endlessRecursion`, `maxRecursion`. -/
theorem name_err_ok {d : D} {e : DErr} (hd : D.Ok d) (h : d.name = .error e) : e.isNameErr = true := by
  have hnf := name_no_fuel d
  have : e.isNameErr = true ∨ e = .fuel := by
    unfold D.name at h
    cases hu8 : d.u8 with
    | error e' =>
      simp only [hu8] at h
      injection h with h; subst h
      rw [(u8_err_ok hd hu8).1]; exact .inl rfl
    | ok p =>
      obtain ⟨l, d1⟩ := p
      simp only [hu8] at h
      exact nameWin_err_ok 200 d1 [] l e (u8_adv hd hu8).ok h
  rcases this with h1 | h1
  · exact h1
  · subst h1; exact absurd h hnf

/-- **C01 for names (no panic):** under the bounds `D.name` never panics. -/
theorem name_noPanic {d : D} (hd : D.Ok d) (s : String) : d.name ≠ .error (.panic s) := by
  intro h; have := name_err_ok hd h; cases this

theorem nameRec_noPanic {d : D} (hd : D.Ok d) (fuel : Nat) (name : Name) (seen : List Nat) (len : UInt8)
    (s : String) : nameRec fuel d name seen len ≠ .error (.panic s) := by
  intro h
  rcases nameRec_err_ok fuel d name seen len _ hd h with h1 | h1 <;> cases h1

theorem nameWin_noPanic {d : D} (hd : D.Ok d) (fuel : Nat) (name : Name) (len : UInt8) (s : String) :
    nameWin fuel d name len ≠ .error (.panic s) := by
  intro h
  rcases nameWin_err_ok fuel d name len _ hd h with h1 | h1 <;> cases h1

/-- Total outcome of `D.name` under the bounds: a name of the grammar, or one of six errors. -/
theorem name_total {d : D} (hd : D.Ok d) :
    (∃ n d', d.name = .ok (n, d') ∧ D.Ok d') ∨ (∃ e, d.name = .error e ∧ e.isNameErr = true) := by
  cases h : d.name with
  | error e => exact .inr ⟨e, rfl, name_err_ok hd h⟩
  | ok p => obtain ⟨n, d'⟩ := p; exact .inl ⟨n, d', rfl, name_Ok hd h⟩

/-! ## Non-vacuity: a pointer loop is stopped by the visited set, not by the fuel; the bounds hold for
a concrete decoder -/

example : D.name { buf := [192, 0], off := 0, lim := 2, cost := 0 } = .error .endlessRecursion := rfl

example : D.Ok { buf := [192, 0], off := 0, lim := 2, cost := 0 } :=
  ⟨by decide, by decide, by simp⟩

/-- the weaker bounds are necessary: at the end of the address space `u8` is a panic in the model -/
example : D.name { buf := [], off := 2 ^ 64 - 1, lim := 2 ^ 64, cost := 0 } =
    .error (.panic "read: offset += length") := rfl
