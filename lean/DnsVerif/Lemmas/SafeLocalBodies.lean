import DnsVerif.Lemmas.SafeLocal

/-! # Window locality as extension invariance: options, items, parameters, RDATA, records, questions

Main theorems: `decRData_ext` / `decRData_local` (the body of a record), `decRR_ext` / `decRR_local`
(a whole record), `decQuestion_ext`, `decRRs_ext`, `decQuestions_ext`. -/

namespace Safe

/-! ## Address prefixes, EDNS options -/

theorem family_ext {buf2 : Bytes} {d : D} (hd : D.Ok d) (he : Ext buf2 d) :
    ExtOk buf2 d.family (lift buf2 d).family := by
  unfold D.family
  ebind num_post hd (w := 2) (by omega), num_ext hd he with n d1 s1
  edone

theorem address_ext {buf2 : Bytes} {d : D} (hd : D.Ok d) (he : Ext buf2 d) (fam : Nat) :
    ExtOk buf2 (d.address fam) ((lift buf2 d).address fam) := by
  unfold D.address
  ebind rest_post hd, rest_ext hd he with b d1 s1
  edone

theorem decEcs_ext {buf2 : Bytes} {d : D} (hd : D.Ok d) (he : Ext buf2 d) :
    ExtOk buf2 (decEcs d) (decEcs (lift buf2 d)) := by
  unfold decEcs
  ebind family_post hd, family_ext hd he with fam d1 s1
  ebind num_post s1.ok (w := 1) (by omega), num_ext s1.ok (he.step s1) with src d2 s2
  have he2 := (he.step s1).step s2
  ebind num_post s2.ok (w := 1) (by omega), num_ext s2.ok he2 with scope d3 s3
  ebind address_post s3.ok fam, address_ext s3.ok (he2.step s3) fam with addr d4 s4
  edone

theorem decCookie_ext {buf2 : Bytes} {d : D} (hd : D.Ok d) (he : Ext buf2 d) :
    ExtOk buf2 (decCookie d) (decCookie (lift buf2 d)) := by
  unfold decCookie
  ebind rest_post hd, rest_ext hd he with v d1 s1
  edone

theorem decPadding_ext {buf2 : Bytes} {d : D} (hd : D.Ok d) (he : Ext buf2 d) :
    ExtOk buf2 (decPadding d) (decPadding (lift buf2 d)) := by
  unfold decPadding
  ebind rest_post hd, rest_ext hd he with v d1 s1
  edone

theorem decOption_ext {buf2 : Bytes} {d : D} (hd : D.Ok d) (he : Ext buf2 d) :
    ExtOk buf2 (decOption d) (decOption (lift buf2 d)) := by
  unfold decOption
  ebind num_post hd (w := 2) (by omega), num_ext hd he with code d1 s1
  split
  · exact ExtOk.of_error
  · have he1 := he.step s1
    ebind num_post s1.ok (w := 2) (by omega), num_ext s1.ok he1 with len d2 s2
    refine withSub_ext s2.ok (he1.step s2) (fun c hc hec _ _ => ?_)
    split
    · exact decEcs_ext hc hec
    · split
      · exact decCookie_ext hc hec
      · exact decPadding_ext hc hec

theorem decOptions_ext {buf2 : Bytes} : ∀ (fuel : Nat) (d : D), D.Ok d → Ext buf2 d →
    d.lim - d.off < fuel → ExtOk buf2 (decOptions fuel d) (decOptions fuel (lift buf2 d)) := by
  intro fuel
  induction fuel with
  | zero => intro d _ _ h; omega
  | succ fuel ih =>
    intro d hd he hf
    unfold decOptions
    rw [isFinished_eq hd, isFinished_lift hd]
    by_cases hfin : d.off = d.lim
    · simp only [hfin, decide_true]; exact ExtOk.refl
    · simp only [hfin, decide_false]
      ebind decOption_post hd, decOption_ext hd he with o d1 s1
      have hf1 := s1.fuel (by omega) hf
      ebind decOptions_post fuel d1 s1.ok hf1, ih d1 s1.ok (he.step s1) hf1 with r d2 s2
      edone

/-! ## APL -/

theorem decApItem_ext {buf2 : Bytes} {d : D} (hd : D.Ok d) (he : Ext buf2 d) :
    ExtOk buf2 (decApItem d) (decApItem (lift buf2 d)) := by
  unfold decApItem
  ebind family_post hd, family_ext hd he with fam d1 s1
  have he1 := he.step s1
  ebind num_post s1.ok (w := 1) (by omega), num_ext s1.ok he1 with pfx d2 s2
  have he2 := he1.step s2
  ebind num_post s2.ok (w := 1) (by omega), num_ext s2.ok he2 with b d3 s3
  have hlen : b &&& 127 < 2 ^ 63 := by
    have : b &&& 127 ≤ 127 := Nat.and_le_right
    omega
  ebind (withSub_post (K := 1) (f := fun c => c.address fam) s3.ok hlen
      (fun c hc _ _ _ => address_post hc fam)),
    (withSub_ext (f := fun c => c.address fam) s3.ok (he2.step s3)
      (fun c hc hec _ _ => address_ext hc hec fam)) with addr d4 s4
  edone

theorem decApItems_ext {buf2 : Bytes} : ∀ (fuel : Nat) (d : D), D.Ok d → Ext buf2 d →
    d.lim - d.off < fuel → ExtOk buf2 (decApItems fuel d) (decApItems fuel (lift buf2 d)) := by
  intro fuel
  induction fuel with
  | zero => intro d _ _ h; omega
  | succ fuel ih =>
    intro d hd he hf
    unfold decApItems
    rw [isFinished_eq hd, isFinished_lift hd]
    by_cases hfin : d.off = d.lim
    · simp only [hfin, decide_true]; exact ExtOk.refl
    · simp only [hfin, decide_false]
      ebind decApItem_post hd, decApItem_ext hd he with o d1 s1
      have hf1 := s1.fuel (by omega) hf
      ebind decApItems_post fuel d1 s1.ok hf1, ih d1 s1.ok (he.step s1) hf1 with r d2 s2
      edone

/-! ## SVCB / HTTPS -/

theorem nums16_ext {buf2 : Bytes} : ∀ (fuel : Nat) (d : D), D.Ok d → Ext buf2 d →
    d.lim - d.off < fuel → ExtOk buf2 (D.nums16 fuel d) (D.nums16 fuel (lift buf2 d)) := by
  intro fuel
  induction fuel with
  | zero => intro d _ _ h; omega
  | succ fuel ih =>
    intro d hd he hf
    unfold D.nums16
    rw [isFinished_eq hd, isFinished_lift hd]
    by_cases hfin : d.off = d.lim
    · simp only [hfin, decide_true]; exact ExtOk.refl
    · simp only [hfin, decide_false]
      ebind num_post hd (w := 2) (by omega), num_ext hd he with n d1 s1
      have hf1 := s1.fuel (by omega) hf
      ebind nums16_post fuel d1 s1.ok hf1, ih d1 s1.ok (he.step s1) hf1 with r d2 s2
      edone

theorem hints_ext {buf2 : Bytes} : ∀ (fuel k c : Nat) (d : D), D.Ok d → Ext buf2 d → 0 < k * c →
    c < 2 ^ 63 → d.lim - d.off < fuel →
    ExtOk buf2 (D.hints fuel k c d) (D.hints fuel k c (lift buf2 d)) := by
  intro fuel
  induction fuel with
  | zero => intro k c d _ _ _ _ h; omega
  | succ fuel ih =>
    intro k c d hd he hkc hc hf
    unfold D.hints
    rw [isFinished_eq hd, isFinished_lift hd]
    by_cases hfin : d.off = d.lim
    · simp only [hfin, decide_true]; exact ExtOk.refl
    · simp only [hfin, decide_false]
      ebind octs_post k c d hd hc, octs_ext k c d hd he hc with h d1 s1
      have hf1 := s1.fuel hkc hf
      ebind hints_post fuel k c d1 s1.ok hkc hc hf1, ih k c d1 s1.ok (he.step s1) hkc hc hf1 with r d2 s2
      edone

theorem decSvcParam_ext {buf2 : Bytes} (key : Nat) {d : D} (hd : D.Ok d) (he : Ext buf2 d) :
    ExtOk buf2 (decSvcParam key d) (decSvcParam key (lift buf2 d)) := by
  unfold decSvcParam
  simp only [lift_lim, lift_off]
  split
  · ebind nums16_post _ d hd (by omega), nums16_ext _ d hd he (by omega) with ks d1 s1
    edone
  split
  · ebind cstrs_post _ d hd (by omega), cstrs_ext _ d hd he (by omega) with ids d1 s1
    edone
  split
  · exact ExtOk.refl
  split
  · ebind num_post hd (w := 2) (by omega), num_ext hd he with p d1 s1
    edone
  split
  · ebind hints_post _ 1 4 d hd (by omega) (by omega) (by omega),
      hints_ext _ 1 4 d hd he (by omega) (by omega) (by omega) with hs d1 s1
    edone
  split
  · ebind num_post hd (w := 2) (by omega), num_ext hd he with len d1 s1
    ebind rest_post s1.ok, rest_ext s1.ok (he.step s1) with b d2 s2
    edone
  split
  · ebind hints_post _ 8 2 d hd (by omega) (by omega) (by omega),
      hints_ext _ 8 2 d hd he (by omega) (by omega) (by omega) with hs d1 s1
    edone
  split
  · exact ExtOk.refl
  · ebind rest_post hd, rest_ext hd he with b d1 s1
    edone

theorem decSvcParams_ext {buf2 : Bytes} : ∀ (fuel : Nat) (d : D) (acc : List SvcParam), D.Ok d →
    Ext buf2 d → d.lim - d.off < fuel →
    ExtOk buf2 (decSvcParams fuel d acc) (decSvcParams fuel (lift buf2 d) acc) := by
  intro fuel
  induction fuel with
  | zero => intro d _ _ _ h; omega
  | succ fuel ih =>
    intro d acc hd he hf
    unfold decSvcParams
    rw [isFinished_eq hd, isFinished_lift hd]
    by_cases hfin : d.off = d.lim
    · simp only [hfin, decide_true]; exact ExtOk.refl
    · simp only [hfin, decide_false]
      ebind num_post hd (w := 2) (by omega), num_ext hd he with key d1 s1
      have he1 := he.step s1
      ebindh num_post s1.ok (w := 2) (by omega), num_ext s1.ok he1 with len d2 s2 h2
      have he2 := he1.step s2
      have hlen : len < 2 ^ 63 := num2_lt s1.ok h2
      ebind (withSub_post (K := 1) (f := decSvcParam key) s2.ok hlen
          (fun c hc _ _ _ => decSvcParam_post key hc)),
        (withSub_ext (f := decSvcParam key) s2.ok he2
          (fun c hc hec _ _ => decSvcParam_ext key hc hec)) with p d3 s3
      cases hins : insertParam p acc with
      | none => exact ExtOk.of_error
      | some acc' =>
        dsimp only
        have hf3 : d3.lim - d3.off < fuel := by
          have := s1.off; have := s2.off; have := s3.off
          have := s1.lim; have := s2.lim; have := s3.lim; have := s3.ok.off_le
          omega
        exact ih d3 acc' s3.ok (he2.step s3) hf3

/-! ## Records, questions -/

/-- **`decRData_ext`: the body of a record decodes to the same value on every extension of the buffer** -/
theorem decRData_ext {buf2 : Bytes} (name : Name) (ty cls ttl : Nat) {c : D} (hc : D.Ok c)
    (he : Ext buf2 c) :
    ExtOk buf2 (decRData name ty cls ttl c) (decRData name ty cls ttl (lift buf2 c)) := by
  unfold decRData
  cases hk : rrKind ty with
  | none => exact ExtOk.of_error
  | some k =>
    cases k with
    | regular info =>
      dsimp only
      cases hcc : checkClass cls info.inOnly with
      | error e => exact ExtOk.of_error
      | ok u =>
        dsimp only
        ebind decFields_post _ c hc (rrKind_small hk), decFields_ext _ c hc he (rrKind_small hk)
          with vs c1 s1
        edone
    | opt =>
      simp only [lift_lim, lift_off]
      split
      · exact ExtOk.of_error
      · cases hot : optTtl ttl with
        | error e => exact ExtOk.of_error
        | ok t =>
          dsimp only
          ebind decOptions_post (c.lim - c.off + 1) c hc (by omega),
            decOptions_ext (c.lim - c.off + 1) c hc he (by omega) with opts c1 s1
          edone
    | apl =>
      simp only [lift_lim, lift_off]
      cases hcc : checkClass cls (some .aplClass) with
      | error e => exact ExtOk.of_error
      | ok u =>
        dsimp only
        ebind decApItems_post (c.lim - c.off + 1) c hc (by omega),
          decApItems_ext (c.lim - c.off + 1) c hc he (by omega) with items c1 s1
        edone
    | svcb https =>
      dsimp only
      cases hcc : checkClass cls (some .svcbClass) with
      | error e => exact ExtOk.of_error
      | ok u =>
        dsimp only
        ebind num_post hc (w := 2) (by omega), num_ext hc he with prio c1 s1
        have he1 := he.step s1
        ebind name_post s1.ok, name_ext s1.ok he1 with target c2 s2
        split
        · exact ExtOk.refl
        · simp only [lift_lim, lift_off]
          ebind decSvcParams_post (c2.lim - c2.off + 1) c2 [] s2.ok (by omega),
            decSvcParams_ext (c2.lim - c2.off + 1) c2 [] s2.ok (he1.step s2) (by omega) with ps c3 s3
          edone

/-- **`decRR_ext`: a whole record** -/
theorem decRR_ext {buf2 : Bytes} {d : D} (hd : D.Ok d) (he : Ext buf2 d) :
    ExtOk buf2 (decRR d) (decRR (lift buf2 d)) := by
  unfold decRR
  ebind name_post hd, name_ext hd he with name d1 s1
  have he1 := he.step s1
  ebind num_post s1.ok (w := 2) (by omega), num_ext s1.ok he1 with ty d2 s2
  have he2 := he1.step s2
  split
  · exact ExtOk.of_error
  · ebind num_post s2.ok (w := 2) (by omega), num_ext s2.ok he2 with cls d3 s3
    have he3 := he2.step s3
    ebind num_post s3.ok (w := 4) (by omega), num_ext s3.ok he3 with ttl d4 s4
    have he4 := he3.step s4
    ebind num_post s4.ok (w := 2) (by omega), num_ext s4.ok he4 with rdlen d5 s5
    exact withSub_ext s5.ok (he4.step s5) (fun c hc hec _ _ => decRData_ext name ty cls ttl hc hec)

theorem decQuestion_ext {buf2 : Bytes} {d : D} (hd : D.Ok d) (he : Ext buf2 d) :
    ExtOk buf2 (decQuestion d) (decQuestion (lift buf2 d)) := by
  unfold decQuestion
  ebind name_post hd, name_ext hd he with name d1 s1
  have he1 := he.step s1
  ebind num_post s1.ok (w := 2) (by omega), num_ext s1.ok he1 with qt d2 s2
  split
  · exact ExtOk.of_error
  · ebind num_post s2.ok (w := 2) (by omega), num_ext s2.ok (he1.step s2) with qc d3 s3
    edone

theorem decQuestions_ext {buf2 : Bytes} : ∀ (k : Nat) (d : D), D.Ok d → Ext buf2 d →
    ExtOk buf2 (decQuestions k d) (decQuestions k (lift buf2 d)) := by
  intro k
  induction k with
  | zero => intro d _ _; unfold decQuestions; exact ExtOk.refl
  | succ k ih =>
    intro d hd he
    unfold decQuestions
    ebind decQuestion_post hd, decQuestion_ext hd he with q d1 s1
    ebind decQuestions_post k d1 s1.ok, ih d1 s1.ok (he.step s1) with r d2 s2
    edone

theorem decRRs_ext {buf2 : Bytes} : ∀ (k : Nat) (d : D), D.Ok d → Ext buf2 d →
    ExtOk buf2 (decRRs k d) (decRRs k (lift buf2 d)) := by
  intro k
  induction k with
  | zero => intro d _ _; unfold decRRs; exact ExtOk.refl
  | succ k ih =>
    intro d hd he
    unfold decRRs
    ebind decRR_post hd, decRR_ext hd he with q d1 s1
    ebind decRRs_post k d1 s1.ok, ih d1 s1.ok (he.step s1) with r d2 s2
    edone

/-! ## The statements on concrete buffers `pre` / `pre ++ suf` -/

theorem Ext.append (pre suf : Bytes) (off lim cost : Nat) (hlen : (pre ++ suf).length < 2 ^ 63) :
    Ext (pre ++ suf) { buf := pre, off := off, lim := lim, cost := cost } :=
  ⟨fun i hi => List.getElem?_append_left hi, by simp, hlen⟩

/-- **Locality of a record body (C09).** Let the RDATA window `[off, lim)` lie inside `pre`. If the body
decodes successfully on `pre` alone — so every octet it uses, through compression pointers too, lies in
`pre` — then on `pre ++ suf` it decodes to the same record, cursor and cost, for EVERY `suf`: octets
after the window are never absorbed into a field. -/
theorem decRData_local {pre : Bytes} (suf : Bytes) {name : Name} {ty cls ttl off lim cost : Nat} {r : RR}
    {c' : D} (hol : off ≤ lim) (hlim : lim ≤ pre.length) (hlen : (pre ++ suf).length < 2 ^ 63)
    (h : decRData name ty cls ttl { buf := pre, off := off, lim := lim, cost := cost } = .ok (r, c')) :
    decRData name ty cls ttl { buf := pre ++ suf, off := off, lim := lim, cost := cost } =
      .ok (r, { buf := pre ++ suf, off := c'.off, lim := c'.lim, cost := c'.cost }) := by
  have hpl : pre.length < 2 ^ 63 := by simp at hlen; omega
  exact decRData_ext name ty cls ttl (c := { buf := pre, off := off, lim := lim, cost := cost })
    ⟨hol, hlim, hpl⟩ (Ext.append pre suf off lim cost hlen) r c' h

/-- the same for any two continuations: the result does not depend on what follows -/
theorem decRData_local' {pre : Bytes} (suf suf' : Bytes) {name : Name} {ty cls ttl off lim cost : Nat}
    {r : RR} {c' : D} (hol : off ≤ lim) (hlim : lim ≤ pre.length) (hlen : (pre ++ suf).length < 2 ^ 63)
    (hlen' : (pre ++ suf').length < 2 ^ 63)
    (h : decRData name ty cls ttl { buf := pre, off := off, lim := lim, cost := cost } = .ok (r, c')) :
    (decRData name ty cls ttl { buf := pre ++ suf, off := off, lim := lim, cost := cost }).map (·.1) =
    (decRData name ty cls ttl { buf := pre ++ suf', off := off, lim := lim, cost := cost }).map (·.1) := by
  rw [decRData_local suf hol hlim hlen h, decRData_local suf' hol hlim hlen' h]
  rfl

/-- **Locality of a whole record (C09).** A record that decodes successfully on the message cut right
after it (or anywhere later) decodes to the same record whatever follows the cut. -/
theorem decRR_local {pre : Bytes} (suf : Bytes) {off lim cost : Nat} {r : RR} {d' : D}
    (hol : off ≤ lim) (hlim : lim ≤ pre.length) (hlen : (pre ++ suf).length < 2 ^ 63)
    (h : decRR { buf := pre, off := off, lim := lim, cost := cost } = .ok (r, d')) :
    decRR { buf := pre ++ suf, off := off, lim := lim, cost := cost } =
      .ok (r, { buf := pre ++ suf, off := d'.off, lim := d'.lim, cost := d'.cost }) := by
  have hpl : pre.length < 2 ^ 63 := by simp at hlen; omega
  exact decRR_ext (d := { buf := pre, off := off, lim := lim, cost := cost })
    ⟨hol, hlim, hpl⟩ (Ext.append pre suf off lim cost hlen) r d' h

/-- **`decFields_local`** -/
theorem decFields_local {pre : Bytes} (suf : Bytes) {fs : List Fld} {off lim cost : Nat}
    {vs : List FVal} {d' : D} (hs : fs.all Fld.small = true)
    (hol : off ≤ lim) (hlim : lim ≤ pre.length) (hlen : (pre ++ suf).length < 2 ^ 63)
    (h : decFields { buf := pre, off := off, lim := lim, cost := cost } fs = .ok (vs, d')) :
    decFields { buf := pre ++ suf, off := off, lim := lim, cost := cost } fs =
      .ok (vs, { buf := pre ++ suf, off := d'.off, lim := d'.lim, cost := d'.cost }) := by
  have hpl : pre.length < 2 ^ 63 := by simp at hlen; omega
  exact decFields_ext fs { buf := pre, off := off, lim := lim, cost := cost }
    ⟨hol, hlim, hpl⟩ (Ext.append pre suf off lim cost hlen) hs vs d' h

/-! ## Non-vacuity: an A record for `a.` followed by two different continuations -/

private def exPre : Bytes := [1, 97, 0, 0, 1, 0, 1, 0, 0, 0, 60, 0, 4, 10, 0, 0, 1]

example : ∃ r d', decRR { buf := exPre, off := 0, lim := 17, cost := 0 } = .ok (r, d') ∧ d'.off = 17 :=
  ⟨_, _, rfl, rfl⟩
example : (decRR { buf := exPre ++ [255, 255], off := 0, lim := 17, cost := 0 }).map (·.1) =
    (decRR { buf := exPre ++ [0], off := 0, lim := 17, cost := 0 }).map (·.1) := rfl
/-- the hypothesis "succeeds on the cut buffer" is what excludes pointers past the cut: a CNAME whose
target is a pointer to offset 17, just after the record, decodes only when something is there -/
private def exFwd : Bytes := [1, 97, 0, 0, 5, 0, 1, 0, 0, 0, 60, 0, 2, 192, 15]
example : decRR { buf := exFwd, off := 0, lim := 15, cost := 0 } = .error .notEnoughBytes := rfl
example : ∃ r d', decRR { buf := exFwd ++ [0], off := 0, lim := 15, cost := 0 } = .ok (r, d') :=
  ⟨_, _, rfl⟩

end Safe
