import DnsVerif.Model.Types

/-! # The record table: what `src/decode/rr/*.rs` and `src/encode/rr/*.rs` (and their macros) say,
one row per implemented record type. Field names are the Rust struct field names, in declaration
order; they are part of the canonical output, so the correspondence check sees a swapped field. -/

def EnumId.valid : EnumId → Nat → Bool
  | .afsdbSubtype, n => inTable Gen.enumAFSDBSubtype n
  | .sshfpAlgorithm, n => inTable Gen.enumSSHFPAlgorithm n
  | .sshfpType, n => inTable Gen.enumSSHFPType n
  | .algorithmType, n => inTable Gen.enumAlgorithmType n
  | .digestType, n => inTable Gen.enumDigestType n
  | .dnskeyFlags, n => n &&& 0xFEFE == 0          -- `flags & DNSKEY_ZERO_MASK != 0` is rejected
  | .dnskeyProtocol, n => n == 3

def EnumId.err : EnumId → Nat → DErr
  | .afsdbSubtype, n => .afsdbSubtype n
  | .sshfpAlgorithm, n => .sshfpAlgorithm n
  | .sshfpType, n => .sshfpType n
  | .algorithmType, n => .algorithmType n
  | .digestType, n => .digestType n
  | .dnskeyFlags, n => .dnskeyZeroFlags n
  | .dnskeyProtocol, n => .dnskeyProtocol n

/-- `TryFrom<String>` validators (after the UTF-8 check); the result is the stored string -/
def StrCheck.run : StrCheck → Bytes → Except DErr Bytes
  | .any, s => .ok s
  | .psdn, s => if s.all isDigitB then .ok s else .error .psdn
  | .isdn, s => if s.all isDigitB then .ok s else .error .isdn
  | .sa, s => if s.all isHexDigitB then .ok s else .error .isdnSA
  | .gpos, s => if 1 ≤ s.length ∧ s.length ≤ 256 then .ok s else .error .gpos
  | .tag, s => if s.isEmpty then .error .tagEmpty
               else if s.all isAlnumB then .ok (s.map lowerB) else .error .tagIllegal

structure RRInfo where
  tname : String
  /-- `some e`: the record has no class field, the wire class must be IN, else error `e class` -/
  inOnly : Option (Nat → DErr)
  flds : List (String × Fld)

inductive RRKind
  | regular (i : RRInfo)
  | opt
  | apl
  | svcb (https : Bool)


def rrKind : Nat → Option RRKind
  | 1 => some (.regular ⟨"A", some .aClass, [("ipv4_addr", .oct 1 4)]⟩)
  | 2 => some (.regular ⟨"NS", none, [("ns_d_name", .name true)]⟩)
  | 3 => some (.regular ⟨"MD", none, [("mad_name", .name true)]⟩)
  | 4 => some (.regular ⟨"MF", none, [("mad_name", .name true)]⟩)
  | 5 => some (.regular ⟨"CNAME", none, [("c_name", .name true)]⟩)
  | 6 => some (.regular ⟨"SOA", none, [("m_name", .name true), ("r_name", .name true), ("serial", .num 4),
            ("refresh", .num 4), ("retry", .num 4), ("expire", .num 4), ("min_ttl", .num 4)]⟩)
  | 7 => some (.regular ⟨"MB", none, [("mad_name", .name true)]⟩)
  | 8 => some (.regular ⟨"MG", none, [("mgm_name", .name true)]⟩)
  | 9 => some (.regular ⟨"MR", none, [("new_name", .name true)]⟩)
  | 10 => some (.regular ⟨"NULL", none, [("data", .rest false)]⟩)
  | 11 => some (.regular ⟨"WKS", some .wksClass, [("ipv4_addr", .oct 1 4), ("protocol", .num 1),
            ("bit_map", .rest false)]⟩)
  | 12 => some (.regular ⟨"PTR", none, [("ptr_d_name", .name true)]⟩)
  | 13 => some (.regular ⟨"HINFO", none, [("cpu", .cstr .any), ("os", .cstr .any)]⟩)
  | 14 => some (.regular ⟨"MINFO", none, [("r_mail_bx", .name true), ("e_mail_bx", .name true)]⟩)
  | 15 => some (.regular ⟨"MX", none, [("preference", .num 2), ("exchange", .name true)]⟩)
  | 16 => some (.regular ⟨"TXT", none, [("strings", .strs)]⟩)
  | 17 => some (.regular ⟨"RP", none, [("mbox_dname", .name false), ("txt_dname", .name false)]⟩)
  | 18 => some (.regular ⟨"AFSDB", none, [("subtype", .enum 2 .afsdbSubtype), ("hostname", .name false)]⟩)
  | 19 => some (.regular ⟨"X25", none, [("psdn_address", .cstr .psdn)]⟩)
  | 20 => some (.regular ⟨"ISDN", none, [("isdn_address", .cstr .isdn), ("sa", .ocstr .sa)]⟩)
  | 21 => some (.regular ⟨"RT", none, [("preference", .num 2), ("intermediate_host", .name false)]⟩)
  | 22 => some (.regular ⟨"NSAP", none, [("data", .rest false)]⟩)
  | 26 => some (.regular ⟨"PX", none, [("preference", .num 2), ("map822", .name false), ("mapx400", .name false)]⟩)
  | 27 => some (.regular ⟨"GPOS", none, [("longitude", .cstr .gpos), ("latitude", .cstr .gpos),
            ("altitude", .cstr .gpos)]⟩)
  | 28 => some (.regular ⟨"AAAA", some .aaaaClass, [("ipv6_addr", .oct 8 2)]⟩)
  | 29 => some (.regular ⟨"LOC", none, [("version", .num 1), ("size", .num 1), ("horiz_pre", .num 1), ("vert_pre", .num 1),
            ("latitube", .num 4), ("longitube", .num 4), ("altitube", .num 4)]⟩)
  | 31 => some (.regular ⟨"EID", none, [("data", .rest false)]⟩)
  | 32 => some (.regular ⟨"NIMLOC", none, [("data", .rest false)]⟩)
  | 33 => some (.regular ⟨"SRV", none, [("priority", .num 2), ("weight", .num 2), ("port", .num 2), ("target", .name false)]⟩)
  | 36 => some (.regular ⟨"KX", none, [("preference", .num 2), ("exchanger", .name false)]⟩)
  | 39 => some (.regular ⟨"DNAME", none, [("target", .name false)]⟩)
  | 41 => some .opt
  | 42 => some .apl
  | 43 => some (.regular ⟨"DS", none, [("key_tag", .num 2), ("algorithm_type", .enum 1 .algorithmType),
            ("digest_type", .enum 1 .digestType), ("digest", .rest false)]⟩)
  | 44 => some (.regular ⟨"SSHFP", none, [("algorithm", .enum 1 .sshfpAlgorithm), ("type_", .enum 1 .sshfpType),
            ("fp", .rest false)]⟩)
  | 48 => some (.regular ⟨"DNSKEY", none, [("flags", .enum 2 .dnskeyFlags), ("protocol", .enum 1 .dnskeyProtocol),
            ("algorithm_type", .enum 1 .algorithmType), ("public_key", .rest false)]⟩)
  | 64 => some (.svcb false)
  | 65 => some (.svcb true)
  | 104 => some (.regular ⟨"NID", none, [("preference", .num 2), ("node_id", .num 8)]⟩)
  | 105 => some (.regular ⟨"L32", none, [("preference", .num 2), ("locator_32", .num 4)]⟩)
  | 106 => some (.regular ⟨"L64", none, [("preference", .num 2), ("locator_64", .num 8)]⟩)
  | 107 => some (.regular ⟨"LP", none, [("preference", .num 2), ("fqdn", .name false)]⟩)
  | 108 => some (.regular ⟨"EUI48", none, [("eui_48", .oct 6 1)]⟩)
  | 109 => some (.regular ⟨"EUI64", none, [("eui_64", .oct 8 1)]⟩)
  | 256 => some (.regular ⟨"URI", none, [("priority", .num 2), ("weight", .num 2), ("uri", .rest true)]⟩)
  | 257 => some (.regular ⟨"CAA", none, [("flags", .num 1), ("tag", .cstr .tag), ("value", .rest false)]⟩)
  | _ => none

/-- the 46 implemented record types -/
def implementedTypes : List Nat :=
  [1, 2, 3, 4, 5, 6, 7, 8, 9, 10, 11, 12, 13, 14, 15, 16, 17, 18, 19, 20, 21, 22, 26, 27, 28, 29, 31, 32, 33,
   36, 39, 41, 42, 43, 44, 48, 64, 65, 104, 105, 106, 107, 108, 109, 256, 257]
