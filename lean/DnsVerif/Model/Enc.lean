import DnsVerif.Model.Table

/-! # Model of `src/encode/**`

`Enc.out` is `Encoder.bytes`; `Enc.idx` is `Encoder.domain_name_index` as an association list with
ASCII-case-insensitive key lookup (newest entry first, `insert` = cons, so a re-inserted key shadows
the old one exactly as `HashMap::insert` replaces the value). Each entry is
`(name, offset, pointer depth)`. -/

structure Enc where
  out : Bytes := []
  idx : List (Name × Nat × Nat) := []
  deriving Repr

def Enc.lookup (e : Enc) (k : Name) : Option (Nat × Nat) :=
  match e.idx.find? (fun p => ciEq p.1 k) with
  | some p => some p.2
  | none => none

def Enc.put (e : Enc) (x : Bytes) : Enc := { e with out := e.out ++ x }

/-- `merge_domain_name_index` (the iteration order of the local `HashMap` is irrelevant, see C14) -/
def Enc.merge (e : Enc) (loc : List (Name × Nat)) (r : Nat) : Except EErr Enc :=
  if r > 16 then .error .maxRecursion
  else .ok { e with idx := loc.map (fun p => (p.1, p.2, r)) ++ e.idx }

/-- `Encoder::string` -/
def Enc.cstr (e : Enc) (s : Bytes) : Except EErr Enc :=
  if s.length > 255 then .error .string
  else .ok (e.put (UInt8.ofNat s.length :: s))

/-- `Encoder::domain_name` (with `compress`, `label`, `merge_domain_name_index` inlined) -/
def encNameGo (e : Enc) : Name → List (Name × Nat) → Except EErr Enc
  | [], loc =>
    (Enc.merge { e with out := e.out ++ [0] } loc 0)
  | l :: rest, loc =>
    let lit : Except EErr Enc :=
      let off := e.out.length
      if off > 65535 then .error .length
      else if l.length > 255 then .error .string
      else
        let e' : Enc := { e with out := e.out ++ (UInt8.ofNat l.length :: l) }
        let loc' := if off ≤ 0x3FFF then (l :: rest, off) :: loc else loc
        encNameGo e' rest loc'
    match e.lookup (l :: rest) with
    | some (off, r) =>
      if 0x3FFF < off then .error .compression
      else if r ≥ 16 then lit
      else Enc.merge { e with out := e.out ++ ptrBytes off } loc (r + 1)
    | none => lit

def encName (e : Enc) (n : Name) : Except EErr Enc := encNameGo e n []

/-- `Encoder::domain_name_uncompressed` -/
def encNameU (e : Enc) : Name → Except EErr Enc
  | [] => .ok (e.put [0])
  | l :: rest =>
    if e.out.length > 65535 then .error .length
    else if l.length > 255 then .error .string
    else encNameU (e.put (UInt8.ofNat l.length :: l)) rest

/-- `set_length_index` (`len - (index + 2)` is checked arithmetic, `set_u16` checks the index) -/
def setLen (e : Enc) (li : Nat) : Except EErr Enc :=
  if e.out.length < li + 2 then .error (.panic "set_length_index: len - (index + 2)")
  else
    let len := e.out.length - (li + 2)
    if len > 65535 then .error .length
    else if li + 2 - 1 < e.out.length then .ok { e with out := patch e.out li (beBytes 2 len) }
    else .error .notEnoughBytes

/-! ## Regular fields -/

def encCstrs (e : Enc) : List Bytes → Except EErr Enc
  | [] => .ok e
  | s :: r =>
    match e.cstr s with
    | .error err => .error err
    | .ok e => encCstrs e r

def encField (e : Enc) : Fld → FVal → Except EErr Enc
  | .num w, .num n => .ok (e.put (beBytes w n))
  | .enum w _, .num n => .ok (e.put (beBytes w n))
  | .name true, .name n => encName e n
  | .name false, .name n => encNameU e n
  | .cstr _, .bytes s => e.cstr s
  | .ocstr _, .obytes none => .ok e
  | .ocstr _, .obytes (some s) => e.cstr s
  | .strs, .strs l => encCstrs e l
  | .rest _, .bytes b => .ok (e.put b)
  | .oct _ _, .bytes b => .ok (e.put b)
  | _, _ => .error (.panic "field/value mismatch")

def encFields (e : Enc) : List Fld → List FVal → Except EErr Enc
  | [], [] => .ok e
  | f :: fs, v :: vs =>
    match encField e f v with
    | .error err => .error err
    | .ok e => encFields e fs vs
  | _, _ => .error (.panic "field/value mismatch")

/-! ## Address prefixes -/

/-- `rr_address_ipv4/ipv6`: `for b in octets { put b; if prefix < 8 {break} else {prefix -= 8} }` -/
def addrWithPrefix : Bytes → Nat → Bytes
  | [], _ => []
  | b :: r, p => if p < 8 then [b] else b :: addrWithPrefix r (p - 8)

/-- `rr_octets_without_trailing_zeros`: up to the last non-zero octet -/
def stripZeros : Bytes → Bytes
  | [] => []
  | b :: r => match stripZeros r with
    | [] => if b == 0 then [] else [b]
    | r' => b :: r'

/-! ## EDNS options -/

def encOption (e : Enc) : EdnsOpt → Except EErr Enc
  | .ecs fam src scope addr =>
    let e := e.put (beBytes 2 8)
    let li := e.out.length
    let e := e.put [0, 0]
    let e := e.put (beBytes 2 fam ++ beBytes 1 src ++ beBytes 1 scope)
    let e := e.put (addrWithPrefix addr (max src scope))
    setLen e li
  | .cookie client server =>
    let e := e.put (beBytes 2 10)
    let li := e.out.length
    let e := e.put [0, 0]
    let e := e.put client
    let e := match server with
      | none => e
      | some s => e.put s
    setLen e li
  | .padding n =>
    .ok (e.put (beBytes 2 12 ++ beBytes 2 n ++ List.replicate n 0))

def encOptions (e : Enc) : List EdnsOpt → Except EErr Enc
  | [] => .ok e
  | o :: r =>
    match encOption e o with
    | .error err => .error err
    | .ok e => encOptions e r

/-- `rr_opt_ttl` -/
def optTtlWord (ext ver : Nat) (dnssec : Bool) : Nat :=
  (ext <<< 24) ||| (ver <<< 16) ||| (if dnssec then 0x80 <<< 8 else 0)

/-! ## APL -/

/-- `set_address_length_index` -/
def setAddrLen (e : Enc) (neg : Bool) (ali : Nat) : Except EErr Enc :=
  if e.out.length < ali + 1 then .error (.panic "set_address_length_index: len - (index + 1)")
  else
    let len := e.out.length - (ali + 1)
    if len > 255 then .error .length
    else if len ≥ 128 then .error .aplAddressLength
    else if ali + 1 - 1 < e.out.length then
      .ok { e with out := patch e.out ali [UInt8.ofNat (if neg then len ||| 128 else len)] }
    else .error .notEnoughBytes

def encApItem (e : Enc) (it : APItem) : Except EErr Enc :=
  let e := e.put (beBytes 2 it.fam ++ beBytes 1 it.pfx)
  let ali := e.out.length
  let e := e.put [0]
  let e := e.put (stripZeros it.addr)
  setAddrLen e it.neg ali

def encApItems (e : Enc) : List APItem → Except EErr Enc
  | [] => .ok e
  | o :: r =>
    match encApItem e o with
    | .error err => .error err
    | .ok e => encApItems e r

/-! ## SVCB / HTTPS -/

def insertSorted (x : Nat) : List Nat → List Nat
  | [] => [x]
  | y :: r => if x ≤ y then x :: y :: r else y :: insertSorted x r

/-- `sort_unstable` on `u16` keys -/
def sortNat : List Nat → List Nat
  | [] => []
  | x :: r => insertSorted x (sortNat r)

def encSvcParam (e : Enc) (p : SvcParam) : Except EErr Enc :=
  let e := e.put (beBytes 2 p.key)
  let li := e.out.length
  let e := e.put [0, 0]
  let body : Except EErr Enc :=
    match p with
    | .mandatory ks => .ok (e.put ((sortNat ks).flatMap (beBytes 2)))
    | .alpn ids => encCstrs e ids
    | .noDefaultAlpn => .ok e
    | .port p => .ok (e.put (beBytes 2 p))
    | .ipv4hint hs => .ok (e.put hs.flatten)
    | .ech b => if b.length > 65535 then .error .length else .ok (e.put (beBytes 2 b.length ++ b))
    | .ipv6hint hs => .ok (e.put hs.flatten)
    | .priv _ b => .ok (e.put b)
    | .key65535 => .ok e
  match body with
  | .error err => .error err
  | .ok e => setLen e li

def encSvcParams (e : Enc) : List SvcParam → Except EErr Enc
  | [] => .ok e
  | o :: r =>
    match encSvcParam e o with
    | .error err => .error err
    | .ok e => encSvcParams e r

/-! ## Records -/

/-- `Encoder::rr` -/
def encRR (e : Enc) (rr : RR) : Except EErr Enc :=
  match rrKind rr.ty with
  | none => .error (.panic "unknown record type")
  | some (.regular info) =>
    match encName e rr.name with
    | .error err => .error err
    | .ok e =>
      let cls := match info.inOnly with
        | none => rr.cls
        | some _ => 1
      let e := e.put (beBytes 2 rr.ty ++ beBytes 2 cls ++ beBytes 4 rr.ttl)
      let li := e.out.length
      let e := e.put [0, 0]
      match rr.rd with
      | .fields vs =>
        match encFields e (info.flds.map (·.2)) vs with
        | .error err => .error err
        | .ok e => setLen e li
      | _ => .error (.panic "field/value mismatch")
  | some .opt =>
    match rr.rd with
    | .opt payload ext ver dnssec opts =>
      match encName e [] with
      | .error err => .error err
      | .ok e =>
        let e := e.put (beBytes 2 rr.ty ++ beBytes 2 payload ++ beBytes 4 (optTtlWord ext ver dnssec))
        let li := e.out.length
        let e := e.put [0, 0]
        match encOptions e opts with
        | .error err => .error err
        | .ok e => setLen e li
    | _ => .error (.panic "field/value mismatch")
  | some .apl =>
    match rr.rd with
    | .apl items =>
      match encName e rr.name with
      | .error err => .error err
      | .ok e =>
        let e := e.put (beBytes 2 rr.ty ++ beBytes 2 1 ++ beBytes 4 rr.ttl)
        let li := e.out.length
        let e := e.put [0, 0]
        match encApItems e items with
        | .error err => .error err
        | .ok e => setLen e li
    | _ => .error (.panic "field/value mismatch")
  | some (.svcb _) =>
    match rr.rd with
    | .svcb prio target params =>
      match encName e rr.name with
      | .error err => .error err
      | .ok e =>
        let e := e.put (beBytes 2 rr.ty ++ beBytes 2 1 ++ beBytes 4 rr.ttl)
        let li := e.out.length
        let e := e.put [0, 0]
        let e := e.put (beBytes 2 prio)
        match encName e target with
        | .error err => .error err
        | .ok e =>
          let ps : Except EErr Enc := if prio = 0 then .ok e else encSvcParams e params
          match ps with
          | .error err => .error err
          | .ok e => setLen e li
    | _ => .error (.panic "field/value mismatch")

/-! ## Questions, flags, messages -/

def encQuestion (e : Enc) (q : Question) : Except EErr Enc :=
  match encName e q.name with
  | .error err => .error err
  | .ok e => .ok (e.put (beBytes 2 q.qtype ++ beBytes 2 q.qclass))

def b2n (b : Bool) (n : Nat) : Nat := if b then n else 0

/-- `Encoder::flags`: two `u8` accumulators (`|=`), `opcode << 3` and `rcode` are not masked -/
def flagsBytes (f : Flags) : Bytes :=
  [UInt8.ofNat (b2n f.qr 128 ||| (f.opcode <<< 3) % 256 ||| b2n f.aa 4 ||| b2n f.tc 2 ||| b2n f.rd 1),
   UInt8.ofNat (b2n f.ra 128 ||| b2n f.ad 32 ||| b2n f.cd 16 ||| f.rcode % 256)]

def encCount (e : Enc) (n : Nat) : Except EErr Enc :=
  if n > 65535 then .error .length else .ok (e.put (beBytes 2 n))

def encQuestions (e : Enc) : List Question → Except EErr Enc
  | [] => .ok e
  | o :: r =>
    match encQuestion e o with
    | .error err => .error err
    | .ok e => encQuestions e r

def encRRs (e : Enc) : List RR → Except EErr Enc
  | [] => .ok e
  | o :: r =>
    match encRR e o with
    | .error err => .error err
    | .ok e => encRRs e r

/-- `Encoder::dns` -/
def encMsg (e : Enc) (m : Msg) : Except EErr Enc :=
  let e := e.put (beBytes 2 m.id ++ flagsBytes m.flags)
  match encCount e m.qs.length with
  | .error err => .error err
  | .ok e =>
    match encCount e m.an.length with
    | .error err => .error err
    | .ok e =>
      match encCount e m.ns.length with
      | .error err => .error err
      | .ok e =>
        match encCount e m.ar.length with
        | .error err => .error err
        | .ok e =>
          match encQuestions e m.qs with
          | .error err => .error err
          | .ok e =>
            match encRRs e m.an with
            | .error err => .error err
            | .ok e =>
              match encRRs e m.ns with
              | .error err => .error err
              | .ok e =>
                match encRRs e m.ar with
                | .error err => .error err
                | .ok e => if e.out.length > 65535 then .error .length else .ok e

/-! ## Public entry points (`impl_encode!`: a fresh `Encoder`) -/

def outOf (r : Except EErr Enc) : Except EErr Bytes :=
  match r with
  | .error e => .error e
  | .ok e => .ok e.out

def encodeDns (m : Msg) : Except EErr Bytes := outOf (encMsg {} m)
def encodeRR (rr : RR) : Except EErr Bytes := outOf (encRR {} rr)
def encodeQuestion (q : Question) : Except EErr Bytes := outOf (encQuestion {} q)
def encodeName (n : Name) : Except EErr Bytes := outOf (encName {} n)
def encodeFlags (f : Flags) : Bytes := flagsBytes f
def encodeCode (n : Nat) : Bytes := beBytes 2 n
