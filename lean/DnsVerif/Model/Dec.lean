import DnsVerif.Model.Table

/-! # Model of `src/decode/**`

A decoder is a cursor `off` into the OUTERMOST buffer `buf`, limited to the window `[.., lim)`. A Rust
child `Decoder` owns a `Bytes::slice` of its parent (a sub-range of the outermost buffer) and its
`parent` chain is only ever used to find the outermost buffer, so windows are bounds and offsets are
absolute. `cost` counts the octets handed out by `Decoder::read` / `Decoder::bytes` (the `verif` hook
counts the same). Operations that can panic in Rust are explicit `.panic` outcomes. -/

structure D where
  buf : Bytes
  off : Nat
  lim : Nat
  cost : Nat := 0
  deriving Repr

/-- `Decoder::main` -/
def D.main (b : Bytes) : D := { buf := b, off := 0, lim := b.length }

/-- `Decoder::read`: `offset += length` (checked), bounds check, slice -/
def D.read (d : D) (n : Nat) : Except DErr (Bytes × D) :=
  if 2 ^ 64 ≤ d.off + n then .error (.panic "read: offset += length")
  else if d.off + n ≤ d.lim then
    .ok ((d.buf.drop d.off).take n, { d with off := d.off + n, cost := d.cost + n })
  else .error .notEnoughBytes

/-- `Decoder::u8`: `read(1)` then `buffer[0]` -/
def D.u8 (d : D) : Except DErr (UInt8 × D) :=
  match d.read 1 with
  | .error e => .error e
  | .ok (b, d) =>
    match b with
    | x :: _ => .ok (x, d)
    | [] => .error (.panic "u8: buffer[0]")

/-- `Decoder::u16/u32/u64`: one read of `w` octets, big-endian -/
def D.num (d : D) (w : Nat) : Except DErr (Nat × D) :=
  match d.read w with
  | .error e => .error e
  | .ok (b, d) => .ok (beVal b, d)

/-- `Decoder::bytes` / `vec` (as repaired: an empty remainder is fine) -/
def D.rest (d : D) : Except DErr (Bytes × D) :=
  if d.off ≤ d.lim then
    .ok ((d.buf.drop d.off).take (d.lim - d.off), { d with off := d.lim, cost := d.cost + (d.lim - d.off) })
  else .error .notEnoughBytes

/-- `Decoder::is_finished` -/
def D.isFinished (d : D) : Except DErr Bool :=
  if d.off < d.lim then .ok false
  else if d.off = d.lim then .ok true
  else .error .notEnoughBytes

/-- `Decoder::finished` -/
def D.finished (d : D) : Except DErr Unit :=
  match d.isFinished with
  | .error e => .error e
  | .ok true => .ok ()
  | .ok false => .error .tooManyBytes

/-- `Decoder::string`: length octet, octets, `from_utf8` -/
def D.cstr (d : D) : Except DErr (Bytes × D) :=
  match d.u8 with
  | .error e => .error e
  | .ok (len, d) =>
    match d.read len.toNat with
    | .error e => .error e
    | .ok (s, d) => if validUtf8 s then .ok (s, d) else .error .utf8

/-- `let mut c = self.sub(len)?; let v = f(&mut c)?; c.finished()?;` — the child window is
`[off, off+len)`, the parent continues at `off+len`. -/
def D.withSub {α : Type} (d : D) (len : Nat) (f : D → Except DErr (α × D)) : Except DErr (α × D) :=
  match d.read len with
  | .error e => .error e
  | .ok (_, d') =>
    match f { buf := d.buf, off := d.off, lim := d.off + len, cost := d'.cost } with
    | .error e => .error e
    | .ok (a, c) =>
      match c.finished with
      | .error e => .error e
      | .ok () => .ok (a, { d' with cost := c.cost })

/-! ## Labels and names -/

/-- `check_label` -/
def checkLabel (l : Bytes) : Except DErr Unit :=
  if l.length = 0 then .error .labelEmpty
  else if l.length < 64 then .ok ()
  else .error .labelLength

/-- `DomainName::append_label` (limit as repaired: reject when 255 <= printed length) -/
def appendLabel (n : Name) (l : Label) : Except DErr Name :=
  if 255 ≤ Name.sz n + l.length + 1 then .error .nameLength else .ok (n ++ [l])

/-- `Decoder::domain_name_label` -/
def D.nameLabel (d : D) (name : Name) (len : UInt8) : Except DErr (UInt8 × Name × D) :=
  match d.read len.toNat with
  | .error e => .error e
  | .ok (lab, d) =>
    if !validUtf8 lab then .error .utf8 else
    match checkLabel lab with
    | .error e => .error e
    | .ok () =>
      match appendLabel name lab with
      | .error e => .error e
      | .ok name =>
        match d.u8 with
        | .error e => .error e
        | .ok (l, d) => .ok (l, name, d)

/-- `Decoder::domain_name_recursion` loop (on the outermost buffer); `seen` is the `HashSet` -/
def nameRec : Nat → D → Name → List Nat → UInt8 → Except DErr (Name × Nat)
  | 0, _, _, _, _ => .error .fuel
  | fuel+1, d, name, seen, len =>
    if len = 0 then .ok (name, d.cost)
    else if isPtr len then
      match d.u8 with
      | .error e => .error e
      | .ok (b, d) =>
        let off := ptrOff len b
        if seen.contains off then .error .endlessRecursion
        else if seen.length + 1 > 16 then .error .maxRecursion
        else
          match ({ d with off := off } : D).u8 with
          | .error e => .error e
          | .ok (l, d) => nameRec fuel d name (off :: seen) l
    else
      match d.nameLabel name len with
      | .error e => .error e
      | .ok (l, name, d) => nameRec fuel d name seen l

/-- `Decoder::domain_name` loop (inside the current window) -/
def nameWin : Nat → D → Name → UInt8 → Except DErr (Name × D)
  | 0, _, _, _ => .error .fuel
  | fuel+1, d, name, len =>
    if len = 0 then .ok (name, d)
    else if isPtr len then
      match d.u8 with
      | .error e => .error e
      | .ok (b, d) =>
        let dm : D := { buf := d.buf, off := ptrOff len b, lim := d.buf.length, cost := d.cost }
        match dm.u8 with
        | .error e => .error e
        | .ok (l, dm) =>
          match nameRec 200 dm name [] l with
          | .error e => .error e
          | .ok (name, c) => .ok (name, { d with cost := c })
    else
      match d.nameLabel name len with
      | .error e => .error e
      | .ok (l, name, d) => nameWin fuel d name l

def D.name (d : D) : Except DErr (Name × D) :=
  match d.u8 with
  | .error e => .error e
  | .ok (l, d) => nameWin 200 d [] l

/-! ## Regular fields -/

/-- `reads` reads of `chunk` octets (IPv4: 1x4, IPv6: 8x2, EUI: 6x1 / 8x1) -/
def D.octs : Nat → Nat → D → Except DErr (Bytes × D)
  | 0, _, d => .ok ([], d)
  | k+1, chunk, d =>
    match d.read chunk with
    | .error e => .error e
    | .ok (b, d) =>
      match D.octs k chunk d with
      | .error e => .error e
      | .ok (r, d) => .ok (b ++ r, d)

/-- `while !self.is_finished()? { v.push(self.string()?) }`; fuel = window length + 1 -/
def D.cstrs : Nat → D → Except DErr (List Bytes × D)
  | 0, _ => .error .fuel
  | fuel+1, d =>
    match d.isFinished with
    | .error e => .error e
    | .ok true => .ok ([], d)
    | .ok false =>
      match d.cstr with
      | .error e => .error e
      | .ok (s, d) =>
        match D.cstrs fuel d with
        | .error e => .error e
        | .ok (r, d) => .ok (s :: r, d)

def decField (d : D) : Fld → Except DErr (FVal × D)
  | .num w =>
    match d.num w with
    | .error e => .error e
    | .ok (n, d) => .ok (.num n, d)
  | .enum w id =>
    match d.num w with
    | .error e => .error e
    | .ok (n, d) => if id.valid n then .ok (.num n, d) else .error (id.err n)
  | .name _ =>
    match d.name with
    | .error e => .error e
    | .ok (n, d) => .ok (.name n, d)
  | .cstr c =>
    match d.cstr with
    | .error e => .error e
    | .ok (s, d) =>
      match c.run s with
      | .error e => .error e
      | .ok s => .ok (.bytes s, d)
  | .ocstr c =>
    match d.isFinished with
    | .error e => .error e
    | .ok true => .ok (.obytes none, d)
    | .ok false =>
      match d.cstr with
      | .error e => .error e
      | .ok (s, d) =>
        match c.run s with
        | .error e => .error e
        | .ok s => .ok (.obytes (some s), d)
  | .strs =>
    match D.cstrs (d.lim - d.off + 1) d with
    | .error e => .error e
    | .ok (l, d) => if l.isEmpty then .error .txtEmpty else .ok (.strs l, d)
  | .rest u =>
    match d.rest with
    | .error e => .error e
    | .ok (b, d) => if u && !validUtf8 b then .error .utf8 else .ok (.bytes b, d)
  | .oct k c =>
    match D.octs k c d with
    | .error e => .error e
    | .ok (b, d) => .ok (.bytes b, d)

def decFields (d : D) : List Fld → Except DErr (List FVal × D)
  | [] => .ok ([], d)
  | f :: fs =>
    match decField d f with
    | .error e => .error e
    | .ok (v, d) =>
      match decFields d fs with
      | .error e => .error e
      | .ok (vs, d) => .ok (v :: vs, d)

/-! ## Address prefixes (APL items, ECS) -/

/-- `check_ipv4_addr` / `check_ipv6_addr`, generic over the octet list -/
def checkPrefix (octets : Bytes) (p : Nat) : Except DErr Unit :=
  let bits := 8 * octets.length
  let v4 := octets.length = 4
  if bits < p then .error (if v4 then .addr4Prefix else .addr6Prefix)
  else if bits = p then .ok ()
  else
    match octets[p / 8]? with          -- Rust: `octects[index]`, panics when out of bounds
    | none => .error (.panic "check_prefix: octects[index]")
    | some o =>
      if (o &&& ((0xFF : UInt8) >>> UInt8.ofNat (p % 8))) != 0 then .error (if v4 then .addr4Mask else .addr6Mask)
      else if (octets.drop (p / 8 + 1)).all (· == 0) then .ok ()
      else .error (if v4 then .addr4Mask else .addr6Mask)

def famSize (fam : Nat) : Nat := if fam = 1 then 4 else 16

/-- `rr_address_family_number` -/
def D.family (d : D) : Except DErr (Nat × D) :=
  match d.num 2 with
  | .error e => .error e
  | .ok (n, d) => if inTable Gen.enumAddressFamilyNumber n then .ok (n, d) else .error (.ecsAddressNumber n)

/-- `rr_address`: rest of the window, size guard, zero fill (`octects[0..len].copy_from_slice`) -/
def D.address (d : D) (fam : Nat) : Except DErr (Bytes × D) :=
  match d.rest with
  | .error e => .error e
  | .ok (b, d) =>
    if famSize fam < b.length then .error (if fam = 1 then .ecsTooBig4 else .ecsTooBig6)
    else if b.length ≤ famSize fam then .ok (b ++ List.replicate (famSize fam - b.length) 0, d)
    else .error (.panic "rr_address: octects[0..len].copy_from_slice")

/-! ## EDNS options -/

/-- `Cookie::new` / `set_server_cookie` -/
def cookieNew (client : Bytes) (server : Option Bytes) : Except DErr EdnsOpt :=
  match server with
  | none => .ok (.cookie client none)
  | some s => if 8 ≤ s.length ∧ s.length ≤ 32 then .ok (.cookie client (some s)) else .error .cookieServerLength

/-- `ECS::new` -/
def ecsNew (fam src scope : Nat) (addr : Bytes) : Except DErr EdnsOpt :=
  match checkPrefix addr (max src scope) with
  | .error e => .error e
  | .ok () => .ok (.ecs fam src scope addr)

def decEcs (d : D) : Except DErr (EdnsOpt × D) :=
  match d.family with
  | .error e => .error e
  | .ok (fam, d) =>
    match d.num 1 with
    | .error e => .error e
    | .ok (src, d) =>
      match d.num 1 with
      | .error e => .error e
      | .ok (scope, d) =>
        match d.address fam with
        | .error e => .error e
        | .ok (addr, d) =>
          match ecsNew fam src scope addr with
          | .error e => .error e
          | .ok o => .ok (o, d)

def decCookie (d : D) : Except DErr (EdnsOpt × D) :=
  match d.rest with
  | .error e => .error e
  | .ok (v, d) =>
    if v.length = 8 then
      if v.length < 8 then .error (.panic "cookie: vec[0..8]") else
      match cookieNew (v.take 8) none with
      | .error e => .error e
      | .ok o => .ok (o, d)
    else if 16 ≤ v.length ∧ v.length ≤ 40 then
      if v.length < 8 then .error (.panic "cookie: vec[0..8]") else
      match cookieNew (v.take 8) (some (v.drop 8)) with
      | .error e => .error e
      | .ok o => .ok (o, d)
    else .error .cookieLength

def decPadding (d : D) : Except DErr (EdnsOpt × D) :=
  match d.rest with
  | .error e => .error e
  | .ok (v, d) =>
    if 65535 < v.length then .error .paddingLength
    else if v.all (· == 0) then .ok (.padding v.length, d) else .error .paddingZero

def decOption (d : D) : Except DErr (EdnsOpt × D) :=
  match d.num 2 with
  | .error e => .error e
  | .ok (code, d) =>
    if !inTable Gen.enumEDNSOptionCode code then .error (.ednsOptionCode code) else
    match d.num 2 with
    | .error e => .error e
    | .ok (len, d) =>
      d.withSub len (fun c =>
        if code = 8 then decEcs c else if code = 10 then decCookie c else decPadding c)

def decOptions : Nat → D → Except DErr (List EdnsOpt × D)
  | 0, _ => .error .fuel
  | fuel+1, d =>
    match d.isFinished with
    | .error e => .error e
    | .ok true => .ok ([], d)
    | .ok false =>
      match decOption d with
      | .error e => .error e
      | .ok (o, d) =>
        match decOptions fuel d with
        | .error e => .error e
        | .ok (r, d) => .ok (o :: r, d)

/-- `rr_opt_ttl` -/
def optTtl (ttl : Nat) : Except DErr (Nat × Nat × Bool) :=
  let ext := (ttl >>> 24) &&& 0xff
  let ver := (ttl >>> 16) &&& 0xff
  let b := (ttl >>> 8) &&& 0xff
  if b ≠ 0 ∧ b ≠ 0x80 then .error .optZero
  else if ttl &&& 0xff ≠ 0 then .error .optZero
  else .ok (ext, ver, b == 0x80)

/-! ## APL -/

def apItemNew (fam pfx : Nat) (neg : Bool) (addr : Bytes) : Except DErr APItem :=
  match checkPrefix addr pfx with
  | .error e => .error e
  | .ok () => .ok { fam := fam, pfx := pfx, neg := neg, addr := addr }

def decApItem (d : D) : Except DErr (APItem × D) :=
  match d.family with
  | .error e => .error e
  | .ok (fam, d) =>
    match d.num 1 with
    | .error e => .error e
    | .ok (pfx, d) =>
      match d.num 1 with
      | .error e => .error e
      | .ok (b, d) =>
        let neg := (b &&& 128) == 128
        let alen := b &&& 127
        match d.withSub alen (fun c => c.address fam) with
        | .error e => .error e
        | .ok (addr, d) =>
          match apItemNew fam pfx neg addr with
          | .error e => .error e
          | .ok it => .ok (it, d)

def decApItems : Nat → D → Except DErr (List APItem × D)
  | 0, _ => .error .fuel
  | fuel+1, d =>
    match d.isFinished with
    | .error e => .error e
    | .ok true => .ok ([], d)
    | .ok false =>
      match decApItem d with
      | .error e => .error e
      | .ok (o, d) =>
        match decApItems fuel d with
        | .error e => .error e
        | .ok (r, d) => .ok (o :: r, d)

/-! ## SVCB / HTTPS -/

def D.nums16 : Nat → D → Except DErr (List Nat × D)
  | 0, _ => .error .fuel
  | fuel+1, d =>
    match d.isFinished with
    | .error e => .error e
    | .ok true => .ok ([], d)
    | .ok false =>
      match d.num 2 with
      | .error e => .error e
      | .ok (n, d) =>
        match D.nums16 fuel d with
        | .error e => .error e
        | .ok (r, d) => .ok (n :: r, d)

/-- `while !is_finished { hints.push(ipv4_addr / ipv6_addr) }` -/
def D.hints : Nat → Nat → Nat → D → Except DErr (List Bytes × D)
  | 0, _, _, _ => .error .fuel
  | fuel+1, k, c, d =>
    match d.isFinished with
    | .error e => .error e
    | .ok true => .ok ([], d)
    | .ok false =>
      match D.octs k c d with
      | .error e => .error e
      | .ok (h, d) =>
        match D.hints fuel k c d with
        | .error e => .error e
        | .ok (r, d) => .ok (h :: r, d)

/-- `rr_service_parameter` -/
def decSvcParam (key : Nat) (d : D) : Except DErr (SvcParam × D) :=
  let fuel := d.lim - d.off + 1
  if key = 0 then
    match D.nums16 fuel d with
    | .error e => .error e
    | .ok (ks, d) => .ok (.mandatory ks, d)
  else if key = 1 then
    match D.cstrs fuel d with
    | .error e => .error e
    | .ok (ids, d) => .ok (.alpn ids, d)
  else if key = 2 then .ok (.noDefaultAlpn, d)
  else if key = 3 then
    match d.num 2 with
    | .error e => .error e
    | .ok (p, d) => .ok (.port p, d)
  else if key = 4 then
    match D.hints fuel 1 4 d with
    | .error e => .error e
    | .ok (hs, d) => .ok (.ipv4hint hs, d)
  else if key = 5 then
    match d.num 2 with
    | .error e => .error e
    | .ok (len, d) =>
      match d.rest with
      | .error e => .error e
      | .ok (b, d) => if b.length ≠ len then .error .echLengthMismatch else .ok (.ech b, d)
  else if key = 6 then
    match D.hints fuel 8 2 d with
    | .error e => .error e
    | .ok (hs, d) => .ok (.ipv6hint hs, d)
  else if key = 65535 then .ok (.key65535, d)
  else
    match d.rest with
    | .error e => .error e
    | .ok (b, d) => .ok (.priv key b, d)

/-- `BTreeSet::insert` on a list sorted by key: `none` when the key is present -/
def insertParam (p : SvcParam) : List SvcParam → Option (List SvcParam)
  | [] => some [p]
  | q :: r =>
    if p.key < q.key then some (p :: q :: r)
    else if p.key = q.key then none
    else match insertParam p r with
      | none => none
      | some r' => some (q :: r')

def decSvcParams : Nat → D → List SvcParam → Except DErr (List SvcParam × D)
  | 0, _, _ => .error .fuel
  | fuel+1, d, acc =>
    match d.isFinished with
    | .error e => .error e
    | .ok true => .ok (acc, d)
    | .ok false =>
      match d.num 2 with
      | .error e => .error e
      | .ok (key, d) =>
        match d.num 2 with
        | .error e => .error e
        | .ok (len, d) =>
          match d.withSub len (decSvcParam key) with
          | .error e => .error e
          | .ok (p, d) =>
            match insertParam p acc with
            | none => .error (.svcbDuplicateKey key)
            | some acc => decSvcParams fuel d acc

/-! ## Records -/

/-- `Header::get_class` followed by the IN-only check of A / AAAA / WKS / APL / SVCB / HTTPS -/
def checkClass (cls : Nat) (inOnly : Option (Nat → DErr)) : Except DErr Unit :=
  if !classKnown cls then .error (.class_ cls)
  else match inOnly with
    | none => .ok ()
    | some e => if cls = 1 then .ok () else .error (e cls)

/-- the body of one record inside its RDATA window -/
def decRData (name : Name) (ty cls ttl : Nat) (c : D) : Except DErr (RR × D) :=
  match rrKind ty with
  | none => .error (.notYetImplemented ty)
  | some (.regular info) =>
    match checkClass cls info.inOnly with
    | .error e => .error e
    | .ok () =>
      match decFields c (info.flds.map (·.2)) with
      | .error e => .error e
      | .ok (vs, c) => .ok ({ name := name, ty := ty, cls := cls, ttl := ttl, rd := .fields vs }, c)
  | some .opt =>
    if name ≠ [] then .error .optDomainName else
    match optTtl ttl with
    | .error e => .error e
    | .ok (ext, ver, dnssec) =>
      match decOptions (c.lim - c.off + 1) c with
      | .error e => .error e
      | .ok (opts, c) => .ok ({ name := [], ty := ty, cls := 0, ttl := 0, rd := .opt cls ext ver dnssec opts }, c)
  | some .apl =>
    match checkClass cls (some .aplClass) with
    | .error e => .error e
    | .ok () =>
      match decApItems (c.lim - c.off + 1) c with
      | .error e => .error e
      | .ok (items, c) => .ok ({ name := name, ty := ty, cls := cls, ttl := ttl, rd := .apl items }, c)
  | some (.svcb _) =>
    match checkClass cls (some .svcbClass) with
    | .error e => .error e
    | .ok () =>
      match c.num 2 with
      | .error e => .error e
      | .ok (prio, c) =>
        match c.name with
        | .error e => .error e
        | .ok (target, c) =>
          if prio = 0 then
            .ok ({ name := name, ty := ty, cls := cls, ttl := ttl, rd := .svcb prio target [] }, c)
          else
            match decSvcParams (c.lim - c.off + 1) c [] with
            | .error e => .error e
            | .ok (ps, c) => .ok ({ name := name, ty := ty, cls := cls, ttl := ttl, rd := .svcb prio target ps }, c)

/-- `Decoder::rr` -/
def decRR (d : D) : Except DErr (RR × D) :=
  match d.name with
  | .error e => .error e
  | .ok (name, d) =>
    match d.num 2 with
    | .error e => .error e
    | .ok (ty, d) =>
      if !typeKnown ty then .error (.type ty) else
      match d.num 2 with
      | .error e => .error e
      | .ok (cls, d) =>
        match d.num 4 with
        | .error e => .error e
        | .ok (ttl, d) =>
          match d.num 2 with
          | .error e => .error e
          | .ok (rdlen, d) => d.withSub rdlen (decRData name ty cls ttl)

/-! ## Questions, flags, messages -/

def decQuestion (d : D) : Except DErr (Question × D) :=
  match d.name with
  | .error e => .error e
  | .ok (name, d) =>
    match d.num 2 with
    | .error e => .error e
    | .ok (qt, d) =>
      if !qtypeKnown qt then .error (.qtype qt) else
      match d.num 2 with
      | .error e => .error e
      | .ok (qc, d) =>
        if !qclassKnown qc then .error (.qclass qc) else
        .ok ({ name := name, qtype := qt, qclass := qc }, d)

/-- `Decoder::flags` (the opcode is checked before the second octet is read) -/
def decFlags (d : D) : Except DErr (Flags × D) :=
  match d.num 1 with
  | .error e => .error e
  | .ok (b1, d) =>
    let opcode := (b1 &&& 0b01111000) >>> 3
    if !opcodeKnown opcode then .error (.opcode opcode) else
    match d.num 1 with
    | .error e => .error e
    | .ok (b2, d) =>
      if b2 &&& 0b01000000 ≠ 0 then .error .zNotZeroes else
      let rcode := b2 &&& 0b00001111
      if !rcodeKnown rcode then .error (.rcode rcode) else
      .ok ({ qr := b1 &&& 0b10000000 ≠ 0, opcode := opcode, aa := b1 &&& 0b100 ≠ 0, tc := b1 &&& 0b10 ≠ 0,
             rd := b1 &&& 1 ≠ 0, ra := b2 &&& 0b10000000 ≠ 0, ad := b2 &&& 0b00100000 ≠ 0,
             cd := b2 &&& 0b00010000 ≠ 0, rcode := rcode }, d)

def decQuestions : Nat → D → Except DErr (List Question × D)
  | 0, d => .ok ([], d)
  | k+1, d =>
    match decQuestion d with
    | .error e => .error e
    | .ok (q, d) =>
      match decQuestions k d with
      | .error e => .error e
      | .ok (r, d) => .ok (q :: r, d)

def decRRs : Nat → D → Except DErr (List RR × D)
  | 0, d => .ok ([], d)
  | k+1, d =>
    match decRR d with
    | .error e => .error e
    | .ok (q, d) =>
      match decRRs k d with
      | .error e => .error e
      | .ok (r, d) => .ok (q :: r, d)

/-- `Decoder::dns` -/
def decMsg (d : D) : Except DErr (Msg × D) :=
  if d.off ≠ 0 then .error .offset
  else if d.lim < 12 then .error .notEnoughBytes
  else if 65536 < d.lim then .error .dnsPacketTooBig
  else
    match d.num 2 with
    | .error e => .error e
    | .ok (id, d) =>
      match decFlags d with
      | .error e => .error e
      | .ok (flags, d) =>
        match d.num 2 with
        | .error e => .error e
        | .ok (qd, d) =>
          match d.num 2 with
          | .error e => .error e
          | .ok (an, d) =>
            match d.num 2 with
            | .error e => .error e
            | .ok (ns, d) =>
              match d.num 2 with
              | .error e => .error e
              | .ok (ar, d) =>
                match decQuestions qd d with
                | .error e => .error e
                | .ok (qs, d) =>
                  match decRRs an d with
                  | .error e => .error e
                  | .ok (ans, d) =>
                    match decRRs ns d with
                    | .error e => .error e
                    | .ok (nss, d) =>
                      match decRRs ar d with
                      | .error e => .error e
                      | .ok (ars, d) =>
                        match d.isFinished with
                        | .error e => .error e
                        | .ok false => .error .remainingBytes
                        | .ok true =>
                          .ok ({ id := id, flags := flags, qs := qs, an := ans, ns := nss, ar := ars }, d)

/-! ## The nine public entry points (`impl_decode!`: a fresh `Decoder::main`) -/

def decodeDns (b : Bytes) : Except DErr (Msg × D) := decMsg (D.main b)
def decodeFlags (b : Bytes) : Except DErr (Flags × D) := decFlags (D.main b)
def decodeQuestion (b : Bytes) : Except DErr (Question × D) := decQuestion (D.main b)
def decodeRR (b : Bytes) : Except DErr (RR × D) := decRR (D.main b)
def decodeName (b : Bytes) : Except DErr (Name × D) := (D.main b).name

def decCode (known : Nat → Bool) (err : Nat → DErr) (d : D) : Except DErr (Nat × D) :=
  match d.num 2 with
  | .error e => .error e
  | .ok (n, d) => if known n then .ok (n, d) else .error (err n)

def decodeType (b : Bytes) : Except DErr (Nat × D) := decCode typeKnown .type (D.main b)
def decodeClass (b : Bytes) : Except DErr (Nat × D) := decCode classKnown .class_ (D.main b)
def decodeQType (b : Bytes) : Except DErr (Nat × D) := decCode qtypeKnown .qtype (D.main b)
def decodeQClass (b : Bytes) : Except DErr (Nat × D) := decCode qclassKnown .qclass (D.main b)
