import DnsVerif.Prim
import DnsVerif.Generated.Enums

/-! # Value types and error kinds of the model

One constructor per `DecodeError` / `EncodeError` variant (payloads only where the correspondence
check compares them), plus explicit `panic` outcomes and the `fuel` outcome of the name loop (both
proved unreachable). Values are generic: a record is a type code plus a list of field values that is
interpreted against `rrTable` (Model/Table.lean); OPT, APL and SVCB/HTTPS have explicit bodies. -/

inductive DErr
  | notEnoughBytes | tooManyBytes | dnsPacketTooBig
  | opcode (n : Nat) | zNotZeroes | rcode (n : Nat) | type (n : Nat) | class_ (n : Nat)
  | qtype (n : Nat) | qclass (n : Nat) | utf8 | labelLength | labelEmpty | nameLength
  | notYetImplemented (n : Nat) | offset | aClass (n : Nat) | wksClass (n : Nat) | txtEmpty
  | afsdbSubtype (n : Nat) | psdn | isdn | isdnSA | gpos | aaaaClass (n : Nat)
  | optDomainName | optZero | ednsOptionCode (n : Nat)
  | addr4Prefix | addr4Mask | addr6Prefix | addr6Mask | aplClass (n : Nat) | cookieServerLength
  | ecsAddressNumber (n : Nat) | ecsTooBig4 | ecsTooBig6 | cookieLength
  | sshfpAlgorithm (n : Nat) | sshfpType (n : Nat) | algorithmType (n : Nat) | digestType (n : Nat)
  | dnskeyZeroFlags (n : Nat) | dnskeyProtocol (n : Nat) | maxRecursion | endlessRecursion
  | remainingBytes | paddingZero | paddingLength | tagEmpty | tagIllegal | echLengthMismatch
  | svcbClass (n : Nat) | svcbDuplicateKey (n : Nat)
  | panic (site : String) | fuel
  deriving Repr, DecidableEq

inductive EErr
  | string | length | notEnoughBytes | compression | maxRecursion | aplAddressLength
  | panic (site : String)
  deriving Repr, DecidableEq

/-! ## Field language of the regular record types -/

/-- validated one- or two-octet code points; `valid`/`err` in Model/Table.lean -/
inductive EnumId
  | afsdbSubtype | sshfpAlgorithm | sshfpType | algorithmType | digestType | dnskeyFlags | dnskeyProtocol
  deriving Repr, DecidableEq

/-- validators applied to a character-string after the UTF-8 check -/
inductive StrCheck | any | psdn | isdn | sa | gpos | tag
  deriving Repr, DecidableEq

inductive Fld
  | num (w : Nat)                     -- big-endian unsigned, `w` octets, one read
  | enum (w : Nat) (id : EnumId)      -- the same, validated
  | name (compress : Bool)            -- domain name; `compress` = may the encoder compress it
  | cstr (c : StrCheck)               -- <character-string>: length octet + UTF-8 octets
  | ocstr (c : StrCheck)              -- optional trailing <character-string> (ISDN sa)
  | strs                              -- one or more <character-string> up to the window end (TXT)
  | rest (utf8 : Bool)                -- everything up to the window end
  | oct (reads chunk : Nat)           -- `reads * chunk` octets, read as `reads` reads of `chunk`
  deriving Repr, DecidableEq

inductive FVal
  | num (n : Nat)
  | name (n : Name)
  | bytes (b : Bytes)
  | obytes (b : Option Bytes)
  | strs (l : List Bytes)
  deriving Repr, DecidableEq

/-! ## Irregular bodies -/

inductive EdnsOpt
  | ecs (fam src scope : Nat) (addr : Bytes)       -- addr = all 4 / 16 octets
  | cookie (client : Bytes) (server : Option Bytes)
  | padding (n : Nat)
  deriving Repr, DecidableEq

structure APItem where
  fam : Nat
  pfx : Nat
  neg : Bool
  addr : Bytes
  deriving Repr, DecidableEq

inductive SvcParam
  | mandatory (keys : List Nat)
  | alpn (ids : List Bytes)
  | noDefaultAlpn
  | port (p : Nat)
  | ipv4hint (hs : List Bytes)
  | ech (b : Bytes)
  | ipv6hint (hs : List Bytes)
  | priv (key : Nat) (b : Bytes)
  | key65535
  deriving Repr, DecidableEq

/-- `ServiceParameter::get_registered_number` -/
def SvcParam.key : SvcParam → Nat
  | .mandatory _ => 0 | .alpn _ => 1 | .noDefaultAlpn => 2 | .port _ => 3 | .ipv4hint _ => 4
  | .ech _ => 5 | .ipv6hint _ => 6 | .priv k _ => k | .key65535 => 65535

inductive RData
  | fields (vs : List FVal)
  | opt (payload ext ver : Nat) (dnssec : Bool) (opts : List EdnsOpt)
  | apl (items : List APItem)
  | svcb (prio : Nat) (target : Name) (params : List SvcParam)
  deriving Repr, DecidableEq

/-- For OPT `name`, `cls`, `ttl` are `[]`, `0`, `0` (the wire fields live in `RData.opt`). -/
structure RR where
  name : Name
  ty : Nat
  cls : Nat
  ttl : Nat
  rd : RData
  deriving Repr, DecidableEq

structure Question where
  name : Name
  qtype : Nat
  qclass : Nat
  deriving Repr, DecidableEq

structure Flags where
  qr : Bool
  opcode : Nat
  aa : Bool
  tc : Bool
  rd : Bool
  ra : Bool
  ad : Bool
  cd : Bool
  rcode : Nat
  deriving Repr, DecidableEq

structure Msg where
  id : Nat
  flags : Flags
  qs : List Question
  an : List RR
  ns : List RR
  ar : List RR
  deriving Repr, DecidableEq

/-! ## Code tables (membership in the regenerated enum tables) -/

def inTable (t : List (String × Nat)) (n : Nat) : Bool := t.any (fun p => p.2 == n)

def typeKnown (n : Nat) : Bool := inTable Gen.enumType n
def classKnown (n : Nat) : Bool := inTable Gen.enumClass n
def qtypeKnown (n : Nat) : Bool := inTable Gen.enumQType n
def qclassKnown (n : Nat) : Bool := inTable Gen.enumQClass n
def opcodeKnown (n : Nat) : Bool := inTable Gen.enumOpcode n
def rcodeKnown (n : Nat) : Bool := inTable Gen.enumRCode n
