import DnsVerif.Model.Dec

/-! # Model of the validated value types (C12) and of the text form of names (C13)

`src/label.rs`, `src/domain_name.rs` (FromStr / Display / len / append_label),
`src/rr/edns/rfc_7871.rs` (ECS and its `setter!` macro), `src/rr/rfc_3123.rs` (APItem),
`src/rr/edns/rfc_7873.rs` (Cookie), `src/rr/subtypes.rs` (NonEmptyVec), the `TryFrom<String>`
validators of Tag / PSDNAddress / ISDNAddress / SA. Strings are their UTF-8 octets. -/

/-! ## Text form of names -/

def dot : UInt8 := 46

/-- `impl Display for DomainName` -/
def display (n : Name) : Bytes :=
  if n = [] then [dot] else n.flatMap (fun l => l ++ [dot])

/-- `DomainName::len` -/
def Name.len (n : Name) : Nat :=
  if n = [] then 1 else n.length + (n.map List.length).sum

/-- `str::split('.')` -/
def splitDot : Bytes → List Bytes
  | [] => [[]]
  | b :: r =>
    if b = dot then [] :: splitDot r
    else match splitDot r with
      | h :: t => (b :: h) :: t
      | [] => [[b]]

/-- `Label::from_str` / `Label::try_from` -/
def parseLabel (l : Bytes) : Except DErr Label :=
  match checkLabel l with
  | .error e => .error e
  | .ok () => .ok l

def parseLabels : Name → List Bytes → Except DErr Name
  | acc, [] => .ok acc
  | acc, s :: rest =>
    match parseLabel s with
    | .error e => .error e
    | .ok l =>
      match appendLabel acc l with
      | .error e => .error e
      | .ok acc => parseLabels acc rest

/-- `strip_suffix('.')` -/
def stripDot (s : Bytes) : Bytes :=
  match s.getLast? with
  | some b => if b = dot then s.dropLast else s
  | none => s

/-- `impl FromStr for DomainName` (with the root repair) -/
def parseName (s : Bytes) : Except DErr Name :=
  if s = [dot] then .ok [] else parseLabels [] (splitDot (stripDot s))

/-! ## ECS -/

structure ECS where
  src : Nat
  scope : Nat
  addr : Bytes          -- 4 or 16 octets
  deriving Repr, DecidableEq

def ECS.checkAddr (s : ECS) : Except DErr Unit := checkPrefix s.addr (max s.src s.scope)

def ECS.new (src scope : Nat) (addr : Bytes) : Except DErr ECS :=
  let s : ECS := ⟨src, scope, addr⟩
  match s.checkAddr with
  | .ok () => .ok s
  | .error e => .error e

inductive EcsOp
  | setSrc (v : Nat) | setScope (v : Nat) | setAddr (a : Bytes)
  deriving Repr

/-- the `setter!` macro: assign, check, restore the previous value on error -/
def ECS.step (s : ECS) : EcsOp → ECS × Except DErr Unit
  | .setSrc v =>
    let prev := s.src
    let s' := { s with src := v }
    match s'.checkAddr with
    | .ok () => (s', .ok ())
    | .error e => ({ s' with src := prev }, .error e)
  | .setScope v =>
    let prev := s.scope
    let s' := { s with scope := v }
    match s'.checkAddr with
    | .ok () => (s', .ok ())
    | .error e => ({ s' with scope := prev }, .error e)
  | .setAddr a =>
    let prev := s.addr
    let s' := { s with addr := a }
    match s'.checkAddr with
    | .ok () => (s', .ok ())
    | .error e => ({ s' with addr := prev }, .error e)

/-! ## APItem (check before assign; `negation` is a public field) -/

inductive ApOp
  | setPrefix (v : Nat) | setNeg (b : Bool) | setAddr (a : Bytes)
  deriving Repr

def APItem.new (pfx : Nat) (neg : Bool) (addr : Bytes) : Except DErr APItem :=
  apItemNew (if addr.length = 4 then 1 else 2) pfx neg addr

def APItem.step (s : APItem) : ApOp → APItem × Except DErr Unit
  | .setPrefix v =>
    match checkPrefix s.addr v with
    | .ok () => ({ s with pfx := v }, .ok ())
    | .error e => (s, .error e)
  | .setNeg b => ({ s with neg := b }, .ok ())
  | .setAddr a =>
    match checkPrefix a s.pfx with
    | .ok () => ({ s with addr := a, fam := if a.length = 4 then 1 else 2 }, .ok ())
    | .error e => (s, .error e)

/-! ## Cookie (`client_cookie` is a public field) -/

structure Cookie where
  client : Bytes
  server : Option Bytes
  deriving Repr, DecidableEq

inductive CookieOp
  | setServer (s : Option Bytes) | setClient (c : Bytes)
  deriving Repr

def Cookie.step (s : Cookie) : CookieOp → Cookie × Except DErr Unit
  | .setServer none => ({ s with server := none }, .ok ())
  | .setServer (some v) =>
    if 8 ≤ v.length ∧ v.length ≤ 32 then ({ s with server := some v }, .ok ())
    else (s, .error .cookieServerLength)
  | .setClient c => ({ s with client := c }, .ok ())

def Cookie.new (client : Bytes) (server : Option Bytes) : Except DErr Cookie :=
  match (Cookie.step ⟨client, none⟩ (.setServer server)) with
  | (s, .ok ()) => .ok s
  | (_, .error e) => .error e

/-! ## DomainName built by `append_label` -/

/-- one `Label::try_from` + `append_label` step; on error the name is unchanged -/
def nameStep (n : Name) (l : Bytes) : Name × Except DErr Unit :=
  match parseLabel l with
  | .error e => (n, .error e)
  | .ok l =>
    match appendLabel n l with
    | .error e => (n, .error e)
    | .ok n' => (n', .ok ())

/-! ## NonEmptyVec (`src/rr/subtypes.rs`; used for the TXT strings) -/

structure NEV (α : Type) where
  items : List α
  deriving Repr

/-- `impl TryFrom<Vec<T>> for NonEmptyVec<T>`: fails exactly on the empty vector -/
def NEV.new {α : Type} (l : List α) : Except DErr (NEV α) :=
  match l with
  | [] => .error .txtEmpty
  | _ :: _ => .ok ⟨l⟩

/-- the documented constraint: the list is not empty -/
def NEV.Inv {α : Type} (v : NEV α) : Prop := v.items ≠ []

/-- `impl From<NonEmptyVec<T>> for Vec<T>` -/
def NEV.toList {α : Type} (v : NEV α) : List α := v.items
