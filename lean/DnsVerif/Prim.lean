/-! # Primitive vocabulary shared by the model and the specification

Bytes, names, ASCII case, big-endian numbers, UTF-8 validity (as a DFA over octets), compression
pointer arithmetic. Core Lean only (no imports), so that the driver links as an executable. -/

abbrev Bytes := List UInt8
abbrev Label := Bytes
abbrev Name := List Label

/-- `∀ b : UInt8, P b` is decidable for decidable `P` (core has no such instance). -/
instance decForallUInt8 (P : UInt8 → Prop) [DecidablePred P] : Decidable (∀ b, P b) :=
  decidable_of_iff (∀ i : Fin 256, P (UInt8.ofNat i.val))
    ⟨fun h b => by
        have := h ⟨b.toNat, b.toNat_lt⟩
        simpa using this,
     fun h i => h _⟩

theorem UInt8.ofNat_toNat_lt {n : Nat} (h : n < 256) : (UInt8.ofNat n).toNat = n := by
  simp [UInt8.toNat_ofNat']; omega

/-! ## Names -/

/-- sum of (len+1) over labels = printed length of a non-root name = wire length - 1 -/
def Name.sz (n : Name) : Nat := (n.map (fun l => l.length + 1)).sum

theorem Name.sz_append (a b : Name) : Name.sz (a ++ b) = Name.sz a + Name.sz b := by
  simp [Name.sz]
theorem Name.sz_cons (l : Label) (r : Name) : Name.sz (l :: r) = l.length + 1 + Name.sz r := by
  simp [Name.sz]
@[simp] theorem Name.sz_nil : Name.sz [] = 0 := rfl

/-- uncompressed wire form: length octet + octets per label, then the root octet -/
def Name.wire : Name → Bytes
  | [] => [0]
  | l :: r => UInt8.ofNat l.length :: (l ++ Name.wire r)

def lowerB (b : UInt8) : UInt8 := if 65 ≤ b.toNat ∧ b.toNat ≤ 90 then b + 32 else b
def Label.lower (l : Label) : Label := l.map lowerB
def Name.lower (n : Name) : Name := n.map Label.lower
/-- `DomainName == DomainName` (as repaired: ASCII case only) -/
def ciEq (a b : Name) : Bool := a.lower == b.lower

def wfLabel (l : Label) : Prop := 1 ≤ l.length ∧ l.length ≤ 63
def wfName (n : Name) : Prop := ∀ l ∈ n, wfLabel l

/-! ## ASCII classes (Rust `u8`/`char` predicates restricted to one octet) -/

def isDigitB (b : UInt8) : Bool := 48 ≤ b.toNat && b.toNat ≤ 57
def isUpperB (b : UInt8) : Bool := 65 ≤ b.toNat && b.toNat ≤ 90
def isLowerB (b : UInt8) : Bool := 97 ≤ b.toNat && b.toNat ≤ 122
def isHexDigitB (b : UInt8) : Bool :=
  isDigitB b || (65 ≤ b.toNat && b.toNat ≤ 70) || (97 ≤ b.toNat && b.toNat ≤ 102)
def isAlnumB (b : UInt8) : Bool := isDigitB b || isUpperB b || isLowerB b

/-! ## Big-endian numbers -/

/-- big-endian, `w` octets -/
def beBytes : Nat → Nat → Bytes
  | 0, _ => []
  | w + 1, n => UInt8.ofNat (n / 256 ^ w % 256) :: beBytes w n

@[simp] theorem beBytes_length (w n : Nat) : (beBytes w n).length = w := by
  induction w with
  | zero => rfl
  | succ w ih => simp [beBytes, ih]

/-- value of a big-endian octet string -/
def beVal (b : Bytes) : Nat := b.foldl (fun acc x => acc * 256 + x.toNat) 0

/-! ## Compression pointers -/

def ptrOff (a b : UInt8) : Nat := (a.toNat % 64) * 256 + b.toNat
def isPtr (b : UInt8) : Bool := 192 ≤ b.toNat
def ptrBytes (off : Nat) : Bytes := [UInt8.ofNat (192 + off / 256), UInt8.ofNat (off % 256)]

/-! ## Buffers -/

/-- overwrite `x.length` octets of `buf` at `i` -/
def patch (buf : Bytes) (i : Nat) (x : Bytes) : Bytes := buf.take i ++ x ++ buf.drop (i + x.length)

/-! ## UTF-8 well-formedness (Unicode Table 3-7; what `std::str::from_utf8` accepts)

states: 0 start/accept, 1 one continuation left, 2 two left, 3 after E0, 4 after ED,
5 three left, 6 after F0, 7 after F4 -/

def utf8Step (s : Fin 8) (b : UInt8) : Option (Fin 8) :=
  let n := b.toNat
  let cont := 0x80 ≤ n ∧ n ≤ 0xBF
  match s with
  | 0 => if n < 0x80 then some 0
         else if 0xC2 ≤ n ∧ n ≤ 0xDF then some 1
         else if n = 0xE0 then some 3
         else if n = 0xED then some 4
         else if 0xE1 ≤ n ∧ n ≤ 0xEF then some 2
         else if n = 0xF0 then some 6
         else if n = 0xF4 then some 7
         else if 0xF1 ≤ n ∧ n ≤ 0xF3 then some 5
         else none
  | 1 => if cont then some 0 else none
  | 2 => if cont then some 1 else none
  | 3 => if 0xA0 ≤ n ∧ n ≤ 0xBF then some 1 else none
  | 4 => if 0x80 ≤ n ∧ n ≤ 0x9F then some 1 else none
  | 5 => if cont then some 2 else none
  | 6 => if 0x90 ≤ n ∧ n ≤ 0xBF then some 2 else none
  | 7 => if 0x80 ≤ n ∧ n ≤ 0x8F then some 2 else none

def utf8Run : Fin 8 → Bytes → Bool
  | s, [] => s == 0
  | s, b :: r => match utf8Step s b with
    | some s' => utf8Run s' r
    | none => false

def validUtf8 (l : Bytes) : Bool := utf8Run 0 l
